/-
Translator stage 13: the generated registry bookkeeping `Acme.Gen.R` (Gen/Registry.lean,
regenerated from helpers.go / bus.go / node_iterface.go / node.go on every run) against the hand
model `Acme.Graph`.

* `view : Graph.G → RegSem.H` — the explicit projection of the model's world onto the registry
  heap of the translation (attributes, builders, reference lists, interface counts are dropped;
  `static : Option Nat` becomes the pair `hasStaticCANID / staticCANID`; every bus is CAN 2.0A).
* `obs / obsG` — a generated result and a model step read as one observation: a state and an
  outcome, a Go panic, or "outside the model" (`Res.dangling` ↔ `Out.unsupported`).
* basic laws: `AMap.map`, `set_set`, the `set` methods against `Reg`.

Core Lean only.
-/
import Acme.Gen.Registry
import Acme.Proofs.GraphReg

namespace Acme.GenR
open Acme Acme.Graph Acme.RegSem Acme.Gen

/-! ### AMap: map, set-set -/

def amap {α β : Type} (f : α → β) (m : AMap α) : AMap β := ⟨m.l.map (fun p => (p.1, f p.2))⟩

theorem amap_get {α β : Type} (f : α → β) (m : AMap α) (k : Nat) :
    (amap f m).get k = (m.get k).map f := by
  unfold amap AMap.get
  simp only [List.find?_map]
  cases h : m.l.find? ((fun p => decide (p.1 = k)) ∘ fun p => (p.1, f p.2)) with
  | none =>
    have : m.l.find? (fun p => decide (p.1 = k)) = none := by
      simpa [Function.comp_def] using h
    simp [this]
  | some p =>
    have : m.l.find? (fun p => decide (p.1 = k)) = some p := by
      simpa [Function.comp_def] using h
    simp [this]

theorem amap_set {α β : Type} (f : α → β) (m : AMap α) (k : Nat) (v : α) :
    amap f (m.set k v) = (amap f m).set k (f v) := by
  unfold amap AMap.set
  simp only [List.map_cons, List.filter_map, AMap.mk.injEq, List.cons.injEq, true_and]
  congr 1

theorem set_set {α : Type} (m : AMap α) (k : Nat) (v w : α) : (m.set k v).set k w = m.set k w := by
  unfold AMap.set
  simp only [List.filter_cons, ne_eq, not_true_eq_false, decide_false, Bool.false_eq_true, ↓reduceIte,
    List.filter_filter, Bool.and_self]

theorem get_set_self {α : Type} (m : AMap α) (k : Nat) (v : α) : (m.set k v).get k = some v := by simp

theorem get_set_ne {α : Type} (m : AMap α) (k i : Nat) (v : α) (h : i ≠ k) : (m.set k v).get i = m.get i := by
  simp [h]

/-! ### the view -/

def vNet (e : NetE) : NetR := { busNames := e.busNames }

def vBus (e : BusE) : BusR :=
  { name := e.name, parentNetwork := e.parent, nodeInts := e.nodeInts, nodeNames := e.nodeNames,
    nodeIDs := e.nodeIDs, messageStaticCANIDs := e.staticIDs, typ := 0 }

def vNode (e : NodeE) : NodeR := { name := e.name, id := e.nid, interfaces := e.ifaces.map some }

def vIface (e : IfaceE) : IfaceR :=
  { parentBus := e.parentBus, sentMessages := e.sent, sentMessageNames := e.sentNames,
    sentMessageIDs := e.sentIDs, sentMessageStaticCANIDs := e.sentStatic,
    receivedMessages := e.received, number := e.number, node := some e.node }

def vMsg (e : MsgE) : MsgR :=
  { name := e.name, id := e.mid, hasStaticCANID := e.static.isSome, staticCANID := e.static.getD 0,
    sizeByte := e.sizeByte, senderNodeInt := e.sender, receivers := e.receivers }

/-- the registry heap of a model world -/
def view (g : G) : H :=
  { nets := amap vNet g.nets, buses := amap vBus g.buses, nodes := amap vNode g.nodes,
    ifaces := amap vIface g.ifaces, msgs := amap vMsg g.msgs }

@[simp] theorem view_nets (g : G) (k : Nat) : (view g).nets.get k = (g.nets.get k).map vNet := amap_get _ _ _
@[simp] theorem view_buses (g : G) (k : Nat) : (view g).buses.get k = (g.buses.get k).map vBus := amap_get _ _ _
@[simp] theorem view_nodes (g : G) (k : Nat) : (view g).nodes.get k = (g.nodes.get k).map vNode := amap_get _ _ _
@[simp] theorem view_ifaces (g : G) (k : Nat) : (view g).ifaces.get k = (g.ifaces.get k).map vIface := amap_get _ _ _
@[simp] theorem view_msgs (g : G) (k : Nat) : (view g).msgs.get k = (g.msgs.get k).map vMsg := amap_get _ _ _

/-! ### causes, observations -/

def ofCause : R.Cause → Graph.Cause
  | .ErrIsDuplicated => .duplicated
  | .ErrIsNil => .nil
  | .ErrNotFound => .notFound
  | .ErrReceiverIsSender => .receiverIsSender
  | .ErrTooBig => .tooBig

theorem ofCause_inj : ∀ a b, ofCause a = ofCause b → a = b := by
  intro a b; cases a <;> cases b <;> simp [ofCause]

def outOf : Option R.Err → Out
  | none => .ok
  | some e => .err (ofCause e.cause)

/-- what a run shows: a final state with an outcome (ok / err cause), a panic, or a state of
affairs outside the model -/
inductive Obs where
  | done (h : H) (o : Out)
  | panic
  | outside

def obs : Res (H × Option R.Err) → Obs
  | .val (h, e) => .done h (outOf e)
  | .panic => .panic
  | .dangling => .outside

def obsV : Res H → Obs
  | .val h => .done h .ok
  | .panic => .panic
  | .dangling => .outside

def obsG (p : G × Out) : Obs :=
  match p.2 with
  | .unsupported => .outside
  | .panic => .panic
  | o => .done (view p.1) o

/-- heaps are compared by look-up (the order of an `AMap`'s list is an artefact of `set`) -/
structure Heq (h1 h2 : H) : Prop where
  nets : ∀ k, h1.nets.get k = h2.nets.get k
  buses : ∀ k, h1.buses.get k = h2.buses.get k
  nodes : ∀ k, h1.nodes.get k = h2.nodes.get k
  ifaces : ∀ k, h1.ifaces.get k = h2.ifaces.get k
  msgs : ∀ k, h1.msgs.get k = h2.msgs.get k

theorem Heq.rfl' (h : H) : Heq h h := ⟨fun _ => rfl, fun _ => rfl, fun _ => rfl, fun _ => rfl, fun _ => rfl⟩

def ObsEq : Obs → Obs → Prop
  | .done h o, .done h' o' => Heq h h' ∧ o = o'
  | .panic, .panic => True
  | .outside, .outside => True
  | _, _ => False

theorem obs_of_exists {r : Res (H × Option R.Err)} {X : Obs} {P : H → Prop}
    (hex : ∃ h', r = .val (h', none) ∧ P h') (hx : ∀ h', P h' → ObsEq (.done h' .ok) X) : ObsEq (obs r) X := by
  obtain ⟨h', e, hp⟩ := hex
  rw [e]; exact hx h' hp

theorem obsV_of_exists {r : Res H} {X : Obs} {P : H → Prop}
    (hex : ∃ h', r = .val h' ∧ P h') (hx : ∀ h', P h' → ObsEq (.done h' .ok) X) : ObsEq (obsV r) X := by
  obtain ⟨h', e, hp⟩ := hex
  rw [e]; exact hx h' hp

/-- closes `Heq h (view g')` when both sides are explicit `set` chains -/
macro "heq_fin" : tactic => `(tactic|
  (refine ⟨?_, ?_, ?_, ?_, ?_⟩ <;> intro k <;>
    (try simp [vIface, vMsg, vBus, vNode, vNet]) <;>
    (try ((repeat' split) <;> simp_all [vIface, vMsg, vBus, vNode, vNet]))))

/-- no dangling id: everything a registry or a link of the world names is in the world (the heap
of a Go program always is; for the model it follows from `Inv`, see `closed_of_inv`) -/
structure Closed (g : G) : Prop where
  node : ∀ i ifc, g.ifaces.get i = some ifc → g.nodes.get ifc.node ≠ none
  sent : ∀ i ifc, g.ifaces.get i = some ifc → ∀ m ∈ ifc.sent.vals, g.msgs.get m ≠ none
  recv : ∀ i ifc, g.ifaces.get i = some ifc → ∀ m ∈ ifc.received.vals, g.msgs.get m ≠ none
  ints : ∀ b bus, g.buses.get b = some bus → ∀ i ∈ bus.nodeInts.vals, g.ifaces.get i ≠ none
  nifs : ∀ n nd, g.nodes.get n = some nd → ∀ i ∈ nd.ifaces, g.ifaces.get i ≠ none
  pbus : ∀ i ifc b, g.ifaces.get i = some ifc → ifc.parentBus = some b → g.buses.get b ≠ none
  pnet : ∀ b bus n, g.buses.get b = some bus → bus.parent = some n → g.nets.get n ≠ none

/-- the argument pointer of a model operation: an id that is not in the world stands for `nil` -/
def argPtr {α : Type} (m : AMap α) (x : Nat) : Option Nat := if (m.get x).isSome then some x else none

/-! ### the `set` methods against `Reg` -/

theorem lookup_eq_get {κ : Type} [DecidableEq κ] (r : Reg κ) (k : κ) : GoMap.lookup r k = Reg.get r k := rfl

theorem set_add_eq {κ : Type} [DecidableEq κ] (r : Reg κ) (k : κ) (v : Nat) : R.set_add r k v = Reg.add r k v := rfl

theorem set_remove_eq {κ : Type} [DecidableEq κ] (r : Reg κ) (k : κ) : R.set_remove r k = Reg.remove r k := rfl

theorem set_modifyKey_eq {κ : Type} [DecidableEq κ] (r : Reg κ) (a b : κ) (v : Nat) :
    R.set_modifyKey r a b v = Reg.add (Reg.remove r a) b v := rfl

theorem set_hasKey_eq {κ : Type} [DecidableEq κ] (r : Reg κ) (k : κ) : R.set_hasKey r k = Reg.has r k := by
  unfold R.set_hasKey
  rw [Reg.has_eq, lookup_eq_get]
  cases Reg.get r k <;> rfl

theorem set_verifyKeyUnique_eq {κ : Type} [DecidableEq κ] (r : Reg κ) (k : κ) :
    R.set_verifyKeyUnique r k = if Reg.has r k then some ⟨.ErrIsDuplicated, ""⟩ else none := by
  unfold R.set_verifyKeyUnique
  rw [Reg.has_eq, lookup_eq_get]
  cases Reg.get r k <;> rfl

theorem set_getValue_eq {κ : Type} [DecidableEq κ] (r : Reg κ) (k : κ) :
    R.set_getValue r k = match Reg.get r k with
      | some v => (some v, none)
      | none => (none, some ⟨.ErrNotFound, ""⟩) := by
  unfold R.set_getValue
  rw [lookup_eq_get]
  cases Reg.get r k <;> rfl

theorem set_size_eq {κ : Type} [DecidableEq κ] (r : Reg κ) : R.set_size r = (r.length : Int) := rfl

theorem clear_loop_eq {κ ν : Type} [DecidableEq κ] (s : GoMap κ ν) (ks : List κ) :
    R.set_clear_loop1 s ks = s.filter (fun p => decide (p.1 ∉ ks)) := by
  induction ks generalizing s with
  | nil =>
    simp only [R.set_clear_loop1, R.set_clear_after1, List.not_mem_nil, not_false_eq_true, decide_true]
    exact (List.filter_eq_self.2 (fun _ _ => rfl)).symm
  | cons k ks ih =>
    simp only [R.set_clear_loop1]
    rw [ih]
    unfold GoMap.delete
    rw [List.filter_filter]
    congr 1
    funext p
    by_cases h1 : p.1 = k <;> by_cases h2 : p.1 ∈ ks <;> simp [h1, h2]

theorem set_clear_eq {κ ν : Type} [DecidableEq κ] (s : GoMap κ ν) : R.set_clear s = [] := by
  unfold R.set_clear
  rw [clear_loop_eq]
  apply List.filter_eq_nil_iff.2
  intro p hp
  have : p.1 ∈ GoMap.keys s := List.mem_map.2 ⟨p, hp, rfl⟩
  simp [this]

end Acme.GenR
