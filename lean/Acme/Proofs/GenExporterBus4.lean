/-
Bus level of the generated exporter, part 4: the map `e.sigEnums` after the walk (`regEnums_nil`),
sorting by name (`sortStr` is sorted; a name-sorted permutation of a list with distinct names is
unique), the value tables (`X_tables_loop`).
-/
import Acme.Proofs.GenExporterBus3
namespace Acme.GenX
open Acme.ImportBus Acme.ExportBus Acme.XSem Acme.Gen

/-! ## `e.sigEnums` -/

theorem mapSet_mem {ν : Type} (f : Nat → ν) (x : Nat) : ∀ (ks : List Nat), x ∈ ks →
    mapSet (ks.map (fun e => (e, f e))) x (f x) = ks.map (fun e => (e, f e))
  | [], h => by cases h
  | k :: r, h => by
    rw [List.map_cons, mapSet]
    by_cases hk : k = x
    · simp [hk]
    · have hr : x ∈ r := by
        rcases List.mem_cons.mp h with h' | h'
        · exact absurd h'.symm hk
        · exact h'
      simp only [hk, if_false]
      rw [mapSet_mem f x r hr]

theorem mapSet_not_mem {ν : Type} (f : Nat → ν) (x : Nat) : ∀ (ks : List Nat), x ∉ ks →
    mapSet (ks.map (fun e => (e, f e))) x (f x) = (ks ++ [x]).map (fun e => (e, f e))
  | [], _ => rfl
  | k :: r, h => by
    rw [List.map_cons, mapSet]
    have hk : ¬ k = x := fun hk => h (hk ▸ List.mem_cons_self ..)
    simp only [hk, if_false]
    rw [mapSet_not_mem f x r (fun hr => h (List.mem_cons_of_mem _ hr))]
    rfl

theorem fold_mapSet {ν : Type} (f : Nat → ν) : ∀ (l ks : List Nat),
    l.foldl (fun acc e => mapSet acc e (f e)) (ks.map (fun e => (e, f e))) =
      (ks ++ (dedupNat l).filter (fun y => decide (y ∉ ks))).map (fun e => (e, f e))
  | [], ks => by simp [dedupNat]
  | x :: r, ks => by
    rw [List.foldl_cons]
    by_cases hx : x ∈ ks
    · rw [mapSet_mem f x ks hx, fold_mapSet f r ks]
      congr 2
      rw [dedupNat, List.filter_cons]
      simp only [hx, not_true_eq_false, decide_false, Bool.false_eq_true, if_false]
      rw [List.filter_filter]
      apply List.filter_congr
      intro y _
      by_cases hy : y ∈ ks
      · simp [hy]
      · have : y ≠ x := fun h => hy (h ▸ hx)
        simp [hy, this]
    · rw [mapSet_not_mem f x ks hx, fold_mapSet f r (ks ++ [x])]
      congr 1
      rw [dedupNat, List.filter_cons]
      simp only [hx, not_false_eq_true, decide_true, if_true]
      rw [List.filter_filter, List.append_assoc]
      congr 1
      rw [List.singleton_append]
      congr 1
      apply List.filter_congr
      intro y _
      simp [not_or, Bool.and_comm]

theorem regEnums_nil (b : MBus) (en : List Nat) :
    regEnums b [] en = (dedupNat en).map (fun e => (e, viewEnum b e)) := by
  have := fold_mapSet (viewEnum b) en []
  have ht : (dedupNat en).filter (fun _ => true) = dedupNat en := List.filter_eq_self.mpr (fun _ _ => rfl)
  simpa [regEnums, ht] using this

/-! ## sorting by name -/

theorem insStr_sorted {α : Type} (key : α → String) (x : α) : ∀ l : List α,
    l.Pairwise (fun a c => key a ≤ key c) → (insStr key x l).Pairwise (fun a c => key a ≤ key c)
  | [], _ => by simp [insStr]
  | y :: r, h => by
    rw [insStr]
    rw [List.pairwise_cons] at h
    by_cases hxy : key x ≤ key y
    · rw [if_pos hxy, List.pairwise_cons]
      refine ⟨?_, List.pairwise_cons.mpr h⟩
      intro z hz
      rcases List.mem_cons.mp hz with hz | hz
      · rw [hz]; exact hxy
      · exact String.le_trans hxy (h.1 z hz)
    · rw [if_neg hxy, List.pairwise_cons]
      refine ⟨?_, insStr_sorted key x r h.2⟩
      intro z hz
      rcases List.mem_cons.mp ((insStr_perm key x r).mem_iff.mp hz) with hz | hz
      · rw [hz]
        rcases String.le_total (key x) (key y) with h' | h'
        · exact absurd h' hxy
        · exact h'
      · exact h.1 z hz

theorem sortStr_sorted {α : Type} (key : α → String) : ∀ l : List α,
    (sortStr key l).Pairwise (fun a c => key a ≤ key c)
  | [] => List.Pairwise.nil
  | x :: r => by rw [sortStr]; exact insStr_sorted key x _ (sortStr_sorted key r)

/-- a name-sorted permutation of a list with pairwise different names is unique -/
theorem sorted_perm_unique {α : Type} (key : α → String) {l l1 l2 : List α} (hnd : (l.map key).Nodup)
    (p1 : l1.Perm l) (p2 : l2.Perm l) (s1 : l1.Pairwise (fun a c => key a ≤ key c))
    (s2 : l2.Pairwise (fun a c => key a ≤ key c)) : l1 = l2 := by
  refine List.Perm.eq_of_pairwise (le := fun a c => key a ≤ key c) ?_ s1 s2 (p1.trans p2.symm)
  intro a c ha hc h1 h2
  exact eq_of_nodup_map hnd (p1.mem_iff.mp ha) (p2.mem_iff.mp hc) (String.le_antisymm h1 h2)

/-! ## the value tables -/

def tableOfEnum (e : SigEnum) : Acme.Dbc.ValueTable :=
  { name := e.name, values := X.getDBCValueDescription e.values }

theorem X_tables_loop : ∀ (l : List SigEnum) (st : XSem.St),
    X.exportBus_loop2 id l st = { st with valueTables := st.valueTables ++ l.map tableOfEnum }
  | [], st => by rw [X.exportBus_loop2]; simp
  | e :: r, st => by
    rw [X.exportBus_loop2, X_tables_loop r]
    simp [X.exportSignalEnum, tableOfEnum]
end Acme.GenX
