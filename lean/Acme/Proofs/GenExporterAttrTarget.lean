/- The attribute functions are generated into Acme/Gen/Exporter.lean (this module only re-exports it;
   it was the hand-written target while the translator was being extended). -/
import Acme.Gen.Exporter
