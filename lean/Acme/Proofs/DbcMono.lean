/-
C08: `fileOK` is monotone in the predicate on float texts (`DbcWF → DbcWFParsed`).
-/
import Acme.Spec.Dbc
import Acme.Proofs.DbcNum

set_option linter.unusedSimpArgs false

namespace Acme.Dbc

section
variable {fl fl' : String → Bool} (hm : ∀ s, fl s = true → fl' s = true)
include hm

theorem signalOK_mono {s : Signal} (h : signalOK fl s = true) : signalOK fl' s = true := by
  simp only [signalOK, Bool.and_eq_true] at h ⊢
  obtain ⟨⟨⟨⟨⟨⟨⟨⟨⟨⟨⟨a, b⟩, c⟩, d⟩, e⟩, f1⟩, f2⟩, f3⟩, f4⟩, g⟩, i⟩, j⟩ := h
  exact ⟨⟨⟨⟨⟨⟨⟨⟨⟨⟨⟨a, b⟩, c⟩, d⟩, e⟩, hm _ f1⟩, hm _ f2⟩, hm _ f3⟩, hm _ f4⟩, g⟩, i⟩, j⟩

theorem messageOK_mono {m : Message} (h : messageOK fl m = true) : messageOK fl' m = true := by
  simp only [messageOK, Bool.and_eq_true, List.all_eq_true] at h ⊢
  exact ⟨h.1, fun s hs => signalOK_mono hm (h.2 s hs)⟩

theorem envVarOK_mono {e : EnvVar} (h : envVarOK fl e = true) : envVarOK fl' e = true := by
  simp only [envVarOK, Bool.and_eq_true] at h ⊢
  obtain ⟨⟨⟨⟨⟨⟨⟨a, f1⟩, f2⟩, b⟩, f3⟩, c⟩, d⟩, e'⟩ := h
  exact ⟨⟨⟨⟨⟨⟨⟨a, hm _ f1⟩, hm _ f2⟩, b⟩, hm _ f3⟩, c⟩, d⟩, e'⟩

theorem signalTypeOK_mono {t : SignalType} (h : signalTypeOK fl t = true) :
    signalTypeOK fl' t = true := by
  simp only [signalTypeOK, Bool.and_eq_true] at h ⊢
  obtain ⟨⟨⟨⟨⟨⟨⟨⟨a, b⟩, f1⟩, f2⟩, f3⟩, f4⟩, c⟩, f5⟩, d⟩ := h
  exact ⟨⟨⟨⟨⟨⟨⟨⟨a, b⟩, hm _ f1⟩, hm _ f2⟩, hm _ f3⟩, hm _ f4⟩, c⟩, hm _ f5⟩, d⟩

theorem attributeOK_mono {a : Attribute} (h : attributeOK fl a = true) :
    attributeOK fl' a = true := by
  simp only [attributeOK, Bool.and_eq_true] at h ⊢
  refine ⟨h.1, ?_⟩
  have h2 := h.2
  cases hty : a.type <;> rw [hty] at h2 <;> simp only at h2 ⊢ <;> try exact h2
  simp only [Bool.and_eq_true] at h2 ⊢
  exact ⟨hm _ h2.1, hm _ h2.2⟩

theorem taggedValOK_mono {v : TaggedVal} (h : taggedValOK fl v = true) :
    taggedValOK fl' v = true := by
  simp only [taggedValOK, Bool.and_eq_true] at h ⊢
  refine ⟨h.1, ?_⟩
  have h2 := h.2
  cases hty : v.type <;> rw [hty] at h2 <;> simp only at h2 ⊢ <;> try exact h2
  exact hm _ h2

theorem attributeDefaultOK_mono {d : AttributeDefault} (h : attributeDefaultOK fl d = true) :
    attributeDefaultOK fl' d = true := by
  simp only [attributeDefaultOK, Bool.and_eq_true] at h ⊢
  exact ⟨h.1, taggedValOK_mono hm h.2⟩

theorem attributeValueOK_mono {v : AttributeValue} (h : attributeValueOK fl v = true) :
    attributeValueOK fl' v = true := by
  simp only [attributeValueOK, Bool.and_eq_true] at h ⊢
  exact ⟨⟨⟨h.1.1.1, taggedValOK_mono hm h.1.1.2⟩, h.1.2⟩, h.2⟩

theorem fileOK_mono {f : File} (h : fileOK fl f = true) : fileOK fl' f = true := by
  simp only [fileOK, Bool.and_eq_true, List.all_eq_true] at h ⊢
  obtain ⟨⟨⟨⟨⟨⟨⟨⟨⟨⟨⟨⟨⟨⟨⟨⟨⟨⟨h0, h1⟩, h2⟩, h3⟩, h4⟩, h5⟩, h6⟩, h7⟩, h8⟩, h9⟩, h10⟩, h11⟩, h12⟩, h13⟩,
    h14⟩, h15⟩, h16⟩, h17⟩, h18⟩ := h
  exact ⟨⟨⟨⟨⟨⟨⟨⟨⟨⟨⟨⟨⟨⟨⟨⟨⟨⟨h0, h1⟩, h2⟩, h3⟩, h4⟩, fun x hx => messageOK_mono hm (h5 x hx)⟩, h6⟩,
    fun x hx => envVarOK_mono hm (h7 x hx)⟩, h8⟩, fun x hx => signalTypeOK_mono hm (h9 x hx)⟩,
    h10⟩, fun x hx => attributeOK_mono hm (h11 x hx)⟩,
    fun x hx => attributeDefaultOK_mono hm (h12 x hx)⟩,
    fun x hx => attributeValueOK_mono hm (h13 x hx)⟩, h14⟩, h15⟩, h16⟩, h17⟩, h18⟩

end

end Acme.Dbc
