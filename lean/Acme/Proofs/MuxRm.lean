/-
Multiplexer world, part L: `mux.rm` (`MultiplexerSignal.RemoveSignal`) and `msg.rm`.
-/
import Acme.Proofs.MuxDetach

namespace Acme.Mux
open Acme.Layout Acme.Arith

/-! ### lookup laws of the small updaters -/

theorem updMux_get (w : MW) (x : Nat) (f : MuxD → MuxD) (i : Nat) :
    (updMux w x f).sigs.get i =
      if i = x then (w.sigs.get x).map (fun xe => { xe with mx := f xe.mx }) else w.sigs.get i := by
  unfold updMux
  cases hx : w.sigs.get x with
  | none =>
    by_cases hi : i = x
    · subst hi; simp [hx]
    · simp [hi]
  | some xe =>
    simp only [AMap.get_set]
    by_cases hi : i = x <;> simp [hi]

theorem updMux_msgs (w : MW) (x : Nat) (f : MuxD → MuxD) : (updMux w x f).msgs = w.msgs := by
  unfold updMux; split <;> rfl

theorem setParentMux_get (w : MW) (s : Nat) (p : Option Nat) (i : Nat) :
    (setParentMux w s p).sigs.get i =
      if i = s then (w.sigs.get s).map (fun e => { e with parentMux := p }) else w.sigs.get i := by
  unfold setParentMux
  cases hs : w.sigs.get s with
  | none =>
    by_cases hi : i = s
    · subst hi; simp [hs]
    · simp [hi]
  | some e =>
    simp only [AMap.get_set]
    by_cases hi : i = s <;> simp [hi]

theorem setParentMux_msgs (w : MW) (s : Nat) (p : Option Nat) : (setParentMux w s p).msgs = w.msgs := by
  unfold setParentMux; split <;> rfl

/-- the groups after `s` was removed from the groups `ks` -/
def delMany (groups : List (List Nat)) (s : Nat) : List Nat → List (List Nat)
  | [] => groups
  | k :: rest => delMany (groups.set k (sDel (groups.getD k []) s)) s rest

theorem delMany_length (groups : List (List Nat)) (s : Nat) (ks : List Nat) :
    (delMany groups s ks).length = groups.length := by
  induction ks generalizing groups with
  | nil => rfl
  | cons k rest ih => simp [delMany, ih]

theorem getD_set {α : Type} (l : List α) (k j : Nat) (a d : α) :
    (l.set k a).getD j d = if j = k ∧ k < l.length then a else l.getD j d := by
  simp only [List.getD_eq_getElem?_getD, List.getElem?_set]
  by_cases hjk : k = j
  · subst hjk
    by_cases hk : k < l.length
    · simp [hk]
    · simp [hk]
  · have : ¬ j = k := fun e => hjk e.symm
    simp [hjk, this]

theorem delMany_getD (groups : List (List Nat)) (s : Nat) (ks : List Nat) (j : Nat) :
    (delMany groups s ks).getD j [] = if j ∈ ks then sDel (groups.getD j []) s else groups.getD j [] := by
  induction ks generalizing groups with
  | nil => simp [delMany]
  | cons k rest ih =>
    simp only [delMany, ih, getD_set, List.mem_cons]
    by_cases hjr : j ∈ rest
    · simp only [hjr, or_true, ↓reduceIte]
      by_cases hjk : j = k ∧ k < groups.length
      · rw [if_pos hjk, hjk.1]
        unfold sDel; simp
      · rw [if_neg hjk]
    · simp only [hjr, or_false, ↓reduceIte]
      by_cases hjk : j = k
      · subst hjk
        by_cases hlt : j < groups.length
        · simp [hlt]
        · simp only [hlt, and_false, ↓reduceIte, true_or]
          have : groups.getD j [] = [] := by
            simp [List.getD_eq_getElem?_getD, List.getElem?_eq_none (Nat.le_of_not_lt hlt)]
          rw [this]; rfl
      · simp [hjk]

theorem sDel_of_not_mem (l : List Nat) (s : Nat) (h : s ∉ l) : sDel l s = l := by
  unfold sDel
  rw [List.filter_eq_self]
  intro a ha
  simp only [ne_eq, decide_eq_true_eq]
  rintro rfl
  exact h ha

/-- what `removeMany` needs of the groups: well-formed slices of stored signals -/
def GroupsGeo (w : MW) (gs : Int) (groups : List (List Nat)) : Prop :=
  ∀ g ∈ groups, WF gs (slotsOf w g) ∧ ∀ i ∈ g, (w.sigs.get i).isSome

theorem removeMany_spec (w : MW) (x : Nat) (xe : SigE) (gs : Int) (hgs : 0 ≤ gs)
    (hx : w.sigs.get x = some xe) (hg : GroupsGeo w gs xe.mx.groups) (s : Nat) (ks : List Nat) :
    (removeMany w x s ks).2 = false ∧ (removeMany w x s ks).1.msgs = w.msgs ∧
    ∀ i, (removeMany w x s ks).1.sigs.get i =
      if i = x then some { xe with mx := { xe.mx with groups := delMany xe.mx.groups s ks } } else w.sigs.get i := by
  induction ks generalizing w xe with
  | nil =>
    refine ⟨rfl, rfl, ?_⟩
    intro i
    by_cases hi : i = x
    · subst hi; simp [removeMany, delMany, hx]
    · simp [removeMany, hi]
  | cons k rest ih =>
    simp only [removeMany]
    have hg1 : ∀ i, (groupRemove w x k s).sigs.get i =
        if i = x then some { xe with mx := { xe.mx with groups := xe.mx.groups.set k (sDel (xe.mx.groups.getD k []) s) } }
        else w.sigs.get i := by
      intro i
      unfold groupRemove
      rw [updMux_get, hx]
      rfl
    have hx1 := hg1 x
    rw [if_pos rfl] at hx1
    have hcongr : ∀ g : List Nat, slotsOf (groupRemove w x k s) g = slotsOf w g := by
      intro g
      apply slotsOf_congr
      intro i _
      rw [hg1]
      by_cases hi : i = x
      · subst hi; simp [hx, geo, sigSize]
      · simp [hi]
    have hstored : ∀ i, (w.sigs.get i).isSome → ((groupRemove w x k s).sigs.get i).isSome := by
      intro i hi
      rw [hg1]
      by_cases hix : i = x
      · simp [hix]
      · simp [hix, hi]
    have hgeo1 : GroupsGeo (groupRemove w x k s) gs (xe.mx.groups.set k (sDel (xe.mx.groups.getD k []) s)) := by
      intro g hgm
      rcases List.mem_or_eq_of_mem_set hgm with hgm | rfl
      · obtain ⟨a, b⟩ := hg g hgm
        exact ⟨by rw [hcongr]; exact a, fun i hi => hstored i (b i hi)⟩
      · by_cases hlt : k < xe.mx.groups.length
        · obtain ⟨a, b⟩ := hg _ (getD_mem xe.mx.groups k [] hlt)
          refine ⟨?_, fun i hi => hstored i (b i ((mem_sDel _ _ _).mp hi).1)⟩
          rw [hcongr, slotsOf_sDel w _ s b]
          exact (remove_wf gs _ a s).1
        · have : xe.mx.groups.getD k [] = [] := by
            simp [List.getD_eq_getElem?_getD, List.getElem?_eq_none (Nat.le_of_not_lt hlt)]
          rw [this]
          refine ⟨?_, fun i hi => by simp [sDel] at hi⟩
          simp only [sDel, List.filter_nil, slotsOf, WF, WFfrom]
          exact hgs
    have hnp : genPanics (groupRemove w x k s) (groupOf (groupRemove w x k s) x k) = false := by
      unfold groupOf
      rw [hx1]
      simp only
      by_cases hlt : k < xe.mx.groups.length
      · have hm : (xe.mx.groups.set k (sDel (xe.mx.groups.getD k []) s)).getD k [] ∈
            xe.mx.groups.set k (sDel (xe.mx.groups.getD k []) s) :=
          getD_mem _ _ _ (by simp [hlt])
        exact genPanics_false _ gs _ (hgeo1 _ hm).1
      · have : (xe.mx.groups.set k (sDel (xe.mx.groups.getD k []) s)).getD k [] = [] := by
          rw [List.getD_eq_getElem?_getD, List.getElem?_eq_none (by simp; omega)]
          rfl
        rw [this]
        rfl
    rw [hnp]
    simp only [Bool.false_eq_true, ↓reduceIte]
    obtain ⟨i1, i2, i3⟩ := ih (groupRemove w x k s) _ hx1 hgeo1
    refine ⟨i1, ?_, ?_⟩
    · rw [i2]; unfold groupRemove; exact updMux_msgs _ _ _
    · intro i
      rw [i3, hg1]
      by_cases hi : i = x
      · simp [hi, delMany]
      · simp [hi]

/-- the common tail of the two branches of `RemoveSignal` -/
def rmTail (w1 : MW) (x s : Nat) (f : MuxD → MuxD) : MW := updMux (muxRemoveSignal w1 x s) x f

theorem SigE.pmsg_eta (e : SigE) (h : e.parentMsg = none) : ({ e with parentMsg := none } : SigE) = e := by
  cases e; simp_all

/-- ancestor chains below `s` do not depend on the parent link of `s` itself -/
theorem Anc_below_congr (w w' : MW) (hacy : TreeOK w) (s : Nat)
    (hsame : ∀ i, i ≠ s → (w'.sigs.get i).map (·.parentMux) = (w.sigs.get i).map (·.parentMux))
    (hs' : ∀ e', w'.sigs.get s = some e' → e'.parentMux = none)
    (k : Nat) (t : Nat) : Anc w' (k + 1) t s ↔ Anc w (k + 1) t s := by
  induction k generalizing t with
  | zero =>
    simp only [Anc]
    by_cases hts : t = s
    · subst hts
      constructor
      · rintro ⟨e', p, he', hp, _⟩
        rw [hs' e' he'] at hp; cases hp
      · rintro ⟨e, p, he, hp, hps⟩
        exact absurd ⟨0, e, p, he, hp, hps⟩ (not_below_self w hacy t)
    · have := hsame t hts
      constructor
      · rintro ⟨e', p, he', hp, hps⟩
        rw [he'] at this
        cases hg : w.sigs.get t with
        | none => rw [hg] at this; simp at this
        | some e =>
          rw [hg] at this; simp only [Option.map_some, Option.some.injEq] at this
          exact ⟨e, p, rfl, by rw [← this, hp], hps⟩
      · rintro ⟨e, p, he, hp, hps⟩
        rw [he] at this
        cases hg : w'.sigs.get t with
        | none => rw [hg] at this; simp at this
        | some e' =>
          rw [hg] at this; simp only [Option.map_some, Option.some.injEq] at this
          exact ⟨e', p, rfl, by rw [this, hp], hps⟩
  | succ k ih =>
    by_cases hts : t = s
    · subst hts
      constructor
      · rintro ⟨e', p, he', hp, _⟩
        rw [hs' e' he'] at hp; cases hp
      · intro ha
        exact absurd ⟨k + 1, ha⟩ (not_below_self w hacy t)
    · have := hsame t hts
      constructor
      · rintro ⟨e', p, he', hp, hr⟩
        rw [he'] at this
        cases hg : w.sigs.get t with
        | none => rw [hg] at this; simp at this
        | some e =>
          rw [hg] at this; simp only [Option.map_some, Option.some.injEq] at this
          exact ⟨e, p, hg, by rw [← this, hp], (ih p).mp hr⟩
      · rintro ⟨e, p, he, hp, hr⟩
        rw [he] at this
        cases hg : w'.sigs.get t with
        | none => rw [hg] at this; simp at this
        | some e' =>
          rw [hg] at this; simp only [Option.map_some, Option.some.injEq] at this
          exact ⟨e', p, hg, by rw [this, hp], (ih p).mpr hr⟩

theorem parent_not_below (w : MW) (h : TreeOK w) (s x : Nat) (se : SigE) (hs : w.sigs.get s = some se)
    (hsx : se.parentMux = some x) : ¬ Below w x s := by
  intro hb
  exact not_below_self w h s ((below_parent w s s se x hs hsx).mpr (Or.inr hb))

theorem rmTail_spec (w : MW) (h : InvCore w) (x s : Nat) (xe se : SigE) (gc gs : Int)
    (hx : w.sigs.get x = some xe) (hk : xe.kind = .mux gc gs)
    (hs : w.sigs.get s = some se) (hsx : se.parentMux = some x)
    (w1 : MW) (G' : List (List Nat)) (hm1 : w1.msgs = w.msgs)
    (hg1 : ∀ i, w1.sigs.get i = if i = x then some { xe with mx := { xe.mx with groups := G' } } else w.sigs.get i)
    (f : MuxD → MuxD) :
    (rmTail w1 x s f).sigs.get x = some { xe with mx := f { xe.mx with groups := G', signals := sDel xe.mx.signals s, signalNames := nmDel xe.mx.signalNames se.name } } ∧
    (rmTail w1 x s f).sigs.get s = some { se with parentMux := none, parentMsg := none } ∧
    (∀ t, Below w t s → (rmTail w1 x s f).sigs.get t = (w.sigs.get t).map (fun e => { e with parentMsg := none })) ∧
    (∀ t, t ≠ x → t ≠ s → ¬ Below w t s → (rmTail w1 x s f).sigs.get t = w.sigs.get t) ∧
    (xe.parentMsg = none → (rmTail w1 x s f).msgs = w.msgs) ∧
    (∀ m, xe.parentMsg = some m → ∃ msg ks D, w.msgs.get m = some msg ∧ (∀ t, t ∈ D ↔ Below w t s) ∧
         (∀ n, n ∈ ks ↔ ∃ i, i ∈ s :: D ∧ nameOf w i = n) ∧
         ∀ j, (rmTail w1 x s f).msgs.get j = if j = m then some { msg with signals := sDelAll msg.signals (s :: D), signalNames := nmDelAll msg.signalNames ks } else w.msgs.get j) := by
  have hxs : x ≠ s := by rintro rfl; exact self_not_parent w h x se hs hsx
  have hsx' : s ≠ x := fun e => hxs e.symm
  have hpmeq : xe.parentMsg = se.parentMsg := by
    obtain ⟨xe', _, _, hx', _, hp⟩ := h.parentIsMux s se x hs hsx
    rw [hx] at hx'; cases hx'; exact hp
  have hname1 : nameOf w1 s = se.name := by
    unfold nameOf; rw [hg1, if_neg hsx', hs]
  -- the world before the message registry is touched
  generalize hw2b : setParentMux (updMux w1 x (fun d => { d with signals := sDel d.signals s, signalNames := nmDel d.signalNames (nameOf w1 s) })) s none = w2b
  have hg2 : ∀ i, w2b.sigs.get i =
      if i = s then some { se with parentMux := none }
      else if i = x then some { xe with mx := { xe.mx with groups := G', signals := sDel xe.mx.signals s, signalNames := nmDel xe.mx.signalNames se.name } }
      else w.sigs.get i := by
    intro i
    rw [← hw2b, setParentMux_get, updMux_get, updMux_get, hg1, hg1, if_neg hsx', hs, hname1]
    by_cases his : i = s
    · subst his; simp [hsx']
    · by_cases hix : i = x
      · subst hix; simp [his]
      · simp [his, hix, hg1]
  have hm2 : w2b.msgs = w.msgs := by
    rw [← hw2b, setParentMux_msgs, updMux_msgs, hm1]
  have hpm2 : parentMsgOf w2b x = xe.parentMsg := by
    unfold parentMsgOf; rw [hg2, if_neg hxs, if_pos rfl]
  have hrm_none : xe.parentMsg = none → rmTail w1 x s f = updMux w2b x f := by
    intro hpm
    unfold rmTail muxRemoveSignal
    simp only
    rw [hw2b, hpm2, hpm]
  have hrm_some : ∀ m, xe.parentMsg = some m → rmTail w1 x s f = updMux (msgRemoveSignal w2b m s) x f := by
    intro m hpm
    unfold rmTail muxRemoveSignal
    simp only
    rw [hw2b, hpm2, hpm]
  have hbelow_facts : ∀ t, Below w t s → ∃ e, w.sigs.get t = some e ∧ e.parentMsg = se.parentMsg ∧ t ≠ s ∧ t ≠ x := by
    intro t hb
    obtain ⟨e, he, a1, _, a3⟩ := below_registered w h s t se hs hb
    refine ⟨e, he, a1, a3, ?_⟩
    rintro rfl
    exact parent_not_below w h.treeOK s t se hs hsx hb
  by_cases hpmn : xe.parentMsg = none
  · have hsenone : se.parentMsg = none := by rw [← hpmeq, hpmn]
    rw [hrm_none hpmn]
    refine ⟨?_, ?_, ?_, ?_, ?_, ?_⟩
    · rw [updMux_get, if_pos rfl, hg2, if_neg hxs, if_pos rfl]; rfl
    · rw [updMux_get, if_neg hsx', hg2, if_pos rfl]
      congr 1
      cases se; simp_all
    · intro t hb
      obtain ⟨e, he, a1, a2, a3⟩ := hbelow_facts t hb
      rw [updMux_get, if_neg a3, hg2, if_neg a2, if_neg a3, he]
      simp only [Option.map_some, Option.some.injEq]
      exact (SigE.pmsg_eta e (by rw [a1, hsenone])).symm
    · intro t h1 h2 _
      rw [updMux_get, if_neg h1, hg2, if_neg h2, if_neg h1]
    · intro _; rw [updMux_msgs, hm2]
    · intro m hpm; rw [hpmn] at hpm; cases hpm
  · obtain ⟨m, hpm⟩ : ∃ m, xe.parentMsg = some m := by
      cases hh : xe.parentMsg with
      | none => exact absurd hh hpmn
      | some m => exact ⟨m, rfl⟩
    rw [hrm_some m hpm]
    have hsem : se.parentMsg = some m := by rw [← hpmeq, hpm]
    obtain ⟨msg, hmsg⟩ : ∃ msg, w.msgs.get m = some msg := by
      have := h.parentMsgExists x xe m hx hpm
      cases hg : w.msgs.get m with
      | none => rw [hg] at this; simp at this
      | some msg => exact ⟨msg, rfl⟩
    have hmsg2 : w2b.msgs.get m = some msg := by rw [hm2]; exact hmsg
    rw [msgRemoveSignal_eq w2b m s msg hmsg2]
    -- the tree of w2b
    have ht2 : TreeOK w2b := by
      refine ⟨?_, ?_, ?_⟩
      · intro t e' p ht hp
        have : ∃ pe, w.sigs.get p = some pe := by
          rw [hg2] at ht
          by_cases hts : t = s
          · rw [if_pos hts] at ht; cases ht; cases hp
          · rw [if_neg hts] at ht
            by_cases htx : t = x
            · rw [if_pos htx] at ht; cases ht
              exact h.treeOK.parentStored x xe p hx hp
            · rw [if_neg htx] at ht
              exact h.treeOK.parentStored t e' p ht hp
        obtain ⟨pe, hpe⟩ := this
        rw [hg2]
        by_cases hps : p = s
        · simp [hps]
        · by_cases hpx : p = x
          · simp [hpx, hxs]
          · simp [hps, hpx, hpe]
      · intro y c
        have hch : childrenOf w2b y = if y = x then sDel xe.mx.signals s else childrenOf w y := by
          unfold childrenOf
          rw [hg2]
          by_cases hys : y = s
          · subst hys; simp [hsx', hs]
          · by_cases hyx : y = x
            · subst hyx; simp [hys, hk, hx]
            · simp [hys, hyx]
        rw [hch]
        have hxo := h.muxOK hx hk
        by_cases hyx : y = x
        · subst hyx
          simp only [↓reduceIte, mem_sDel]
          rw [hxo.child]
          constructor
          · rintro ⟨⟨e, he, hp⟩, hcs⟩
            have hcx : c ≠ y := by rintro rfl; exact self_not_parent w h c e he hp
            exact ⟨e, by rw [hg2, if_neg hcs, if_neg hcx]; exact he, hp⟩
          · rintro ⟨e', he', hp⟩
            rw [hg2] at he'
            by_cases hcs : c = s
            · rw [if_pos hcs] at he'; cases he'; cases hp
            · rw [if_neg hcs] at he'
              by_cases hcx : c = y
              · rw [if_pos hcx] at he'; cases he'
                exact absurd hp (self_not_parent w h y xe hx)
              · rw [if_neg hcx] at he'
                exact ⟨⟨e', he', hp⟩, hcs⟩
        · rw [if_neg hyx, h.treeOK.children]
          constructor
          · rintro ⟨e, he, hp⟩
            have hcs : c ≠ s := by rintro rfl; rw [hs] at he; cases he; rw [hsx] at hp; cases hp; exact hyx rfl
            by_cases hcx : c = x
            · subst hcx
              rw [hx] at he; cases he
              exact ⟨{ xe with mx := { xe.mx with groups := G', signals := sDel xe.mx.signals s, signalNames := nmDel xe.mx.signalNames se.name } }, by rw [hg2, if_neg hcs, if_pos rfl], hp⟩
            · exact ⟨e, by rw [hg2, if_neg hcs, if_neg hcx]; exact he, hp⟩
          · rintro ⟨e', he', hp⟩
            rw [hg2] at he'
            by_cases hcs : c = s
            · rw [if_pos hcs] at he'; cases he'; cases hp
            · rw [if_neg hcs] at he'
              by_cases hcx : c = x
              · rw [if_pos hcx] at he'; cases he'
                exact ⟨xe, by rw [hcx]; exact hx, hp⟩
              · rw [if_neg hcx] at he'
                exact ⟨e', he', hp⟩
      · obtain ⟨depth, hd⟩ := h.acyclic
        refine ⟨depth, ?_⟩
        intro t e' p ht hp
        rw [hg2] at ht
        by_cases hts : t = s
        · rw [if_pos hts] at ht; cases ht; cases hp
        · rw [if_neg hts] at ht
          by_cases htx : t = x
          · rw [if_pos htx] at ht; cases ht
            rw [htx]; exact hd x xe p hx hp
          · rw [if_neg htx] at ht
            exact hd t e' p ht hp
    obtain ⟨D, hDd⟩ : ∃ D, D = descendants w2b (fuelOf w2b) s := ⟨_, rfl⟩
    rw [← hDd]
    have hpmx : ∀ i, i ≠ s → (w2b.sigs.get i).map (·.parentMux) = (w.sigs.get i).map (·.parentMux) := by
      intro i his
      rw [hg2, if_neg his]
      by_cases hix : i = x
      · simp [hix, hx]
      · simp [hix]
    have hD : ∀ t, t ∈ D ↔ Below w t s := by
      intro t
      rw [hDd, mem_descendants_iff w2b ht2]
      unfold Below
      have hs2 : ∀ e', w2b.sigs.get s = some e' → e'.parentMux = none := by
        intro e' he'; rw [hg2, if_pos rfl] at he'; cases he'; rfl
      constructor
      · rintro ⟨k, hk'⟩; exact ⟨k, (Anc_below_congr w w2b h.treeOK s hpmx hs2 k t).mp hk'⟩
      · rintro ⟨k, hk'⟩; exact ⟨k, (Anc_below_congr w w2b h.treeOK s hpmx hs2 k t).mpr hk'⟩
    have hxD : x ∉ s :: D := by
      simp only [List.mem_cons, hxs, false_or, hD]
      exact parent_not_below w h.treeOK s x se hs hsx
    have hname2 : ∀ i, nameOf w2b i = nameOf w i := by
      intro i
      unfold nameOf
      rw [hg2]
      by_cases his : i = s
      · simp [his, hs]
      · by_cases hix : i = x
        · subst hix; simp [hxs, hx]
        · simp [his, hix]
    refine ⟨?_, ?_, ?_, ?_, ?_, ?_⟩
    · rw [updMux_get, if_pos rfl]
      simp only
      rw [setParentMsgs_get, if_neg hxD, hg2, if_neg hxs, if_pos rfl]
      rfl
    · rw [updMux_get, if_neg hsx']
      simp only
      rw [setParentMsgs_get, if_pos List.mem_cons_self, hg2, if_pos rfl]
      rfl
    · intro t hb
      obtain ⟨e, he, a1, a2, a3⟩ := hbelow_facts t hb
      rw [updMux_get, if_neg a3]
      simp only
      rw [setParentMsgs_get, if_pos (List.mem_cons_of_mem _ ((hD t).mpr hb)), hg2, if_neg a2, if_neg a3]
    · intro t h1 h2 h3
      rw [updMux_get, if_neg h1]
      simp only
      have : t ∉ s :: D := by simp [h2, hD, h3]
      rw [setParentMsgs_get, if_neg this, hg2, if_neg h2, if_neg h1]
    · intro hh; rw [hpm] at hh; cases hh
    · intro m' hpm'
      rw [hpm] at hpm'; cases hpm'
      refine ⟨msg, nameOf w2b s :: ((s :: D).flatMap (childNamesOf w2b)).map (·.1), D, hmsg, hD, ?_, ?_⟩
      · intro n
        have hex : ∀ y, (y = s ∨ y ∈ descendants w2b (fuelOf w2b) s) →
            ∀ n i, (n, i) ∈ childNamesOf w2b y ↔ i ∈ childrenOf w2b y ∧ nameOf w2b i = n := by
          intro y hy n i
          have hyx : y ≠ x := by
            rintro rfl
            apply hxD
            rw [hDd]
            simpa using hy
          have hcn : childNamesOf w2b y = childNamesOf w y ∧ childrenOf w2b y = childrenOf w y := by
            unfold childNamesOf childrenOf
            rw [hg2]
            by_cases hys : y = s
            · subst hys; simp [hs]
            · simp [hys, hyx]
          rw [hcn.1, hcn.2, hname2]
          exact childNames_exact w (fun x xe gc gs hx hk => (h.muxOK hx hk).names) y n i
        simp only [List.mem_cons, List.mem_map]
        constructor
        · rintro (rfl | ⟨p, hp, rfl⟩)
          · exact ⟨s, Or.inl rfl, (hname2 s).symm⟩
          · have := (mem_subtreeNames' w2b ht2 s hex p.1 p.2).mp (by rw [← hDd]; exact hp)
            rw [← hDd, hname2] at this
            exact ⟨p.2, Or.inr this.1, this.2⟩
        · rintro ⟨i, rfl | hi, hn⟩
          · left; rw [hname2]; exact hn.symm
          · right
            refine ⟨(n, i), ?_, rfl⟩
            have := (mem_subtreeNames' w2b ht2 s hex n i).mpr (by rw [← hDd, hname2]; exact ⟨hi, hn⟩)
            rw [← hDd] at this
            exact this
      · intro j
        rw [updMux_msgs]
        simp only [AMap.get_set, hm2]
        by_cases hj : j = m
        · simp [hj, nmDelAll]
        · simp [hj]

end Acme.Mux
