/-
The generated exportAttributeAssignment driven over a list of items.
-/
import Acme.Proofs.GenExporterAttr3

namespace Acme.GenX
open Acme.Attr Acme.XSem Acme.GoSem Acme.Gen Acme.Conv

/-- the item is of a written kind and the caller's object fields fit the kind -/
def attr_Cons (it : Item) : Prop :=
  it.kind ≠ .envVar ∧ attr_target it.kind (targetVal it.target) = it.target

theorem attr_fold (its : List Item) (ht : ∀ it ∈ its, Typed it.asg) (hc : ∀ it ∈ its, attr_Cons it)
    (seen : List (Kind × String)) (st : Acme.XSem.St) (hinv : attr_Inv seen st) :
    ∃ st', driveItems its st = .val st' ∧
      st'.attributes.map dattrOf = st.attributes.map dattrOf ++ (emitDefs seen its).map (·.1) ∧
      st'.attributeDefaults.map ddefaultOf =
        st.attributeDefaults.map ddefaultOf ++ (emitDefs seen its).map (·.2) ∧
      st'.attributeValues.map dvalueOf = st.attributeValues.map dvalueOf ++ its.map exportItem := by
  induction its generalizing seen st with
  | nil => exact ⟨st, rfl, by simp [emitDefs], by simp [emitDefs], by simp⟩
  | cons it r ih =>
    obtain ⟨hk, htg⟩ := hc it (List.mem_cons_self ..)
    obtain ⟨v, st1, hv, hd, hi, hvals, ha, hdf⟩ :=
      X_attr_exportAttributeAssignment it (ht it (List.mem_cons_self ..)) hk (targetVal it.target) st seen hinv
    have hi' : ∀ sn, (∀ x, x ∈ sn ↔ x ∈ (it.kind, it.asg.att.name) :: seen) →
        attr_Inv sn { st1 with attributeValues := st1.attributeValues ++ [v] } := by
      intro sn hsn k n hkn
      rw [hsn, hi k n hkn]; cases k <;> rfl
    cases hct : seen.contains (it.kind, it.asg.att.name) with
    | true =>
      have hm : (it.kind, it.asg.att.name) ∈ seen := List.contains_iff_mem.1 hct
      obtain ⟨st', hr, h1, h2, h3⟩ := ih (fun x hx => ht x (List.mem_cons_of_mem _ hx))
        (fun x hx => hc x (List.mem_cons_of_mem _ hx)) seen _
        (hi' seen (fun x => ⟨List.mem_cons_of_mem _, fun hx => by
          rcases List.mem_cons.1 hx with rfl | hx
          · exact hm
          · exact hx⟩))
      refine ⟨st', ?_, ?_, ?_, ?_⟩
      · simp only [driveItems, driveItem, hv, bind_val]; exact hr
      · rw [h1]; simp [ha, emitDefs, hm]
      · rw [h2]; simp [hdf, emitDefs, hm]
      · rw [h3]; simp [hvals, hd, htg, exportItem]
    | false =>
      have hm : (it.kind, it.asg.att.name) ∉ seen := fun h => by
        rw [List.contains_iff_mem.2 h] at hct; cases hct
      obtain ⟨st', hr, h1, h2, h3⟩ := ih (fun x hx => ht x (List.mem_cons_of_mem _ hx))
        (fun x hx => hc x (List.mem_cons_of_mem _ hx)) _ _ (hi' _ (fun x => Iff.rfl))
      refine ⟨st', ?_, ?_, ?_, ?_⟩
      · simp only [driveItems, driveItem, hv, bind_val]; exact hr
      · rw [h1]; simp [ha, emitDefs, hm]
      · rw [h2]; simp [hdf, emitDefs, hm]
      · rw [h3]; simp [hvals, hd, htg, exportItem]

theorem attr_items_cons (A : ModelAttrs) : ∀ it ∈ items A, attr_Cons it := by
  intro it h
  simp only [items, busItems, List.mem_append, List.mem_map, List.mem_flatMap] at h
  rcases h with ⟨a, _, rfl⟩ | ⟨e, _, he⟩
  · exact ⟨by simp, rfl⟩
  · cases e <;> simp only [entItems, List.mem_map] at he <;> obtain ⟨a, _, rfl⟩ := he <;>
      exact ⟨by simp, rfl⟩

theorem X_attr_exportAttrs (A : ModelAttrs) (h : AllTyped A) :
    ∃ st : Acme.XSem.St, driveItems (items A) {} = .val st ∧
      st.attributes.map dattrOf = (exportAttrs A).defs ∧
      st.attributeDefaults.map ddefaultOf = (exportAttrs A).defaults ∧
      st.attributeValues.map dvalueOf = (exportAttrs A).values := by
  obtain ⟨st, hr, h1, h2, h3⟩ := attr_fold (items A) h (attr_items_cons A) [] {} attr_Inv_empty
  exact ⟨st, hr, by simpa [exportAttrs] using h1, by simpa [exportAttrs] using h2,
    by simpa [exportAttrs] using h3⟩

end Acme.GenX
