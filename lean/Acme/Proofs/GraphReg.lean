/-
Toolbox for the proofs about `Acme.Graph`: laws of `Reg` (association list with Go-map
semantics), of the reference lists, and of the views of `Acme.Spec.Graph`.
-/
import Acme.Spec.Graph

namespace Acme.Graph

attribute [grind =] AMap.get_set
attribute [grind =] AMap.get_empty

namespace Reg
variable {κ : Type} [DecidableEq κ]

@[simp, grind =] theorem get_nil (k : κ) : Reg.get ([] : Reg κ) k = none := rfl

theorem get_cons (p : κ × Nat) (r : Reg κ) (k : κ) :
    Reg.get (p :: r) k = if p.1 = k then some p.2 else Reg.get r k := by
  unfold Reg.get
  by_cases h : p.1 = k <;> simp [h]

@[simp, grind =] theorem get_remove (r : Reg κ) (k k' : κ) :
    (r.remove k).get k' = if k' = k then none else r.get k' := by
  induction r with
  | nil => simp [Reg.remove, Reg.get]
  | cons p r ih =>
    unfold Reg.remove at ih ⊢
    rw [List.filter_cons]
    by_cases hp : p.1 = k
    · simp only [hp, ne_eq, not_true_eq_false, decide_false, Bool.false_eq_true, ↓reduceIte]
      rw [ih, get_cons]
      grind
    · simp only [ne_eq, hp, not_false_eq_true, decide_true, ↓reduceIte]
      rw [get_cons, get_cons, ih]
      grind

@[simp, grind =] theorem get_add (r : Reg κ) (k : κ) (v : Nat) (k' : κ) :
    (r.add k v).get k' = if k' = k then some v else r.get k' := by
  unfold Reg.add
  rw [get_cons, get_remove]
  grind

theorem has_eq (r : Reg κ) (k : κ) : r.has k = (r.get k).isSome := by
  induction r with
  | nil => rfl
  | cons p r ih =>
    rw [get_cons]; unfold Reg.has at ih ⊢
    rw [List.any_cons, ih]
    by_cases h : p.1 = k <;> simp [h]

@[simp, grind =] theorem has_true (r : Reg κ) (k : κ) : (r.has k = true) = (r.get k ≠ none) := by
  rw [has_eq]; cases r.get k <;> simp

@[simp, grind =] theorem has_false (r : Reg κ) (k : κ) : (r.has k = false) = (r.get k = none) := by
  rw [has_eq]; cases r.get k <;> simp

@[grind =] theorem get_ne_none (r : Reg κ) (k : κ) : (¬ r.get k = none) = ∃ v, r.get k = some v := by
  cases r.get k <;> simp

theorem mem_keys (r : Reg κ) (k : κ) : k ∈ r.keys ↔ r.get k ≠ none := by
  induction r with
  | nil => simp [Reg.keys]
  | cons p r ih =>
    unfold Reg.keys at ih ⊢
    rw [get_cons, List.map_cons, List.mem_cons, ih]
    by_cases h : p.1 = k <;> simp [h]
    · intro h'; exact absurd h'.symm h

theorem keys_remove (r : Reg κ) (k : κ) : (r.remove k).keys = r.keys.filter (· ≠ k) := by
  unfold Reg.keys Reg.remove
  rw [List.filter_map]
  rfl

@[simp] theorem nodup_remove {r : Reg κ} (h : r.keys.Nodup) (k : κ) : (r.remove k).keys.Nodup := by
  rw [keys_remove]; exact h.filter _

@[simp] theorem nodup_add {r : Reg κ} (h : r.keys.Nodup) (k : κ) (v : Nat) : (r.add k v).keys.Nodup := by
  unfold Reg.add
  show (k :: (r.remove k).keys).Nodup
  rw [List.nodup_cons]
  refine ⟨?_, nodup_remove h k⟩
  rw [mem_keys, get_remove]; simp

theorem nodup_nil : (Reg.keys ([] : Reg κ)).Nodup := List.nodup_nil

/-- with unique keys, the pairs of the list are exactly the graph of `get` -/
theorem mem_iff_get {r : Reg κ} (h : r.keys.Nodup) (k : κ) (v : Nat) : (k, v) ∈ r ↔ r.get k = some v := by
  induction r with
  | nil => simp
  | cons p r ih =>
    have hn : (p.1 :: Reg.keys r).Nodup := h
    rw [List.nodup_cons] at hn
    rw [get_cons, List.mem_cons, ih hn.2]
    by_cases hp : p.1 = k
    · simp only [hp, ↓reduceIte, Option.some.injEq]
      constructor
      · rintro (h1 | h1)
        · rw [← h1]
        · exfalso; apply hn.1; rw [mem_keys, hp, h1]; simp
      · intro h1; left; rw [← h1, ← hp]
    · simp only [hp, ↓reduceIte]
      constructor
      · rintro (h1 | h1)
        · exfalso; apply hp; rw [← h1]
        · exact h1
      · intro h1; right; exact h1

theorem mem_vals {r : Reg κ} (h : r.keys.Nodup) (v : Nat) : v ∈ r.vals ↔ ∃ k, r.get k = some v := by
  unfold Reg.vals
  rw [List.mem_map]
  constructor
  · rintro ⟨⟨k, v'⟩, hm, rfl⟩; exact ⟨k, (mem_iff_get h k v').1 hm⟩
  · rintro ⟨k, hk⟩; exact ⟨(k, v), (mem_iff_get h k v).2 hk, rfl⟩

end Reg

/-! ### `removeKeys`, `addAll` -/

@[simp, grind =] theorem removeKeys_get (r : Reg Nat) (ks : List Nat) (k : Nat) :
    (removeKeys r ks).get k = if k ∈ ks then none else r.get k := by
  induction ks generalizing r with
  | nil => simp [removeKeys]
  | cons a ks ih =>
    rw [removeKeys, ih, Reg.get_remove]
    by_cases h1 : k ∈ ks <;> by_cases h2 : k = a <;> simp [h1, h2]

theorem removeKeys_nodup {r : Reg Nat} (h : r.keys.Nodup) (ks : List Nat) : (removeKeys r ks).keys.Nodup := by
  induction ks generalizing r with
  | nil => exact h
  | cons a ks ih => exact ih (Reg.nodup_remove h a)

theorem addAll_nodup {r : Reg Nat} (h : r.keys.Nodup) (l : List (Nat × Nat)) : (addAll r l).keys.Nodup := by
  induction l generalizing r with
  | nil => exact h
  | cons p l ih => obtain ⟨k, v⟩ := p; exact ih (Reg.nodup_add h k v)

/-- `addAll` with functional pairs: the pairs win over the old registry -/
theorem addAll_get {r : Reg Nat} {l : List (Nat × Nat)}
    (hf : ∀ k v v', (k, v) ∈ l → (k, v') ∈ l → v = v') (k v : Nat) :
    (addAll r l).get k = some v ↔ (k, v) ∈ l ∨ ((∀ v', (k, v') ∉ l) ∧ r.get k = some v) := by
  induction l generalizing r with
  | nil => simp [addAll]
  | cons p l ih =>
    obtain ⟨k0, v0⟩ := p
    have hf' : ∀ k v v', (k, v) ∈ l → (k, v') ∈ l → v = v' :=
      fun k v v' h1 h2 => hf k v v' (List.mem_cons_of_mem _ h1) (List.mem_cons_of_mem _ h2)
    rw [addAll, ih hf', Reg.get_add]
    constructor
    · rintro (h1 | ⟨h1, h2⟩)
      · left; exact List.mem_cons_of_mem _ h1
      · by_cases hk : k = k0
        · subst hk; simp only [↓reduceIte, Option.some.injEq] at h2; subst h2; left; exact List.mem_cons_self
        · simp only [hk, ↓reduceIte] at h2
          right; refine ⟨?_, h2⟩
          intro v' hm; rcases List.mem_cons.1 hm with h3 | h3
          · exact hk (Prod.mk.inj h3).1
          · exact h1 v' h3
    · rintro (h1 | ⟨h1, h2⟩)
      · rcases List.mem_cons.1 h1 with h3 | h3
        · obtain ⟨rfl, rfl⟩ := Prod.mk.inj h3
          by_cases hm : ∃ v', (k, v') ∈ l
          · obtain ⟨v', hv'⟩ := hm
            have : v = v' := hf k v v' List.mem_cons_self (List.mem_cons_of_mem _ hv')
            subst this; left; exact hv'
          · right; refine ⟨fun v' hv' => hm ⟨v', hv'⟩, by simp⟩
        · left; exact h3
      · right
        refine ⟨fun v' hv' => h1 v' (List.mem_cons_of_mem _ hv'), ?_⟩
        have : k ≠ k0 := fun e => h1 v0 (by subst e; exact List.mem_cons_self)
        simp [this, h2]

/-! ### index registries: the generic steps

`P k x` reads "entity `x` must be listed under key `k`".  Each lemma turns the old
agreement `∀ k x, r.get k = some x ↔ P k x` into the agreement of the updated registry
with the updated `P'`, given how `P'` relates to `P` (a quantifier-free side condition). -/

section idx
variable {κ : Type} [DecidableEq κ]

theorem idx_congr {r : Reg κ} {P P' : κ → Nat → Prop}
    (h : ∀ k x, r.get k = some x ↔ P k x) (hc : ∀ k x, P' k x ↔ P k x) :
    ∀ k x, r.get k = some x ↔ P' k x :=
  fun k x => (h k x).trans (hc k x).symm

theorem idx_nil {P' : κ → Nat → Prop} (hc : ∀ k x, ¬ P' k x) :
    ∀ k x, Reg.get ([] : Reg κ) k = some x ↔ P' k x := by
  intro k x; simp only [Reg.get_nil]; constructor
  · intro h; cases h
  · intro h; exact absurd h (hc k x)

theorem idx_add {r : Reg κ} {P P' : κ → Nat → Prop} {x0 : Nat} {k0 : κ}
    (h : ∀ k x, r.get k = some x ↔ P k x)
    (hfree : r.get k0 = none) (hx0 : ∀ k, ¬ P k x0)
    (hnew : ∀ k x, P' k x ↔ (x = x0 ∧ k = k0) ∨ (x ≠ x0 ∧ P k x)) :
    ∀ k x, (r.add k0 x0).get k = some x ↔ P' k x := by
  intro k x
  rw [Reg.get_add, hnew]
  by_cases hk : k = k0
  · subst hk
    simp only [↓reduceIte, Option.some.injEq, and_true]
    constructor
    · intro e; exact Or.inl e.symm
    · rintro (e | ⟨_, e⟩)
      · exact e.symm
      · have := (h k x).2 e; rw [hfree] at this; cases this
  · simp only [hk, ↓reduceIte, and_false, false_or]
    rw [h]
    constructor
    · intro e; refine ⟨?_, e⟩; intro ex; subst ex; exact hx0 k e
    · intro e; exact e.2

theorem idx_remove {r : Reg κ} {P P' : κ → Nat → Prop} {x0 : Nat} {k0 : κ}
    (h : ∀ k x, r.get k = some x ↔ P k x)
    (hold : P k0 x0) (hfun : ∀ k, P k x0 → k = k0)
    (hnew : ∀ k x, P' k x ↔ (x ≠ x0 ∧ P k x)) :
    ∀ k x, (r.remove k0).get k = some x ↔ P' k x := by
  intro k x
  rw [Reg.get_remove, hnew]
  by_cases hk : k = k0
  · subst hk
    simp only [↓reduceIte]
    constructor
    · intro e; cases e
    · rintro ⟨ne, e⟩
      have h1 := (h k x).2 e
      have h2 := (h k x0).2 hold
      rw [h1] at h2; exact absurd (Option.some.inj h2) ne
  · simp only [hk, ↓reduceIte]
    rw [h]
    constructor
    · intro e; refine ⟨?_, e⟩; intro ex; subst ex; exact hk (hfun k e)
    · intro e; exact e.2

theorem idx_modify {r : Reg κ} {P P' : κ → Nat → Prop} {x0 : Nat} {k0 k1 : κ}
    (h : ∀ k x, r.get k = some x ↔ P k x)
    (hold : P k0 x0) (hfun : ∀ k, P k x0 → k = k0) (hfree : k1 = k0 ∨ r.get k1 = none)
    (hnew : ∀ k x, P' k x ↔ (x = x0 ∧ k = k1) ∨ (x ≠ x0 ∧ P k x)) :
    ∀ k x, ((r.remove k0).add k1 x0).get k = some x ↔ P' k x := by
  refine idx_add (P := fun k x => x ≠ x0 ∧ P k x)
    (idx_remove (P' := fun k x => x ≠ x0 ∧ P k x) h hold hfun (fun _ _ => Iff.rfl)) ?_ ?_ ?_
  · rw [Reg.get_remove]
    by_cases hk : k1 = k0
    · simp [hk]
    · simp only [hk, ↓reduceIte]
      rcases hfree with e | e
      · exact absurd e hk
      · exact e
  · intro k hh; exact hh.1 rfl
  · intro k x; rw [hnew]
    constructor
    · rintro (e | ⟨a, b⟩)
      · exact Or.inl e
      · exact Or.inr ⟨a, a, b⟩
    · rintro (e | ⟨a, _, b⟩)
      · exact Or.inl e
      · exact Or.inr ⟨a, b⟩

/-- several keys removed: the entities listed under them are exactly those dropped -/
theorem idx_removeKeys {r : Reg Nat} {P P' : Nat → Nat → Prop} {ks : List Nat}
    (h : ∀ k x, r.get k = some x ↔ P k x)
    (hnew : ∀ k x, P' k x ↔ (k ∉ ks ∧ P k x)) :
    ∀ k x, (removeKeys r ks).get k = some x ↔ P' k x := by
  intro k x
  rw [removeKeys_get, hnew]
  by_cases hk : k ∈ ks
  · simp [hk]
  · simp [hk, h]

end idx

/-! ### reference lists -/

@[simp, grind =] theorem mem_eraseRef (l : List Nat) (x y : Nat) : y ∈ eraseRef l x ↔ y ∈ l ∧ y ≠ x := by
  unfold eraseRef; simp

theorem nodup_eraseRef {l : List Nat} (h : l.Nodup) (x : Nat) : (eraseRef l x).Nodup := h.filter _

@[simp, grind =] theorem mem_addRef (l : List Nat) (x y : Nat) : y ∈ addRef l x ↔ y = x ∨ y ∈ l := by
  unfold addRef; rw [List.mem_cons, mem_eraseRef]
  by_cases h : y = x <;> simp [h]

theorem nodup_addRef {l : List Nat} (h : l.Nodup) (x : Nat) : (addRef l x).Nodup := by
  unfold addRef; rw [List.nodup_cons]; exact ⟨by simp, nodup_eraseRef h x⟩

/-! ### views -/

@[simp, grind =] theorem netBuses_set (m : AMap NetE) (x : Nat) (e : NetE) (k : Nat) :
    netBuses (m.set x e) k = if k = x then e.buses else netBuses m k := by
  unfold netBuses; rw [AMap.get_set]; by_cases hk : k = x <;> simp [hk]
@[grind →] theorem netBuses_of_get {m : AMap NetE} {k : Nat} {e : NetE} (h : m.get k = some e) :
    netBuses m k = e.buses := by unfold netBuses; rw [h]
@[grind →] theorem netBuses_of_none {m : AMap NetE} {k : Nat} (h : m.get k = none) :
    netBuses m k = [] := by unfold netBuses; rw [h]
theorem netBuses_set_same {m : AMap NetE} {x : Nat} {e e' : NetE} (h : m.get x = some e) (hp : e'.buses = e.buses) :
    netBuses (m.set x e') = netBuses m := by
  funext k; rw [netBuses_set]; by_cases hk : k = x
  · subst hk; simp [netBuses_of_get h, hp]
  · simp [hk]

theorem netBuses_set_keep {m : AMap NetE} {x : Nat} {e' : NetE}
    (h : match m.get x with | some e => e'.buses = e.buses | none => False) : netBuses (m.set x e') = netBuses m := by
  cases hm : m.get x with
  | none => rw [hm] at h; exact absurd h id
  | some e => rw [hm] at h; exact netBuses_set_same hm h

@[simp, grind =] theorem netBusNames_set (m : AMap NetE) (x : Nat) (e : NetE) (k : Nat) :
    netBusNames (m.set x e) k = if k = x then e.busNames else netBusNames m k := by
  unfold netBusNames; rw [AMap.get_set]; by_cases hk : k = x <;> simp [hk]
@[grind →] theorem netBusNames_of_get {m : AMap NetE} {k : Nat} {e : NetE} (h : m.get k = some e) :
    netBusNames m k = e.busNames := by unfold netBusNames; rw [h]
@[grind →] theorem netBusNames_of_none {m : AMap NetE} {k : Nat} (h : m.get k = none) :
    netBusNames m k = [] := by unfold netBusNames; rw [h]
theorem netBusNames_set_same {m : AMap NetE} {x : Nat} {e e' : NetE} (h : m.get x = some e) (hp : e'.busNames = e.busNames) :
    netBusNames (m.set x e') = netBusNames m := by
  funext k; rw [netBusNames_set]; by_cases hk : k = x
  · subst hk; simp [netBusNames_of_get h, hp]
  · simp [hk]

theorem netBusNames_set_keep {m : AMap NetE} {x : Nat} {e' : NetE}
    (h : match m.get x with | some e => e'.busNames = e.busNames | none => False) : netBusNames (m.set x e') = netBusNames m := by
  cases hm : m.get x with
  | none => rw [hm] at h; exact absurd h id
  | some e => rw [hm] at h; exact netBusNames_set_same hm h

@[simp, grind =] theorem busName_set (m : AMap BusE) (x : Nat) (e : BusE) (k : Nat) :
    busName (m.set x e) k = if k = x then some e.name else busName m k := by
  unfold busName; rw [AMap.get_set]; by_cases hk : k = x <;> simp [hk]
@[grind →] theorem busName_of_get {m : AMap BusE} {k : Nat} {e : BusE} (h : m.get k = some e) :
    busName m k = some e.name := by unfold busName; rw [h]
@[grind →] theorem busName_of_none {m : AMap BusE} {k : Nat} (h : m.get k = none) :
    busName m k = none := by unfold busName; rw [h]
theorem busName_set_same {m : AMap BusE} {x : Nat} {e e' : BusE} (h : m.get x = some e) (hp : e'.name = e.name) :
    busName (m.set x e') = busName m := by
  funext k; rw [busName_set]; by_cases hk : k = x
  · subst hk; simp [busName_of_get h, hp]
  · simp [hk]

theorem busName_set_keep {m : AMap BusE} {x : Nat} {e' : BusE}
    (h : match m.get x with | some e => e'.name = e.name | none => False) : busName (m.set x e') = busName m := by
  cases hm : m.get x with
  | none => rw [hm] at h; exact absurd h id
  | some e => rw [hm] at h; exact busName_set_same hm h

@[grind →] theorem busName_some_get {m : AMap BusE} {k : Nat} {v} (h : busName m k = some v) : m.get k ≠ none := by
  unfold busName at h; intro hn; rw [hn] at h; cases h
@[grind =] theorem busName_eq_none {m : AMap BusE} {k : Nat} : (busName m k = none) = (m.get k = none) := by
  unfold busName; cases m.get k <;> simp

@[simp, grind =] theorem busParent_set (m : AMap BusE) (x : Nat) (e : BusE) (k : Nat) :
    busParent (m.set x e) k = if k = x then e.parent else busParent m k := by
  unfold busParent; rw [AMap.get_set]; by_cases hk : k = x <;> simp [hk]
@[grind →] theorem busParent_of_get {m : AMap BusE} {k : Nat} {e : BusE} (h : m.get k = some e) :
    busParent m k = e.parent := by unfold busParent; rw [h]
@[grind →] theorem busParent_of_none {m : AMap BusE} {k : Nat} (h : m.get k = none) :
    busParent m k = none := by unfold busParent; rw [h]
theorem busParent_set_same {m : AMap BusE} {x : Nat} {e e' : BusE} (h : m.get x = some e) (hp : e'.parent = e.parent) :
    busParent (m.set x e') = busParent m := by
  funext k; rw [busParent_set]; by_cases hk : k = x
  · subst hk; simp [busParent_of_get h, hp]
  · simp [hk]

theorem busParent_set_keep {m : AMap BusE} {x : Nat} {e' : BusE}
    (h : match m.get x with | some e => e'.parent = e.parent | none => False) : busParent (m.set x e') = busParent m := by
  cases hm : m.get x with
  | none => rw [hm] at h; exact absurd h id
  | some e => rw [hm] at h; exact busParent_set_same hm h

@[grind →] theorem busParent_some_get {m : AMap BusE} {k : Nat} {v} (h : busParent m k = some v) : m.get k ≠ none := by
  unfold busParent at h; intro hn; rw [hn] at h; cases h

@[simp, grind =] theorem busBuilder_set (m : AMap BusE) (x : Nat) (e : BusE) (k : Nat) :
    busBuilder (m.set x e) k = if k = x then e.builder else busBuilder m k := by
  unfold busBuilder; rw [AMap.get_set]; by_cases hk : k = x <;> simp [hk]
@[grind →] theorem busBuilder_of_get {m : AMap BusE} {k : Nat} {e : BusE} (h : m.get k = some e) :
    busBuilder m k = e.builder := by unfold busBuilder; rw [h]
@[grind →] theorem busBuilder_of_none {m : AMap BusE} {k : Nat} (h : m.get k = none) :
    busBuilder m k = none := by unfold busBuilder; rw [h]
theorem busBuilder_set_same {m : AMap BusE} {x : Nat} {e e' : BusE} (h : m.get x = some e) (hp : e'.builder = e.builder) :
    busBuilder (m.set x e') = busBuilder m := by
  funext k; rw [busBuilder_set]; by_cases hk : k = x
  · subst hk; simp [busBuilder_of_get h, hp]
  · simp [hk]

theorem busBuilder_set_keep {m : AMap BusE} {x : Nat} {e' : BusE}
    (h : match m.get x with | some e => e'.builder = e.builder | none => False) : busBuilder (m.set x e') = busBuilder m := by
  cases hm : m.get x with
  | none => rw [hm] at h; exact absurd h id
  | some e => rw [hm] at h; exact busBuilder_set_same hm h

@[grind →] theorem busBuilder_some_get {m : AMap BusE} {k : Nat} {v} (h : busBuilder m k = some v) : m.get k ≠ none := by
  unfold busBuilder at h; intro hn; rw [hn] at h; cases h

@[simp, grind =] theorem busNodeInts_set (m : AMap BusE) (x : Nat) (e : BusE) (k : Nat) :
    busNodeInts (m.set x e) k = if k = x then e.nodeInts else busNodeInts m k := by
  unfold busNodeInts; rw [AMap.get_set]; by_cases hk : k = x <;> simp [hk]
@[grind →] theorem busNodeInts_of_get {m : AMap BusE} {k : Nat} {e : BusE} (h : m.get k = some e) :
    busNodeInts m k = e.nodeInts := by unfold busNodeInts; rw [h]
@[grind →] theorem busNodeInts_of_none {m : AMap BusE} {k : Nat} (h : m.get k = none) :
    busNodeInts m k = [] := by unfold busNodeInts; rw [h]
theorem busNodeInts_set_same {m : AMap BusE} {x : Nat} {e e' : BusE} (h : m.get x = some e) (hp : e'.nodeInts = e.nodeInts) :
    busNodeInts (m.set x e') = busNodeInts m := by
  funext k; rw [busNodeInts_set]; by_cases hk : k = x
  · subst hk; simp [busNodeInts_of_get h, hp]
  · simp [hk]

theorem busNodeInts_set_keep {m : AMap BusE} {x : Nat} {e' : BusE}
    (h : match m.get x with | some e => e'.nodeInts = e.nodeInts | none => False) : busNodeInts (m.set x e') = busNodeInts m := by
  cases hm : m.get x with
  | none => rw [hm] at h; exact absurd h id
  | some e => rw [hm] at h; exact busNodeInts_set_same hm h

@[simp, grind =] theorem busNodeNames_set (m : AMap BusE) (x : Nat) (e : BusE) (k : Nat) :
    busNodeNames (m.set x e) k = if k = x then e.nodeNames else busNodeNames m k := by
  unfold busNodeNames; rw [AMap.get_set]; by_cases hk : k = x <;> simp [hk]
@[grind →] theorem busNodeNames_of_get {m : AMap BusE} {k : Nat} {e : BusE} (h : m.get k = some e) :
    busNodeNames m k = e.nodeNames := by unfold busNodeNames; rw [h]
@[grind →] theorem busNodeNames_of_none {m : AMap BusE} {k : Nat} (h : m.get k = none) :
    busNodeNames m k = [] := by unfold busNodeNames; rw [h]
theorem busNodeNames_set_same {m : AMap BusE} {x : Nat} {e e' : BusE} (h : m.get x = some e) (hp : e'.nodeNames = e.nodeNames) :
    busNodeNames (m.set x e') = busNodeNames m := by
  funext k; rw [busNodeNames_set]; by_cases hk : k = x
  · subst hk; simp [busNodeNames_of_get h, hp]
  · simp [hk]

theorem busNodeNames_set_keep {m : AMap BusE} {x : Nat} {e' : BusE}
    (h : match m.get x with | some e => e'.nodeNames = e.nodeNames | none => False) : busNodeNames (m.set x e') = busNodeNames m := by
  cases hm : m.get x with
  | none => rw [hm] at h; exact absurd h id
  | some e => rw [hm] at h; exact busNodeNames_set_same hm h

@[simp, grind =] theorem busNodeIDs_set (m : AMap BusE) (x : Nat) (e : BusE) (k : Nat) :
    busNodeIDs (m.set x e) k = if k = x then e.nodeIDs else busNodeIDs m k := by
  unfold busNodeIDs; rw [AMap.get_set]; by_cases hk : k = x <;> simp [hk]
@[grind →] theorem busNodeIDs_of_get {m : AMap BusE} {k : Nat} {e : BusE} (h : m.get k = some e) :
    busNodeIDs m k = e.nodeIDs := by unfold busNodeIDs; rw [h]
@[grind →] theorem busNodeIDs_of_none {m : AMap BusE} {k : Nat} (h : m.get k = none) :
    busNodeIDs m k = [] := by unfold busNodeIDs; rw [h]
theorem busNodeIDs_set_same {m : AMap BusE} {x : Nat} {e e' : BusE} (h : m.get x = some e) (hp : e'.nodeIDs = e.nodeIDs) :
    busNodeIDs (m.set x e') = busNodeIDs m := by
  funext k; rw [busNodeIDs_set]; by_cases hk : k = x
  · subst hk; simp [busNodeIDs_of_get h, hp]
  · simp [hk]

theorem busNodeIDs_set_keep {m : AMap BusE} {x : Nat} {e' : BusE}
    (h : match m.get x with | some e => e'.nodeIDs = e.nodeIDs | none => False) : busNodeIDs (m.set x e') = busNodeIDs m := by
  cases hm : m.get x with
  | none => rw [hm] at h; exact absurd h id
  | some e => rw [hm] at h; exact busNodeIDs_set_same hm h

@[simp, grind =] theorem busStaticIDs_set (m : AMap BusE) (x : Nat) (e : BusE) (k : Nat) :
    busStaticIDs (m.set x e) k = if k = x then e.staticIDs else busStaticIDs m k := by
  unfold busStaticIDs; rw [AMap.get_set]; by_cases hk : k = x <;> simp [hk]
@[grind →] theorem busStaticIDs_of_get {m : AMap BusE} {k : Nat} {e : BusE} (h : m.get k = some e) :
    busStaticIDs m k = e.staticIDs := by unfold busStaticIDs; rw [h]
@[grind →] theorem busStaticIDs_of_none {m : AMap BusE} {k : Nat} (h : m.get k = none) :
    busStaticIDs m k = [] := by unfold busStaticIDs; rw [h]
theorem busStaticIDs_set_same {m : AMap BusE} {x : Nat} {e e' : BusE} (h : m.get x = some e) (hp : e'.staticIDs = e.staticIDs) :
    busStaticIDs (m.set x e') = busStaticIDs m := by
  funext k; rw [busStaticIDs_set]; by_cases hk : k = x
  · subst hk; simp [busStaticIDs_of_get h, hp]
  · simp [hk]

theorem busStaticIDs_set_keep {m : AMap BusE} {x : Nat} {e' : BusE}
    (h : match m.get x with | some e => e'.staticIDs = e.staticIDs | none => False) : busStaticIDs (m.set x e') = busStaticIDs m := by
  cases hm : m.get x with
  | none => rw [hm] at h; exact absurd h id
  | some e => rw [hm] at h; exact busStaticIDs_set_same hm h

@[simp, grind =] theorem busAttrs_set (m : AMap BusE) (x : Nat) (e : BusE) (k : Nat) :
    busAttrs (m.set x e) k = if k = x then e.attrs else busAttrs m k := by
  unfold busAttrs; rw [AMap.get_set]; by_cases hk : k = x <;> simp [hk]
@[grind →] theorem busAttrs_of_get {m : AMap BusE} {k : Nat} {e : BusE} (h : m.get k = some e) :
    busAttrs m k = e.attrs := by unfold busAttrs; rw [h]
@[grind →] theorem busAttrs_of_none {m : AMap BusE} {k : Nat} (h : m.get k = none) :
    busAttrs m k = [] := by unfold busAttrs; rw [h]
theorem busAttrs_set_same {m : AMap BusE} {x : Nat} {e e' : BusE} (h : m.get x = some e) (hp : e'.attrs = e.attrs) :
    busAttrs (m.set x e') = busAttrs m := by
  funext k; rw [busAttrs_set]; by_cases hk : k = x
  · subst hk; simp [busAttrs_of_get h, hp]
  · simp [hk]

theorem busAttrs_set_keep {m : AMap BusE} {x : Nat} {e' : BusE}
    (h : match m.get x with | some e => e'.attrs = e.attrs | none => False) : busAttrs (m.set x e') = busAttrs m := by
  cases hm : m.get x with
  | none => rw [hm] at h; exact absurd h id
  | some e => rw [hm] at h; exact busAttrs_set_same hm h

@[simp, grind =] theorem nodeNameC_set (m : AMap NodeE) (x : Nat) (e : NodeE) (k : Nat) :
    nodeNameC (m.set x e) k = if k = x then e.name else nodeNameC m k := by
  unfold nodeNameC; rw [AMap.get_set]; by_cases hk : k = x <;> simp [hk]
@[grind →] theorem nodeNameC_of_get {m : AMap NodeE} {k : Nat} {e : NodeE} (h : m.get k = some e) :
    nodeNameC m k = e.name := by unfold nodeNameC; rw [h]
@[grind →] theorem nodeNameC_of_none {m : AMap NodeE} {k : Nat} (h : m.get k = none) :
    nodeNameC m k = "" := by unfold nodeNameC; rw [h]
theorem nodeNameC_set_same {m : AMap NodeE} {x : Nat} {e e' : NodeE} (h : m.get x = some e) (hp : e'.name = e.name) :
    nodeNameC (m.set x e') = nodeNameC m := by
  funext k; rw [nodeNameC_set]; by_cases hk : k = x
  · subst hk; simp [nodeNameC_of_get h, hp]
  · simp [hk]

theorem nodeNameC_set_keep {m : AMap NodeE} {x : Nat} {e' : NodeE}
    (h : match m.get x with | some e => e'.name = e.name | none => False) : nodeNameC (m.set x e') = nodeNameC m := by
  cases hm : m.get x with
  | none => rw [hm] at h; exact absurd h id
  | some e => rw [hm] at h; exact nodeNameC_set_same hm h

@[simp, grind =] theorem nodeNidC_set (m : AMap NodeE) (x : Nat) (e : NodeE) (k : Nat) :
    nodeNidC (m.set x e) k = if k = x then e.nid else nodeNidC m k := by
  unfold nodeNidC; rw [AMap.get_set]; by_cases hk : k = x <;> simp [hk]
@[grind →] theorem nodeNidC_of_get {m : AMap NodeE} {k : Nat} {e : NodeE} (h : m.get k = some e) :
    nodeNidC m k = e.nid := by unfold nodeNidC; rw [h]
@[grind →] theorem nodeNidC_of_none {m : AMap NodeE} {k : Nat} (h : m.get k = none) :
    nodeNidC m k = 0 := by unfold nodeNidC; rw [h]
theorem nodeNidC_set_same {m : AMap NodeE} {x : Nat} {e e' : NodeE} (h : m.get x = some e) (hp : e'.nid = e.nid) :
    nodeNidC (m.set x e') = nodeNidC m := by
  funext k; rw [nodeNidC_set]; by_cases hk : k = x
  · subst hk; simp [nodeNidC_of_get h, hp]
  · simp [hk]

theorem nodeNidC_set_keep {m : AMap NodeE} {x : Nat} {e' : NodeE}
    (h : match m.get x with | some e => e'.nid = e.nid | none => False) : nodeNidC (m.set x e') = nodeNidC m := by
  cases hm : m.get x with
  | none => rw [hm] at h; exact absurd h id
  | some e => rw [hm] at h; exact nodeNidC_set_same hm h

@[simp, grind =] theorem nodeIfaces_set (m : AMap NodeE) (x : Nat) (e : NodeE) (k : Nat) :
    nodeIfaces (m.set x e) k = if k = x then e.ifaces else nodeIfaces m k := by
  unfold nodeIfaces; rw [AMap.get_set]; by_cases hk : k = x <;> simp [hk]
@[grind →] theorem nodeIfaces_of_get {m : AMap NodeE} {k : Nat} {e : NodeE} (h : m.get k = some e) :
    nodeIfaces m k = e.ifaces := by unfold nodeIfaces; rw [h]
@[grind →] theorem nodeIfaces_of_none {m : AMap NodeE} {k : Nat} (h : m.get k = none) :
    nodeIfaces m k = [] := by unfold nodeIfaces; rw [h]
theorem nodeIfaces_set_same {m : AMap NodeE} {x : Nat} {e e' : NodeE} (h : m.get x = some e) (hp : e'.ifaces = e.ifaces) :
    nodeIfaces (m.set x e') = nodeIfaces m := by
  funext k; rw [nodeIfaces_set]; by_cases hk : k = x
  · subst hk; simp [nodeIfaces_of_get h, hp]
  · simp [hk]

theorem nodeIfaces_set_keep {m : AMap NodeE} {x : Nat} {e' : NodeE}
    (h : match m.get x with | some e => e'.ifaces = e.ifaces | none => False) : nodeIfaces (m.set x e') = nodeIfaces m := by
  cases hm : m.get x with
  | none => rw [hm] at h; exact absurd h id
  | some e => rw [hm] at h; exact nodeIfaces_set_same hm h

@[simp, grind =] theorem nodeIfaceCount_set (m : AMap NodeE) (x : Nat) (e : NodeE) (k : Nat) :
    nodeIfaceCount (m.set x e) k = if k = x then e.ifaceCount else nodeIfaceCount m k := by
  unfold nodeIfaceCount; rw [AMap.get_set]; by_cases hk : k = x <;> simp [hk]
@[grind →] theorem nodeIfaceCount_of_get {m : AMap NodeE} {k : Nat} {e : NodeE} (h : m.get k = some e) :
    nodeIfaceCount m k = e.ifaceCount := by unfold nodeIfaceCount; rw [h]
@[grind →] theorem nodeIfaceCount_of_none {m : AMap NodeE} {k : Nat} (h : m.get k = none) :
    nodeIfaceCount m k = 0 := by unfold nodeIfaceCount; rw [h]
theorem nodeIfaceCount_set_same {m : AMap NodeE} {x : Nat} {e e' : NodeE} (h : m.get x = some e) (hp : e'.ifaceCount = e.ifaceCount) :
    nodeIfaceCount (m.set x e') = nodeIfaceCount m := by
  funext k; rw [nodeIfaceCount_set]; by_cases hk : k = x
  · subst hk; simp [nodeIfaceCount_of_get h, hp]
  · simp [hk]

theorem nodeIfaceCount_set_keep {m : AMap NodeE} {x : Nat} {e' : NodeE}
    (h : match m.get x with | some e => e'.ifaceCount = e.ifaceCount | none => False) : nodeIfaceCount (m.set x e') = nodeIfaceCount m := by
  cases hm : m.get x with
  | none => rw [hm] at h; exact absurd h id
  | some e => rw [hm] at h; exact nodeIfaceCount_set_same hm h

@[simp, grind =] theorem nodeAttrs_set (m : AMap NodeE) (x : Nat) (e : NodeE) (k : Nat) :
    nodeAttrs (m.set x e) k = if k = x then e.attrs else nodeAttrs m k := by
  unfold nodeAttrs; rw [AMap.get_set]; by_cases hk : k = x <;> simp [hk]
@[grind →] theorem nodeAttrs_of_get {m : AMap NodeE} {k : Nat} {e : NodeE} (h : m.get k = some e) :
    nodeAttrs m k = e.attrs := by unfold nodeAttrs; rw [h]
@[grind →] theorem nodeAttrs_of_none {m : AMap NodeE} {k : Nat} (h : m.get k = none) :
    nodeAttrs m k = [] := by unfold nodeAttrs; rw [h]
theorem nodeAttrs_set_same {m : AMap NodeE} {x : Nat} {e e' : NodeE} (h : m.get x = some e) (hp : e'.attrs = e.attrs) :
    nodeAttrs (m.set x e') = nodeAttrs m := by
  funext k; rw [nodeAttrs_set]; by_cases hk : k = x
  · subst hk; simp [nodeAttrs_of_get h, hp]
  · simp [hk]

theorem nodeAttrs_set_keep {m : AMap NodeE} {x : Nat} {e' : NodeE}
    (h : match m.get x with | some e => e'.attrs = e.attrs | none => False) : nodeAttrs (m.set x e') = nodeAttrs m := by
  cases hm : m.get x with
  | none => rw [hm] at h; exact absurd h id
  | some e => rw [hm] at h; exact nodeAttrs_set_same hm h

@[simp, grind =] theorem ifaceNode_set (m : AMap IfaceE) (x : Nat) (e : IfaceE) (k : Nat) :
    ifaceNode (m.set x e) k = if k = x then some e.node else ifaceNode m k := by
  unfold ifaceNode; rw [AMap.get_set]; by_cases hk : k = x <;> simp [hk]
@[grind →] theorem ifaceNode_of_get {m : AMap IfaceE} {k : Nat} {e : IfaceE} (h : m.get k = some e) :
    ifaceNode m k = some e.node := by unfold ifaceNode; rw [h]
@[grind →] theorem ifaceNode_of_none {m : AMap IfaceE} {k : Nat} (h : m.get k = none) :
    ifaceNode m k = none := by unfold ifaceNode; rw [h]
theorem ifaceNode_set_same {m : AMap IfaceE} {x : Nat} {e e' : IfaceE} (h : m.get x = some e) (hp : e'.node = e.node) :
    ifaceNode (m.set x e') = ifaceNode m := by
  funext k; rw [ifaceNode_set]; by_cases hk : k = x
  · subst hk; simp [ifaceNode_of_get h, hp]
  · simp [hk]

theorem ifaceNode_set_keep {m : AMap IfaceE} {x : Nat} {e' : IfaceE}
    (h : match m.get x with | some e => e'.node = e.node | none => False) : ifaceNode (m.set x e') = ifaceNode m := by
  cases hm : m.get x with
  | none => rw [hm] at h; exact absurd h id
  | some e => rw [hm] at h; exact ifaceNode_set_same hm h

@[grind →] theorem ifaceNode_some_get {m : AMap IfaceE} {k : Nat} {v} (h : ifaceNode m k = some v) : m.get k ≠ none := by
  unfold ifaceNode at h; intro hn; rw [hn] at h; cases h
@[grind =] theorem ifaceNode_eq_none {m : AMap IfaceE} {k : Nat} : (ifaceNode m k = none) = (m.get k = none) := by
  unfold ifaceNode; cases m.get k <;> simp

@[simp, grind =] theorem ifaceNumber_set (m : AMap IfaceE) (x : Nat) (e : IfaceE) (k : Nat) :
    ifaceNumber (m.set x e) k = if k = x then e.number else ifaceNumber m k := by
  unfold ifaceNumber; rw [AMap.get_set]; by_cases hk : k = x <;> simp [hk]
@[grind →] theorem ifaceNumber_of_get {m : AMap IfaceE} {k : Nat} {e : IfaceE} (h : m.get k = some e) :
    ifaceNumber m k = e.number := by unfold ifaceNumber; rw [h]
@[grind →] theorem ifaceNumber_of_none {m : AMap IfaceE} {k : Nat} (h : m.get k = none) :
    ifaceNumber m k = 0 := by unfold ifaceNumber; rw [h]
theorem ifaceNumber_set_same {m : AMap IfaceE} {x : Nat} {e e' : IfaceE} (h : m.get x = some e) (hp : e'.number = e.number) :
    ifaceNumber (m.set x e') = ifaceNumber m := by
  funext k; rw [ifaceNumber_set]; by_cases hk : k = x
  · subst hk; simp [ifaceNumber_of_get h, hp]
  · simp [hk]

theorem ifaceNumber_set_keep {m : AMap IfaceE} {x : Nat} {e' : IfaceE}
    (h : match m.get x with | some e => e'.number = e.number | none => False) : ifaceNumber (m.set x e') = ifaceNumber m := by
  cases hm : m.get x with
  | none => rw [hm] at h; exact absurd h id
  | some e => rw [hm] at h; exact ifaceNumber_set_same hm h

@[simp, grind =] theorem ifaceBus_set (m : AMap IfaceE) (x : Nat) (e : IfaceE) (k : Nat) :
    ifaceBus (m.set x e) k = if k = x then e.parentBus else ifaceBus m k := by
  unfold ifaceBus; rw [AMap.get_set]; by_cases hk : k = x <;> simp [hk]
@[grind →] theorem ifaceBus_of_get {m : AMap IfaceE} {k : Nat} {e : IfaceE} (h : m.get k = some e) :
    ifaceBus m k = e.parentBus := by unfold ifaceBus; rw [h]
@[grind →] theorem ifaceBus_of_none {m : AMap IfaceE} {k : Nat} (h : m.get k = none) :
    ifaceBus m k = none := by unfold ifaceBus; rw [h]
theorem ifaceBus_set_same {m : AMap IfaceE} {x : Nat} {e e' : IfaceE} (h : m.get x = some e) (hp : e'.parentBus = e.parentBus) :
    ifaceBus (m.set x e') = ifaceBus m := by
  funext k; rw [ifaceBus_set]; by_cases hk : k = x
  · subst hk; simp [ifaceBus_of_get h, hp]
  · simp [hk]

theorem ifaceBus_set_keep {m : AMap IfaceE} {x : Nat} {e' : IfaceE}
    (h : match m.get x with | some e => e'.parentBus = e.parentBus | none => False) : ifaceBus (m.set x e') = ifaceBus m := by
  cases hm : m.get x with
  | none => rw [hm] at h; exact absurd h id
  | some e => rw [hm] at h; exact ifaceBus_set_same hm h

@[grind →] theorem ifaceBus_some_get {m : AMap IfaceE} {k : Nat} {v} (h : ifaceBus m k = some v) : m.get k ≠ none := by
  unfold ifaceBus at h; intro hn; rw [hn] at h; cases h

@[simp, grind =] theorem ifaceSent_set (m : AMap IfaceE) (x : Nat) (e : IfaceE) (k : Nat) :
    ifaceSent (m.set x e) k = if k = x then e.sent else ifaceSent m k := by
  unfold ifaceSent; rw [AMap.get_set]; by_cases hk : k = x <;> simp [hk]
@[grind →] theorem ifaceSent_of_get {m : AMap IfaceE} {k : Nat} {e : IfaceE} (h : m.get k = some e) :
    ifaceSent m k = e.sent := by unfold ifaceSent; rw [h]
@[grind →] theorem ifaceSent_of_none {m : AMap IfaceE} {k : Nat} (h : m.get k = none) :
    ifaceSent m k = [] := by unfold ifaceSent; rw [h]
theorem ifaceSent_set_same {m : AMap IfaceE} {x : Nat} {e e' : IfaceE} (h : m.get x = some e) (hp : e'.sent = e.sent) :
    ifaceSent (m.set x e') = ifaceSent m := by
  funext k; rw [ifaceSent_set]; by_cases hk : k = x
  · subst hk; simp [ifaceSent_of_get h, hp]
  · simp [hk]

theorem ifaceSent_set_keep {m : AMap IfaceE} {x : Nat} {e' : IfaceE}
    (h : match m.get x with | some e => e'.sent = e.sent | none => False) : ifaceSent (m.set x e') = ifaceSent m := by
  cases hm : m.get x with
  | none => rw [hm] at h; exact absurd h id
  | some e => rw [hm] at h; exact ifaceSent_set_same hm h

@[simp, grind =] theorem ifaceSentNames_set (m : AMap IfaceE) (x : Nat) (e : IfaceE) (k : Nat) :
    ifaceSentNames (m.set x e) k = if k = x then e.sentNames else ifaceSentNames m k := by
  unfold ifaceSentNames; rw [AMap.get_set]; by_cases hk : k = x <;> simp [hk]
@[grind →] theorem ifaceSentNames_of_get {m : AMap IfaceE} {k : Nat} {e : IfaceE} (h : m.get k = some e) :
    ifaceSentNames m k = e.sentNames := by unfold ifaceSentNames; rw [h]
@[grind →] theorem ifaceSentNames_of_none {m : AMap IfaceE} {k : Nat} (h : m.get k = none) :
    ifaceSentNames m k = [] := by unfold ifaceSentNames; rw [h]
theorem ifaceSentNames_set_same {m : AMap IfaceE} {x : Nat} {e e' : IfaceE} (h : m.get x = some e) (hp : e'.sentNames = e.sentNames) :
    ifaceSentNames (m.set x e') = ifaceSentNames m := by
  funext k; rw [ifaceSentNames_set]; by_cases hk : k = x
  · subst hk; simp [ifaceSentNames_of_get h, hp]
  · simp [hk]

theorem ifaceSentNames_set_keep {m : AMap IfaceE} {x : Nat} {e' : IfaceE}
    (h : match m.get x with | some e => e'.sentNames = e.sentNames | none => False) : ifaceSentNames (m.set x e') = ifaceSentNames m := by
  cases hm : m.get x with
  | none => rw [hm] at h; exact absurd h id
  | some e => rw [hm] at h; exact ifaceSentNames_set_same hm h

@[simp, grind =] theorem ifaceSentIDs_set (m : AMap IfaceE) (x : Nat) (e : IfaceE) (k : Nat) :
    ifaceSentIDs (m.set x e) k = if k = x then e.sentIDs else ifaceSentIDs m k := by
  unfold ifaceSentIDs; rw [AMap.get_set]; by_cases hk : k = x <;> simp [hk]
@[grind →] theorem ifaceSentIDs_of_get {m : AMap IfaceE} {k : Nat} {e : IfaceE} (h : m.get k = some e) :
    ifaceSentIDs m k = e.sentIDs := by unfold ifaceSentIDs; rw [h]
@[grind →] theorem ifaceSentIDs_of_none {m : AMap IfaceE} {k : Nat} (h : m.get k = none) :
    ifaceSentIDs m k = [] := by unfold ifaceSentIDs; rw [h]
theorem ifaceSentIDs_set_same {m : AMap IfaceE} {x : Nat} {e e' : IfaceE} (h : m.get x = some e) (hp : e'.sentIDs = e.sentIDs) :
    ifaceSentIDs (m.set x e') = ifaceSentIDs m := by
  funext k; rw [ifaceSentIDs_set]; by_cases hk : k = x
  · subst hk; simp [ifaceSentIDs_of_get h, hp]
  · simp [hk]

theorem ifaceSentIDs_set_keep {m : AMap IfaceE} {x : Nat} {e' : IfaceE}
    (h : match m.get x with | some e => e'.sentIDs = e.sentIDs | none => False) : ifaceSentIDs (m.set x e') = ifaceSentIDs m := by
  cases hm : m.get x with
  | none => rw [hm] at h; exact absurd h id
  | some e => rw [hm] at h; exact ifaceSentIDs_set_same hm h

@[simp, grind =] theorem ifaceSentStatic_set (m : AMap IfaceE) (x : Nat) (e : IfaceE) (k : Nat) :
    ifaceSentStatic (m.set x e) k = if k = x then e.sentStatic else ifaceSentStatic m k := by
  unfold ifaceSentStatic; rw [AMap.get_set]; by_cases hk : k = x <;> simp [hk]
@[grind →] theorem ifaceSentStatic_of_get {m : AMap IfaceE} {k : Nat} {e : IfaceE} (h : m.get k = some e) :
    ifaceSentStatic m k = e.sentStatic := by unfold ifaceSentStatic; rw [h]
@[grind →] theorem ifaceSentStatic_of_none {m : AMap IfaceE} {k : Nat} (h : m.get k = none) :
    ifaceSentStatic m k = [] := by unfold ifaceSentStatic; rw [h]
theorem ifaceSentStatic_set_same {m : AMap IfaceE} {x : Nat} {e e' : IfaceE} (h : m.get x = some e) (hp : e'.sentStatic = e.sentStatic) :
    ifaceSentStatic (m.set x e') = ifaceSentStatic m := by
  funext k; rw [ifaceSentStatic_set]; by_cases hk : k = x
  · subst hk; simp [ifaceSentStatic_of_get h, hp]
  · simp [hk]

theorem ifaceSentStatic_set_keep {m : AMap IfaceE} {x : Nat} {e' : IfaceE}
    (h : match m.get x with | some e => e'.sentStatic = e.sentStatic | none => False) : ifaceSentStatic (m.set x e') = ifaceSentStatic m := by
  cases hm : m.get x with
  | none => rw [hm] at h; exact absurd h id
  | some e => rw [hm] at h; exact ifaceSentStatic_set_same hm h

@[simp, grind =] theorem ifaceRecv_set (m : AMap IfaceE) (x : Nat) (e : IfaceE) (k : Nat) :
    ifaceRecv (m.set x e) k = if k = x then e.received else ifaceRecv m k := by
  unfold ifaceRecv; rw [AMap.get_set]; by_cases hk : k = x <;> simp [hk]
@[grind →] theorem ifaceRecv_of_get {m : AMap IfaceE} {k : Nat} {e : IfaceE} (h : m.get k = some e) :
    ifaceRecv m k = e.received := by unfold ifaceRecv; rw [h]
@[grind →] theorem ifaceRecv_of_none {m : AMap IfaceE} {k : Nat} (h : m.get k = none) :
    ifaceRecv m k = [] := by unfold ifaceRecv; rw [h]
theorem ifaceRecv_set_same {m : AMap IfaceE} {x : Nat} {e e' : IfaceE} (h : m.get x = some e) (hp : e'.received = e.received) :
    ifaceRecv (m.set x e') = ifaceRecv m := by
  funext k; rw [ifaceRecv_set]; by_cases hk : k = x
  · subst hk; simp [ifaceRecv_of_get h, hp]
  · simp [hk]

theorem ifaceRecv_set_keep {m : AMap IfaceE} {x : Nat} {e' : IfaceE}
    (h : match m.get x with | some e => e'.received = e.received | none => False) : ifaceRecv (m.set x e') = ifaceRecv m := by
  cases hm : m.get x with
  | none => rw [hm] at h; exact absurd h id
  | some e => rw [hm] at h; exact ifaceRecv_set_same hm h

@[simp, grind =] theorem msgName_set (m : AMap MsgE) (x : Nat) (e : MsgE) (k : Nat) :
    msgName (m.set x e) k = if k = x then some e.name else msgName m k := by
  unfold msgName; rw [AMap.get_set]; by_cases hk : k = x <;> simp [hk]
@[grind →] theorem msgName_of_get {m : AMap MsgE} {k : Nat} {e : MsgE} (h : m.get k = some e) :
    msgName m k = some e.name := by unfold msgName; rw [h]
@[grind →] theorem msgName_of_none {m : AMap MsgE} {k : Nat} (h : m.get k = none) :
    msgName m k = none := by unfold msgName; rw [h]
theorem msgName_set_same {m : AMap MsgE} {x : Nat} {e e' : MsgE} (h : m.get x = some e) (hp : e'.name = e.name) :
    msgName (m.set x e') = msgName m := by
  funext k; rw [msgName_set]; by_cases hk : k = x
  · subst hk; simp [msgName_of_get h, hp]
  · simp [hk]

theorem msgName_set_keep {m : AMap MsgE} {x : Nat} {e' : MsgE}
    (h : match m.get x with | some e => e'.name = e.name | none => False) : msgName (m.set x e') = msgName m := by
  cases hm : m.get x with
  | none => rw [hm] at h; exact absurd h id
  | some e => rw [hm] at h; exact msgName_set_same hm h

@[grind →] theorem msgName_some_get {m : AMap MsgE} {k : Nat} {v} (h : msgName m k = some v) : m.get k ≠ none := by
  unfold msgName at h; intro hn; rw [hn] at h; cases h
@[grind =] theorem msgName_eq_none {m : AMap MsgE} {k : Nat} : (msgName m k = none) = (m.get k = none) := by
  unfold msgName; cases m.get k <;> simp

@[simp, grind =] theorem msgMid_set (m : AMap MsgE) (x : Nat) (e : MsgE) (k : Nat) :
    msgMid (m.set x e) k = if k = x then some e.mid else msgMid m k := by
  unfold msgMid; rw [AMap.get_set]; by_cases hk : k = x <;> simp [hk]
@[grind →] theorem msgMid_of_get {m : AMap MsgE} {k : Nat} {e : MsgE} (h : m.get k = some e) :
    msgMid m k = some e.mid := by unfold msgMid; rw [h]
@[grind →] theorem msgMid_of_none {m : AMap MsgE} {k : Nat} (h : m.get k = none) :
    msgMid m k = none := by unfold msgMid; rw [h]
theorem msgMid_set_same {m : AMap MsgE} {x : Nat} {e e' : MsgE} (h : m.get x = some e) (hp : e'.mid = e.mid) :
    msgMid (m.set x e') = msgMid m := by
  funext k; rw [msgMid_set]; by_cases hk : k = x
  · subst hk; simp [msgMid_of_get h, hp]
  · simp [hk]

theorem msgMid_set_keep {m : AMap MsgE} {x : Nat} {e' : MsgE}
    (h : match m.get x with | some e => e'.mid = e.mid | none => False) : msgMid (m.set x e') = msgMid m := by
  cases hm : m.get x with
  | none => rw [hm] at h; exact absurd h id
  | some e => rw [hm] at h; exact msgMid_set_same hm h

@[grind →] theorem msgMid_some_get {m : AMap MsgE} {k : Nat} {v} (h : msgMid m k = some v) : m.get k ≠ none := by
  unfold msgMid at h; intro hn; rw [hn] at h; cases h
@[grind =] theorem msgMid_eq_none {m : AMap MsgE} {k : Nat} : (msgMid m k = none) = (m.get k = none) := by
  unfold msgMid; cases m.get k <;> simp

@[simp, grind =] theorem msgStatic_set (m : AMap MsgE) (x : Nat) (e : MsgE) (k : Nat) :
    msgStatic (m.set x e) k = if k = x then e.static else msgStatic m k := by
  unfold msgStatic; rw [AMap.get_set]; by_cases hk : k = x <;> simp [hk]
@[grind →] theorem msgStatic_of_get {m : AMap MsgE} {k : Nat} {e : MsgE} (h : m.get k = some e) :
    msgStatic m k = e.static := by unfold msgStatic; rw [h]
@[grind →] theorem msgStatic_of_none {m : AMap MsgE} {k : Nat} (h : m.get k = none) :
    msgStatic m k = none := by unfold msgStatic; rw [h]
theorem msgStatic_set_same {m : AMap MsgE} {x : Nat} {e e' : MsgE} (h : m.get x = some e) (hp : e'.static = e.static) :
    msgStatic (m.set x e') = msgStatic m := by
  funext k; rw [msgStatic_set]; by_cases hk : k = x
  · subst hk; simp [msgStatic_of_get h, hp]
  · simp [hk]

theorem msgStatic_set_keep {m : AMap MsgE} {x : Nat} {e' : MsgE}
    (h : match m.get x with | some e => e'.static = e.static | none => False) : msgStatic (m.set x e') = msgStatic m := by
  cases hm : m.get x with
  | none => rw [hm] at h; exact absurd h id
  | some e => rw [hm] at h; exact msgStatic_set_same hm h

@[grind →] theorem msgStatic_some_get {m : AMap MsgE} {k : Nat} {v} (h : msgStatic m k = some v) : m.get k ≠ none := by
  unfold msgStatic at h; intro hn; rw [hn] at h; cases h

@[simp, grind =] theorem msgSender_set (m : AMap MsgE) (x : Nat) (e : MsgE) (k : Nat) :
    msgSender (m.set x e) k = if k = x then e.sender else msgSender m k := by
  unfold msgSender; rw [AMap.get_set]; by_cases hk : k = x <;> simp [hk]
@[grind →] theorem msgSender_of_get {m : AMap MsgE} {k : Nat} {e : MsgE} (h : m.get k = some e) :
    msgSender m k = e.sender := by unfold msgSender; rw [h]
@[grind →] theorem msgSender_of_none {m : AMap MsgE} {k : Nat} (h : m.get k = none) :
    msgSender m k = none := by unfold msgSender; rw [h]
theorem msgSender_set_same {m : AMap MsgE} {x : Nat} {e e' : MsgE} (h : m.get x = some e) (hp : e'.sender = e.sender) :
    msgSender (m.set x e') = msgSender m := by
  funext k; rw [msgSender_set]; by_cases hk : k = x
  · subst hk; simp [msgSender_of_get h, hp]
  · simp [hk]

theorem msgSender_set_keep {m : AMap MsgE} {x : Nat} {e' : MsgE}
    (h : match m.get x with | some e => e'.sender = e.sender | none => False) : msgSender (m.set x e') = msgSender m := by
  cases hm : m.get x with
  | none => rw [hm] at h; exact absurd h id
  | some e => rw [hm] at h; exact msgSender_set_same hm h

@[grind →] theorem msgSender_some_get {m : AMap MsgE} {k : Nat} {v} (h : msgSender m k = some v) : m.get k ≠ none := by
  unfold msgSender at h; intro hn; rw [hn] at h; cases h

@[simp, grind =] theorem msgReceivers_set (m : AMap MsgE) (x : Nat) (e : MsgE) (k : Nat) :
    msgReceivers (m.set x e) k = if k = x then e.receivers else msgReceivers m k := by
  unfold msgReceivers; rw [AMap.get_set]; by_cases hk : k = x <;> simp [hk]
@[grind →] theorem msgReceivers_of_get {m : AMap MsgE} {k : Nat} {e : MsgE} (h : m.get k = some e) :
    msgReceivers m k = e.receivers := by unfold msgReceivers; rw [h]
@[grind →] theorem msgReceivers_of_none {m : AMap MsgE} {k : Nat} (h : m.get k = none) :
    msgReceivers m k = [] := by unfold msgReceivers; rw [h]
theorem msgReceivers_set_same {m : AMap MsgE} {x : Nat} {e e' : MsgE} (h : m.get x = some e) (hp : e'.receivers = e.receivers) :
    msgReceivers (m.set x e') = msgReceivers m := by
  funext k; rw [msgReceivers_set]; by_cases hk : k = x
  · subst hk; simp [msgReceivers_of_get h, hp]
  · simp [hk]

theorem msgReceivers_set_keep {m : AMap MsgE} {x : Nat} {e' : MsgE}
    (h : match m.get x with | some e => e'.receivers = e.receivers | none => False) : msgReceivers (m.set x e') = msgReceivers m := by
  cases hm : m.get x with
  | none => rw [hm] at h; exact absurd h id
  | some e => rw [hm] at h; exact msgReceivers_set_same hm h

@[simp, grind =] theorem msgAttrs_set (m : AMap MsgE) (x : Nat) (e : MsgE) (k : Nat) :
    msgAttrs (m.set x e) k = if k = x then e.attrs else msgAttrs m k := by
  unfold msgAttrs; rw [AMap.get_set]; by_cases hk : k = x <;> simp [hk]
@[grind →] theorem msgAttrs_of_get {m : AMap MsgE} {k : Nat} {e : MsgE} (h : m.get k = some e) :
    msgAttrs m k = e.attrs := by unfold msgAttrs; rw [h]
@[grind →] theorem msgAttrs_of_none {m : AMap MsgE} {k : Nat} (h : m.get k = none) :
    msgAttrs m k = [] := by unfold msgAttrs; rw [h]
theorem msgAttrs_set_same {m : AMap MsgE} {x : Nat} {e e' : MsgE} (h : m.get x = some e) (hp : e'.attrs = e.attrs) :
    msgAttrs (m.set x e') = msgAttrs m := by
  funext k; rw [msgAttrs_set]; by_cases hk : k = x
  · subst hk; simp [msgAttrs_of_get h, hp]
  · simp [hk]

theorem msgAttrs_set_keep {m : AMap MsgE} {x : Nat} {e' : MsgE}
    (h : match m.get x with | some e => e'.attrs = e.attrs | none => False) : msgAttrs (m.set x e') = msgAttrs m := by
  cases hm : m.get x with
  | none => rw [hm] at h; exact absurd h id
  | some e => rw [hm] at h; exact msgAttrs_set_same hm h

@[simp, grind =] theorem builderRefs_set (m : AMap BuilderE) (x : Nat) (e : BuilderE) (k : Nat) :
    builderRefs (m.set x e) k = if k = x then e.refs else builderRefs m k := by
  unfold builderRefs; rw [AMap.get_set]; by_cases hk : k = x <;> simp [hk]
@[grind →] theorem builderRefs_of_get {m : AMap BuilderE} {k : Nat} {e : BuilderE} (h : m.get k = some e) :
    builderRefs m k = e.refs := by unfold builderRefs; rw [h]
@[grind →] theorem builderRefs_of_none {m : AMap BuilderE} {k : Nat} (h : m.get k = none) :
    builderRefs m k = [] := by unfold builderRefs; rw [h]
theorem builderRefs_set_same {m : AMap BuilderE} {x : Nat} {e e' : BuilderE} (h : m.get x = some e) (hp : e'.refs = e.refs) :
    builderRefs (m.set x e') = builderRefs m := by
  funext k; rw [builderRefs_set]; by_cases hk : k = x
  · subst hk; simp [builderRefs_of_get h, hp]
  · simp [hk]

theorem builderRefs_set_keep {m : AMap BuilderE} {x : Nat} {e' : BuilderE}
    (h : match m.get x with | some e => e'.refs = e.refs | none => False) : builderRefs (m.set x e') = builderRefs m := by
  cases hm : m.get x with
  | none => rw [hm] at h; exact absurd h id
  | some e => rw [hm] at h; exact builderRefs_set_same hm h

@[simp, grind =] theorem attrRefs_set (m : AMap AttrE) (x : Nat) (e : AttrE) (k : Nat) :
    attrRefs (m.set x e) k = if k = x then e.refs else attrRefs m k := by
  unfold attrRefs; rw [AMap.get_set]; by_cases hk : k = x <;> simp [hk]
@[grind →] theorem attrRefs_of_get {m : AMap AttrE} {k : Nat} {e : AttrE} (h : m.get k = some e) :
    attrRefs m k = e.refs := by unfold attrRefs; rw [h]
@[grind →] theorem attrRefs_of_none {m : AMap AttrE} {k : Nat} (h : m.get k = none) :
    attrRefs m k = [] := by unfold attrRefs; rw [h]
theorem attrRefs_set_same {m : AMap AttrE} {x : Nat} {e e' : AttrE} (h : m.get x = some e) (hp : e'.refs = e.refs) :
    attrRefs (m.set x e') = attrRefs m := by
  funext k; rw [attrRefs_set]; by_cases hk : k = x
  · subst hk; simp [attrRefs_of_get h, hp]
  · simp [hk]

theorem attrRefs_set_keep {m : AMap AttrE} {x : Nat} {e' : AttrE}
    (h : match m.get x with | some e => e'.refs = e.refs | none => False) : attrRefs (m.set x e') = attrRefs m := by
  cases hm : m.get x with
  | none => rw [hm] at h; exact absurd h id
  | some e => rw [hm] at h; exact attrRefs_set_same hm h

@[simp, grind =] theorem defRefs_set (m : AMap DefE) (x : Nat) (e : DefE) (k : Nat) :
    defRefs (m.set x e) k = if k = x then e.refs else defRefs m k := by
  unfold defRefs; rw [AMap.get_set]; by_cases hk : k = x <;> simp [hk]
@[grind →] theorem defRefs_of_get {m : AMap DefE} {k : Nat} {e : DefE} (h : m.get k = some e) :
    defRefs m k = e.refs := by unfold defRefs; rw [h]
@[grind →] theorem defRefs_of_none {m : AMap DefE} {k : Nat} (h : m.get k = none) :
    defRefs m k = [] := by unfold defRefs; rw [h]
theorem defRefs_set_same {m : AMap DefE} {x : Nat} {e e' : DefE} (h : m.get x = some e) (hp : e'.refs = e.refs) :
    defRefs (m.set x e') = defRefs m := by
  funext k; rw [defRefs_set]; by_cases hk : k = x
  · subst hk; simp [defRefs_of_get h, hp]
  · simp [hk]

theorem defRefs_set_keep {m : AMap DefE} {x : Nat} {e' : DefE}
    (h : match m.get x with | some e => e'.refs = e.refs | none => False) : defRefs (m.set x e') = defRefs m := by
  cases hm : m.get x with
  | none => rw [hm] at h; exact absurd h id
  | some e => rw [hm] at h; exact defRefs_set_same hm h

@[simp, grind =] theorem sigTyp_set (m : AMap SigE) (x : Nat) (e : SigE) (k : Nat) :
    sigTyp (m.set x e) k = if k = x then some e.typ else sigTyp m k := by
  unfold sigTyp; rw [AMap.get_set]; by_cases hk : k = x <;> simp [hk]
@[grind →] theorem sigTyp_of_get {m : AMap SigE} {k : Nat} {e : SigE} (h : m.get k = some e) :
    sigTyp m k = some e.typ := by unfold sigTyp; rw [h]
@[grind →] theorem sigTyp_of_none {m : AMap SigE} {k : Nat} (h : m.get k = none) :
    sigTyp m k = none := by unfold sigTyp; rw [h]
theorem sigTyp_set_same {m : AMap SigE} {x : Nat} {e e' : SigE} (h : m.get x = some e) (hp : e'.typ = e.typ) :
    sigTyp (m.set x e') = sigTyp m := by
  funext k; rw [sigTyp_set]; by_cases hk : k = x
  · subst hk; simp [sigTyp_of_get h, hp]
  · simp [hk]

theorem sigTyp_set_keep {m : AMap SigE} {x : Nat} {e' : SigE}
    (h : match m.get x with | some e => e'.typ = e.typ | none => False) : sigTyp (m.set x e') = sigTyp m := by
  cases hm : m.get x with
  | none => rw [hm] at h; exact absurd h id
  | some e => rw [hm] at h; exact sigTyp_set_same hm h

@[grind →] theorem sigTyp_some_get {m : AMap SigE} {k : Nat} {v} (h : sigTyp m k = some v) : m.get k ≠ none := by
  unfold sigTyp at h; intro hn; rw [hn] at h; cases h
@[grind =] theorem sigTyp_eq_none {m : AMap SigE} {k : Nat} : (sigTyp m k = none) = (m.get k = none) := by
  unfold sigTyp; cases m.get k <;> simp

@[simp, grind =] theorem sigUnit_set (m : AMap SigE) (x : Nat) (e : SigE) (k : Nat) :
    sigUnit (m.set x e) k = if k = x then e.unit else sigUnit m k := by
  unfold sigUnit; rw [AMap.get_set]; by_cases hk : k = x <;> simp [hk]
@[grind →] theorem sigUnit_of_get {m : AMap SigE} {k : Nat} {e : SigE} (h : m.get k = some e) :
    sigUnit m k = e.unit := by unfold sigUnit; rw [h]
@[grind →] theorem sigUnit_of_none {m : AMap SigE} {k : Nat} (h : m.get k = none) :
    sigUnit m k = none := by unfold sigUnit; rw [h]
theorem sigUnit_set_same {m : AMap SigE} {x : Nat} {e e' : SigE} (h : m.get x = some e) (hp : e'.unit = e.unit) :
    sigUnit (m.set x e') = sigUnit m := by
  funext k; rw [sigUnit_set]; by_cases hk : k = x
  · subst hk; simp [sigUnit_of_get h, hp]
  · simp [hk]

theorem sigUnit_set_keep {m : AMap SigE} {x : Nat} {e' : SigE}
    (h : match m.get x with | some e => e'.unit = e.unit | none => False) : sigUnit (m.set x e') = sigUnit m := by
  cases hm : m.get x with
  | none => rw [hm] at h; exact absurd h id
  | some e => rw [hm] at h; exact sigUnit_set_same hm h

@[grind →] theorem sigUnit_some_get {m : AMap SigE} {k : Nat} {v} (h : sigUnit m k = some v) : m.get k ≠ none := by
  unfold sigUnit at h; intro hn; rw [hn] at h; cases h

@[simp, grind =] theorem sigAttrs_set (m : AMap SigE) (x : Nat) (e : SigE) (k : Nat) :
    sigAttrs (m.set x e) k = if k = x then e.attrs else sigAttrs m k := by
  unfold sigAttrs; rw [AMap.get_set]; by_cases hk : k = x <;> simp [hk]
@[grind →] theorem sigAttrs_of_get {m : AMap SigE} {k : Nat} {e : SigE} (h : m.get k = some e) :
    sigAttrs m k = e.attrs := by unfold sigAttrs; rw [h]
@[grind →] theorem sigAttrs_of_none {m : AMap SigE} {k : Nat} (h : m.get k = none) :
    sigAttrs m k = [] := by unfold sigAttrs; rw [h]
theorem sigAttrs_set_same {m : AMap SigE} {x : Nat} {e e' : SigE} (h : m.get x = some e) (hp : e'.attrs = e.attrs) :
    sigAttrs (m.set x e') = sigAttrs m := by
  funext k; rw [sigAttrs_set]; by_cases hk : k = x
  · subst hk; simp [sigAttrs_of_get h, hp]
  · simp [hk]

theorem sigAttrs_set_keep {m : AMap SigE} {x : Nat} {e' : SigE}
    (h : match m.get x with | some e => e'.attrs = e.attrs | none => False) : sigAttrs (m.set x e') = sigAttrs m := by
  cases hm : m.get x with
  | none => rw [hm] at h; exact absurd h id
  | some e => rw [hm] at h; exact sigAttrs_set_same hm h


@[simp] theorem nodeName_eq (g : G) (n : Nat) : nodeName g n = nodeNameC g.nodes n := rfl
@[simp] theorem nodeNid_eq (g : G) (n : Nat) : nodeNid g n = nodeNidC g.nodes n := rfl

end Acme.Graph
