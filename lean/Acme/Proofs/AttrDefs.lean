/-
Round trip of the DEFINITIONS: the definitions and defaults the exporter emits are read back by
the first loop of `importAttributes` as the attributes they came from, and every exported name
is found in the resulting table.
-/
import Acme.Proofs.AttrBasic

namespace Acme.Attr
open Acme.Conv

/-! ## one definition -/

/-- the value list an index of a `BA_` line refers to -/
def fileValues : AttrType → List String
  | .enum vs _ => vs
  | _ => []

def entryOf (a : AttrDef) : Entry := ⟨a, fileValues a.ty⟩

theorem u32_cast {i : Int} (h0 : 0 ≤ i) (h1 : i < 4294967296) : ((u32 i : Nat) : Int) = i := by
  unfold u32; omega

theorem exportDef_name (k : Kind) (a : AttrDef) : (exportDef k a).1.name = a.name := by
  obtain ⟨n, ty⟩ := a
  cases ty with
  | int d mn mx h => simp only [exportDef]; split <;> rfl
  | _ => rfl

theorem exportDef_default_name (k : Kind) (a : AttrDef) : (exportDef k a).2.name = a.name := by
  obtain ⟨n, ty⟩ := a
  cases ty with
  | int d mn mx h => simp only [exportDef]; split <;> rfl
  | _ => rfl

theorem exportDef_default_kind (k k' : Kind) (a : AttrDef) : (exportDef k a).2 = (exportDef k' a).2 := by
  obtain ⟨n, ty⟩ := a
  cases ty with
  | int d mn mx h => simp only [exportDef]; split <;> rfl
  | _ => rfl

theorem dedupAux_nodup : ∀ (l seen : List String), l.Nodup → (∀ x ∈ l, x ∉ seen) → dedupAux seen l = l
  | [], _, _, _ => rfl
  | a :: r, seen, hn, hs => by
    have hn' := List.nodup_cons.1 hn
    have ha : seen.contains a = false := by
      cases hc : seen.contains a with
      | false => rfl
      | true => exact absurd (List.contains_iff_mem.1 hc) (hs a (List.mem_cons_self ..))
    simp only [dedupAux, ha, Bool.false_eq_true, if_false]
    rw [dedupAux_nodup r (a :: seen) hn'.2]
    intro x hx hm
    rcases List.mem_cons.1 hm with rfl | hm
    · exact hn'.1 hx
    · exact hs x (List.mem_cons_of_mem _ hx) hm

theorem dedup_nodup (l : List String) (h : l.Nodup) : dedup l = l :=
  dedupAux_nodup l [] h (fun _ _ hm => by cases hm)

theorem exportsAsHex_true {hex : Bool} {mn mx : Int} (h : exportsAsHex hex mn mx = true) :
    hex = true ∧ 0 ≤ mn ∧ mx ≤ 4294967295 := by
  unfold exportsAsHex at h
  simp only [Bool.and_eq_true, decide_eq_true_eq] at h
  exact ⟨h.1.1, h.1.2, h.2⟩

theorem fileValues_normTy (t : AttrType) : fileValues (normTy t) = fileValues t := by
  cases t <;> rfl

/-- a definition made by the constructors comes back from its exported form (with the hex flag
    normalised), whatever the other definitions of the file are, as long as the default the
    importer finds under its name is the exported one -/
theorem importDef_export (defaults : List DDefault) (k : Kind) (a : AttrDef) (hd : DefOK a.ty)
    (hl : ∃ dd, lookupDefault defaults a.name = some dd ∧ dd.val = (exportDef k a).2.val) :
    importDef defaults (exportDef k a).1 = .ok (entryOf (normAtt a)) := by
  obtain ⟨dd, h1, h2⟩ := hl
  obtain ⟨n, ty⟩ := a
  cases ty with
  | str d =>
    simp only [exportDef] at h2 ⊢
    simp only [importDef, h1, h2, defaultString, entryOf, fileValues, normAtt, normTy]
  | int d mn mx hex =>
    simp only [DefOK] at hd
    have c1 : ¬ mn > mx := by omega
    have c2 : ¬ d > mx := by omega
    have c3 : ¬ d < mn := by omega
    cases hx : exportsAsHex hex mn mx with
    | false =>
      simp only [exportDef, hx, Bool.false_eq_true, if_false] at h2 ⊢
      simp only [importDef, h1, h2, defaultInt, newInt, c1, c2, c3, if_false, Except.map, entryOf, fileValues,
        normAtt, normTy, hx]
    | true =>
      obtain ⟨_, f1, f2⟩ := exportsAsHex_true hx
      simp only [exportDef, hx, if_true] at h2 ⊢
      have e1 := u32_cast (i := mn) (by omega) (by omega)
      have e2 := u32_cast (i := mx) (by omega) (by omega)
      have e3 := u32_cast (i := d) (by omega) (by omega)
      simp only [importDef, h1, h2, defaultInt, newInt, e1, e2, e3, c1, c2, c3, if_false, Except.map, entryOf,
        fileValues, normAtt, normTy, hx]
  | float d mn mx =>
    simp only [exportDef] at h2 ⊢
    simp only [DefOK] at hd
    have c1 : ¬ mn > mx := Rat.not_lt.2 (Rat.le_trans hd.1 hd.2)
    have c2 : ¬ d > mx := Rat.not_lt.2 hd.2
    have c3 : ¬ d < mn := Rat.not_lt.2 hd.1
    simp only [importDef, h1, h2, defaultFloat, newFloat, c1, c2, c3, if_false, Except.map, entryOf, fileValues,
      normAtt, normTy]
  | enum vs d =>
    simp only [exportDef] at h2 ⊢
    simp only [DefOK] at hd
    cases vs with
    | nil => simp at hd
    | cons v r =>
      have hv : v = d := by simpa using hd.2
      subst hv
      simp only [importDef, h1, newEnum, dedup_nodup _ hd.1, Except.map, entryOf, fileValues, normAtt, normTy]

/-! ## which definitions are emitted -/

/-- the items whose definition is emitted (same recursion as `emitDefs`) -/
def emitItems (seen : List (Kind × String)) : List Item → List Item
  | [] => []
  | it :: r =>
    if seen.contains (it.kind, it.asg.att.name) then emitItems seen r
    else it :: emitItems ((it.kind, it.asg.att.name) :: seen) r

theorem emitDefs_eq : ∀ (l : List Item) (seen : List (Kind × String)),
    emitDefs seen l = (emitItems seen l).map (fun it => exportDef it.kind it.asg.att)
  | [], _ => rfl
  | it :: r, seen => by
    unfold emitDefs emitItems
    split
    · exact emitDefs_eq r seen
    · simp only [List.map_cons, emitDefs_eq r]

theorem emitItems_sub : ∀ (l : List Item) (seen : List (Kind × String)), ∀ x ∈ emitItems seen l, x ∈ l
  | [], _, x, hx => by cases hx
  | it :: r, seen, x, hx => by
    unfold emitItems at hx
    split at hx
    · exact List.mem_cons_of_mem _ (emitItems_sub r seen x hx)
    · rcases List.mem_cons.1 hx with rfl | hx
      · exact List.mem_cons_self ..
      · exact List.mem_cons_of_mem _ (emitItems_sub r _ x hx)

/-- every item finds a definition with its name: emitted now or before -/
theorem emitItems_cover : ∀ (l : List Item) (seen : List (Kind × String)), ∀ it ∈ l,
    (it.kind, it.asg.att.name) ∈ seen ∨
      ∃ it' ∈ emitItems seen l, it'.asg.att.name = it.asg.att.name
  | [], _, it, h => by cases h
  | x :: r, seen, it, h => by
    unfold emitItems
    rcases List.mem_cons.1 h with rfl | hr
    · split
      · rename_i hc
        exact Or.inl (List.contains_iff_mem.1 hc)
      · exact Or.inr ⟨it, List.mem_cons_self .., rfl⟩
    · split
      · exact emitItems_cover r seen it hr
      · rcases emitItems_cover r ((x.kind, x.asg.att.name) :: seen) it hr with hm | ⟨it', h1, h2⟩
        · rcases List.mem_cons.1 hm with he | hm
          · refine Or.inr ⟨x, List.mem_cons_self .., ?_⟩
            exact (congrArg Prod.snd he).symm
          · exact Or.inl hm
        · exact Or.inr ⟨it', List.mem_cons_of_mem _ h1, h2⟩

theorem find?_reverse_some {α : Type} {p : α → Bool} {l : List α} (h : ∃ x ∈ l, p x = true) :
    ∃ y, l.reverse.find? p = some y ∧ y ∈ l ∧ p y = true := by
  obtain ⟨x, hx, hp⟩ := h
  cases hf : l.reverse.find? p with
  | none =>
    have := List.find?_eq_none.1 hf x (List.mem_reverse.2 hx)
    exact absurd hp this
  | some y =>
    exact ⟨y, rfl, List.mem_reverse.1 (List.mem_of_find?_eq_some hf), List.find?_some hf⟩

theorem mapE_map_ok_of_forall {α β γ ε : Type} {f : β → Except ε γ} {g : α → β} {h : α → γ} :
    ∀ l : List α, (∀ x ∈ l, f (g x) = .ok (h x)) → mapE f (l.map g) = .ok (l.map h)
  | [], _ => rfl
  | a :: r, hh => by
    have h1 := hh a (List.mem_cons_self ..)
    have h2 := mapE_map_ok_of_forall r (fun x hx => hh x (List.mem_cons_of_mem _ hx))
    simp only [List.map_cons, mapE, h1, h2]

/-! ## the table of an exported item list -/

/-- the items are made of good attributes, one attribute per name -/
structure ItemsOK (its : List Item) : Prop where
  defs : ∀ it ∈ its, DefOK it.asg.att.ty
  oneName : ∀ a ∈ its, ∀ b ∈ its, a.asg.att.name = b.asg.att.name → a.asg.att = b.asg.att

/-- the table the importer builds from the exported definitions -/
def tableOf (its : List Item) : List Entry :=
  (emitItems [] its).map (fun it => entryOf (normAtt it.asg.att))

theorem lookupDefault_export {its : List Item} (ok : ItemsOK its) (it : Item) (hit : it ∈ its) :
    ∃ dd, lookupDefault ((emitDefs [] its).map (·.2)) it.asg.att.name = some dd ∧
      dd.val = (exportDef it.kind it.asg.att).2.val := by
  have hcov := emitItems_cover its [] it hit
  rcases hcov with hm | ⟨it', h1, h2⟩
  · cases hm
  · have hex : ∃ x ∈ (emitDefs [] its).map (·.2), decide (x.name = it.asg.att.name) = true := by
      refine ⟨(exportDef it'.kind it'.asg.att).2, ?_, ?_⟩
      · rw [emitDefs_eq]
        exact List.mem_map_of_mem (List.mem_map_of_mem h1)
      · simp [exportDef_default_name, h2]
    obtain ⟨y, hy1, hy2, hy3⟩ := find?_reverse_some hex
    refine ⟨y, hy1, ?_⟩
    rw [emitDefs_eq] at hy2
    obtain ⟨p, hp, rfl⟩ := List.mem_map.1 hy2
    obtain ⟨it'', h3, rfl⟩ := List.mem_map.1 hp
    have hn : it''.asg.att.name = it.asg.att.name := by
      have := of_decide_eq_true hy3
      simpa [exportDef_default_name] using this
    have hatt := ok.oneName it'' (emitItems_sub _ _ _ h3) it hit hn
    show (exportDef it''.kind it''.asg.att).2.val = _
    rw [hatt, exportDef_default_kind it''.kind it.kind]

theorem table_export {its : List Item} (ok : ItemsOK its) :
    mapE (importDef ((emitDefs [] its).map (·.2))) ((emitDefs [] its).map (·.1)) = .ok (tableOf its) := by
  have e : (emitDefs [] its).map (·.1) = (emitItems [] its).map (fun it => (exportDef it.kind it.asg.att).1) := by
    rw [emitDefs_eq, List.map_map]; rfl
  rw [e]
  unfold tableOf
  apply mapE_map_ok_of_forall
  intro it hit
  have hmem := emitItems_sub _ _ _ hit
  exact importDef_export _ it.kind it.asg.att (ok.defs it hmem) (lookupDefault_export ok it hmem)

theorem lookupEntry_export {its : List Item} (ok : ItemsOK its) (it : Item) (hit : it ∈ its) :
    lookupEntry (tableOf its) it.asg.att.name = some (entryOf (normAtt it.asg.att)) := by
  have hcov := emitItems_cover its [] it hit
  rcases hcov with hm | ⟨it', h1, h2⟩
  · cases hm
  · have hex : ∃ x ∈ tableOf its, decide (x.att.name = it.asg.att.name) = true := by
      refine ⟨entryOf (normAtt it'.asg.att), List.mem_map_of_mem h1, ?_⟩
      simp [entryOf, normAtt, h2]
    obtain ⟨y, hy1, hy2, hy3⟩ := find?_reverse_some hex
    unfold lookupEntry
    rw [hy1]
    obtain ⟨it'', h3, rfl⟩ := List.mem_map.1 hy2
    have hn : it''.asg.att.name = it.asg.att.name := by
      have := of_decide_eq_true hy3
      simpa [entryOf, normAtt] using this
    rw [ok.oneName it'' (emitItems_sub _ _ _ h3) it hit hn]

end Acme.Attr
