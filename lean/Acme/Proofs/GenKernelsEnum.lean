/-
Generated size computations of enums and multiplexers (signal_enum.go: getMaxIndexWith,
SignalEnum.GetSize; mux_signal.go: GetGroupCountSize, MultiplexerSignal.GetSize) equal the hand
models (Acme.Payload.maxIndexWith, Acme.Arith.enumSize, Acme.Arith.muxSelWidth, the `.mux` case
of Acme.Mux.sigSize).

`getMaxIndexWith` ranges over a Go MAP (`se.values.entries()`): the translator presents its
values as a list in an arbitrary order; the theorem holds for every list, hence for every
iteration order.  The hand model folds over the value ids of the enum and looks the index up in
the world; `viewVals` is that view.
-/
import Acme.Gen.Kernels
import Acme.Core.Payload
import Acme.Core.Mux
import Acme.Proofs.GenKernels

namespace Acme.GenK

open Acme.Gen

/-- the values of an enum as the translator sees them: (entity id, index) -/
def viewVals (w : Acme.Payload.W) (values : List Nat) : List Acme.GoSem.IdIndex :=
  values.map (fun x => ⟨x, Acme.Payload.valIndex w x⟩)

theorem getMaxIndexWith_loop_eq (w : Acme.Payload.W) (vals0 : List Acme.GoSem.IdIndex) (v : Nat)
    (index : Int) (values : List Nat) (acc : Int) :
    K.getMaxIndexWith_loop1 vals0 v index acc (viewVals w values) =
      values.foldl (fun acc x => if x = v then acc
        else if Acme.Payload.valIndex w x > acc then Acme.Payload.valIndex w x else acc) acc := by
  induction values generalizing acc with
  | nil => rfl
  | cons x rest ih =>
    simp only [viewVals, List.map_cons, List.foldl_cons]
    unfold K.getMaxIndexWith_loop1
    dsimp only
    by_cases hx : x = v
    · simp only [hx, if_true]; exact ih acc
    · simp only [hx, if_false]
      split
      · exact ih _
      · exact ih _

theorem getMaxIndexWith_eq (w : Acme.Payload.W) (values : List Nat) (v : Nat) (index : Int) :
    K.getMaxIndexWith (viewVals w values) v index = Acme.Payload.maxIndexWith w values v index := by
  unfold K.getMaxIndexWith Acme.Payload.maxIndexWith
  dsimp only
  rw [getMaxIndexWith_loop_eq]

example : K.getMaxIndexWith [⟨1, 3⟩, ⟨2, 9⟩, ⟨3, 5⟩] 2 4 = 5 := by decide
example : K.getMaxIndexWith [⟨1, 3⟩, ⟨2, 9⟩, ⟨3, 5⟩] 7 4 = 9 := by decide

theorem enumGetSize_eq (minSize maxIndex : Int) (h : maxIndex < 2 ^ 64) :
    K.enumGetSize minSize maxIndex = Acme.Arith.enumSize minSize maxIndex := by
  unfold K.enumGetSize
  exact calcEnumSize_eq minSize maxIndex h

theorem getGroupCountSize_eq (groupCount : Int) (h : groupCount ≤ 2 ^ 64) :
    K.getGroupCountSize groupCount = Acme.Arith.muxSelWidth groupCount := by
  unfold K.getGroupCountSize Acme.Arith.muxSelWidth
  exact calcSizeFromValue_eq _ (by omega)

/-- `MultiplexerSignal.GetSize()` = `groupSize + GetGroupCountSize()`: the `.mux` case of
    `Acme.Mux.sigSize` -/
theorem muxGetSize_eq (e : Acme.Mux.SigE) (gc gs : Int) (hk : e.kind = .mux gc gs) (h : gc ≤ 2 ^ 64) :
    K.muxGetSize gs (K.getGroupCountSize gc) = Acme.Mux.sigSize e := by
  unfold K.muxGetSize Acme.Mux.sigSize
  rw [hk, getGroupCountSize_eq gc h]

example : K.getGroupCountSize 8 = 3 := by decide
example : K.muxGetSize 16 (K.getGroupCountSize 5) = 19 := by decide

end Acme.GenK
