/-
Lemmas for Props/C13Geom: the causes `loadGeom` can answer with, and the cause at the first fault.
-/
import Acme.Proofs.LoadGeom

namespace Acme.LoadGeom
open Acme.Save Acme.Layout

def OkC (c : LErr) : Prop := c = .outOfBounds ∨ c = .noSpaceLeft ∨ c = .intersect

/-- the causes of the real loader -/
def Real : GeomErr → Prop
  | .layout c _ _ => c = .outOfBounds ∨ c = .noSpaceLeft ∨ c = .intersect
  | .typeSize _ => True
  | .groupSize _ => True

theorem scanInsert_err (st en : Int) : ∀ (l : List Slot) (e : LErr), scanInsert st en l = .error e → e = .intersect
  | [], e, h => by simp [scanInsert] at h
  | s :: r, e, h => by
    simp only [scanInsert] at h
    split at h
    · cases h
    · split at h
      · exact scanInsert_err st en r e h
      · split at h
        · injection h with h; exact h.symm
        · exact scanInsert_err st en r e h

theorem verifyInsert_err (cap : Int) (l : List Slot) (sz st : Int) (hst : 0 ≤ st) (e : LErr)
    (h : verifyInsert cap l sz st = .error e) : OkC e := by
  unfold verifyInsert at h
  split at h
  · omega
  · split at h
    · injection h with h; exact .inl h.symm
    · split at h
      · injection h with h; exact .inr (.inl h.symm)
      · exact .inr (.inr (scanInsert_err _ _ l e h))

theorem verifyAndInsert_err (cap : Int) (l : List Slot) (id : Nat) (sz st : Int) (hst : 0 ≤ st) (e : LErr)
    (h : verifyAndInsert cap l id sz st = .error e) : OkC e := by
  unfold verifyAndInsert at h
  split at h
  · rename_i e' hv
    injection h with h; subst h
    exact verifyInsert_err cap l sz st hst _ hv
  · cases h

theorem verifyGroups_err (cap sz st : Int) (hst : 0 ≤ st) : ∀ (gs : List (List Slot)) (e : LErr),
    verifyGroups cap sz st gs = .error e → OkC e
  | [], e, h => by simp [verifyGroups] at h
  | l :: r, e, h => by
    simp only [verifyGroups] at h
    split at h
    · rename_i e' hv
      injection h with h; subst h
      exact verifyInsert_err cap l sz st hst _ hv
    · exact verifyGroups_err cap sz st hst r e h

theorem placeIn_err (cap : Int) (idx : Nat) (sz st : Int) (hst : 0 ≤ st) : ∀ (g : Nat) (gs : List (List Slot)) (e : LErr),
    placeIn cap idx sz st g gs = .error e → OkC e
  | _, [], e, h => by simp [placeIn] at h
  | 0, l :: r, e, h => by
    simp only [placeIn] at h
    split at h
    · rename_i e' hv
      injection h with h; subst h
      exact verifyAndInsert_err cap l idx sz st hst _ hv
    · cases h
  | g + 1, l :: r, e, h => by
    simp only [placeIn] at h
    split at h
    · rename_i e' hv
      injection h with h; subst h
      exact placeIn_err cap idx sz st hst g r _ hv
    · cases h

theorem step_err (cap : Int) (s : Step) (hst : 0 ≤ s.pos) (gs : List (List Slot)) (e : LErr)
    (h : step cap s gs = .error e) : OkC e := by
  unfold step at h
  split at h
  · split at h
    · rename_i e' hv
      injection h with h; subst h
      exact verifyGroups_err cap _ _ hst gs _ hv
    · cases h
  · exact placeIn_err cap _ _ _ hst _ gs e h

theorem runSteps_err (mux : Id) (cap : Int) : ∀ (ss : List Step) (gs : List (List Slot)) (e : GeomErr),
    (∀ s ∈ ss, 0 ≤ s.pos) → runSteps mux cap ss gs = .error e → Real e
  | [], gs, e, _, h => by simp [runSteps] at h
  | s :: r, gs, e, hp, h => by
    simp only [runSteps] at h
    split at h
    · rename_i e' hv
      injection h with h; subst h
      exact step_err cap s (hp s (List.mem_cons_self ..)) gs _ hv
    · exact runSteps_err mux cap r _ e (fun x hx => hp x (List.mem_cons_of_mem _ hx)) h

theorem stepsOf_nonneg (gc : Nat) (ks : List KG) : ∀ s ∈ stepsOf gc ks, 0 ≤ s.pos := by
  intro s hs
  simp only [stepsOf, List.mem_append, List.mem_map, List.mem_filter, List.mem_flatMap] at hs
  rcases hs with ⟨p, _, rfl⟩ | ⟨g, _, p, _, rfl⟩ <;> exact Int.natCast_nonneg _

theorem placeKids_err (mux : Id) (gc : Nat) (gs : Int) (ks : List KG) (e : GeomErr)
    (h : placeKids mux gc gs ks = .error e) : Real e := by
  unfold placeKids at h
  split at h
  · rename_i e' hv
    injection h with h; subst h
    exact runSteps_err mux gs _ _ _ (stepsOf_nonneg gc ks) hv
  · cases h

mutual
  theorem sigGeom_err (z : Sizes) (t : Tbl) : (s : Sig) → (e : GeomErr) → sigGeom z t s = .error e → Real e
    | .mk en asg body, e, h => by
      simp only [sigGeom] at h
      exact bodyGeom_err z t en body e h
  theorem bodyGeom_err (z : Sizes) (t : Tbl) (self : Ent) : (b : Body) → (e : GeomErr) →
      bodyGeom z t self b = .error e → Real e
    | .std ty un, e, h => by
      simp only [bodyGeom] at h
      split at h
      · injection h with h; subst h; trivial
      · cases h
    | .enm en, e, h => by simp [bodyGeom] at h
    | .mux gc kids, e, h => by
      simp only [bodyGeom] at h
      split at h
      · injection h with h; subst h; trivial
      · split at h
        · rename_i e' hk
          injection h with h; subst h
          exact kidsGeom_err z t kids _ hk
        · split at h
          · rename_i e' hx
            injection h with h; subst h
            exact placeKids_err _ _ _ _ _ hx
          · cases h
  theorem kidsGeom_err (z : Sizes) (t : Tbl) : (kids : List Kid) → (e : GeomErr) →
      kidsGeom z t kids = .error e → Real e
    | [], e, h => by simp [kidsGeom] at h
    | .mk s pos grp :: r, e, h => by
      simp only [kidsGeom] at h
      split at h
      · rename_i e' hs
        injection h with h; subst h
        exact sigGeom_err z t s _ hs
      · split at h
        · rename_i e' hr
          injection h with h; subst h
          exact kidsGeom_err z t r _ hr
        · cases h
end

theorem msgSteps_err (z : Sizes) (t : Tbl) (mid : Id) (cap : Int) : ∀ (sigs : List (Sig × Nat)) (i : Nat)
    (l : List Slot) (e : GeomErr), msgSteps z t mid cap sigs i l = .error e → Real e
  | [], i, l, e, h => by simp [msgSteps] at h
  | (s, pos) :: r, i, l, e, h => by
    simp only [msgSteps] at h
    split at h
    · rename_i e' hs
      injection h with h; subst h
      exact sigGeom_err z t s _ hs
    · split at h
      · rename_i e' hv
        injection h with h; subst h
        exact verifyAndInsert_err cap l i _ _ (Int.natCast_nonneg _) _ hv
      · split at h
        · rename_i e' hr
          injection h with h; subst h
          exact msgSteps_err z t mid cap r (i + 1) _ _ hr
        · cases h

theorem msgsGeom_err (z : Sizes) (t : Tbl) : ∀ (ms : List Msg) (e : GeomErr), msgsGeom z t ms = .error e → Real e
  | [], e, h => by simp [msgsGeom] at h
  | m :: r, e, h => by
    simp only [msgsGeom] at h
    split at h
    · rename_i e' hm
      injection h with h; subst h
      unfold msgGeom at hm
      split at hm
      · rename_i e'' hs
        injection hm with hm; subst hm
        exact msgSteps_err z t _ _ m.sigs 0 [] _ hs
      · cases hm
    · split at h
      · rename_i e' hr
        injection h with h; subst h
        exact msgsGeom_err z t r _ hr
      · cases h

theorem typesOk_err (z : Sizes) : ∀ (ts : List Ent) (e : GeomErr), typesOk z ts = .error e → Real e
  | [], e, h => by simp [typesOk] at h
  | x :: r, e, h => by
    simp only [typesOk] at h
    split at h
    · injection h with h; subst h; trivial
    · exact typesOk_err z r e h

theorem loadGeom_real (z : Sizes) (n : Net) (e : GeomErr) (h : loadGeom z n = .error e) : Real e := by
  unfold loadGeom at h
  split at h
  · rename_i e' ht
    injection h with h; subst h
    exact typesOk_err z _ _ ht
  · split at h
    · rename_i e' hm
      injection h with h; subst h
      exact msgsGeom_err z _ _ _ hm
    · cases h

/-! ### the cause at the first fault of a message -/

theorem msgSteps_append (z : Sizes) (t : Tbl) (mid : Id) (cap : Int) (tail : List (Sig × Nat)) :
    ∀ (pre : List (Sig × Nat)) (i : Nat) (l0 l : List Slot) (mx : List GMux),
    msgSteps z t mid cap pre i l0 = .ok (l, mx) →
    msgSteps z t mid cap (pre ++ tail) i l0 =
      match msgSteps z t mid cap tail (i + pre.length) l with
      | .error e => .error e
      | .ok (lf, mxs) => .ok (lf, mx ++ mxs)
  | [], i, l0, l, mx, h => by
    simp only [msgSteps] at h
    injection h with h; injection h with h1 h2; subst h1 h2
    simp only [List.nil_append, List.length_nil, Nat.add_zero]
    cases msgSteps z t mid cap tail i l0 with
    | error e => rfl
    | ok r => rfl
  | (s, pos) :: r, i, l0, l, mx, h => by
    simp only [msgSteps] at h
    split at h
    · cases h
    · rename_i sz m1 hs
      split at h
      · cases h
      · rename_i l' hl'
        split at h
        · cases h
        · rename_i lf' mxs hr
          injection h with h; injection h with h1 h2; subst h1 h2
          have ih := msgSteps_append z t mid cap tail r (i + 1) l' lf' mxs hr
          simp only [List.cons_append, msgSteps, hs, hl', ih, List.length_cons]
          rw [show i + 1 + r.length = i + (r.length + 1) by omega]
          cases hq : msgSteps z t mid cap tail (i + (r.length + 1)) lf' with
          | error e => rfl
          | ok q => simp [List.append_assoc]

theorem msgSteps_overlap_cause (z : Sizes) (t : Tbl) (mid : Id) (cap : Int)
    (pre : List (Sig × Nat)) (s : Sig) (pos : Nat) (rest : List (Sig × Nat))
    (l : List Slot) (mx : List GMux) (hpre : msgSteps z t mid cap pre 0 [] = .ok (l, mx)) (hcap : 0 ≤ cap)
    (sz : Int) (m1 : List GMux) (hs : sigGeom z t s = .ok (sz, m1)) (hin : (pos : Int) + sz ≤ cap)
    (k : Nat) (hk : k < pre.length)
    (hov : (pos : Int) < pre[k].2 + sigSize z t pre[k].1 ∧ (pre[k].2 : Int) < pos + sz) :
    msgSteps z t mid cap (pre ++ (s, pos) :: rest) 0 [] = .error (.layout .intersect (.msg mid) s.id) := by
  rw [msgSteps_append z t mid cap _ pre 0 [] l mx hpre]
  obtain ⟨w, _, _, mem⟩ := msgSteps_wf z t mid cap pre 0 [] l mx (show WF cap [] from hcap) hpre
  obtain ⟨_, sp, _⟩ := sigGeom_wf z t s sz m1 hs
  have hk' := mem k hk
  have hnf : ¬ RangeFree l pos sz := by
    intro hf
    have := hf _ hk'
    simp only at this
    omega
  have hv := (verifyInsert_spec cap l w sz pos sp).2.2.2.2 (Int.natCast_nonneg _) hin hnf
  simp only [msgSteps, hs, verifyAndInsert, hv]

end Acme.LoadGeom
