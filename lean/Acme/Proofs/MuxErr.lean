/-
Multiplexer world: a rejected operation leaves the world unchanged (model level).
-/
import Acme.Proofs.Mux

namespace Acme.Mux
open Acme.Layout Acme.Arith

/-- the world is unchanged or the outcome is not a rejection -/
def Atomic (w : MW) (r : MW × Out) : Prop := r.1 = w ∨ ∀ c, r.2 ≠ .err c

macro "atomic_tac" : tactic =>
  `(tactic| (repeat' split) <;> first | exact Or.inl rfl | (right; intro c; simp))

theorem ite_pair_not_err (b : Bool) (w1 w2 : MW) (o : Out) (ho : ∀ c, o ≠ .err c) (c : Cause) :
    (if b = true then (w1, Out.panic) else (w2, o)).2 ≠ .err c := by
  cases b <;> simp [ho c]

theorem atomic_shiftLayout (w : MW) (left : Bool) (cap : Int) (ids : List Nat) (s : Nat) (a : Int) :
    Atomic w (shiftLayout w left cap ids s a) := by
  unfold Atomic shiftLayout
  by_cases ha : a ≤ 0
  · rw [if_pos ha]; exact Or.inl rfl
  · rw [if_neg ha]
    right
    intro c
    simp only
    exact ite_pair_not_err _ _ _ _ (by intro c; simp) c

theorem atomic_msgShift (w : MW) (left : Bool) (m s : Nat) (a : Int) : Atomic w (doMsgShift w left m s a) := by
  unfold doMsgShift
  split
  · exact Or.inl rfl
  · split
    · exact Or.inl rfl
    · exact atomic_shiftLayout _ _ _ _ _ _

theorem atomic_muxShift (w : MW) (left : Bool) (x s : Nat) (a : Int) : Atomic w (doMuxShift w left x s a) := by
  unfold doMuxShift
  split
  · exact Or.inl rfl
  · split
    · exact Or.inl rfl
    · split
      · exact Or.inl rfl
      · split
        · exact Or.inl rfl
        · split
          · exact Or.inl rfl
          · exact atomic_shiftLayout _ _ _ _ _ _

theorem atomic_msgAttach (w : MW) (m s : Nat) (st : Option Int) : Atomic w (doMsgAttach w m s st) := by
  unfold Atomic doMsgAttach
  split
  · exact Or.inl rfl
  · split
    · exact Or.inl rfl
    · split
      · exact Or.inl rfl
      · split
        · exact Or.inl rfl
        · split
          · exact Or.inl rfl
          · cases hpl : msgPlace w _ s _ st with
            | error e => exact Or.inl rfl
            | ok p =>
              right
              intro c
              simp only
              exact ite_pair_not_err _ _ _ _ (by intro c; simp) c

theorem atomic_muxRm (w : MW) (x s : Nat) : Atomic w (doMuxRm w x s) := by
  unfold Atomic
  cases hx : w.sigs.get x with
  | none => simp only [doMuxRm, muxRemove, hx]; exact Or.inl trivial
  | some xe =>
    cases hk : xe.kind with
    | leaf z => simp only [doMuxRm, muxRemove, hx, hk]; exact Or.inl trivial
    | mux gc gs =>
      by_cases hc : (!xe.mx.signals.contains s) = true
      · simp only [doMuxRm, muxRemove, hx, hk, hc, ↓reduceIte]; exact Or.inl trivial
      · by_cases hf : xe.mx.fixed.contains s = true
        · cases hrm : removeMany w x s (allGroups gc) with
          | mk w1 b =>
            simp only [doMuxRm, muxRemove, hx, hk, hc, hf, hrm, ↓reduceIte]
            cases b <;> (right; intro c; simp)
        · cases hl : xe.mx.groupIds.get s with
          | none =>
            simp only [doMuxRm, muxRemove, hx, hk, hc, hf, hl, ↓reduceIte]
            right; intro c; simp
          | some ids =>
            cases hrm : removeMany w x s (ids.map Int.toNat) with
            | mk w1 b =>
              simp only [doMuxRm, muxRemove, hx, hk, hc, hf, hl, hrm, ↓reduceIte]
              cases b <;> (right; intro c; simp)

theorem atomic_msgRm (w : MW) (m s : Nat) : Atomic w (doMsgRm w m s) := by
  unfold doMsgRm
  split
  · exact Or.inl rfl
  · split
    · exact Or.inl rfl
    · split
      · exact Or.inl rfl
      · split
        · exact atomic_muxRm _ _ _
        · right
          intro c
          simp only
          exact ite_pair_not_err _ _ _ _ (by intro c; simp) c

theorem atomic_msgClear (w : MW) (m : Nat) : Atomic w (doMsgClear w m) := by
  unfold Atomic doMsgClear
  atomic_tac

theorem atomic_muxIns (w : MW) (x s : Nat) (st : Int) (gids : List Int) : Atomic w (doMuxIns w x s st gids) := by
  unfold Atomic doMuxIns
  atomic_tac

theorem atomic_muxClear (w : MW) (x : Nat) (g : Int) : Atomic w (doMuxClear w x g) := by
  unfold Atomic doMuxClear
  atomic_tac

theorem atomic_muxClearAll (w : MW) (x : Nat) : Atomic w (doMuxClearAll w x) := by
  unfold Atomic doMuxClearAll
  atomic_tac

theorem atomic_sigName (w : MW) (s : Nat) (name : String) : Atomic w (doSigName w s name) := by
  unfold Atomic doSigName
  atomic_tac

/-- on an admissible state `leaf.size` is rejected before anything moved, or it succeeds -/
theorem atomic_leafSize (w : MW) (h : InvCore w) (s : Nat) (n : Int)
    (hadm : admissible w (.leafSize s n) = true) : Atomic w (doLeafSize w s n) := by
  unfold Atomic
  cases hs : w.sigs.get s with
  | none => simp only [doLeafSize, hs]; exact Or.inl trivial
  | some se =>
    cases hkz : se.kind with
    | mux gc gs => simp only [doLeafSize, hs, hkz]; exact Or.inl trivial
    | leaf z =>
      by_cases h1 : n < 0
      · simp only [doLeafSize, hs, hkz, h1, ↓reduceIte]; exact Or.inl trivial
      · by_cases h2 : n = 0
        · left; simp only [doLeafSize, hs, hkz]; split <;> (try split) <;> rfl
        · have hn : 0 < n := by omega
          -- the three situations of the signal
          have hcases : (∃ o, sizeVerify w se s z (n - z) = .error o ∧ o ≠ .panic) ∨
              (sizeVerify w se s z (n - z) = .ok () ∧ ∃ w1, sizeModify w se s z (n - z) = (w1, none) ∧ SizeReady w w1 s n) := by
            by_cases hne : n - z = 0
            · right
              have hnz : n = z := by omega
              subst hnz
              refine ⟨?_, w, ?_, sizeReady_same w h s se n hs hkz⟩
              · unfold sizeVerify muxVerifySize msgVerifySize
                simp only [hne, ↓reduceIte]
                split <;> (try split) <;> rfl
              · unfold sizeModify muxModifySize msgModifySize
                simp only [hne, ↓reduceIte]
                split <;> (try split) <;> rfl
            · cases hsx : se.parentMux with
              | some x => exact leafSize_mux w h s se z n x hs hkz hne hsx hadm
              | none =>
                cases hsm : se.parentMsg with
                | some m => exact leafSize_msg w h s se z n m hs hkz hne hsx hsm
                | none =>
                  right
                  refine ⟨?_, w, ?_, sizeReady_free w h s se n hs hsx hsm⟩
                  · unfold sizeVerify; simp only [hsx, hsm]
                  · unfold sizeModify; simp only [hsx, hsm]
          rcases hcases with ⟨o, ho, hop⟩ | ⟨hv, w1, hmod, hr1, hr2, hr3, hr4⟩
          · simp only [doLeafSize, hs, hkz, h1, h2, ho, ↓reduceIte]
            exact Or.inl trivial
          · obtain ⟨i1, i2⟩ := inv_leafSize_final w w1 h s se z n hs hkz hn hr1 hr2 hr3 hr4
            simp only [doLeafSize, hs, hkz, h1, h2, hv, hmod, i2, Bool.false_eq_true, ↓reduceIte]
            right; intro c; simp


/-- every operation except `leaf.size` rejects atomically, in every world -/
theorem step_atomic (w : MW) (op : Op) (hop : ∀ s n, op ≠ .leafSize s n) : Atomic w (step w op) := by
  cases op with
  | sigLeaf s name size => unfold Atomic; simp only [step]; atomic_tac
  | sigMux s name gc gs => unfold Atomic; simp only [step]; atomic_tac
  | msgNew m k => unfold Atomic; simp only [step]; atomic_tac
  | msgApp m s => exact atomic_msgAttach w m s none
  | msgIns m s st => exact atomic_msgAttach w m s (some st)
  | msgRm m s => exact atomic_msgRm w m s
  | msgClear m => exact atomic_msgClear w m
  | msgShl m s a => exact atomic_msgShift w true m s a
  | msgShr m s a => exact atomic_msgShift w false m s a
  | muxIns x s st gids => exact atomic_muxIns w x s st gids
  | muxRm x s => exact atomic_muxRm w x s
  | muxClear x g => exact atomic_muxClear w x g
  | muxClearAll x => exact atomic_muxClearAll w x
  | muxShl x s a => exact atomic_muxShift w true x s a
  | muxShr x s a => exact atomic_muxShift w false x s a
  | leafSize s n => exact absurd rfl (hop s n)
  | sigName s name => exact atomic_sigName w s name


/-- on reachable worlds every admissible operation rejects atomically -/
theorem step_err_unchanged (w : MW) (h : Reach w) (op : Op) (hok : OpOK w op) (c : Cause)
    (he : (step w op).2 = .err c) : (step w op).1 = w := by
  have hat : Atomic w (step w op) := by
    by_cases hls : ∃ s n, op = .leafSize s n
    · obtain ⟨s, n, rfl⟩ := hls
      exact atomic_leafSize w (reach_invCore w h) s n hok.2
    · exact step_atomic w op (fun s n hh => hls ⟨s, n, hh⟩)
  rcases hat with h1 | h1
  · exact h1
  · exact absurd he (h1 c)

end Acme.Mux
