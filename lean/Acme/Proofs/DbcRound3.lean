/-
C08, write-then-parse, part 3: attribute definitions, defaults and values.
The value of a default / value is re-tagged by the look of its number text (`retag`).
-/
import Acme.Proofs.DbcBasic

set_option linter.unusedSimpArgs false

namespace Acme.Dbc

/-! ## attribute definitions -/

theorem parseAttributeKind_write (k : AttributeKind) (name : String) (ts : List Token) :
    parseAttributeKind (writeAttributeKind k ++ .string name :: ts) = .ok (k, .string name :: ts) := by
  cases k <;> simp [parseAttributeKind, writeAttributeKind, Token.kw]

theorem parseAttributeName_ok (name : String) (ts : List Token) (h : attrNameOK name = true) :
    parseAttributeName (.string name :: ts) = .ok (name, ts) := by
  simp only [attrNameOK, Bool.and_eq_true, Bool.not_eq_true'] at h
  simp [parseAttributeName, h.2]

theorem step_attribute_canon (fl : String → Bool)
    (hfl : ∀ s, fl s = true → acceptedFloatText s = true) (hex : Bool) (pf : PFlags) (ast : File)
    (a : Attribute) (rest : List Token) (h : attributeOK fl a = true) :
    stepSection hex pf ast (writeAttribute hex a ++ rest) =
      .ok (({ ast with attributes := ast.attributes ++ [a.canon] }, pf), rest) := by
  simp only [attributeOK, Bool.and_eq_true] at h
  obtain ⟨⟨hname, _⟩, ht⟩ := h
  cases htype : a.type <;> rw [htype] at ht
  · simp only [Bool.and_eq_true] at ht
    simp [stepSection, writeAttribute, Token.kw, parseSection, parseAttribute, htype,
      Attribute.canon, parseAttributeKind_write, parseAttributeName_ok _ _ hname, intTok, intOf,
      parseInt_formatInt _ ht.1, parseInt_formatInt _ ht.2]
  · simp only [Bool.and_eq_true] at ht
    simp [stepSection, writeAttribute, Token.kw, parseSection, parseAttribute, htype,
      Attribute.canon, parseAttributeKind_write, parseAttributeName_ok _ _ hname,
      doubleToks_of_accepted (hfl _ ht.1), doubleToks_of_accepted (hfl _ ht.2),
      scanDouble_number _ _ _ _ (hfl _ ht.1), scanDouble_number _ _ _ _ (hfl _ ht.2)]
  · simp [stepSection, writeAttribute, Token.kw, parseSection, parseAttribute, htype,
      Attribute.canon, parseAttributeKind_write, parseAttributeName_ok _ _ hname]
  · cases hev : a.enumValues with
    | nil =>
      simp [stepSection, writeAttribute, Token.kw, parseSection, parseAttribute, htype, hev,
        Attribute.canon, parseAttributeKind_write, parseAttributeName_ok _ _ hname, commaList,
        Token.p, expectPunct]
    | cons e0 es =>
      simp [stepSection, writeAttribute, Token.kw, parseSection, parseAttribute, htype, hev,
        Attribute.canon, parseAttributeKind_write, parseAttributeName_ok _ _ hname, commaList,
        stringToks, parseCommaStrings_strings _ _ _ (noCommaHead_p .semicolon (by decide) _)]
  · simp only [Bool.and_eq_true] at ht
    simp [stepSection, writeAttribute, Token.kw, parseSection, parseAttribute, htype,
      Attribute.canon, parseAttributeKind_write, parseAttributeName_ok _ _ hname, hexTok, hexOf,
      parseHexInt_formatHexInt _ _ ht.1, parseHexInt_formatHexInt _ _ ht.2]

theorem step_attribute (fl : String → Bool)
    (hfl : ∀ s, fl s = true → acceptedFloatText s = true) (hex : Bool) (pf : PFlags) (ast : File)
    (a : Attribute) (rest : List Token) (h : attributeOK fl a = true) :
    stepSection hex pf ast (writeAttribute hex a ++ rest) =
      .ok (({ ast with attributes := ast.attributes ++ [a] }, pf), rest) := by
  have hc : a.canon = a := by
    simp only [attributeOK, Bool.and_eq_true, decide_eq_true_eq] at h
    exact h.1.2
  have := step_attribute_canon fl hfl hex pf ast a rest h
  rw [hc] at this
  exact this

/-! ## attribute values: the shared value part -/

def TaggedVal.toAttrVal (v : TaggedVal) : AttrVal :=
  { type := v.type, valueString := v.valueString, valueInt := v.valueInt, valueHex := v.valueHex,
    valueFloat := v.valueFloat }

theorem parseAttrVal_write (fl : String → Bool)
    (hfl : ∀ s, fl s = true → acceptedFloatText s = true) (hex : Bool) (what : String)
    (v : TaggedVal) (ts : List Token) (h : taggedValOK fl v = true) :
    parseAttrVal hex what
        (writeAttrValue hex v.type v.valueInt v.valueHex v.valueFloat v.valueString ++ ts) =
      .ok ((retag hex v).toAttrVal, ts) := by
  simp only [taggedValOK, Bool.and_eq_true] at h
  obtain ⟨_, ht⟩ := h
  cases htype : v.type <;> rw [htype] at ht
  · -- int
    simp [writeAttrValue, intTok, parseAttrVal, hasHexPrefix_formatInt, containsDot_formatInt,
      parseInt_formatInt _ ht, retag, htype, TaggedVal.canon, TaggedVal.toAttrVal]
  · -- string
    simp [writeAttrValue, parseAttrVal, retag, htype, TaggedVal.canon, TaggedVal.toAttrVal]
  · -- float
    have hacc := hfl _ ht
    have hpd := parseDouble_of_accepted hacc
    have hnp := hasHexPrefix_of_accepted hacc
    cases hdot : containsDot v.valueFloat
    · cases hpi : parseInt v.valueFloat
      · simp [writeAttrValue, doubleToks_of_accepted hacc, parseAttrVal, hnp, hdot, hpi, hpd,
          retag, htype, TaggedVal.canon, TaggedVal.toAttrVal]
      · simp [writeAttrValue, doubleToks_of_accepted hacc, parseAttrVal, hnp, hdot, hpi, hpd,
          retag, htype, TaggedVal.canon, TaggedVal.toAttrVal]
    · simp [writeAttrValue, doubleToks_of_accepted hacc, parseAttrVal, hnp, hdot, hpd,
        retag, htype, TaggedVal.canon, TaggedVal.toAttrVal]
  · -- hex
    cases hex
    · simp [writeAttrValue, hexTok, formatHexInt_false, parseAttrVal, hasHexPrefix_formatUint,
        containsDot_formatUint, parseInt_formatUint _ ht, retag, htype, TaggedVal.canon,
        TaggedVal.toAttrVal]
    · simp [writeAttrValue, hexTok, parseAttrVal, hasHexPrefix_formatHexInt_true,
        parseHexInt_formatHexInt true _ ht, retag, htype, TaggedVal.canon, TaggedVal.toAttrVal]

/-- the value tokens start with a string or a number token -/
theorem parseAttributeValueObject_general (fl : String → Bool)
    (hfl : ∀ s, fl s = true → acceptedFloatText s = true) (hex : Bool)
    (v : TaggedVal) (ts : List Token) (h : taggedValOK fl v = true) :
    parseAttributeValueObject
        (writeAttrValue hex v.type v.valueInt v.valueHex v.valueFloat v.valueString ++ ts) =
      .ok ({ attributeKind := .general },
        writeAttrValue hex v.type v.valueInt v.valueHex v.valueFloat v.valueString ++ ts) := by
  simp only [taggedValOK, Bool.and_eq_true] at h
  obtain ⟨_, ht⟩ := h
  cases htype : v.type <;> rw [htype] at ht
  · simp [writeAttrValue, intTok, parseAttributeValueObject]
  · simp [writeAttrValue, parseAttributeValueObject]
  · simp [writeAttrValue, doubleToks_of_accepted (hfl _ ht), parseAttributeValueObject]
  · simp [writeAttrValue, hexTok, parseAttributeValueObject]

theorem step_attributeDefault (fl : String → Bool)
    (hfl : ∀ s, fl s = true → acceptedFloatText s = true) (hex : Bool) (pf : PFlags) (ast : File)
    (d : AttributeDefault) (rest : List Token) (h : attributeDefaultOK fl d = true) :
    stepSection hex pf ast (writeAttributeDefault hex d ++ rest) =
      .ok (({ ast with attributeDefaults := ast.attributeDefaults ++ [normAttributeDefault hex d] },
        pf), rest) := by
  simp only [attributeDefaultOK, Bool.and_eq_true] at h
  have hv := parseAttrVal_write fl hfl hex "attribute default value" d.val
    (Token.p .semicolon :: rest) h.2
  simp only [AttributeDefault.val] at hv
  simp [stepSection, writeAttributeDefault, Token.kw, parseSection, parseAttributeDefault,
    parseAttributeName_ok _ _ h.1, hv, normAttributeDefault, AttributeDefault.withVal,
    AttributeDefault.val, TaggedVal.toAttrVal]

theorem step_attributeValue (fl : String → Bool)
    (hfl : ∀ s, fl s = true → acceptedFloatText s = true) (hex : Bool) (pf : PFlags) (ast : File)
    (v : AttributeValue) (rest : List Token) (h : attributeValueOK fl v = true) :
    stepSection hex pf ast (writeAttributeValue hex v ++ rest) =
      .ok (({ ast with attributeValues := ast.attributeValues ++ [normAttributeValue hex v] },
        pf), rest) := by
  simp only [attributeValueOK, Bool.and_eq_true] at h
  obtain ⟨⟨⟨_, hval⟩, _⟩, hk⟩ := h
  have hv := parseAttrVal_write fl hfl hex "attribute value" v.val
    (Token.p .semicolon :: rest) hval
  have hg := parseAttributeValueObject_general fl hfl hex v.val (Token.p .semicolon :: rest) hval
  simp only [AttributeValue.val] at hv hg
  cases hkind : v.attributeKind <;> rw [hkind] at hk
  · simp [stepSection, writeAttributeValue, Token.kw, parseSection, parseAttributeValue, hkind,
      hg, hv, normAttributeValue, AttributeValue.withVal, AttributeValue.canonObj,
      AttributeValue.val, TaggedVal.toAttrVal]
  · simp [stepSection, writeAttributeValue, Token.kw, parseSection, parseAttributeValue, hkind,
      parseAttributeValueObject, parseNodeName, classifyWord_of_identOK hk,
      hv, normAttributeValue, AttributeValue.withVal, AttributeValue.canonObj,
      AttributeValue.val, TaggedVal.toAttrVal]
  · simp [stepSection, writeAttributeValue, uintTok, Token.kw, parseSection, parseAttributeValue,
      hkind, parseAttributeValueObject, parseMessageID_uintTok _ _ hk,
      hv, normAttributeValue, AttributeValue.withVal, AttributeValue.canonObj,
      AttributeValue.val, TaggedVal.toAttrVal]
  · simp only [Bool.and_eq_true] at hk
    simp [stepSection, writeAttributeValue, uintTok, Token.kw, parseSection, parseAttributeValue,
      hkind, parseAttributeValueObject, parseMessageID_uintTok _ _ hk.1, parseSignalName,
      classifyWord_of_identOK hk.2,
      hv, normAttributeValue, AttributeValue.withVal, AttributeValue.canonObj,
      AttributeValue.val, TaggedVal.toAttrVal]
  · simp [stepSection, writeAttributeValue, Token.kw, parseSection, parseAttributeValue, hkind,
      parseAttributeValueObject, parseEnvVarName, classifyWord_of_identOK hk,
      hv, normAttributeValue, AttributeValue.withVal, AttributeValue.canonObj,
      AttributeValue.val, TaggedVal.toAttrVal]

end Acme.Dbc
