/-
Payload world, part E: the remaining message operations (new, remove, removeAll, setByteOrder,
append, insert) preserve the invariant; acceptance of insert; the message operations never panic.
-/
import Acme.Proofs.PayloadMsg

namespace Acme.Payload
open Acme.Layout Acme.Bits Acme.Arith

/-! ### msgNew -/

theorem inv_msgNew (w : W) (m : Nat) (k : Int) (h : Inv w) (hop : OpOK w (.msgNew m k)) :
    Inv (step w (.msgNew m k)).1 := by
  have hk : 0 ≤ k := hop.2
  simp only [step]
  split
  · exact h
  · rename_i hnone
    have hmn : w.msgs.get m = none := by simpa using hnone
    generalize hw1 : ({ w with msgs := upd w.msgs m { sizeByte := k, cap := k * 8 } } : W) = w1
    have ht : w1.types = w.types := by rw [← hw1]
    have hvv : w1.vals = w.vals := by rw [← hw1]
    have he : w1.enums = w.enums := by rw [← hw1]
    have hs : w1.sigs = w.sigs := by rw [← hw1]
    have hmsgs : w1.msgs = upd w.msgs m { sizeByte := k, cap := k * 8 } := by rw [← hw1]
    have hS := h.toS
    have hname : sigName w1 = sigName w := funext fun s => sigName_congr (by rw [hs])
    have henum : enumOf w1 = enumOf w := funext fun s => enumOf_congr (by rw [hs])
    have gm : ∀ m' msg1, w1.msgs.get m' = some msg1 →
        (m' ≠ m ∧ w.msgs.get m' = some msg1) ∨ (m' = m ∧ msg1 = { sizeByte := k, cap := k * 8 }) := by
      intro m' msg1 h1
      rw [hmsgs, upd_get] at h1
      split at h1
      · injection h1 with h1; exact Or.inr ⟨by assumption, h1.symm⟩
      · exact Or.inl ⟨by assumption, h1⟩
    obtain ⟨hw, hf⟩ := wf_fresh_frame (w' := w1) h.toWF h.toFresh (by
      intro m' msg1 h1
      rcases gm m' msg1 h1 with ⟨_, h2⟩ | ⟨_, h2⟩
      · exact Or.inl ⟨h2, fun i _ => slotBeAt_of_get (by rw [hs]) (fun sg _ => sizeOf_struct sg ht he)⟩
      · subst h2; exact Or.inr ⟨rfl, rfl, by simp only; omega⟩)
    refine Inv.ofParts (InvV.congr (w' := w1) (fun _ => by rw [hvv]) (fun _ => by rw [he]) h.toV) ?_ hw hf
    refine ⟨?_, ?_, ?_, ?_, ?_, ?_, ?_, ?_, ?_⟩
    · intro t ty h1; rw [ht] at h1; exact hS.typesPos t ty h1
    · exact hS.kind_mono (fun t => by rw [ht]; exact id) (fun e => by rw [he]; exact id)
        (fun s sg' h1 => Or.inl ⟨sg', by rw [← hs]; exact h1, rfl⟩)
    · intro m' msg1 h1
      rcases gm m' msg1 h1 with ⟨_, h2⟩ | ⟨_, h2⟩
      · exact hS.msgCap m' msg1 h2
      · subst h2; exact ⟨rfl, hk⟩
    · intro m' msg1 s h1 hin
      rcases gm m' msg1 h1 with ⟨_, h2⟩ | ⟨_, h2⟩
      · rw [hs]; exact hS.layoutParent m' msg1 s h2 hin
      · subst h2; cases hin
    · intro s sg m' h1 hp
      rw [hs] at h1
      obtain ⟨msg, h2, h3⟩ := hS.parentLayout s sg m' h1 hp
      have hne : m' ≠ m := by intro e; subst e; rw [hmn] at h2; cases h2
      exact ⟨msg, by rw [hmsgs, upd_get, if_neg hne]; exact h2, h3⟩
    · intro m' msg1 h1
      rcases gm m' msg1 h1 with ⟨_, h2⟩ | ⟨_, h2⟩
      · exact hS.layoutNodup m' msg1 h2
      · subst h2; exact List.nodup_nil
    · intro m' msg1 h1
      rcases gm m' msg1 h1 with ⟨_, h2⟩ | ⟨_, h2⟩
      · rw [hname]; exact hS.names m' msg1 h2
      · subst h2; exact List.nodup_nil
    · exact hS.refs_congr (fun e en' h1 => ⟨en', by rw [← he]; exact h1, rfl⟩) (fun s => by rw [henum])
    · intro m' msg1 h1
      rcases gm m' msg1 h1 with ⟨_, h2⟩ | ⟨_, h2⟩
      · rw [henum]; exact hS.refsApart m' msg1 h2
      · subst h2; exact List.nodup_nil

/-! ### msgSetByteOrder -/

theorem inv_msgSetByteOrder (w : W) (m : Nat) (be : Bool) (h : Inv w) :
    Inv (step w (.msgSetByteOrder m be)).1 := by
  simp only [step]
  cases hm : w.msgs.get m with
  | none => exact h
  | some msg =>
    simp only
    generalize hw1 : ({ w with sigs := setBe w.sigs be msg.layout,
                               msgs := upd w.msgs m { msg with be := be } } : W) = w1
    have ht : w1.types = w.types := by rw [← hw1]
    have hvv : w1.vals = w.vals := by rw [← hw1]
    have he : w1.enums = w.enums := by rw [← hw1]
    have hs : w1.sigs = setBe w.sigs be msg.layout := by rw [← hw1]
    have hmsgs : w1.msgs = upd w.msgs m { msg with be := be } := by rw [← hw1]
    have hS := h.toS
    have gs : ∀ s sg', w1.sigs.get s = some sg' → ∃ sg, w.sigs.get s = some sg ∧
        sg' = if s ∈ msg.layout then { sg with be := be } else sg := by
      intro s sg' h1
      rw [hs, setBe_get] at h1
      cases h2 : w.sigs.get s with
      | none => rw [h2] at h1; cases h1
      | some sg =>
        rw [h2] at h1
        simp only [Option.map_some, Option.some.injEq] at h1
        exact ⟨sg, rfl, h1.symm⟩
    have gs' : ∀ s sg, w.sigs.get s = some sg →
        w1.sigs.get s = some (if s ∈ msg.layout then { sg with be := be } else sg) := by
      intro s sg h1
      rw [hs, setBe_get, h1]; rfl
    have gm : ∀ m' msg1, w1.msgs.get m' = some msg1 →
        (m' ≠ m ∧ w.msgs.get m' = some msg1) ∨ (m' = m ∧ msg1 = { msg with be := be }) := by
      intro m' msg1 h1
      rw [hmsgs, upd_get] at h1
      split at h1
      · injection h1 with h1; exact Or.inr ⟨by assumption, h1.symm⟩
      · exact Or.inl ⟨by assumption, h1⟩
    have gml : ∀ m' msg1, w1.msgs.get m' = some msg1 → ∃ msg0, w.msgs.get m' = some msg0 ∧
        msg1.layout = msg0.layout := by
      intro m' msg1 h1
      rcases gm m' msg1 h1 with ⟨_, h2⟩ | ⟨h2, h3⟩
      · exact ⟨msg1, h2, rfl⟩
      · subst h2 h3; exact ⟨msg, hm, rfl⟩
    have hname : ∀ s, sigName w1 s = sigName w s := by
      intro s
      apply sigName_congr
      rw [hs, setBe_get]
      cases w.sigs.get s with
      | none => rfl
      | some sg => simp only [Option.map_some]; split <;> rfl
    have henum : ∀ s, enumOf w1 s = enumOf w s := by
      intro s
      apply enumOf_congr
      rw [hs, setBe_get]
      cases w.sigs.get s with
      | none => rfl
      | some sg => simp only [Option.map_some]; split <;> rfl
    have hslot : ∀ i, slotAt w1 i = slotAt w i := by
      intro i
      unfold slotAt
      rw [hs, setBe_get]
      cases w.sigs.get i with
      | none => rfl
      | some sg =>
        simp only [Option.map_some]
        split
        · have e1 := sizeOf_kind w { sg with be := be } sg rfl
          show some (Slot.mk i sg.rel _) = _
          rw [sizeOf_struct _ ht he, e1]
        · rw [sizeOf_struct _ ht he]
    have hS1 : InvS w1 := by
      refine ⟨?_, ?_, ?_, ?_, ?_, ?_, ?_, ?_, ?_⟩
      · intro t ty h1; rw [ht] at h1; exact hS.typesPos t ty h1
      · exact hS.kind_mono (fun t => by rw [ht]; exact id) (fun e => by rw [he]; exact id)
          (fun s sg' h1 => by
            obtain ⟨sg, h2, h3⟩ := gs s sg' h1
            refine Or.inl ⟨sg, h2, ?_⟩
            rw [h3]; split <;> rfl)
      · intro m' msg1 h1
        rcases gm m' msg1 h1 with ⟨_, h2⟩ | ⟨_, h2⟩
        · exact hS.msgCap m' msg1 h2
        · subst h2; exact hS.msgCap m msg hm
      · intro m' msg1 s h1 hin
        rcases gm m' msg1 h1 with ⟨hne, h2⟩ | ⟨h2, h3⟩
        · obtain ⟨sg, h4, h5, h6⟩ := hS.layoutParent m' msg1 s h2 hin
          have hnot : s ∉ msg.layout := hS.layout_disjoint h2 hm hne hin
          exact ⟨sg, by rw [gs' s sg h4, if_neg hnot], h5, h6⟩
        · subst h2 h3
          obtain ⟨sg, h4, h5, h6⟩ := hS.layoutParent m' msg s hm hin
          have hin' : s ∈ msg.layout := hin
          exact ⟨{ sg with be := be }, by rw [gs' s sg h4, if_pos hin'], h5, rfl⟩
      · intro s sg' m' h1 hp
        obtain ⟨sg, h2, h3⟩ := gs s sg' h1
        have hp' : sg.parent = some m' := by
          rw [h3] at hp; split at hp <;> exact hp
        obtain ⟨msg0, h4, h5⟩ := hS.parentLayout s sg m' h2 hp'
        by_cases hmm : m' = m
        · subst hmm
          rw [hm] at h4; injection h4 with h4; subst h4
          exact ⟨{ msg with be := be }, by rw [hmsgs, upd_get, if_pos rfl], h5⟩
        · exact ⟨msg0, by rw [hmsgs, upd_get, if_neg hmm]; exact h4, h5⟩
      · intro m' msg1 h1
        obtain ⟨msg0, h2, h3⟩ := gml m' msg1 h1
        rw [h3]; exact hS.layoutNodup m' msg0 h2
      · exact hS.names_congr (fun m' msg1 h1 => by
          obtain ⟨msg0, h2, h3⟩ := gml m' msg1 h1
          exact ⟨msg0, h2, h3, fun s _ => hname s⟩)
      · exact hS.refs_congr (fun e en' h1 => ⟨en', by rw [← he]; exact h1, rfl⟩) henum
      · exact hS.apart_congr (fun m' msg1 h1 => by
          obtain ⟨msg0, h2, h3⟩ := gml m' msg1 h1
          exact ⟨msg0, h2, h3, fun s _ => henum s⟩)
    obtain ⟨hw, hf⟩ := wf_fresh_regen (w1 := w1) hS h.toWF h.toFresh m
      (fun i sg _ => sizeOf_struct sg ht he)
      (by
        intro i sg m' hi hp hne
        have : i ∉ msg.layout :=
          hS.noparent_notin hm hi (by rw [hp]; intro e; injection e with e; exact hne e)
        rw [gs' i sg hi, if_neg this])
      (fun m' hne => by rw [hmsgs, upd_get, if_neg hne])
      (by
        intro msg1 h1
        rw [hmsgs, upd_get, if_pos rfl] at h1
        injection h1 with h1
        subst h1
        simp only
        rw [slotsOf_congr (fun i _ => hslot i)]
        exact h.wf m msg hm)
    exact Inv.ofParts ((InvV.congr (w' := w1) (fun _ => by rw [hvv]) (fun _ => by rw [he]) h.toV).regen m)
      (hS1.regen m) hw hf

/-! ### msgRemoveAll -/

theorem inv_msgRemoveAll (w : W) (m : Nat) (h : Inv w) : Inv (step w (.msgRemoveAll m)).1 := by
  simp only [step]
  cases hm : w.msgs.get m with
  | none => exact h
  | some msg =>
    simp only
    generalize hw1 : ({ w with sigs := setParents w.sigs none msg.layout,
                               msgs := upd w.msgs m { msg with layout := [], filters := [] } } : W) = w1
    have ht : w1.types = w.types := by rw [← hw1]
    have hvv : w1.vals = w.vals := by rw [← hw1]
    have he : w1.enums = w.enums := by rw [← hw1]
    have hs : w1.sigs = setParents w.sigs none msg.layout := by rw [← hw1]
    have hmsgs : w1.msgs = upd w.msgs m { msg with layout := [], filters := [] } := by rw [← hw1]
    have hS := h.toS
    have gs : ∀ s sg', w1.sigs.get s = some sg' → ∃ sg, w.sigs.get s = some sg ∧
        sg' = if s ∈ msg.layout then { sg with parent := none } else sg := by
      intro s sg' h1
      rw [hs, setParents_get] at h1
      cases h2 : w.sigs.get s with
      | none => rw [h2] at h1; cases h1
      | some sg =>
        rw [h2] at h1
        simp only [Option.map_some, Option.some.injEq] at h1
        exact ⟨sg, rfl, h1.symm⟩
    have gs' : ∀ s sg, w.sigs.get s = some sg →
        w1.sigs.get s = some (if s ∈ msg.layout then { sg with parent := none } else sg) := by
      intro s sg h1
      rw [hs, setParents_get, h1]; rfl
    have gm : ∀ m' msg1, w1.msgs.get m' = some msg1 →
        (m' ≠ m ∧ w.msgs.get m' = some msg1) ∨
        (m' = m ∧ msg1 = { msg with layout := [], filters := [] }) := by
      intro m' msg1 h1
      rw [hmsgs, upd_get] at h1
      split at h1
      · injection h1 with h1; exact Or.inr ⟨by assumption, h1.symm⟩
      · exact Or.inl ⟨by assumption, h1⟩
    have hname : sigName w1 = sigName w := by
      funext s
      apply sigName_congr
      rw [hs, setParents_get]
      cases w.sigs.get s with
      | none => rfl
      | some sg => simp only [Option.map_some]; split <;> rfl
    have henum : enumOf w1 = enumOf w := by
      funext s
      apply enumOf_congr
      rw [hs, setParents_get]
      cases w.sigs.get s with
      | none => rfl
      | some sg => simp only [Option.map_some]; split <;> rfl
    have hother : ∀ m' msg1, m' ≠ m → w.msgs.get m' = some msg1 → ∀ i ∈ msg1.layout,
        w1.sigs.get i = w.sigs.get i := by
      intro m' msg1 hne h2 i hi
      have hnot : i ∉ msg.layout := hS.layout_disjoint h2 hm hne hi
      obtain ⟨sg, h4, _⟩ := hS.layoutParent m' msg1 i h2 hi
      rw [gs' i sg h4, if_neg hnot, h4]
    obtain ⟨hw, hf⟩ := wf_fresh_frame (w' := w1) h.toWF h.toFresh (by
      intro m' msg1 h1
      rcases gm m' msg1 h1 with ⟨hne, h2⟩ | ⟨_, h2⟩
      · exact Or.inl ⟨h2, fun i hi => slotBeAt_of_get (hother m' msg1 hne h2 i hi)
          (fun sg _ => sizeOf_struct sg ht he)⟩
      · subst h2
        have := hS.msgCap m msg hm
        exact Or.inr ⟨rfl, rfl, by simp only; omega⟩)
    refine Inv.ofParts (InvV.congr (w' := w1) (fun _ => by rw [hvv]) (fun _ => by rw [he]) h.toV) ?_ hw hf
    refine ⟨?_, ?_, ?_, ?_, ?_, ?_, ?_, ?_, ?_⟩
    · intro t ty h1; rw [ht] at h1; exact hS.typesPos t ty h1
    · exact hS.kind_mono (fun t => by rw [ht]; exact id) (fun e => by rw [he]; exact id)
        (fun s sg' h1 => by
          obtain ⟨sg, h2, h3⟩ := gs s sg' h1
          refine Or.inl ⟨sg, h2, ?_⟩
          rw [h3]; split <;> rfl)
    · intro m' msg1 h1
      rcases gm m' msg1 h1 with ⟨_, h2⟩ | ⟨_, h2⟩
      · exact hS.msgCap m' msg1 h2
      · subst h2; exact hS.msgCap m msg hm
    · intro m' msg1 s h1 hin
      rcases gm m' msg1 h1 with ⟨hne, h2⟩ | ⟨_, h3⟩
      · obtain ⟨sg, h4, h5, h6⟩ := hS.layoutParent m' msg1 s h2 hin
        exact ⟨sg, by rw [hother m' msg1 hne h2 s hin]; exact h4, h5, h6⟩
      · subst h3; cases hin
    · intro s sg' m' h1 hp
      obtain ⟨sg, h2, h3⟩ := gs s sg' h1
      by_cases hin : s ∈ msg.layout
      · rw [if_pos hin] at h3; subst h3; cases hp
      · rw [if_neg hin] at h3; subst h3
        obtain ⟨msg0, h4, h5⟩ := hS.parentLayout s sg' m' h2 hp
        have hne : m' ≠ m := by
          intro e; subst e
          rw [hm] at h4; injection h4 with h4; subst h4
          exact hin h5
        exact ⟨msg0, by rw [hmsgs, upd_get, if_neg hne]; exact h4, h5⟩
    · intro m' msg1 h1
      rcases gm m' msg1 h1 with ⟨_, h2⟩ | ⟨_, h2⟩
      · exact hS.layoutNodup m' msg1 h2
      · subst h2; exact List.nodup_nil
    · intro m' msg1 h1
      rcases gm m' msg1 h1 with ⟨_, h2⟩ | ⟨_, h2⟩
      · rw [hname]; exact hS.names m' msg1 h2
      · subst h2; exact List.nodup_nil
    · exact hS.refs_congr (fun e en' h1 => ⟨en', by rw [← he]; exact h1, rfl⟩) (fun s => by rw [henum])
    · intro m' msg1 h1
      rcases gm m' msg1 h1 with ⟨_, h2⟩ | ⟨_, h2⟩
      · rw [henum]; exact hS.refsApart m' msg1 h2
      · subst h2; exact List.nodup_nil

/-! ### msgRemove -/

theorem slotsOf_filter_ne (w : W) (s : Nat) : ∀ l : List Nat,
    slotsOf w (l.filter (· ≠ s)) = remove (slotsOf w l) s
  | [] => rfl
  | i :: rest => by
    have ih := slotsOf_filter_ne w s rest
    unfold remove at ih ⊢
    by_cases hi : i = s
    · subst hi
      rw [List.filter_cons_of_neg (by simp)]
      cases hg : w.sigs.get i with
      | none => simp only [slotsOf, hg]; exact ih
      | some sg => simp [slotsOf, hg]; simpa using ih
    · rw [List.filter_cons_of_pos (by simpa using hi)]
      cases hg : w.sigs.get i with
      | none => simp only [slotsOf, hg]; exact ih
      | some sg => simp [slotsOf, hg, hi]; simpa using ih

theorem inv_msgRemove (w : W) (m s : Nat) (h : Inv w) : Inv (step w (.msgRemove m s)).1 := by
  simp only [step]
  cases hm : w.msgs.get m with
  | none => exact h
  | some msg =>
    simp only
    split
    · exact h
    · rename_i hc
      cases hsg : w.sigs.get s with
      | none => exact h
      | some sg =>
        simp only
        have hin : s ∈ msg.layout := by simpa using hc
        generalize hw1 : ({ w with
            sigs := upd w.sigs s { sg with parent := none }
            msgs := upd w.msgs m { msg with layout := msg.layout.filter (· ≠ s) } } : W) = w1
        have ht : w1.types = w.types := by rw [← hw1]
        have hvv : w1.vals = w.vals := by rw [← hw1]
        have he : w1.enums = w.enums := by rw [← hw1]
        have hs : w1.sigs = upd w.sigs s { sg with parent := none } := by rw [← hw1]
        have hmsgs : w1.msgs = upd w.msgs m { msg with layout := msg.layout.filter (· ≠ s) } := by
          rw [← hw1]
        have hS := h.toS
        have hpar : sg.parent = some m := by
          obtain ⟨sg0, h1, h2, _⟩ := hS.layoutParent m msg s hm hin
          rw [hsg] at h1; injection h1 with h1; subst h1; exact h2
        have gne : ∀ x, x ≠ s → w1.sigs.get x = w.sigs.get x := by
          intro x hx; rw [hs, upd_get, if_neg hx]
        have gself : w1.sigs.get s = some { sg with parent := none } := by
          rw [hs, upd_get, if_pos rfl]
        have gm : ∀ m' msg1, w1.msgs.get m' = some msg1 →
            (m' ≠ m ∧ w.msgs.get m' = some msg1) ∨
            (m' = m ∧ msg1 = { msg with layout := msg.layout.filter (· ≠ s) }) := by
          intro m' msg1 h1
          rw [hmsgs, upd_get] at h1
          split at h1
          · injection h1 with h1; exact Or.inr ⟨by assumption, h1.symm⟩
          · exact Or.inl ⟨by assumption, h1⟩
        have hname : sigName w1 = sigName w := by
          funext x
          apply sigName_congr
          rw [hs, upd_get]
          split
          · subst_vars; rw [hsg]; rfl
          · rfl
        have henum : enumOf w1 = enumOf w := by
          funext x
          apply enumOf_congr
          rw [hs, upd_get]
          split
          · subst_vars; rw [hsg]; rfl
          · rfl
        have hsub : (msg.layout.filter (· ≠ s)).Sublist msg.layout := List.filter_sublist
        have hS1 : InvS w1 := by
          refine ⟨?_, ?_, ?_, ?_, ?_, ?_, ?_, ?_, ?_⟩
          · intro t ty h1; rw [ht] at h1; exact hS.typesPos t ty h1
          · exact hS.kind_mono (fun t => by rw [ht]; exact id) (fun e => by rw [he]; exact id)
              (fun x sg' h1 => by
                by_cases hx : x = s
                · subst hx
                  rw [gself] at h1; injection h1 with h1; subst h1
                  exact Or.inl ⟨sg, hsg, rfl⟩
                · rw [gne x hx] at h1; exact Or.inl ⟨sg', h1, rfl⟩)
          · intro m' msg1 h1
            rcases gm m' msg1 h1 with ⟨_, h2⟩ | ⟨_, h2⟩
            · exact hS.msgCap m' msg1 h2
            · subst h2; exact hS.msgCap m msg hm
          · intro m' msg1 x h1 hx
            rcases gm m' msg1 h1 with ⟨hne, h2⟩ | ⟨h2, h3⟩
            · have hxs : x ≠ s := by
                intro e; subst e
                exact hS.layout_disjoint hm h2 (Ne.symm hne) hin hx
              rw [gne x hxs]; exact hS.layoutParent m' msg1 x h2 hx
            · subst h2 h3
              have hx' : x ∈ msg.layout ∧ x ≠ s := by simpa using hx
              rw [gne x hx'.2]; exact hS.layoutParent m' msg x hm hx'.1
          · intro x sg' m' h1 hp
            by_cases hx : x = s
            · subst hx
              rw [gself] at h1; injection h1 with h1; subst h1; cases hp
            · rw [gne x hx] at h1
              obtain ⟨msg0, h4, h5⟩ := hS.parentLayout x sg' m' h1 hp
              by_cases hmm : m' = m
              · subst hmm
                rw [hm] at h4; injection h4 with h4; subst h4
                exact ⟨{ msg with layout := msg.layout.filter (· ≠ s) },
                  by rw [hmsgs, upd_get, if_pos rfl], by simpa using ⟨h5, hx⟩⟩
              · exact ⟨msg0, by rw [hmsgs, upd_get, if_neg hmm]; exact h4, h5⟩
          · intro m' msg1 h1
            rcases gm m' msg1 h1 with ⟨_, h2⟩ | ⟨_, h2⟩
            · exact hS.layoutNodup m' msg1 h2
            · subst h2; exact (hS.layoutNodup m msg hm).sublist hsub
          · intro m' msg1 h1
            rw [hname]
            rcases gm m' msg1 h1 with ⟨_, h2⟩ | ⟨_, h2⟩
            · exact hS.names m' msg1 h2
            · subst h2; exact (hS.names m msg hm).sublist (hsub.map _)
          · exact hS.refs_congr (fun e en' h1 => ⟨en', by rw [← he]; exact h1, rfl⟩)
              (fun x => by rw [henum])
          · intro m' msg1 h1
            rw [henum]
            rcases gm m' msg1 h1 with ⟨_, h2⟩ | ⟨_, h2⟩
            · exact hS.refsApart m' msg1 h2
            · subst h2; exact (hS.refsApart m msg hm).sublist (hsub.filterMap _)
        obtain ⟨hw, hf⟩ := wf_fresh_regen (w1 := w1) hS h.toWF h.toFresh m
          (fun i sg0 _ => sizeOf_struct sg0 ht he)
          (by
            intro i sg0 m' hi hp hne
            have : i ≠ s := by
              intro e; subst e
              rw [hsg] at hi; injection hi with hi; subst hi
              rw [hpar] at hp; injection hp with hp; exact hne hp.symm
            rw [gne i this]; exact hi)
          (fun m' hne => by rw [hmsgs, upd_get, if_neg hne])
          (by
            intro msg1 h1
            rw [hmsgs, upd_get, if_pos rfl] at h1
            injection h1 with h1
            subst h1
            simp only
            have e1 : slotsOf w1 (msg.layout.filter (· ≠ s)) = slotsOf w (msg.layout.filter (· ≠ s)) := by
              apply slotsOf_congr
              intro i hi
              have hi' : i ∈ msg.layout ∧ i ≠ s := by simpa using hi
              unfold slotAt
              rw [gne i hi'.2]
              cases w.sigs.get i with
              | none => rfl
              | some sg0 => simp only [Option.map_some]; rw [sizeOf_struct _ ht he]
            rw [e1, slotsOf_filter_ne]
            exact (remove_wf msg.cap _ (h.wf m msg hm) s).1)
        exact Inv.ofParts
          ((InvV.congr (w' := w1) (fun _ => by rw [hvv]) (fun _ => by rw [he]) h.toV).regen m)
          (hS1.regen m) hw hf

/-! ### attaching a signal to a message (shared by append and insert) -/

theorem insertAt_perm (x : Slot) : ∀ l : List Slot, (insertAt x l).Perm (x :: l)
  | [] => by simp [insertAt]
  | y :: rest => by
    unfold insertAt
    split
    · exact List.Perm.refl _
    · exact ((insertAt_perm x rest).cons y).trans (List.Perm.swap x y rest)

/-- the slot of the attached signal and of the others after the attachment -/
theorem attach_slotAt {w w1 : W} {s : Nat} {sg sg' : SigE}
    (ht : w1.types = w.types) (he : w1.enums = w.enums) (hk : sg'.kind = sg.kind)
    (hs : w1.sigs = upd w.sigs s sg') :
    slotAt w1 s = some ⟨s, sg'.rel, sizeOf w sg⟩ ∧ ∀ i, i ≠ s → slotAt w1 i = slotAt w i := by
  constructor
  · unfold slotAt
    rw [hs, upd_get, if_pos rfl]
    simp only [Option.map_some]
    rw [sizeOf_struct _ ht he, sizeOf_kind w sg sg' hk]
  · intro i hi
    unfold slotAt
    rw [hs, upd_get, if_neg hi]
    cases w.sigs.get i with
    | none => rfl
    | some sg0 => simp only [Option.map_some]; rw [sizeOf_struct _ ht he]

theorem inv_attach {w : W} (h : Inv w) {m s : Nat} {msg : MsgE} {sg : SigE}
    (hm : w.msgs.get m = some msg) (hsg : w.sigs.get s = some sg) (hp : sg.parent = none)
    (hnm : hasSigName w msg.layout sg.name = false)
    (hap : ∀ e, enumOf w s = some e → e ∉ msg.layout.filterMap (enumOf w))
    (r : Int) (L' : List Nat) (hperm : L'.Perm (s :: msg.layout))
    (w1 : W) (ht : w1.types = w.types) (hvv : w1.vals = w.vals) (he : w1.enums = w.enums)
    (hs : w1.sigs = upd w.sigs s { sg with rel := r, parent := some m, be := msg.be })
    (hmsgs : w1.msgs = upd w.msgs m { msg with layout := L' })
    (hwf : WF msg.cap (slotsOf w1 L')) : Inv (regen w1 m) := by
  have hS := h.toS
  have hnotin : ∀ m' msg', w.msgs.get m' = some msg' → s ∉ msg'.layout := fun m' msg' h1 =>
    hS.noparent_notin h1 hsg (by rw [hp]; intro e; cases e)
  have hsl : s ∉ msg.layout := hnotin m msg hm
  have gne : ∀ x, x ≠ s → w1.sigs.get x = w.sigs.get x := by
    intro x hx; rw [hs, upd_get, if_neg hx]
  have gself : w1.sigs.get s = some { sg with rel := r, parent := some m, be := msg.be } := by
    rw [hs, upd_get, if_pos rfl]
  have gm : ∀ m' msg1, w1.msgs.get m' = some msg1 →
      (m' ≠ m ∧ w.msgs.get m' = some msg1) ∨ (m' = m ∧ msg1 = { msg with layout := L' }) := by
    intro m' msg1 h1
    rw [hmsgs, upd_get] at h1
    split at h1
    · injection h1 with h1; exact Or.inr ⟨by assumption, h1.symm⟩
    · exact Or.inl ⟨by assumption, h1⟩
  have hname : sigName w1 = sigName w := by
    funext x
    apply sigName_congr
    rw [hs, upd_get]
    split
    · subst_vars; rw [hsg]; rfl
    · rfl
  have henum : enumOf w1 = enumOf w := by
    funext x
    apply enumOf_congr
    rw [hs, upd_get]
    split
    · subst_vars; rw [hsg]; rfl
    · rfl
  have hsname : sigName w s = sg.name := by unfold sigName; rw [hsg]
  have hS1 : InvS w1 := by
    refine ⟨?_, ?_, ?_, ?_, ?_, ?_, ?_, ?_, ?_⟩
    · intro t ty h1; rw [ht] at h1; exact hS.typesPos t ty h1
    · exact hS.kind_mono (fun t => by rw [ht]; exact id) (fun e => by rw [he]; exact id)
        (fun x sg' h1 => by
          by_cases hx : x = s
          · subst hx
            rw [gself] at h1; injection h1 with h1; subst h1
            exact Or.inl ⟨sg, hsg, rfl⟩
          · rw [gne x hx] at h1; exact Or.inl ⟨sg', h1, rfl⟩)
    · intro m' msg1 h1
      rcases gm m' msg1 h1 with ⟨_, h2⟩ | ⟨_, h2⟩
      · exact hS.msgCap m' msg1 h2
      · subst h2; exact hS.msgCap m msg hm
    · intro m' msg1 x h1 hx
      rcases gm m' msg1 h1 with ⟨hne, h2⟩ | ⟨h2, h3⟩
      · have hxs : x ≠ s := by
          intro e; subst e; exact hnotin m' msg1 h2 hx
        rw [gne x hxs]; exact hS.layoutParent m' msg1 x h2 hx
      · subst h2 h3
        have hx' : x = s ∨ x ∈ msg.layout := by
          have := (hperm.mem_iff (a := x)).1 hx
          simpa using this
        rcases hx' with hx' | hx'
        · subst hx'
          exact ⟨_, gself, rfl, rfl⟩
        · have hxs : x ≠ s := by intro e; subst e; exact hsl hx'
          rw [gne x hxs]; exact hS.layoutParent m' msg x hm hx'
    · intro x sg' m' h1 hpp
      by_cases hx : x = s
      · subst hx
        rw [gself] at h1; injection h1 with h1; subst h1
        simp only at hpp
        injection hpp with hpp
        subst hpp
        exact ⟨{ msg with layout := L' }, by rw [hmsgs, upd_get, if_pos rfl],
          (hperm.mem_iff (a := x)).2 (by simp)⟩
      · rw [gne x hx] at h1
        obtain ⟨msg0, h4, h5⟩ := hS.parentLayout x sg' m' h1 hpp
        by_cases hmm : m' = m
        · subst hmm
          rw [hm] at h4; injection h4 with h4; subst h4
          exact ⟨{ msg with layout := L' }, by rw [hmsgs, upd_get, if_pos rfl],
            (hperm.mem_iff (a := x)).2 (by simp [h5])⟩
        · exact ⟨msg0, by rw [hmsgs, upd_get, if_neg hmm]; exact h4, h5⟩
    · intro m' msg1 h1
      rcases gm m' msg1 h1 with ⟨_, h2⟩ | ⟨_, h2⟩
      · exact hS.layoutNodup m' msg1 h2
      · subst h2
        exact hperm.nodup_iff.2 (List.nodup_cons.2 ⟨hsl, hS.layoutNodup m msg hm⟩)
    · intro m' msg1 h1
      rw [hname]
      rcases gm m' msg1 h1 with ⟨_, h2⟩ | ⟨_, h2⟩
      · exact hS.names m' msg1 h2
      · subst h2
        refine (hperm.map (sigName w)).nodup_iff.2 ?_
        rw [List.map_cons, List.nodup_cons]
        refine ⟨?_, hS.names m msg hm⟩
        intro hmem
        obtain ⟨y, hy, hey⟩ := List.mem_map.1 hmem
        exact hasSigName_false hnm y hy (by rw [hey, hsname])
    · exact hS.refs_congr (fun e en' h1 => ⟨en', by rw [← he]; exact h1, rfl⟩)
        (fun x => by rw [henum])
    · intro m' msg1 h1
      rw [henum]
      rcases gm m' msg1 h1 with ⟨_, h2⟩ | ⟨_, h2⟩
      · exact hS.refsApart m' msg1 h2
      · subst h2
        refine (hperm.filterMap (enumOf w)).nodup_iff.2 ?_
        rw [List.filterMap_cons]
        cases hes : enumOf w s with
        | none => exact hS.refsApart m msg hm
        | some e =>
          simp only
          exact List.nodup_cons.2 ⟨hap e hes, hS.refsApart m msg hm⟩
  obtain ⟨hw, hf⟩ := wf_fresh_regen (w1 := w1) hS h.toWF h.toFresh m
    (fun i sg0 _ => sizeOf_struct sg0 ht he)
    (by
      intro i sg0 m' hi hpp hne
      have : i ≠ s := by
        intro e; subst e
        rw [hsg] at hi; injection hi with hi; subst hi
        rw [hp] at hpp; cases hpp
      rw [gne i this]; exact hi)
    (fun m' hne => by rw [hmsgs, upd_get, if_neg hne])
    (by
      intro msg1 h1
      rw [hmsgs, upd_get, if_pos rfl] at h1
      injection h1 with h1
      subst h1
      exact hwf)
  exact Inv.ofParts
    ((InvV.congr (w' := w1) (fun _ => by rw [hvv]) (fun _ => by rw [he]) h.toV).regen m)
    (hS1.regen m) hw hf

/-! ### msgAppend -/

theorem inv_msgAppend (w : W) (m s : Nat) (h : Inv w) (hop : OpOK w (.msgAppend m s)) :
    Inv (step w (.msgAppend m s)).1 := by
  have hap := hop.2
  simp only at hap
  clear hop
  simp only [step]
  cases hm : w.msgs.get m with
  | none => exact h
  | some msg =>
    simp only
    cases hsg : w.sigs.get s with
    | none => exact h
    | some sg =>
      simp only
      split
      · exact h
      · rename_i hpar
        split
        · exact h
        · rename_i hnm
          split
          · exact h
          · rename_i sl hok
            have hp : sg.parent = none := by simpa using hpar
            have hnm' : hasSigName w msg.layout sg.name = false := by simpa using hnm
            have hS := h.toS
            have hsl : s ∉ msg.layout := hS.noparent_notin hm hsg (by rw [hp]; intro e; cases e)
            have hpos := hS.sizeOf_pos hsg
            have happ := append_wf msg.cap _ (h.wf m msg hm) s (sizeOf w sg) hpos sl hok
            generalize hw1 : ({ w with
              sigs := upd w.sigs s { sg with rel := lastEnd (slotsOf w msg.layout), parent := some m, be := msg.be }
              msgs := upd w.msgs m { msg with layout := msg.layout ++ [s] } } : W) = w1
            have ht : w1.types = w.types := by rw [← hw1]
            have hvv : w1.vals = w.vals := by rw [← hw1]
            have he : w1.enums = w.enums := by rw [← hw1]
            have hs : w1.sigs = upd w.sigs s
                { sg with rel := lastEnd (slotsOf w msg.layout), parent := some m, be := msg.be } := by
              rw [← hw1]
            have hmsgs : w1.msgs = upd w.msgs m { msg with layout := msg.layout ++ [s] } := by rw [← hw1]
            obtain ⟨a1, a2⟩ := attach_slotAt (w := w) (w1 := w1) (sg := sg) ht he (by rfl) hs
            refine inv_attach h hm hsg hp hnm' (fun e he' => hap msg e hm he') _ _
              (List.perm_append_singleton s msg.layout) w1 ht hvv he hs hmsgs ?_
            have e1 : slotsOf w1 (msg.layout ++ [s]) = sl := by
              rw [happ.2, slotsOf_append]
              congr 1
              · exact slotsOf_congr (fun i hi => a2 i (by intro e; subst e; exact hsl hi))
              · rw [slotsOf_eq]
                simp only [List.filterMap_cons, List.filterMap_nil, a1]
            rw [e1]
            exact happ.1

/-! ### msgInsert -/

theorem inv_msgInsert (w : W) (m s : Nat) (st : Int) (h : Inv w) (hop : OpOK w (.msgInsert m s st)) :
    Inv (step w (.msgInsert m s st)).1 := by
  have hap := hop.2
  simp only at hap
  clear hop
  simp only [step]
  cases hm : w.msgs.get m with
  | none => exact h
  | some msg =>
    simp only
    cases hsg : w.sigs.get s with
    | none => exact h
    | some sg =>
      simp only
      split
      · exact h
      · rename_i hpar
        split
        · exact h
        · rename_i hnm
          split
          · exact h
          · rename_i sl hok
            have hp : sg.parent = none := by simpa using hpar
            have hnm' : hasSigName w msg.layout sg.name = false := by simpa using hnm
            have hS := h.toS
            have hsl : s ∉ msg.layout := hS.noparent_notin hm hsg (by rw [hp]; intro e; cases e)
            have hpos := hS.sizeOf_pos hsg
            have hins := insert_wf msg.cap _ (h.wf m msg hm) s (sizeOf w sg) st hpos sl hok
            have hsl_eq : sl = insertAt ⟨s, st, sizeOf w sg⟩ (slotsOf w msg.layout) := by
              unfold verifyAndInsert at hok
              split at hok
              · cases hok
              · injection hok with hok; exact hok.symm
            have hperm0 := insertAt_perm ⟨s, st, sizeOf w sg⟩ (slotsOf w msg.layout)
            rw [← hsl_eq] at hperm0
            have hperm : (sl.map (·.id)).Perm (s :: msg.layout) := by
              have := hperm0.map (·.id)
              rw [List.map_cons, slotsOf_ids (hS.layout_present hm)] at this
              exact this
            generalize hw1 : ({ w with
              sigs := upd w.sigs s { sg with rel := st, parent := some m, be := msg.be }
              msgs := upd w.msgs m { msg with layout := sl.map (·.id) } } : W) = w1
            have ht : w1.types = w.types := by rw [← hw1]
            have hvv : w1.vals = w.vals := by rw [← hw1]
            have he : w1.enums = w.enums := by rw [← hw1]
            have hs : w1.sigs = upd w.sigs s { sg with rel := st, parent := some m, be := msg.be } := by
              rw [← hw1]
            have hmsgs : w1.msgs = upd w.msgs m { msg with layout := sl.map (·.id) } := by rw [← hw1]
            obtain ⟨a1, a2⟩ := attach_slotAt (w := w) (w1 := w1) (sg := sg) ht he (by rfl) hs
            refine inv_attach h hm hsg hp hnm' (fun e he' => hap msg e hm he') _ _
              hperm w1 ht hvv he hs hmsgs ?_
            have e1 : slotsOf w1 (sl.map (·.id)) = sl := by
              rw [slotsOf_eq, List.filterMap_map]
              conv => rhs; rw [← List.filterMap_some (l := sl)]
              apply List.filterMap_congr
              intro y hy
              have hy' : y = ⟨s, st, sizeOf w sg⟩ ∨ y ∈ slotsOf w msg.layout := by
                have := (hperm0.mem_iff (a := y)).1 hy
                simpa using this
              simp only [Function.comp]
              rcases hy' with hy' | hy'
              · subst hy'; exact a1
              · obtain ⟨hyl, sg0, h1, h2⟩ := mem_slotsOf.1 hy'
                have hne : y.id ≠ s := by intro e; rw [e] at hyl; exact hsl hyl
                rw [a2 _ hne]
                unfold slotAt
                rw [h1]
                simp only [Option.map_some]
                rw [← h2]
            rw [e1]
            exact hins.1

/-- an insert is accepted exactly when the name is new and the requested range is free
    (needs only the invariant) -/
theorem insert_iff_inv (w : W) (h : Inv w) (m s : Nat) (st : Int) (msg : MsgE) (sg : SigE)
    (hm : w.msgs.get m = some msg) (hs : w.sigs.get s = some sg) (hp : sg.parent = none) :
    ((step w (.msgInsert m s st)).2 = .ok [] ↔
      hasSigName w msg.layout sg.name = false ∧ 0 ≤ st ∧ st + sizeOf w sg ≤ msg.cap ∧
      RangeFree (slotsOf w msg.layout) st (sizeOf w sg)) := by
  have hspec := (verifyInsert_spec msg.cap _ (h.wf m msg hm) (sizeOf w sg) st (h.toS.sizeOf_pos hs)).1
  simp only [step, hm, hs, hp, Option.isSome_none, Bool.false_eq_true, if_false]
  cases hn : hasSigName w msg.layout sg.name with
  | true => simp
  | false =>
    simp only [Bool.false_eq_true, if_false, true_and]
    unfold verifyAndInsert
    cases hv : verifyInsert msg.cap (slotsOf w msg.layout) (sizeOf w sg) st with
    | error e =>
      simp only
      rw [← hspec, hv]
      constructor
      · intro he; cases e <;> simp [outOfLErr] at he
      · intro he; cases he
    | ok u =>
      simp only
      rw [← hspec, hv]
      exact ⟨fun _ => rfl, fun _ => trivial⟩


/-! ### no panics -/

theorem outOfLErr_panic {e : LErr} (h : outOfLErr e = .panic) : e = .panic := by
  cases e <;> simp [outOfLErr] at h ⊢

theorem scanInsert_ne_panic (st en : Int) : ∀ l : List Slot, scanInsert st en l ≠ .error .panic
  | [] => by simp [scanInsert]
  | s :: rest => by
    unfold scanInsert
    split
    · simp
    · split
      · exact scanInsert_ne_panic st en rest
      · split
        · simp
        · exact scanInsert_ne_panic st en rest

theorem verifyInsert_ne_panic (cap : Int) (l : List Slot) (sz st : Int) :
    verifyInsert cap l sz st ≠ .error .panic := by
  unfold verifyInsert
  split
  · simp
  · split
    · simp
    · split
      · simp
      · exact scanInsert_ne_panic _ _ _

theorem verifyAndInsert_ne_panic (cap : Int) (l : List Slot) (id : Nat) (sz st : Int) :
    verifyAndInsert cap l id sz st ≠ .error .panic := by
  unfold verifyAndInsert
  split
  · rename_i e he
    intro h
    injection h with h
    subst h
    exact verifyInsert_ne_panic _ _ _ _ he
  · simp

theorem append_ne_panic (cap : Int) (l : List Slot) (id : Nat) (sz : Int) :
    append cap l id sz ≠ .error .panic := by
  unfold append
  split
  · rename_i e he
    intro h
    injection h with h
    subst h
    unfold verifyAppend at he
    split at he <;> split at he <;> simp at he
  · simp

theorem verifyResize_ne_panic (cap : Int) (l : List Slot) (newCap : Int) :
    verifyResize cap l newCap ≠ .error .panic := by
  unfold verifyResize
  split
  · simp
  · split
    · simp
    · split <;> simp

theorem nopanic_msgNew (w : W) (m : Nat) (k : Int) : (step w (.msgNew m k)).2 ≠ .panic := by
  simp only [step]
  split <;> simp

theorem nopanic_msgAppend (w : W) (m s : Nat) : (step w (.msgAppend m s)).2 ≠ .panic := by
  simp only [step]
  cases w.msgs.get m with
  | none => simp
  | some msg =>
    simp only
    cases w.sigs.get s with
    | none => simp
    | some sg =>
      simp only
      split
      · simp
      · split
        · simp
        · split
          · rename_i e he
            intro hp
            rw [outOfLErr_panic hp] at he
            exact append_ne_panic _ _ _ _ he
          · simp

theorem nopanic_msgInsert (w : W) (m s : Nat) (st : Int) : (step w (.msgInsert m s st)).2 ≠ .panic := by
  simp only [step]
  cases w.msgs.get m with
  | none => simp
  | some msg =>
    simp only
    cases w.sigs.get s with
    | none => simp
    | some sg =>
      simp only
      split
      · simp
      · split
        · simp
        · split
          · rename_i e he
            intro hp
            rw [outOfLErr_panic hp] at he
            exact verifyAndInsert_ne_panic _ _ _ _ _ he
          · simp

theorem nopanic_msgRemove (w : W) (m s : Nat) : (step w (.msgRemove m s)).2 ≠ .panic := by
  simp only [step]
  cases w.msgs.get m with
  | none => simp
  | some msg =>
    simp only
    split
    · simp
    · cases w.sigs.get s <;> simp

theorem nopanic_msgRemoveAll (w : W) (m : Nat) : (step w (.msgRemoveAll m)).2 ≠ .panic := by
  simp only [step]
  cases w.msgs.get m <;> simp

theorem nopanic_msgCompact (w : W) (m : Nat) : (step w (.msgCompact m)).2 ≠ .panic := by
  simp only [step]
  cases w.msgs.get m <;> simp

theorem nopanic_msgShiftL (w : W) (m s : Nat) (a : Int) : (step w (.msgShiftL m s a)).2 ≠ .panic := by
  simp only [step]
  cases w.msgs.get m with
  | none => simp
  | some msg =>
    simp only
    split <;> simp

theorem nopanic_msgShiftR (w : W) (m s : Nat) (a : Int) : (step w (.msgShiftR m s a)).2 ≠ .panic := by
  simp only [step]
  cases w.msgs.get m with
  | none => simp
  | some msg =>
    simp only
    split <;> simp

theorem nopanic_msgResize (w : W) (m : Nat) (k : Int) : (step w (.msgResize m k)).2 ≠ .panic := by
  simp only [step]
  cases w.msgs.get m with
  | none => simp
  | some msg =>
    simp only
    split
    · simp
    · split
      · simp
      · split
        · rename_i e he
          intro hp
          rw [outOfLErr_panic hp] at he
          exact verifyResize_ne_panic _ _ _ he
        · simp

theorem nopanic_msgSetByteOrder (w : W) (m : Nat) (be : Bool) :
    (step w (.msgSetByteOrder m be)).2 ≠ .panic := by
  simp only [step]
  cases w.msgs.get m <;> simp

/-- the message operations never panic (the invariant is not even needed) -/
theorem nopanic_msg (w : W) (_h : Inv w) (op : Op)
    (hop : match op with
      | .msgNew .. | .msgAppend .. | .msgInsert .. | .msgRemove .. | .msgRemoveAll .. | .msgCompact ..
      | .msgShiftL .. | .msgShiftR .. | .msgResize .. | .msgSetByteOrder .. => True
      | _ => False) : (step w op).2 ≠ .panic := by
  cases op with
  | msgNew m k => exact nopanic_msgNew w m k
  | msgAppend m s => exact nopanic_msgAppend w m s
  | msgInsert m s st => exact nopanic_msgInsert w m s st
  | msgRemove m s => exact nopanic_msgRemove w m s
  | msgRemoveAll m => exact nopanic_msgRemoveAll w m
  | msgCompact m => exact nopanic_msgCompact w m
  | msgShiftL m s a => exact nopanic_msgShiftL w m s a
  | msgShiftR m s a => exact nopanic_msgShiftR w m s a
  | msgResize m k => exact nopanic_msgResize w m k
  | msgSetByteOrder m be => exact nopanic_msgSetByteOrder w m be
  | _ => exact hop.elim

end Acme.Payload
