/-
Locality of the scanner model: a token that `scanTok` reads completely from a text `w` is read
in the same way from `w ++ rest` when `rest` starts with a character that cannot continue it
(`scanTok_append`).  Also: the items of the bytes of a `String` (`decode_utf8`).
-/
import Acme.Proofs.DbcScanBasic

namespace Acme.Dbc.Scan

/-! ## UTF-8: `decode` after `encode` -/
theorem toByteArray_data (l : List UInt8) : l.toByteArray.data.toList = l := by
  simp

theorem utf8_eq (s : String) : utf8 s = encodeRunes s.toList := by
  unfold utf8 encodeRunes
  have h : s.toUTF8 = (s.toList).utf8Encode := by
    rw [String.toUTF8_eq_toByteArray]
    conv => lhs; rw [← String.ofList_toList (s := s)]
    exact String.toByteArray_ofList
  rw [h, List.utf8Encode]
  simp

theorem decodeRune_enc (c : Char) (rest : List UInt8) :
    decodeRune? (String.utf8EncodeChar c ++ rest) = some c := by
  unfold decodeRune?
  have hl : (String.utf8EncodeChar c).length ≤ 4 := by
    rw [String.length_utf8EncodeChar]; exact c.utf8Size_le_four
  rw [List.take_append, List.take_of_length_le hl]
  rw [List.toByteArray_append]
  exact ByteArray.utf8DecodeChar?_utf8EncodeChar_append

theorem decodeAux_skip (l rest : List UInt8) : decodeAux l.length (l ++ rest) = decodeAux 0 rest := by
  induction l with
  | nil => rfl
  | cons b l ih => simpa [decodeAux] using ih

theorem decode_encodeRunes (cs : List Char) : decode (encodeRunes cs) = itemsOfChars cs := by
  unfold decode
  induction cs with
  | nil => rfl
  | cons c cs ih =>
    have henc : encodeRunes (c :: cs) = String.utf8EncodeChar c ++ encodeRunes cs := by
      simp [encodeRunes]
    rw [henc]
    have hl : (String.utf8EncodeChar c).length = c.utf8Size := String.length_utf8EncodeChar c
    cases he : String.utf8EncodeChar c with
    | nil => rw [he] at hl; have := c.utf8Size_pos; simp at hl; omega
    | cons b bs =>
      have hd : decodeRune? (b :: (bs ++ encodeRunes cs)) = some c := by
        have := decodeRune_enc c (encodeRunes cs)
        rwa [he] at this
      show decodeAux 0 (b :: (bs ++ encodeRunes cs)) = _
      unfold decodeAux
      rw [hd]
      simp only []
      have hbs : bs.length = c.utf8Size - 1 := by rw [he] at hl; simp at hl; omega
      rw [← hbs, decodeAux_skip, ih]
      rfl

/-- the items of the bytes of a string: one item per character -/
theorem decode_utf8 (s : String) : decode (utf8 s) = itemsOfChars s.toList := by
  rw [utf8_eq, decode_encodeRunes]

/-! ## stop characters -/
/-- a blank or a hard stop -/
def stopChar (c : Char) : Bool := isSpace c || hardStop c

theorem stopChar_cases {c : Char} (h : stopChar c = true) :
    c ∈ [' ', '\t', '\n', '\r', '"', ':', ',', '(', ')', '[', ']', '|', ';', '@', '+'] := by
  simp only [stopChar, isSpace, hardStop, isPunct, Bool.or_eq_true, Bool.and_eq_true, beq_iff_eq,
    bne_iff_ne] at h
  simp only [List.mem_cons, List.mem_nil_iff, or_false]
  rcases h with ((((h | h) | h) | h) | (h | ⟨h, hne⟩))
  all_goals first
    | (subst h; decide)
    | skip
  rcases h with (((((((((h | h) | h) | h) | h) | h) | h) | h) | h) | h) | h
  all_goals first
    | (subst h; decide)
    | exact absurd h hne

structure StopFacts (c : Char) : Prop where
  notEOF : isEOF c = false
  notAlnum : isAlphaNumeric c = false
  notNum : isNumber c = false
  notHex : isHexNumber c = false
  notDot : (c == '.') = false
  note : (c == 'e') = false
  notE : (c == 'E') = false
  notx : (c == 'x') = false
  notX : (c == 'X') = false
  notMinus : (c == '-') = false

theorem stopFacts {c : Char} (h : stopChar c = true) : StopFacts c := by
  have := stopChar_cases h
  simp only [List.mem_cons, List.mem_nil_iff, or_false] at this
  rcases this with h|h|h|h|h|h|h|h|h|h|h|h|h|h|h <;> subst h <;> constructor <;> decide


theorem minusFacts : isEOF '-' = false ∧ isNumber '-' = false ∧ isHexNumber '-' = false := by decide

/-- `rest` is empty or starts with a blank or a hard stop (visible to `peek`) -/
def stopsB : List Item → Bool
  | [] => true
  | a :: _ => a.ok && stopChar a.rd

/-- the same, or `rest` starts with a `-` that no digit follows -/
def stopsNumB : List Item → Bool
  | [] => true
  | a :: r => a.ok && (stopChar a.rd || (a.rd == '-' && !isNumber (peek0 r)))

theorem stopsNumB_of_stopsB {rest : List Item} (h : stopsB rest = true) : stopsNumB rest = true := by
  cases rest with
  | nil => rfl
  | cons a r =>
    simp only [stopsB, Bool.and_eq_true] at h
    simp [stopsNumB, h.1, h.2]

/-- `p` fails on what `peek` sees at the head of `rest` -/
def HeadFails (p : Char → Bool) (rest : List Item) : Prop := ∀ a, rest.head? = some a → p a.pk = false

theorem Item.pk_of_ok {a : Item} (h : a.ok = true) : a.pk = a.rd := by simp [Item.pk, h]

theorem headFails_num {rest : List Item} (h : stopsNumB rest = true) : HeadFails isNumber rest := by
  intro a ha
  cases rest with
  | nil => simp at ha
  | cons b r =>
    simp only [List.head?_cons, Option.some.injEq] at ha
    subst ha
    simp only [stopsNumB, Bool.and_eq_true, Bool.or_eq_true, beq_iff_eq] at h
    rw [Item.pk_of_ok h.1]
    rcases h.2 with h2 | ⟨h2, _⟩
    · exact (stopFacts h2).notNum
    · rw [h2]; exact minusFacts.2.1

theorem headFails_hex {rest : List Item} (h : stopsNumB rest = true) : HeadFails isHexNumber rest := by
  intro a ha
  cases rest with
  | nil => simp at ha
  | cons b r =>
    simp only [List.head?_cons, Option.some.injEq] at ha
    subst ha
    simp only [stopsNumB, Bool.and_eq_true, Bool.or_eq_true, beq_iff_eq] at h
    rw [Item.pk_of_ok h.1]
    rcases h.2 with h2 | ⟨h2, _⟩
    · exact (stopFacts h2).notHex
    · rw [h2]; exact minusFacts.2.2

theorem headFails_alnum {rest : List Item} (h : stopsB rest = true) : HeadFails isAlphaNumeric rest := by
  intro a ha
  cases rest with
  | nil => simp at ha
  | cons b r =>
    simp only [List.head?_cons, Option.some.injEq] at ha
    subst ha
    simp only [stopsB, Bool.and_eq_true] at h
    rw [Item.pk_of_ok h.1]
    exact (stopFacts h.2).notAlnum

/-! ## `takeWhile` / `dropWhile` over an append -/

theorem tw_append {α : Type} (p : α → Bool) (w r : List α) (hw : ∀ x ∈ w, p x = true)
    (hr : ∀ a, r.head? = some a → p a = false) :
    (w ++ r).takeWhile p = w ∧ (w ++ r).dropWhile p = r := by
  induction w with
  | nil =>
    cases r with
    | nil => simp
    | cons a r => simp [List.takeWhile_cons, List.dropWhile_cons, hr a rfl]
  | cons x w ih =>
    have hx := hw x (by simp)
    have := ih (fun y hy => hw y (by simp [hy]))
    simp [List.takeWhile_cons, List.dropWhile_cons, hx, this]

theorem all_of_dropWhile_nil {α : Type} (p : α → Bool) (w : List α) (h : w.dropWhile p = []) :
    ∀ x ∈ w, p x = true := by
  induction w with
  | nil => intro x hx; simp at hx
  | cons a w ih =>
    rw [List.dropWhile_cons] at h
    split at h
    · rename_i ha
      intro x hx
      rcases List.mem_cons.mp hx with rfl | hx
      · exact ha
      · exact ih h x hx
    · simp at h

theorem head_take {α : Type} (k : Nat) (r : List α) (a : α) (h : (r.take k).head? = some a) :
    r.head? = some a := by
  cases k with
  | zero => simp at h
  | succ k => cases r with
    | nil => simp at h
    | cons b r => simpa using h

/-- `lx` with another remaining input -/
def withRest (lx : Lex) (rest : List Item) : Lex := { lx with rest := rest }

/-! ## peeks over an append -/

theorem isNumber_eof : isNumber eofCh = false := by decide
theorem isHex_eof : isHexNumber eofCh = false := by decide

theorem peek0_append (inp rest : List Item) (h : peek0 inp ≠ eofCh) : peek0 (inp ++ rest) = peek0 inp := by
  cases inp with
  | nil => exact absurd rfl h
  | cons a w => rfl

theorem peek1_append (inp rest : List Item) (h : peek1 inp ≠ eofCh) : peek1 (inp ++ rest) = peek1 inp := by
  cases inp with
  | nil => exact absurd rfl h
  | cons a w =>
    simp only [peek1, List.cons_append] at h ⊢
    split
    · rename_i hok; rw [if_pos hok] at h; exact peek0_append w rest h
    · rfl

theorem peek2_append (inp rest : List Item) (h : peek2 inp ≠ eofCh) : peek2 (inp ++ rest) = peek2 inp := by
  cases inp with
  | nil => exact absurd rfl h
  | cons a w =>
    simp only [peek2, List.cons_append] at h ⊢
    split
    · rename_i hok; rw [if_pos hok] at h; exact peek1_append w rest h
    · rfl

/-! ## locality of the number scanners -/


theorem mem_takeWhile_imp {α : Type} {p : α → Bool} {l : List α} {x : α}
    (h : x ∈ l.takeWhile p) : p x = true := by
  induction l with
  | nil => simp at h
  | cons a l ih =>
    rw [List.takeWhile_cons] at h
    split at h
    · rename_i ha
      rcases List.mem_cons.mp h with rfl | h
      · exact ha
      · exact ih h
    · simp at h

theorem peek1_two {inp : List Item} (h : peek1 inp ≠ eofCh) : ∃ x d w, inp = x :: d :: w ∧ x.ok = true := by
  cases inp with
  | nil => exact absurd rfl h
  | cons x w =>
    simp only [peek1] at h
    by_cases hok : x.ok = true
    · rw [if_pos hok] at h
      cases w with
      | nil => exact absurd rfl h
      | cons d w => exact ⟨x, d, w, rfl, hok⟩
    · rw [if_neg hok] at h; exact absurd rfl h

theorem scanHex_append (pre : List Char) (inp rest : List Item)
    (h1 : (scanHexNumber pre inp).rest = []) (hk : (scanHexNumber pre inp).kind ≠ .error)
    (hs : stopsNumB rest = true) :
    scanHexNumber pre (inp ++ rest) = withRest (scanHexNumber pre inp) rest := by
  by_cases hh : isHexNumber (peek1 inp) = true
  · have hne : peek1 inp ≠ eofCh := by intro he; rw [he, isHex_eof] at hh; cases hh
    obtain ⟨x, d, w, rfl, hok⟩ := peek1_two hne
    have hp := peek1_append (x :: d :: w) rest hne
    simp only [scanHexNumber, hh, Bool.not_true, Bool.false_eq_true, if_false] at h1 ⊢
    rw [List.cons_append, List.cons_append] at hp ⊢
    simp only [scanHexNumber, hp, hh, Bool.not_true, Bool.false_eq_true, if_false, withRest]
    -- the bounded digit loop
    have hmore : (w.take 8).takeWhile (fun it => isHexNumber it.pk) = w := by
      have hpre : (w.take 8).takeWhile (fun it => isHexNumber it.pk) <+: w :=
        (List.takeWhile_prefix _).trans (List.take_prefix _ _)
      have hl : w.length ≤ ((w.take 8).takeWhile (fun it => isHexNumber it.pk)).length := by
        have := congrArg List.length h1
        simp at this; omega
      exact hpre.eq_of_length_le hl
    have hw8 : w.length ≤ 8 := by
      have : ((w.take 8).takeWhile (fun it => isHexNumber it.pk)).length ≤ 8 :=
        Nat.le_trans (List.takeWhile_sublist _).length_le (by simp; omega)
      rw [hmore] at this; exact this
    have hall : ∀ x ∈ w, isHexNumber x.pk = true := by
      intro x hx
      rw [← hmore] at hx
      exact mem_takeWhile_imp (p := fun it : Item => isHexNumber it.pk) hx
    have htw : ((w ++ rest).take 8).takeWhile (fun it => isHexNumber it.pk) = w := by
      rw [List.take_append, List.take_of_length_le hw8]
      refine (tw_append _ w _ hall ?_).1
      intro a ha
      exact headFails_hex hs a (head_take _ _ _ ha)
    rw [htw, hmore]
    simp
  · have hb : isHexNumber (peek1 inp) = false := by simpa using hh
    exfalso; apply hk
    simp [scanHexNumber, hb]


theorem scanExp_append (pre : List Char) (inp rest : List Item)
    (h1 : (scanExpNumber pre inp).rest = []) (hk : (scanExpNumber pre inp).kind ≠ .error)
    (hs : stopsNumB rest = true) :
    scanExpNumber pre (inp ++ rest) = withRest (scanExpNumber pre inp) rest := by
  by_cases c1 : (peek1 inp != '-' && peek1 inp != '+' && !isNumber (peek1 inp)) = true
  · exfalso; apply hk
    simp only [scanExpNumber, c1, if_true]
    split <;> rfl
  · have hne : peek1 inp ≠ eofCh := by
      intro he; apply c1; rw [he]; decide
    have hp := peek1_append inp rest hne
    obtain ⟨e, d, w, rfl, hok⟩ := peek1_two hne
    have c1' : (peek1 (e :: d :: w) != '-' && peek1 (e :: d :: w) != '+' && !isNumber (peek1 (e :: d :: w))) = false := by
      simpa using c1
    by_cases c2 : (peek1 (e :: d :: w) == '-' || peek1 (e :: d :: w) == '+') = true
    · by_cases c3 : isNumber (peek2 (e :: d :: w)) = true
      · have hne2 : peek2 (e :: d :: w) ≠ eofCh := by
          intro he; rw [he, isNumber_eof] at c3; cases c3
        have hp2 := peek2_append (e :: d :: w) rest hne2
        simp only [scanExpNumber, c1', c2, c3, Bool.not_true, Bool.false_eq_true, if_false, if_true] at h1 ⊢
        rw [List.cons_append, List.cons_append] at hp hp2 ⊢
        simp only [scanExpNumber, hp, hp2, c1', c2, c3, Bool.not_true, Bool.false_eq_true, if_false, if_true, withRest]
        have hall := all_of_dropWhile_nil _ _ h1
        have := tw_append (fun it : Item => isNumber it.pk) w rest hall (headFails_num hs)
        have h0 := tw_append (fun it : Item => isNumber it.pk) w [] hall (by simp)
        rw [List.append_nil] at h0
        rw [this.1, this.2, h0.1]
      · exfalso; apply hk
        have c3' : isNumber (peek2 (e :: d :: w)) = false := by simpa using c3
        simp [scanExpNumber, c1', c2, c3']
    · have c2' : (peek1 (e :: d :: w) == '-' || peek1 (e :: d :: w) == '+') = false := by simpa using c2
      simp only [scanExpNumber, c1', c2', Bool.false_eq_true, if_false] at h1 ⊢
      rw [List.cons_append] at hp ⊢
      simp only [scanExpNumber, hp, c1', c2', Bool.false_eq_true, if_false, withRest]
      have hall := all_of_dropWhile_nil _ _ h1
      have := tw_append (fun it : Item => isNumber it.pk) (d :: w) rest hall (headFails_num hs)
      have h0 := tw_append (fun it : Item => isNumber it.pk) (d :: w) [] hall (by simp)
      rw [List.append_nil] at h0
      rw [this.1, this.2, h0.1]



theorem numFinish_withRest (f : Char) (hm rg : Bool) (pre : List Char) (a b : List Item) :
    numFinish f hm rg pre b = withRest (numFinish f hm rg pre a) b := by
  unfold numFinish withRest
  split
  · rfl
  · split <;> rfl

theorem numFinish_rest (f : Char) (hm rg : Bool) (pre : List Char) (a : List Item) :
    (numFinish f hm rg pre a).rest = a := by
  unfold numFinish
  split
  · rfl
  · split <;> rfl

/-- in front of a stopping rest the loop of `scanNumber` ends -/
theorem numLoop_stops (f prev : Char) (hm rg : Bool) (pre : List Char) (rest : List Item)
    (hs : stopsNumB rest = true) :
    numLoop f prev hm rg pre rest = numFinish f hm rg pre rest := by
  cases rest with
  | nil => unfold numLoop; rfl
  | cons a r =>
    simp only [stopsNumB, Bool.and_eq_true, Bool.or_eq_true, beq_iff_eq] at hs
    obtain ⟨hok, hs⟩ := hs
    have hpk := Item.pk_of_ok hok
    unfold numLoop
    simp only [hpk]
    rcases hs with hs | ⟨hm1, hm2⟩
    · have F := stopFacts hs
      have hd : a.rd ≠ '.' := by simpa using F.notDot
      have hmi : a.rd ≠ '-' := by simpa using F.notMinus
      simp [F.notEOF, F.notx, F.notX, F.notNum, hd, F.note, F.notE, hmi]
    · rw [hm1]
      have : isEOF '-' = false := by decide
      have h2 : isNumber '-' = false := by decide
      simp only [this, h2]
      simp only [show ('-' == 'x') = false by decide, show ('-' == 'X') = false by decide,
        show ('-' == 'e') = false by decide, show ('-' == 'E') = false by decide,
        show ('-' != '.') = true by decide, show ('-' == '-') = true by decide]
      simp only [Bool.false_eq_true, if_false, Bool.or_false, Bool.and_false, Bool.not_false, Bool.and_true,
        Bool.true_and, if_true, Bool.false_and]
      split
      · cases r with
        | nil => rfl
        | cons b r' =>
          simp only [peek0] at hm2
          simp only []
          have : isNumber b.pk = false := by simpa using hm2
          simp [this]
      · rfl


theorem numLoop_append (f : Char) (n : Nat) : ∀ (inp : List Item), inp.length ≤ n →
    ∀ (prev : Char) (hm rg : Bool) (pre : List Char) (rest : List Item),
      (numLoop f prev hm rg pre inp).rest = [] → (numLoop f prev hm rg pre inp).kind ≠ .error →
      stopsNumB rest = true →
      numLoop f prev hm rg pre (inp ++ rest) = withRest (numLoop f prev hm rg pre inp) rest := by
  induction n with
  | zero =>
    intro inp hl prev hm rg pre rest _ _ hs
    cases inp with
    | nil =>
      rw [List.nil_append, numLoop_stops _ _ _ _ _ _ hs]
      unfold numLoop
      exact numFinish_withRest ..
    | cons a w => simp at hl
  | succ n ih =>
    intro inp hl prev hm rg pre rest h1 hk hs
    cases inp with
    | nil =>
      rw [List.nil_append, numLoop_stops _ _ _ _ _ _ hs]
      unfold numLoop
      exact numFinish_withRest ..
    | cons a w =>
      rw [List.cons_append]
      unfold numLoop at h1 hk ⊢
      simp only [] at h1 hk ⊢
      split
      · rename_i c; rw [if_pos c, numFinish_rest] at h1; cases h1
      rename_i c0; rw [if_neg c0] at h1 hk
      split
      · rename_i c; rw [if_pos c] at h1 hk
        exact scanHex_append pre (a :: w) rest h1 hk hs
      rename_i c1; rw [if_neg c1] at h1 hk
      split
      · rename_i c; rw [if_pos c] at h1 hk
        split
        · rename_i c'; rw [if_pos c'] at h1 hk
          exact scanExp_append pre (a :: w) rest h1 hk hs
        rename_i c2; rw [if_neg c2] at h1 hk
        split
        · rename_i c'; rw [if_pos c'] at h1 hk
          cases w with
          | nil => simp only [numFinish_rest] at h1; cases h1
          | cons b w' =>
            simp only [List.cons_append] at h1 hk ⊢
            split
            · rename_i c''; rw [if_pos c''] at h1 hk
              exact ih w' (by simp at hl; omega) prev hm true _ rest h1 hk hs
            · rename_i c''; rw [if_neg c'', numFinish_rest] at h1; cases h1
        · rename_i c'; rw [if_neg c', numFinish_rest] at h1; cases h1
      rename_i c3; rw [if_neg c3] at h1 hk
      split
      · rename_i c; rw [if_pos c, numFinish_rest] at h1; cases h1
      · rename_i c; rw [if_neg c] at h1 hk
        exact ih w (by simp at hl; omega) a.pk true rg _ rest h1 hk hs

/-- `scanNumber` emits a punct only for a sign -/
theorem numLoop_punct (f : Char) (n : Nat) : ∀ (inp : List Item), inp.length ≤ n →
    ∀ (prev : Char) (hm rg : Bool) (pre : List Char),
      (numLoop f prev hm rg pre inp).kind = .punct → f = '-' ∨ f = '+' := by
  have fin : ∀ (hm rg : Bool) (pre : List Char) (inp : List Item),
      (numFinish f hm rg pre inp).kind = .punct → f = '-' ∨ f = '+' := by
    intro hm rg pre inp h
    unfold numFinish at h
    split at h
    · rename_i c; simp only [Bool.and_eq_true, Bool.or_eq_true, beq_iff_eq] at c; exact c.2
    · split at h <;> cases h
  have hex : ∀ (pre : List Char) (inp : List Item), (scanHexNumber pre inp).kind ≠ .punct := by
    intro pre inp
    unfold scanHexNumber
    split
    · simp
    · split <;> simp
  have exp : ∀ (pre : List Char) (inp : List Item), (scanExpNumber pre inp).kind ≠ .punct := by
    intro pre inp
    unfold scanExpNumber
    simp only []
    split
    · split <;> simp
    · split
      · split
        · split <;> simp
        · simp
      · split <;> simp
  induction n with
  | zero =>
    intro inp hl prev hm rg pre h
    cases inp with
    | nil => unfold numLoop at h; exact fin _ _ _ _ h
    | cons a w => simp at hl
  | succ n ih =>
    intro inp hl prev hm rg pre h
    cases inp with
    | nil => unfold numLoop at h; exact fin _ _ _ _ h
    | cons a w =>
      unfold numLoop at h
      simp only [] at h
      split at h
      · exact fin _ _ _ _ h
      split at h
      · exact absurd h (hex _ _)
      split at h
      · split at h
        · exact absurd h (exp _ _)
        split at h
        · cases w with
          | nil => exact fin _ _ _ _ h
          | cons b w' =>
            simp only [] at h
            split at h
            · exact ih w' (by simp at hl; omega) _ _ _ _ h
            · exact fin _ _ _ _ h
        · exact fin _ _ _ _ h
      split at h
      · exact fin _ _ _ _ h
      · exact ih w (by simp at hl; omega) _ _ _ _ h

/-! ## locality of the other scanners -/


/-- the kinds `scanNumber` can emit -/
theorem numLoop_kind (f : Char) (n : Nat) : ∀ (inp : List Item), inp.length ≤ n →
    ∀ (prev : Char) (hm rg : Bool) (pre : List Char),
      (numLoop f prev hm rg pre inp).kind = .punct ∨ (numLoop f prev hm rg pre inp).kind = .number ∨
      (numLoop f prev hm rg pre inp).kind = .numberRange ∨ (numLoop f prev hm rg pre inp).kind = .error := by
  have fin : ∀ (hm rg : Bool) (pre : List Char) (inp : List Item),
      (numFinish f hm rg pre inp).kind = .punct ∨ (numFinish f hm rg pre inp).kind = .number ∨
      (numFinish f hm rg pre inp).kind = .numberRange ∨ (numFinish f hm rg pre inp).kind = .error := by
    intro hm rg pre inp
    unfold numFinish
    split
    · simp
    · split <;> simp
  have hex : ∀ (pre : List Char) (inp : List Item),
      (scanHexNumber pre inp).kind = .punct ∨ (scanHexNumber pre inp).kind = .number ∨
      (scanHexNumber pre inp).kind = .numberRange ∨ (scanHexNumber pre inp).kind = .error := by
    intro pre inp
    unfold scanHexNumber
    split
    · simp
    · split <;> simp
  have exp : ∀ (pre : List Char) (inp : List Item),
      (scanExpNumber pre inp).kind = .punct ∨ (scanExpNumber pre inp).kind = .number ∨
      (scanExpNumber pre inp).kind = .numberRange ∨ (scanExpNumber pre inp).kind = .error := by
    intro pre inp
    unfold scanExpNumber
    simp only []
    split
    · split <;> simp
    · split
      · split
        · split <;> simp
        · simp
      · split <;> simp
  induction n with
  | zero =>
    intro inp hl prev hm rg pre
    cases inp with
    | nil => unfold numLoop; exact fin _ _ _ _
    | cons a w => simp at hl
  | succ n ih =>
    intro inp hl prev hm rg pre
    cases inp with
    | nil => unfold numLoop; exact fin _ _ _ _
    | cons a w =>
      unfold numLoop
      simp only []
      split
      · exact fin _ _ _ _
      split
      · exact hex _ _
      split
      · split
        · exact exp _ _
        split
        · cases w with
          | nil => exact fin _ _ _ _
          | cons b w' =>
            simp only []
            split
            · exact ih w' (by simp at hl; omega) _ _ _ _
            · exact fin _ _ _ _
        · exact fin _ _ _ _
      split
      · exact fin _ _ _ _
      · exact ih w (by simp at hl; omega) _ _ _ _

theorem scanText_kind (first : Char) (inp : List Item) :
    (scanText first inp).kind = .muxIndicator ∨ (scanText first inp).kind = .keyword ∨
    (scanText first inp).kind = .ident := by
  unfold scanText
  simp only []
  split
  · simp
  · split <;> simp

theorem scanText_append (first : Char) (w rest : List Item) (h1 : (scanText first w).rest = [])
    (hs : stopsB rest = true) : scanText first (w ++ rest) = withRest (scanText first w) rest := by
  have hall := all_of_dropWhile_nil (fun it : Item => isAlphaNumeric it.pk) w h1
  have h := tw_append (fun it : Item => isAlphaNumeric it.pk) w rest hall (headFails_alnum hs)
  have h0 := tw_append (fun it : Item => isAlphaNumeric it.pk) w [] hall (by simp)
  rw [List.append_nil] at h0
  simp only [scanText, h.1, h.2, h0.1, withRest]

theorem dropWhile_head_fails {α : Type} (p : α → Bool) (w : List α) (q : α) (r : List α)
    (h : w.dropWhile p = q :: r) : p q = false := by
  induction w with
  | nil => simp at h
  | cons a w ih =>
    rw [List.dropWhile_cons] at h
    split at h
    · exact ih h
    · rename_i ha
      simp only [List.cons.injEq] at h
      rw [← h.1]; simpa using ha

theorem scanString_append (first : Char) (w rest : List Item) (h1 : (scanString first w).rest = [])
    (hk : (scanString first w).kind ≠ .error) :
    scanString first (w ++ rest) = withRest (scanString first w) rest := by
  let p : Item → Bool := fun it => !isEOF it.rd && it.rd != '"'
  have key : w.takeWhile p ++ w.dropWhile p = w := List.takeWhile_append_dropWhile
  have hb : ∀ x ∈ w.takeWhile p, p x = true := fun x hx => mem_takeWhile_imp (p := p) hx
  cases hd : w.dropWhile p with
  | nil =>
    exfalso; apply hk
    show (scanString first w).kind = .error
    unfold scanString
    simp only []
    rw [show w.dropWhile (fun it : Item => !isEOF it.rd && it.rd != '"') = [] from hd]
  | cons q r =>
    have hqf := dropWhile_head_fails p w q r hd
    have hw : w ++ rest = w.takeWhile p ++ q :: (r ++ rest) := by
      conv => lhs; rw [← key, hd]
      simp
    have hA := tw_append p (w.takeWhile p) (q :: (r ++ rest)) hb
      (by intro a ha; simp at ha; subst ha; exact hqf)
    have e1 : (w ++ rest).takeWhile (fun it : Item => !isEOF it.rd && it.rd != '"') = w.takeWhile p := by
      rw [hw]; exact hA.1
    have e2 : (w ++ rest).dropWhile (fun it : Item => !isEOF it.rd && it.rd != '"') = q :: (r ++ rest) := by
      rw [hw]; exact hA.2
    have e3 : w.dropWhile (fun it : Item => !isEOF it.rd && it.rd != '"') = q :: r := hd
    unfold scanString at h1 hk ⊢
    simp only [e1, e2, e3] at h1 hk ⊢
    by_cases hq : (q.rd == '"') = true
    · simp only [hq, if_true] at h1 ⊢
      subst h1
      simp [withRest, p]
    · simp only [hq] at hk; exact absurd rfl hk

/-! ## locality of `scanTok` -/


/-- a punctuation character that is a token whatever follows -/
def selfPunct (c : Char) : Bool := isPunct c && c != '+' && c != '-'

/-- what must follow a token for it to end where it ends -/
def stopsFor (lx : Lex) (rest : List Item) : Bool :=
  match lx.kind with
  | .string => true
  | .punct => (match lx.raw with
      | [c] => selfPunct c
      | _ => false) || stopsNumB rest
  | .number => stopsNumB rest
  | .numberRange => stopsNumB rest
  | _ => stopsB rest

theorem scanTok_append (w rest : List Item) (h1 : (scanTok w).rest = [])
    (hk1 : (scanTok w).kind ≠ .eof) (hk2 : (scanTok w).kind ≠ .error)
    (hk3 : (scanTok w).kind ≠ .space) (hs : stopsFor (scanTok w) rest = true) :
    scanTok (w ++ rest) = withRest (scanTok w) rest := by
  cases w with
  | nil => exact absurd rfl hk1
  | cons it w' =>
    have hhead := scanTok_raw_head it w'
    rw [List.cons_append]
    unfold scanTok at h1 hk1 hk2 hk3 hs hhead ⊢
    simp only [] at h1 hk1 hk2 hk3 hs hhead ⊢
    split
    · rename_i c; rw [if_pos c] at hk1; exact absurd rfl hk1
    rename_i c0; rw [if_neg c0] at h1 hk1 hk2 hk3 hs hhead
    split
    · rename_i c; rw [if_pos c] at hk3; exact absurd rfl hk3
    rename_i c1; rw [if_neg c1] at h1 hk1 hk2 hk3 hs hhead
    split
    · rename_i c; rw [if_pos c] at h1 hs
      apply scanText_append _ _ _ h1
      rcases scanText_kind it.rd w' with h | h | h <;> simpa [stopsFor, h] using hs
    rename_i c2; rw [if_neg c2] at h1 hk1 hk2 hk3 hs hhead
    split
    · rename_i c; rw [if_pos c] at h1 hk2 hs hhead
      unfold scanNumber at h1 hk2 hs hhead ⊢
      apply numLoop_append it.rd w'.length w' (Nat.le_refl _) _ _ _ _ rest h1 hk2
      rcases numLoop_kind it.rd w'.length w' (Nat.le_refl _) it.rd false false [it.rd] with h | h | h | h
      · simp only [stopsFor, h, Bool.or_eq_true] at hs
        rcases hs with hs | hs
        · exfalso
          have hsign := numLoop_punct it.rd w'.length w' (Nat.le_refl _) it.rd false false [it.rd] h
          split at hs
          · rename_i c' heq
            rw [heq] at hhead
            simp only [List.head?_cons, Option.some.injEq] at hhead
            subst hhead
            simp only [selfPunct, Bool.and_eq_true, bne_iff_ne] at hs
            rcases hsign with h | h
            · exact hs.2 h
            · exact hs.1.2 h
          · cases hs
        · exact hs
      · simpa [stopsFor, h] using hs
      · simpa [stopsFor, h] using hs
      · exact absurd h hk2
    rename_i c3; rw [if_neg c3] at h1 hk1 hk2 hk3 hs hhead
    split
    · rename_i c; rw [if_pos c] at h1 hk2
      exact scanString_append _ _ _ h1 hk2
    rename_i c4; rw [if_neg c4] at h1 hk1 hk2 hk3 hs hhead
    split
    · rename_i c; rw [if_pos c] at h1
      simp only [] at h1
      subst h1
      rfl
    · rename_i c; rw [if_neg c] at hk2; exact absurd rfl hk2

end Acme.Dbc.Scan
