/-
Translator stage 11, `writeFile`: the text of the generated writer is the rendering of an explicit
layout (`layoutOf (frFile h f)`) of the hand model's token list, admissible for every well-formed
document.
-/
import Acme.Proofs.GenDbcWriterSec3

namespace Acme.GenW
open Acme.Dbc Acme.Dbc.Scan Acme.Gen

/-- the tables of keyword.go, regenerated, are the tables of the hand model -/
theorem newSymbolsValues_eq : W.newSymbolsValues = Acme.Dbc.newSymbolsValues := by decide

def frFile (hex : Bool) (f : File) : List Frag :=
  frVersion (if f.version ≠ "" then f.version else "_") ++
  frNewSymbols (match f.newSymbols with | some s => s | none => newSymbolsValues) ++
  frBitTiming (match f.bitTiming with | some b => b | none => {}) ++
  (match f.nodes with | some n => frNodes n | none => []) ++
  frSlice frValueTable f.valueTables ++
  frSlice frMessage f.messages ++
  frSlice frMessageTransmitter f.messageTransmitters ++
  frSlice frEnvVar f.envVars ++
  frSlice frEnvVarData f.envVarDatas ++
  frSlice frSignalType f.signalTypes ++
  frSlice frComment f.comments ++
  frSlice (frAttribute hex) f.attributes ++
  frSlice (frAttributeDefault hex) f.attributeDefaults ++
  frSlice (frAttributeValue hex) f.attributeValues ++
  frSlice frValueEncoding f.valueEncodings ++
  frSlice frSignalTypeRef f.signalTypeRefs ++
  frSlice frSignalGroup f.signalGroups ++
  frSlice frSignalExtValueType f.signalExtValueTypes ++
  frSlice frExtendedMux f.extendedMuxes

theorem toks_frFile (hex : Bool) (f : File) : toks (frFile hex f) = Acme.Dbc.writeFile hex f := by
  unfold frFile Acme.Dbc.writeFile
  simp only [toks_append, toks_frVersion, toks_frNewSymbols, toks_frBitTiming,
    toks_frSlice _ _ toks_frValueTable, toks_frSlice _ _ toks_frMessage,
    toks_frSlice _ _ toks_frMessageTransmitter, toks_frSlice _ _ toks_frEnvVar,
    toks_frSlice _ _ toks_frEnvVarData, toks_frSlice _ _ toks_frSignalType,
    toks_frSlice _ _ toks_frComment, toks_frSlice _ _ (toks_frAttribute hex),
    toks_frSlice _ _ (toks_frAttributeDefault hex), toks_frSlice _ _ (toks_frAttributeValue hex),
    toks_frSlice _ _ toks_frValueEncoding, toks_frSlice _ _ toks_frSignalTypeRef,
    toks_frSlice _ _ toks_frSignalGroup, toks_frSlice _ _ toks_frSignalExtValueType,
    toks_frSlice _ _ toks_frExtendedMux]
  cases f.nodes <;> simp only [toks_frNodes, toks_nil] <;> rfl

theorem text_file (h : Bool) (f : File) (out : String) :
    W.writeFile h f out = out ++ fragText (frFile h f) := by
  unfold W.writeFile frFile
  simp only [text_version,
    text_slice frValueTable _ _ (text_valueTable h) (text_newLine h),
    text_slice frMessage _ _ (text_message h) (text_newLine h),
    text_slice frMessageTransmitter _ _ (text_messageTransmitter h) (text_newLine h),
    text_slice frEnvVar _ _ (text_envVar h) (text_newLine h),
    text_slice frEnvVarData _ _ (text_envVarData h) (text_newLine h),
    text_slice frSignalType _ _ (text_signalType h) (text_newLine h),
    text_slice frComment _ _ (text_comment h) (text_newLine h),
    text_slice (frAttribute h) _ _ (text_attribute h) (text_newLine h),
    text_slice (frAttributeDefault h) _ _ (text_attributeDefault h) (text_newLine h),
    text_slice (frAttributeValue h) _ _ (text_attributeValue h) (text_newLine h),
    text_slice frValueEncoding _ _ (text_valueEncoding h) (text_newLine h),
    text_slice frSignalTypeRef _ _ (text_signalTypeRef h) (text_newLine h),
    text_slice frSignalGroup _ _ (text_signalGroup h) (text_newLine h),
    text_slice frSignalExtValueType _ _ (text_signalExtValueType h) (text_newLine h),
    text_slice frExtendedMux _ _ (text_extendedMux h) (text_newLine h)]
  cases f.newSymbols <;> cases f.bitTiming <;> cases f.nodes <;>
    simp only [text_newSymbols, text_bitTiming, text_nodes, fragText_append, String.append_assoc,
      newSymbolsValues_eq, fragText_nil, String.append_empty]

theorem ok_file (hex : Bool) (f : File) (hw : DbcWF hex f) : SecOK (frFile hex f) := by
  simp only [DbcWF, dbcWF, fileOK, Bool.and_eq_true, List.all_eq_true] at hw
  obtain ⟨⟨⟨⟨⟨⟨⟨⟨⟨⟨⟨⟨⟨⟨⟨⟨⟨⟨_, _⟩, _⟩, _⟩, _⟩, hmsg⟩, _⟩, hev⟩, _⟩, hst⟩, _⟩, hat⟩, had⟩, hav⟩, _⟩, _⟩, _⟩, _⟩, _⟩ := hw
  unfold frFile
  refine secOK_append (secOK_append (secOK_append (secOK_append (secOK_append (secOK_append (secOK_append
    (secOK_append (secOK_append (secOK_append (secOK_append (secOK_append (secOK_append (secOK_append
    (secOK_append (secOK_append (secOK_append (secOK_append ?_ ?_) ?_) ?_) ?_) ?_) ?_) ?_) ?_) ?_) ?_) ?_) ?_) ?_)
    ?_) ?_) ?_) ?_) ?_
  · exact ok_version _
  · exact ok_newSymbols _
  · exact ok_bitTiming _
  · cases f.nodes with
    | none => exact secOK_nil
    | some n => exact ok_nodes n
  · exact ok_frSlice _ _ (fun x _ => ok_valueTable x)
  · exact ok_frSlice _ _ (fun x hx => ok_message x (hmsg x hx))
  · exact ok_frSlice _ _ (fun x _ => ok_messageTransmitter x)
  · exact ok_frSlice _ _ (fun x hx => ok_envVar x (hev x hx))
  · exact ok_frSlice _ _ (fun x _ => ok_envVarData x)
  · exact ok_frSlice _ _ (fun x hx => ok_signalType x (hst x hx))
  · exact ok_frSlice _ _ (fun x _ => ok_comment x)
  · exact ok_frSlice _ _ (fun x hx => ok_attribute hex x (hat x hx))
  · exact ok_frSlice _ _ (fun x hx => ok_attributeDefault hex x (had x hx))
  · exact ok_frSlice _ _ (fun x hx => ok_attributeValue hex x (hav x hx))
  · exact ok_frSlice _ _ (fun x _ => ok_valueEncoding x)
  · exact ok_frSlice _ _ (fun x _ => ok_signalTypeRef x)
  · exact ok_frSlice _ _ (fun x _ => ok_signalGroup x)
  · exact ok_frSlice _ _ (fun x _ => ok_signalExtValueType x)
  · exact ok_frSlice _ _ (fun x _ => ok_extendedMux x)

/-! ## the bridge to `render` / `chainOK` -/

/-- `text` (a function of the text written so far) appends the rendering of the layout of `fs` -/
def Appends (text : String → String) (fs : List Frag) : Prop :=
  ∀ out, text out = out ++ render (layoutOf fs).1 (layoutOf fs).2

theorem appends_of_text {text : String → String} {fs : List Frag} (h : ∀ out, text out = out ++ fragText fs) :
    Appends text fs := by
  intro out; rw [h, render_layoutOf]

/-- the layout is admissible: blank lead, `chainOK` -/
def Admissible (fs : List Frag) : Prop :=
  isBlankStr (layoutOf fs).1 = true ∧ chainOK (layoutOf fs).2 = true

theorem admissible_of_secOK {fs : List Frag} (h : SecOK fs) : Admissible fs :=
  let r := okFrom_layoutOf fs none h.1
  ⟨r.1, r.2.1⟩

end Acme.GenW
