/-
Payload world, part E: the value group of the invariant (`InvV`) under the enum / value
operations, the arithmetic of the cached maximum index, and the whole-operation theorems
of the operations that only touch the `vals` store (`valNew`, `valRename`).
-/
import Acme.Proofs.PayloadInv

namespace Acme.Payload
open Acme.Layout Acme.Bits Acme.Arith

/-! ### A. arithmetic of the maximum index -/

/-- the running maximum of `f` over `l`, starting from `a` -/
def fmax (f : Nat → Int) (a : Int) (l : List Nat) : Int :=
  l.foldl (fun acc x => if f x > acc then f x else acc) a

theorem trueMaxIndex_eq_fmax (w : W) (l : List Nat) : trueMaxIndex w l = fmax (valIndex w) 0 l := rfl

theorem fmax_nil (f : Nat → Int) (a : Int) : fmax f a [] = a := rfl

theorem fmax_cons (f : Nat → Int) (a : Int) (x : Nat) (l : List Nat) :
    fmax f a (x :: l) = fmax f (if f x > a then f x else a) l := rfl

theorem fmax_ge (f : Nat → Int) (a : Int) (l : List Nat) : a ≤ fmax f a l := by
  induction l generalizing a with
  | nil => exact Int.le_refl _
  | cons x l ih =>
    rw [fmax_cons]
    have := ih (if f x > a then f x else a)
    grind

theorem fmax_mem_le (f : Nat → Int) (a : Int) {l : List Nat} {x : Nat} (hx : x ∈ l) : f x ≤ fmax f a l := by
  induction l generalizing a with
  | nil => cases hx
  | cons y l ih =>
    rw [fmax_cons]
    rcases List.mem_cons.1 hx with rfl | hx'
    · have := fmax_ge f (if f x > a then f x else a) l
      grind
    · exact ih _ hx'

theorem fmax_attained (f : Nat → Int) (a : Int) (l : List Nat) :
    fmax f a l = a ∨ ∃ x ∈ l, f x = fmax f a l := by
  induction l generalizing a with
  | nil => exact Or.inl rfl
  | cons y l ih =>
    rw [fmax_cons]
    rcases ih (if f y > a then f y else a) with h | ⟨x, hx, h⟩
    · by_cases hc : f y > a
      · rw [if_pos hc] at h ⊢
        exact Or.inr ⟨y, by simp, h.symm⟩
      · rw [if_neg hc] at h ⊢
        exact Or.inl h
    · exact Or.inr ⟨x, List.mem_cons_of_mem _ hx, h⟩

/-- changing the start value -/
theorem fmax_start (f : Nat → Int) {a b : Int} (hab : a ≤ b) (l : List Nat) :
    fmax f b l = if b > fmax f a l then b else fmax f a l := by
  induction l generalizing a b with
  | nil => simp only [fmax_nil]; grind
  | cons x l ih =>
    rw [fmax_cons, fmax_cons]
    have hge := fmax_ge f (if f x > a then f x else a) l
    rw [ih (a := if f x > a then f x else a) (b := if f x > b then f x else b) (by grind)]
    grind

theorem fmax_congr {f g : Nat → Int} {l : List Nat} (h : ∀ x ∈ l, f x = g x) (a : Int) :
    fmax f a l = fmax g a l := by
  induction l generalizing a with
  | nil => rfl
  | cons x l ih =>
    rw [fmax_cons, fmax_cons, h x (by simp)]
    exact ih (fun y hy => h y (List.mem_cons_of_mem _ hy)) _

theorem trueMaxIndex_nil (w : W) : trueMaxIndex w [] = 0 := rfl

theorem trueMaxIndex_nonneg (w : W) (l : List Nat) : 0 ≤ trueMaxIndex w l := fmax_ge _ 0 l

/-- every index is below the maximum -/
theorem valIndex_le_trueMax (w : W) {l : List Nat} {x : Nat} (hx : x ∈ l) :
    valIndex w x ≤ trueMaxIndex w l := fmax_mem_le _ 0 hx

/-- the maximum is 0 or attained -/
theorem trueMaxIndex_attained (w : W) (l : List Nat) :
    trueMaxIndex w l = 0 ∨ ∃ x ∈ l, valIndex w x = trueMaxIndex w l := fmax_attained _ 0 l

theorem trueMaxIndex_vals {w w' : W} (h : w'.vals = w.vals) (l : List Nat) :
    trueMaxIndex w' l = trueMaxIndex w l :=
  trueMaxIndex_congr (fun v _ => valIndex_congr (by rw [h]))

theorem trueMaxIndex_append (w : W) (l : List Nat) (v : Nat) :
    trueMaxIndex w (l ++ [v]) =
      if valIndex w v > trueMaxIndex w l then valIndex w v else trueMaxIndex w l := by
  unfold trueMaxIndex
  rw [List.foldl_append]
  rfl

theorem trueMaxIndex_sublist_le (w : W) {l' l : List Nat} (h : l'.Sublist l) :
    trueMaxIndex w l' ≤ trueMaxIndex w l := by
  rcases trueMaxIndex_attained w l' with h0 | ⟨x, hx, hxe⟩
  · rw [h0]; exact trueMaxIndex_nonneg w l
  · rw [← hxe]; exact valIndex_le_trueMax w (h.subset hx)

/-- the skipping fold of `getMaxIndexWith` is the plain fold for the function that maps the
    skipped value to something below the accumulator -/
theorem maxIndexWith_fold (f : Nat → Int) (v : Nat) (i : Int) (l : List Nat) (a : Int) (hia : i ≤ a) :
    l.foldl (fun acc x => if x = v then acc else if f x > acc then f x else acc) a =
      fmax (fun x => if x = v then i else f x) a l := by
  induction l generalizing a with
  | nil => rfl
  | cons x l ih =>
    rw [fmax_cons, List.foldl_cons]
    by_cases hx : x = v
    · simp only [hx, if_true]
      rw [if_neg (by omega)]
      exact ih a hia
    · simp only [hx, if_false]
      exact ih _ (by split <;> omega)

/-- `getMaxIndexWith` for a value that is not (yet) in the enum -/
theorem maxIndexWith_notin (w : W) {values : List Nat} {v : Nat} (hv : v ∉ values) (i : Int) :
    maxIndexWith w values v i = if i > trueMaxIndex w values then i else trueMaxIndex w values := by
  unfold maxIndexWith
  rw [maxIndexWith_fold (valIndex w) v i values _ (by split <;> omega)]
  rw [fmax_congr (g := valIndex w) (fun x hx => by
    have : x ≠ v := fun e => hv (e ▸ hx)
    simp [this])]
  rw [fmax_start (valIndex w) (a := 0) (by split <;> omega), ← trueMaxIndex_eq_fmax]
  have := trueMaxIndex_nonneg w values
  grind

/-- `getMaxIndexWith` for a value of the enum is the maximum after the index update -/
theorem maxIndexWith_mem {w w' : W} {values : List Nat} {v : Nat} {val : ValE} (i : Int)
    (hv : w.vals.get v = some val) (hin : v ∈ values)
    (hvals : w'.vals = upd w.vals v { val with index := i }) :
    maxIndexWith w values v i = trueMaxIndex w' values := by
  unfold maxIndexWith
  rw [maxIndexWith_fold (valIndex w) v i values _ (by split <;> omega)]
  have hg : ∀ x ∈ values, (fun x => if x = v then i else valIndex w x) x = valIndex w' x := by
    intro x _
    by_cases hx : x = v
    · subst hx
      simp [valIndex, hvals]
    · simp only [hx, if_false]
      exact (valIndex_congr (by rw [hvals, upd_get, if_neg hx])).symm
  rw [fmax_congr hg, fmax_start (valIndex w') (a := 0) (by split <;> omega), ← trueMaxIndex_eq_fmax]
  have h0 := trueMaxIndex_nonneg w' values
  have h1 := valIndex_le_trueMax w' hin
  have h2 : valIndex w' v = i := by simp [valIndex, hvals]
  grind

theorem log2_mono {a b : Nat} (ha : a ≠ 0) (hab : a ≤ b) : Nat.log2 a ≤ Nat.log2 b := by
  have hb : b ≠ 0 := by omega
  rw [Nat.le_log2 hb]
  exact Nat.le_trans (Nat.log2_self_le ha) hab

theorem calcSize_mono {a b : Int} (ha : 0 ≤ a) (hab : a ≤ b) : calcSize a ≤ calcSize b := by
  by_cases ha0 : a = 0
  · subst ha0
    have := calcSize_pos b
    have h1 : calcSize 0 = 1 := rfl
    omega
  · have hb0 : ¬ b = 0 := by omega
    have hna : a.toNat ≠ 0 := by omega
    have hnb : b.toNat ≠ 0 := by omega
    unfold calcSize
    rw [if_neg ha0, if_neg hb0, if_neg (by omega), if_neg (by omega)]
    unfold len64
    rw [if_neg hna, if_neg hnb]
    have := log2_mono hna (by omega : a.toNat ≤ b.toNat)
    omega

theorem enumSize_mono (k : Int) {a b : Int} (ha : 0 ≤ a) (hab : a ≤ b) : enumSize k a ≤ enumSize k b := by
  have := calcSize_mono ha hab
  unfold enumSize
  simp only
  split <;> split <;> omega

/-! ### B. the value group under the enum / value operations -/

theorem nodup_snoc {α : Type} {l : List α} {a : α} (hn : l.Nodup) (ha : a ∉ l) : (l ++ [a]).Nodup := by
  rw [List.nodup_append]
  refine ⟨hn, List.nodup_singleton a, ?_⟩
  intro x hx y hy
  rw [List.mem_singleton] at hy
  subst hy
  exact fun e => ha (e ▸ hx)

/-- replacing the image of one element by a value that does not occur keeps `Nodup` -/
theorem nodup_map_update {α β : Type} {l : List α} {f g : α → β} {v : α}
    (hn : (l.map f).Nodup) (hg : ∀ x ∈ l, x ≠ v → g x = f x) (hv : ∀ x ∈ l, f x ≠ g v) :
    (l.map g).Nodup := by
  have hinj := List.inj_on_of_nodup_map hn
  refine List.Nodup.map_on ?_ (List.Nodup.of_map f hn)
  intro x hx y hy hxy
  by_cases hxv : x = v
  · by_cases hyv : y = v
    · rw [hxv, hyv]
    · rw [hxv, hg y hy hyv] at hxy
      exact absurd hxy.symm (hv y hy)
  · by_cases hyv : y = v
    · rw [hyv, hg x hx hxv] at hxy
      exact absurd hxy (hv x hx)
    · rw [hg x hx hxv, hg y hy hyv] at hxy
      exact hinj hx hy hxy

theorem hasIndex_false {w : W} {l : List Nat} {i : Int} (h : hasIndex w l i = false) :
    ∀ x ∈ l, valIndex w x ≠ i := by
  intro x hx he
  unfold hasIndex at h
  rw [List.any_eq_false] at h
  exact h x hx (by simpa using he)

theorem hasValName_false {w : W} {l : List Nat} {n : String} (h : hasValName w l n = false) :
    ∀ x ∈ l, valName w x ≠ n := by
  intro x hx he
  unfold hasValName at h
  rw [List.any_eq_false] at h
  exact h x hx (by simpa using he)

theorem valIndex_of_get {w : W} {v : Nat} {val : ValE} (h : w.vals.get v = some val) :
    valIndex w v = val.index := by
  simp [valIndex, h]

theorem valName_of_get {w : W} {v : Nat} {val : ValE} (h : w.vals.get v = some val) :
    valName w v = val.name := by
  simp [valName, h]

/-- a member of an enum has that enum as parent -/
theorem InvV.mem_parent {w : W} (h : InvV w) {e v : Nat} {en : EnumE} {val : ValE}
    (he : w.enums.get e = some en) (hin : v ∈ en.values) (hv : w.vals.get v = some val) :
    val.parent = some e := by
  obtain ⟨val', h1, h2, _⟩ := (h.enumVals e en he).2 v hin
  rw [hv] at h1
  injection h1 with h1
  subst h1
  exact h2

theorem InvV.notin_of_parent {w : W} (h : InvV w) {e v : Nat} {en : EnumE} {val : ValE}
    (he : w.enums.get e = some en) (hv : w.vals.get v = some val) (hp : val.parent ≠ some e) :
    v ∉ en.values := fun hin => hp (h.mem_parent he hin hv)

theorem InvV.notin_of_none {w : W} (h : InvV w) {e v : Nat} {en : EnumE}
    (he : w.enums.get e = some en) (hv : w.vals.get v = none) : v ∉ en.values := by
  intro hin
  obtain ⟨val', h1, _⟩ := (h.enumVals e en he).2 v hin
  rw [hv] at h1
  cases h1

theorem InvV.addValue {w : W} (h : InvV w) {e v : Nat} {en : EnumE} {val : ValE}
    (he : w.enums.get e = some en) (hv : w.vals.get v = some val) (hp : val.parent = none)
    (hi0 : 0 ≤ val.index) (hidx : hasIndex w en.values val.index = false)
    (hname : hasValName w en.values val.name = false)
    (mx : Int) (hmx : mx = if val.index > en.maxIndex then val.index else en.maxIndex)
    (w2 : W) (hvals : w2.vals = upd w.vals v { val with parent := some e })
    (henums : w2.enums = upd w.enums e { en with maxIndex := mx, values := en.values ++ [v] }) : InvV w2 := by
  have hI : ∀ x, valIndex w2 x = valIndex w x := fun x => valIndex_congr (by
    rw [hvals, upd_get]; by_cases hx : x = v <;> simp [hx, hv])
  have hN : ∀ x, valName w2 x = valName w x := fun x => valName_congr (by
    rw [hvals, upd_get]; by_cases hx : x = v <;> simp [hx, hv])
  have hI' : valIndex w2 = valIndex w := funext hI
  have hN' : valName w2 = valName w := funext hN
  have hnot : ∀ e' en', w.enums.get e' = some en' → v ∉ en'.values :=
    fun e' en' h1 => h.notin_of_parent h1 hv (by rw [hp]; simp)
  have hvi := valIndex_of_get hv
  have hvn := valName_of_get hv
  have get2 : ∀ e' en', w2.enums.get e' = some en' →
      (e' = e ∧ en' = { en with maxIndex := mx, values := en.values ++ [v] }) ∨
      (e' ≠ e ∧ w.enums.get e' = some en') := by
    intro e' en' h1
    rw [henums, upd_get] at h1
    by_cases hee : e' = e
    · rw [if_pos hee] at h1; injection h1 with h1; exact Or.inl ⟨hee, h1.symm⟩
    · rw [if_neg hee] at h1; exact Or.inr ⟨hee, h1⟩
  have getv : ∀ x, x ≠ v → w2.vals.get x = w.vals.get x := fun x hx => by
    rw [hvals, upd_get, if_neg hx]
  have getvv : w2.vals.get v = some { val with parent := some e } := by
    rw [hvals, upd_get, if_pos rfl]
  constructor
  · intro e' en' h1
    rcases get2 e' en' h1 with ⟨rfl, rfl⟩ | ⟨hne, h2⟩
    · obtain ⟨hn, hm⟩ := h.enumVals _ en he
      refine ⟨nodup_snoc hn (hnot _ en he), ?_⟩
      intro x hx
      simp only [List.mem_append, List.mem_singleton] at hx
      rcases hx with hx | rfl
      · have : x ≠ v := fun e => hnot _ en he (e ▸ hx)
        rw [getv x this]; exact hm x hx
      · exact ⟨_, getvv, rfl, hi0⟩
    · obtain ⟨hn, hm⟩ := h.enumVals _ en' h2
      refine ⟨hn, fun x hx => ?_⟩
      have : x ≠ v := fun e => hnot _ en' h2 (e ▸ hx)
      rw [getv x this]; exact hm x hx
  · intro x val' e' h1 h2
    by_cases hx : x = v
    · subst hx
      rw [getvv] at h1; injection h1 with h1; subst h1
      simp only at h2; injection h2 with h2; subst h2
      exact ⟨_, by rw [henums, upd_get, if_pos rfl], by simp⟩
    · rw [getv x hx] at h1
      obtain ⟨en', h3, h4⟩ := h.valParent x val' e' h1 h2
      by_cases hee : e' = e
      · subst hee; rw [he] at h3; injection h3 with h3; subst h3
        exact ⟨_, by rw [henums, upd_get, if_pos rfl], by simp [h4]⟩
      · exact ⟨en', by rw [henums, upd_get, if_neg hee]; exact h3, h4⟩
  · intro e' en' h1
    rw [hI']
    rcases get2 e' en' h1 with ⟨rfl, rfl⟩ | ⟨hne, h2⟩
    · simp only [List.map_append, List.map_cons, List.map_nil]
      refine nodup_snoc (h.valIdx _ en he) ?_
      intro hmem
      obtain ⟨x, hx, hxe⟩ := List.mem_map.1 hmem
      exact hasIndex_false hidx x hx (hxe.trans hvi)
    · exact h.valIdx _ _ h2
  · intro e' en' h1
    rw [hN']
    rcases get2 e' en' h1 with ⟨rfl, rfl⟩ | ⟨hne, h2⟩
    · simp only [List.map_append, List.map_cons, List.map_nil]
      refine nodup_snoc (h.valNames _ en he) ?_
      intro hmem
      obtain ⟨x, hx, hxe⟩ := List.mem_map.1 hmem
      exact hasValName_false hname x hx (hxe.trans hvn)
    · exact h.valNames _ _ h2
  · intro e' en' h1
    rw [trueMaxIndex_congr (fun x _ => hI x)]
    rcases get2 e' en' h1 with ⟨rfl, rfl⟩ | ⟨hne, h2⟩
    · simp only
      rw [trueMaxIndex_append, hvi, ← h.enumMax _ en he]
      exact hmx
    · exact h.enumMax _ _ h2

theorem InvV.setIndex {w : W} (h : InvV w) {e v : Nat} {en : EnumE} {val : ValE} {i : Int}
    (hv : w.vals.get v = some val) (hp : val.parent = some e) (he : w.enums.get e = some en)
    (hi0 : 0 ≤ i) (hidx : hasIndex w en.values i = false)
    (w2 : W) (hvals : w2.vals = upd w.vals v { val with index := i })
    (henums : w2.enums = upd w.enums e { en with maxIndex := maxIndexWith w en.values v i }) : InvV w2 := by
  have hIne : ∀ x, x ≠ v → valIndex w2 x = valIndex w x := fun x hx => valIndex_congr (by
    rw [hvals, upd_get, if_neg hx])
  have hIv : valIndex w2 v = i := by simp [valIndex, hvals]
  have hN : ∀ x, valName w2 x = valName w x := fun x => valName_congr (by
    rw [hvals, upd_get]; by_cases hx : x = v <;> simp [hx, hv])
  have hN' : valName w2 = valName w := funext hN
  have hin : v ∈ en.values := by
    obtain ⟨en', h1, h2⟩ := h.valParent v val e hv hp
    rw [he] at h1; injection h1 with h1; subst h1; exact h2
  have hnot : ∀ e' en', e' ≠ e → w.enums.get e' = some en' → v ∉ en'.values :=
    fun e' en' hne h1 => h.notin_of_parent h1 hv (by
      rw [hp]; intro e1; injection e1 with e1; exact hne e1.symm)
  have get2 : ∀ e' en', w2.enums.get e' = some en' →
      (e' = e ∧ en' = { en with maxIndex := maxIndexWith w en.values v i }) ∨
      (e' ≠ e ∧ w.enums.get e' = some en') := by
    intro e' en' h1
    rw [henums, upd_get] at h1
    by_cases hee : e' = e
    · rw [if_pos hee] at h1; injection h1 with h1; exact Or.inl ⟨hee, h1.symm⟩
    · rw [if_neg hee] at h1; exact Or.inr ⟨hee, h1⟩
  have getv : ∀ x, x ≠ v → w2.vals.get x = w.vals.get x := fun x hx => by
    rw [hvals, upd_get, if_neg hx]
  have getvv : w2.vals.get v = some { val with index := i } := by
    rw [hvals, upd_get, if_pos rfl]
  have mem : ∀ e' (l : List Nat), (∀ x ∈ l, ∃ val, w.vals.get x = some val ∧ val.parent = some e' ∧ 0 ≤ val.index) →
      ∀ x ∈ l, ∃ val, w2.vals.get x = some val ∧ val.parent = some e' ∧ 0 ≤ val.index := by
    intro e' l hm x hx
    by_cases hxv : x = v
    · subst hxv
      obtain ⟨val0, h1, h2, _⟩ := hm x hx
      rw [hv] at h1; injection h1 with h1; subst h1
      exact ⟨_, getvv, h2, hi0⟩
    · rw [getv x hxv]; exact hm x hx
  constructor
  · intro e' en' h1
    rcases get2 e' en' h1 with ⟨rfl, rfl⟩ | ⟨hne, h2⟩
    · obtain ⟨hn, hm⟩ := h.enumVals _ en he
      exact ⟨hn, mem _ _ hm⟩
    · obtain ⟨hn, hm⟩ := h.enumVals _ en' h2
      exact ⟨hn, mem _ _ hm⟩
  · intro x val' e' h1 h2
    have : ∃ val0, w.vals.get x = some val0 ∧ val0.parent = some e' := by
      by_cases hx : x = v
      · subst hx
        rw [getvv] at h1; injection h1 with h1; subst h1
        exact ⟨val, hv, h2⟩
      · rw [getv x hx] at h1; exact ⟨val', h1, h2⟩
    obtain ⟨val0, h3, h4⟩ := this
    obtain ⟨en', h5, h6⟩ := h.valParent x val0 e' h3 h4
    by_cases hee : e' = e
    · subst hee; rw [he] at h5; injection h5 with h5; subst h5
      have h7 : w2.enums.get e' = some { en with maxIndex := maxIndexWith w en.values v i } := by
        rw [henums, upd_get, if_pos rfl]
      exact ⟨_, h7, h6⟩
    · exact ⟨en', by rw [henums, upd_get, if_neg hee]; exact h5, h6⟩
  · intro e' en' h1
    rcases get2 e' en' h1 with ⟨rfl, rfl⟩ | ⟨hne, h2⟩
    · simp only
      refine nodup_map_update (v := v) (h.valIdx _ en he) (fun x _ hx => hIne x hx) ?_
      intro x hx
      rw [hIv]
      exact hasIndex_false hidx x hx
    · rw [List.map_congr_left (fun x hx => hIne x (fun e1 => hnot _ _ hne h2 (e1 ▸ hx)))]
      exact h.valIdx _ _ h2
  · intro e' en' h1
    rw [hN']
    rcases get2 e' en' h1 with ⟨rfl, rfl⟩ | ⟨hne, h2⟩
    · exact h.valNames _ en he
    · exact h.valNames _ _ h2
  · intro e' en' h1
    rcases get2 e' en' h1 with ⟨rfl, rfl⟩ | ⟨hne, h2⟩
    · exact maxIndexWith_mem i hv hin hvals
    · rw [trueMaxIndex_congr (fun x hx => hIne x (fun e1 => hnot _ _ hne h2 (e1 ▸ hx)))]
      exact h.enumMax _ _ h2

theorem InvV.setIndexFree {w : W} (h : InvV w) {v : Nat} {val : ValE} (i : Int)
    (hv : w.vals.get v = some val) (hp : val.parent = none)
    (w2 : W) (hvals : w2.vals = upd w.vals v { val with index := i }) (henums : w2.enums = w.enums) :
    InvV w2 := by
  have hIne : ∀ x, x ≠ v → valIndex w2 x = valIndex w x := fun x hx => valIndex_congr (by
    rw [hvals, upd_get, if_neg hx])
  have hN : ∀ x, valName w2 x = valName w x := fun x => valName_congr (by
    rw [hvals, upd_get]; by_cases hx : x = v <;> simp [hx, hv])
  have hN' : valName w2 = valName w := funext hN
  have hnot : ∀ e' en', w.enums.get e' = some en' → v ∉ en'.values :=
    fun e' en' h1 => h.notin_of_parent h1 hv (by rw [hp]; simp)
  have getv : ∀ x, x ≠ v → w2.vals.get x = w.vals.get x := fun x hx => by
    rw [hvals, upd_get, if_neg hx]
  have getvv : w2.vals.get v = some { val with index := i } := by
    rw [hvals, upd_get, if_pos rfl]
  constructor
  · intro e' en' h1
    rw [henums] at h1
    obtain ⟨hn, hm⟩ := h.enumVals _ en' h1
    refine ⟨hn, fun x hx => ?_⟩
    rw [getv x (fun e1 => hnot _ _ h1 (e1 ▸ hx))]
    exact hm x hx
  · intro x val' e' h1 h2
    rw [henums]
    by_cases hx : x = v
    · subst hx
      rw [getvv] at h1; injection h1 with h1; subst h1
      simp only [hp] at h2
      cases h2
    · rw [getv x hx] at h1; exact h.valParent x val' e' h1 h2
  · intro e' en' h1
    rw [henums] at h1
    rw [List.map_congr_left (fun x hx => hIne x (fun e1 => hnot _ _ h1 (e1 ▸ hx)))]
    exact h.valIdx _ _ h1
  · intro e' en' h1
    rw [henums] at h1
    rw [hN']
    exact h.valNames _ _ h1
  · intro e' en' h1
    rw [henums] at h1
    rw [trueMaxIndex_congr (fun x hx => hIne x (fun e1 => hnot _ _ h1 (e1 ▸ hx)))]
    exact h.enumMax _ _ h1

/-- only `minSize` / `refs` of enum entries change -/
theorem InvV.enumsCore {w : W} (h : InvV w) (w2 : W) (hvals : w2.vals = w.vals)
    (henums : ∀ e, (w2.enums.get e).map (fun en => (en.values, en.maxIndex)) =
                   (w.enums.get e).map (fun en => (en.values, en.maxIndex))) : InvV w2 :=
  InvV.congr (fun _ => by rw [hvals]) henums h

theorem InvV.removeValue {w : W} (h : InvV w) {e v : Nat} {en : EnumE} {val : ValE}
    (he : w.enums.get e = some en) (hin : v ∈ en.values) (hv : w.vals.get v = some val)
    (w2 : W) (hvals : w2.vals = upd w.vals v { val with parent := none })
    (mx : Int) (hmx1 : val.index = en.maxIndex → mx = trueMaxIndex w2 (en.values.erase v))
    (hmx2 : val.index ≠ en.maxIndex → mx = en.maxIndex)
    (henums : w2.enums = upd w.enums e { en with values := en.values.erase v, maxIndex := mx }) : InvV w2 := by
  have hp : val.parent = some e := h.mem_parent he hin hv
  have hI : ∀ x, valIndex w2 x = valIndex w x := fun x => valIndex_congr (by
    rw [hvals, upd_get]; by_cases hx : x = v <;> simp [hx, hv])
  have hN : ∀ x, valName w2 x = valName w x := fun x => valName_congr (by
    rw [hvals, upd_get]; by_cases hx : x = v <;> simp [hx, hv])
  have hI' : valIndex w2 = valIndex w := funext hI
  have hN' : valName w2 = valName w := funext hN
  obtain ⟨hn, hm⟩ := h.enumVals e en he
  have hnot : ∀ e' en', e' ≠ e → w.enums.get e' = some en' → v ∉ en'.values :=
    fun e' en' hne h1 => h.notin_of_parent h1 hv (by
      rw [hp]; intro e1; injection e1 with e1; exact hne e1.symm)
  have get2 : ∀ e' en', w2.enums.get e' = some en' →
      (e' = e ∧ en' = { en with values := en.values.erase v, maxIndex := mx }) ∨
      (e' ≠ e ∧ w.enums.get e' = some en') := by
    intro e' en' h1
    rw [henums, upd_get] at h1
    by_cases hee : e' = e
    · rw [if_pos hee] at h1; injection h1 with h1; exact Or.inl ⟨hee, h1.symm⟩
    · rw [if_neg hee] at h1; exact Or.inr ⟨hee, h1⟩
  have getv : ∀ x, x ≠ v → w2.vals.get x = w.vals.get x := fun x hx => by
    rw [hvals, upd_get, if_neg hx]
  have getvv : w2.vals.get v = some { val with parent := none } := by
    rw [hvals, upd_get, if_pos rfl]
  have merase : ∀ x, x ∈ en.values.erase v ↔ x ≠ v ∧ x ∈ en.values := fun x => hn.mem_erase_iff
  have hsub : (en.values.erase v).Sublist en.values := List.erase_sublist
  constructor
  · intro e' en' h1
    rcases get2 e' en' h1 with ⟨rfl, rfl⟩ | ⟨hne, h2⟩
    · refine ⟨hn.erase v, fun x hx => ?_⟩
      obtain ⟨hxv, hxin⟩ := (merase x).1 hx
      rw [getv x hxv]; exact hm x hxin
    · obtain ⟨hn', hm'⟩ := h.enumVals _ en' h2
      refine ⟨hn', fun x hx => ?_⟩
      rw [getv x (fun e1 => hnot _ _ hne h2 (e1 ▸ hx))]
      exact hm' x hx
  · intro x val' e' h1 h2
    by_cases hx : x = v
    · subst hx
      rw [getvv] at h1; injection h1 with h1; subst h1
      cases h2
    · rw [getv x hx] at h1
      obtain ⟨en', h3, h4⟩ := h.valParent x val' e' h1 h2
      by_cases hee : e' = e
      · subst hee; rw [he] at h3; injection h3 with h3; subst h3
        have h7 : w2.enums.get e' = some { en with values := en.values.erase v, maxIndex := mx } := by
          rw [henums, upd_get, if_pos rfl]
        exact ⟨_, h7, (merase x).2 ⟨hx, h4⟩⟩
      · exact ⟨en', by rw [henums, upd_get, if_neg hee]; exact h3, h4⟩
  · intro e' en' h1
    rw [hI']
    rcases get2 e' en' h1 with ⟨rfl, rfl⟩ | ⟨hne, h2⟩
    · exact (h.valIdx _ en he).sublist (hsub.map _)
    · exact h.valIdx _ _ h2
  · intro e' en' h1
    rw [hN']
    rcases get2 e' en' h1 with ⟨rfl, rfl⟩ | ⟨hne, h2⟩
    · exact (h.valNames _ en he).sublist (hsub.map _)
    · exact h.valNames _ _ h2
  · intro e' en' h1
    rcases get2 e' en' h1 with ⟨rfl, rfl⟩ | ⟨hne, h2⟩
    · simp only
      by_cases hc : val.index = en.maxIndex
      · exact hmx1 hc
      · rw [hmx2 hc, trueMaxIndex_congr (fun x _ => hI x), h.enumMax _ en he]
        apply Int.le_antisymm
        · rcases trueMaxIndex_attained w en.values with h0 | ⟨x, hx, hxe⟩
          · rw [h0]; exact trueMaxIndex_nonneg _ _
          · have hxv : x ≠ v := by
              intro e1
              subst e1
              rw [valIndex_of_get hv, ← h.enumMax _ en he] at hxe
              exact hc hxe
            rw [← hxe]
            exact valIndex_le_trueMax w ((merase x).2 ⟨hxv, hx⟩)
        · exact trueMaxIndex_sublist_le w hsub
    · rw [trueMaxIndex_congr (fun x _ => hI x)]
      exact h.enumMax _ _ h2

theorem InvV.removeAll {w : W} (h : InvV w) {e : Nat} {en : EnumE} (he : w.enums.get e = some en)
    (w2 : W) (hvals : w2.vals = clearValParents w.vals en.values)
    (henums : w2.enums = upd w.enums e { en with values := [], maxIndex := 0 }) : InvV w2 := by
  have hget : ∀ x, w2.vals.get x =
      (w.vals.get x).map (fun v => if x ∈ en.values then { v with parent := none } else v) := by
    intro x; rw [hvals, clearValParents_get]
  have hI : ∀ x, valIndex w2 x = valIndex w x := fun x => valIndex_congr (by
    rw [hget]; cases w.vals.get x with
    | none => rfl
    | some v0 => by_cases hx : x ∈ en.values <;> simp [hx])
  have hN : ∀ x, valName w2 x = valName w x := fun x => valName_congr (by
    rw [hget]; cases w.vals.get x with
    | none => rfl
    | some v0 => by_cases hx : x ∈ en.values <;> simp [hx])
  have hI' : valIndex w2 = valIndex w := funext hI
  have hN' : valName w2 = valName w := funext hN
  have get2 : ∀ e' en', w2.enums.get e' = some en' →
      (e' = e ∧ en' = { en with values := [], maxIndex := 0 }) ∨
      (e' ≠ e ∧ w.enums.get e' = some en') := by
    intro e' en' h1
    rw [henums, upd_get] at h1
    by_cases hee : e' = e
    · rw [if_pos hee] at h1; injection h1 with h1; exact Or.inl ⟨hee, h1.symm⟩
    · rw [if_neg hee] at h1; exact Or.inr ⟨hee, h1⟩
  have getv : ∀ x, x ∉ en.values → w2.vals.get x = w.vals.get x := fun x hx => by
    rw [hget]; cases w.vals.get x <;> simp [hx]
  constructor
  · intro e' en' h1
    rcases get2 e' en' h1 with ⟨rfl, rfl⟩ | ⟨hne, h2⟩
    · exact ⟨List.nodup_nil, fun x hx => by cases hx⟩
    · obtain ⟨hn', hm'⟩ := h.enumVals _ en' h2
      refine ⟨hn', fun x hx => ?_⟩
      obtain ⟨val0, h3, h4, h5⟩ := hm' x hx
      have hxn : x ∉ en.values := h.notin_of_parent he h3 (by
        rw [h4]; intro e1; injection e1 with e1; exact hne e1)
      rw [getv x hxn]
      exact ⟨val0, h3, h4, h5⟩
  · intro x val' e' h1 h2
    by_cases hx : x ∈ en.values
    · exfalso
      rw [hget] at h1
      cases hg : w.vals.get x with
      | none => rw [hg] at h1; cases h1
      | some v0 =>
        rw [hg] at h1
        simp only [Option.map_some, if_pos hx, Option.some.injEq] at h1
        subst h1
        cases h2
    · rw [getv x hx] at h1
      obtain ⟨en', h3, h4⟩ := h.valParent x val' e' h1 h2
      have hee : e' ≠ e := by
        intro e1; subst e1
        rw [he] at h3; injection h3 with h3; subst h3
        exact hx h4
      exact ⟨en', by rw [henums, upd_get, if_neg hee]; exact h3, h4⟩
  · intro e' en' h1
    rw [hI']
    rcases get2 e' en' h1 with ⟨rfl, rfl⟩ | ⟨hne, h2⟩
    · exact List.nodup_nil
    · exact h.valIdx _ _ h2
  · intro e' en' h1
    rw [hN']
    rcases get2 e' en' h1 with ⟨rfl, rfl⟩ | ⟨hne, h2⟩
    · exact List.nodup_nil
    · exact h.valNames _ _ h2
  · intro e' en' h1
    rcases get2 e' en' h1 with ⟨rfl, rfl⟩ | ⟨hne, h2⟩
    · rfl
    · rw [trueMaxIndex_congr (fun x _ => hI x)]
      exact h.enumMax _ _ h2

/-! ### C. operations that only touch the `vals` store -/

/-- a new value without parent -/
theorem InvV.newValue {w : W} (h : InvV w) {v : Nat} (hv : w.vals.get v = none) (val : ValE)
    (hp : val.parent = none) (w2 : W) (hvals : w2.vals = upd w.vals v val) (henums : w2.enums = w.enums) :
    InvV w2 := by
  have hIne : ∀ x, x ≠ v → valIndex w2 x = valIndex w x := fun x hx => valIndex_congr (by
    rw [hvals, upd_get, if_neg hx])
  have hNne : ∀ x, x ≠ v → valName w2 x = valName w x := fun x hx => valName_congr (by
    rw [hvals, upd_get, if_neg hx])
  have hnot : ∀ e' en', w.enums.get e' = some en' → v ∉ en'.values :=
    fun e' en' h1 => h.notin_of_none h1 hv
  have getv : ∀ x, x ≠ v → w2.vals.get x = w.vals.get x := fun x hx => by
    rw [hvals, upd_get, if_neg hx]
  have getvv : w2.vals.get v = some val := by
    rw [hvals, upd_get, if_pos rfl]
  constructor
  · intro e' en' h1
    rw [henums] at h1
    obtain ⟨hn, hm⟩ := h.enumVals _ en' h1
    refine ⟨hn, fun x hx => ?_⟩
    rw [getv x (fun e1 => hnot _ _ h1 (e1 ▸ hx))]
    exact hm x hx
  · intro x val' e' h1 h2
    rw [henums]
    by_cases hx : x = v
    · subst hx
      rw [getvv] at h1; injection h1 with h1; subst h1
      rw [hp] at h2
      cases h2
    · rw [getv x hx] at h1; exact h.valParent x val' e' h1 h2
  · intro e' en' h1
    rw [henums] at h1
    rw [List.map_congr_left (fun x hx => hIne x (fun e1 => hnot _ _ h1 (e1 ▸ hx)))]
    exact h.valIdx _ _ h1
  · intro e' en' h1
    rw [henums] at h1
    rw [List.map_congr_left (fun x hx => hNne x (fun e1 => hnot _ _ h1 (e1 ▸ hx)))]
    exact h.valNames _ _ h1
  · intro e' en' h1
    rw [henums] at h1
    rw [trueMaxIndex_congr (fun x hx => hIne x (fun e1 => hnot _ _ h1 (e1 ▸ hx)))]
    exact h.enumMax _ _ h1

/-- renaming a value to a name that does not occur in its enum (if it has one) -/
theorem InvV.rename {w : W} (h : InvV w) {v : Nat} {val : ValE} (name : String)
    (hv : w.vals.get v = some val)
    (hfree : ∀ e en, val.parent = some e → w.enums.get e = some en → hasValName w en.values name = false)
    (w2 : W) (hvals : w2.vals = upd w.vals v { val with name := name }) (henums : w2.enums = w.enums) :
    InvV w2 := by
  have hI : ∀ x, valIndex w2 x = valIndex w x := fun x => valIndex_congr (by
    rw [hvals, upd_get]; by_cases hx : x = v <;> simp [hx, hv])
  have hI' : valIndex w2 = valIndex w := funext hI
  have hNne : ∀ x, x ≠ v → valName w2 x = valName w x := fun x hx => valName_congr (by
    rw [hvals, upd_get, if_neg hx])
  have hNv : valName w2 v = name := by simp [valName, hvals]
  have getv : ∀ x, x ≠ v → w2.vals.get x = w.vals.get x := fun x hx => by
    rw [hvals, upd_get, if_neg hx]
  have getvv : w2.vals.get v = some { val with name := name } := by
    rw [hvals, upd_get, if_pos rfl]
  constructor
  · intro e' en' h1
    rw [henums] at h1
    obtain ⟨hn, hm⟩ := h.enumVals _ en' h1
    refine ⟨hn, fun x hx => ?_⟩
    by_cases hxv : x = v
    · subst hxv
      obtain ⟨val0, h3, h4, h5⟩ := hm x hx
      rw [hv] at h3; injection h3 with h3; subst h3
      exact ⟨_, getvv, h4, h5⟩
    · rw [getv x hxv]; exact hm x hx
  · intro x val' e' h1 h2
    rw [henums]
    by_cases hx : x = v
    · subst hx
      rw [getvv] at h1; injection h1 with h1; subst h1
      exact h.valParent x val e' hv h2
    · rw [getv x hx] at h1; exact h.valParent x val' e' h1 h2
  · intro e' en' h1
    rw [henums] at h1
    rw [hI']
    exact h.valIdx _ _ h1
  · intro e' en' h1
    rw [henums] at h1
    by_cases hin : v ∈ en'.values
    · have hp := h.mem_parent h1 hin hv
      have hfr := hasValName_false (hfree e' en' hp h1)
      refine nodup_map_update (v := v) (h.valNames _ en' h1) (fun x _ hx => hNne x hx) ?_
      intro x hx
      rw [hNv]
      exact hfr x hx
    · rw [List.map_congr_left (fun x hx => hNne x (fun e1 => hin (e1 ▸ hx)))]
      exact h.valNames _ _ h1
  · intro e' en' h1
    rw [henums] at h1
    rw [trueMaxIndex_congr (fun x _ => hI x)]
    exact h.enumMax _ _ h1

/-- operations that only write the `vals` store keep everything but the value group -/
theorem inv_of_vals {w w1 : W} (h : Inv w) (ht : w1.types = w.types) (he : w1.enums = w.enums)
    (hs : w1.sigs = w.sigs) (hm : w1.msgs = w.msgs) (hV : InvV w1) : Inv w1 := by
  obtain ⟨hw, hf⟩ := wf_fresh_frame (w' := w1) h.toWF h.toFresh (fun m msg' h1 =>
    Or.inl ⟨by rw [← hm]; exact h1, fun i _ =>
      slotBeAt_of_get (by rw [hs]) (fun sg _ => sizeOf_struct sg ht he)⟩)
  exact Inv.ofParts hV
    (InvS.congr (fun _ => by rw [ht]) (fun _ => by rw [hs]) (fun _ => by rw [hm]) (fun _ => by rw [he]) h.toS)
    hw hf

theorem inv_valNew (w : W) (v : Nat) (name : String) (index : Int) (h : Inv w) :
    Inv (step w (.valNew v name index)).1 := by
  simp only [step]
  split
  · exact h
  · rename_i hnone
    have hvn : w.vals.get v = none := by simpa using hnone
    generalize hw1 : ({ w with vals := upd w.vals v { name := name, index := index } } : W) = w1
    have ht : w1.types = w.types := by rw [← hw1]
    have he : w1.enums = w.enums := by rw [← hw1]
    have hs : w1.sigs = w.sigs := by rw [← hw1]
    have hm : w1.msgs = w.msgs := by rw [← hw1]
    have hvals : w1.vals = upd w.vals v { name := name, index := index } := by rw [← hw1]
    exact inv_of_vals h ht he hs hm (h.toV.newValue hvn _ rfl w1 hvals he)

theorem inv_valRename (w : W) (v : Nat) (name : String) (h : Inv w) :
    Inv (step w (.valRename v name)).1 := by
  simp only [step]
  cases hv : w.vals.get v with
  | none => exact h
  | some val =>
    simp only
    split
    · exact h
    · cases hp : val.parent with
      | none =>
        simp only
        have hvals : upd w.vals v { name := name, index := val.index, parent := none } =
            upd w.vals v { val with name := name } := by rw [hp]
        refine inv_of_vals h rfl rfl rfl rfl (h.toV.rename name hv ?_ _ hvals rfl)
        intro e en hpe
        rw [hp] at hpe
        cases hpe
      | some e =>
        simp only
        cases hen : w.enums.get e with
        | none => exact h
        | some en =>
          simp only
          split
          · exact h
          · rename_i hfreeName
            have hvals : upd w.vals v { name := name, index := val.index, parent := some e } =
                upd w.vals v { val with name := name } := by rw [hp]
            refine inv_of_vals h rfl rfl rfl rfl (h.toV.rename name hv ?_ _ hvals rfl)
            intro e' en' hpe hen'
            rw [hp] at hpe
            injection hpe with hpe
            subst hpe
            rw [hen] at hen'
            injection hen' with hen'
            subst hen'
            simpa using hfreeName

end Acme.Payload
