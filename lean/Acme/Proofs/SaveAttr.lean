/-
Round trip of attributes and attribute assignments.
-/
import Acme.Proofs.SaveBasic

namespace Acme.Save
open List

/-! ## enum attribute values -/

theorem dedupFirst_of_nodup (l : List String) (h : l.Nodup) : dedupFirst l = l := by
  induction l with
  | nil => rfl
  | cons x xs ih =>
    rw [List.nodup_cons] at h
    simp only [dedupFirst, ih h.2]
    congr 1
    rw [List.filter_eq_self]
    intro y hy
    simpa using fun he : y = x => h.1 (he ▸ hy)

theorem enumOrder_of_mem (vs : List String) (d : String) (h : d ∈ vs) :
    enumOrder vs d = d :: vs.filter (fun v => v != d) := by
  simp [enumOrder, h]

theorem nodup_enumOrder (vs : List String) (d : String) (hn : vs.Nodup) :
    (d :: vs.filter (fun v => v != d)).Nodup := by
  rw [List.nodup_cons]
  refine ⟨?_, hn.filter _⟩
  simp

theorem attrWf_enm {e : Ent} {vs : List String} {d : String} (h : attrWf ⟨e, .enm vs d⟩ = true) :
    vs.Nodup ∧ d ∈ vs := by
  simpa [attrWf, nodupB] using h

theorem loadAttr_saveAttr (a : Attr) (h : attrWf a = true) : loadAttr (saveAttr a) = .ok (normAttr a) := by
  obtain ⟨e, k⟩ := a
  cases k with
  | str => rfl
  | int => rfl
  | flt => rfl
  | enm vs d =>
    obtain ⟨hn, hd⟩ := attrWf_enm h
    simp only [saveAttr, loadAttr, normAttr]
    rw [enumOrder_of_mem vs d hd, dedupFirst_of_nodup _ (nodup_enumOrder vs d hn)]
    rfl

theorem loadAttrs_map (l : List Attr) (h : ∀ a ∈ l, attrWf a = true) :
    loadAttrs (l.map saveAttr) = .ok (l.map normAttr) := by
  induction l with
  | nil => rfl
  | cons x xs ih =>
    simp only [List.map_cons, loadAttrs, loadAttr_saveAttr x (h x (by simp)),
      ih (fun a ha => h a (by simp [ha]))]

/-! ## assignments -/

/-- the loader's attribute table holds the normal form of every attribute of the network -/
def AttrRel (t T : Tbl) : Prop := ∀ id a, t.attr id = some a → T.attr id = some (normAttr a)

theorem asgsWf_iff (t : Tbl) (asg : List Asg) (h : asgsWf t asg = true) :
    (asg.map (·.attr)).Nodup ∧
    ∀ a ∈ asg, ∃ x, t.attr a.attr = some x ∧ (∀ vs d, x.kind = .enm vs d → a.val ∈ vs) := by
  simp only [asgsWf, nodupB, Bool.and_eq_true, decide_eq_true_eq, List.all_eq_true] at h
  refine ⟨h.1, fun a ha => ?_⟩
  have := h.2 a ha
  cases hx : t.attr a.attr with
  | none => simp [hx] at this
  | some x =>
    refine ⟨x, rfl, fun vs d hk => ?_⟩
    simpa [hx, hk] using this

theorem asgFits_norm (a : Attr) (val : String) (h : ∀ vs d, a.kind = .enm vs d → val ∈ vs) :
    asgFits (normAttr a).kind (tagOfKind a.kind) val = true := by
  obtain ⟨e, k⟩ := a
  cases k with
  | str => rfl
  | int => rfl
  | flt => rfl
  | enm vs d =>
    have hv := h vs d rfl
    simp only [normAttr, asgFits, tagOfKind, beq_self_eq_true, Bool.true_and, List.contains_eq_mem,
      List.mem_cons, List.mem_filter, decide_eq_true_eq]
    by_cases hd : val = d
    · exact Or.inl hd
    · exact Or.inr ⟨hv, by simpa using hd⟩

theorem tagOfKind_lt (k : AttrKind) : ¬ tagOfKind k ≥ 3 := by
  cases k <;> simp [tagOfKind]

theorem loadAsgs_map {t T : Tbl} (hr : AttrRel t T) (owner : Id) (l : List Asg)
    (hn : (l.map (·.attr)).Nodup)
    (hw : ∀ a ∈ l, ∃ x, t.attr a.attr = some x ∧ (∀ vs d, x.kind = .enm vs d → a.val ∈ vs)) :
    loadAsgs T (l.map fun a => { owner := owner, attr := a.attr, tag := t.asgTag a.attr, val := a.val }) = .ok l := by
  induction l with
  | nil => rfl
  | cons x xs ih =>
    simp only [List.map_cons, List.nodup_cons] at hn
    obtain ⟨a, ha, hv⟩ := hw x (by simp)
    have htag : t.asgTag x.attr = tagOfKind a.kind := by simp [Tbl.asgTag, ha]
    simp only [List.map_cons, loadAsgs, hr _ _ ha, htag]
    rw [if_neg (tagOfKind_lt a.kind), if_pos (asgFits_norm a x.val hv),
      ih hn.2 (fun b hb => hw b (by simp [hb]))]
    have : xs.any (fun y => y.attr == x.attr) = false := by
      rw [Bool.eq_false_iff]
      intro hc
      rw [List.any_eq_true] at hc
      obtain ⟨y, hy, hk⟩ := hc
      exact hn.1 (List.mem_map.mpr ⟨y, hy, by simpa using hk⟩)
    simp [this]

theorem loadAsgs_saveAsgs {t T : Tbl} (hr : AttrRel t T) (owner : Id) (asg : List Asg)
    (h : asgsWf t asg = true) :
    loadAsgs T (saveAsgs t owner asg) = .ok (sortBy (asgLe t) asg) := by
  obtain ⟨hn, hw⟩ := asgsWf_iff t asg h
  exact loadAsgs_map hr owner _ (nodup_map_sortBy _ _ hn) (fun a ha => hw a (mem_sortBy.mp ha))

end Acme.Save
