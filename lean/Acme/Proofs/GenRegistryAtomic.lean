/-
Translator stage 13: C06's atomicity read off the GENERATED code — every translated method that
returns an error returns the heap it was given.  No model, no hypothesis: plain case analysis of
the generated definitions (induction for the loops).
-/
import Acme.Proofs.GenRegistry

namespace Acme.GenR
open Acme Acme.Graph Acme.RegSem Acme.Gen

macro "err_unch" : tactic =>
  `(tactic| ((try dsimp only) <;> (repeat' split) <;> (intro hr; simp_all)))

theorem Bus_UpdateName_err (h : H) (b : Nat) (n : String) (h' : H) (e : R.Err) :
    R.Bus_UpdateName h b n = .val (h', some e) → h' = h := by
  unfold R.Bus_UpdateName; err_unch

theorem RemoveNI_loop_noerr (b x : Nat) (y : Option Nat) (z : Option R.Err) (ms : List Nat) :
    ∀ (h h' : H) (e : R.Err), R.Bus_RemoveNodeInterface_loop1 h b x y z ms ≠ .val (h', some e) := by
  induction ms with
  | nil => intro h h' e; simp [R.Bus_RemoveNodeInterface_loop1, R.Bus_RemoveNodeInterface_after1]
  | cons m ms ih =>
    intro h h' e
    simp only [R.Bus_RemoveNodeInterface_loop1]
    (try dsimp only) <;> (repeat' split) <;> intro hr <;> first | exact ih _ _ _ hr | simp_all

theorem Bus_RemoveNodeInterface_err (h : H) (b x : Nat) (h' : H) (e : R.Err) :
    R.Bus_RemoveNodeInterface h b x = .val (h', some e) → h' = h := by
  unfold R.Bus_RemoveNodeInterface
  (try dsimp only) <;> (repeat' split) <;> intro hr <;> first | exact absurd hr (RemoveNI_loop_noerr _ _ _ _ _ _ _ _) | simp_all

theorem AddNI_loop2_noerr (b ni : Nat) (nd : Option Nat) (ms : List Nat) (acc : GoMap Nat Nat) (ord : List Nat)
    (l : List (Nat × Nat)) :
    ∀ (h h' : H) (e : R.Err), R.Bus_AddNodeInterface_loop2 h b ni nd ms acc ord l ≠ .val (h', some e) := by
  induction l with
  | nil =>
    intro h h' e
    simp only [R.Bus_AddNodeInterface_loop2, R.Bus_AddNodeInterface_after2]
    (try dsimp only) <;> (repeat' split) <;> intro hr <;> simp_all
  | cons p l ih =>
    intro h h' e hr
    obtain ⟨c, m⟩ := p
    revert hr
    simp only [R.Bus_AddNodeInterface_loop2]
    (try dsimp only) <;> (repeat' split) <;> intro hr <;> first | exact ih _ _ _ hr | simp_all

theorem AddNI_loop1_err (b ni : Nat) (nd : Option Nat) (ms : List Nat) (ord : List Nat) (l : List Nat) :
    ∀ (acc : GoMap Nat Nat) (h h' : H) (e : R.Err),
      R.Bus_AddNodeInterface_loop1 h b ni nd ms acc ord l = .val (h', some e) → h' = h := by
  induction l with
  | nil =>
    intro acc h h' e hr
    simp only [R.Bus_AddNodeInterface_loop1, R.Bus_AddNodeInterface_after1] at hr
    exact absurd hr (AddNI_loop2_noerr _ _ _ _ _ _ _ _ _ _)
  | cons m l ih =>
    intro acc h h' e
    simp only [R.Bus_AddNodeInterface_loop1]
    (try dsimp only) <;> (repeat' split) <;> intro hr <;> first | exact ih _ _ _ _ hr | simp_all

theorem Bus_AddNodeInterface_err (h : H) (b : Nat) (ni : Option Nat) (ord : List Nat) (h' : H) (e : R.Err) :
    R.Bus_AddNodeInterface h b ni ord = .val (h', some e) → h' = h := by
  unfold R.Bus_AddNodeInterface
  (try dsimp only) <;> (repeat' split) <;> intro hr <;> first | exact AddNI_loop1_err _ _ _ _ _ _ _ _ _ _ hr | simp_all

theorem NodeInterface_AddSentMessage_err (h : H) (ni : Nat) (m : Option Nat) (h' : H) (e : R.Err) :
    R.NodeInterface_AddSentMessage h ni m = .val (h', some e) → h' = h := by
  unfold R.NodeInterface_AddSentMessage; err_unch

theorem NodeInterface_RemoveSentMessage_err (h : H) (ni : Nat) (m : Nat) (h' : H) (e : R.Err) :
    R.NodeInterface_RemoveSentMessage h ni m = .val (h', some e) → h' = h := by
  unfold R.NodeInterface_RemoveSentMessage; err_unch

theorem NodeInterface_addReceivedMessage_err (h : H) (ni : Nat) (m : Option Nat) (h' : H) (e : R.Err) :
    R.NodeInterface_addReceivedMessage h ni m = .val (h', some e) → h' = h := by
  unfold R.NodeInterface_addReceivedMessage; err_unch

theorem NodeInterface_AddReceivedMessage_err (h : H) (ni : Nat) (m : Option Nat) (h' : H) (e : R.Err) :
    R.NodeInterface_AddReceivedMessage h ni m = .val (h', some e) → h' = h := by
  unfold R.NodeInterface_AddReceivedMessage
  split
  · intro hr; simp_all
  · split
    · intro hr; simp at hr
    · intro hr; simp at hr
    · rename_i a _ h1 v heq
      have := fun e' => NodeInterface_addReceivedMessage_err h ni (some a) h1 e'
      (try dsimp only) <;> (repeat' split) <;> intro hr <;> simp_all

theorem NodeInterface_RemoveReceivedMessage_err (h : H) (ni : Nat) (m : Nat) (h' : H) (e : R.Err) :
    R.NodeInterface_RemoveReceivedMessage h ni m = .val (h', some e) → h' = h := by
  unfold R.NodeInterface_RemoveReceivedMessage; err_unch

theorem UpdName_loop2_noerr (n : Nat) (nm : String) (bs l : List (Option Nat)) :
    ∀ (h h' : H) (e : R.Err), R.Node_UpdateName_loop2 h n nm bs l ≠ .val (h', some e) := by
  induction l with
  | nil =>
    intro h h' e
    simp only [R.Node_UpdateName_loop2, R.Node_UpdateName_after2]
    (try dsimp only) <;> (repeat' split) <;> intro hr <;> simp_all
  | cons p l ih =>
    intro h h' e
    simp only [R.Node_UpdateName_loop2]
    (try dsimp only) <;> (repeat' split) <;> intro hr <;> first | exact ih _ _ _ hr | simp_all

theorem UpdName_loop1_err (n : Nat) (nm : String) (l : List (Option Nat)) :
    ∀ (bs : List (Option Nat)) (h h' : H) (e : R.Err),
      R.Node_UpdateName_loop1 h n nm bs l = .val (h', some e) → h' = h := by
  induction l with
  | nil =>
    intro bs h h' e hr
    simp only [R.Node_UpdateName_loop1, R.Node_UpdateName_after1] at hr
    exact absurd hr (UpdName_loop2_noerr _ _ _ _ _ _ _)
  | cons m l ih =>
    intro bs h h' e
    simp only [R.Node_UpdateName_loop1]
    (try dsimp only) <;> (repeat' split) <;> intro hr <;> first | exact ih _ _ _ _ hr | simp_all

theorem Node_UpdateName_err (h : H) (n : Nat) (nm : String) (h' : H) (e : R.Err) :
    R.Node_UpdateName h n nm = .val (h', some e) → h' = h := by
  unfold R.Node_UpdateName
  (try dsimp only) <;> (repeat' split) <;> intro hr <;> first | exact UpdName_loop1_err _ _ _ _ _ _ _ hr | simp_all

theorem UpdID_loop2_noerr (n : Nat) (nid : Nat) (bs l : List (Option Nat)) :
    ∀ (h h' : H) (e : R.Err), R.Node_UpdateID_loop2 h n nid bs l ≠ .val (h', some e) := by
  induction l with
  | nil =>
    intro h h' e
    simp only [R.Node_UpdateID_loop2, R.Node_UpdateID_after2]
    (try dsimp only) <;> (repeat' split) <;> intro hr <;> simp_all
  | cons p l ih =>
    intro h h' e
    simp only [R.Node_UpdateID_loop2]
    (try dsimp only) <;> (repeat' split) <;> intro hr <;> first | exact ih _ _ _ hr | simp_all

theorem UpdID_loop1_err (n : Nat) (nid : Nat) (l : List (Option Nat)) :
    ∀ (bs : List (Option Nat)) (h h' : H) (e : R.Err),
      R.Node_UpdateID_loop1 h n nid bs l = .val (h', some e) → h' = h := by
  induction l with
  | nil =>
    intro bs h h' e hr
    simp only [R.Node_UpdateID_loop1, R.Node_UpdateID_after1] at hr
    exact absurd hr (UpdID_loop2_noerr _ _ _ _ _ _ _)
  | cons m l ih =>
    intro bs h h' e
    simp only [R.Node_UpdateID_loop1]
    (try dsimp only) <;> (repeat' split) <;> intro hr <;> first | exact ih _ _ _ _ hr | simp_all

theorem Node_UpdateID_err (h : H) (n : Nat) (nid : Nat) (h' : H) (e : R.Err) :
    R.Node_UpdateID h n nid = .val (h', some e) → h' = h := by
  unfold R.Node_UpdateID
  (try dsimp only) <;> (repeat' split) <;> intro hr <;> first | exact UpdID_loop1_err _ _ _ _ _ _ _ hr | simp_all

end Acme.GenR
