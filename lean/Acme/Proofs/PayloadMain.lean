/-
Payload world, part I: the theorems used by Acme.Props.C01World.
-/
import Acme.Proofs.PayloadErr
import Acme.Proofs.PayloadMsg2
import Acme.Proofs.PayloadNew
import Acme.Proofs.PayloadEnum

namespace Acme.Payload
open Acme.Layout Acme.Bits Acme.Arith

/-- The invariant is preserved by every admissible operation. -/
theorem inv_step (w : W) (op : Op) (h : Inv w) (hop : OpOK w op) : Inv (step w op).1 := by
  cases op with
  | typeNew t size => exact inv_typeNew w t size h
  | enumNew e => exact inv_enumNew w e h
  | valNew v name index => exact inv_valNew w v name index h
  | enumAddValue e v => exact inv_enumAddValue w e v h
  | enumRemoveValue e v => exact inv_enumRemoveValue w e v h
  | enumRemoveAll e => exact inv_enumRemoveAll w e h
  | enumSetMinSize e k => exact inv_enumSetMinSize w e k h
  | valSetIndex v i => exact inv_valSetIndex w v i h
  | valRename v name => exact inv_valRename w v name h
  | sigNewStd s name t => exact inv_sigNewStd w s name t h
  | sigNewEnum s name e => exact inv_sigNewEnum w s name e h
  | sigNewMux s name gc gs => exact inv_sigNewMux w s name gc gs h
  | sigSetType s t => exact inv_sigSetType w s t h
  | sigSetEnum s e => exact inv_sigSetEnum w s e h hop
  | sigRename s name => exact inv_sigRename w s name h
  | msgNew m k => exact inv_msgNew w m k h hop
  | msgAppend m s => exact inv_msgAppend w m s h hop
  | msgInsert m s st => exact inv_msgInsert w m s st h hop
  | msgRemove m s => exact inv_msgRemove w m s h
  | msgRemoveAll m => exact inv_msgRemoveAll w m h
  | msgCompact m => exact inv_msgCompact w m h
  | msgShiftL m s a => exact inv_msgShiftL w m s a h
  | msgShiftR m s a => exact inv_msgShiftR w m s a h
  | msgResize m k => exact inv_msgResize w m k h
  | msgSetByteOrder m be => exact inv_msgSetByteOrder w m be h

theorem inv_init : Inv ({} : W) := by
  constructor <;> intros <;> simp_all [AMap.get]

theorem reach_inv (w : W) (h : Reach w) : Inv w := by
  induction h with
  | init => exact inv_init
  | step w op _ hop ih => exact inv_step w op ih hop

theorem reach_wf (w : W) (h : Reach w) (m : Nat) (msg : MsgE) (hm : w.msgs.get m = some msg) :
    WF msg.cap (slotsOf w msg.layout) ∧ msg.cap = msg.sizeByte * 8 :=
  ⟨(reach_inv w h).wf m msg hm, ((reach_inv w h).msgCap m msg hm).1⟩

theorem reach_fresh (w : W) (h : Reach w) (m : Nat) (msg : MsgE) (hm : w.msgs.get m = some msg) :
    msg.filters = genFilters (slotsBe w msg.layout) :=
  (reach_inv w h).fresh m msg hm

theorem reach_enum_width (w : W) (h : Reach w) (e : Nat) (en : EnumE) (he : w.enums.get e = some en) :
    en.maxIndex = trueMaxIndex w en.values ∧ 0 ≤ en.maxIndex ∧
    enumSizeOf en = enumSize en.minSize (trueMaxIndex w en.values) := by
  have hmax := (reach_inv w h).enumMax e en he
  refine ⟨hmax, ?_, ?_⟩
  · rw [hmax]; exact trueMaxIndex_nonneg w _
  · unfold enumSizeOf; rw [hmax]

theorem reach_keys (w : W) (h : Reach w) :
    (∀ m msg, w.msgs.get m = some msg → (msg.layout.map (sigName w)).Nodup) ∧
    (∀ e en, w.enums.get e = some en →
        (en.values.map (valIndex w)).Nodup ∧ (en.values.map (valName w)).Nodup) :=
  ⟨(reach_inv w h).names, fun e en he => ⟨(reach_inv w h).valIdx e en he, (reach_inv w h).valNames e en he⟩⟩

theorem step_nopanic_inv (w : W) (h : Inv w) (op : Op) : (step w op).2 ≠ .panic := by
  cases op with
  | typeNew t size => exact nopanic_typeNew w t size
  | enumNew e => exact nopanic_enumNew w e
  | valNew v name index => exact nopanic_valNew w v name index
  | enumAddValue e v => exact nopanic_enumAddValue w h e v
  | enumRemoveValue e v => exact nopanic_enumRemoveValue w e v
  | enumRemoveAll e => exact nopanic_enumRemoveAll w e
  | enumSetMinSize e k => exact nopanic_enumSetMinSize w h e k
  | valSetIndex v i => exact nopanic_valSetIndex w h v i
  | valRename v name => exact nopanic_valRename w v name
  | sigNewStd s name t => exact nopanic_sigNewStd w s name t
  | sigNewEnum s name e => exact nopanic_sigNewEnum w s name e
  | sigNewMux s name gc gs => exact nopanic_sigNewMux w s name gc gs
  | sigSetType s t => exact nopanic_sigSetType w h s t
  | sigSetEnum s e => exact nopanic_sigSetEnum w h s e
  | sigRename s name => exact nopanic_sigRename w s name
  | msgNew m k => exact nopanic_msg w h _ trivial
  | msgAppend m s => exact nopanic_msg w h _ trivial
  | msgInsert m s st => exact nopanic_msg w h _ trivial
  | msgRemove m s => exact nopanic_msg w h _ trivial
  | msgRemoveAll m => exact nopanic_msg w h _ trivial
  | msgCompact m => exact nopanic_msg w h _ trivial
  | msgShiftL m s a => exact nopanic_msg w h _ trivial
  | msgShiftR m s a => exact nopanic_msg w h _ trivial
  | msgResize m k => exact nopanic_msg w h _ trivial
  | msgSetByteOrder m be => exact nopanic_msg w h _ trivial

theorem step_nopanic (w : W) (h : Reach w) (op : Op) (_hop : OpOK w op) : (step w op).2 ≠ .panic :=
  step_nopanic_inv w (reach_inv w h) op

theorem insert_iff (w : W) (h : Reach w) (m s : Nat) (st : Int) (msg : MsgE) (sg : SigE)
    (hm : w.msgs.get m = some msg) (hs : w.sigs.get s = some sg) (hp : sg.parent = none) :
    ((step w (.msgInsert m s st)).2 = .ok [] ↔
      hasSigName w msg.layout sg.name = false ∧ 0 ≤ st ∧ st + sizeOf w sg ≤ msg.cap ∧
      RangeFree (slotsOf w msg.layout) st (sizeOf w sg)) :=
  insert_iff_inv w (reach_inv w h) m s st msg sg hm hs hp

theorem setType_iff (w : W) (h : Reach w) (s t m : Nat) (sg : SigE) (ty : TypeE) (msg : MsgE)
    (told : Nat) (hs : w.sigs.get s = some sg) (hk : sg.kind = .std told) (ht : w.types.get t = some ty)
    (hp : sg.parent = some m) (hm : w.msgs.get m = some msg) :
    ((step w (.sigSetType s t)).2 = .ok [] ↔
      ty.size - sizeOf w sg ≤ freeBehind msg.cap (slotsOf w msg.layout) s) :=
  setType_iff_inv w (reach_inv w h) s t m sg ty msg told hs hk ht hp hm

end Acme.Payload
