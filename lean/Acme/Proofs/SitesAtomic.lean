/-
Tie B for C06: the regenerated inventory of "error return reachable after a mutation"
(Acme.Gen.atomicSites, written by /verif/tools/extract/atomic.go from /repo's current source)
is exactly the hand-classified table.  A mutator that interleaves its checks with its commits
(verify-and-commit per bus / per group in one loop), or that fails after it has started to
change the model, appears as a new entry and breaks this theorem.
-/
import Acme.Gen.AtomicSites
import Acme.Expect.Sites

namespace Acme.Sites

theorem atomicSites_expected : Acme.Gen.atomicSites = Acme.Expect.atomicSites.map (·.1) := by decide

end Acme.Sites
