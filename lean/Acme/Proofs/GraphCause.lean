/-
Graph part of C06: the decision logic of a representative set of mutators, stated
outright — an operation answers `err c` exactly when its documented precondition is
violated, and `c` is the documented cause.  The conditions are read off the indexes
through the views; by C04 (`Acme.Props.C04`) "the index has the key" is "an entity of the
container currently carries the key".
-/
import Acme.Proofs.Graph

namespace Acme.Graph

theorem busStaticClash_iff (B : AMap BusE) (pb : Option Nat) (c : Nat) :
    busStaticClash B pb c = true ↔ ∃ b, pb = some b ∧ (busStaticIDs B b).get c ≠ none := by
  cases pb with
  | none => simp
  | some b => simp

theorem busStaticClash_false_iff (B : AMap BusE) (pb : Option Nat) (c : Nat) :
    busStaticClash B pb c = false ↔ ∀ b, pb = some b → (busStaticIDs B b).get c = none := by
  cases pb with
  | none => simp
  | some b => simp

macro "cause_auto" : tactic =>
  `(tactic| ((repeat' split) <;> simp_all <;> (first | exact eq_comm | grind)))

/-- `Network.AddBus`: nil bus → `ErrIsNil`; bus name taken in the network → `ErrIsDuplicated` -/
theorem cause_netAddBus (g : G) (n b : Nat) (c : Cause) :
    (step g (.netAddBus n b)).2 = .err c ↔
      g.nets.get n ≠ none ∧
      ((g.buses.get b = none ∧ c = .nil) ∨
       (∃ nm, busName g.buses b = some nm ∧ busParent g.buses b = none ∧
          (netBusNames g.nets n).get nm ≠ none ∧ c = .duplicated)) := by
  simp only [step]
  unfold stepNetAddBus busName busParent netBusNames
  cause_auto

/-- `Bus.UpdateName`: new name taken in the parent network → `ErrIsDuplicated` -/
theorem cause_busRename (g : G) (b : Nat) (name : String) (c : Cause) :
    (step g (.busRename b name)).2 = .err c ↔
      c = .duplicated ∧ ∃ cur n, busName g.buses b = some cur ∧ cur ≠ name ∧ busParent g.buses b = some n ∧
        (netBusNames g.nets n).get name ≠ none := by
  simp only [step]
  unfold stepBusRename busName busParent netBusNames
  cause_auto

/-- `Message.UpdateName`: new name taken among the messages sent by the sender interface →
`ErrIsDuplicated` -/
theorem cause_msgRename (g : G) (m : Nat) (name : String) (c : Cause) :
    (step g (.msgRename m name)).2 = .err c ↔
      c = .duplicated ∧ ∃ cur i, msgName g.msgs m = some cur ∧ cur ≠ name ∧ msgSender g.msgs m = some i ∧
        (ifaceSentNames g.ifaces i).get name ≠ none := by
  simp only [step]
  unfold stepMsgRename msgName msgSender ifaceSentNames
  cause_auto

/-- `Message.UpdateID`: new id taken among the generated-CAN-ID messages of the sender
interface → `ErrIsDuplicated` (no change requested = same id and no static CAN-ID) -/
theorem cause_msgSetId (g : G) (m mid : Nat) (c : Cause) :
    (step g (.msgSetId m mid)).2 = .err c ↔
      c = .duplicated ∧ ∃ i, msgSender g.msgs m = some i ∧
        ¬ (msgMid g.msgs m = some mid ∧ msgStatic g.msgs m = none) ∧
        (ifaceSentIDs g.ifaces i).get mid ≠ none := by
  simp only [step]
  unfold stepMsgSetId msgMid msgStatic msgSender ifaceSentIDs
  cause_auto

/-- `Message.SetStaticCANID`: static CAN-ID taken in the sender interface or on its bus →
`ErrIsDuplicated` -/
theorem cause_msgSetStatic (g : G) (m cid : Nat) (c : Cause) :
    (step g (.msgSetStatic m cid)).2 = .err c ↔
      c = .duplicated ∧ ∃ i, msgSender g.msgs m = some i ∧
        ((ifaceSentStatic g.ifaces i).get cid ≠ none ∨
         ∃ b, ifaceBus g.ifaces i = some b ∧ (busStaticIDs g.buses b).get cid ≠ none) := by
  simp only [step]
  unfold stepMsgSetStatic msgSender ifaceSentStatic ifaceBus
  repeat' split
  all_goals simp_all [busStaticClash_iff, busStaticClash_false_iff]
  all_goals first | exact eq_comm | grind

/-- `Message.UpdateSizeByte`: negative → `ErrIsNegative`; more than 8 bytes while the sender
interface is attached to a (CAN 2.0A) bus → `ErrTooBig` -/
theorem cause_msgResize (g : G) (m : Nat) (k : Int) (c : Cause) :
    (step g (.msgResize m k)).2 = .err c ↔
      ∃ msg, g.msgs.get m = some msg ∧
        ((k < 0 ∧ c = .negative) ∨
         (0 ≤ k ∧ msg.sizeByte ≠ k ∧ 8 < k ∧ (∃ i b, msg.sender = some i ∧ ifaceBus g.ifaces i = some b) ∧
            c = .tooBig)) := by
  simp only [step]
  unfold stepMsgResize ifaceBus busSizeOK
  dsimp only
  cases hm : g.msgs.get m with
  | none => simp
  | some msg =>
    simp only [Option.some.injEq, exists_eq_left']
    by_cases hk : k < 0
    · simp [hk]; constructor
      · intro e; exact Or.inl e.symm
      · rintro (e | e)
        · exact e.symm
        · omega
    · have hk0 : 0 ≤ k := by omega
      by_cases hsz : msg.sizeByte = k
      · simp [hk, hsz]
      · cases hs : msg.sender with
        | none => simp [hk, hsz]
        | some i =>
          cases hi : g.ifaces.get i with
          | none => simp [hk, hsz, hi]
          | some ifc =>
            cases hp : ifc.parentBus with
            | none => simp [hk, hsz, hi, hp]
            | some b =>
              by_cases h8 : 8 < k
              · have : ¬ k ≤ 8 := by omega
                simp [hk, hsz, hi, hp, h8, this, hk0]; exact eq_comm
              · have : k ≤ 8 := by omega
                simp [hk, hsz, hi, hp, h8, this]

/-- `Node.UpdateName`: new name taken on a bus the node is attached to → `ErrIsDuplicated` -/
theorem cause_nodeRename (g : G) (n : Nat) (name : String) (c : Cause) :
    (step g (.nodeRename n name)).2 = .err c ↔
      c = .duplicated ∧ ∃ nd, g.nodes.get n = some nd ∧ nd.name ≠ name ∧
        ∃ b, b ∈ attachedBuses g nd.ifaces ∧ (busNodeNames g.buses b).get name ≠ none := by
  simp only [step]
  unfold stepNodeRename busNodeNames
  dsimp only
  repeat' split
  all_goals simp_all
  all_goals first | exact eq_comm | grind

/-- `Node.UpdateID`: new node id taken on a bus the node is attached to → `ErrIsDuplicated` -/
theorem cause_nodeSetId (g : G) (n nid : Nat) (c : Cause) :
    (step g (.nodeSetId n nid)).2 = .err c ↔
      c = .duplicated ∧ ∃ nd, g.nodes.get n = some nd ∧ nd.nid ≠ nid ∧
        ∃ b, b ∈ attachedBuses g nd.ifaces ∧ (busNodeIDs g.buses b).get nid ≠ none := by
  simp only [step]
  unfold stepNodeSetId busNodeIDs
  dsimp only
  repeat' split
  all_goals simp_all
  all_goals first | exact eq_comm | grind

/-- the documented value check of `AssignAttribute`: an `int` value needs an integer
attribute (`ErrInvalidType`) and must lie in its range (`ErrOutOfBounds`); a `float64`
value needs a float attribute (none in this model: `ErrInvalidType`); a `string` value
is accepted by a string attribute, must be one of the values of an enum attribute
(`ErrNotFound`) and is refused by an integer attribute (`ErrInvalidType`) -/
def valueError : AVal → AttrKind → Option Cause
  | .int i, .int mn mx => if i < mn ∨ i > mx then some .outOfBounds else none
  | .int _, .str => some .invalidType
  | .int _, .enm _ => some .invalidType
  | .flt, _ => some .invalidType
  | .str _, .str => none
  | .str s, .enm vs => if s ∈ vs then none else some .notFound
  | .str _, .int _ _ => some .invalidType

/-- `AssignAttribute`: nil attribute → `ErrIsNil`; otherwise the value check above -/
theorem cause_assign (g : G) (k : EKind) (x a : Nat) (v : AVal) (c : Cause) :
    (step g (.assign k x a v)).2 = .err c ↔
      getAttrs g k x ≠ none ∧
      ((g.attrs.get a = none ∧ c = .nil) ∨
       (∃ att, g.attrs.get a = some att ∧ valueError v att.kind = some c)) := by
  simp only [step]
  unfold stepAssign
  cases hga : getAttrs g k x with
  | none => simp
  | some r =>
    simp only [ne_eq, reduceCtorEq, not_false_eq_true, true_and]
    cases haa : g.attrs.get a with
    | none => simp; exact eq_comm
    | some att =>
      simp only [reduceCtorEq, false_and, Option.some.injEq, exists_eq_left', false_or]
      cases v <;> cases hk : att.kind <;> simp [valueError] <;> (try split) <;> simp_all <;>
        (first | exact eq_comm | grind)

/-- `NodeInterface.AddSentMessage`, the checks in their order: nil message → `ErrIsNil`;
message already received by the interface → `ErrReceiverIsSender`; name taken →
`ErrIsDuplicated`; more than 8 bytes on an attached interface → `ErrTooBig`; static CAN-ID
taken in the interface or on its bus, resp. message id taken among the generated-CAN-ID
messages → `ErrIsDuplicated` -/
theorem cause_ifaceAddSent (g : G) (i m : Nat) (c : Cause) :
    (step g (.ifaceAddSent i m)).2 = .err c ↔
      ∃ ifc, g.ifaces.get i = some ifc ∧
        ((g.msgs.get m = none ∧ c = .nil) ∨
         ∃ msg, g.msgs.get m = some msg ∧ msg.sender = none ∧
           ((ifc.received.get m ≠ none ∧ c = .receiverIsSender) ∨
            (ifc.received.get m = none ∧ ifc.sentNames.get msg.name ≠ none ∧ c = .duplicated) ∨
            (ifc.received.get m = none ∧ ifc.sentNames.get msg.name = none ∧
               (∃ b, ifc.parentBus = some b ∧ g.buses.get b ≠ none) ∧ 8 < msg.sizeByte ∧ c = .tooBig) ∨
            (ifc.received.get m = none ∧ ifc.sentNames.get msg.name = none ∧
               ¬ ((∃ b, ifc.parentBus = some b ∧ g.buses.get b ≠ none) ∧ 8 < msg.sizeByte) ∧
               ((∃ cid, msg.static = some cid ∧
                   (ifc.sentStatic.get cid ≠ none ∨
                    ∃ b, ifc.parentBus = some b ∧ (busStaticIDs g.buses b).get cid ≠ none)) ∨
                (msg.static = none ∧ ifc.sentIDs.get msg.mid ≠ none)) ∧
               c = .duplicated))) := by
  simp only [step]
  unfold stepIfaceAddSent busSizeOK
  dsimp only
  cases hi : g.ifaces.get i with
  | none => simp
  | some ifc =>
    simp only [Option.some.injEq, exists_eq_left']
    cases hm : g.msgs.get m with
    | none => simp; exact eq_comm
    | some msg =>
      simp only [reduceCtorEq, false_and, Option.some.injEq, exists_eq_left', false_or]
      cases hs : msg.sender with
      | some x => simp
      | none =>
        simp only [Option.isSome_none, Bool.false_eq_true, ↓reduceIte, true_and]
        by_cases hr : ifc.received.get m = none
        · by_cases hn : ifc.sentNames.get msg.name = none
          · cases hp : ifc.parentBus with
            | none =>
              cases hst : msg.static with
              | none => by_cases hid : ifc.sentIDs.get msg.mid = none <;> simp [hr, hn, hid] <;> exact eq_comm
              | some cid =>
                by_cases hss : ifc.sentStatic.get cid = none <;> simp [hr, hn, hss] <;> exact eq_comm
            | some b =>
              cases hb : g.buses.get b with
              | none =>
                have hbs : (busStaticIDs g.buses b).get = fun _ => none := by
                  funext k; rw [busStaticIDs_of_none hb]; rfl
                cases hst : msg.static with
                | none => by_cases hid : ifc.sentIDs.get msg.mid = none <;> simp [hr, hn, hid, hb] <;> exact eq_comm
                | some cid =>
                  by_cases hss : ifc.sentStatic.get cid = none <;> simp [hr, hn, hss, hb, hbs] <;> exact eq_comm
              | some bus =>
                by_cases h8 : 8 < msg.sizeByte
                · have : ¬ msg.sizeByte ≤ 8 := by omega
                  simp [hr, hn, hb, h8, this]; exact eq_comm
                · have h8' : msg.sizeByte ≤ 8 := by omega
                  cases hst : msg.static with
                  | none =>
                    by_cases hid : ifc.sentIDs.get msg.mid = none <;> simp [hr, hn, hid, hb, h8, h8'] <;> exact eq_comm
                  | some cid =>
                    by_cases hss : ifc.sentStatic.get cid = none <;>
                      by_cases hbc : (busStaticIDs g.buses b).get cid = none <;>
                      simp [hr, hn, hss, hb, h8, h8', hbc] <;> exact eq_comm
          · simp [hr, hn]; exact eq_comm
        · simp [hr]; exact eq_comm

/-- one of the messages sent by the interface is larger than a CAN 2.0A bus accepts -/
def sendsTooBig (g : G) (ifc : IfaceE) : Prop :=
  ∃ m msg, m ∈ ifc.sent.vals ∧ g.msgs.get m = some msg ∧ 8 < msg.sizeByte

/-- one of the static CAN-IDs sent by the interface is taken on the bus -/
def sendsClash (g : G) (bus : BusE) (ifc : IfaceE) : Prop :=
  ∃ p, p ∈ staticOf g ifc.sent.vals ∧ bus.staticIDs.get p.1 ≠ none

/-- `Bus.AddNodeInterface`: nil interface → `ErrIsNil`; node name taken → `ErrIsDuplicated`;
node id taken → `ErrIsDuplicated`; a sent message too big → `ErrTooBig`; a sent static
CAN-ID taken on the bus → `ErrIsDuplicated`.  (When BOTH an oversize message and a clashing
static CAN-ID are present the Go code reports whichever its map iteration meets first;
the statement is for the other cases.) -/
theorem cause_busAddIface (g : G) (b i : Nat) (c : Cause)
    (hnd : ∀ bus ifc, g.buses.get b = some bus → g.ifaces.get i = some ifc →
      ¬ (sendsTooBig g ifc ∧ sendsClash g bus ifc)) :
    (step g (.busAddIface b i)).2 = .err c ↔
      ∃ bus, g.buses.get b = some bus ∧
        ((g.ifaces.get i = none ∧ c = .nil) ∨
         ∃ ifc, g.ifaces.get i = some ifc ∧ ifc.parentBus = none ∧
           ((bus.nodeNames.get (nodeNameC g.nodes ifc.node) ≠ none ∧ c = .duplicated) ∨
            (bus.nodeNames.get (nodeNameC g.nodes ifc.node) = none ∧
               bus.nodeIDs.get (nodeNidC g.nodes ifc.node) ≠ none ∧ c = .duplicated) ∨
            (bus.nodeNames.get (nodeNameC g.nodes ifc.node) = none ∧
               bus.nodeIDs.get (nodeNidC g.nodes ifc.node) = none ∧ sendsTooBig g ifc ∧ c = .tooBig) ∨
            (bus.nodeNames.get (nodeNameC g.nodes ifc.node) = none ∧
               bus.nodeIDs.get (nodeNidC g.nodes ifc.node) = none ∧ sendsClash g bus ifc ∧ c = .duplicated))) := by
  simp only [step]
  unfold stepBusAddIface
  dsimp only
  cases hb : g.buses.get b with
  | none => simp
  | some bus =>
    simp only [Option.some.injEq, exists_eq_left']
    cases hi : g.ifaces.get i with
    | none => simp; exact eq_comm
    | some ifc =>
      have hnd' := hnd bus ifc hb hi
      simp only [reduceCtorEq, false_and, Option.some.injEq, exists_eq_left', false_or]
      have hTB : (ifc.sent.vals.any (fun m => match g.msgs.get m with | some e => !busSizeOK e.sizeByte | none => false)) = true
          ↔ sendsTooBig g ifc := by
        unfold sendsTooBig busSizeOK
        rw [List.any_eq_true]
        constructor
        · rintro ⟨m, hm, hx⟩
          cases hg : g.msgs.get m with
          | none => simp [hg] at hx
          | some e => simp [hg] at hx; exact ⟨m, e, hm, hg, by omega⟩
        · rintro ⟨m, e, hm, hg, h8⟩
          exact ⟨m, hm, by simp [hg]; omega⟩
      have hCL : ((staticOf g ifc.sent.vals).any (fun p => bus.staticIDs.has p.1)) = true ↔ sendsClash g bus ifc := by
        unfold sendsClash
        rw [List.any_eq_true]
        constructor
        · rintro ⟨p, hp, hx⟩; exact ⟨p, hp, by simpa using hx⟩
        · rintro ⟨p, hp, hx⟩; exact ⟨p, hp, by simpa using hx⟩
      generalize (ifc.sent.vals.any (fun m => match g.msgs.get m with | some e => !busSizeOK e.sizeByte | none => false)) = TB at hTB ⊢
      generalize ((staticOf g ifc.sent.vals).any (fun p => bus.staticIDs.has p.1)) = CL at hCL ⊢
      cases hp : ifc.parentBus with
      | some x => simp
      | none =>
        simp only [Option.isSome_none, Bool.false_eq_true, ↓reduceIte, nodeName_eq, nodeNid_eq, true_and]
        by_cases hn : bus.nodeNames.get (nodeNameC g.nodes ifc.node) = none
        · by_cases hd : bus.nodeIDs.get (nodeNidC g.nodes ifc.node) = none
          · by_cases tb : sendsTooBig g ifc
            · have cl : ¬ sendsClash g bus ifc := fun cl => hnd' ⟨tb, cl⟩
              have t1 : TB = true := hTB.2 tb
              have c1 : CL = false := by cases hc : CL with | false => rfl | true => exact absurd (hCL.1 hc) cl
              simp [hn, hd, t1, c1, tb, cl]; exact eq_comm
            · have t1 : TB = false := by cases hc : TB with | false => rfl | true => exact absurd (hTB.1 hc) tb
              by_cases cl : sendsClash g bus ifc
              · have c1 : CL = true := hCL.2 cl
                simp [hn, hd, t1, c1, tb, cl]; exact eq_comm
              · have c1 : CL = false := by cases hc : CL with | false => rfl | true => exact absurd (hCL.1 hc) cl
                simp [hn, hd, t1, c1, tb, cl]
          · simp [hn, hd]; exact eq_comm
        · simp [hn]; exact eq_comm

theorem find_idx' {l : List Nat} {p : Nat → Bool} {i : Nat} (h : l.find? p = some i) :
    i ∈ l ∧ p i = true := ⟨List.mem_of_find?_eq_some h, List.find?_some h⟩

/-- `Node.RemoveInterface` in a reachable world: negative number → `ErrIsNegative`; number
not below the interface count → `ErrOutOfBounds`; nothing else fails (detaching the
interface from its bus always succeeds) -/
theorem cause_nodeRemoveIface {g : G} (h : Inv g) (n : Nat) (k : Int) (c : Cause) :
    (step g (.nodeRemoveIface n k)).2 = .err c ↔
      ∃ nd, g.nodes.get n = some nd ∧
        ((k < 0 ∧ c = .negative) ∨ (0 ≤ k ∧ nd.ifaceCount ≤ k ∧ c = .outOfBounds)) := by
  simp only [step]
  unfold stepNodeRemoveIface
  cases hn : g.nodes.get n with
  | none => simp
  | some nd =>
    simp only [Option.some.injEq, exists_eq_left']
    by_cases hk : k < 0
    · simp [hk]; constructor
      · intro e; exact Or.inl e.symm
      · rintro (e | e)
        · exact e.symm
        · omega
    · have hk0 : 0 ≤ k := by omega
      by_cases hc : k ≥ nd.ifaceCount
      · simp [hk, hc, hk0]; exact eq_comm
      · have hc' : ¬ nd.ifaceCount ≤ k := by omega
        simp only [hk, ↓reduceIte, hc, false_and, hk0, hc', or_self, iff_false]
        cases hf : nd.ifaces.find? (fun i => match g.ifaces.get i with | some e => e.number = k | none => false) with
        | none => simp
        | some i =>
          simp only
          cases hi : g.ifaces.get i with
          | none => simp
          | some ifc =>
            simp only
            cases hp : ifc.parentBus with
            | none => simp
            | some b =>
              have hmem := (find_idx' hf).1
              have e1 : nodeIfaces g.nodes n = nd.ifaces := nodeIfaces_of_get hn
              have hnode : ifc.node = n := by
                have := h.node.nd (e1 ▸ hmem)
                rw [ifaceNode_of_get hi] at this; exact Option.some.inj this
              obtain ⟨g', hg', _, _⟩ := busRemoveIfaceCore_ok h hi hp
              rw [hnode] at hg'
              simp [hg']

end Acme.Graph
