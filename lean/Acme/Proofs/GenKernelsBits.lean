/-
The generated `generateFilters` (signal_layout.go; Acme/Gen/Kernels.lean) equals the hand-written
`Acme.Bits.genFilters`, for ALL layouts — including sizes and start positions for which the Go
`int` shifts wrap: only the low 8 bits of a mask survive `uint8(mask)`, and those agree with the
model's unbounded `Nat` arithmetic (`mask1`, `mask0`, `maskShl255`, `maskShr255` below).
-/
import Acme.Gen.Kernels
import Acme.Core.Bits

namespace Acme.GenK

open Acme.Gen Acme.Layout Acme.Bits Acme.GoSem

/-! ### `uint8(..)` of 64-bit `int` shifts = the model's `u8` of `Nat` shifts -/

theorem ofInt8_toInt (x : BitVec 64) : BitVec.ofInt 8 x.toInt = x.setWidth 8 := by
  apply BitVec.eq_of_toNat_eq
  simp [BitVec.toNat_ofInt, BitVec.toInt_eq_toNat_bmod, Int.bmod]
  omega

theorem setWidth8_shl (x : BitVec 64) (n : Nat) : (x <<< n).setWidth 8 = x.setWidth 8 <<< n := by
  ext i hi
  simp [BitVec.getElem_setWidth]

theorem setWidth8_ofInt (a : Int) : (BitVec.ofInt 64 a).setWidth 8 = BitVec.ofInt 8 a := by
  apply BitVec.eq_of_toNat_eq
  simp [BitVec.toNat_ofInt]
  omega

/-- truncation to 8 bits commutes with the 64-bit left shift of a Go `int` -/
theorem ofInt8_intShl (a : Int) (n : Nat) : BitVec.ofInt 8 (intShl a n) = BitVec.ofInt 8 a <<< n := by
  unfold intShl
  rw [ofInt8_toInt, setWidth8_shl, setWidth8_ofInt]

theorem toNat_shl8 (x : BitVec 8) (n : Nat) : (x <<< n).toNat = (x.toNat * 2 ^ n) % 256 := by
  simp [BitVec.toNat_shiftLeft, Nat.shiftLeft_eq]

theorem ofInt8_pow_sub_one (s : Nat) :
    (BitVec.ofInt 8 (intShl 1 s - 1)).toNat = (2 ^ s - 1) % 256 := by
  have h1 : (BitVec.ofInt 8 (intShl 1 s)).toNat = 2 ^ s % 256 := by
    rw [ofInt8_intShl, toNat_shl8]; simp
  have hp : 0 < 2 ^ s := Nat.two_pow_pos s
  simp [BitVec.toNat_ofInt] at h1 ⊢
  omega

/-- `uint8(1<<s - 1)` -/
theorem mask0 (s : Nat) : (BitVec.ofInt 8 (intShl 1 s - 1)).toNat = u8 (1 <<< s - 1) := by
  rw [ofInt8_pow_sub_one]
  simp [u8, Nat.shiftLeft_eq]

/-- `uint8((1<<s - 1) << o)` -/
theorem mask1 (s o : Nat) :
    (BitVec.ofInt 8 (intShl (intShl 1 s - 1) o)).toNat = u8 ((1 <<< s - 1) <<< o) := by
  rw [ofInt8_intShl, toNat_shl8, ofInt8_pow_sub_one]
  simp only [u8, Nat.shiftLeft_eq, Nat.one_mul]
  rw [Nat.mul_mod, Nat.mod_mod, ← Nat.mul_mod]

/-- `uint8(0xff << t)` -/
theorem maskShl255 (t : Nat) : (BitVec.ofInt 8 (intShl 255 t)).toNat = u8 (0xff <<< t) := by
  rw [ofInt8_intShl, toNat_shl8]
  simp [u8, Nat.shiftLeft_eq]

/-- `0xff >> t` on a Go `int` -/
theorem intShr255 (t : Nat) : intShr 255 t = ((255 >>> t : Nat) : Int) := by
  unfold intShr
  have hm : (BitVec.ofInt 64 255).msb = false := by decide
  rw [BitVec.sshiftRight_eq_of_msb_false hm]
  have hlt : (BitVec.ofInt 64 255 >>> t).toNat = 255 >>> t := by
    simp [BitVec.toNat_ushiftRight]
  have hle : 255 >>> t ≤ 255 := Nat.shiftRight_le _ _
  rw [BitVec.toInt_eq_toNat_cond, hlt]
  have : 2 * (255 >>> t) < 2 ^ 64 := by omega
  simp [this]

/-- `uint8(0xff >> t)` -/
theorem maskShr255 (t : Nat) : (BitVec.ofInt 8 (intShr 255 t)).toNat = u8 (0xff >>> t) := by
  rw [intShr255, BitVec.ofInt_natCast, BitVec.toNat_ofNat]
  rfl

/-! ### the loops -/

theorem genFilters_loop2_eq (sigs : List (Slot × Bool)) (sl : Slot) (be : Bool) (sigSize startPos first last : Int)
    (fuel : Nat) (filters : List Filter) (i rem : Int) :
    (K.generateFilters_loop2 sigs filters (sl, be) sigSize startPos (if be then 1 else 0) first last rem i fuel).1 =
      filters ++ multiLoop sl.id be startPos first last fuel i rem := by
  cases be <;>
  (induction fuel generalizing filters i rem with
  | zero => simp [K.generateFilters_loop2, multiLoop]
  | succ fuel ih =>
    unfold K.generateFilters_loop2 multiLoop
    simp only [Bool.false_eq_true, if_false, if_true] at ih
    dsimp only
    by_cases h1 : i ≠ first ∧ i ≠ last
    · simp only [h1, and_self, if_true, ne_eq, not_false_eq_true, Bool.false_eq_true, if_false]
      rw [ih]
      simp
    · simp only [h1, if_false]
      by_cases h2 : i = first
      · simp only [h2, if_true, Bool.false_eq_true, if_false, show ¬ ((0 : Int) = 1) by omega]
        rw [ih]
        simp only [maskShr255, maskShl255]
        simp
      · simp only [h2, if_false, if_true, Bool.false_eq_true, show ¬ ((0 : Int) = 1) by omega]
        rw [ih]
        simp only [mask1, mask0]
        simp)

theorem genFilters_loop1_eq (sigs : List (Slot × Bool)) (l : List (Slot × Bool)) (filters : List Filter) :
    K.generateFilters_loop1 sigs filters l = filters ++ genFilters l := by
  induction l generalizing filters with
  | nil => simp [K.generateFilters_loop1, K.generateFilters_after1, genFilters]
  | cons sb rest ih =>
    obtain ⟨s, be⟩ := sb
    unfold K.generateFilters_loop1
    dsimp only
    have hcons : genFilters ((s, be) :: rest) = sigFilters s be ++ genFilters rest := by
      simp [genFilters]
    rw [hcons]
    unfold sigFilters
    dsimp only
    by_cases hf : Int.tdiv s.start 8 = Int.tdiv (s.start + s.size - 1) 8
    · simp only [hf, if_true]
      rw [ih]
      simp only [mask1]
      simp
    · simp only [hf, if_false]
      rw [ih]
      have := genFilters_loop2_eq sigs s be s.size s.start (Int.tdiv s.start 8)
        (Int.tdiv (s.start + s.size - 1) 8) (Int.toNat (Int.tdiv (s.start + s.size - 1) 8 - Int.tdiv s.start 8 + 1))
        filters (Int.tdiv s.start 8) s.size
      rw [this]
      simp

theorem generateFilters_eq (l : List (Slot × Bool)) : K.generateFilters l = genFilters l := by
  unfold K.generateFilters
  simp [genFilters_loop1_eq]

example : K.generateFilters [(⟨1, 0, 4⟩, false), (⟨2, 4, 12⟩, false)] =
    [⟨1, 0, 0x0f, 4, 0, false⟩, ⟨2, 0, 0xf0, 4, 4, false⟩, ⟨2, 1, 0xff, 8, 0, false⟩] := by decide
example : K.generateFilters [(⟨2, 4, 12⟩, true)] =
    [⟨2, 0, 0x0f, 4, 0, true⟩, ⟨2, 1, 0xff, 8, 0, true⟩] := by decide
/- D08: a big-endian signal inside one byte gets the little-endian offset -/
example : K.generateFilters [(⟨1, 2, 3⟩, true)] = [⟨1, 0, 0x1c, 3, 2, true⟩] := by decide

end Acme.GenK
