/-
The image of the scanner, syntactically: the tokens `tokenOK` (Spec/Dbc.lean) accepts are in the
image of the scanner (`lexAlone`) for every kind but the numbers; for numbers `tokenOK` is only
necessary, sufficient shapes are given (`lexAlone_floatShape`, `lexAlone_hex`).
-/
import Acme.Proofs.DbcScanRender

namespace Acme.Dbc.Scan


/-! ## ASCII facts -/

theorem isNumber_ascii {c : Char} (h : c.toNat < 0x80) : isNumber c = c.isDigit := by
  simp [isNumber, h]

theorem isDigit_iff (c : Char) : c.isDigit = true ↔ 48 ≤ c.toNat ∧ c.toNat ≤ 57 := by
  simp only [Char.isDigit, Bool.and_eq_true, decide_eq_true_eq, ge_iff_le, UInt32.le_iff_toNat_le, Char.toNat]
  have h0 : ('0' : Char).val.toNat = 48 := by decide
  have h9 : ('9' : Char).val.toNat = 57 := by decide
  rw [h0, h9]

theorem isAlpha_iff (c : Char) : c.isAlpha = true ↔
    (65 ≤ c.toNat ∧ c.toNat ≤ 90) ∨ (97 ≤ c.toNat ∧ c.toNat ≤ 122) := by
  simp only [Char.isAlpha, Char.isUpper, Char.isLower, Bool.or_eq_true, Bool.and_eq_true, decide_eq_true_eq,
    ge_iff_le, UInt32.le_iff_toNat_le, Char.toNat]
  have h1 : ('A' : Char).val.toNat = 65 := by decide
  have h2 : ('Z' : Char).val.toNat = 90 := by decide
  have h3 : ('a' : Char).val.toNat = 97 := by decide
  have h4 : ('z' : Char).val.toNat = 122 := by decide
  rw [h1, h2, h3, h4]

theorem isLetter_iff (c : Char) : isLetter c = true ↔
    (65 ≤ c.toNat ∧ c.toNat ≤ 90) ∨ (97 ≤ c.toNat ∧ c.toNat ≤ 122) := by
  simp only [isLetter, Bool.or_eq_true, Bool.and_eq_true, decide_eq_true_eq, Char.le_def,
    UInt32.le_iff_toNat_le, Char.toNat]
  have h1 : ('A' : Char).val.toNat = 65 := by decide
  have h2 : ('Z' : Char).val.toNat = 90 := by decide
  have h3 : ('a' : Char).val.toNat = 97 := by decide
  have h4 : ('z' : Char).val.toNat = 122 := by decide
  rw [h1, h2, h3, h4]
  omega

theorem isLetter_eq_isAlpha (c : Char) : isLetter c = c.isAlpha := by
  rw [Bool.eq_iff_iff, isLetter_iff, isAlpha_iff]

theorem isDigit_lt {c : Char} (h : c.isDigit = true) : c.toNat < 0x80 := by
  have := (isDigit_iff c).mp h; omega

theorem isAlpha_lt {c : Char} (h : c.isAlpha = true) : c.toNat < 0x80 := by
  have := (isAlpha_iff c).mp h; omega

theorem char_eq_of_toNat {c d : Char} (h : c.toNat = d.toNat) : c = d := by
  apply Char.ext
  apply UInt32.toNat_inj.mp
  exact h

theorem itemOfChar_ascii {c : Char} (h : c.toNat < 0x80) : itemOfChar c = ⟨c, true⟩ := by
  have h1 : c.utf8Size = 1 := by
    rw [Char.utf8Size_eq_one_iff, UInt32.le_iff_toNat_le]
    have : c.val.toNat = c.toNat := rfl
    rw [this]; simp; omega
  have h2 : c ≠ runeError := by
    intro he; rw [he] at h; revert h; decide
  simp [itemOfChar, h1, h2]


/-! ## words -/


theorem isWordChar_ascii {c : Char} (h : isWordChar c = true) : c.toNat < 0x80 := by
  simp only [isWordChar, Char.isAlphanum, Bool.or_eq_true, beq_iff_eq] at h
  rcases h with (h | h) | h
  · rcases h with h | h
    · exact isAlpha_lt h
    · exact isDigit_lt h
  · rw [h]; decide
  · rw [h]; decide

theorem isWordChar_alnum {c : Char} (h : isWordChar c = true) : isAlphaNumeric c = true := by
  have ha := isWordChar_ascii h
  simp only [isWordChar, Char.isAlphanum, Bool.or_eq_true, beq_iff_eq] at h
  simp only [isAlphaNumeric, isLetter_eq_isAlpha, isNumber_ascii ha, Bool.or_eq_true, beq_iff_eq]
  exact h

theorem muxStepU_eq {c : Char} (h : c.toNat < 0x80) (st : Bool × Bool) : muxStepU st c = muxStep st c := by
  simp [muxStepU, muxStep, isNumber_ascii h]

theorem foldl_muxStepU_eq (cs : List Char) (h : ∀ c ∈ cs, c.toNat < 0x80) : ∀ st : Bool × Bool,
    cs.foldl muxStepU st = cs.foldl muxStep st := by
  induction cs with
  | nil => intro st; rfl
  | cons c cs ih =>
    intro st
    simp only [List.foldl_cons]
    rw [muxStepU_eq (h c (by simp)), ih (fun x hx => h x (by simp [hx]))]

/-- the token kind of a token of the token-level model -/
def kindOfTok : Token → Kind
  | .ident _ => .ident
  | .number _ => .number
  | .numberRange _ => .numberRange
  | .muxIndicator _ => .muxIndicator
  | .string _ => .string
  | .keyword _ => .keyword
  | .punct _ => .punct
  | .eof => .eof
  | .error _ => .error

/-- a word, scanned alone, is read completely and classified as `classifyWord` says -/
theorem scanTok_word (v : String) (hw : isWord v = true) :
    scanTok (itemsOfChars v.toList) =
      { kind := kindOfTok (classifyWord v), raw := v.toList, rest := [] } := by
  cases hv : v.toList with
  | nil => simp [isWord, hv] at hw
  | cons c cs =>
    simp only [isWord, hv, Bool.and_eq_true, List.all_eq_true] at hw
    obtain ⟨hc, hcs⟩ := hw
    have hca := isAlpha_lt hc
    have hL : isLetter c = true := by rw [isLetter_eq_isAlpha]; exact hc
    have hE : isEOF c = false := by
      have := (isAlpha_iff c).mp hc
      simp only [isEOF, beq_eq_false_iff_ne, ne_eq]
      intro he; rw [he] at this; revert this; decide
    have hS : isSpace c = false := by
      have := (isAlpha_iff c).mp hc
      simp only [isSpace, Bool.or_eq_false_iff, beq_eq_false_iff_ne, ne_eq]
      refine ⟨⟨⟨?_, ?_⟩, ?_⟩, ?_⟩ <;> (intro he; rw [he] at this; revert this; decide)
    have hall : ∀ x ∈ itemsOfChars cs, (fun it : Item => isAlphaNumeric it.pk) x = true := by
      intro x hx
      simp only [itemsOfChars, List.mem_map] at hx
      obtain ⟨y, hy, rfl⟩ := hx
      rw [itemOfChar_ascii (isWordChar_ascii (hcs y hy))]
      simpa [Item.pk] using isWordChar_alnum (hcs y hy)
    have htw := tw_append (fun it : Item => isAlphaNumeric it.pk) (itemsOfChars cs) [] hall (by simp)
    rw [List.append_nil] at htw
    have hfold := foldl_muxStepU_eq cs (fun x hx => isWordChar_ascii (hcs x hx)) (c == 'm', false)
    have hvs : String.ofList (c :: cs) = v := by rw [← hv, String.ofList_toList]
    show scanTok (itemOfChar c :: itemsOfChars cs) = _
    unfold scanTok
    simp only [itemOfChar_rd, hE, hS, hL, Bool.false_eq_true, if_false, if_true, scanText, htw.1, htw.2,
      rds_itemsOfChars, hfold, hvs]
    unfold classifyWord
    rw [hv]
    simp only []
    cases cs with
    | nil =>
      cases hM : (c == 'M') <;> cases hK : isKeywordStr v <;> simp [kindOfTok, hM, hK]
    | cons d ds =>
      generalize (List.foldl muxStep (c == 'm', false) (d :: ds)).fst = b
      cases b <;> cases hK : isKeywordStr v <;> simp [kindOfTok, hK]



def keywordList : List String :=
  ["VERSION", "NS_", "BS_", "BU_", "BO_", "BO_TX_BU_", "SG_", "SIG_VALTYPE_", "VAL_TABLE_", "VAL_",
   "EV_", "ENVVAR_DATA_", "SGTYPE_", "SIG_GROUP_", "CM_", "BA_DEF_", "BA_DEF_DEF_", "BA_", "INT", "HEX",
   "FLOAT", "STRING", "ENUM", "SG_MUL_VAL_"]

theorem keyword_mem (v : String) (h : isKeywordStr v = true) : v ∈ keywordList := by
  by_cases hm : v ∈ keywordList
  · exact hm
  · exfalso
    simp only [keywordList, List.mem_cons, List.mem_nil_iff, or_false, not_or] at hm
    simp [isKeywordStr, keywordKind?, hm] at h

theorem keywords_ok : ∀ v ∈ keywordList, isWord v = true ∧ classifyWord v = .keyword v := by decide


theorem mux_fold (rest : List Char) : ∀ st : Bool × Bool, (rest.foldl muxStep st).1 = true →
    st.1 = true ∧ ∀ c ∈ rest, c.isDigit = true ∨ c = 'M' := by
  induction rest with
  | nil => intro st h; exact ⟨h, by simp⟩
  | cons c rest ih =>
    intro st h
    rw [List.foldl_cons] at h
    obtain ⟨h1, h2⟩ := ih _ h
    unfold muxStep at h1
    by_cases hs : st.1 = true
    · refine ⟨hs, ?_⟩
      intro x hx
      rcases List.mem_cons.mp hx with rfl | hx
      · rw [if_pos hs] at h1
        by_cases hd : x.isDigit = true
        · exact Or.inl hd
        · right
          rw [if_neg hd] at h1
          by_cases hm : (!st.2 || x != 'M') = true
          · rw [if_pos hm] at h1; cases h1
          · simp only [Bool.or_eq_true, Bool.not_eq_true', bne_iff_ne, ne_eq, not_or, Decidable.not_not] at hm
            exact hm.2
      · exact h2 x hx
    · rw [if_neg hs] at h1; exact absurd h1 hs

theorem isWord_of_mux (v : String) (h : classifyWord v = .muxIndicator v) : isWord v = true := by
  unfold classifyWord at h
  cases hv : v.toList with
  | nil => rw [hv] at h; cases h
  | cons first rest =>
    rw [hv] at h
    simp only [] at h
    split at h
    · rename_i hc
      simp only [Bool.or_eq_true, Bool.and_eq_true, beq_iff_eq] at hc
      simp only [isWord, hv, Bool.and_eq_true, List.all_eq_true]
      rcases hc with ⟨hst, _⟩ | ⟨hr, hM⟩
      · obtain ⟨h1, h2⟩ := mux_fold rest _ hst
        simp only [beq_iff_eq] at h1
        refine ⟨by rw [h1]; decide, ?_⟩
        intro x hx
        rcases h2 x hx with hd | hM
        · simp [isWordChar, Char.isAlphanum, hd]
        · rw [hM]; decide
      · simp only [List.isEmpty_iff] at hr
        subst hr
        exact ⟨by rw [hM]; decide, by simp⟩
    · split at h <;> cases h

/-! ## `tokenOK` tokens other than numbers are in the image of the scanner -/

theorem lexAlone_of_word (v : String) (t : Token) (hw : isWord v = true) (hc : classifyWord v = t)
    (ht : tokText t = v) (hk : kindOfTok t = .ident ∨ kindOfTok t = .keyword ∨ kindOfTok t = .muxIndicator) :
    lexAlone t = true := by
  have hs := scanTok_word v hw
  unfold lexAlone
  simp only [ht, hs, hc]
  have htok : tokOf (kindOfTok t) "" v.toList = t := by
    rw [← hc]
    unfold classifyWord
    cases hv : v.toList with
    | nil => simp [isWord, hv] at hw
    | cons c cs =>
      have hvs : String.ofList (c :: cs) = v := by rw [← hv, String.ofList_toList]
      simp only []
      split
      · simp [kindOfTok, tokOf, PTok.tok, hvs]
      · split <;> simp [kindOfTok, tokOf, PTok.tok, hvs]
  rcases hk with hk | hk | hk <;> simp [hk] at htok ⊢ <;> exact htok




theorem lexAlone_string (v : String) (h : strOK v = true) : lexAlone (.string v) = true := by
  have htext : (tokText (.string v)).toList = '"' :: (v.toList ++ ['"']) := by simp [tokText]
  have hq : itemOfChar '"' = ⟨'"', true⟩ := by decide
  simp only [strOK, List.all_eq_true, Bool.and_eq_true, bne_iff_ne, ne_eq] at h
  have hall : ∀ x ∈ itemsOfChars v.toList, (fun it : Item => !isEOF it.rd && it.rd != '"') x = true := by
    intro x hx
    simp only [itemsOfChars, List.mem_map] at hx
    obtain ⟨y, hy, rfl⟩ := hx
    have := h y hy
    simp only [itemOfChar_rd, Bool.and_eq_true, Bool.not_eq_true', bne_iff_ne, ne_eq, isEOF, beq_eq_false_iff_ne]
    exact ⟨this.2, this.1⟩
  have htw := tw_append (fun it : Item => !isEOF it.rd && it.rd != '"') (itemsOfChars v.toList)
    [(⟨'"', true⟩ : Item)] hall (by intro a ha; simp at ha; subst ha; decide)
  have hs : scanTok (itemsOfChars ('"' :: (v.toList ++ ['"']))) =
      { kind := .string, raw := '"' :: (v.toList ++ ['"']), rest := [] } := by
    show scanTok (itemOfChar '"' :: itemsOfChars (v.toList ++ ['"'])) = _
    rw [itemsOfChars_append, hq]
    have : itemsOfChars ['"'] = [(⟨'"', true⟩ : Item)] := by simp [itemsOfChars, hq]
    rw [this]
    unfold scanTok
    simp only [show isEOF '"' = false by decide, show isSpace '"' = false by decide,
      show isLetter '"' = false by decide, show (isNumber '"' || '"' == '-' || '"' == '+') = false by decide,
      show ('"' == '"') = true by decide, Bool.false_eq_true, if_false, if_true, scanString, htw.1, htw.2,
      rds_itemsOfChars]
  unfold lexAlone
  simp only [htext, hs]
  simp [tokOf, PTok.tok, List.dropLast_concat]

theorem lexAlone_punct (v : String)
    (h : ["(", ")", "[", "]", ":", ",", "|", ";", "@", "+", "-"].contains v = true) :
    lexAlone (.punct v) = true := by
  simp only [List.contains_eq_mem, List.mem_cons, List.mem_nil_iff, or_false, decide_eq_true_eq] at h
  rcases h with h|h|h|h|h|h|h|h|h|h|h <;> subst h <;> decide

/-- every token `tokenOK` accepts, other than a number (range), `eof` and `error`, is in the image of
the scanner -/
theorem lexAlone_of_tokenOK (t : Token) (h : tokenOK t = true) (hn : isNumTok t = false)
    (he : t ≠ .eof) (her : ∀ v, t ≠ .error v) : lexAlone t = true := by
  cases t with
  | ident v =>
    simp only [tokenOK, identOK, Bool.and_eq_true, decide_eq_true_eq] at h
    exact lexAlone_of_word v _ h.1 h.2 rfl (Or.inl rfl)
  | keyword v =>
    simp only [tokenOK] at h
    have := keywords_ok v (keyword_mem v h)
    exact lexAlone_of_word v _ this.1 this.2 rfl (Or.inr (Or.inl rfl))
  | muxIndicator v =>
    simp only [tokenOK, decide_eq_true_eq] at h
    exact lexAlone_of_word v _ (isWord_of_mux v h) h rfl (Or.inr (Or.inr rfl))
  | string v => exact lexAlone_string v h
  | punct v => exact lexAlone_punct v h
  | number v => simp [isNumTok] at hn
  | numberRange v => simp [isNumTok] at hn
  | eof => exact absurd rfl he
  | error v => exact absurd rfl (her v)

/-! ## numbers: sufficient shapes -/

theorem digit_facts {d : Char} (h : d.isDigit = true) :
    itemOfChar d = ⟨d, true⟩ ∧ isEOF d = false ∧ isNumber d = true ∧ (d == 'x') = false ∧ (d == 'X') = false ∧
    d ≠ '-' ∧ d ≠ '+' ∧ d ≠ '.' := by
  have hr := (isDigit_iff d).mp h
  have hlt := isDigit_lt h
  refine ⟨itemOfChar_ascii hlt, ?_, by rw [isNumber_ascii hlt]; exact h, ?_, ?_, ?_, ?_, ?_⟩
  · simp only [isEOF, beq_eq_false_iff_ne, ne_eq]; intro he; rw [he] at hr; revert hr; decide
  · simp only [beq_eq_false_iff_ne, ne_eq]; intro he; rw [he] at hr; revert hr; decide
  · simp only [beq_eq_false_iff_ne, ne_eq]; intro he; rw [he] at hr; revert hr; decide
  · intro he; rw [he] at hr; revert hr; decide
  · intro he; rw [he] at hr; revert hr; decide
  · intro he; rw [he] at hr; revert hr; decide

/-- one digit: the default branch of the `scanNumber` loop -/
theorem numLoop_digit (f prev : Char) (hm rg : Bool) (pre : List Char) (d : Char) (rest : List Item)
    (hd : d.isDigit = true) :
    numLoop f prev hm rg pre (itemOfChar d :: rest) = numLoop f d true rg (pre ++ [d]) rest := by
  obtain ⟨h1, h2, h3, h4, h5, _, _, h8⟩ := digit_facts hd
  rw [h1]
  conv => lhs; unfold numLoop
  have hdot : (d == '.') = false := by simpa using h8
  simp [Item.pk, h2, h3, h4, h5, hdot]

/-- a run of digits -/
theorem numLoop_digits (f : Char) (rg : Bool) (ds : List Char) (hds : ∀ d ∈ ds, d.isDigit = true) :
    ∀ (prev : Char) (hm : Bool) (pre : List Char) (rest : List Item), ds ≠ [] →
      ∃ p, p.isDigit = true ∧
        numLoop f prev hm rg pre (itemsOfChars ds ++ rest) = numLoop f p true rg (pre ++ ds) rest := by
  induction ds with
  | nil => intro _ _ _ _ h; exact absurd rfl h
  | cons d ds ih =>
    intro prev hm pre rest _
    have hd := hds d (by simp)
    show ∃ p, _ ∧ numLoop f prev hm rg pre (itemOfChar d :: (itemsOfChars ds ++ rest)) = _
    rw [numLoop_digit _ _ _ _ _ _ _ hd]
    cases ds with
    | nil => exact ⟨d, hd, by simp [itemsOfChars]⟩
    | cons e es =>
      obtain ⟨p, hp, heq⟩ := ih (fun x hx => hds x (by simp [hx])) d true (pre ++ [d]) rest (by simp)
      exact ⟨p, hp, by rw [heq]; simp⟩

/-- the dot behind a digit -/
theorem numLoop_dot (f prev : Char) (hm rg : Bool) (pre : List Char) (rest : List Item)
    (hp : prev.isDigit = true) :
    numLoop f prev hm rg pre (itemOfChar '.' :: rest) = numLoop f '.' true rg (pre ++ ['.']) rest := by
  obtain ⟨_, _, _, _, _, h6, h7, _⟩ := digit_facts hp
  have h1 : itemOfChar '.' = ⟨'.', true⟩ := by decide
  rw [h1]
  conv => lhs; unfold numLoop
  have e1 : (prev == '-') = false := by simpa using h6
  have e2 : (prev == '+') = false := by simpa using h7
  simp [Item.pk, show isEOF '.' = false by decide, show isNumber '.' = false by decide, e1, e2]

theorem numLoop_end (f prev : Char) (hm rg : Bool) (pre : List Char) :
    numLoop f prev hm rg pre [] = numFinish f hm rg pre [] := by unfold numLoop; rfl


/-- `[.digits]` behind a digit -/
def FracTail (tail : List Char) : Prop :=
  tail = [] ∨ ∃ fp, tail = '.' :: fp ∧ fp ≠ [] ∧ ∀ d ∈ fp, d.isDigit = true

theorem numFinish_number (f : Char) (hm : Bool) (pre : List Char)
    (hfin : hm = true ∨ (f ≠ '-' ∧ f ≠ '+')) :
    numFinish f hm false pre [] = { kind := .number, raw := pre, rest := [] } := by
  unfold numFinish
  rcases hfin with h | ⟨h1, h2⟩
  · simp [h]
  · simp [h1, h2]

theorem numLoop_tail (f p : Char) (hm : Bool) (pre : List Char) (tail : List Char)
    (hp : p.isDigit = true) (hfin : hm = true ∨ (f ≠ '-' ∧ f ≠ '+')) (ht : FracTail tail) :
    numLoop f p hm false pre (itemsOfChars tail) = { kind := .number, raw := pre ++ tail, rest := [] } := by
  rcases ht with rfl | ⟨fp, rfl, hne, hfp⟩
  · show numLoop f p hm false pre [] = _
    rw [numLoop_end, numFinish_number f hm pre hfin]; simp
  · show numLoop f p hm false pre (itemOfChar '.' :: itemsOfChars fp) = _
    rw [numLoop_dot _ _ _ _ _ _ hp]
    obtain ⟨q, _, heq⟩ := numLoop_digits f false fp hfp '.' true (pre ++ ['.']) [] hne
    rw [List.append_nil] at heq
    rw [heq, numLoop_end, numFinish_number f true _ (Or.inl rfl)]
    simp

theorem numLoop_ip_tail (f prev : Char) (hm : Bool) (pre : List Char) (ip tail : List Char)
    (hip : ∀ d ∈ ip, d.isDigit = true) (hne : ip ≠ []) (ht : FracTail tail) :
    numLoop f prev hm false pre (itemsOfChars (ip ++ tail)) =
      { kind := .number, raw := pre ++ (ip ++ tail), rest := [] } := by
  rw [itemsOfChars_append]
  obtain ⟨q, hq, heq⟩ := numLoop_digits f false ip hip prev hm pre (itemsOfChars tail) hne
  rw [heq, numLoop_tail f q true _ tail hq (Or.inl rfl) ht]
  simp

/-- the decomposition `isFloatShape` describes -/
theorem floatShape_body (body : List Char)
    (h : (match body.dropWhile Char.isDigit with
      | [] => !(body.takeWhile Char.isDigit).isEmpty
      | '.' :: fp => !(body.takeWhile Char.isDigit).isEmpty && !fp.isEmpty && fp.all Char.isDigit
      | _ => false) = true) :
    ∃ ip tail, body = ip ++ tail ∧ ip ≠ [] ∧ (∀ d ∈ ip, d.isDigit = true) ∧ FracTail tail := by
  refine ⟨body.takeWhile Char.isDigit, body.dropWhile Char.isDigit,
    (List.takeWhile_append_dropWhile).symm, ?_, fun d hd => mem_takeWhile_imp hd, ?_⟩
  · split at h
    · simpa using h
    · simp only [Bool.and_eq_true, Bool.not_eq_true', List.isEmpty_eq_false_iff] at h; exact h.1.1
    · cases h
  · split at h
    · rename_i heq; left; exact heq
    · rename_i fp heq
      right
      simp only [Bool.and_eq_true, Bool.not_eq_true', List.isEmpty_eq_false_iff, List.all_eq_true] at h
      exact ⟨fp, heq, h.1.2, h.2⟩
    · cases h

theorem scanTok_number_first (c : Char) (rest : List Item) (h1 : isEOF c = false) (h2 : isSpace c = false)
    (h3 : isLetter c = false) (h4 : (isNumber c || c == '-' || c == '+') = true) (hi : itemOfChar c = ⟨c, true⟩) :
    scanTok (itemOfChar c :: rest) = scanNumber c rest := by
  rw [hi]
  unfold scanTok
  simp [h1, h2, h3, h4]

theorem digit_first {d : Char} (hd : d.isDigit = true) :
    isSpace d = false ∧ isLetter d = false ∧ (isNumber d || d == '-' || d == '+') = true := by
  have hr := (isDigit_iff d).mp hd
  obtain ⟨_, _, h3, _⟩ := digit_facts hd
  refine ⟨?_, ?_, by simp [h3]⟩
  · simp only [isSpace, Bool.or_eq_false_iff, beq_eq_false_iff_ne, ne_eq]
    refine ⟨⟨⟨?_, ?_⟩, ?_⟩, ?_⟩ <;> (intro he; rw [he] at hr; revert hr; decide)
  · cases hl : isLetter d with
    | false => rfl
    | true => have := (isLetter_iff d).mp hl; omega

def stripMinus : List Char → List Char
  | '-' :: r => r
  | r => r

def bodyShape (body : List Char) : Bool :=
  match body.dropWhile Char.isDigit with
  | [] => !(body.takeWhile Char.isDigit).isEmpty
  | '.' :: fp => !(body.takeWhile Char.isDigit).isEmpty && !fp.isEmpty && fp.all Char.isDigit
  | _ => false

theorem isFloatShape_eq (cs : List Char) : isFloatShape cs = bodyShape (stripMinus cs) := by
  unfold isFloatShape bodyShape stripMinus
  rfl

theorem stripMinus_of_ne (c : Char) (r : List Char) (h : c ≠ '-') : stripMinus (c :: r) = c :: r := by
  unfold stripMinus
  split
  · rename_i heq; simp only [List.cons.injEq] at heq; exact absurd heq.1 h
  · rfl

/-- a decimal number text `-?digits(.digits)?` (the shape of `strconv.FormatFloat(x,'f',-1,64)`,
`FormatInt`, `FormatUint`), scanned alone, is one number token -/
theorem scanTok_floatShape (cs : List Char) (h : isFloatShape cs = true) :
    scanTok (itemsOfChars cs) = { kind := .number, raw := cs, rest := [] } := by
  rw [isFloatShape_eq] at h
  cases cs with
  | nil =>
    obtain ⟨ip, tail, heq, hne, _, _⟩ := floatShape_body [] h
    cases ip with
    | nil => exact absurd rfl hne
    | cons a b => simp at heq
  | cons c r =>
    by_cases hc : c = '-'
    · subst hc
      obtain ⟨ip, tail, rfl, hne, hip, ht⟩ := floatShape_body r h
      show scanTok (itemOfChar '-' :: itemsOfChars (ip ++ tail)) = _
      rw [scanTok_number_first '-' _ (by decide) (by decide) (by decide) (by decide) (by decide)]
      unfold scanNumber
      rw [numLoop_ip_tail '-' '-' false ['-'] ip tail hip hne ht]
      simp
    · rw [stripMinus_of_ne c r hc] at h
      obtain ⟨ip, tail, heq, hne, hip, ht⟩ := floatShape_body (c :: r) h
      cases ip with
      | nil => exact absurd rfl hne
      | cons d ip' =>
        simp only [List.cons_append, List.cons.injEq] at heq
        obtain ⟨rfl, rfl⟩ := heq
        have hd := hip c (by simp)
        obtain ⟨hi, he, _, _, _, h6, h7, _⟩ := digit_facts hd
        obtain ⟨hs, hl, hn⟩ := digit_first hd
        show scanTok (itemOfChar c :: itemsOfChars (ip' ++ tail)) = _
        rw [scanTok_number_first c _ he hs hl hn hi]
        unfold scanNumber
        cases ip' with
        | nil =>
          rw [List.nil_append, numLoop_tail c c false [c] tail hd (Or.inr ⟨h6, h7⟩) ht]
          simp
        | cons e es =>
          rw [numLoop_ip_tail c c false [c] (e :: es) tail (fun x hx => hip x (by simp [hx])) (by simp) ht]
          simp

theorem lexAlone_floatShape (v : String) (h : isFloatShape v.toList = true) :
    lexAlone (.number v) = true := by
  unfold lexAlone
  have ht : (tokText (.number v)).toList = v.toList := rfl
  simp only [ht, scanTok_floatShape v.toList h]
  simp [tokOf, PTok.tok]



/-- `digits-digits` (what the writer prints for an extended multiplexing range) -/
theorem scanTok_rangeShape (ds1 ds2 : List Char) (h1 : ∀ d ∈ ds1, d.isDigit = true)
    (h2 : ∀ d ∈ ds2, d.isDigit = true) (hne1 : ds1 ≠ []) (hne2 : ds2 ≠ []) :
    scanTok (itemsOfChars (ds1 ++ '-' :: ds2)) =
      { kind := .numberRange, raw := ds1 ++ '-' :: ds2, rest := [] } := by
  cases ds1 with
  | nil => exact absurd rfl hne1
  | cons c ds1' =>
    cases ds2 with
    | nil => exact absurd rfl hne2
    | cons e ds2' =>
      have hc := h1 c (by simp)
      have he := h2 e (by simp)
      obtain ⟨hi, heof, hnum, _, _, h6, h7, _⟩ := digit_facts hc
      obtain ⟨hs, hl, hn⟩ := digit_first hc
      obtain ⟨hie, _, hnume, _⟩ := digit_facts he
      show scanTok (itemOfChar c :: itemsOfChars (ds1' ++ '-' :: e :: ds2')) = _
      rw [scanTok_number_first c _ heof hs hl hn hi]
      unfold scanNumber
      -- the range step, from any state
      have hrange : ∀ (prev : Char) (hm : Bool) (pre : List Char),
          numLoop c prev hm false pre (itemsOfChars ('-' :: e :: ds2')) =
            { kind := .numberRange, raw := pre ++ '-' :: e :: ds2', rest := [] } := by
        intro prev hm pre
        show numLoop c prev hm false pre (itemOfChar '-' :: itemOfChar e :: itemsOfChars ds2') = _
        have hmi : itemOfChar '-' = ⟨'-', true⟩ := by decide
        rw [hmi, hie]
        conv => lhs; unfold numLoop
        simp only [Item.pk, if_true, show isEOF '-' = false by decide, show isNumber '-' = false by decide,
          show ('-' == 'x') = false by decide, show ('-' == 'X') = false by decide,
          show ('-' == 'e') = false by decide, show ('-' == 'E') = false by decide,
          show ('-' != '.') = true by decide, show ('-' == '-') = true by decide, hnum, hnume,
          Bool.false_eq_true, if_false, Bool.or_false, Bool.and_false, Bool.not_false, Bool.and_true,
          Bool.false_and]
        have fin : ∀ (p : Char) (pre' : List Char), numLoop c p hm true pre' [] =
            { kind := .numberRange, raw := pre', rest := [] } := by
          intro p pre'
          rw [numLoop_end]
          unfold numFinish
          have e1 : (c == '-') = false := by simpa using h6
          have e2 : (c == '+') = false := by simpa using h7
          simp [e1, e2]
        cases ds2' with
        | nil =>
          show numLoop c prev hm true (pre ++ ['-', e]) [] = _
          rw [fin]
        | cons g gs =>
          obtain ⟨q, _, heq⟩ := numLoop_digits c true (g :: gs) (fun x hx => h2 x (by simp [hx])) prev hm
            (pre ++ ['-', e]) [] (by simp)
          rw [List.append_nil] at heq
          rw [heq]
          have fin' : numLoop c q true true (pre ++ ['-', e] ++ g :: gs) [] =
              { kind := .numberRange, raw := pre ++ ['-', e] ++ g :: gs, rest := [] } := by
            rw [numLoop_end]
            unfold numFinish
            simp
          rw [fin']; simp
      cases ds1' with
      | nil => rw [List.nil_append, hrange]
      | cons g gs =>
        rw [itemsOfChars_append]
        obtain ⟨q, _, heq⟩ := numLoop_digits c false (g :: gs) (fun x hx => h1 x (by simp [hx])) c false [c]
          (itemsOfChars ('-' :: e :: ds2')) (by simp)
        rw [heq, hrange]; simp


theorem hexChar_facts {c : Char} (h : isHexChar c = true) :
    itemOfChar c = ⟨c, true⟩ ∧ isHexNumber c = true := by
  have hlt : c.toNat < 0x80 := by
    simp only [isHexChar, Bool.or_eq_true, Bool.and_eq_true, decide_eq_true_eq, Char.le_def,
      UInt32.le_iff_toNat_le] at h
    have e1 : ('f' : Char).val.toNat = 102 := by decide
    have e2 : ('F' : Char).val.toNat = 70 := by decide
    have hv : c.val.toNat = c.toNat := rfl
    rcases h with (h | h) | h
    · exact isDigit_lt h
    · have := h.2; rw [e1, hv] at this; omega
    · have := h.2; rw [e2, hv] at this; omega
  refine ⟨itemOfChar_ascii hlt, ?_⟩
  simp only [isHexChar, Bool.or_eq_true] at h
  simp only [isHexNumber, isNumber_ascii hlt, Bool.or_eq_true]
  exact h

/-- `0x` and 1 to 9 hexadecimal digits (`writer.formatHexInt` prints 1 to 8) -/
theorem scanTok_hexShape (x : Char) (hs : List Char) (hx : x = 'x' ∨ x = 'X')
    (hall : ∀ c ∈ hs, isHexChar c = true) (hne : hs ≠ []) (hlen : hs.length ≤ 9) :
    scanTok (itemsOfChars ('0' :: x :: hs)) = { kind := .number, raw := '0' :: x :: hs, rest := [] } := by
  cases hs with
  | nil => exact absurd rfl hne
  | cons d ds =>
    obtain ⟨hid, hhd⟩ := hexChar_facts (hall d (by simp))
    have hix : itemOfChar x = ⟨x, true⟩ := by rcases hx with rfl | rfl <;> decide
    have hxe : isEOF x = false := by rcases hx with rfl | rfl <;> decide
    have hxx : (x == 'x' || x == 'X') = true := by rcases hx with rfl | rfl <;> decide
    show scanTok (itemOfChar '0' :: itemOfChar x :: itemOfChar d :: itemsOfChars ds) = _
    rw [scanTok_number_first '0' _ (by decide) (by decide) (by decide) (by decide) (by decide)]
    unfold scanNumber
    rw [hix, hid]
    conv => lhs; unfold numLoop
    simp only [Item.pk, if_true, hxe, Bool.false_eq_true, if_false, show ('0' == '0') = true by decide, hxx,
      Bool.true_and, Bool.and_self]
    have hds : ∀ y ∈ itemsOfChars ds, (fun it : Item => isHexNumber it.pk) y = true := by
      intro y hy
      simp only [itemsOfChars, List.mem_map] at hy
      obtain ⟨z, hz, rfl⟩ := hy
      obtain ⟨h1, h2⟩ := hexChar_facts (hall z (by simp [hz]))
      rw [h1]; simpa [Item.pk] using h2
    have hl8 : (itemsOfChars ds).length ≤ 8 := by simp [itemsOfChars] at hlen ⊢; omega
    have htw := tw_append (fun it : Item => isHexNumber it.pk) (itemsOfChars ds) [] hds (by simp)
    rw [List.append_nil] at htw
    have hpk : peek1 ((⟨x, true⟩ : Item) :: ⟨d, true⟩ :: itemsOfChars ds) = d := by
      simp [peek1, peek0, Item.pk]
    unfold scanHexNumber
    simp only [hpk, hhd, Bool.not_true, Bool.false_eq_true, if_false,
      List.take_of_length_le hl8, htw.1, List.drop_length, rds_itemsOfChars]
    simp

/-! ## the writer's number shapes are in the image -/

theorem lexAlone_hexShape (v : String) (h : hexShape v.toList = true) : lexAlone (.number v) = true := by
  unfold hexShape at h
  split at h
  · rename_i x hs heq
    simp only [Bool.and_eq_true, Bool.or_eq_true, beq_iff_eq, Bool.not_eq_true', List.isEmpty_eq_false_iff,
      decide_eq_true_eq, List.all_eq_true] at h
    obtain ⟨⟨⟨hx, hne⟩, hlen⟩, hall⟩ := h
    have hs' := scanTok_hexShape x hs hx hall hne hlen
    unfold lexAlone
    have ht : (tokText (.number v)).toList = v.toList := rfl
    simp only [ht, heq, hs']
    have hv : String.ofList ('0' :: x :: hs) = v := by rw [← heq, String.ofList_toList]
    simp [tokOf, PTok.tok, hv]
  · cases h

theorem lexAlone_rangeShape (v : String) (h : rangeShape v.toList = true) :
    lexAlone (.numberRange v) = true := by
  unfold rangeShape at h
  split at h
  · rename_i ds2 heq
    simp only [Bool.and_eq_true, Bool.not_eq_true', List.isEmpty_eq_false_iff, List.all_eq_true] at h
    obtain ⟨⟨hne1, hne2⟩, hall2⟩ := h
    have hsplit : v.toList = v.toList.takeWhile Char.isDigit ++ '-' :: ds2 := by
      conv => lhs; rw [← List.takeWhile_append_dropWhile (p := Char.isDigit) (l := v.toList), heq]
    have hs' := scanTok_rangeShape (v.toList.takeWhile Char.isDigit) ds2
      (fun d hd => mem_takeWhile_imp hd) hall2 hne1 hne2
    rw [← hsplit] at hs'
    unfold lexAlone
    have ht : (tokText (.numberRange v)).toList = v.toList := rfl
    simp only [ht, hs']
    simp [tokOf, PTok.tok]
  · cases h

/-- number tokens of the writer's shapes are in the image of the scanner -/
theorem lexAlone_writerNum (t : Token) (hn : isNumTok t = true) (h : writerNumOK t = true) :
    lexAlone t = true := by
  cases t with
  | number v =>
    simp only [writerNumOK, Bool.or_eq_true] at h
    rcases h with h | h
    · exact lexAlone_floatShape v h
    · exact lexAlone_hexShape v h
  | numberRange v => exact lexAlone_rangeShape v h
  | _ => simp [isNumTok] at hn

/-- `TokensWF` + the writer's number shapes + no `eof`/`error` ⇒ `ScanWF` -/
theorem scanWF_of_tokensWF (ts : List Token) (hwf : TokensWF ts)
    (hnum : ∀ t ∈ ts, writerNumOK t = true) (htext : ∀ t ∈ ts, hasText t = true) : ScanWF ts := by
  intro t ht
  cases hn : isNumTok t with
  | true => exact lexAlone_writerNum t hn (hnum t ht)
  | false =>
    apply lexAlone_of_tokenOK t (hwf t ht) hn
    · intro he; have := htext t ht; rw [he] at this; cases this
    · intro v he; have := htext t ht; rw [he] at this; cases this

/-! ## the writer's hexadecimal / decimal integers have a writer shape -/


theorem digitChar_hex : ∀ d, d < 16 → isHexChar (Nat.digitChar d) = true := by decide

theorem toDigits16_hex (n : Nat) : ∀ c ∈ Nat.toDigits 16 n, isHexChar c = true := by
  induction n using Nat.strongRecOn with
  | _ n ih =>
    rw [Nat.toDigits_eq_if (by decide)]
    split
    · intro c hc
      simp only [List.mem_singleton] at hc
      subst hc
      exact digitChar_hex n (by omega)
    · intro c hc
      rcases List.mem_append.mp hc with hc | hc
      · exact ih (n / 16) (by omega) c hc
      · simp only [List.mem_singleton] at hc
        subst hc
        exact digitChar_hex _ (Nat.mod_lt _ (by decide))

/-- `writer.formatHexInt` in hex-number mode prints a number the scanner reads back: `0x` and the
1 to 8 lower-case hexadecimal digits of a `uint32` -/
theorem hexShape_formatHexInt (n : Nat) (hn : n < 2 ^ 32) :
    hexShape (formatHexInt true n).toList = true := by
  have hl : (Nat.toDigits 16 n).length ≤ 8 :=
    (Nat.length_toDigits_le_iff (b := 16) (by decide) (by decide)).mpr (by simpa using hn)
  have ht : (formatHexInt true n).toList = '0' :: 'x' :: Nat.toDigits 16 n := by
    simp [formatHexInt, formatHexDigits]
  rw [ht]
  simp only [hexShape, Bool.and_eq_true, Bool.or_eq_true, beq_iff_eq, Bool.not_eq_true',
    List.isEmpty_eq_false_iff, decide_eq_true_eq, List.all_eq_true]
  exact ⟨⟨⟨Or.inl trivial, Nat.toDigits_ne_nil⟩, by omega⟩, toDigits16_hex n⟩

theorem isFloatShape_digits (cs : List Char) (hne : cs ≠ []) (h : ∀ c ∈ cs, c.isDigit = true) :
    isFloatShape cs = true := by
  rw [isFloatShape_eq]
  have hs : stripMinus cs = cs := by
    cases cs with
    | nil => rfl
    | cons c r =>
      apply stripMinus_of_ne
      intro he
      have := h c (by simp)
      rw [he] at this
      revert this; decide
  rw [hs]
  have htw := tw_append Char.isDigit cs [] h (by simp)
  rw [List.append_nil] at htw
  unfold bodyShape
  rw [htw.2, htw.1]
  simpa using hne

/-- `writer.formatHexInt` prints a number of a writer shape in both modes -/
theorem writerNumOK_formatHexInt (hex : Bool) (n : Nat) (hn : n < 2 ^ 32) :
    writerNumOK (.number (formatHexInt hex n)) = true := by
  cases hex with
  | true => simp [writerNumOK, hexShape_formatHexInt n hn]
  | false =>
    have ht : (formatHexInt false n).toList = Nat.toDigits 10 n := by
      simp [formatHexInt, formatUint, Nat.toList_repr]
    simp only [writerNumOK, ht, Bool.or_eq_true]
    left
    exact isFloatShape_digits _ Nat.toDigits_ne_nil
      (fun c hc => Nat.isDigit_of_mem_toDigits (by decide) (by decide) hc)

end Acme.Dbc.Scan
