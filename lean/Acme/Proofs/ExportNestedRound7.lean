/-
C11 at message level, nested multiplexers, part 12: export → import on `ExpressibleNested`.
-/
import Acme.Proofs.ExportNestedRound6

namespace Acme.Import
open Acme.Layout Acme.Conv Acme.Arith

theorem NCtx.round {t : ITree} {r : MuxNode} (c : NCtx t r) :
    importMsg (exportMsgN t) = .ok (normNested t) := by
  have hsize : (exportMsgN t).size = t.sizeByte.toNat := rfl
  have hszI : (((exportMsgN t).size : Nat) : Int) = t.sizeByte := by
    rw [hsize, Int.toNat_of_nonneg c.size0]
  have hcap : (8 * (((exportMsgN t).size : Nat) : Int)) = 8 * t.sizeByte := by rw [hszI]
  have hokS : ∀ s ∈ Sx t, SigOK t.bigEndian (8 * t.sizeByte) s :=
    fun s hs => sigOK_erase _ _ _ (c.sigOK _ (c.mem_sorted s hs))
  -- the multiplexors
  have hheads : (Hx t).map eraseSw = headSig t.bigEndian false r :: (Ds t r).map (sigOfD t.bigEndian t.nested) :=
    c.heads
  have hDsne : Ds t r ≠ [] := by
    intro he
    have h1 : (Dt t r).filter (isSub t.nested) = [] := by
      have := (sortBy_perm (dKey t.bigEndian t.nested) ((Dt t r).filter (isSub t.nested)))
      unfold Ds at he
      rw [he] at this
      exact List.perm_nil.1 this.symm
    have h2 : reach t r = [] := by rw [c.below_eq, h1]; rfl
    have := c.perm
    rw [h2] at this
    exact c.ne (List.perm_nil.1 this.symm)
  match hH : Hx t, hheads with
  | [], hheads => simp at hheads
  | h0 :: Ht, hheads =>
  simp only [List.map_cons, List.cons.injEq] at hheads
  obtain ⟨hh0, hHt⟩ := hheads
  obtain ⟨hZ1, hZfst, hZsnd⟩ := zip_of_map_eq eraseSw (sigOfD t.bigEndian t.nested) Ht (Ds t r) hHt
  match hHt2 : Ht, hHt with
  | [], hHt => exact absurd (List.map_eq_nil_iff.1 hHt.symm) hDsne
  | h1 :: Hrest, hHt =>
  rw [← hHt2] at hZ1 hZfst hZsnd hH
  clear hHt
  -- facts about the top-level multiplexor
  have hn0 : h0.name = r.name := congrArg DSig.name hh0
  obtain ⟨hokr, hr0, _⟩ := c.nodeOK r (List.mem_cons_self ..)
  have hp0 : sigPos h0 = r.start :=
    sigPos_of t.bigEndian _ hr0 _ (congrArg DSig.start hh0) (congrArg DSig.bigEndian hh0)
  have hs0 : ((h0.size : Nat) : Int) = r.selW := by
    have : h0.size = r.selW.toNat := congrArg DSig.size hh0
    rw [this]
    exact Int.toNat_of_nonneg (by have := hokr.w1; omega)
  have hmemH : ∀ x, x ∈ Hx t → x ∈ Sx t := fun x hx => (List.mem_filter.1 hx).1
  have hh0S : h0 ∈ Sx t := hmemH h0 (by rw [hH]; exact List.mem_cons_self ..)
  -- first loop, byte order
  have hbe : headBE (Sx t) = t.bigEndian := by
    apply headBE_eq
    · intro s hs; exact (hokS s hs).be
    · intro he
      rw [he] at hh0S
      cases hh0S
  have hfirst : firstLoop (8 * t.sizeByte) t.bigEndian [] (Sx t) = .ok () :=
    firstLoop_ok _ _ _ [] (fun s hs => ⟨(hokS s hs).bound, (hokS s hs).be⟩) c.sortedNodup
      (fun s _ hm => by cases hm)
  -- the top-level signals
  have hleafFilter : (Sx t).filter (fun s => !isMuxName (Hx t) s && !s.isMultiplexed) =
      (Sx t).filter (fun s => !s.isMultiplexor && !s.isMultiplexed) := by
    apply List.filter_congr
    intro s hs
    cases hnm : isMuxName (Hx t) s with
    | true =>
      cases hmd : s.isMultiplexed with
      | true => simp
      | false =>
        -- named as a multiplexor, not multiplexed: it is the top-level multiplexor or ... a multiplexor
        obtain ⟨h, hh, hname⟩ := List.mem_map.1 ((isMuxName_iff _ _).1 hnm)
        have : s = h := List.inj_on_of_nodup_map c.sortedNodup hs (hmemH h hh) hname.symm
        rw [this, (List.mem_filter.1 hh).2]
    | false =>
      cases hmd : s.isMultiplexed with
      | true => simp
      | false =>
        obtain ⟨_, h2⟩ := c.split_hyp s hs hnm
        rw [(h2 hmd).1]
  have hleaves : ((Sx t).filter (fun s => !isMuxName (Hx t) s && !s.isMultiplexed)).map leafOf =
      (sortBy (·.start) ((leavesOf t.top).map (leafSig t.bigEndian))).map leafOf := by
    rw [hleafFilter]
    have e : ∀ l : List DSig, l.map leafOf = (l.map eraseSw).map leafOf := by
      intro l; rw [List.map_map]; rfl
    rw [e, Sx, filter_erase _ (fun _ => rfl), c.sorted, filter_sortBy]
    unfold Lc
    rw [sigsN_filter_leaves]
  have hleafperm : ((sortBy (·.start) ((leavesOf t.top).map (leafSig t.bigEndian))).map leafOf).Perm
      ((leavesOf t.top).map Item.sig) := by
    refine ((sortBy_perm _ _).map leafOf).trans ?_
    rw [List.map_map]
    have : (leavesOf t.top).map (leafOf ∘ leafSig t.bigEndian) = (leavesOf t.top).map Item.sig := by
      apply List.map_congr_left
      intro l hl
      obtain ⟨l0, _, l2⟩ := c.topBounds (.sig l) ((mem_leavesOf _ _).1 hl)
      exact leafOf_leafSig t.bigEndian l l0 l2
    rw [this]
  have hsplitTop := top_perm_split t.top
  rw [c.mux] at hsplitTop
  simp only [List.map_cons, List.map_nil] at hsplitTop
  have hdisjTop : t.top.Pairwise (fun a b => SlotDisj a.slot b.slot) := by
    have := wfFrom_pairwise _ _ _ c.wf
    simp only [topSlots] at this
    exact List.pairwise_map.1 this
  have hdisjLM : ∀ l, Item.sig l ∈ t.top → SlotDisj (Item.sig l).slot (Item.mux r).slot := by
    intro l hl
    exact pairwise_mem_ne (fun a b hab => SlotDisj.symm hab) t.top hdisjTop _ hl _ c.rtop (by simp)
  have hnamesAll := c.names
  unfold sigNamesN at hnamesAll
  have hleafNd : ((leavesOf t.top).map (·.name)).Nodup := (List.nodup_append.1 hnamesAll).1
  have hregLeaves : ∀ ls : List Leaf, regNames (ls.map Item.sig) = ls.map (·.name) := by
    intro ls
    induction ls with
    | nil => rfl
    | cons a rest ih => simp [regNames, ih]
  have hcompL : Compatible (8 * t.sizeByte) ((leavesOf t.top).map Item.sig) := by
    refine ⟨?_, ?_, ?_⟩
    · have := (hsplitTop.pairwise_iff (fun hab => SlotDisj.symm hab)).1 hdisjTop
      exact (List.pairwise_append.1 this).1
    · intro x hx
      obtain ⟨l, hl, rfl⟩ := List.mem_map.1 hx
      exact c.topBounds _ ((mem_leavesOf _ _).1 hl)
    · rw [hregLeaves]; exact hleafNd
  obtain ⟨top1, hins1, hperm1, hwf1⟩ := insertAll_ok (8 * t.sizeByte)
    ((sortBy (·.start) ((leavesOf t.top).map (leafSig t.bigEndian))).map leafOf) []
    (by rw [List.append_nil]; exact hcompL.perm hleafperm.symm) (topWF_nil _ (by have := c.size0; omega))
  rw [List.append_nil] at hperm1
  -- first loop of the third case
  have hsplit := splitMany_eval (8 * t.sizeByte) (exportMsgN t).exts (Hx t) (Sx t) []
    (List.replicate (Hx t).length []) top1
    (fun s hs hnm => ⟨(hokS s hs).check, (c.split_hyp s hs hnm).1⟩)
    (by rw [hleaves]; exact hins1)
  rw [c.groups_eq] at hsplit
  -- the top-level multiplexer goes to the top level
  have htop1mem : ∀ y ∈ top1, ∃ l, Item.sig l ∈ t.top ∧ y = Item.sig l := by
    intro y hy
    have := (hperm1.trans hleafperm).mem_iff.1 hy
    obtain ⟨l, hl, rfl⟩ := List.mem_map.1 this
    exact ⟨l, (mem_leavesOf _ _).1 hl, rfl⟩
  obtain ⟨nb0, nb1, nb2⟩ := c.topBounds (.mux r) c.rtop
  have hpermKids : (normNodeN t.bigEndian r).children.Perm r.children := by
    simp only [normNodeN]
    refine List.Perm.trans ?_ (seen_permN r hokr)
    rw [← List.map_append]
    apply List.Perm.map
    refine (List.Perm.append (sortBy_perm _ _) ((List.reverse_perm _).trans (sortBy_perm _ _))).trans ?_
    have := List.filter_append_perm (fun p : Child × Int => p.1.isMux) (seenChildren r)
    exact (List.perm_append_comm).trans this
  have hregNd : (regNames (Item.mux (normNodeN t.bigEndian r) :: top1)).Nodup := by
    have h1 : (regNames (Item.mux (normNodeN t.bigEndian r) :: top1)).Perm
        ((r.name :: r.children.map (·.name)) ++ (leavesOf t.top).map (·.name)) := by
      rw [regNames_cons]
      refine List.Perm.append ?_ ?_
      · simp only [itemNames]
        exact List.Perm.cons _ (hpermKids.map _)
      · rw [← hregLeaves]
        exact regNames_perm (hperm1.trans hleafperm)
    refine (h1.nodup_iff).2 ?_
    have h2 : (((leavesOf t.top).map (·.name)) ++ (r.name :: r.children.map (·.name))).Sublist
        ((leavesOf t.top).map (·.name) ++
          r.name :: (r :: reach t r).flatMap (fun n => n.children.map (·.name))) := by
      refine List.Sublist.append (List.Sublist.refl _) (List.Sublist.cons_cons _ ?_)
      rw [List.flatMap_cons]
      exact List.sublist_append_left _ _
    exact ((List.perm_append_comm).nodup_iff).1 (h2.nodup hnamesAll)
  have hinsM := insertTop_ok (8 * t.sizeByte) top1 (.mux (normNodeN t.bigEndian r)) hwf1 nb2 hregNd nb0 nb1
    (by
      intro y hy
      obtain ⟨l, hl, rfl⟩ := htop1mem y hy
      exact (hdisjLM l hl).symm)
  -- the second loop
  have hnodupH := c.hxNodup
  have hidx0 : muxIdx (Hx t) r.name = some 0 := by
    rw [← hn0]
    exact muxIdx_of_nodup _ hnodupH 0 h0 (by rw [hH]; rfl)
  have hsortedH : (Hx t).Pairwise (fun a b => a.start ≤ b.start) :=
    (sortBy_sorted (fun s : DSig => s.start) _).filter _
  have hroot : findExt (exportMsgN t).exts h0.name = none := by
    rw [hn0]
    exact c.ext_none _ (List.nodup_cons.1 c.dnames).1
  have hHmap : Hx t = h0 :: (Ht.zip (Ds t r)).map (·.1) := by rw [hH, hZfst]
  have hpm := placeMuxes_eval (8 * t.sizeByte) (exportMsgN t).exts (Hx t)
    ⟨h0, (Sx t).filter (Pn t h0.name), normNodeN t.bigEndian r, 0⟩ top1
    (insertItem (.mux (normNodeN t.bigEndian r)) top1) ((Ht.zip (Ds t r)).map (mkRec t))
    hroot hinsM
    (by
      show importMux _ h0 ((Sx t).filter (Pn t h0.name) ++ _) = _
      rw [hn0]
      exact c.node_import r (List.mem_cons_self ..) h0 hn0 hp0 hs0 _
        (c.pendCore _ hZ1 hZsnd r (List.mem_cons_self ..) 0 hidx0))
    (by
      intro e he
      obtain ⟨hle, hget⟩ := zipIdx_mem_get _ 1 e he
      have hemem : e.1 ∈ (Ht.zip (Ds t r)).map (mkRec t) := List.mem_of_getElem? hget
      obtain ⟨z, hz, hze⟩ := List.mem_map.1 hemem
      have hzd : z.2 ∈ Ds t r := by rw [← hZsnd]; exact List.mem_map.2 ⟨z, hz, rfl⟩
      obtain ⟨hd1, hd2⟩ := c.ds_mem z.2 hzd
      obtain ⟨g, hown⟩ := c.good z.2 hd1
      unfold isSub at hd2
      cases hsub : subOf t.nested z.2.2.1 with
      | none => rw [hsub] at hd2; cases hd2
      | some sub =>
        obtain ⟨k1, k2, k3, k4, hoks, k6⟩ := g.link sub hsub
        have hsr : sub ∈ reach t r := by
          rw [c.below_eq]
          exact List.mem_filterMap.2 ⟨z.2, List.mem_filter.2 ⟨hd1, by unfold isSub; rw [hsub]; rfl⟩, hsub⟩
        have hsm : sub ∈ r :: reach t r := List.mem_cons_of_mem _ hsr
        have hsig : eraseSw z.1 = headSig t.bigEndian true sub := by
          rw [hZ1 z hz]; unfold sigOfD; rw [hsub]
        have hzn : z.1.name = sub.name := congrArg DSig.name hsig
        obtain ⟨_, hsub0, _⟩ := c.nodeOK sub hsm
        have hzp : sigPos z.1 = sub.start :=
          sigPos_of t.bigEndian _ hsub0 _ (congrArg DSig.start hsig) (congrArg DSig.bigEndian hsig)
        have hzs : ((z.1.size : Nat) : Int) = sub.selW := by
          have : z.1.size = sub.selW.toNat := congrArg DSig.size hsig
          rw [this]
          exact Int.toNat_of_nonneg (by have := hoks.w1; omega)
        have hsn : subNode t.nested z.2 = sub := by unfold subNode; rw [hsub]; rfl
        -- the index of the multiplexor in the sorted list
        have hHj : (Hx t)[e.2]? = some z.1 := by
          rw [hHmap]
          have h1 : e.2 = (e.2 - 1) + 1 := by omega
          rw [h1, List.getElem?_cons_succ, List.getElem?_map]
          have h2 := congrArg (Option.map (fun r : PRec => r.mx)) hget
          rw [← List.getElem?_map, List.map_map] at h2
          have h3 : (fun r : PRec => r.mx) ∘ mkRec t = fun z : DSig × DEntry => z.1 := rfl
          rw [h3, List.getElem?_map] at h2
          rw [h2, ← hze]
          rfl
        have hidx : muxIdx (Hx t) sub.name = some e.2 := by
          rw [← hzn]
          exact muxIdx_of_nodup _ hnodupH e.2 z.1 hHj
        rw [← hze]
        constructor
        · show importMux _ z.1 ((Sx t).filter (Pn t z.1.name) ++ _) = .ok (normNodeN t.bigEndian (subNode t.nested z.2))
          rw [hsn, hzn]
          exact c.node_import sub hsm z.1 hzn hzp hzs _ (c.pendCore _ hZ1 hZsnd sub hsm e.2 hidx)
        · obtain ⟨i, hi⟩ := c.node_idx z.2.1 hown
          refine ⟨extOfD z.2, ?_, ?_, ?_⟩
          · show findExt _ z.1.name = _
            rw [hzn, k6]
            exact c.ext_found z.2 hd1
          · show muxIdx (Hx t) z.2.1.name = some ((muxIdx (Hx t) z.2.1.name).getD 0)
            rw [hi]; rfl
          · show (muxIdx (Hx t) z.2.1.name).getD 0 < e.2
            rw [hi]
            simp only [Option.getD_some]
            -- the owner is written before the nested multiplexor
            have hni := muxIdx_name _ _ _ hi
            cases hgi : (Hx t)[i]? with
            | none => rw [hgi] at hni; cases hni
            | some hi' =>
              rw [hgi] at hni
              simp only [Option.map_some, Option.some.injEq] at hni
              obtain ⟨mi, hmi, hmn, hms⟩ := c.head_node hi' (List.mem_of_getElem? hgi)
              have hmeq : mi = z.2.1 :=
                List.inj_on_of_nodup_map c.nodeNames hmi hown (by rw [← hmn, hni])
              apply sorted_idx_lt (·.start) (Hx t) hsortedH i e.2 hi' z.1 hgi hHj
              show hi'.start < z.1.start
              have hzst : z.1.start = fileStart t.bigEndian sub.start := congrArg DSig.start hsig
              rw [hms, hmeq, hzst]
              exact k4)
    (((Ht.zip (Ds t r)).map (mkRec t)).reverse) [] (by simp)
  simp only [List.reverse_reverse, List.reverse_nil, List.map_nil, List.zipIdx_nil] at hpm
  have hwork : (Hx t).zip ((Hx t).map (fun mx => (Sx t).filter (Pn t mx.name))) =
      ((⟨h0, (Sx t).filter (Pn t h0.name), normNodeN t.bigEndian r, 0⟩ : PRec) ::
        (Ht.zip (Ds t r)).map (mkRec t)).map PRec.pr := by
    rw [zip_map_self, hHmap]
    simp only [List.map_cons, List.map_map, PRec.pr]
    rfl
  have hmany : importMany (8 * t.sizeByte) (exportMsgN t).exts (Hx t) (Sx t) =
      .ok (insertItem (.mux (normNodeN t.bigEndian r)) top1,
        (((Ht.zip (Ds t r)).map (mkRec t)).reverse).map (·.nd)) := by
    unfold importMany
    rw [hsplit]
    simp only
    rw [hwork]
    exact hpm
  -- the result
  have hfinalTop : insertItem (.mux (normNodeN t.bigEndian r)) top1 = t.top.map (normItemN t.bigEndian) := by
    obtain ⟨_, hwfF, _⟩ := insertTop_spec _ _ _ _ hinsM nb2 hwf1
    apply perm_sorted_eq Item.start _ _ ?_ (wf_sorted_top _ _ hwfF)
    · have := wf_sorted_top _ _ c.wf
      rw [List.pairwise_map]
      exact this.imp (fun hab => by rw [normItemN_start, normItemN_start]; exact hab)
    · refine (insertItem_perm _ _).trans ?_
      refine ((List.Perm.cons _ (hperm1.trans hleafperm)).trans ?_).trans
        (muxesOf_one_mapN t.bigEndian r t.top c.mux).symm
      exact (List.perm_append_comm (l₁ := [Item.mux (normNodeN t.bigEndian r)]))
  have hfinalNested : (((Ht.zip (Ds t r)).map (mkRec t)).reverse).map (·.nd) =
      ((sortBy (headKey t.bigEndian) (reach t r)).reverse).map (normNodeN t.bigEndian) := by
    rw [c.nestedEq, List.map_reverse, List.map_reverse]
    congr 1
    have h9 : ((Ds t r).map (subNode t.nested)).map (normNodeN t.bigEndian) =
        ((Ht.zip (Ds t r)).map (·.2)).map (fun d => normNodeN t.bigEndian (subNode t.nested d)) := by
      rw [hZsnd, List.map_map]
      rfl
    rw [h9, List.map_map, List.map_map]
    rfl
  have hthe : theMux t.top = some r := by unfold theMux; rw [c.mux]
  have := importMsg_eval_many (exportMsgN t) _ _ h0 h1 Hrest
    (by
      show firstLoop _ (headBE (Sx t)) [] (Sx t) = _
      rw [hcap, hbe]; exact hfirst)
    (by rw [hsize]; have := c.size8; omega)
    (by
      show Hx t = _
      rw [hH, hHt2])
    (by
      show importMany _ _ _ (Sx t) = _
      rw [hcap, ← hHt2, ← hH]
      exact hmany)
  rw [this, hfinalTop, hfinalNested]
  show Except.ok (⟨t.id, ((exportMsgN t).size : Int), headBE (Sx t), _, _⟩ : ITree) = _
  rw [hbe, hszI]
  simp only [normNested, hthe]

end Acme.Import
