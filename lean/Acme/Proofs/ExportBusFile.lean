/-
Bus-level exporter model, part 2: the exported document of a well-formed bus — what its
comments and value encodings say about an entity, and that the importer accepts it (`FileOK`).
Core Lean only.
-/
import Acme.Proofs.ExportBusBasic

namespace Acme.ExportBus
open Acme.ImportBus Acme.Arith
open Acme.Import (sortBy insBy)

/-! ### projections of an exported signal -/

@[simp] theorem exportSig_name (b : IBus) (rx : List String) (s : ISignal) : (exportSig b rx s).name = s.name := by
  unfold exportSig; split <;> rfl

@[simp] theorem exportSig_start (b : IBus) (rx : List String) (s : ISignal) : (exportSig b rx s).start = s.start := by
  unfold exportSig; split <;> rfl

@[simp] theorem exportSig_receivers (b : IBus) (rx : List String) (s : ISignal) :
    (exportSig b rx s).receivers = rx := by
  unfold exportSig; split <;> rfl

theorem exportSig_size (b : IBus) (rx : List String) (s : ISignal) : (exportSig b rx s).size = sigSizeOf b s := by
  unfold sigSizeOf exportSig; split <;> rfl

/-! ### the well-formed bus -/

theorem wf_order {b : IBus} (h : BusWF b) {m : IMessage} (hm : m ∈ exportOrder b) : m ∈ b.msgs ∧ MsgWF b m :=
  ⟨(mem_exportOrder.mp hm).1, h.2.2.2.2 m (mem_exportOrder.mp hm).1⟩

theorem mem_order_of_wf {b : IBus} (h : BusWF b) {m : IMessage} (hm : m ∈ b.msgs) : m ∈ exportOrder b :=
  mem_exportOrder.mpr ⟨hm, (h.2.2.2.2 m hm).1⟩

theorem order_perm {b : IBus} (h : BusWF b) : (exportOrder b).Perm b.msgs :=
  exportOrder_perm h.1 (fun m hm => (h.2.2.2.2 m hm).1)

theorem order_id_inj {b : IBus} (h : BusWF b) {m m' : IMessage} (hm : m ∈ exportOrder b)
    (hm' : m' ∈ exportOrder b) (heq : m.id = m'.id) : m = m' :=
  eq_of_nodup_map h.2.2.1 (wf_order h hm).1 (wf_order h hm').1 heq

theorem sig_name_inj {b : IBus} {m : IMessage} (hw : MsgWF b m) {s s' : ISignal} (hs : s ∈ m.sigs)
    (hs' : s' ∈ m.sigs) (heq : s.name = s'.name) : s = s' :=
  eq_of_nodup_map hw.2.2.2.2.2.1 hs hs' heq

theorem node_name_inj {b : IBus} (h : BusWF b) {n n' : INode} (hn : n ∈ b.nodes) (hn' : n' ∈ b.nodes)
    (heq : n.name = n'.name) : n = n' :=
  eq_of_nodup_map h.1 hn hn' heq

/-! ### the layout -/

theorem layout_facts (b : IBus) (cap : Nat) (rx : List String) : ∀ (l : List ISignal) (e : Nat),
    layoutOK b cap e l = true →
    (∀ s ∈ l, e ≤ s.start ∧ s.start + sigSizeOf b s ≤ cap) ∧
    (l.map (exportSig b rx)).Pairwise (fun a c => a.start ≤ c.start) ∧
    chainOK e (l.map (exportSig b rx)) = true
  | [], _, _ => ⟨fun _ hs => by simp at hs, by simp, rfl⟩
  | s :: r, e, h => by
    simp only [layoutOK, Bool.and_eq_true, decide_eq_true_eq] at h
    obtain ⟨⟨h1, h2⟩, h3⟩ := h
    obtain ⟨f1, f2, f3⟩ := layout_facts b cap rx r _ h3
    refine ⟨?_, ?_, ?_⟩
    · intro x hx
      rcases List.mem_cons.mp hx with rfl | hx
      · exact ⟨h1, h2⟩
      · have := f1 x hx
        exact ⟨by omega, this.2⟩
    · rw [List.map_cons, List.pairwise_cons]
      refine ⟨?_, f2⟩
      intro y hy
      obtain ⟨x, hx, rfl⟩ := List.mem_map.mp hy
      have := f1 x hx
      simp only [exportSig_start]
      omega
    · simp only [List.map_cons, chainOK, Bool.and_eq_true, decide_eq_true_eq, exportSig_start, exportSig_size]
      exact ⟨h1, f3⟩

theorem sortedSigs_exportMsg {b : IBus} {m : IMessage} (hw : MsgWF b m) :
    sortedSigs (exportMsg b m) = (exportMsg b m).sigs := by
  unfold sortedSigs
  exact sortBy_chain _ _ (layout_facts b _ (recvOf m) m.sigs 0 hw.2.2.2.2.2.2.1).2.1

/-! ### value encodings -/

theorem mem_encsOfMsg {b : IBus} {m : IMessage} {c : DEnc} :
    c ∈ encsOfMsg b m ↔ ∃ s ∈ m.sigs, ∃ e, s.kind = .enum e ∧
      c = { msgId := m.id, sigName := s.name, values := (b.enums.getD e default).values } := by
  unfold encsOfMsg
  rw [List.mem_filterMap]
  constructor
  · rintro ⟨s, hs, hc⟩
    refine ⟨s, hs, ?_⟩
    unfold enumIdx at hc
    split at hc
    · rename_i e hk
      simp only [Option.map_some, Option.some.injEq] at hc
      exact ⟨e, hk, hc.symm⟩
    · simp at hc
  · rintro ⟨s, hs, e, hk, rfl⟩
    exact ⟨s, hs, by simp [enumIdx, hk]⟩

theorem encOf_export {b : IBus} (h : BusWF b) {m : IMessage} (hm : m ∈ exportOrder b) {s : ISignal}
    (hs : s ∈ m.sigs) :
    encOf (exportBus b).encs m.id s.name = (enumIdx s).map (fun e => (b.enums.getD e default).values) := by
  have hw := (wf_order h hm).2
  simp only [exportBus]
  cases hk : s.kind with
  | enum e =>
    simp only [enumIdx, hk, Option.map_some]
    apply encOf_eq_some
    · refine ⟨{ msgId := m.id, sigName := s.name, values := (b.enums.getD e default).values }, ?_, rfl, rfl⟩
      exact List.mem_flatMap.mpr ⟨m, hm, mem_encsOfMsg.mpr ⟨s, hs, e, hk, rfl⟩⟩
    · intro c hc hid hname
      obtain ⟨m', hm', hc'⟩ := List.mem_flatMap.mp hc
      obtain ⟨s', hs', e', hk', rfl⟩ := mem_encsOfMsg.mp hc'
      simp only at hid hname
      have := order_id_inj h hm' hm hid
      subst this
      have := sig_name_inj hw hs' hs hname
      subst this
      rw [hk] at hk'
      cases hk'
      rfl
  | standard t u =>
    simp only [enumIdx, hk, Option.map_none]
    apply encOf_eq_none
    intro c hc hkey
    obtain ⟨m', hm', hc'⟩ := List.mem_flatMap.mp hc
    obtain ⟨s', hs', e', hk', rfl⟩ := mem_encsOfMsg.mp hc'
    simp only at hkey
    have := order_id_inj h hm' hm hkey.1
    subst this
    have := sig_name_inj hw hs' hs hkey.2
    subst this
    rw [hk] at hk'
    cases hk'

/-! ### comments -/

theorem mem_cmIf {d : String} {c c' : DComment} : c' ∈ cmIf d c ↔ d ≠ "" ∧ c' = c := by
  unfold cmIf
  split
  · rename_i hd; simp [hd]
  · rename_i hd; simp [hd]

theorem mem_comments {b : IBus} {c : DComment} : c ∈ comments b ↔
    (b.desc ≠ "" ∧ c = .general b.desc) ∨
    (∃ n ∈ b.nodes, n.desc ≠ "" ∧ c = .node n.name n.desc) ∨
    (∃ m ∈ exportOrder b, m.desc ≠ "" ∧ c = .msg m.id m.desc) ∨
    (∃ m ∈ exportOrder b, ∃ s ∈ m.sigs, s.desc ≠ "" ∧ c = .sig m.id s.name s.desc) := by
  unfold comments
  rw [List.mem_append, mem_cmIf, List.mem_flatMap]
  constructor
  · rintro (hg | ⟨n, hn, hc⟩)
    · exact Or.inl hg
    · unfold nodeComments at hc
      rw [List.mem_append, mem_cmIf, List.mem_flatMap] at hc
      rcases hc with hnc | ⟨m, hm, hc⟩
      · exact Or.inr (Or.inl ⟨n, mem_sortedNodes.mp hn, hnc⟩)
      · have hmo : m ∈ exportOrder b := List.mem_flatMap.mpr ⟨n, hn, hm⟩
        unfold msgComments at hc
        rw [List.mem_append, mem_cmIf, List.mem_flatMap] at hc
        rcases hc with hmc | ⟨s, hs, hc⟩
        · exact Or.inr (Or.inr (Or.inl ⟨m, hmo, hmc⟩))
        · unfold sigComments at hc
          rw [mem_cmIf] at hc
          exact Or.inr (Or.inr (Or.inr ⟨m, hmo, s, hs, hc⟩))
  · rintro (hg | ⟨n, hn, hc⟩ | ⟨m, hm, hc⟩ | ⟨m, hm, s, hs, hc⟩)
    · exact Or.inl hg
    · refine Or.inr ⟨n, mem_sortedNodes.mpr hn, ?_⟩
      unfold nodeComments
      rw [List.mem_append, mem_cmIf]
      exact Or.inl hc
    · obtain ⟨n, hn, hmn⟩ := List.mem_flatMap.mp hm
      refine Or.inr ⟨n, hn, ?_⟩
      unfold nodeComments
      rw [List.mem_append, List.mem_flatMap]
      refine Or.inr ⟨m, hmn, ?_⟩
      unfold msgComments
      rw [List.mem_append, mem_cmIf]
      exact Or.inl hc
    · obtain ⟨n, hn, hmn⟩ := List.mem_flatMap.mp hm
      refine Or.inr ⟨n, hn, ?_⟩
      unfold nodeComments
      rw [List.mem_append, List.mem_flatMap]
      refine Or.inr ⟨m, hmn, ?_⟩
      unfold msgComments
      rw [List.mem_append, List.mem_flatMap]
      refine Or.inr ⟨s, hs, ?_⟩
      unfold sigComments
      rw [mem_cmIf]
      exact hc

theorem desc_general {b : IBus} : descOf selGeneral (comments b) = b.desc := by
  apply descOf_eq
  · intro c hc t hsel
    rcases mem_comments.mp hc with ⟨_, rfl⟩ | ⟨n, _, _, rfl⟩ | ⟨m, _, _, rfl⟩ | ⟨m, _, s, _, _, rfl⟩ <;>
      simp [selGeneral] at hsel
    exact hsel.symm
  · intro hd
    exact ⟨.general b.desc, mem_comments.mpr (Or.inl ⟨hd, rfl⟩), rfl⟩

theorem desc_node {b : IBus} (h : BusWF b) {n : INode} (hn : n ∈ b.nodes) :
    descOf (selNode n.name) (comments b) = n.desc := by
  apply descOf_eq
  · intro c hc t hsel
    rcases mem_comments.mp hc with ⟨_, rfl⟩ | ⟨n', hn', _, rfl⟩ | ⟨m, _, _, rfl⟩ | ⟨m, _, s, _, _, rfl⟩ <;>
      simp only [selNode] at hsel
    · cases hsel
    · split at hsel
      · rename_i heq
        cases hsel
        rw [node_name_inj h hn' hn heq]
      · cases hsel
    · cases hsel
    · cases hsel
  · intro hd
    exact ⟨.node n.name n.desc, mem_comments.mpr (Or.inr (Or.inl ⟨n, hn, hd, rfl⟩)), by simp [selNode]⟩

theorem desc_msg {b : IBus} (h : BusWF b) {m : IMessage} (hm : m ∈ exportOrder b) :
    descOf (selMsg m.id) (comments b) = m.desc := by
  apply descOf_eq
  · intro c hc t hsel
    rcases mem_comments.mp hc with ⟨_, rfl⟩ | ⟨n', _, _, rfl⟩ | ⟨m', hm', _, rfl⟩ | ⟨m', _, s, _, _, rfl⟩ <;>
      simp only [selMsg] at hsel
    · cases hsel
    · cases hsel
    · split at hsel
      · rename_i heq
        cases hsel
        rw [order_id_inj h hm' hm heq]
      · cases hsel
    · cases hsel
  · intro hd
    exact ⟨.msg m.id m.desc, mem_comments.mpr (Or.inr (Or.inr (Or.inl ⟨m, hm, hd, rfl⟩))), by simp [selMsg]⟩

theorem desc_sig {b : IBus} (h : BusWF b) {m : IMessage} (hm : m ∈ exportOrder b) {s : ISignal}
    (hs : s ∈ m.sigs) : descOf (selSig m.id s.name) (comments b) = s.desc := by
  apply descOf_eq
  · intro c hc t hsel
    rcases mem_comments.mp hc with ⟨_, rfl⟩ | ⟨n', _, _, rfl⟩ | ⟨m', _, _, rfl⟩ | ⟨m', hm', s', hs', _, rfl⟩ <;>
      simp only [selSig] at hsel
    · cases hsel
    · cases hsel
    · cases hsel
    · split at hsel
      · rename_i heq
        cases hsel
        have := order_id_inj h hm' hm heq.1
        subst this
        rw [sig_name_inj (wf_order h hm).2 hs' hs heq.2]
      · cases hsel
  · intro hd
    exact ⟨.sig m.id s.name s.desc,
      mem_comments.mpr (Or.inr (Or.inr (Or.inr ⟨m, hm, s, hs, hd, rfl⟩))), by simp [selSig]⟩

/-! ### the importer accepts the exported document -/

theorem valsOK_of_wf {vs : List DVal} (h : ValsWF vs) : ValsOK vs :=
  ⟨h.1.imp (fun hlt => Nat.ne_of_lt hlt), h.2⟩

theorem sortVals_of_wf {vs : List DVal} (h : ValsWF vs) : sortVals vs = vs := by
  unfold sortVals
  apply sortBy_chain
  exact (List.pairwise_map.mp h.1).imp (fun hlt => Nat.le_of_lt hlt)

theorem mem_dedupNat : ∀ {l : List Nat} {x : Nat}, x ∈ dedupNat l → x ∈ l
  | [], _, h => by simp [dedupNat] at h
  | y :: r, x, h => by
    unfold dedupNat at h
    rcases List.mem_cons.mp h with rfl | h
    · exact List.mem_cons_self ..
    · exact List.mem_cons_of_mem _ (mem_dedupNat (List.mem_filter.mp h).1)

theorem usedEnum_wf {b : IBus} (h : BusWF b) {e : Nat} (he : e ∈ usedEnums b) :
    ValsWF (b.enums.getD e default).values := by
  unfold usedEnums at he
  obtain ⟨m, hm, hs⟩ := List.mem_flatMap.mp (mem_dedupNat he)
  obtain ⟨s, hs, hk⟩ := List.mem_filterMap.mp hs
  have := (wf_order h hm).2.2.2.2.2.2.2.2 s hs
  unfold enumIdx at hk
  unfold SigWF at this
  split at hk
  · rename_i e' hk'
    cases hk
    simpa [hk'] using this
  · cases hk

theorem enum_size_ge (en : IEnum) : calcSize (maxIndex en.values : Nat) ≤ en.size := by
  unfold IEnum.size enumSize
  simp only
  split <;> omega

theorem enum_size_toNat (en : IEnum) : ((en.size.toNat : Nat) : Int) = en.size := by
  have := calcSize_pos (maxIndex en.values)
  have := enum_size_ge en
  omega

theorem export_fileOK {b : IBus} (h : BusWF b) : FileOK (exportBus b) := by
  refine ⟨?_, ?_, ?_, ?_, ?_, ?_⟩
  · intro t ht
    simp only [exportBus, tables] at ht
    obtain ⟨e, he, rfl⟩ := List.mem_map.mp ((mem_sortStr _).mp ht)
    exact valsOK_of_wf (usedEnum_wf h he)
  · intro c hc
    simp only [exportBus] at hc
    obtain ⟨m, hm, hc'⟩ := List.mem_flatMap.mp hc
    obtain ⟨s, hs, e, hk, rfl⟩ := mem_encsOfMsg.mp hc'
    have := (wf_order h hm).2.2.2.2.2.2.2.2 s hs
    simp only [SigWF, hk] at this
    exact valsOK_of_wf this
  · simp only [exportBus]
    exact (((sortedNodes_perm b).map (·.name)).nodup_iff).mpr h.1
  · simp only [exportBus, List.length_map]
    rw [(sortedNodes_perm b).length_eq]
    exact h.2.1
  · simp only [exportBus]
    rw [List.pairwise_map]
    have hb : b.msgs.Pairwise (fun m₁ m₂ => m₁.id ≠ m₂.id ∧ ¬(m₁.sender = m₂.sender ∧ m₁.name = m₂.name)) :=
      (List.pairwise_map.mp h.2.2.1).and h.2.2.2.1
    refine ((order_perm h).pairwise_iff ?_).mpr hb
    intro x y hxy
    exact ⟨fun heq => hxy.1 heq.symm, fun heq => hxy.2 ⟨heq.1.symm, heq.2.symm⟩⟩
  · intro dm hdm
    simp only [exportBus] at hdm
    obtain ⟨m, hm, rfl⟩ := List.mem_map.mp hdm
    obtain ⟨_, hw⟩ := wf_order h hm
    have hw' := hw
    obtain ⟨hsender, hrecv, hrnd, hsnr, hsize, hnames, hlay, hsigs⟩ := hw
    obtain ⟨lf1, _, lf3⟩ := layout_facts b (m.size * 8) (recvOf m) m.sigs 0 hlay
    have hnodes : ∀ r, r ∈ b.nodes.map (·.name) → r ∈ (exportBus b).nodes := by
      intro r hr
      simp only [exportBus]
      exact (((sortedNodes_perm b).map (·.name)).mem_iff).mpr hr
    rw [MsgPre, sortedSigs_exportMsg hw']
    refine ⟨?_, ?_, ?_, ?_, ?_, hsize, lf3, ?_⟩
    · simp only [exportMsg, List.map_map]
      have : (exportSig b (recvOf m) · |>.name) = (fun s : ISignal => s.name) := by
        funext s; simp
      simpa [Function.comp_def] using hnames
    · intro d hd
      simp only [exportMsg] at hd
      obtain ⟨s, hs, rfl⟩ := List.mem_map.mp hd
      simp only [exportSig_start, exportSig_size]
      exact (lf1 s hs).2
    · intro d hd r hr
      simp only [exportMsg] at hd
      obtain ⟨s, hs, rfl⟩ := List.mem_map.mp hd
      simp only [exportSig_receivers] at hr
      unfold recvOf at hr
      split at hr
      · left; simpa using hr
      · right; exact hnodes r (hrecv r ((mem_sortStr _).mp hr))
    · right; exact hnodes _ hsender
    · by_cases hp : m.sender = placeholder
      · left; exact hp
      · right
        intro d hd
        simp only [exportMsg] at hd
        obtain ⟨s, hs, rfl⟩ := List.mem_map.mp hd
        simp only [exportSig_receivers, exportMsg]
        unfold recvOf
        split
        · simpa using hp
        · intro hmem; exact hsnr ((mem_sortStr _).mp hmem)
    · intro d hd
      simp only [exportMsg] at hd
      obtain ⟨s, hs, rfl⟩ := List.mem_map.mp hd
      refine ⟨?_, ?_⟩
      · rw [exportSig_size]
        have := (lf1 s hs).2
        omega
      · simp only [exportMsg, exportSig_name]
        rw [encOf_export h hm hs]
        have hsw := hsigs s hs
        cases hk : s.kind with
        | enum e =>
          simp only [enumIdx, hk, Option.map_some]
          simp only [SigWF, hk] at hsw
          rw [sortVals_of_wf hsw]
          simp only [exportSig, hk]
          rw [enum_size_toNat]
          exact enum_size_ge _
        | standard t u =>
          simp only [enumIdx, hk, Option.map_none]
          simp only [SigWF, hk] at hsw
          simpa [exportSig, hk] using hsw

end Acme.ExportBus
