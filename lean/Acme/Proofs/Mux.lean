/-
Multiplexer world: the step theorem assembled from the per-operation files, and its
consequences for reachable worlds.
-/
import Acme.Proofs.MuxClearAll

namespace Acme.Mux
open Acme.Layout Acme.Arith

theorem invCore_step (w : MW) (op : Op) (h : InvCore w) (hok : OpOK w op) :
    InvCore (step w op).1 ∧ (step w op).2 ≠ .panic := by
  cases op with
  | sigLeaf s name size =>
    refine ⟨inv_sigLeaf w h s name size hok, ?_⟩
    simp only [step]; split <;> (try split) <;> (try split) <;> simp
  | sigMux s name gc gs =>
    refine ⟨inv_sigMux w h s name gc gs hok, ?_⟩
    simp only [step]
    split <;> (try split) <;> (try split) <;> (try split) <;> (try split) <;> simp
  | msgNew m k =>
    refine ⟨inv_msgNew w h m k hok, ?_⟩
    simp only [step]; split <;> simp
  | msgApp m s => exact inv_msgAttach w h m s none
  | msgIns m s st => exact inv_msgAttach w h m s (some st)
  | msgRm m s => exact inv_msgRm w h m s
  | msgClear m => exact inv_msgClear w h m hok.1
  | msgShl m s a => exact inv_msgShift w h true m s a hok.1
  | msgShr m s a => exact inv_msgShift w h false m s a hok.1
  | muxIns x s st gids => exact inv_muxIns w h x s st gids hok.1 hok.2
  | muxRm x s => exact inv_muxRm w h x s
  | muxClear x g => exact inv_muxClear w h x g
  | muxClearAll x => exact inv_muxClearAll w h x
  | muxShl x s a => exact inv_muxShift w h true x s a hok.1
  | muxShr x s a => exact inv_muxShift w h false x s a hok.1
  | leafSize s n => exact inv_leafSize w h s n hok.2
  | sigName s name => exact inv_sigName w h s name

theorem invCore_init : InvCore ({} : MW) := by
  apply InvCore.of_parts
  · intro x xe gc gs hx; simp [AMap_get_empty] at hx
  · intro m msg hm; simp [AMap_get_empty] at hm
  · intro s e hs; simp [AMap_get_empty] at hs
  · exact ⟨fun _ => 0, fun s e x hs => by simp [AMap_get_empty] at hs⟩

theorem inv_step (w : MW) (op : Op) (h : Inv w) (hok : OpOK w op) : Inv (step w op).1 :=
  inv_of_core _ (invCore_step w op h.toInvCore hok).1

theorem reach_invCore (w : MW) (h : Reach w) : InvCore w := by
  induction h with
  | init => exact invCore_init
  | step w op _ hok ih => exact (invCore_step w op ih hok).1

theorem reach_inv (w : MW) (h : Reach w) : Inv w := inv_of_core w (reach_invCore w h)

theorem step_nopanic (w : MW) (h : Reach w) (op : Op) (hok : OpOK w op) : (step w op).2 ≠ .panic :=
  (invCore_step w op (reach_invCore w h) hok).2

end Acme.Mux
