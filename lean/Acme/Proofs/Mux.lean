/-
Multiplexer world: the step theorem assembled from the per-operation files.
-/
import Acme.Proofs.MuxClear

namespace Acme.Mux
open Acme.Layout Acme.Arith

/-- the operations whose preservation proof is complete -/
def Proved : Op → Bool
  | .muxClearAll _ => false
  | .leafSize _ _ => false
  | _ => true

theorem invCore_step_partial (w : MW) (op : Op) (h : InvCore w) (hp : Proved op = true) (hok : OpOK w op) :
    InvCore (step w op).1 ∧ (step w op).2 ≠ .panic := by
  cases op with
  | sigLeaf s name size =>
    refine ⟨inv_sigLeaf w h s name size hok, ?_⟩
    simp only [step]; split <;> (try split) <;> (try split) <;> simp
  | sigMux s name gc gs =>
    refine ⟨inv_sigMux w h s name gc gs hok, ?_⟩
    simp only [step]
    split <;> (try split) <;> (try split) <;> (try split) <;> (try split) <;> simp
  | msgNew m k =>
    refine ⟨inv_msgNew w h m k hok, ?_⟩
    simp only [step]; split <;> simp
  | msgApp m s => exact inv_msgAttach w h m s none
  | msgIns m s st => exact inv_msgAttach w h m s (some st)
  | msgRm m s => exact inv_msgRm w h m s
  | msgClear m => exact inv_msgClear w h m hok.1
  | msgShl m s a => exact inv_msgShift w h true m s a hok.1
  | msgShr m s a => exact inv_msgShift w h false m s a hok.1
  | muxIns x s st gids => exact inv_muxIns w h x s st gids hok.1 hok.2
  | muxRm x s => exact inv_muxRm w h x s
  | muxClear x g => exact inv_muxClear w h x g
  | muxClearAll x => simp [Proved] at hp
  | muxShl x s a => exact inv_muxShift w h true x s a hok.1
  | muxShr x s a => exact inv_muxShift w h false x s a hok.1
  | leafSize s n => simp [Proved] at hp
  | sigName s name => exact inv_sigName w h s name

end Acme.Mux
