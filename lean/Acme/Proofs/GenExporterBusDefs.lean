/-
Vocabulary for the BUS-LEVEL obligations of the generated exporter (Acme.Gen.X.exportBus,
exportNodeInterfaces, exportMessage, exportSignal on top-level standard / enum signals,
exportSignalEnum): the VIEW of a model bus (`Acme.ExportBus.MBus` = `ImportBus.IBus`, the input of
the hand model `Acme.ExportBus.exportBus`) as the Go objects the exporter walks, the view of the
written state as the `DFile` of the hand model, and the condition `BusOK`.

THE VIEW.  `bus.NodeInterfaces()` answers the nodes sorted by id (`sortedNodes`), a node's
`SentMessages()` its messages sorted by id (`msgsOf`), `Receivers()` the receiver names sorted
(`sortStr id`), `Signals()` the signals in layout order; a signal refers to its type / unit / enum
object by index, the object is read from the store of the bus; the entity id of an enum object is
its index in the store (the identity of the object).  The messages are little endian and have no
multiplexer (what Acme.ExportBus models).

`BusOK` (decidable): every number that goes through `uint32(…)` is below 2^32 (the hand model keeps
the natural number), an enum's size is not negative, and the enum objects the walk meets have
pairwise different names — the exporter orders the value tables by (name, entity id) and the entity
id is a random text: with equal names the order is not determined by the model (the hand model
orders ties by first use, the stream compares them as a set).

`SortSpec`: what the abstract sort of the generated `exportBus` (`slices.SortFunc` with the
comparator Acme.Gen.Cmp.exporter_exporter_exportBus_1, applied to the values of the map
`e.sigEnums` in ANY iteration order) guarantees: a permutation of its argument, ascending by name.
-/
import Acme.Gen.Exporter
import Acme.Core.ExportBus
import Acme.Spec.ExportBus

namespace Acme.GenX
open Acme.ImportBus Acme.ExportBus Acme.XSem

/-! ## the view -/

def viewEnum (b : MBus) (e : Nat) : SigEnum :=
  let en := b.enums.getD e default
  { entityID := e, name := en.name, maxIndex := (maxIndex en.values : Nat),
    values := en.values.map (fun v => { index := (v.1 : Nat), name := v.2 }) }

def viewISig (b : MBus) (s : ISignal) : Sig :=
  let base : SigBase := { name := s.name, desc := s.desc, startBit := (s.start : Nat), hasParentMux := false }
  match s.kind with
  | .standard t u =>
    let ty := b.types.getD t default
    .standard { b := base, size := (ty.size : Nat),
                typ := { signed := ty.signed, min := ty.min, max := ty.max, offset := ty.offset, scale := ty.scale },
                unit := u.map (fun i => { symbol := b.units.getD i "" }) }
  | .enum e => .enum { b := base, size := (b.enums.getD e default).size, enum := viewEnum b e }

def viewIMsg (b : MBus) (m : IMessage) : Msg :=
  { name := m.name, desc := m.desc, canID := m.id, sizeByte := (m.size : Nat), senderName := m.sender,
    parent := { byteOrder := .littleEndian, receivers := sortStr id m.receivers },
    signals := m.sigs.map (viewISig b) }

def viewBus (b : MBus) : Bus :=
  { desc := b.desc,
    nodeInterfaces := (sortedNodes b).map (fun n =>
      { nodeName := n.name, nodeDesc := n.desc, sentMessages := (msgsOf b n).map (viewIMsg b) }) }

/-! ## the written side -/

def dsigOf (s : DbcSignal) : DSignal :=
  { name := s.name, start := s.startBit, size := s.size, signed := decide (s.valueType = .signed),
    factor := s.factor, offset := s.offset, min := s.min, max := s.max, unit := s.unit, receivers := s.receivers }

def dmessageOf (m : DbcMessage) : DMessage :=
  { id := m.id, name := m.name, size := m.size, transmitter := m.transmitter, sigs := m.signals.map dsigOf }

def dcommentOf (c : Acme.Dbc.Comment) : DComment :=
  match c.kind with
  | .general => .general c.text
  | .node => .node c.nodeName c.text
  | .message => .msg c.messageID c.text
  | .signal => .sig c.messageID c.signalName c.text
  | .envVar => .general c.text          -- never written by the exporter

def dvalsOf (l : List Acme.Dbc.ValueDescription) : List DVal := l.map (fun d => (d.id, d.name))

def dencOf (v : Acme.Dbc.ValueEncoding) : DEnc :=
  { msgId := v.messageID, sigName := v.signalName, values := dvalsOf v.values }

def dtableOf (t : Acme.Dbc.ValueTable) : DTable := { name := t.name, values := dvalsOf t.values }

/-- the written file, as the `DFile` of Acme.ImportBus -/
def dfileOf (st : XSem.St) : DFile :=
  { nodes := (st.nodes.map DbcNodes.names).getD [],
    tables := st.valueTables.map dtableOf,
    encs := st.valueEncodings.map dencOf,
    comments := st.comments.map dcommentOf,
    msgs := st.messages.map dmessageOf }

/-- the positional / multiplexing fields the bus level does not model are the defaults -/
def PlainSig (s : DbcSignal) : Prop :=
  s.isMultiplexor = false ∧ s.isMultiplexed = false ∧ s.muxSwitchValue = 0 ∧ s.byteOrder = .littleEndian

/-! ## the conditions -/

def lt32 (n : Nat) : Prop := n < 2 ^ 32

instance (n : Nat) : Decidable (lt32 n) := by unfold lt32; exact inferInstance

def SigOK32 (b : MBus) (s : ISignal) : Prop :=
  lt32 s.start ∧
  match s.kind with
  | .standard t _ => lt32 (b.types.getD t default).size
  | .enum e =>
    0 ≤ (b.enums.getD e default).size ∧ (b.enums.getD e default).size < 2 ^ 32 ∧
    ∀ v ∈ (b.enums.getD e default).values, lt32 v.1

instance (b : MBus) (s : ISignal) : Decidable (SigOK32 b s) := by
  unfold SigOK32; split <;> exact inferInstance

def BusOK (b : MBus) : Prop :=
  (∀ m ∈ b.msgs, lt32 m.size ∧ ∀ s ∈ m.sigs, SigOK32 b s) ∧
  ((usedEnums b).map (fun e => (b.enums.getD e default).name)).Nodup

instance (b : MBus) : Decidable (BusOK b) := by unfold BusOK; exact inferInstance

/-- the abstract sort of `exportBus` -/
def SortSpec (sortEnums : List SigEnum → List SigEnum) : Prop :=
  ∀ l, (sortEnums l).Perm l ∧ (sortEnums l).Pairwise (fun a b => a.name ≤ b.name)

end Acme.GenX
