/-
Multiplexer world, part D: the constructors (`sig.leaf`, `sig.mux`, `msg.new`).
-/
import Acme.Proofs.MuxFrame

namespace Acme.Mux
open Acme.Layout Acme.Arith

/-- the entity invariants only read the signal store -/
theorem MuxOK.congr_sigs {w w' : MW} (hs : w'.sigs = w.sigs) {x : Nat} {xe : SigE} {gc gs : Int}
    (h : MuxOK w x xe gc gs) : MuxOK w' x xe gc gs := by
  apply h.frame rfl
  · intro s hs'
    obtain ⟨e, he, _⟩ := (h.child s).mp hs'
    exact ⟨e, e, he, by rw [hs]; exact he, rfl, rfl, rfl⟩
  · intro s e' he' hp
    rw [hs] at he'
    exact (h.child s).mpr ⟨e', he', hp⟩

theorem MsgOK.congr_sigs {w w' : MW} (hs : w'.sigs = w.sigs) {m : Nat} {msg : MsgE}
    (h : MsgOK w m msg) : MsgOK w' m msg := by
  apply h.frame
  · intro s hs'
    obtain ⟨e, he, _⟩ := (h.reg s).mp hs'
    exact ⟨e, e, he, by rw [hs]; exact he, ⟨rfl, rfl, rfl⟩, rfl⟩
  · intro s e' he' hp
    rw [hs] at he'
    exact (h.reg s).mpr ⟨e', he', hp⟩

/-- adding a fresh, free signal -/
theorem inv_add_fresh (w : MW) (h : InvCore w) (s : Nat) (e0 : SigE) (hfresh : w.sigs.get s = none)
    (hpm : e0.parentMux = none) (hpg : e0.parentMsg = none)
    (hsz : ∀ z, e0.kind = .leaf z → 0 < z)
    (hmux : ∀ gc gs, e0.kind = .mux gc gs →
      0 < gc ∧ 0 < gs ∧ e0.mx.groups = List.replicate gc.toNat [] ∧ e0.mx.fixed = [] ∧
      e0.mx.groupIds = {} ∧ e0.mx.signals = [] ∧ e0.mx.signalNames = []) :
    InvCore { w with sigs := w.sigs.set s e0 } := by
  have hget : ∀ i, ({ w with sigs := w.sigs.set s e0 } : MW).sigs.get i = if i = s then some e0 else w.sigs.get i :=
    fun i => AMap.get_set _ _ _ _
  have hold : ∀ i e, w.sigs.get i = some e → ({ w with sigs := w.sigs.set s e0 } : MW).sigs.get i = some e := by
    intro i e hi
    have : i ≠ s := by rintro rfl; rw [hfresh] at hi; cases hi
    rw [hget, if_neg this, hi]
  have hnoparent : ∀ t e, w.sigs.get t = some e → e.parentMux ≠ some s := by
    intro t e ht hp
    obtain ⟨xe, _, _, hx, _, _⟩ := h.parentIsMux t e s ht hp
    rw [hfresh] at hx; cases hx
  apply InvCore.of_parts
  · intro x xe gc gs hx hk
    rw [hget] at hx
    by_cases hxs : x = s
    · subst hxs
      simp only [↓reduceIte, Option.some.injEq] at hx
      subst hx
      obtain ⟨h1, h2, h3, h4, h5, h6, h7⟩ := hmux gc gs hk
      refine ⟨⟨by rw [h3]; simp, h1, h2⟩, ?_, ?_, ?_, ?_, ?_, ?_, ?_, ?_, ?_, ?_, by rw [h6]; exact List.nodup_nil⟩
      · intro g hg
        rw [h3] at hg
        have := List.eq_of_mem_replicate hg
        subst this
        simp only [slotsOf, WF, WFfrom]
        omega
      · intro g hg
        rw [h3] at hg
        have := List.eq_of_mem_replicate hg
        subst this
        exact List.nodup_nil
      · rw [h4]; simp
      · rw [h5]; intro s' gids hh; simp [AMap_get_empty] at hh
      · intro s' _ _ g hg
        rw [h3] at hg
        have := List.eq_of_mem_replicate hg
        subst this
        simp
      · intro s'; rw [h6, h4, h5]; simp [AMap_get_empty]
      · rw [h4]; simp
      · intro s'
        rw [h6]
        simp only [List.not_mem_nil, false_iff]
        rintro ⟨e, he, hp⟩
        rw [hget] at he
        by_cases hs' : s' = x
        · subst hs'
          simp only [↓reduceIte, Option.some.injEq] at he
          subst he
          rw [hpm] at hp; cases hp
        · rw [if_neg hs'] at he
          exact hnoparent s' e he hp
      · rw [h7]; exact List.nodup_nil
      · intro n i; rw [h7, h6]; simp
    · rw [if_neg hxs] at hx
      have hm := h.muxOK hx hk
      apply hm.frame rfl
      · intro t ht
        obtain ⟨e, he, _⟩ := (hm.child t).mp ht
        exact ⟨e, e, he, hold t e he, rfl, rfl, rfl⟩
      · intro t e' he' hp
        rw [hget] at he'
        by_cases hts : t = s
        · subst hts
          simp only [↓reduceIte, Option.some.injEq] at he'
          subst he'
          rw [hpm] at hp; cases hp
        · rw [if_neg hts] at he'
          exact (hm.child t).mpr ⟨e', he', hp⟩
  · intro m msg hm
    have hmo := h.msgOK (show w.msgs.get m = some msg from hm)
    apply hmo.frame
    · intro t ht
      obtain ⟨e, he, _⟩ := (hmo.reg t).mp ht
      exact ⟨e, e, he, hold t e he, ⟨rfl, rfl, rfl⟩, rfl⟩
    · intro t e' he' hp
      rw [hget] at he'
      by_cases hts : t = s
      · subst hts
        simp only [↓reduceIte, Option.some.injEq] at he'
        subst he'
        rw [hpg] at hp; cases hp
      · rw [if_neg hts] at he'
        exact (hmo.reg t).mpr ⟨e', he', hp⟩
  · intro t e ht
    rw [hget] at ht
    by_cases hts : t = s
    · subst hts
      simp only [↓reduceIte, Option.some.injEq] at ht
      subst ht
      exact ⟨hsz, fun x hx => (by rw [hpm] at hx; cases hx), fun m hm => (by rw [hpg] at hm; cases hm)⟩
    · rw [if_neg hts] at ht
      have hl := h.linkOK ht
      refine ⟨hl.size, ?_, hl.msg⟩
      intro x hx
      obtain ⟨xe, gc, gs, h1, h2, h3⟩ := hl.parent x hx
      exact ⟨xe, gc, gs, hold x xe h1, h2, h3⟩
  · obtain ⟨depth, hd⟩ := h.acyclic
    refine ⟨depth, ?_⟩
    intro t e x ht hp
    rw [hget] at ht
    by_cases hts : t = s
    · subst hts
      simp only [↓reduceIte, Option.some.injEq] at ht
      subst ht
      rw [hpm] at hp; cases hp
    · rw [if_neg hts] at ht
      exact hd t e x ht hp

theorem inv_sigLeaf (w : MW) (h : InvCore w) (s : Nat) (name : String) (size : Int)
    (hok : OpOK w (.sigLeaf s name size)) : InvCore (step w (.sigLeaf s name size)).1 := by
  have hns := hok.1
  simp only [step] at hns ⊢
  split
  · rename_i hsome; simp [hsome] at hns
  · rename_i hnone
    have hfresh : w.sigs.get s = none := by
      cases hg : w.sigs.get s with
      | none => rfl
      | some e => simp [hg] at hnone
    split
    · exact h
    · split
      · exact h
      · rename_i h1 h2
        apply inv_add_fresh w h s _ hfresh rfl rfl
        · intro z hz
          simp only [SKind.leaf.injEq] at hz
          omega
        · intro gc gs hk; cases hk

theorem inv_sigMux (w : MW) (h : InvCore w) (s : Nat) (name : String) (gc gs : Int)
    (hok : OpOK w (.sigMux s name gc gs)) : InvCore (step w (.sigMux s name gc gs)).1 := by
  have hns := hok.1
  simp only [step] at hns ⊢
  split
  · rename_i hsome; simp [hsome] at hns
  · rename_i hnone
    have hfresh : w.sigs.get s = none := by
      cases hg : w.sigs.get s with
      | none => rfl
      | some e => simp [hg] at hnone
    split
    · exact h
    · split
      · exact h
      · split
        · exact h
        · split
          · exact h
          · rename_i h1 h2 h3 h4
            apply inv_add_fresh w h s _ hfresh rfl rfl
            · intro z hz; cases hz
            · intro gc' gs' hk
              simp only [SKind.mux.injEq] at hk
              obtain ⟨rfl, rfl⟩ := hk
              refine ⟨by omega, by omega, rfl, rfl, rfl, rfl, rfl⟩

theorem inv_msgNew (w : MW) (h : InvCore w) (m : Nat) (k : Int)
    (hok : OpOK w (.msgNew m k)) : InvCore (step w (.msgNew m k)).1 := by
  have hns := hok.1
  have hadm := hok.2
  simp only [admissible, decide_eq_true_eq] at hadm
  simp only [step] at hns ⊢
  split
  · rename_i hsome; simp [hsome] at hns
  · rename_i hnone
    have hfresh : w.msgs.get m = none := by
      cases hg : w.msgs.get m with
      | none => rfl
      | some e => simp [hg] at hnone
    have hget : ∀ j, (w.msgs.set m { sizeByte := k, cap := k * 8 }).get j =
        if j = m then some { sizeByte := k, cap := k * 8 } else w.msgs.get j := fun j => AMap.get_set _ _ _ _
    apply InvCore.of_parts
    · intro x xe gc' gs' hx hk
      exact MuxOK.congr_sigs (w := w) (by rfl) (h.muxOK (show w.sigs.get x = some xe from hx) hk)
    · intro j msg hj
      simp only at hj
      rw [hget] at hj
      by_cases hjm : j = m
      · subst hjm
        simp only [↓reduceIte, Option.some.injEq] at hj
        subst hj
        refine ⟨⟨rfl, hadm⟩, ?_, List.nodup_nil, ?_, ?_, List.nodup_nil, ?_⟩
        · simp only [slotsOf, WF, WFfrom]; omega
        · intro s
          simp only [List.not_mem_nil, false_iff]
          rintro ⟨e, he, _, hp⟩
          have := h.parentMsgExists s e j he hp
          rw [hfresh] at this; simp at this
        · intro s
          simp only [List.not_mem_nil, false_iff]
          rintro ⟨e, he, hp⟩
          have := h.parentMsgExists s e j he hp
          rw [hfresh] at this; simp at this
        · intro n i; simp
      · rw [if_neg hjm] at hj
        exact MsgOK.congr_sigs (w := w) (by rfl) (h.msgOK hj)
    · intro s e hs
      have hl := h.linkOK (show w.sigs.get s = some e from hs)
      refine ⟨hl.size, hl.parent, ?_⟩
      intro j hj
      simp only
      rw [hget]
      by_cases hjm : j = m
      · simp [hjm]
      · rw [if_neg hjm]; exact hl.msg j hj
    · exact h.acyclic

end Acme.Mux
