/-
General lemmas for the attribute round trip: the stopping loop `mapE`, `optList`, the sort of
an assignment list by attribute name, `upsert`, and the selection of the actions of one entity.
-/
import Acme.Spec.Attr

namespace Acme.Attr

/-! ## mapE / optList -/

theorem mapE_ok_of_forall {α β ε : Type} {f : α → Except ε β} {g : α → β} :
    ∀ l : List α, (∀ x ∈ l, f x = .ok (g x)) → mapE f l = .ok (l.map g)
  | [], _ => rfl
  | a :: r, h => by
    have h1 := h a (List.mem_cons_self ..)
    have h2 := mapE_ok_of_forall r (fun x hx => h x (List.mem_cons_of_mem _ hx))
    simp only [mapE, h1, h2, List.map_cons]

theorem mapE_append_ok {α β ε : Type} {f : α → Except ε β} :
    ∀ (l1 l2 : List α) (r1 r2 : List β), mapE f l1 = .ok r1 → mapE f l2 = .ok r2 →
      mapE f (l1 ++ l2) = .ok (r1 ++ r2)
  | [], l2, r1, r2, h1, h2 => by
    simp only [mapE, Except.ok.injEq] at h1
    subst h1
    simpa using h2
  | a :: l1, l2, r1, r2, h1, h2 => by
    simp only [mapE] at h1
    cases hfa : f a with
    | error e => rw [hfa] at h1; cases h1
    | ok b =>
      rw [hfa] at h1
      cases hr : mapE f l1 with
      | error e => rw [hr] at h1; cases h1
      | ok bs =>
        rw [hr] at h1
        simp only [Except.ok.injEq] at h1
        subst h1
        have := mapE_append_ok l1 l2 bs r2 hr h2
        simp only [List.cons_append, mapE, hfa, this]

theorem mapE_flatMap_ok {α β γ ε : Type} {f : α → Except ε β} {g : γ → List α} {h : γ → List β} :
    ∀ l : List γ, (∀ x ∈ l, mapE f (g x) = .ok (h x)) → mapE f (l.flatMap g) = .ok (l.flatMap h)
  | [], _ => rfl
  | a :: r, hh => by
    simp only [List.flatMap_cons]
    exact mapE_append_ok _ _ _ _ (hh a (List.mem_cons_self ..))
      (mapE_flatMap_ok r (fun x hx => hh x (List.mem_cons_of_mem _ hx)))

theorem optList_map_some {α : Type} : ∀ l : List α, optList (l.map some) = l
  | [] => rfl
  | a :: r => by simp only [List.map_cons, optList, optList_map_some r]

theorem optList_append {α : Type} : ∀ l1 l2 : List (Option α), optList (l1 ++ l2) = optList l1 ++ optList l2
  | [], _ => rfl
  | none :: r, l2 => by simp only [List.cons_append, optList, optList_append r l2]
  | some a :: r, l2 => by simp only [List.cons_append, optList, optList_append r l2]

/-! ## sorting by attribute name -/

/-- sorted by attribute name -/
def Sorted (l : List Asg) : Prop := l.Pairwise (fun a b => a.att.name ≤ b.att.name)

theorem insAsg_perm (x : Asg) : ∀ l, (insAsg x l).Perm (x :: l)
  | [] => List.Perm.refl _
  | y :: r => by
    unfold insAsg
    split
    · exact List.Perm.refl _
    · exact ((insAsg_perm x r).cons y).trans (List.Perm.swap x y r)

theorem sortAsgs_perm : ∀ l, (sortAsgs l).Perm l
  | [] => List.Perm.refl _
  | x :: r => (insAsg_perm x (sortAsgs r)).trans ((sortAsgs_perm r).cons x)

theorem mem_sortAsgs {a : Asg} {l : List Asg} : a ∈ sortAsgs l ↔ a ∈ l := (sortAsgs_perm l).mem_iff

theorem insAsg_sorted (x : Asg) : ∀ l, Sorted l → Sorted (insAsg x l)
  | [], _ => by simp [insAsg, Sorted]
  | y :: r, h => by
    unfold insAsg
    have hy := List.pairwise_cons.1 h
    split
    · rename_i hxy
      refine List.pairwise_cons.2 ⟨?_, h⟩
      intro z hz
      rcases List.mem_cons.1 hz with rfl | hz
      · exact hxy
      · exact String.le_trans hxy (hy.1 z hz)
    · rename_i hxy
      have hyx : y.att.name ≤ x.att.name := by
        rcases String.le_total x.att.name y.att.name with h1 | h1
        · exact absurd h1 hxy
        · exact h1
      refine List.pairwise_cons.2 ⟨?_, insAsg_sorted x r hy.2⟩
      intro z hz
      rcases List.mem_cons.1 ((insAsg_perm x r).mem_iff.1 hz) with rfl | hz
      · exact hyx
      · exact hy.1 z hz

theorem sortAsgs_sorted : ∀ l, Sorted (sortAsgs l)
  | [] => List.Pairwise.nil
  | x :: r => insAsg_sorted x _ (sortAsgs_sorted r)

theorem sortAsgs_of_sorted : ∀ l, Sorted l → sortAsgs l = l
  | [], _ => rfl
  | x :: r, h => by
    have hx := List.pairwise_cons.1 h
    simp only [sortAsgs, sortAsgs_of_sorted r hx.2]
    cases r with
    | nil => rfl
    | cons y r' => simp only [insAsg, hx.1 y (List.mem_cons_self ..), if_true]

theorem sortAsgs_idem (l : List Asg) : sortAsgs (sortAsgs l) = sortAsgs l :=
  sortAsgs_of_sorted _ (sortAsgs_sorted l)

theorem names_sortAsgs_nodup {l : List Asg} (h : (names l).Nodup) : (names (sortAsgs l)).Nodup :=
  ((sortAsgs_perm l).map _).nodup_iff.2 h

/-! ## the hex flag normalisation -/

theorem exportsAsHex_idem (h : Bool) (mn mx : Int) :
    exportsAsHex (exportsAsHex h mn mx) mn mx = exportsAsHex h mn mx := by
  unfold exportsAsHex
  cases h <;> cases decide (0 ≤ mn) <;> cases decide (mx ≤ 4294967295) <;> rfl

theorem normTy_idem (t : AttrType) : normTy (normTy t) = normTy t := by
  cases t <;> simp [normTy, exportsAsHex_idem]

theorem normAsg_idem (a : Asg) : normAsg (normAsg a) = normAsg a := by
  simp [normAsg, normAtt, normTy_idem]

theorem normAsg_name (a : Asg) : (normAsg a).att.name = a.att.name := rfl

theorem names_map_normAsg (l : List Asg) : names (l.map normAsg) = names l := by
  simp [names, List.map_map, Function.comp_def, normAsg_name]

theorem sorted_map_normAsg {l : List Asg} (h : Sorted l) : Sorted (l.map normAsg) := by
  unfold Sorted at *
  rw [List.pairwise_map]
  exact h

theorem sortAsgs_normAsgs (l : List Asg) : sortAsgs (normAsgs l) = normAsgs l :=
  sortAsgs_of_sorted _ (sorted_map_normAsg (sortAsgs_sorted l))

theorem normAsgs_idem (l : List Asg) : normAsgs (normAsgs l) = normAsgs l := by
  show (sortAsgs (normAsgs l)).map normAsg = normAsgs l
  rw [sortAsgs_normAsgs]
  simp [normAsgs, List.map_map, Function.comp_def, normAsg_idem]

theorem names_normAsgs_nodup {l : List Asg} (h : (names l).Nodup) : (names (normAsgs l)).Nodup := by
  unfold normAsgs
  rw [names_map_normAsg]
  exact names_sortAsgs_nodup h

theorem checkAssign_normTy (t : AttrType) (v : Val) : checkAssign (normTy t) v = checkAssign t v := by
  cases t <;> cases v <;> rfl

/-! ## upsert and the folds -/

theorem upsert_of_not_mem (a : Asg) : ∀ l, a.att.name ∉ names l → upsert a l = l ++ [a]
  | [], _ => rfl
  | b :: r, h => by
    have hb : ¬ b.att.name = a.att.name := fun e => h (by simp [names, e])
    have hr : a.att.name ∉ names r := fun hm => h (by simp only [names, List.map_cons, List.mem_cons]; exact Or.inr hm)
    simp only [upsert, hb, if_false, upsert_of_not_mem a r hr, List.cons_append]

theorem foldl_assign : ∀ (l acc : List Asg), (names (acc ++ l)).Nodup →
    (l.map Action.assign).foldl stepAsgs acc = acc ++ l
  | [], acc, _ => by simp
  | a :: r, acc, h => by
    have hna : a.att.name ∉ names acc := by
      intro hm
      simp only [names, List.map_append, List.map_cons] at h
      have := (List.nodup_append.1 h).2.2 _ hm a.att.name (List.mem_cons_self ..)
      exact this rfl
    have h' : (names ((acc ++ [a]) ++ r)).Nodup := by simpa using h
    simp only [List.map_cons, List.foldl_cons, stepAsgs, upsert_of_not_mem a acc hna]
    rw [foldl_assign r (acc ++ [a]) h']
    simp

/-- an action that is not an assignment -/
def Action.isField : Action → Prop
  | .assign _ => False
  | _ => True

theorem foldl_stepAsgs_fields : ∀ (l : List Action) (acc : List Asg), (∀ x ∈ l, x.isField) →
    l.foldl stepAsgs acc = acc
  | [], _, _ => rfl
  | x :: r, acc, h => by
    have hx := h x (List.mem_cons_self ..)
    have : stepAsgs acc x = acc := by cases x <;> first | rfl | exact absurd hx (by simp [Action.isField])
    simp only [List.foldl_cons, this]
    exact foldl_stepAsgs_fields r acc (fun y hy => h y (List.mem_cons_of_mem _ hy))

theorem foldl_stepMsgF_assign : ∀ (l : List Asg) (f : MsgF), (l.map Action.assign).foldl stepMsgF f = f
  | [], _ => rfl
  | _ :: r, f => by simp only [List.map_cons, List.foldl_cons, stepMsgF]; exact foldl_stepMsgF_assign r f

theorem foldl_stepSigF_assign : ∀ (l : List Asg) (f : SigF), (l.map Action.assign).foldl stepSigF f = f
  | [], _ => rfl
  | _ :: r, f => by simp only [List.map_cons, List.foldl_cons, stepSigF]; exact foldl_stepSigF_assign r f

/-! ## the actions of one entity -/

theorem filter_key_all {k : Key} : ∀ l : List (Key × Action), (∀ x ∈ l, x.1 = k) →
    l.filter (fun x => decide (x.1 = k)) = l
  | [], _ => rfl
  | x :: r, h => by
    have hx := h x (List.mem_cons_self ..)
    simp only [List.filter_cons, hx, decide_true, if_true]
    rw [filter_key_all r (fun y hy => h y (List.mem_cons_of_mem _ hy))]

theorem filter_key_none {k : Key} : ∀ l : List (Key × Action), (∀ x ∈ l, x.1 ≠ k) →
    l.filter (fun x => decide (x.1 = k)) = []
  | [], _ => rfl
  | x :: r, h => by
    have hx := h x (List.mem_cons_self ..)
    simp only [List.filter_cons, hx, decide_false]
    exact filter_key_none r (fun y hy => h y (List.mem_cons_of_mem _ hy))

theorem filter_flatMap_key (seg : Ent → List (Key × Action)) (hseg : ∀ e, ∀ x ∈ seg e, x.1 = e.key) :
    ∀ (ents : List Ent), (ents.map Ent.key).Nodup → ∀ e ∈ ents,
      (ents.flatMap seg).filter (fun x => decide (x.1 = e.key)) = seg e
  | [], _, e, he => by cases he
  | e' :: r, hnd, e, he => by
    simp only [List.map_cons, List.nodup_cons] at hnd
    simp only [List.flatMap_cons, List.filter_append]
    rcases List.mem_cons.1 he with rfl | her
    · rw [filter_key_all _ (hseg e)]
      have : (r.flatMap seg).filter (fun x => decide (x.1 = e.key)) = [] := by
        apply filter_key_none
        intro x hx
        obtain ⟨e'', he'', hx'⟩ := List.mem_flatMap.1 hx
        rw [hseg e'' x hx']
        intro hk
        exact hnd.1 (hk ▸ List.mem_map_of_mem he'')
      rw [this, List.append_nil]
    · have hne : e'.key ≠ e.key := fun hk => hnd.1 (hk ▸ List.mem_map_of_mem her)
      rw [filter_key_none _ (fun x hx => by rw [hseg e' x hx]; exact hne), List.nil_append]
      exact filter_flatMap_key seg hseg r hnd.2 e her

theorem filter_flatMap_other (seg : Ent → List (Key × Action)) (hseg : ∀ e, ∀ x ∈ seg e, x.1 = e.key)
    (k : Key) (ents : List Ent) (hk : ∀ e ∈ ents, e.key ≠ k) :
    (ents.flatMap seg).filter (fun x => decide (x.1 = k)) = [] := by
  apply filter_key_none
  intro x hx
  obtain ⟨e, he, hx'⟩ := List.mem_flatMap.1 hx
  rw [hseg e x hx']
  exact hk e he

theorem Ent.key_ne_bus (e : Ent) : e.key ≠ .bus := by cases e <;> simp [Ent.key]

end Acme.Attr
