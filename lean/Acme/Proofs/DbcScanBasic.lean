/-
Basic facts about the scanner model (`Acme.Core.DbcScan`):
* every `s.scan()` consumes a non-empty prefix of a non-empty input, and the `rd` runes of the
  items consumed are the raw value of the token (`scanTok_consumes`, `scanTok_progress`);
* the fuel of `scanFuel` never runs out (`scanFuel_isSome`).
-/
import Acme.Core.DbcScan
import Acme.Spec.DbcScan

namespace Acme.Dbc.Scan

/-- `lx` has consumed a prefix `used` of `inp`; its raw value is `pre` followed by the runes of
`used` -/
def Consumes (pre : List Char) (inp : List Item) (lx : Lex) : Prop :=
  ∃ used, inp = used ++ lx.rest ∧ lx.raw = pre ++ rds used

theorem rds_append (a b : List Item) : rds (a ++ b) = rds a ++ rds b := by simp [rds]

theorem rds_cons (a : Item) (b : List Item) : rds (a :: b) = a.rd :: rds b := rfl

theorem rds_nil : rds [] = [] := rfl

theorem rds_length (a : List Item) : (rds a).length = a.length := by simp [rds]

theorem consumes_nil (pre : List Char) (inp : List Item) (lx : Lex)
    (h1 : lx.rest = inp) (h2 : lx.raw = pre) : Consumes pre inp lx :=
  ⟨[], by simp [h1], by simp [h2, rds]⟩

/-- shifting consumed items into the prefix -/
theorem consumes_shift (pre : List Char) (us : List Item) (inp : List Item) (lx : Lex)
    (h : Consumes (pre ++ rds us) inp lx) : Consumes pre (us ++ inp) lx := by
  obtain ⟨used, h1, h2⟩ := h
  exact ⟨us ++ used, by simp [h1], by simp [h2, rds]⟩

theorem consumes_numFinish (f : Char) (hm rg : Bool) (pre : List Char) (inp : List Item) :
    Consumes pre inp (numFinish f hm rg pre inp) := by
  unfold numFinish
  split
  · exact consumes_nil _ _ _ rfl rfl
  · split <;> exact consumes_nil _ _ _ rfl rfl

theorem consumes_scanHex (pre : List Char) (inp : List Item) :
    Consumes pre inp (scanHexNumber pre inp) := by
  unfold scanHexNumber
  split
  · exact consumes_nil _ _ _ rfl rfl
  · cases inp with
    | nil => exact consumes_nil _ _ _ rfl rfl
    | cons x rest =>
      cases rest with
      | nil => exact consumes_nil _ _ _ rfl rfl
      | cons d rest =>
        dsimp only
        refine ⟨x :: d :: (rest.take 8).takeWhile (fun it => isHexNumber it.pk), ?_, ?_⟩
        · simp only [List.cons_append, List.cons.injEq, true_and]
          have h : (rest.take 8).takeWhile (fun it => isHexNumber it.pk) <+: rest :=
            (List.takeWhile_prefix _).trans (List.take_prefix _ _)
          exact (List.prefix_iff_eq_append.mp h).symm
        · simp [rds]

theorem consumes_scanExp (pre : List Char) (inp : List Item) :
    Consumes pre inp (scanExpNumber pre inp) := by
  unfold scanExpNumber
  simp only []
  cases inp with
  | nil =>
    split
    · exact consumes_nil _ _ _ rfl rfl
    · split <;> exact consumes_nil _ _ _ rfl rfl
  | cons e rest =>
    split
    · exact ⟨[e], by simp, by simp [rds]⟩
    · split
      · cases rest with
        | nil => exact consumes_nil _ _ _ rfl rfl
        | cons sg rest =>
          dsimp only
          split
          · exact ⟨[e, sg], by simp, by simp [rds]⟩
          · exact ⟨e :: sg :: rest.takeWhile (fun it => isNumber it.pk), by simp, by simp [rds]⟩
      · exact ⟨e :: rest.takeWhile (fun it => isNumber it.pk), by simp, by simp [rds]⟩

theorem consumes_numLoop (f : Char) (n : Nat) : ∀ (inp : List Item), inp.length ≤ n →
    ∀ (prev : Char) (hm rg : Bool) (pre : List Char),
      Consumes pre inp (numLoop f prev hm rg pre inp) := by
  induction n with
  | zero =>
    intro inp hl prev hm rg pre
    cases inp with
    | nil => unfold numLoop; exact consumes_numFinish ..
    | cons a rest => simp at hl
  | succ n ih =>
    intro inp hl prev hm rg pre
    cases inp with
    | nil => unfold numLoop; exact consumes_numFinish ..
    | cons a rest =>
      unfold numLoop
      simp only []
      split
      · exact consumes_numFinish ..
      split
      · exact consumes_scanHex ..
      split
      · split
        · exact consumes_scanExp ..
        split
        · cases rest with
          | nil => exact consumes_numFinish ..
          | cons b rest' =>
            dsimp only
            split
            · have := ih rest' (by simp at hl; omega) prev hm true (pre ++ [a.rd, b.rd])
              exact consumes_shift pre [a, b] rest' _ (by simpa [rds] using this)
            · exact consumes_numFinish ..
        · exact consumes_numFinish ..
      split
      · exact consumes_numFinish ..
      · have := ih rest (by simp at hl; omega) a.pk true rg (pre ++ [a.rd])
        exact consumes_shift pre [a] rest _ (by simpa [rds] using this)

theorem consumes_scanString (first : Char) (inp : List Item) :
    Consumes [first] inp (scanString first inp) := by
  unfold scanString
  simp only []
  have key := List.takeWhile_append_dropWhile
    (p := fun it : Item => !isEOF it.rd && it.rd != '"') (l := inp)
  generalize List.dropWhile (fun it : Item => !isEOF it.rd && it.rd != '"') inp = d at key ⊢
  generalize List.takeWhile (fun it : Item => !isEOF it.rd && it.rd != '"') inp = b at key ⊢
  cases d with
  | nil => exact ⟨b, by simpa using key.symm, by simp [rds]⟩
  | cons q rest =>
    dsimp only
    split
    · exact ⟨b ++ [q], by simpa using key.symm, by simp [rds]⟩
    · exact ⟨b ++ [q], by simpa using key.symm, by simp [rds]⟩

/-- one `s.scan()` on a non-empty input reads the first item and then a prefix of the rest -/
theorem scanTok_consumes_cons (it : Item) (rest : List Item) :
    Consumes [it.rd] rest (scanTok (it :: rest)) := by
  unfold scanTok
  simp only []
  split
  · exact consumes_nil _ _ _ rfl rfl
  split
  · exact ⟨rest.takeWhile (fun it => isSpace it.pk), by simp [scanSpace], by simp [scanSpace]⟩
  split
  · exact ⟨rest.takeWhile (fun it => isAlphaNumeric it.pk), by simp [scanText], by simp [scanText]⟩
  split
  · exact consumes_numLoop it.rd rest.length rest (Nat.le_refl _) it.rd false false [it.rd]
  split
  · exact consumes_scanString ..
  split
  · exact consumes_nil _ _ _ rfl rfl
  · exact consumes_nil _ _ _ rfl rfl

/-- the runes a token was made of are the `rd`s of the items it consumed -/
theorem scanTok_consumes (inp : List Item) : Consumes [] inp (scanTok inp) := by
  cases inp with
  | nil => exact consumes_nil _ _ _ rfl rfl
  | cons it rest => exact consumes_shift [] [it] rest _ (scanTok_consumes_cons it rest)

theorem scanTok_nil : scanTok [] = { kind := .eof, raw := [], rest := [] } := rfl

theorem scanTok_progress (it : Item) (rest : List Item) :
    (scanTok (it :: rest)).rest.length < (it :: rest).length := by
  obtain ⟨used, h1, _⟩ := scanTok_consumes_cons it rest
  have := congrArg List.length h1
  simp at this ⊢
  omega

theorem scanTok_raw_ne_nil (it : Item) (rest : List Item) : (scanTok (it :: rest)).raw ≠ [] := by
  obtain ⟨used, _, h2⟩ := scanTok_consumes_cons it rest
  simp [h2]

/-- the first rune of the raw value is the first rune of the input -/
theorem scanTok_raw_head (it : Item) (rest : List Item) :
    (scanTok (it :: rest)).raw.head? = some it.rd := by
  obtain ⟨used, _, h2⟩ := scanTok_consumes_cons it rest
  simp [h2]

/-- a token that starts with a blank is a space token -/
theorem scanTok_space (it : Item) (rest : List Item) (h : isSpace it.rd = true) :
    (scanTok (it :: rest)).kind = .space := by
  have h0 : isEOF it.rd = false := by
    simp only [isSpace, Bool.or_eq_true, beq_iff_eq] at h
    rcases h with ((h | h) | h) | h <;> rw [h] <;> decide
  simp [scanTok, h0, h, scanSpace]

/-! ## fuel -/

theorem step_inp (s : St) : (step s).2.inp = (scanTok s.inp).rest := rfl

theorem step_kind (s : St) : (step s).1.kind = (scanTok s.inp).kind := rfl

theorem scanFuel_isSome (fuel : Nat) : ∀ s : St, s.inp.length < fuel → (scanFuel fuel s).isSome := by
  induction fuel with
  | zero => intro s h; omega
  | succ fuel ih =>
    intro s h
    unfold scanFuel
    simp only []
    split
    · rfl
    · rename_i hk
      rw [Option.isSome_map]
      apply ih
      rw [step_inp]
      cases hi : s.inp with
      | nil =>
        exfalso
        apply hk
        simp [step_kind, hi, scanTok_nil]
      | cons it rest =>
        have := scanTok_progress it rest
        rw [hi] at h
        omega

end Acme.Dbc.Scan
