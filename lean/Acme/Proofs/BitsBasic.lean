/-
Basic bit arithmetic for C02: masks, chunks, rawLE/rawBE splitting and byte-local forms.
-/
import Acme.Core.Bits
import Acme.Spec.Bits

namespace Acme.Bits
open Acme.Layout

/-- `m` has exactly the bits `lo .. lo+len-1` -/
def MaskIs (m lo len : Nat) : Prop := ∀ j, m.testBit j = decide (lo ≤ j ∧ j < lo + len)

theorem testBit_255 (j : Nat) : (255 : Nat).testBit j = decide (j < 8) :=
  Nat.testBit_two_pow_sub_one 8 j

theorem u8_testBit (x j : Nat) : (u8 x).testBit j = (decide (j < 8) && x.testBit j) := by
  unfold u8
  exact Nat.testBit_mod_two_pow x 8 j

theorem maskIs_gen (lo len : Nat) (h : lo + len ≤ 8) :
    MaskIs (u8 ((1 <<< len - 1) <<< lo)) lo len := by
  intro j
  rw [u8_testBit, Nat.testBit_shiftLeft, Nat.shiftLeft_eq, Nat.one_mul,
    Nat.testBit_two_pow_sub_one, Bool.eq_iff_iff]
  simp only [Bool.and_eq_true, decide_eq_true_eq]
  omega

theorem maskIs_low (len : Nat) (h : len ≤ 8) : MaskIs (u8 (1 <<< len - 1)) 0 len := by
  have := maskIs_gen 0 len (by omega)
  simpa using this

theorem maskIs_ff : MaskIs 0xff 0 8 := by
  intro j
  rw [testBit_255, Bool.eq_iff_iff]
  simp only [decide_eq_true_eq]
  omega

theorem maskIs_ffl (off : Nat) (h : off ≤ 8) : MaskIs (u8 (0xff <<< off)) off (8 - off) := by
  intro j
  rw [u8_testBit, Nat.testBit_shiftLeft, testBit_255, Bool.eq_iff_iff]
  simp only [Bool.and_eq_true, decide_eq_true_eq]
  omega

theorem maskIs_ffr (off : Nat) (h : off ≤ 8) : MaskIs (u8 (0xff >>> off)) 0 (8 - off) := by
  intro j
  rw [u8_testBit, Nat.testBit_shiftRight, testBit_255, Bool.eq_iff_iff]
  simp only [Bool.and_eq_true, decide_eq_true_eq]
  omega

/-- the masked, shifted byte is the bit field `lo .. lo+len-1` of the byte -/
theorem chunk_val (b m lo len : Nat) (hm : MaskIs m lo len) :
    (b &&& m) >>> lo = (b / 2 ^ lo) % 2 ^ len := by
  apply Nat.eq_of_testBit_eq
  intro i
  rw [Nat.testBit_shiftRight, Nat.testBit_and, hm, Nat.testBit_mod_two_pow, Nat.testBit_div_two_pow,
    Bool.eq_iff_iff, Nat.add_comm i lo]
  simp only [Bool.and_eq_true, decide_eq_true_eq]
  constructor
  · rintro ⟨h1, _, h2⟩
    exact ⟨by omega, h1⟩
  · rintro ⟨h1, h2⟩
    exact ⟨h2, by omega, by omega⟩

theorem field_succ (b e n : Nat) :
    (b / 2 ^ e) % 2 ^ (n + 1) = (b.testBit e).toNat + 2 * ((b / 2 ^ (e + 1)) % 2 ^ n) := by
  rw [Nat.toNat_testBit, Nat.pow_succ 2 e, ← Nat.div_div_eq_div_mul]
  generalize b / 2 ^ e = x
  rw [Nat.pow_succ, Nat.mul_comm (2 ^ n) 2, Nat.mod_mul]

theorem field_lt (x n : Nat) : x % 2 ^ n < 2 ^ n := Nat.mod_lt _ (Nat.two_pow_pos n)

/-! ### rawLE / rawBE -/

theorem rawLE_lt (data : List Nat) (st n : Nat) : rawLE data st n < 2 ^ n := by
  induction n generalizing st with
  | zero => simp [rawLE]
  | succ n ih =>
    have := ih (st + 1)
    have hb : (bitLE data st).toNat ≤ 1 := Bool.toNat_le _
    rw [rawLE, Nat.pow_succ]
    omega

theorem rawBE_lt (data : List Nat) (st n : Nat) : rawBE data st n < 2 ^ n := by
  induction n with
  | zero => simp [rawBE]
  | succ n ih =>
    have hb : (bitBE data (st + n)).toNat ≤ 1 := Bool.toNat_le _
    rw [rawBE, Nat.pow_succ]
    omega

theorem rawLE_add (data : List Nat) (st a b : Nat) :
    rawLE data st (a + b) = rawLE data st a + 2 ^ a * rawLE data (st + a) b := by
  induction a generalizing st with
  | zero => simp [rawLE]
  | succ a ih =>
    rw [show a + 1 + b = (a + b) + 1 by omega, rawLE, rawLE, ih (st + 1), Nat.pow_succ,
      show st + 1 + a = st + (a + 1) by omega]
    rw [Nat.mul_add, Nat.add_assoc, Nat.mul_comm (2 ^ a) 2, Nat.mul_assoc]

theorem rawBE_add (data : List Nat) (st a b : Nat) :
    rawBE data st (a + b) = 2 ^ b * rawBE data st a + rawBE data (st + a) b := by
  induction b with
  | zero => simp [rawBE]
  | succ b ih =>
    rw [← Nat.add_assoc, rawBE, rawBE, ih, Nat.pow_succ, Nat.add_assoc st a b]
    rw [Nat.mul_add, Nat.add_assoc, Nat.mul_comm (2 ^ b) 2, Nat.mul_assoc]

/-- the most significant bit first form of `rawBE` -/
theorem rawBE_succ' (data : List Nat) (st n : Nat) :
    rawBE data st (n + 1) = (bitBE data st).toNat * 2 ^ n + rawBE data (st + 1) n := by
  rw [Nat.add_comm n 1, rawBE_add, Nat.mul_comm]
  simp [rawBE]

/-- bits `st .. st+n-1` inside byte `k`, Intel numbering -/
theorem rawLE_local (data : List Nat) (k lo n : Nat) (h : lo + n ≤ 8) :
    rawLE data (8 * k + lo) n = (data.getD k 0 / 2 ^ lo) % 2 ^ n := by
  induction n generalizing lo with
  | zero => simp [rawLE, Nat.mod_one]
  | succ n ih =>
    rw [rawLE, field_succ, Nat.add_assoc, ih (lo + 1) (by omega)]
    have h1 : (8 * k + lo) / 8 = k := by omega
    have h2 : (8 * k + lo) % 8 = lo := by omega
    simp only [bitLE, h1, h2]

/-- big-endian positions `8k+o .. 8k+o+n-1` inside byte `k` -/
theorem rawBE_local (data : List Nat) (k o n : Nat) (h : o + n ≤ 8) :
    rawBE data (8 * k + o) n = (data.getD k 0 / 2 ^ (8 - o - n)) % 2 ^ n := by
  induction n with
  | zero => simp [rawBE, Nat.mod_one]
  | succ n ih =>
    rw [rawBE, field_succ, ih (by omega)]
    have h1 : (8 * k + o + n) / 8 = k := by omega
    have h2 : 7 - (8 * k + o + n) % 8 = 8 - o - (n + 1) := by omega
    have h3 : 8 - o - (n + 1) + 1 = 8 - o - n := by omega
    simp only [bitBE, h1, h2, h3]
    omega

/-- `a ||| (b <<< k)` is an addition when `a < 2^k` -/
theorem or_shl_eq_add (a b k : Nat) (h : a < 2 ^ k) : a ||| (b <<< k) = a + 2 ^ k * b := by
  rw [Nat.or_comm, ← Nat.shiftLeft_add_eq_or_of_lt h, Nat.shiftLeft_eq]
  rw [Nat.mul_comm, Nat.add_comm]

theorem shl_or_eq_add (a b k : Nat) (h : b < 2 ^ k) : (a <<< k) ||| b = a * 2 ^ k + b := by
  rw [← Nat.shiftLeft_add_eq_or_of_lt h, Nat.shiftLeft_eq]

end Acme.Bits
