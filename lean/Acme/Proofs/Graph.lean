/-
`Inv` is preserved by every admissible operation of `Acme.Graph.step`, hence holds in
every reachable world.
-/
import Acme.Proofs.GraphNet
import Acme.Proofs.GraphRef
import Acme.Proofs.GraphMsg
import Acme.Proofs.GraphSent
import Acme.Proofs.GraphRecv
import Acme.Proofs.GraphBus
import Acme.Proofs.GraphNode

namespace Acme.Graph

theorem Inv_init : Inv ({} : G) := by
  refine ⟨⟨?_, ?_, ?_, ?_⟩, ⟨?_, ?_, ?_, ?_, ?_, ?_⟩, ⟨?_, ?_⟩, ⟨?_, ?_, ?_, ?_, ?_, ?_, ?_, ?_⟩,
    ⟨?_, ?_, ?_, ?_, ?_⟩, ⟨?_, ?_, ?_, ?_, ?_, ?_⟩, ⟨?_, ?_⟩, ⟨?_, ?_, ?_, ?_, ?_, ?_, ?_, ?_⟩, ⟨?_, ?_⟩, ⟨?_, ?_⟩⟩
  all_goals (intros; simp [netBuses, netBusNames, busName, busParent, busBuilder, busNodeInts, busNodeNames, busNodeIDs,
    busStaticIDs, busAttrs, nodeNameC, nodeNidC, nodeIfaces, nodeIfaceCount, nodeAttrs, ifaceNode, ifaceNumber, ifaceBus,
    ifaceSent, ifaceSentNames, ifaceSentIDs, ifaceSentStatic, ifaceRecv, msgName, msgMid, msgStatic, msgSender,
    msgReceivers, msgAttrs, builderRefs, attrRefs, defRefs, sigTyp, sigUnit, sigAttrs, MsgOnBus, HasAttr, Reg.keys] at *)

theorem Inv_step {g : G} (h : Inv g) {op : Op} (ok : OpOK g op) : Inv (step g op).1 := by
  have hx := ok.2
  clear ok
  cases op with
  | netNew n name => simp only [OpExtra] at hx; exact stepNetNew_inv h n name
  | netAddBus n b => simp only [OpExtra] at hx; exact stepNetAddBus_inv h n b
  | netRemoveBus n b => simp only [OpExtra] at hx; exact stepNetRemoveBus_inv h n b
  | netRemoveAllBuses n => simp only [OpExtra] at hx; exact stepNetRemoveAllBuses_inv h n
  | busNew b name => simp only [OpExtra] at hx; exact stepBusNew_inv h b name hx
  | busRename b name => simp only [OpExtra] at hx; exact stepBusRename_inv h b name
  | busAddIface b i => simp only [OpExtra] at hx; exact stepBusAddIface_inv h b i hx
  | busRemoveIface b nd => simp only [OpExtra] at hx; exact stepBusRemoveIface_inv h b nd
  | busRemoveAllIfaces b => simp only [OpExtra] at hx; exact stepBusRemoveAllIfaces_inv h b
  | busSetBuilder b c => simp only [OpExtra] at hx; exact stepBusSetBuilder_inv h b c
  | builderNew c => simp only [OpExtra] at hx; exact stepBuilderNew_inv h c
  | nodeNew n name nid count ifs => simp only [OpExtra] at hx; exact stepNodeNew_inv h n name nid count ifs hx
  | nodeRename n name => simp only [OpExtra] at hx; exact stepNodeRename_inv h n name
  | nodeSetId n nid => simp only [OpExtra] at hx; exact stepNodeSetId_inv h n nid
  | nodeAddIface n i => simp only [OpExtra] at hx; exact stepNodeAddIface_inv h n i
  | nodeRemoveIface n k => simp only [OpExtra] at hx; exact stepNodeRemoveIface_inv h n k
  | msgNew m name mid size => simp only [OpExtra] at hx; exact stepMsgNew_inv h m name mid size hx
  | msgRename m name => simp only [OpExtra] at hx; exact stepMsgRename_inv h m name
  | msgSetId m mid => simp only [OpExtra] at hx; exact stepMsgSetId_inv h m mid
  | msgSetStatic m c => simp only [OpExtra] at hx; exact stepMsgSetStatic_inv h m c
  | msgResize m k => simp only [OpExtra] at hx; exact stepMsgResize_inv h m k
  | ifaceAddSent i m => simp only [OpExtra] at hx; exact stepIfaceAddSent_inv h i m
  | ifaceRemoveSent i m => simp only [OpExtra] at hx; exact stepIfaceRemoveSent_inv h i m
  | ifaceRemoveAllSent i => simp only [OpExtra] at hx; exact stepIfaceRemoveAllSent_inv h i
  | ifaceAddRecv i m => simp only [OpExtra] at hx; exact stepIfaceAddRecv_inv h i m hx
  | ifaceRemoveRecv i m => simp only [OpExtra] at hx; exact stepIfaceRemoveRecv_inv h i m
  | ifaceRemoveAllRecv i => simp only [OpExtra] at hx; exact stepIfaceRemoveAllRecv_inv h i
  | msgAddReceiver m i => simp only [OpExtra] at hx; exact stepMsgAddReceiver_inv h m i hx
  | msgRemoveReceiver m nd => simp only [OpExtra] at hx; exact stepMsgRemoveReceiver_inv h m nd
  | attrNewStr a => simp only [OpExtra] at hx; exact stepAttrNewStr_inv h a
  | attrNewInt a d mn mx => simp only [OpExtra] at hx; exact stepAttrNewInt_inv h a d mn mx
  | attrNewEnum a vs => simp only [OpExtra] at hx; exact stepAttrNewEnum_inv h a vs
  | assign k x a v => simp only [OpExtra] at hx; exact stepAssign_inv h k x a v
  | unassign k x a => simp only [OpExtra] at hx; exact stepUnassign_inv h k x a
  | unassignAll k x => simp only [OpExtra] at hx; exact stepUnassignAll_inv h k x
  | typeNew t => simp only [OpExtra] at hx; exact stepTypeNew_inv h t
  | unitNew u => simp only [OpExtra] at hx; exact stepUnitNew_inv h u
  | sigNew s t => simp only [OpExtra] at hx; exact stepSigNew_inv h s t hx
  | sigSetType s t => simp only [OpExtra] at hx; exact stepSigSetType_inv h s t
  | sigSetUnit s u => simp only [OpExtra] at hx; exact stepSigSetUnit_inv h s u

theorem Inv_reach {g : G} (h : Reach g) : Inv g := by
  induction h with
  | init => exact Inv_init
  | step _ ok ih => exact Inv_step ih ok

end Acme.Graph
