/-
Generic list lemmas for the structural save / load model: insertion sort is a permutation,
`dedupLast` is the identity on lists with distinct keys and commutes with key-preserving maps,
look-ups in lists with distinct keys.
-/
import Acme.Core.Save
import Acme.Spec.Save

namespace Acme.Save
open List

/-! ## insertion sort -/

theorem insertBy_perm {α : Type} (le : α → α → Bool) (x : α) (l : List α) :
    insertBy le x l ~ x :: l := by
  induction l with
  | nil => simp [insertBy]
  | cons y ys ih =>
    simp only [insertBy]
    split
    · exact Perm.refl _
    · exact (Perm.cons y ih).trans (Perm.swap x y ys)

theorem sortBy_perm {α : Type} (le : α → α → Bool) (l : List α) : sortBy le l ~ l := by
  induction l with
  | nil => simp [sortBy]
  | cons x xs ih =>
    simp only [sortBy]
    exact (insertBy_perm le x _).trans (Perm.cons x ih)

theorem mem_sortBy {α : Type} {le : α → α → Bool} {l : List α} {a : α} :
    a ∈ sortBy le l ↔ a ∈ l := (sortBy_perm le l).mem_iff

theorem length_sortBy {α : Type} (le : α → α → Bool) (l : List α) :
    (sortBy le l).length = l.length := (sortBy_perm le l).length_eq

theorem nodup_map_sortBy {α β : Type} (le : α → α → Bool) (f : α → β) {l : List α}
    (h : (l.map f).Nodup) : ((sortBy le l).map f).Nodup :=
  ((sortBy_perm le l).map f).nodup_iff.mpr h

/-- insertion into a list all of whose elements are above the new one -/
theorem insertBy_of_le_all {α : Type} (le : α → α → Bool) (x : α) (l : List α)
    (h : ∀ y ∈ l, le x y = true) : insertBy le x l = x :: l := by
  cases l with
  | nil => rfl
  | cons y ys => simp [insertBy, h y (by simp)]

/-- a list that is already in order is left alone -/
theorem sortBy_of_pairwise {α : Type} (le : α → α → Bool) (l : List α)
    (h : l.Pairwise (fun a b => le a b = true)) : sortBy le l = l := by
  induction l with
  | nil => rfl
  | cons x xs ih =>
    rw [List.pairwise_cons] at h
    simp only [sortBy]
    rw [ih h.2]
    exact insertBy_of_le_all le x xs h.1

theorem insertBy_map {α β : Type} (le : α → α → Bool) (le' : β → β → Bool) (f : α → β)
    (hf : ∀ a b, le' (f a) (f b) = le a b) (x : α) (l : List α) :
    insertBy le' (f x) (l.map f) = (insertBy le x l).map f := by
  induction l with
  | nil => rfl
  | cons y ys ih =>
    simp only [List.map_cons, insertBy, hf]
    split <;> simp [ih]

/-- sorting commutes with a map that preserves the comparison -/
theorem sortBy_map {α β : Type} (le : α → α → Bool) (le' : β → β → Bool) (f : α → β)
    (hf : ∀ a b, le' (f a) (f b) = le a b) (l : List α) :
    sortBy le' (l.map f) = (sortBy le l).map f := by
  induction l with
  | nil => rfl
  | cons x xs ih =>
    simp only [List.map_cons, sortBy, ih]
    exact insertBy_map le le' f hf x _

/-! ### the output is in order (total, transitive comparisons) -/

structure TotalPre {α : Type} (le : α → α → Bool) : Prop where
  total : ∀ a b, le a b = true ∨ le b a = true
  trans : ∀ a b c, le a b = true → le b c = true → le a c = true

theorem insertBy_pairwise {α : Type} {le : α → α → Bool} (hle : TotalPre le) (x : α) (l : List α)
    (h : l.Pairwise (fun a b => le a b = true)) :
    (insertBy le x l).Pairwise (fun a b => le a b = true) := by
  induction l with
  | nil => simp [insertBy]
  | cons y ys ih =>
    rw [List.pairwise_cons] at h
    simp only [insertBy]
    split
    · rename_i hxy
      rw [List.pairwise_cons]
      refine ⟨?_, List.pairwise_cons.mpr h⟩
      intro z hz
      rcases List.mem_cons.mp hz with rfl | hz
      · exact hxy
      · exact hle.trans _ _ _ hxy (h.1 z hz)
    · rename_i hxy
      rw [List.pairwise_cons]
      refine ⟨?_, ih h.2⟩
      intro z hz
      rcases List.mem_cons.mp ((insertBy_perm le x ys).mem_iff.mp hz) with rfl | hz
      · rcases hle.total z y with h1 | h1
        · exact absurd h1 hxy
        · exact h1
      · exact h.1 z hz

theorem sortBy_pairwise {α : Type} {le : α → α → Bool} (hle : TotalPre le) (l : List α) :
    (sortBy le l).Pairwise (fun a b => le a b = true) := by
  induction l with
  | nil => simp [sortBy]
  | cons x xs ih => exact insertBy_pairwise hle x _ ih

theorem sortBy_idem {α : Type} {le : α → α → Bool} (hle : TotalPre le) (l : List α) :
    sortBy le (sortBy le l) = sortBy le l :=
  sortBy_of_pairwise le _ (sortBy_pairwise hle l)

/-! ## dedupLast -/

theorem dedupLast_of_nodup {α : Type} (key : α → Id) (l : List α) (h : (l.map key).Nodup) :
    dedupLast key l = l := by
  induction l with
  | nil => rfl
  | cons x xs ih =>
    simp only [List.map_cons, List.nodup_cons] at h
    simp only [dedupLast]
    have : xs.any (fun y => key y == key x) = false := by
      rw [Bool.eq_false_iff]
      intro hc
      rw [List.any_eq_true] at hc
      obtain ⟨y, hy, hk⟩ := hc
      exact h.1 (List.mem_map.mpr ⟨y, hy, by simpa using hk⟩)
    rw [this, ih h.2]
    simp

theorem dedupLast_map {α β : Type} (key : α → Id) (key' : β → Id) (f : α → β)
    (hf : ∀ a, key' (f a) = key a) (l : List α) :
    dedupLast key' (l.map f) = (dedupLast key l).map f := by
  induction l with
  | nil => rfl
  | cons x xs ih =>
    simp only [List.map_cons, dedupLast, List.any_map, Function.comp_def, hf]
    split <;> simp [ih]

theorem dedupLast_sublist {α : Type} (key : α → Id) (l : List α) : (dedupLast key l).Sublist l := by
  induction l with
  | nil => exact Sublist.slnil
  | cons x xs ih =>
    simp only [dedupLast]
    split
    · exact ih.cons _
    · exact ih.cons_cons _

theorem mem_of_mem_dedupLast {α : Type} {key : α → Id} {l : List α} {a : α}
    (h : a ∈ dedupLast key l) : a ∈ l := (dedupLast_sublist key l).subset h

/-- every key of the list survives -/
theorem key_mem_dedupLast {α : Type} (key : α → Id) (l : List α) (a : α) (h : a ∈ l) :
    key a ∈ (dedupLast key l).map key := by
  induction l generalizing a with
  | nil => simp at h
  | cons x xs ih =>
    simp only [dedupLast]
    rcases List.mem_cons.mp h with rfl | hx
    · split
      · rename_i hany
        rw [List.any_eq_true] at hany
        obtain ⟨y, hy, hk⟩ := hany
        have := ih y hy
        rwa [show key y = key a by simpa using hk] at this
      · simp
    · split
      · exact ih a hx
      · simp only [List.map_cons, List.mem_cons]
        exact Or.inr (ih a hx)

theorem nodup_keys_dedupLast {α : Type} (key : α → Id) (l : List α) :
    ((dedupLast key l).map key).Nodup := by
  induction l with
  | nil => simp [dedupLast]
  | cons x xs ih =>
    simp only [dedupLast]
    split
    · exact ih
    · rename_i hany
      simp only [List.map_cons, List.nodup_cons]
      refine ⟨?_, ih⟩
      intro hm
      obtain ⟨y, hy, hk⟩ := List.mem_map.mp hm
      apply hany
      rw [List.any_eq_true]
      exact ⟨y, mem_of_mem_dedupLast hy, by simpa using hk⟩

/-! ## look-ups -/

/-- in a list with distinct keys, `find?` by key finds the element that has the key -/
theorem find?_key_of_mem {α : Type} (key : α → Id) {l : List α} (hn : (l.map key).Nodup)
    {a : α} (ha : a ∈ l) : l.find? (fun x => key x == key a) = some a := by
  induction l with
  | nil => simp at ha
  | cons x xs ih =>
    simp only [List.map_cons, List.nodup_cons] at hn
    rcases List.mem_cons.mp ha with rfl | hx
    · simp
    · have hne : key x ≠ key a := fun he => hn.1 (he ▸ List.mem_map.mpr ⟨a, hx, rfl⟩)
      rw [List.find?_cons_of_neg (by simpa using hne)]
      exact ih hn.2 hx

theorem find?_key_perm {α : Type} (key : α → Id) {l l' : List α} (hp : l ~ l')
    (hn : (l.map key).Nodup) (id : Id) :
    l'.find? (fun x => key x == id) = l.find? (fun x => key x == id) := by
  cases h : l.find? (fun x => key x == id) with
  | none =>
    rw [List.find?_eq_none] at h ⊢
    intro x hx
    exact h x (hp.mem_iff.mpr hx)
  | some a =>
    have ha := List.mem_of_find?_eq_some h
    have hk : key a = id := by simpa using List.find?_some h
    subst hk
    exact find?_key_of_mem key ((hp.map key).nodup_iff.mp hn) (hp.mem_iff.mp ha)

theorem find?_map_key {α β : Type} (key : α → Id) (key' : β → Id) (f : α → β)
    (hf : ∀ a, key' (f a) = key a) (l : List α) (id : Id) :
    (l.map f).find? (fun x => key' x == id) = (l.find? (fun x => key x == id)).map f := by
  induction l with
  | nil => rfl
  | cons x xs ih =>
    simp only [List.map_cons, List.find?_cons, hf]
    split <;> simp [ih]

/-- `lookupLast` on a list of pairs with distinct keys -/
theorem lookupLast_of_mem {l : List (Id × Nat)} (hn : (l.map (·.1)).Nodup) {id : Id} {p : Nat}
    (h : (id, p) ∈ l) : lookupLast l id = some p := by
  induction l with
  | nil => simp at h
  | cons x xs ih =>
    obtain ⟨i, q⟩ := x
    simp only [List.map_cons, List.nodup_cons] at hn
    simp only [lookupLast]
    rcases List.mem_cons.mp h with heq | hx
    · have hi : i = id := (Prod.mk.inj heq).1.symm
      have hq : q = p := (Prod.mk.inj heq).2.symm
      subst hi hq
      have : lookupLast xs i = none := by
        clear ih h heq
        induction xs with
        | nil => rfl
        | cons y ys ihy =>
          obtain ⟨j, r⟩ := y
          simp only [List.map_cons, List.mem_cons, not_or] at hn
          simp only [lookupLast]
          rw [ihy ⟨hn.1.2, (List.nodup_cons.mp hn.2).2⟩]
          have : (j == i) = false := by simpa using fun he : j = i => hn.1.1 he.symm
          simp [this]
      rw [this]; simp
    · rw [ih hn.2 hx]

/-! ## narrowing -/

theorem u32_of_fits {x : Nat} (h : fits32 x = true) : u32 x = x := by
  simp only [fits32, decide_eq_true_eq] at h
  exact Nat.mod_eq_of_lt h

theorem i32_of_fits {x : Nat} (h : fits31 x = true) : i32 x = (x : Int) := by
  simp only [fits31, decide_eq_true_eq] at h
  have h2 : x % 4294967296 = x := Nat.mod_eq_of_lt (by omega)
  simp only [i32, h2]
  rw [if_pos h]

/-! ## the signal ids the loader has seen -/

theorem Seen.owner_cons (sn : Seen) (id id' : Id) (o : Owner) :
    Seen.owner ((id, o) :: sn) id' = if id = id' then some o else sn.owner id' := by
  unfold Seen.owner
  by_cases h : id = id'
  · simp [h]
  · have : (id == id') = false := by simpa using h
    simp [List.find?_cons, this, h]

/-- the check passes iff the id is new or was listed by the same owner; the entry is written -/
theorem seeSig_ok_iff (sn sn' : Seen) (id : Id) (o : Owner) :
    seeSig sn id o = .ok sn' ↔ (sn.owner id = none ∨ sn.owner id = some o) ∧ sn' = (id, o) :: sn := by
  unfold seeSig
  cases h : sn.owner id with
  | none => simp [eq_comm]
  | some o' =>
    by_cases ho : o' = o
    · simp [ho, eq_comm]
    · simp [ho]

/-- everything seen so far is what `own` says -/
def Agrees (sn : Seen) (own : Id → Option Owner) : Prop :=
  ∀ id o, sn.owner id = some o → own id = some o

theorem Agrees.nil (own : Id → Option Owner) : Agrees [] own := by
  intro id o h
  simp [Seen.owner] at h

theorem seeSig_of_agrees {sn : Seen} {own : Id → Option Owner} {id : Id} {o : Owner}
    (ha : Agrees sn own) (ho : own id = some o) :
    seeSig sn id o = .ok ((id, o) :: sn) ∧ Agrees ((id, o) :: sn) own := by
  refine ⟨(seeSig_ok_iff sn _ id o).mpr ⟨?_, rfl⟩, ?_⟩
  · cases h : sn.owner id with
    | none => exact Or.inl rfl
    | some o' =>
      have := ha id o' h
      rw [ho] at this
      exact Or.inr (by rw [Option.some.inj this])
  · intro id' o' h
    rw [Seen.owner_cons] at h
    split at h
    · rename_i he
      subst he
      rw [← Option.some.inj h]
      exact ho
    · exact ha id' o' h

/-- a list of (id, owner) with distinct ids, read as a function -/
theorem owner_of_mem {l : Seen} (hn : (l.map (·.1)).Nodup) {p : Id × Owner} (hp : p ∈ l) :
    Seen.owner l p.1 = some p.2 := by
  unfold Seen.owner
  rw [find?_key_of_mem (fun q : Id × Owner => q.1) hn hp]

end Acme.Save
