/-
Multiplexer world, part V: `leaf.size` of a multiplexed signal — the loop over its groups.
-/
import Acme.Proofs.MuxSize2

namespace Acme.Mux
open Acme.Layout Acme.Arith

theorem followersOf_sub (g : List Nat) (s t : Nat) (h : t ∈ followersOf g s) : t ∈ g := by
  unfold followersOf at h
  exact (List.dropWhile_sublist _).subset (List.mem_of_mem_drop h)

theorem not_mem_followersOf_self : ∀ (g : List Nat) (s : Nat), g.Nodup → s ∉ followersOf g s
  | [], _, _ => by simp [followersOf]
  | i :: rest, s, hnd => by
    simp only [List.nodup_cons] at hnd
    unfold followersOf
    by_cases his : i = s
    · subst his
      simp only [ne_eq, not_true_eq_false, decide_false, Bool.false_eq_true, not_false_eq_true,
        List.dropWhile_cons_of_neg, List.drop_succ_cons, List.drop_zero]
      exact hnd.1
    · rw [List.dropWhile_cons_of_pos (by simp [his])]
      exact not_mem_followersOf_self rest s hnd.2

/-- an exclusive signal is a member of one group only -/
theorem excl_unique (w : MW) (x : Nat) (xe : SigE) (gc gs : Int) (hxo : MuxOK w x xe gc gs) (t : Nat)
    (hex : exclusive xe t = true) (i j : Nat) (hi : i < xe.mx.groups.length) (hj : j < xe.mx.groups.length)
    (hti : t ∈ xe.mx.groups.getD i []) (htj : t ∈ xe.mx.groups.getD j []) : i = j := by
  unfold exclusive at hex
  cases hl : xe.mx.groupIds.get t with
  | none => rw [hl] at hex; simp at hex
  | some ids =>
    rw [hl] at hex
    cases ids with
    | nil => simp at hex
    | cons a rest =>
      cases rest with
      | cons _ _ => simp at hex
      | nil =>
        obtain ⟨_, _, _, l4⟩ := hxo.listed t [a] hl
        have h1 := (l4 i (by rw [← hxo.shape.1]; exact hi)).mp hti
        have h2 := (l4 j (by rw [← hxo.shape.1]; exact hj)).mp htj
        simp only [List.mem_singleton] at h1 h2
        omega

theorem relOnly_trans (w v v1 : MW)
    (h1 : ∀ i, ∃ r, v.sigs.get i = (w.sigs.get i).map (fun e => { e with rel := r }))
    (h2 : ∀ i, ∃ r, v1.sigs.get i = (v.sigs.get i).map (fun e => { e with rel := r })) :
    ∀ i, ∃ r, v1.sigs.get i = (w.sigs.get i).map (fun e => { e with rel := r }) := by
  intro i
  obtain ⟨r0, hr0⟩ := h1 i
  obtain ⟨r1, hr1⟩ := h2 i
  refine ⟨r1, ?_⟩
  rw [hr1, hr0]
  cases w.sigs.get i <;> rfl

theorem modifySizeLoop_spec (w : MW) (h : InvCore w) (x s : Nat) (xe se : SigE) (gc gs z amount : Int)
    (hx : w.sigs.get x = some xe) (hk : xe.kind = .mux gc gs) (hs : w.sigs.get s = some se)
    (hkz : se.kind = .leaf z) (hne : amount ≠ 0)
    (hexcl : ∀ g ∈ xe.mx.groups, s ∈ g → ∀ t ∈ followersOf g s, exclusive xe t = true) :
    ∀ (gl : List Nat) (v : MW), gl.Nodup →
      (∀ k ∈ gl, k < xe.mx.groups.length ∧ s ∈ xe.mx.groups.getD k [] ∧
        (if amount > 0 then verifyGrow gs (slotsOf w (xe.mx.groups.getD k [])) s amount else verifyShrink z (-amount)) = .ok ()) →
      v.msgs = w.msgs → (∀ i, ∃ r, v.sigs.get i = (w.sigs.get i).map (fun e => { e with rel := r })) →
      v.sigs.get s = some se →
      (∀ k ∈ gl, ∀ t ∈ xe.mx.groups.getD k [], v.sigs.get t = w.sigs.get t) →
      ∃ vf, modifySizeLoop v x gs s z amount gl = (vf, none) ∧ vf.msgs = w.msgs ∧
        (∀ i, ∃ r, vf.sigs.get i = (w.sigs.get i).map (fun e => { e with rel := r })) ∧
        (∀ i e, v.sigs.get i = some e → (∀ k ∈ gl, i ∉ followersOf (xe.mx.groups.getD k []) s) → vf.sigs.get i = some e) ∧
        ∀ k ∈ gl, WF gs (setSize (slotsOf vf (xe.mx.groups.getD k [])) s (z + amount)) := by
  have hxo := h.muxOK hx hk
  intro gl
  induction gl with
  | nil =>
    intro v _ _ hm hrel _ _
    exact ⟨v, rfl, hm, hrel, fun i e he _ => he, by simp⟩
  | cons k rest ih =>
    intro v hnd hgl hm hrel hsv hmem
    simp only [List.nodup_cons] at hnd
    obtain ⟨hklt, hsk, hverk⟩ := hgl k List.mem_cons_self
    have hgm := getD_mem xe.mx.groups k [] hklt
    -- the group as seen from the current world
    have hgo : groupOf v x k = xe.mx.groups.getD k [] := by
      unfold groupOf
      obtain ⟨r, hr⟩ := hrel x
      rw [hr, hx]
      rfl
    have hslk : slotsOf v (xe.mx.groups.getD k []) = slotsOf w (xe.mx.groups.getD k []) := by
      apply slotsOf_congr
      intro i hi
      rw [hmem k List.mem_cons_self i hi]
    have hstv : ∀ i ∈ xe.mx.groups.getD k [], (v.sigs.get i).isSome := by
      intro i hi
      rw [hmem k List.mem_cons_self i hi]
      obtain ⟨e, he, _⟩ := hxo.mem_stored hgm hi
      simp [he]
    obtain ⟨v1, m1, m2, m3, m4, m5⟩ := modifyLayout_spec v gs (xe.mx.groups.getD k []) s se z amount
      (hxo.nodup _ hgm) hstv (by rw [hslk]; exact hxo.wf _ hgm) hsv hkz hsk hne (by rw [hslk]; exact hverk)
    simp only [modifySizeLoop, hgo, m1]
    have hs1 : v1.sigs.get s = some se := m4 s se hsv (not_mem_followersOf_self _ s (hxo.nodup _ hgm))
    have hexk : ∀ t, t ∈ followersOf (xe.mx.groups.getD k []) s → ∀ j, j < xe.mx.groups.length →
        t ∈ xe.mx.groups.getD j [] → j = k := by
      intro t ht j hj htj
      exact excl_unique w x xe gc gs hxo t (hexcl _ hgm hsk t ht) j k hj hklt htj (followersOf_sub _ _ _ ht)
    obtain ⟨vf, f1, f2, f3, f4, f5⟩ := ih v1 hnd.2
      (fun j hj => hgl j (List.mem_cons_of_mem _ hj))
      (by rw [m2, hm]) (relOnly_trans w v v1 hrel m3) hs1
      (by
        intro j hj t ht
        have hjlt := (hgl j (List.mem_cons_of_mem _ hj)).1
        have hnf : t ∉ followersOf (xe.mx.groups.getD k []) s := by
          intro hf
          have := hexk t hf j hjlt ht
          subst this
          exact hnd.1 hj
        have hvt := hmem j (List.mem_cons_of_mem _ hj) t ht
        obtain ⟨e, he, _⟩ := hxo.mem_stored (getD_mem _ _ _ hjlt) ht
        rw [← hvt] at he
        rw [m4 t e he hnf, ← hvt, he])
    refine ⟨vf, f1, f2, f3, ?_, ?_⟩
    · intro i e he hnf
      apply f4 i e (m4 i e he (hnf k List.mem_cons_self))
      intro j hj
      exact hnf j (List.mem_cons_of_mem _ hj)
    · intro j hj
      simp only [List.mem_cons] at hj
      rcases hj with rfl | hj
      · -- the group just processed is not touched by the later iterations
        have : slotsOf vf (xe.mx.groups.getD j []) = slotsOf v1 (xe.mx.groups.getD j []) := by
          apply slotsOf_congr
          intro t ht
          have hst1 : ∃ e, v1.sigs.get t = some e := by
            obtain ⟨r, hr⟩ := relOnly_trans w v v1 hrel m3 t
            obtain ⟨e, he, _⟩ := hxo.mem_stored hgm ht
            rw [hr, he]; exact ⟨_, rfl⟩
          obtain ⟨e, he⟩ := hst1
          rw [f4 t e he, he]
          intro j' hj' hf
          have hj'lt := (hgl j' (List.mem_cons_of_mem _ hj')).1
          have hgm' := getD_mem xe.mx.groups j' [] hj'lt
          have hsj' := (hgl j' (List.mem_cons_of_mem _ hj')).2.1
          have := excl_unique w x xe gc gs hxo t (hexcl _ hgm' hsj' t hf) j j' hklt hj'lt ht (followersOf_sub _ _ _ hf)
          subst this
          exact hnd.1 hj'
        rw [this]; exact m5
      · exact f5 j hj

end Acme.Mux
