/-
The filters of one signal form a chain of byte-local bit fields covering the signal.
-/
import Acme.Proofs.BitsBasic

namespace Acme.Bits
open Acme.Layout

/-- `f` is the filter of signal `id` for the `len` bits from `pos` on (Intel bit number for
    little-endian, sequential position for big-endian), all inside one byte -/
def GoodF (be : Bool) (id pos len : Nat) (f : Filter) : Prop :=
  ∃ k lo : Nat, f.id = id ∧ f.be = be ∧ f.byteIdx = (k : Int) ∧ f.length = (len : Int) ∧
    f.leftOffset = (lo : Int) ∧ 1 ≤ len ∧ lo + len ≤ 8 ∧ MaskIs f.mask lo len ∧
    pos = 8 * k + (if be then 8 - lo - len else lo)

inductive Chain (be : Bool) (id : Nat) : Nat → List Filter → Nat → Prop
  | nil (pos : Nat) : Chain be id pos [] 0
  | cons {pos len : Nat} {f : Filter} {rest : List Filter} {tot : Nat} :
      GoodF be id pos len f → Chain be id (pos + len) rest tot →
      Chain be id pos (f :: rest) (len + tot)

theorem Chain.cons' {be : Bool} {id pos len : Nat} {f : Filter} {rest : List Filter}
    {tot tot' pos' : Nat} (hf : GoodF be id pos len f) (hc : Chain be id pos' rest tot)
    (hp : pos' = pos + len) (ht : tot' = len + tot) : Chain be id pos (f :: rest) tot' := by
  subst hp; subst ht; exact Chain.cons hf hc

theorem multiLoop_mid (id : Nat) (be : Bool) (sp F L : Int) (fuel : Nat) (i rem : Int)
    (h1 : i ≠ F) (h2 : i ≠ L) :
    multiLoop id be sp F L (fuel + 1) i rem =
      ⟨id, i, 0xff, 8, 0, be⟩ :: multiLoop id be sp F L fuel (i + 1) (rem - 8) := by
  simp [multiLoop, h1, h2]

theorem multiLoop_first (id : Nat) (be : Bool) (sp F L : Int) (fuel : Nat) (rem : Int)
    (_h2 : F ≠ L) :
    multiLoop id be sp F L (fuel + 1) F rem =
      (if be then (⟨id, F, u8 (0xff >>> (Int.tmod sp 8).toNat), 8 - Int.tmod sp 8, 0, be⟩ : Filter)
        else ⟨id, F, u8 (0xff <<< (Int.tmod sp 8).toNat), 8 - Int.tmod sp 8, Int.tmod sp 8, be⟩) ::
      multiLoop id be sp F L fuel (F + 1) (rem - (8 - Int.tmod sp 8)) := by
  cases be <;> simp [multiLoop]

theorem multiLoop_last (id : Nat) (be : Bool) (sp F L : Int) (fuel : Nat) (rem : Int)
    (h2 : L ≠ F) :
    multiLoop id be sp F L (fuel + 1) L rem =
      (if be then (⟨id, L, u8 ((1 <<< rem.toNat - 1) <<< (8 - rem).toNat), rem, 8 - rem, be⟩ : Filter)
        else ⟨id, L, u8 (1 <<< rem.toNat - 1), rem, 0, be⟩) ::
      multiLoop id be sp F L fuel (L + 1) (rem - rem) := by
  cases be <;> simp [multiLoop, h2]

theorem chain_multiLoop (id : Nat) (be : Bool) (st sz : Nat) (hFL : st / 8 < (st + sz - 1) / 8) :
    ∀ (fuel i rem : Nat), i + fuel = (st + sz - 1) / 8 + 1 → st / 8 ≤ i →
      (i = st / 8 → rem = sz) → (i ≠ st / 8 → rem = st + sz - 8 * i) →
      Chain be id (if i = st / 8 then st else 8 * i)
        (multiLoop id be (st : Int) ((st / 8 : Nat) : Int) (((st + sz - 1) / 8 : Nat) : Int)
          fuel (i : Int) (rem : Int)) rem := by
  intro fuel
  induction fuel with
  | zero =>
    intro i rem h1 h2 h3 h4
    have : rem = 0 := by rw [h4 (by omega)]; omega
    subst this
    exact Chain.nil _
  | succ fuel ih =>
    intro i rem h1 h2 h3 h4
    have hoff : Int.tmod (st : Int) 8 = ((st % 8 : Nat) : Int) := by
      rw [Int.tmod_eq_emod_of_nonneg (by omega)]; omega
    by_cases hF : i = st / 8
    · -- first byte
      subst hF
      have hrem := h3 rfl
      subst hrem
      rw [multiLoop_first _ _ _ _ _ _ _ (by omega), hoff, Int.toNat_natCast, if_pos rfl]
      have hnext : ((st / 8 : Nat) : Int) + 1 = ((st / 8 + 1 : Nat) : Int) := by omega
      have hrem' : (rem : Int) - (8 - ((st % 8 : Nat) : Int)) = ((rem - (8 - st % 8) : Nat) : Int) := by
        omega
      rw [hnext, hrem']
      have ih' := ih (st / 8 + 1) (rem - (8 - st % 8)) (by omega) (by omega) (by omega) (by omega)
      rw [if_neg (by omega)] at ih'
      refine Chain.cons' (len := 8 - st % 8) ?_ ih' (by omega) (by omega)
      cases be
      · exact ⟨st / 8, st % 8, rfl, rfl, rfl, by simp; omega, rfl, by omega, by omega,
          maskIs_ffl _ (by omega), by simp; omega⟩
      · exact ⟨st / 8, 0, rfl, rfl, rfl, by simp; omega, rfl, by omega, by omega,
          maskIs_ffr _ (by omega), by simp; omega⟩
    · rw [if_neg hF]
      have hrem := h4 hF
      by_cases hL : i = (st + sz - 1) / 8
      · -- last byte
        have hfuel : fuel = 0 := by omega
        subst hfuel
        subst hL
        rw [multiLoop_last _ _ _ _ _ _ _ (by omega), Int.toNat_natCast]
        have h8 : ((8 : Int) - (rem : Int)).toNat = 8 - rem := by omega
        rw [h8]
        refine Chain.cons' (len := rem) ?_ (Chain.nil _) rfl (by omega)
        cases be
        · exact ⟨(st + sz - 1) / 8, 0, rfl, rfl, rfl, rfl, rfl, by omega, by omega,
            maskIs_low _ (by omega), by simp⟩
        · exact ⟨(st + sz - 1) / 8, 8 - rem, rfl, rfl, rfl, rfl, by simp; omega, by omega, by omega,
            maskIs_gen _ _ (by omega), by simp; omega⟩
      · -- middle byte
        rw [multiLoop_mid _ _ _ _ _ _ _ _ (by omega) (by omega)]
        have hnext : (i : Int) + 1 = ((i + 1 : Nat) : Int) := by omega
        have hrem' : (rem : Int) - 8 = ((rem - 8 : Nat) : Int) := by omega
        rw [hnext, hrem']
        have ih' := ih (i + 1) (rem - 8) (by omega) (by omega) (by omega) (by omega)
        rw [if_neg (by omega)] at ih'
        refine Chain.cons' (len := 8) ?_ ih' (by omega) (by omega)
        cases be
        · exact ⟨i, 0, rfl, rfl, rfl, rfl, rfl, by omega, by omega, maskIs_ff, by simp⟩
        · exact ⟨i, 0, rfl, rfl, rfl, rfl, rfl, by omega, by omega, maskIs_ff, by simp⟩

/-- the filters of a slot cover it (big-endian: outside D08) -/
theorem chain_sigFilters (s : Slot) (be : Bool) (h0 : 0 ≤ s.start) (h1 : 1 ≤ s.size)
    (hok : be = true → BeOK s) :
    Chain be s.id s.start.toNat (sigFilters s be) s.size.toNat := by
  obtain ⟨id, start, size⟩ := s
  simp only at h0 h1 ⊢
  obtain ⟨st, rfl⟩ := Int.eq_ofNat_of_zero_le h0
  obtain ⟨sz, rfl⟩ := Int.eq_ofNat_of_zero_le (by omega : 0 ≤ size)
  have hF : Int.tdiv (st : Int) 8 = ((st / 8 : Nat) : Int) := by
    rw [Int.tdiv_eq_ediv_of_nonneg (by omega)]; omega
  have hL : Int.tdiv ((st : Int) + (sz : Int) - 1) 8 = (((st + sz - 1) / 8 : Nat) : Int) := by
    rw [Int.tdiv_eq_ediv_of_nonneg (by omega)]; omega
  have hoff : Int.tmod (st : Int) 8 = ((st % 8 : Nat) : Int) := by
    rw [Int.tmod_eq_emod_of_nonneg (by omega)]; omega
  simp only [sigFilters, hF, hL, hoff, Int.toNat_natCast]
  by_cases hs : st / 8 = (st + sz - 1) / 8
  · rw [if_pos (by omega)]
    refine Chain.cons' (len := sz) ?_ (Chain.nil _) rfl (by omega)
    refine ⟨st / 8, st % 8, rfl, rfl, rfl, rfl, rfl, by omega, by omega,
      maskIs_gen _ _ (by omega), ?_⟩
    cases be
    · simp; omega
    · have hb := hok rfl
      simp only [BeOK] at hb
      simp only [if_pos]
      omega
  · rw [if_neg (by omega)]
    have hfuel : (((((st + sz - 1) / 8 : Nat) : Int) - ((st / 8 : Nat) : Int) + 1).toNat) =
        (st + sz - 1) / 8 - st / 8 + 1 := by omega
    rw [hfuel]
    have := chain_multiLoop id be st sz (by omega) ((st + sz - 1) / 8 - st / 8 + 1) (st / 8) sz
      (by omega) (by omega) (by omega) (by omega)
    rw [if_pos rfl] at this
    exact this

end Acme.Bits
