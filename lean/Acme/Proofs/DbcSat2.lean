/-
C08, parse-then-write-then-parse, part 2: the parser's section functions return well-formed
items (floats = accepted number texts) on scanner-image token lists.
-/
import Acme.Proofs.DbcSat

set_option linter.unusedSimpArgs false
set_option linter.unusedVariables false

namespace Acme.Dbc

abbrev acc : String → Bool := acceptedFloatText

/-! ## loops over simple tokens -/

theorem parseIdents_sat (ts : List Token) (hts : TokensWF ts) :
    (parseIdents ts).1.all identOK = true := by
  fun_induction parseIdents ts with
  | case1 v ts r ih =>
    simp only [List.all_cons, Bool.and_eq_true]
    exact ⟨hts.head, ih hts.tail⟩
  | case2 ts h => rfl

theorem parseCommaIdents_sat (m : String) (ts : List Token) (hts : TokensWF ts) :
    Sat (fun xs => xs.all identOK = true) (parseCommaIdents m ts) := by
  fun_induction parseCommaIdents m ts <;>
    first
    | exact Sat.ok rfl
    | exact Sat.perr _
    | exact Sat.error _
    | skip
  · rename_i ih
    have hv : identOK ‹String› = true := hts.tail.head
    have := ih hts.tail.tail
    simp only [*] at this ⊢
    exact Sat.ok (by simp [hv, this _ _ rfl])
instance (m : String) (ts : List Token) : SatC (parseCommaIdents m ts) ts (fun xs => xs.all identOK = true) := ⟨fun hts => parseCommaIdents_sat m ts hts⟩

theorem parseCommaStrings_sat (m : String) (ts : List Token) (hts : TokensWF ts) :
    Sat (fun xs => xs.all strOK = true) (parseCommaStrings m ts) := by
  fun_induction parseCommaStrings m ts <;>
    first
    | exact Sat.ok rfl
    | exact Sat.perr _
    | exact Sat.error _
    | skip
  · rename_i ih
    have hv : strOK ‹String› = true := hts.tail.head
    have := ih hts.tail.tail
    simp only [*] at this ⊢
    exact Sat.ok (by simp [hv, this _ _ rfl])
instance (m : String) (ts : List Token) : SatC (parseCommaStrings m ts) ts (fun xs => xs.all strOK = true) := ⟨fun hts => parseCommaStrings_sat m ts hts⟩

theorem parseValueDescriptions_sat (ts : List Token) (hts : TokensWF ts) :
    Sat (fun xs => xs.all valueDescriptionOK = true) (parseValueDescriptions ts) := by
  fun_induction parseValueDescriptions ts <;>
    first
    | exact Sat.ok rfl
    | exact Sat.perr _
    | exact Sat.error _
    | skip
  · rename_i ih
    have hid := u32_of_parseUint ‹parseUint _ = some _›
    have hv : strOK ‹String› = true := hts.tail.head
    have := ih hts.tail.tail
    simp only [*] at this ⊢
    exact Sat.ok (by simp [valueDescriptionOK, hv, hid, this _ _ rfl])
instance (ts : List Token) : SatC (parseValueDescriptions ts) ts (fun xs => xs.all valueDescriptionOK = true) := ⟨fun hts => parseValueDescriptions_sat ts hts⟩

/-! ## sections -/

theorem parseValueTable_sat (ts : List Token) (hts : TokensWF ts) :
    Sat (fun x => valueTableOK x = true) (parseValueTable ts) := by
  unfold parseValueTable
  sat
  simp [valueTableOK, *]

theorem parseOptMux_sat (ts : List Token) :
    Sat (fun m => u32 m.2.2 = true ∧ (m.2.1 || m.2.2 == 0) = true) (parseOptMux ts) := by
  unfold parseOptMux
  split
  · split
    · rename_i m hm
      obtain ⟨a, b, n⟩ := m
      exact Sat.ok (sat_parseMuxIndicator hm)
    · exact Sat.error _
  · exact Sat.ok ⟨by decide, rfl⟩
instance (ts : List Token) : SatC (parseOptMux ts) ts (fun m => u32 m.2.2 = true ∧ (m.2.1 || m.2.2 == 0) = true) := ⟨fun _ => parseOptMux_sat ts⟩

theorem parseByteOrder_sat (ts : List Token) : Sat (fun _ => True) (parseByteOrder ts) :=
  fun _ _ _ => trivial
instance (ts : List Token) : SatC (parseByteOrder ts) ts (fun _ => True) := ⟨fun _ => parseByteOrder_sat ts⟩

theorem parseValueType_sat (ts : List Token) : Sat (fun _ => True) (parseValueType ts) :=
  fun _ _ _ => trivial
instance (ts : List Token) : SatC (parseValueType ts) ts (fun _ => True) := ⟨fun _ => parseValueType_sat ts⟩

theorem parseScaling_sat (ts : List Token) (hts : TokensWF ts) :
    Sat (fun s => acc s.1 = true ∧ acc s.2.1 = true ∧ acc s.2.2.1 = true ∧ acc s.2.2.2 = true)
      (parseScaling ts) := by
  unfold parseScaling
  sat
  exact ⟨‹_›, ‹_›, ‹_›, ‹_›⟩
instance (ts : List Token) : SatC (parseScaling ts) ts (fun s => acc s.1 = true ∧ acc s.2.1 = true ∧ acc s.2.2.1 = true ∧ acc s.2.2.2 = true) := ⟨fun hts => parseScaling_sat ts hts⟩

theorem parseSignal_sat (ts : List Token) (hts : TokensWF ts) :
    Sat (fun s => signalOK acc s = true) (parseSignal ts) := by
  unfold parseSignal
  sat
  simp [signalOK, *]

theorem parseSignals_sat (n : Nat) : ∀ ts : List Token, TokensWF ts →
    Sat (fun ss => ss.all (signalOK acc) = true) (parseSignals n ts) := by
  induction n with
  | zero => intro ts _; exact Sat.error _
  | succ n ih =>
    intro ts hts
    by_cases hk : ∃ v ts', ts = .keyword v :: ts'
    · obtain ⟨v, ts', rfl⟩ := hk
      rw [parseSignals_succ_kw]
      split
      · have hs := parseSignal_sat ts' hts.tail
        have hg := parseSignal_good ts'
        split
        · exact Sat.error _
        · rename_i sig ts'' he
          rw [he] at hg
          have hrec := ih ts'' (hts.tail.suffix hg)
          split
          · rename_i sigs r hr
            exact Sat.ok (by simp [hs _ _ he, hrec _ _ hr])
          · exact Sat.error _
      · exact Sat.ok rfl
    · have hk' : ∀ v r, ts ≠ .keyword v :: r := fun v r e => hk ⟨v, r, e⟩
      rw [parseSignals_succ_other _ _ hk']
      exact Sat.ok rfl

theorem parseSignals_sat' (ts : List Token) (hts : TokensWF ts) :
    Sat (fun ss => ss.all (signalOK acc) = true) (parseSignals (ts.length + 1) ts) :=
  parseSignals_sat _ ts hts
instance (ts : List Token) : SatC (parseSignals (ts.length + 1) ts) ts (fun ss => ss.all (signalOK acc) = true) := ⟨fun hts => parseSignals_sat' ts hts⟩

theorem parseMessage_sat (ts : List Token) (hts : TokensWF ts) :
    Sat (fun x => messageOK acc x = true) (parseMessage ts) := by
  unfold parseMessage
  sat
  simp [messageOK, *]

theorem parseMessageTransmitter_sat (ts : List Token) (hts : TokensWF ts) :
    Sat (fun x => messageTransmitterOK x = true) (parseMessageTransmitter ts) := by
  unfold parseMessageTransmitter
  sat
  rename_i ts2 hts2
  refine Sat.bindT (expectPunct_good _ _) (hts2.suffix (parseIdents_suffix ts2)) ?_
  intro _ _
  exact Sat.pure (by simp [messageTransmitterOK, *, parseIdents_sat ts2 hts2])

theorem parseEnvVar_sat (ts : List Token) (hts : TokensWF ts) :
    Sat (fun x => envVarOK acc x = true) (parseEnvVar ts) := by
  unfold parseEnvVar
  sat
  all_goals simp [envVarOK, *]

theorem parseEnvVarData_sat (ts : List Token) (hts : TokensWF ts) :
    Sat (fun x => envVarDataOK x = true) (parseEnvVarData ts) := by
  unfold parseEnvVarData
  sat
  simp [envVarDataOK, *]

theorem parseSignalTypeDef_sat (ts : List Token) (hts : TokensWF ts) :
    Sat (fun x => signalTypeOK acc x = true) (parseSignalTypeDef ts) := by
  unfold parseSignalTypeDef
  sat
  simp [signalTypeOK, *]

theorem parseSignalTypeRef_sat (ts : List Token) (hts : TokensWF ts) :
    Sat (fun x => signalTypeRefOK x = true) (parseSignalTypeRef ts) := by
  unfold parseSignalTypeRef
  sat
  simp [signalTypeRefOK, *]

theorem parseSignalType_sat (ts : List Token) (hts : TokensWF ts) :
    Sat (fun x => match x with
      | .inl st => signalTypeOK acc st = true
      | .inr sr => signalTypeRefOK sr = true) (parseSignalType ts) := by
  unfold parseSignalType
  split
  · have h := parseSignalTypeDef_sat _ hts
    split
    · rename_i he
      exact Sat.ok (h _ _ he)
    · exact Sat.error _
  · have h := parseSignalTypeRef_sat _ hts
    split
    · rename_i he
      exact Sat.ok (h _ _ he)
    · exact Sat.error _
  · exact Sat.perr _

theorem parseComment_sat (ts : List Token) (hts : TokensWF ts) :
    Sat (fun x => commentOK x = true) (parseComment ts) := by
  unfold parseComment
  refine Sat.bind (Q1 := fun c => c.text = "" ∧ ∀ t, strOK t = true →
      commentOK { c with text := t } = true) (by good) hts ?_ ?_
  · sat
    all_goals simp [commentOK, Comment.canon, *]
  · intro c ts1 hts1 hc
    dsimp only
    sat
    exact hc.2 _ ‹_›

/-! ## attributes -/

theorem parseAttributeName_sat (ts : List Token) (hts : TokensWF ts) :
    Sat (fun v => attrNameOK v = true) (parseAttributeName ts) := by
  unfold parseAttributeName
  split
  · split
    · exact Sat.perr _
    · rename_i h
      have hs : strOK ‹String› = true := hts.head
      exact Sat.ok (by
        simp only [attrNameOK, hs, Bool.true_and, Bool.not_eq_true']
        simpa using h)
  · exact Sat.perr _
instance (ts : List Token) : SatC (parseAttributeName ts) ts (fun v => attrNameOK v = true) :=
  ⟨fun hts => parseAttributeName_sat ts hts⟩

instance (ts : List Token) : SatC (parseAttributeKind ts) ts (fun _ => True) :=
  ⟨fun _ _ _ _ => trivial⟩

theorem parseAttribute_sat (hex : Bool) (ts : List Token) (hts : TokensWF ts) :
    Sat (fun x => attributeOK acc x = true) (parseAttribute hex ts) := by
  unfold parseAttribute
  sat
  all_goals
    simp only [tokensWF_cons, tokenOK] at *
    simp [attributeOK, Attribute.canon, *]

/-! ## attribute defaults and values -/

def AttrVal.toTagged (v : AttrVal) : TaggedVal :=
  { type := v.type, valueString := v.valueString, valueInt := v.valueInt, valueHex := v.valueHex,
    valueFloat := v.valueFloat }

theorem parseAttrVal_sat (hex : Bool) (what : String) (ts : List Token) (hts : TokensWF ts) :
    Sat (fun v => taggedValOK acc v.toTagged = true ∧ retag hex v.toTagged = v.toTagged)
      (parseAttrVal hex what ts) := by
  unfold parseAttrVal
  split
  · -- string
    have hs : strOK ‹String› = true := hts.head
    exact Sat.ok (by simp [taggedValOK, AttrVal.toTagged, TaggedVal.canon, retag, hs])
  · split
    · -- hex prefix
      rename_i hpre
      split
      · rename_i n hn
        have hu := u32_of_parseHexInt hn
        cases hex with
        | false =>
          rw [parseHexInt_false_hexPrefix hpre] at hn
          cases hn
        | true =>
          exact Sat.ok (by simp [taggedValOK, AttrVal.toTagged, TaggedVal.canon, retag, hu])
      · exact Sat.perr _
    · split
      · -- contains a dot
        rename_i hdot
        split
        · rename_i x hx
          have hx' := parseDouble_eq_some hx
          subst hx'
          have ha := accepted_of_parseDouble hx
          exact Sat.ok (by
            simp [taggedValOK, AttrVal.toTagged, TaggedVal.canon, retag, hdot, acc, ha])
        · exact Sat.perr _
      · rename_i hdot
        split
        · rename_i i hi
          have := i64_of_parseInt hi
          exact Sat.ok (by simp [taggedValOK, AttrVal.toTagged, TaggedVal.canon, retag, this])
        · rename_i hi
          split
          · rename_i x hx
            have hx' := parseDouble_eq_some hx
            subst hx'
            have ha := accepted_of_parseDouble hx
            exact Sat.ok (by
              simp [taggedValOK, AttrVal.toTagged, TaggedVal.canon, retag, hdot, hi, acc, ha])
          · exact Sat.perr _
  · exact Sat.perr _
instance (hex : Bool) (what : String) (ts : List Token) : SatC (parseAttrVal hex what ts) ts
    (fun v => taggedValOK acc v.toTagged = true ∧ retag hex v.toTagged = v.toTagged) :=
  ⟨fun hts => parseAttrVal_sat hex what ts hts⟩

theorem parseAttributeDefault_sat (hex : Bool) (ts : List Token) (hts : TokensWF ts) :
    Sat (fun d => attributeDefaultOK acc d = true ∧ retag hex d.val = d.val)
      (parseAttributeDefault hex ts) := by
  unfold parseAttributeDefault
  sat
  rename_i v _ _ hv _ _
  obtain ⟨t, vs, vi, vh, vf⟩ := v
  simp only [AttrVal.toTagged] at hv
  simp [attributeDefaultOK, AttributeDefault.val, *]

/-- what `parseAttributeValue` builds from the object part, the name and the value -/
def AttributeValue.setVal (o : AttributeValue) (name : String) (v : TaggedVal) : AttributeValue :=
  { o with
    attributeName := name
    type := v.type
    valueString := v.valueString
    valueInt := v.valueInt
    valueHex := v.valueHex
    valueFloat := v.valueFloat }

theorem parseAttributeValueObject_sat (ts : List Token) (hts : TokensWF ts) :
    Sat (fun o => ∀ name (v : TaggedVal), strOK name = true → taggedValOK acc v = true →
        attributeValueOK acc (o.setVal name v) = true)
      (parseAttributeValueObject ts) := by
  unfold parseAttributeValueObject
  sat
  all_goals
    intro name v hn hv
    obtain ⟨t, vs, vi, vh, vf⟩ := v
    simp [AttributeValue.setVal, attributeValueOK, AttributeValue.val, AttributeValue.withVal,
      AttributeValue.canonObj, *]
instance (ts : List Token) : SatC (parseAttributeValueObject ts) ts
    (fun o => ∀ name (v : TaggedVal), strOK name = true → taggedValOK acc v = true →
        attributeValueOK acc (o.setVal name v) = true) :=
  ⟨fun hts => parseAttributeValueObject_sat ts hts⟩

theorem parseAttributeValue_sat (hex : Bool) (ts : List Token) (hts : TokensWF ts) :
    Sat (fun d => attributeValueOK acc d = true ∧ retag hex d.val = d.val)
      (parseAttributeValue hex ts) := by
  unfold parseAttributeValue
  sat
  rename_i name _ _ hname obj _ _ hobj v _ _ hv _ _
  obtain ⟨t, vs, vi, vh, vf⟩ := v
  simp only [AttrVal.toTagged] at hv
  refine ⟨by simpa [AttributeValue.setVal] using hobj name _ hname hv.1, ?_⟩
  simpa [AttributeValue.val] using hv.2

/-! ## value encodings, signal groups, extended value types, extended multiplexing -/

theorem parseValueEncoding_sat (ts : List Token) (hts : TokensWF ts) :
    Sat (fun x => valueEncodingOK x = true) (parseValueEncoding ts) := by
  unfold parseValueEncoding
  sat
  all_goals
    simp only [tokensWF_cons, tokenOK] at *
    simp [valueEncodingOK, ValueEncoding.canon, *]

theorem parseSignalGroup_sat (ts : List Token) (hts : TokensWF ts) :
    Sat (fun x => signalGroupOK x = true) (parseSignalGroup ts) := by
  unfold parseSignalGroup
  sat
  rename_i ts4 hts4
  refine Sat.bindT (expectPunct_good _ _) (hts4.suffix (parseIdents_suffix ts4)) ?_
  intro _ _
  exact Sat.pure (by simp [signalGroupOK, *, parseIdents_sat ts4 hts4])

theorem parseSignalExtValueType_sat (ts : List Token) (hts : TokensWF ts) :
    Sat (fun x => signalExtValueTypeOK x = true) (parseSignalExtValueType ts) := by
  unfold parseSignalExtValueType
  sat
  all_goals simp [signalExtValueTypeOK, *]

theorem parseExtendedMuxRange_sat (ts : List Token) :
    Sat (fun r => extendedMuxRangeOK r = true) (parseExtendedMuxRange ts) := by
  unfold parseExtendedMuxRange
  split
  · split
    · rename_i h
      exact Sat.ok (sat_parseRangeText h)
    · exact Sat.error _
  · exact Sat.perr _
instance (ts : List Token) : SatC (parseExtendedMuxRange ts) ts
    (fun r => extendedMuxRangeOK r = true) := ⟨fun _ => parseExtendedMuxRange_sat ts⟩

theorem parseCommaRanges_sat (ts : List Token) :
    Sat (fun xs => xs.all extendedMuxRangeOK = true) (parseCommaRanges ts) := by
  fun_induction parseCommaRanges ts <;>
    first
    | exact Sat.ok rfl
    | exact Sat.perr _
    | exact Sat.error _
    | skip
  · rename_i ih
    have hr := sat_parseRangeText ‹parseRangeText _ = .ok _›
    simp only [*] at ih ⊢
    exact Sat.ok (by simp [hr, ih _ _ rfl])
instance (ts : List Token) : SatC (parseCommaRanges ts) ts
    (fun xs => xs.all extendedMuxRangeOK = true) := ⟨fun _ => parseCommaRanges_sat ts⟩

theorem parseExtendedMux_sat (ts : List Token) (hts : TokensWF ts) :
    Sat (fun x => extendedMuxOK x = true) (parseExtendedMux ts) := by
  unfold parseExtendedMux
  sat
  simp [extendedMuxOK, *]

/-! ## head sections -/

theorem parseVersion_sat (fl : PFlags) (ts : List Token) (hts : TokensWF ts) :
    Sat (fun x => strOK x.1 = true) (parseVersion fl ts) := by
  unfold parseVersion
  split
  · exact Sat.perr _
  · split
    · exact Sat.ok hts.head
    · exact Sat.perr _

theorem parseNewSymbolsLoop_sat (ts : List Token) :
    Sat (fun xs => xs.all (fun s => newSymbolsValues.contains s) = true)
      (parseNewSymbolsLoop ts) := by
  fun_induction parseNewSymbolsLoop ts <;>
    first
    | exact Sat.ok rfl
    | exact Sat.perr _
    | exact Sat.error _
    | skip
  all_goals
    rename_i ih
    first
    | exact ih
    | (simp only [*] at ih ⊢
       have hrec := ih _ _ rfl
       refine Sat.ok ?_
       simp only [List.all_cons, Bool.and_eq_true]
       exact ⟨‹_›, hrec⟩)
instance (ts : List Token) : SatC (parseNewSymbolsLoop ts) ts
    (fun xs => xs.all (fun s => newSymbolsValues.contains s) = true) :=
  ⟨fun _ => parseNewSymbolsLoop_sat ts⟩

theorem parseNewSymbols_sat (fl : PFlags) (ts : List Token) (hts : TokensWF ts) :
    Sat (fun x => x.1.all (fun s => newSymbolsValues.contains s) = true)
      (parseNewSymbols fl ts) := by
  unfold parseNewSymbols
  sat
  assumption

theorem parseBitTiming_sat (fl : PFlags) (ts : List Token) (hts : TokensWF ts) :
    Sat (fun x => bitTimingOK x = true) (parseBitTiming fl ts) := by
  unfold parseBitTiming
  sat
  all_goals first
    | decide
    | simp [bitTimingOK, *]

theorem parseNodes_sat (fl : PFlags) (ts : List Token) (hts : TokensWF ts) :
    Sat (fun x => x.1.all identOK = true) (parseNodes fl ts) := by
  unfold parseNodes
  split
  · exact Sat.perr _
  · refine Sat.bindT (expectPunct_good _ _) hts ?_
    intro ts1 hts1
    exact Sat.pure (parseIdents_sat ts1 hts1)

end Acme.Dbc
