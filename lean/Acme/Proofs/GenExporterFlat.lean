/-
Without nested multiplexers the exporter model for nested trees (`exportMsgN`, Acme.Core.ImportNested)
is the flat one (`exportMsg`, Acme.Core.Import); `exportAny` is therefore `exportMsgN` on every tree.
-/
import Acme.Proofs.GenExporterDefs
import Acme.Proofs.ExportMux

namespace Acme.GenX
open Acme.Import

/-! ### the signals seen first are children -/

theorem walkGroup_mem (cs : List Child) (id : Int) : ∀ (g : List Child) (seen : List (Child × Int)),
    (∀ c ∈ g, c ∈ cs) → ∀ p ∈ walkGroup id g seen, p ∈ seen ∨ p.1 ∈ cs
  | [], seen, _, p, hp => by
    simp only [walkGroup] at hp
    exact Or.inl hp
  | c :: r, seen, hg, p, hp => by
    have hr : ∀ c ∈ r, c ∈ cs := fun x hx => hg x (List.mem_cons_of_mem _ hx)
    simp only [walkGroup] at hp
    split at hp
    · exact walkGroup_mem cs id r seen hr p hp
    · rcases walkGroup_mem cs id r (seen ++ [(c, id)]) hr p hp with h | h
      · rcases List.mem_append.1 h with h | h
        · exact Or.inl h
        · have : p = (c, id) := by simpa using h
          subst this
          exact Or.inr (hg c List.mem_cons_self)
      · exact Or.inr h

theorem walkGroups_mem (cs : List Child) : ∀ (ks : List Nat) (seen : List (Child × Int)),
    ∀ p ∈ walkGroups cs ks seen, p ∈ seen ∨ p.1 ∈ cs
  | [], seen, p, hp => by
    simp only [walkGroups] at hp
    exact Or.inl hp
  | k :: r, seen, p, hp => by
    simp only [walkGroups] at hp
    rcases walkGroups_mem cs r _ p hp with h | h
    · exact walkGroup_mem cs (k : Int) (groupOf cs (k : Int)) seen
        (fun x hx => ((mem_groupOf cs (k : Int) x).1 hx).1) p h
    · exact Or.inr h

theorem seen_not_mux (n : MuxNode) (h : n.children.any (·.isMux) = false) :
    ∀ p ∈ walkGroups n.children (List.range n.groupCount.toNat) [], p.1.isMux = false := by
  intro p hp
  rcases walkGroups_mem n.children _ [] p hp with h0 | h1
  · cases h0
  · have := List.any_eq_false.1 h p.1 h1
    simpa using this

/-! ### the loop over the signals seen first -/

theorem exportKidsN_flat (be : Bool) (N : List MuxNode) (rec : MuxNode → List DSig × List DExt) (n : MuxNode) :
    ∀ (seen : List (Child × Int)) (sigs : List DSig) (exts : List DExt),
      (∀ p ∈ seen, p.1.isMux = false) →
      exportKidsN be N rec n seen sigs exts =
        (sigs ++ seen.map (fun p =>
          ({ name := p.1.name, start := fileStart be (n.start + n.selW + p.1.rel), size := p.1.size.toNat,
             bigEndian := be, isMultiplexed := true, muxSwitch := p.2.toNat } : DSig)), exts)
  | [], sigs, exts, _ => by simp only [exportKidsN, List.map_nil, List.append_nil]
  | (c, id) :: r, sigs, exts, h => by
    have hc : c.isMux = false := h (c, id) List.mem_cons_self
    have hr : ∀ p ∈ r, p.1.isMux = false := fun p hp => h p (List.mem_cons_of_mem _ hp)
    simp only [exportKidsN, hc, Bool.false_eq_true, if_false]
    rw [exportKidsN_flat be N rec n r _ exts hr]
    simp only [List.map_cons, List.append_assoc, List.singleton_append]

theorem any_isMux_false {l : List (Child × Int)} (h : ∀ p ∈ l, p.1.isMux = false) :
    l.any (fun q => q.1.isMux) = false := by
  apply List.any_eq_false.2
  intro p hp
  simp [h p hp]

/-! ### one multiplexer, the items, the message -/

theorem exportMuxN_flat (be : Bool) (N : List MuxNode) (fuel : Nat) (n : MuxNode)
    (h : n.children.any (·.isMux) = false) :
    exportMuxN be N (fuel + 1) false n = exportMux be n := by
  have hs := seen_not_mux n h
  have ha := any_isMux_false hs
  unfold exportMuxN exportMux
  dsimp only
  rw [exportKidsN_flat be N _ n _ _ _ hs, ha]
  simp only [Bool.or_self, Bool.not_false, Bool.and_true, Bool.true_and, List.nil_append,
    List.singleton_append, decide_eq_true_eq]

theorem exportItemsN_flat (be : Bool) (N : List MuxNode) : ∀ (top : List Item),
    (∀ n, Item.mux n ∈ top → n.children.any (·.isMux) = false) →
    exportItemsN be N top = exportItems be top
  | [], _ => by simp only [exportItemsN, exportItems]
  | .sig l :: r, h => by
    have hr := exportItemsN_flat be N r (fun n hn => h n (List.mem_cons_of_mem _ hn))
    simp only [exportItemsN, exportItems, exportItem, hr, List.singleton_append, List.nil_append]
  | .mux n :: r, h => by
    have hr := exportItemsN_flat be N r (fun n hn => h n (List.mem_cons_of_mem _ hn))
    have hn := exportMuxN_flat be N N.length n (h n List.mem_cons_self)
    simp only [exportItemsN, exportItems, exportItem, hr, hn]

/-- without nested multiplexers the nested exporter model IS the flat one -/
theorem exportMsgN_eq_flat (t : ITree) (h : hasNested t = false) : exportMsgN t = exportMsg t := by
  unfold hasNested at h
  rw [Bool.or_eq_false_iff] at h
  obtain ⟨_, h2⟩ := h
  have hall : ∀ n, Item.mux n ∈ t.top → n.children.any (·.isMux) = false := by
    intro n hn
    have := List.any_eq_false.1 h2 (Item.mux n) hn
    simpa using this
  unfold exportMsgN exportMsg
  dsimp only
  rw [exportItemsN_flat t.bigEndian t.nested t.top hall]

theorem exportAny_eq_N (t : ITree) : exportAny t = exportMsgN t := by
  unfold exportAny
  split
  · rfl
  · rename_i h
    exact (exportMsgN_eq_flat t (by simpa using h)).symm

end Acme.GenX
