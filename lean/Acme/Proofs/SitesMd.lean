/-
Tie of the first kind for C16: the inventory regenerated from md_exporter.go (tables with their
headers and the widths of the rows that reach them, the row widths per control-flow path of every
row builder, the appends through an aliased row parameter, the section calls in source order)
equals the hand-validated expectation.
-/
import Acme.Gen.MdTables
import Acme.Expect.MdTables

namespace Acme.Sites

set_option maxRecDepth 100000 in
set_option synthInstance.maxSize 1024 in
theorem mdTables_expected : Acme.Gen.mdTables = Acme.Expect.mdTables := by decide

set_option maxRecDepth 100000 in
set_option synthInstance.maxSize 1024 in
theorem mdRowPaths_expected : Acme.Gen.mdRowPaths = Acme.Expect.mdRowPaths := by decide

set_option maxRecDepth 100000 in
set_option synthInstance.maxSize 1024 in
theorem mdParamAppends_expected : Acme.Gen.mdParamAppends = Acme.Expect.mdParamAppends := by decide

set_option maxRecDepth 100000 in
set_option synthInstance.maxSize 1024 in
theorem mdSections_expected : Acme.Gen.mdSections = Acme.Expect.mdSections := by decide

theorem mdDynamic_expected : Acme.Gen.mdDynamic = Acme.Expect.mdDynamic := by decide

end Acme.Sites
