/-
Message-level importer model, part 3: the three cases of `importMessage` and the matching
between the signals of the file and the entries of the imported tree.
-/
import Acme.Spec.Import
import Acme.Proofs.ImportLoops

namespace Acme.Import
open Acme.Layout Acme.Conv Acme.Arith
open Acme.Mux (sortInts compactAdj)

/-! ### matchings -/

/-- a one-to-one correspondence between signals of the file and entries of a tree along which
    `EntryRel` holds -/
def Matching (exts : List DExt) (sigs : List DSig) (es : List Entry) : Prop :=
  ∃ τ : List (DSig × Entry), (τ.map (·.1)).Perm sigs ∧ (τ.map (·.2)).Perm es ∧
    ∀ p ∈ τ, EntryRel exts p.1 p.2

theorem Matching.nil (exts : List DExt) : Matching exts [] [] :=
  ⟨[], List.Perm.refl _, List.Perm.refl _, fun p hp => by cases hp⟩

theorem Matching.append {exts : List DExt} {A B : List DSig} {E1 E2 : List Entry}
    (h1 : Matching exts A E1) (h2 : Matching exts B E2) : Matching exts (A ++ B) (E1 ++ E2) := by
  obtain ⟨t1, a1, b1, c1⟩ := h1
  obtain ⟨t2, a2, b2, c2⟩ := h2
  refine ⟨t1 ++ t2, ?_, ?_, ?_⟩
  · rw [List.map_append]; exact a1.append a2
  · rw [List.map_append]; exact b1.append b2
  · intro p hp
    rcases List.mem_append.1 hp with hp | hp
    · exact c1 p hp
    · exact c2 p hp

theorem Matching.perm {exts : List DExt} {A A' : List DSig} {E E' : List Entry}
    (h : Matching exts A E) (hA : A.Perm A') (hE : E.Perm E') : Matching exts A' E' := by
  obtain ⟨t, a, b, c⟩ := h
  exact ⟨t, a.trans hA, b.trans hE, c⟩

theorem Matching.single {exts : List DExt} {s : DSig} {e : Entry} (h : EntryRel exts s e) :
    Matching exts [s] [e] :=
  ⟨[(s, e)], List.Perm.refl _, List.Perm.refl _, fun p hp => by
    rw [List.mem_singleton] at hp; subst hp; exact h⟩

theorem Matching.of_forall2 {exts : List DExt} {A : List DSig} {E : List Entry}
    (h : List.Forall₂ (EntryRel exts) A E) : Matching exts A E := by
  induction h with
  | nil => exact Matching.nil exts
  | cons hr _ ih => exact Matching.append (Matching.single hr) ih

theorem Matching.map {exts : List DExt} (A : List DSig) (f : DSig → Entry)
    (h : ∀ s ∈ A, EntryRel exts s (f s)) : Matching exts A (A.map f) := by
  refine ⟨A.map (fun s => (s, f s)), ?_, ?_, ?_⟩
  · have : (A.map (fun s => (s, f s))).map (·.1) = A := by
      rw [List.map_map]
      exact List.map_id'' (fun s => rfl) A
    rw [this]
  · have : (A.map (fun s => (s, f s))).map (·.2) = A.map f := by
      rw [List.map_map]
      rfl
    rw [this]
  · intro p hp
    obtain ⟨s, hs, rfl⟩ := List.mem_map.1 hp
    exact h s hs

theorem forall2_map_right {α β γ : Type} {R : α → β → Prop} {R' : α → γ → Prop} (f : β → γ)
    {A : List α} {B : List β} (h : List.Forall₂ R A B)
    (himp : ∀ a b, a ∈ A → R a b → R' a (f b)) : List.Forall₂ R' A (B.map f) := by
  induction h with
  | nil => exact List.Forall₂.nil
  | @cons a b A B hr _ ih =>
    rw [List.map_cons]
    refine List.Forall₂.cons (himp a b (List.mem_cons_self ..) hr) (ih ?_)
    intro a' b' ha'
    exact himp a' b' (List.mem_cons_of_mem _ ha')

/-! ### entries of leaves and multiplexers -/

def entriesOf (top : List Item) : List Entry := top.flatMap itemEntries

def leafEntry (s : DSig) : Entry := ⟨s.name, s.size, sigPos s, .top⟩

theorem entriesOf_perm {l1 l2 : List Item} (h : l1.Perm l2) : (entriesOf l1).Perm (entriesOf l2) :=
  h.flatMap_right _

theorem entriesOf_leaves : ∀ sigs : List DSig, entriesOf (sigs.map leafOf) = sigs.map leafEntry
  | [] => rfl
  | s :: r => by
    have := entriesOf_leaves r
    simp only [entriesOf, List.map_cons, List.flatMap_cons] at this ⊢
    rw [this]
    rfl

theorem entriesOf_append (a b : List Item) : entriesOf (a ++ b) = entriesOf a ++ entriesOf b := by
  simp [entriesOf]

theorem entriesOf_cons (x : Item) (l : List Item) : entriesOf (x :: l) = itemEntries x ++ entriesOf l := by
  simp [entriesOf]

theorem leafEntry_rel (exts : List DExt) (s : DSig) (h : s.isMultiplexor = false) :
    EntryRel exts s (leafEntry s) :=
  ⟨rfl, rfl, rfl, h⟩

/-! ### selector width -/

theorem calcValue_pos_le (n : Nat) (h : 0 < calcValue (n : Int)) : n ≤ 62 := by
  apply Classical.byContradiction
  intro hn
  have hn' : 63 ≤ n := by omega
  unfold calcValue at h
  split at h
  · omega
  · rw [Int.toNat_natCast] at h
    by_cases h63 : n = 63
    · subst h63
      revert h; decide
    · have : (1#64 <<< n) = 0#64 := by
        apply BitVec.eq_of_toNat_eq
        rw [BitVec.toNat_shiftLeft, Nat.shiftLeft_eq]
        simp only [BitVec.toNat_ofNat]
        have : 2 ^ 64 ∣ 2 ^ n := Nat.pow_dvd_pow 2 (by omega)
        simp [Nat.mod_eq_zero_of_dvd this]
      rw [this] at h
      revert h; decide

/-- the selector of an imported multiplexer is as wide as the file says (from 1 bit on) -/
theorem selW_eq (n : MuxNode) (w : Nat) (hwf : MuxWF n) (hgc : n.groupCount = calcValue (w : Int))
    (h1 : 1 ≤ w) : n.selW = (w : Int) := by
  have hpos := hwf.gcPos
  rw [hgc] at hpos
  have h62 := calcValue_pos_le w hpos
  rw [hwf.selW, hgc]
  exact Acme.Conv.selector_roundtrip (w : Int) (by omega) (by omega)

/-- a multiplexor of the file with the signals collected for it matches the imported node -/
theorem mux_matching (exts : List DExt) (mx : DSig) (kids : List DSig) (n : MuxNode)
    (h : importMux exts mx kids = .ok n) (hpos : ∀ k ∈ kids, 0 < k.size)
    (hmx : mx.isMultiplexor = true)
    (hkids : ∀ k ∈ kids, k.isMultiplexor = false) :
    MuxWF n ∧ Matching exts (mx :: kids) (itemEntries (.mux n)) := by
  obtain ⟨hwf, hname, hstart, hgc, _, hfa⟩ := importMux_spec exts mx kids n h hpos
  have hsel := importMux_size exts mx kids n h
  refine ⟨hwf, ?_⟩
  have hw : n.selW = (mx.size : Int) := selW_eq n mx.size hwf hgc hsel
  simp only [itemEntries]
  have h1 : Matching exts [mx] [⟨n.name, n.selW, n.start, .muxor⟩] :=
    Matching.single ⟨hname, hw, hstart, hmx⟩
  have h2 : Matching exts kids (n.children.map (childEntry n)) := by
    apply Matching.of_forall2
    refine forall2_map_right (childEntry n) hfa ?_
    intro k c hk hr
    obtain ⟨r1, r2, r3, r4, _⟩ := hr
    refine ⟨r1, r3, ?_, hkids k hk, r4⟩
    simp only [childEntry]
    rw [r2, hstart, hw]
    unfold filePos sigPos
    omega
  exact Matching.append h1 h2

/-! ### case "no multiplexor" -/

theorem importPlain_case (exts : List DExt) (cap : Int) (sigs : List DSig) (top' : List Item)
    (h : importPlain cap [] sigs = .ok top') (hcap : 0 ≤ cap) :
    TopInv cap top' ∧ ((∀ s ∈ sigs, s.isMultiplexor = false) → Matching exts sigs (entriesOf top')) := by
  obtain ⟨hinv, hp⟩ := importPlain_spec cap sigs [] top' h (topInv_nil cap hcap)
  refine ⟨hinv, fun hm => ?_⟩
  rw [List.append_nil] at hp
  have := (Matching.map (exts := exts) sigs leafEntry (fun s hs => leafEntry_rel exts s (hm s hs)))
  rw [← entriesOf_leaves] at this
  exact this.perm (List.Perm.refl _) (entriesOf_perm hp).symm

/-! ### case "one multiplexor" -/

theorem importOne_struct (cap : Int) (exts : List DExt) (mx : DSig) (sorted : List DSig) (top' : List Item)
    (h : importOne cap exts mx sorted = .ok top') :
    ∃ muxed std last top1 kids n,
      splitOne mx.name sorted [] [] (-1) = .ok (muxed, std, last) ∧
      placeStd cap (sigPos mx) last [] muxed std = .ok (top1, kids) ∧
      importMux exts mx kids = .ok n ∧ insertTop cap top1 (.mux n) = .ok top' := by
  unfold importOne at h
  split at h
  · cases h
  · rename_i muxed std last hsplit
    split at h
    · cases h
    · rename_i top1 kids hplace
      split at h
      · cases h
      · rename_i n hmux
        exact ⟨muxed, std, last, top1, kids, n, hsplit, hplace, hmux, h⟩

theorem muxItem_size_pos (n : MuxNode) (h : MuxWF n) : 0 < (Item.mux n).size := by
  simp only [Item.size]
  have := h.gsPos
  have h2 := calcSize_pos (n.groupCount - 1)
  rw [← h.selW] at h2
  omega

theorem importOne_case (cap : Int) (exts : List DExt) (mx : DSig) (sorted : List DSig) (top' : List Item)
    (h : importOne cap exts mx sorted = .ok top') (hcap : 0 ≤ cap) :
    TopInv cap top' ∧
    ((∀ s ∈ sorted, (s.name == mx.name) = s.isMultiplexor) → sorted.filter (·.isMultiplexor) = [mx] →
      Matching exts sorted (entriesOf top')) := by
  obtain ⟨muxed, std, last, top1, kids, n, hsplit, hplace, hmux, hins⟩ := importOne_struct cap exts mx sorted top' h
  obtain ⟨hm, hs, hpos, _, _, _⟩ := splitOne_spec mx.name sorted [] [] (-1) muxed std last hsplit
  simp only [List.nil_append] at hm hs
  have hstdpos : ∀ s ∈ std, 0 < s.size := by
    intro s hs'
    rw [hs] at hs'
    obtain ⟨h1, h2⟩ := List.mem_filter.1 hs'
    simp only [Bool.and_eq_true, Bool.not_eq_true'] at h2
    exact hpos s h1 h2.1
  obtain ⟨hinv1, hp1, hk⟩ := placeStd_spec cap (sigPos mx) last std [] muxed top1 kids hplace hstdpos (topInv_nil cap hcap)
  have hkidpos : ∀ k ∈ kids, 0 < k.size := by
    intro k hk'
    rw [hk] at hk'
    rcases List.mem_append.1 hk' with h1 | h1
    · rw [hm] at h1
      obtain ⟨h1, h2⟩ := List.mem_filter.1 h1
      simp only [Bool.and_eq_true, Bool.not_eq_true'] at h2
      exact hpos k h1 h2.1
    · exact hstdpos k (List.mem_filter.1 h1).1
  obtain ⟨hwf, _⟩ := importMux_spec exts mx kids n hmux hkidpos
  obtain ⟨hinv', hp'⟩ := insertTop_inv cap top1 top' (.mux n) hins (muxItem_size_pos n hwf)
    (fun n' hn' => by injection hn' with hn'; subst hn'; exact hwf) hinv1
  refine ⟨hinv', fun hnames hfilter => ?_⟩
  -- the signals: mx, the kids, the standard signals that stay at the top
  have hmxmem : mx ∈ sorted := by
    have : mx ∈ sorted.filter (·.isMultiplexor) := by rw [hfilter]; exact List.mem_singleton.2 rfl
    exact (List.mem_filter.1 this).1
  have hmxmux : mx.isMultiplexor = true := by
    have : mx ∈ sorted.filter (·.isMultiplexor) := by rw [hfilter]; exact List.mem_singleton.2 rfl
    exact (List.mem_filter.1 this).2
  have hkidmux : ∀ k ∈ kids, k.isMultiplexor = false := by
    intro k hk'
    rw [hk] at hk'
    have hmem : k ∈ sorted ∧ (k.name == mx.name) = false := by
      rcases List.mem_append.1 hk' with h1 | h1
      · rw [hm] at h1
        obtain ⟨h1, h2⟩ := List.mem_filter.1 h1
        simp only [Bool.and_eq_true, Bool.not_eq_true'] at h2
        exact ⟨h1, h2.1⟩
      · have h1 := (List.mem_filter.1 h1).1
        rw [hs] at h1
        obtain ⟨h1, h2⟩ := List.mem_filter.1 h1
        simp only [Bool.and_eq_true, Bool.not_eq_true'] at h2
        exact ⟨h1, h2.1⟩
    rw [← hnames k hmem.1]; exact hmem.2
  obtain ⟨_, hmatch⟩ := mux_matching exts mx kids n hmux hkidpos hmxmux hkidmux
  let tops := std.filter (fun s => !between (sigPos mx) last s)
  have htopmux : ∀ s ∈ tops, s.isMultiplexor = false := by
    intro s hs'
    have h1 := (List.mem_filter.1 hs').1
    rw [hs] at h1
    obtain ⟨h1, h2⟩ := List.mem_filter.1 h1
    simp only [Bool.and_eq_true, Bool.not_eq_true'] at h2
    rw [← hnames s h1]; exact h2.1
  have hmatch2 : Matching exts tops (entriesOf (tops.map leafOf)) := by
    rw [entriesOf_leaves]
    exact Matching.map tops leafEntry (fun s hs' => leafEntry_rel exts s (htopmux s hs'))
  have hall := Matching.append hmatch hmatch2
  -- entries
  have hE : (itemEntries (.mux n) ++ entriesOf (tops.map leafOf)).Perm (entriesOf top') := by
    rw [← entriesOf_cons]
    refine (entriesOf_perm (hp'.trans (List.Perm.cons _ ?_))).symm
    simpa using hp1
  -- signals
  have hS : (mx :: kids ++ tops).Perm sorted := by
    have e1 : (sorted.filter (·.isMultiplexor) ++ sorted.filter (fun s => !s.isMultiplexor)).Perm sorted :=
      List.filter_append_perm _ _
    rw [hfilter] at e1
    have hL : sorted.filter (fun s => !s.isMultiplexor) = sorted.filter (fun s => !(s.name == mx.name)) := by
      apply List.filter_congr
      intro s hs'
      rw [hnames s hs']
    have e2 : (muxed ++ std).Perm (sorted.filter (fun s => !s.isMultiplexor)) := by
      rw [hL, hm, hs]
      have := List.filter_append_perm (fun s : DSig => s.isMultiplexed) (sorted.filter (fun s => !(s.name == mx.name)))
      rw [List.filter_filter, List.filter_filter] at this
      have c1 : sorted.filter (fun a => a.isMultiplexed && !(a.name == mx.name)) =
          sorted.filter (fun s => !(s.name == mx.name) && s.isMultiplexed) :=
        List.filter_congr (fun a _ => Bool.and_comm _ _)
      have c2 : sorted.filter (fun a => (!a.isMultiplexed) && !(a.name == mx.name)) =
          sorted.filter (fun s => !(s.name == mx.name) && !s.isMultiplexed) :=
        List.filter_congr (fun a _ => Bool.and_comm _ _)
      rw [c1, c2] at this
      exact this
    have e3 : (std.filter (between (sigPos mx) last) ++ tops).Perm std :=
      List.filter_append_perm _ _
    have e4 : (kids ++ tops).Perm (muxed ++ std) := by
      rw [hk, List.append_assoc]
      exact List.Perm.append_left _ e3
    exact (List.Perm.cons mx (e4.trans e2)).trans e1
  exact hall.perm hS hE

theorem forall2_mem_right {α β : Type} {R : α → β → Prop} {A : List α} {B : List β}
    (h : List.Forall₂ R A B) : ∀ b ∈ B, ∃ a ∈ A, R a b := by
  induction h with
  | nil => intro b hb; cases hb
  | @cons a b A B hr _ ih =>
    intro x hx
    rcases List.mem_cons.1 hx with rfl | hx
    · exact ⟨a, List.mem_cons_self .., hr⟩
    · obtain ⟨y, hy, hxy⟩ := ih x hx
      exact ⟨y, List.mem_cons_of_mem _ hy, hxy⟩

/-- case "one multiplexor": the selector has at least one bit and nothing is nested -/
theorem importOne_flat (cap : Int) (exts : List DExt) (mx : DSig) (sorted : List DSig) (top' : List Item)
    (h : importOne cap exts mx sorted = .ok top') (hcap : 0 ≤ cap)
    (hfilter : sorted.filter (·.isMultiplexor) = [mx]) :
    1 ≤ mx.size ∧ ∀ n, Item.mux n ∈ top' → ∀ c ∈ n.children, c.isMux = false := by
  obtain ⟨muxed, std, last, top1, kids, n, hsplit, hplace, hmux, hins⟩ := importOne_struct cap exts mx sorted top' h
  obtain ⟨hm, hs, hpos, _, _, _⟩ := splitOne_spec mx.name sorted [] [] (-1) muxed std last hsplit
  simp only [List.nil_append] at hm hs
  have hstdpos : ∀ s ∈ std, 0 < s.size := by
    intro s hs'
    rw [hs] at hs'
    obtain ⟨h1, h2⟩ := List.mem_filter.1 hs'
    simp only [Bool.and_eq_true, Bool.not_eq_true'] at h2
    exact hpos s h1 h2.1
  obtain ⟨hinv1, hp1, hk⟩ := placeStd_spec cap (sigPos mx) last std [] muxed top1 kids hplace hstdpos (topInv_nil cap hcap)
  have hkidmem : ∀ k ∈ kids, k ∈ sorted ∧ (k.name == mx.name) = false := by
    intro k hk'
    rw [hk] at hk'
    rcases List.mem_append.1 hk' with h1 | h1
    · rw [hm] at h1
      obtain ⟨h1, h2⟩ := List.mem_filter.1 h1
      simp only [Bool.and_eq_true, Bool.not_eq_true'] at h2
      exact ⟨h1, h2.1⟩
    · have h1 := (List.mem_filter.1 h1).1
      rw [hs] at h1
      obtain ⟨h1, h2⟩ := List.mem_filter.1 h1
      simp only [Bool.and_eq_true, Bool.not_eq_true'] at h2
      exact ⟨h1, h2.1⟩
  have hkidpos : ∀ k ∈ kids, 0 < k.size := by
    intro k hk'
    obtain ⟨a, b⟩ := hkidmem k hk'
    exact hpos k a b
  obtain ⟨hwf, _, _, _, _, hfa⟩ := importMux_spec exts mx kids n hmux hkidpos
  refine ⟨importMux_size exts mx kids n hmux, ?_⟩
  obtain ⟨heq, _⟩ := insertTop_spec cap top1 top' (.mux n) hins (muxItem_size_pos n hwf) hinv1.wf
  intro n' hn' c hc
  rw [heq] at hn'
  rcases (mem_insertItem _ _ _).1 hn' with h1 | h1
  · injection h1 with h1
    subst h1
    obtain ⟨k, hk', _, _, _, _, r5⟩ := forall2_mem_right hfa c hc
    rw [r5]
    cases hb : k.isMultiplexor
    · rfl
    · obtain ⟨a, b⟩ := hkidmem k hk'
      have : k ∈ sorted.filter (·.isMultiplexor) := List.mem_filter.2 ⟨a, hb⟩
      rw [hfilter, List.mem_singleton] at this
      rw [this] at b
      simp at b
  · -- the other items are leaves
    have := (hp1.mem_iff).1 h1
    rw [List.append_nil] at this
    obtain ⟨s, _, hs'⟩ := List.mem_map.1 this
    cases hs'

end Acme.Import
