/-
Translator stage 11, sections 11-19 of dbc/writer.go: comments, attributes, attribute defaults,
attribute values, value encodings, signal type references, signal groups, extended value types,
extended multiplexing.
-/
import Acme.Proofs.GenDbcWriterSec2

namespace Acme.GenW
open Acme.Dbc Acme.Dbc.Scan Acme.Gen

theorem text_formatHexInt (h : Bool) (n : Nat) : W.formatHexInt h n = Acme.Dbc.formatHexInt h n := by
  cases h <;> simp [W.formatHexInt, Acme.Dbc.formatHexInt, W.formatUint]

/-! ## 11. comments -/

def frComment (c : Comment) : List Frag :=
  [.tok (Token.kw .comment), .sp " "] ++
  (match c.kind with
   | .general => []
   | .node => [.tok (Token.kw .node), .sp " ", .tok (classifyWord c.nodeName), .sp " "]
   | .message => [.tok (Token.kw .message), .sp " ", .tok (uintTok c.messageID), .sp " "]
   | .signal => [.tok (Token.kw .signal), .sp " ", .tok (uintTok c.messageID), .sp " ",
                 .tok (classifyWord c.signalName), .sp " "]
   | .envVar => [.tok (Token.kw .envVar), .sp " ", .tok (classifyWord c.envVarName), .sp " "]) ++
  [.tok (.string c.text), .tok (Token.p .semicolon), .sp "\n"]

theorem toks_frComment (c : Comment) : toks (frComment c) = Acme.Dbc.writeComment c := by
  unfold frComment Acme.Dbc.writeComment
  cases c.kind <;> simp

theorem text_comment (h : Bool) (c : Comment) (out : String) :
    W.writeComment h c out = out ++ fragText (frComment c) := by
  unfold W.writeComment frComment
  cases c.kind <;> wtext []

theorem ok_comment (c : Comment) : SecOK (frComment c) := by
  unfold frComment
  cases c.kind <;> wok [Token.kw]

/-! ## 12. attributes -/

def frAttrKind : AttributeKind → List Frag
  | .general => []
  | .node => [.tok (Token.kw .node), .sp " "]
  | .message => [.tok (Token.kw .message), .sp " "]
  | .signal => [.tok (Token.kw .signal), .sp " "]
  | .envVar => [.tok (Token.kw .envVar), .sp " "]

def frString (s : String) : List Frag := [.sp " ", .tok (.string s)]

def frAttribute (hex : Bool) (a : Attribute) : List Frag :=
  [.tok (Token.kw .attribute), .sp " "] ++ frAttrKind a.kind ++ [.tok (.string a.name), .sp " "] ++
  (match a.type with
   | .int => [.tok (Token.kw .attributeInt), .sp " ", .tok (intTok a.minInt), .sp " ", .tok (intTok a.maxInt)]
   | .hex => [.tok (Token.kw .attributeHex), .sp " ", .tok (hexTok hex a.minHex), .sp " ", .tok (hexTok hex a.maxHex)]
   | .string => [.tok (Token.kw .attributeString)]
   | .float => [.tok (Token.kw .attributeFloat), .sp " "] ++ frDouble a.minFloat ++ [.sp " "] ++ frDouble a.maxFloat
   | .enum => [.tok (Token.kw .attributeEnum)] ++ frSep [.tok (Token.p .comma)] frString a.enumValues) ++
  [.tok (Token.p .semicolon), .sp "\n"]

theorem toks_frAttribute (hex : Bool) (a : Attribute) : toks (frAttribute hex a) = Acme.Dbc.writeAttribute hex a := by
  unfold frAttribute Acme.Dbc.writeAttribute
  cases a.kind <;> cases a.type <;>
    simp [frAttrKind, writeAttributeKind, toks_frDouble,
      toks_frSep [.tok (Token.p .comma)] frString stringToks rfl (fun _ => rfl)]

theorem text_attribute (h : Bool) (a : Attribute) (out : String) :
    W.writeAttribute h a out = out ++ fragText (frAttribute h a) := by
  unfold W.writeAttribute
  have hl := text_sep_loop [.tok (Token.p .comma)] frString (W.writeAttribute_loop1 h a) (fun i => i ≠ 0)
    (by decide) (fun i hi => by omega) (fun out => out ++ ",") (fun r out => out ++ " " ++ W.formatString h r)
    (fun _ _ => rfl) (fun _ _ _ _ => rfl) (by intro out; wtext []) (by intro x out; wtext [frString])
  simp only [hl]
  unfold frAttribute
  cases a.kind <;> cases a.type <;> wtext [frAttrKind, text_frDouble, text_formatHexInt, hexTok]

theorem ok_attribute (hex : Bool) (a : Attribute) (h : attributeOK finiteFloatText a = true) :
    SecOK (frAttribute hex a) := by
  simp only [attributeOK, Bool.and_eq_true] at h
  have he := ok_frSep [.tok (Token.p .comma)] (fun s => Token.string s) (Or.inl rfl) a.enumValues
  have hf := h.2
  unfold frAttribute frString
  cases ht : a.type <;> rw [ht] at hf <;> cases a.kind
  case float.general | float.node | float.message | float.signal | float.envVar =>
    all_goals (simp only [Bool.and_eq_true] at hf; rw [frDouble_finite hf.1, frDouble_finite hf.2])
    all_goals wok [frAttrKind, Token.kw]
  all_goals first
    | (wok [frAttrKind, Token.kw, he, hexTok]; done)
    | (wok [frAttrKind, Token.kw, he, hexTok]; split <;> rfl)

/-! ## 13. attribute defaults -/

def frAttrValue (hex : Bool) (t : AttrValType) (vInt : Int) (vHex : Nat) (vFloat vString : String) : List Frag :=
  match t with
  | .int => [.tok (intTok vInt)]
  | .hex => [.tok (hexTok hex vHex)]
  | .float => frDouble vFloat
  | .string => [.tok (.string vString)]

theorem toks_frAttrValue (hex : Bool) (t : AttrValType) (vInt : Int) (vHex : Nat) (vFloat vString : String) :
    toks (frAttrValue hex t vInt vHex vFloat vString) = writeAttrValue hex t vInt vHex vFloat vString := by
  cases t <;> simp [frAttrValue, writeAttrValue, toks_frDouble]

def frAttributeDefault (hex : Bool) (d : AttributeDefault) : List Frag :=
  [.tok (Token.kw .attributeDefault), .sp " ", .tok (.string d.attributeName), .sp " "] ++
  frAttrValue hex d.type d.valueInt d.valueHex d.valueFloat d.valueString ++ [.tok (Token.p .semicolon), .sp "\n"]

theorem toks_frAttributeDefault (hex : Bool) (d : AttributeDefault) :
    toks (frAttributeDefault hex d) = Acme.Dbc.writeAttributeDefault hex d := by
  simp [frAttributeDefault, Acme.Dbc.writeAttributeDefault, toks_frAttrValue]

theorem text_attributeDefault (h : Bool) (d : AttributeDefault) (out : String) :
    W.writeAttributeDefault h d out = out ++ fragText (frAttributeDefault h d) := by
  unfold W.writeAttributeDefault frAttributeDefault frAttrValue
  cases d.type <;> wtext [text_frDouble, text_formatHexInt, hexTok]

/-- the value part behind a blank and in front of `;` -/
theorem ok_attrValue_then (hex : Bool) (v : TaggedVal) (hv : taggedValOK finiteFloatText v = true) (l : List Frag) :
    okFrom none (frAttrValue hex v.type v.valueInt v.valueHex v.valueFloat v.valueString ++
      .tok (Token.p .semicolon) :: l) = okFrom (some (Token.p .semicolon)) l := by
  rw [okFrom_then_p _ _ _ (by decide)]
  simp only [taggedValOK, Bool.and_eq_true] at hv
  have hf := hv.2
  unfold frAttrValue
  cases ht : v.type <;> rw [ht] at hf
  case float => rw [frDouble_finite hf]; simp [okFrom]
  all_goals simp [okFrom]

theorem ok_attributeDefault (hex : Bool) (d : AttributeDefault) (h : attributeDefaultOK finiteFloatText d = true) :
    SecOK (frAttributeDefault hex d) := by
  simp only [attributeDefaultOK, Bool.and_eq_true] at h
  refine ⟨?_, ?_⟩
  · have := ok_attrValue_then hex d.val h.2 [.sp "\n"]
    simp only [AttributeDefault.val] at this
    simp only [frAttributeDefault, List.cons_append, List.nil_append, okFrom, sp_blank1, sp_ne1, Bool.true_and,
      Bool.false_eq_true, if_false, List.append_assoc]
    rw [this]; wok []
  · simp [frAttributeDefault, endSt_append, endSt, sp_ne2]

/-! ## 14. attribute values -/

def frAttributeValue (hex : Bool) (v : AttributeValue) : List Frag :=
  [.tok (Token.kw .attributeValue), .sp " ", .tok (.string v.attributeName), .sp " "] ++
  (match v.attributeKind with
   | .general => []
   | .node => [.tok (Token.kw .node), .sp " ", .tok (classifyWord v.nodeName), .sp " "]
   | .message => [.tok (Token.kw .message), .sp " ", .tok (uintTok v.messageID), .sp " "]
   | .signal => [.tok (Token.kw .signal), .sp " ", .tok (uintTok v.messageID), .sp " ",
                 .tok (classifyWord v.signalName), .sp " "]
   | .envVar => [.tok (Token.kw .envVar), .sp " ", .tok (classifyWord v.envVarName), .sp " "]) ++
  frAttrValue hex v.type v.valueInt v.valueHex v.valueFloat v.valueString ++ [.tok (Token.p .semicolon), .sp "\n"]

theorem toks_frAttributeValue (hex : Bool) (v : AttributeValue) :
    toks (frAttributeValue hex v) = Acme.Dbc.writeAttributeValue hex v := by
  unfold frAttributeValue Acme.Dbc.writeAttributeValue
  cases v.attributeKind <;> simp [toks_frAttrValue]

theorem text_attributeValue (h : Bool) (v : AttributeValue) (out : String) :
    W.writeAttributeValue h v out = out ++ fragText (frAttributeValue h v) := by
  unfold W.writeAttributeValue frAttributeValue frAttrValue
  cases v.attributeKind <;> cases v.type <;> wtext [text_frDouble, text_formatHexInt, hexTok]

theorem ok_attributeValue (hex : Bool) (v : AttributeValue) (h : attributeValueOK finiteFloatText v = true) :
    SecOK (frAttributeValue hex v) := by
  simp only [attributeValueOK, Bool.and_eq_true] at h
  refine ⟨?_, ?_⟩
  · have := ok_attrValue_then hex v.val h.1.1.2 [.sp "\n"]
    simp only [AttributeValue.val] at this
    unfold frAttributeValue
    cases v.attributeKind <;>
      simp only [List.cons_append, List.nil_append, okFrom, sp_blank1, sp_ne1, Bool.true_and,
        Bool.false_eq_true, if_false, List.append_assoc] <;> rw [this] <;> wok []
  · simp [frAttributeValue, endSt_append, endSt, sp_ne2]

/-! ## 15. value encodings -/

def frValueEncoding (ve : ValueEncoding) : List Frag :=
  [.tok (Token.kw .valueEncoding), .sp " "] ++
  (match ve.kind with
   | .signal => [.tok (uintTok ve.messageID), .sp " ", .tok (classifyWord ve.signalName)]
   | .envVar => [.tok (classifyWord ve.envVarName)]) ++
  frValueDescriptions ve.values ++ [.tok (Token.p .semicolon), .sp "\n"]

theorem toks_frValueEncoding (ve : ValueEncoding) : toks (frValueEncoding ve) = Acme.Dbc.writeValueEncoding ve := by
  unfold frValueEncoding Acme.Dbc.writeValueEncoding
  cases ve.kind <;> simp [toks_frValueDescriptions]

theorem text_valueEncoding (h : Bool) (ve : ValueEncoding) (out : String) :
    W.writeValueEncoding h ve out = out ++ fragText (frValueEncoding ve) := by
  unfold W.writeValueEncoding
  have := text_valueDescriptions_loop (W.writeValueEncoding_loop1 h ve) h (fun _ => rfl) (fun _ _ _ => rfl)
  simp only [this]
  unfold frValueEncoding
  cases ve.kind <;> wtext []

theorem ok_frValueDescriptions (vds : List ValueDescription) (p : Option Token) :
    okFrom p (frValueDescriptions vds) = true := by
  induction vds generalizing p with
  | nil => rfl
  | cons vd vds ih => simp [frValueDescriptions, frValueDescription, okFrom, okFrom_append, sp_blank1, sp_ne1, ih]

theorem ok_valueEncoding (ve : ValueEncoding) : SecOK (frValueEncoding ve) := by
  refine ⟨?_, ?_⟩
  · unfold frValueEncoding
    rw [List.append_assoc, okFrom_append, okFrom_then_p _ _ _ (by decide), ok_frValueDescriptions]
    cases ve.kind <;> wok [Token.kw]
  · simp [frValueEncoding, endSt_append, endSt, sp_ne2]

/-! ## 16. signal type references -/

def frSignalTypeRef (r : SignalTypeRef) : List Frag :=
  [.tok (Token.kw .signalType), .sp " ", .tok (uintTok r.messageID), .sp " ", .tok (classifyWord r.signalName),
   .sp " ", .tok (Token.p .colon), .sp " ", .tok (classifyWord r.typeName), .tok (Token.p .semicolon), .sp "\n"]

theorem toks_frSignalTypeRef (r : SignalTypeRef) : toks (frSignalTypeRef r) = Acme.Dbc.writeSignalTypeRef r := rfl

theorem text_signalTypeRef (h : Bool) (r : SignalTypeRef) (out : String) :
    W.writeSignalTypeRef h r out = out ++ fragText (frSignalTypeRef r) := by
  wtext [W.writeSignalTypeRef, frSignalTypeRef]

theorem ok_signalTypeRef (r : SignalTypeRef) : SecOK (frSignalTypeRef r) := by wok [frSignalTypeRef, Token.kw]

/-! ## 17. signal groups -/

def frSignalGroup (g : SignalGroup) : List Frag :=
  [.tok (Token.kw .signalGroup), .sp " ", .tok (uintTok g.messageID), .sp " ", .tok (classifyWord g.groupName),
   .sp " ", .tok (uintTok g.repetitions), .sp " ", .tok (Token.p .colon)] ++ frWords g.signalNames ++
  [.tok (Token.p .semicolon), .sp "\n"]

theorem toks_frSignalGroup (g : SignalGroup) : toks (frSignalGroup g) = Acme.Dbc.writeSignalGroup g := by
  simp [frSignalGroup, Acme.Dbc.writeSignalGroup, toks_frWords]

theorem text_signalGroup (h : Bool) (g : SignalGroup) (out : String) :
    W.writeSignalGroup h g out = out ++ fragText (frSignalGroup g) := by
  unfold W.writeSignalGroup
  have := text_words_loop (W.writeSignalGroup_loop1 h g) (fun _ => rfl) (fun _ _ _ => rfl)
  simp only [this]
  wtext [frSignalGroup]

theorem ok_signalGroup (g : SignalGroup) : SecOK (frSignalGroup g) := by
  refine ⟨?_, ?_⟩
  · unfold frSignalGroup
    rw [okFrom_then_p _ _ _ (by decide), okFrom_append, ok_frWords]
    wok [Token.kw]
  · simp [frSignalGroup, endSt_append, endSt, sp_ne2]

/-! ## 18. extended value types -/

def frSignalExtValueType (t : SignalExtValueType) : List Frag :=
  [.tok (Token.kw .signalValueType), .sp " ", .tok (uintTok t.messageID), .sp " ", .tok (classifyWord t.signalName),
   .sp " ", .tok (writeExtValueType t.extValueType), .tok (Token.p .semicolon), .sp "\n"]

theorem toks_frSignalExtValueType (t : SignalExtValueType) :
    toks (frSignalExtValueType t) = Acme.Dbc.writeSignalExtValueType t := rfl

theorem text_signalExtValueType (h : Bool) (t : SignalExtValueType) (out : String) :
    W.writeSignalExtValueType h t out = out ++ fragText (frSignalExtValueType t) := by
  unfold W.writeSignalExtValueType frSignalExtValueType
  cases t.extValueType <;> wtext [writeExtValueType]

theorem ok_signalExtValueType (t : SignalExtValueType) : SecOK (frSignalExtValueType t) := by
  wok [frSignalExtValueType, Token.kw]

/-! ## 19. extended multiplexing -/

def frRange (r : ExtendedMuxRange) : List Frag :=
  [.sp " ", .tok (.numberRange (formatUint r.from_ ++ "-" ++ formatUint r.to))]

def frExtendedMux (m : ExtendedMux) : List Frag :=
  [.tok (Token.kw .extendedMux), .sp " ", .tok (uintTok m.messageID), .sp " ", .tok (classifyWord m.multiplexedName),
   .sp " ", .tok (classifyWord m.multiplexorName)] ++ frSep [.tok (Token.p .comma)] frRange m.ranges ++
  [.tok (Token.p .semicolon), .sp "\n"]

theorem toks_frExtendedMux (m : ExtendedMux) : toks (frExtendedMux m) = Acme.Dbc.writeExtendedMux m := by
  simp [frExtendedMux, Acme.Dbc.writeExtendedMux,
    toks_frSep [.tok (Token.p .comma)] frRange writeExtendedMuxRange rfl (fun _ => rfl)]

theorem text_extendedMux (h : Bool) (m : ExtendedMux) (out : String) :
    W.writeExtendedMux h m out = out ++ fragText (frExtendedMux m) := by
  unfold W.writeExtendedMux
  have hl := text_sep_loop [.tok (Token.p .comma)] frRange (W.writeExtendedMux_loop1 h m) (fun i => i ≠ 0)
    (by decide) (fun i hi => by omega) (fun out => out ++ ",")
    (fun r out => out ++ " " ++ W.formatUint h r.from_ ++ "-" ++ W.formatUint h r.to)
    (fun _ _ => rfl) (fun _ _ _ _ => rfl) (by intro out; wtext []) (by intro x out; wtext [frRange])
  simp only [hl]
  wtext [frExtendedMux]

theorem ok_extendedMux (m : ExtendedMux) : SecOK (frExtendedMux m) := by
  refine ⟨?_, ?_⟩
  · unfold frExtendedMux frRange
    rw [okFrom_then_p _ _ _ (by decide), okFrom_append,
      ok_frSep [.tok (Token.p .comma)] (fun r : ExtendedMuxRange => Token.numberRange (formatUint r.from_ ++ "-" ++ formatUint r.to)) (Or.inl rfl)]
    wok [Token.kw]
  · simp [frExtendedMux, endSt_append, endSt, sp_ne2]

end Acme.GenW
