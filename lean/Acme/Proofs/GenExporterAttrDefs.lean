/-
Vocabulary for the ATTRIBUTE obligations of the generated exporter (Acme.Gen.X.exportAttributeAssignment,
exportAttribute, exportsAsHex, regenerated from exporter.go): the view of an attribute assignment of the
hand model Acme.Attr as the Go objects the two functions read, the CALLER (`driveItem`), the view of
the written sections as the `DAttr` / `DDefault` / `DValue` of the hand model, and the condition `Typed`.

THE CALLER IS HAND-WRITTEN.  In exporter.go the two functions are called from exportBus /
exportNodeInterfaces / exportMessage / exportSignal: `dbcAttVal := new(dbc.AttributeValue)`, the
object fields (`NodeName` / `MessageID` / `SignalName`), the call, `e.dbcFile.AttributeValues =
append(…, dbcAttVal)`; which assignments are handed over, and in which order (the sorted
`AttributeAssignments()`, then the dedicated fields that are set), is `Acme.Attr.items`.  Those
statements are still skipped by the translator (they are listed in the generated file); `driveItem`
states what they do for one item.  What IS regenerated: the definition at first use per object kind
(the four name sets), the definition and default by attribute type (hex only when the range fits
`uint32`), the value by attribute type (type assertions, hex, the index of an enum value).

`Typed`: the `any` value has the Go type its attribute demands (`AssignAttribute` and the dedicated
setters guarantee it; the Go code would fail a type assertion otherwise — the hand model answers `""`).
-/
import Acme.Proofs.GenExporterAttrTarget
import Acme.Core.Attr

namespace Acme.GenX
open Acme.Attr Acme.XSem Acme.GoSem

def viewAttr (a : AttrDef) : Attr :=
  match a.ty with
  | .str d => .string { name := a.name, defValue := d }
  | .int d mn mx hex => .integer { name := a.name, defValue := d, min := mn, max := mx, isHexFormat := hex }
  | .float d mn mx => .float { name := a.name, defValue := d, min := mn, max := mx }
  | .enum vs d => .enum { name := a.name, defValue := d, values := vs }

def viewVal : Val → AnyVal
  | .str s => .str s
  | .int i => .int i
  | .float q => .float q

def viewAsg (x : Asg) : AttrAssignment := { att := viewAttr x.att, value := viewVal x.val }

def kindOf : Acme.Attr.Kind → Acme.Dbc.AttributeKind
  | .general => .general
  | .node => .node
  | .message => .message
  | .signal => .signal
  | .envVar => .envVar

/-- what the caller writes into the fresh `dbc.AttributeValue` before the call -/
def targetVal : Target → DbcAttributeValue
  | .general => {}
  | .node n => { nodeName := n }
  | .msg id => { messageID := id }
  | .sig id n => { messageID := id, signalName := n }
  | .envVar n => { envVarName := n }

/-- the caller, for one item (see the header) -/
def driveItem (st : Acme.XSem.St) (it : Item) : Res Acme.XSem.St :=
  bind (Acme.Gen.X.exportAttributeAssignment id (viewAsg it.asg) (kindOf it.kind) (targetVal it.target) st)
    fun p => .val { p.2 with attributeValues := p.2.attributeValues ++ [p.1] }

def driveItems : List Item → Acme.XSem.St → Res Acme.XSem.St
  | [], st => .val st
  | it :: r, st => bind (driveItem st it) (driveItems r)

/-! ## the written side -/

def dkindOf : Acme.Dbc.AttributeKind → Acme.Attr.Kind
  | .general => .general
  | .node => .node
  | .message => .message
  | .signal => .signal
  | .envVar => .envVar

def dattrOf (a : DbcAttribute) : DAttr :=
  { kind := dkindOf a.kind, name := a.name,
    ty := match a.type with
      | .int => .int a.minInt a.maxInt
      | .hex => .hex a.minHex a.maxHex
      | .float => .float a.minFloat a.maxFloat
      | .string => .string
      | .enum => .enum a.enumValues }

def dvalOf (t : Acme.Dbc.AttrValType) (s : String) (i : Int) (h : Nat) (q : Rat) : Acme.Attr.DVal :=
  match t with
  | .int => .int i
  | .string => .str s
  | .float => .float q
  | .hex => .hex h

def ddefaultOf (d : DbcAttributeDefault) : DDefault :=
  { name := d.attributeName, val := dvalOf d.type d.valueString d.valueInt d.valueHex d.valueFloat }

def dvalueOf (v : DbcAttributeValue) : DValue :=
  { name := v.attributeName,
    target := match v.attributeKind with
      | .general => .general
      | .node => .node v.nodeName
      | .message => .msg v.messageID
      | .signal => .sig v.messageID v.signalName
      | .envVar => .envVar v.envVarName,
    val := dvalOf v.type v.valueString v.valueInt v.valueHex v.valueFloat }

/-! ## the condition -/

def Typed (x : Asg) : Prop :=
  match x.att.ty, x.val with
  | .str _, .str _ => True
  | .int _ _ _ _, .int _ => True
  | .float _ _ _, .float _ => True
  | .enum _ _, .str _ => True
  | _, _ => False

instance (x : Asg) : Decidable (Typed x) := by
  unfold Typed; split <;> exact inferInstance

def AllTyped (A : ModelAttrs) : Prop := ∀ it ∈ items A, Typed it.asg

instance (A : ModelAttrs) : Decidable (AllTyped A) := by unfold AllTyped; exact inferInstance

end Acme.GenX
