/-
Payload world, part A: toolbox.  Lookup laws of the stores, the pointwise view of
`slotsOf` / `slotsBe`, characterisations of the bulk writers (`setStarts`, `setParents`,
`setBe`, `clearValParents`) and of `regen` / `regenSig` / `regenSigs`.
-/
import Acme.Core.Payload
import Acme.Spec.Payload
import Acme.Proofs.Layout
import Mathlib.Data.List.Nodup

namespace Acme.Payload
open Acme.Layout Acme.Bits Acme.Arith

/-! ### stores -/

@[simp] theorem upd_get {α : Type} (f : AMap α) (k : Nat) (v : α) (i : Nat) :
    (upd f k v).get i = if i = k then some v else f.get i := AMap.get_set f k v i

theorem upd_get_self {α : Type} (f : AMap α) (k : Nat) (v : α) : (upd f k v).get k = some v := by
  simp

theorem upd_get_ne {α : Type} (f : AMap α) (k : Nat) (v : α) (i : Nat) (h : i ≠ k) :
    (upd f k v).get i = f.get i := by
  simp [h]

/-! ### sizes -/

theorem calcSize_pos (v : Int) : 0 < calcSize v := by
  unfold calcSize
  split
  · omega
  · split
    · simp [maxSize]
    · rename_i h0 h1
      have : v.toNat ≠ 0 := by omega
      simp [len64, this]

theorem enumSize_pos (k mx : Int) : 0 < enumSize k mx := by
  have := calcSize_pos mx
  unfold enumSize
  simp only
  split <;> omega

theorem enumSizeOf_pos (en : EnumE) : 0 < enumSizeOf en := enumSize_pos _ _

theorem muxSelWidth_pos (gc : Int) : 0 < muxSelWidth gc := calcSize_pos _

/-- `sizeOf` only looks at the types and enums stores -/
theorem sizeOf_congr {w w' : W} (s : SigE)
    (ht : ∀ t, s.kind = .std t → (w'.types.get t).map (·.size) = (w.types.get t).map (·.size))
    (he : ∀ e, s.kind = .enm e → (w'.enums.get e).map enumSizeOf = (w.enums.get e).map enumSizeOf) :
    sizeOf w' s = sizeOf w s := by
  unfold sizeOf
  cases hk : s.kind with
  | std t =>
    have := ht t hk
    simp only
    cases h1 : w'.types.get t <;> cases h2 : w.types.get t <;> simp_all
  | enm e =>
    have := he e hk
    simp only
    cases h1 : w'.enums.get e <;> cases h2 : w.enums.get e <;> simp_all
  | mux gc gs => rfl

theorem sizeOf_struct {w w' : W} (s : SigE) (ht : w'.types = w.types) (he : w'.enums = w.enums) :
    sizeOf w' s = sizeOf w s := by
  unfold sizeOf; rw [ht, he]

/-- `sizeOf` depends on the signal only through its kind -/
theorem sizeOf_kind (w : W) (s s' : SigE) (h : s'.kind = s.kind) : sizeOf w s' = sizeOf w s := by
  unfold sizeOf; rw [h]

/-! ### pointwise view of the slot lists -/

def slotAt (w : W) (i : Nat) : Option Slot :=
  (w.sigs.get i).map (fun s => ⟨i, s.rel, sizeOf w s⟩)

def slotBeAt (w : W) (i : Nat) : Option (Slot × Bool) :=
  (w.sigs.get i).map (fun s => (⟨i, s.rel, sizeOf w s⟩, s.be))

theorem slotsOf_eq (w : W) : ∀ l : List Nat, slotsOf w l = l.filterMap (slotAt w)
  | [] => rfl
  | i :: rest => by
    unfold slotsOf
    rw [List.filterMap_cons, slotsOf_eq w rest]
    unfold slotAt
    cases w.sigs.get i <;> rfl

theorem slotsBe_eq (w : W) : ∀ l : List Nat, slotsBe w l = l.filterMap (slotBeAt w)
  | [] => rfl
  | i :: rest => by
    unfold slotsBe
    rw [List.filterMap_cons, slotsBe_eq w rest]
    unfold slotBeAt
    cases w.sigs.get i <;> rfl

theorem slotsOf_congr {w w' : W} {l : List Nat} (h : ∀ i ∈ l, slotAt w' i = slotAt w i) :
    slotsOf w' l = slotsOf w l := by
  rw [slotsOf_eq, slotsOf_eq]
  exact List.filterMap_congr h

theorem slotsBe_congr {w w' : W} {l : List Nat} (h : ∀ i ∈ l, slotBeAt w' i = slotBeAt w i) :
    slotsBe w' l = slotsBe w l := by
  rw [slotsBe_eq, slotsBe_eq]
  exact List.filterMap_congr h

theorem slotsOf_struct {w w' : W} (hs : w'.sigs = w.sigs) (ht : w'.types = w.types)
    (he : w'.enums = w.enums) (l : List Nat) : slotsOf w' l = slotsOf w l := by
  apply slotsOf_congr
  intro i _
  unfold slotAt
  rw [hs]
  cases w.sigs.get i with
  | none => rfl
  | some s => simp [sizeOf_struct s ht he]

theorem slotsBe_struct {w w' : W} (hs : w'.sigs = w.sigs) (ht : w'.types = w.types)
    (he : w'.enums = w.enums) (l : List Nat) : slotsBe w' l = slotsBe w l := by
  apply slotsBe_congr
  intro i _
  unfold slotBeAt
  rw [hs]
  cases w.sigs.get i with
  | none => rfl
  | some s => simp [sizeOf_struct s ht he]

theorem slotsOf_append (w : W) (l1 l2 : List Nat) :
    slotsOf w (l1 ++ l2) = slotsOf w l1 ++ slotsOf w l2 := by
  simp [slotsOf_eq]

theorem mem_slotsOf {w : W} {l : List Nat} {x : Slot} :
    x ∈ slotsOf w l ↔ x.id ∈ l ∧ ∃ s, w.sigs.get x.id = some s ∧ x = ⟨x.id, s.rel, sizeOf w s⟩ := by
  rw [slotsOf_eq, List.mem_filterMap]
  constructor
  · rintro ⟨i, hi, h⟩
    unfold slotAt at h
    cases hs : w.sigs.get i with
    | none => rw [hs] at h; cases h
    | some s =>
      rw [hs] at h
      simp only [Option.map_some, Option.some.injEq] at h
      subst h
      exact ⟨hi, s, hs, rfl⟩
  · rintro ⟨hi, s, hs, hx⟩
    refine ⟨x.id, hi, ?_⟩
    unfold slotAt
    rw [hs]
    simp only [Option.map_some, Option.some.injEq]
    exact hx.symm

/-- ids of the slot list when every id of the layout has a signal -/
theorem slotsOf_ids {w : W} {l : List Nat} (h : ∀ i ∈ l, (w.sigs.get i).isSome) :
    (slotsOf w l).map (·.id) = l := by
  induction l with
  | nil => rfl
  | cons i rest ih =>
    have hi := h i (by simp)
    obtain ⟨s, hs⟩ := Option.isSome_iff_exists.1 hi
    unfold slotsOf
    rw [hs]
    simp only [List.map_cons]
    rw [ih (fun j hj => h j (List.mem_cons_of_mem _ hj))]

theorem slotsOf_idsNodup {w : W} {l : List Nat} (h : ∀ i ∈ l, (w.sigs.get i).isSome)
    (hn : l.Nodup) : IdsNodup (slotsOf w l) := by
  unfold IdsNodup
  rw [slotsOf_ids h]; exact hn

theorem find_slotsOf {w : W} {l : List Nat} {i : Nat} {s : SigE} (hi : i ∈ l)
    (hs : w.sigs.get i = some s) :
    find i (slotsOf w l) = some ⟨i, s.rel, sizeOf w s⟩ := by
  induction l with
  | nil => cases hi
  | cons j rest ih =>
    unfold slotsOf
    by_cases hji : j = i
    · subst hji
      rw [hs]
      exact find_cons_eq _ rfl
    · have hi' : i ∈ rest := by
        rcases List.mem_cons.1 hi with h | h
        · exact absurd h.symm hji
        · exact h
      cases hj : w.sigs.get j with
      | none => exact ih hi'
      | some sj =>
        simp only
        rw [find_cons_ne _ (by simpa using hji)]
        exact ih hi'

/-! ### `setStarts` -/

/-- the start position the slot list writes for id `i` (the last matching slot wins) -/
def relAfter : List Slot → Nat → Int → Int
  | [], _, r => r
  | x :: rest, i, r => relAfter rest i (if x.id = i then x.start else r)

theorem setStarts_get (sl : List Slot) : ∀ (sigs : AMap SigE) (i : Nat),
    (setStarts sigs sl).get i = (sigs.get i).map (fun s => { s with rel := relAfter sl i s.rel }) := by
  induction sl with
  | nil =>
    intro sigs i
    cases h : sigs.get i <;> simp [setStarts, relAfter, h]
  | cons x rest ih =>
    intro sigs i
    unfold setStarts
    cases hx : sigs.get x.id with
    | none =>
      simp only
      rw [ih]
      by_cases hi : x.id = i
      · subst hi; rw [hx]; rfl
      · simp [relAfter, hi]
    | some s =>
      simp only
      rw [ih, upd_get]
      by_cases hi : i = x.id
      · subst hi
        simp [hx, relAfter]
      · have hi' : ¬ x.id = i := fun e => hi e.symm
        simp [hi, hi', relAfter]

theorem relAfter_noid {sl : List Slot} {i : Nat} (h : ∀ x ∈ sl, x.id ≠ i) (r : Int) :
    relAfter sl i r = r := by
  induction sl generalizing r with
  | nil => rfl
  | cons x rest ih =>
    unfold relAfter
    rw [if_neg (h x (by simp))]
    exact ih (fun y hy => h y (List.mem_cons_of_mem _ hy)) r

theorem relAfter_mem {sl : List Slot} (hn : IdsNodup sl) {x : Slot} (hx : x ∈ sl) (r : Int) :
    relAfter sl x.id r = x.start := by
  induction sl generalizing r with
  | nil => cases hx
  | cons y rest ih =>
    rw [IdsNodup_cons] at hn
    unfold relAfter
    rcases List.mem_cons.1 hx with rfl | hx'
    · rw [if_pos rfl]
      exact relAfter_noid (fun z hz => hn.1 z hz) _
    · exact ih hn.2 hx' _

/-- `setStarts` keeps everything of a signal but `rel` -/
theorem setStarts_get_some {sl : List Slot} {sigs : AMap SigE} {i : Nat} {s' : SigE}
    (h : (setStarts sigs sl).get i = some s') :
    ∃ s, sigs.get i = some s ∧ s' = { s with rel := relAfter sl i s.rel } := by
  rw [setStarts_get] at h
  cases hs : sigs.get i with
  | none => rw [hs] at h; cases h
  | some s =>
    rw [hs] at h
    simp only [Option.map_some, Option.some.injEq] at h
    exact ⟨s, rfl, h.symm⟩

theorem setStarts_get_noid {sl : List Slot} {sigs : AMap SigE} {i : Nat} (h : ∀ x ∈ sl, x.id ≠ i) :
    (setStarts sigs sl).get i = sigs.get i := by
  rw [setStarts_get]
  cases sigs.get i with
  | none => rfl
  | some s => simp [relAfter_noid h]

/-- Round trip: writing back a slot list that has the ids (in order) and sizes of the
    current one, then reading the slots again, gives that list. -/
theorem slotsOf_setStarts {w : W} {l : List Nat} {sl : List Slot}
    (hp : ∀ i ∈ l, (w.sigs.get i).isSome) (hn : l.Nodup)
    (hm : sl.map (fun x => (x.id, x.size)) = (slotsOf w l).map (fun x => (x.id, x.size)))
    (w' : W) (hs : w'.sigs = setStarts w.sigs sl) (ht : w'.types = w.types) (he : w'.enums = w.enums) :
    slotsOf w' l = sl := by
  have hids : sl.map (·.id) = l := by
    have := congrArg (List.map Prod.fst) hm
    simp only [List.map_map] at this
    rw [← slotsOf_ids hp]
    exact this
  have hnd : IdsNodup sl := by unfold IdsNodup; rw [hids]; exact hn
  rw [slotsOf_eq]
  conv => lhs; rw [← hids]
  rw [List.filterMap_map]
  conv => rhs; rw [← List.filterMap_some (l := sl)]
  apply List.filterMap_congr
  intro x hx
  have hxl : x.id ∈ l := by rw [← hids]; exact List.mem_map_of_mem hx
  obtain ⟨s, hsx⟩ := Option.isSome_iff_exists.1 (hp x.id hxl)
  have hsz : sizeOf w s = x.size := by
    have hmem : (x.id, x.size) ∈ sl.map (fun x => (x.id, x.size)) :=
      List.mem_map_of_mem (f := fun x : Slot => (x.id, x.size)) hx
    rw [hm] at hmem
    rcases List.mem_map.1 hmem with ⟨y, hy, hey⟩
    rcases mem_slotsOf.1 hy with ⟨_, s2, hs2, hy2⟩
    have h1 : y.id = x.id := congrArg Prod.fst hey
    have h2 : y.size = x.size := congrArg Prod.snd hey
    rw [h1] at hs2
    rw [hsx] at hs2
    injection hs2 with hs2
    subst hs2
    rw [← h2, hy2]
  simp only [Function.comp, slotAt]
  rw [hs, setStarts_get, hsx]
  simp only [Option.map_some, Option.some.injEq]
  have hk : sizeOf w { s with rel := relAfter sl x.id s.rel } = sizeOf w s := sizeOf_kind w _ s rfl
  rw [sizeOf_struct _ ht he, hk, relAfter_mem hnd hx, hsz]

/-- `setStarts` with slots of one layout does not touch the signals outside it -/
theorem setStarts_get_notin {w : W} {l : List Nat} {sl : List Slot}
    (hm : sl.map (fun x => (x.id, x.size)) = (slotsOf w l).map (fun x => (x.id, x.size)))
    {i : Nat} (hi : i ∉ l) : (setStarts w.sigs sl).get i = w.sigs.get i := by
  apply setStarts_get_noid
  intro x hx hxi
  have hmem : (x.id, x.size) ∈ sl.map (fun x => (x.id, x.size)) :=
    List.mem_map_of_mem (f := fun x : Slot => (x.id, x.size)) hx
  rw [hm] at hmem
  rcases List.mem_map.1 hmem with ⟨y, hy, hey⟩
  have h1 : y.id = x.id := congrArg Prod.fst hey
  have := (mem_slotsOf.1 hy).1
  rw [h1, hxi] at this
  exact hi this

/-! ### `setParents`, `setBe`, `clearValParents` -/

theorem setParents_get (p : Option Nat) (l : List Nat) : ∀ (sigs : AMap SigE) (i : Nat),
    (setParents sigs p l).get i =
      (sigs.get i).map (fun s => if i ∈ l then { s with parent := p } else s) := by
  induction l with
  | nil => intro sigs i; cases h : sigs.get i <;> simp [setParents, h]
  | cons j rest ih =>
    intro sigs i
    unfold setParents
    cases hj : sigs.get j with
    | none =>
      simp only
      rw [ih]
      by_cases hi : i = j
      · subst hi; rw [hj]; rfl
      · simp [hi]
    | some s =>
      simp only
      rw [ih, upd_get]
      by_cases hi : i = j
      · subst hi
        rw [if_pos rfl, hj]
        by_cases hr : i ∈ rest <;> simp [hr]
      · rw [if_neg hi]
        simp [hi]

theorem setBe_get (be : Bool) (l : List Nat) : ∀ (sigs : AMap SigE) (i : Nat),
    (setBe sigs be l).get i =
      (sigs.get i).map (fun s => if i ∈ l then { s with be := be } else s) := by
  induction l with
  | nil => intro sigs i; cases h : sigs.get i <;> simp [setBe, h]
  | cons j rest ih =>
    intro sigs i
    unfold setBe
    cases hj : sigs.get j with
    | none =>
      simp only
      rw [ih]
      by_cases hi : i = j
      · subst hi; rw [hj]; rfl
      · simp [hi]
    | some s =>
      simp only
      rw [ih, upd_get]
      by_cases hi : i = j
      · subst hi
        rw [if_pos rfl, hj]
        by_cases hr : i ∈ rest <;> simp [hr]
      · rw [if_neg hi]
        simp [hi]

theorem clearValParents_get (l : List Nat) : ∀ (vals : AMap ValE) (i : Nat),
    (clearValParents vals l).get i =
      (vals.get i).map (fun v => if i ∈ l then { v with parent := none } else v) := by
  induction l with
  | nil => intro vals i; cases h : vals.get i <;> simp [clearValParents, h]
  | cons j rest ih =>
    intro vals i
    unfold clearValParents
    cases hj : vals.get j with
    | none =>
      simp only
      rw [ih]
      by_cases hi : i = j
      · subst hi; rw [hj]; rfl
      · simp [hi]
    | some s =>
      simp only
      rw [ih, upd_get]
      by_cases hi : i = j
      · subst hi
        rw [if_pos rfl, hj]
        by_cases hr : i ∈ rest <;> simp [hr]
      · rw [if_neg hi]
        simp [hi]

/-! ### name / kind observers -/

theorem sigName_congr {w w' : W} {s : Nat}
    (h : (w'.sigs.get s).map (·.name) = (w.sigs.get s).map (·.name)) : sigName w' s = sigName w s := by
  unfold sigName
  cases h1 : w'.sigs.get s <;> cases h2 : w.sigs.get s <;> simp_all

theorem enumOf_congr {w w' : W} {s : Nat}
    (h : (w'.sigs.get s).map (·.kind) = (w.sigs.get s).map (·.kind)) : enumOf w' s = enumOf w s := by
  unfold enumOf
  cases h1 : w'.sigs.get s <;> cases h2 : w.sigs.get s <;> simp_all

theorem valIndex_congr {w w' : W} {v : Nat}
    (h : (w'.vals.get v).map (·.index) = (w.vals.get v).map (·.index)) : valIndex w' v = valIndex w v := by
  unfold valIndex
  cases h1 : w'.vals.get v <;> cases h2 : w.vals.get v <;> simp_all

theorem valName_congr {w w' : W} {v : Nat}
    (h : (w'.vals.get v).map (·.name) = (w.vals.get v).map (·.name)) : valName w' v = valName w v := by
  unfold valName
  cases h1 : w'.vals.get v <;> cases h2 : w.vals.get v <;> simp_all

theorem trueMaxIndex_congr {w w' : W} {l : List Nat} (h : ∀ v ∈ l, valIndex w' v = valIndex w v) :
    trueMaxIndex w' l = trueMaxIndex w l := by
  unfold trueMaxIndex
  generalize (0 : Int) = a
  induction l generalizing a with
  | nil => rfl
  | cons v rest ih =>
    simp only [List.foldl_cons]
    rw [h v (by simp)]
    exact ih (fun x hx => h x (List.mem_cons_of_mem _ hx)) _

/-! ### `regen`, `regenSig`, `regenSigs` -/

/-- the filters of message `m` are those of its current layout -/
def FreshM (w : W) (m : Nat) : Prop :=
  ∀ msg, w.msgs.get m = some msg → msg.filters = genFilters (slotsBe w msg.layout)

theorem regen_types (w : W) (m : Nat) : (regen w m).types = w.types := by
  unfold regen; cases w.msgs.get m <;> rfl
theorem regen_vals (w : W) (m : Nat) : (regen w m).vals = w.vals := by
  unfold regen; cases w.msgs.get m <;> rfl
theorem regen_enums (w : W) (m : Nat) : (regen w m).enums = w.enums := by
  unfold regen; cases w.msgs.get m <;> rfl
theorem regen_sigs (w : W) (m : Nat) : (regen w m).sigs = w.sigs := by
  unfold regen; cases w.msgs.get m <;> rfl

theorem regen_msgs_get (w : W) (m m' : Nat) :
    (regen w m).msgs.get m' = (w.msgs.get m').map (fun msg =>
      if m' = m then { msg with filters := genFilters (slotsBe w msg.layout) } else msg) := by
  unfold regen
  cases hm : w.msgs.get m with
  | none =>
    simp only
    by_cases h : m' = m
    · subst h; rw [hm]; rfl
    · cases w.msgs.get m' <;> simp [h]
  | some msg =>
    simp only [upd_get]
    by_cases h : m' = m
    · subst h; simp [hm]
    · cases w.msgs.get m' <;> simp [h]

/-- a message of `regen w m` is a message of `w` with the same non-filter fields -/
theorem regen_msgs_some {w : W} {m m' : Nat} {msg' : MsgE} (h : (regen w m).msgs.get m' = some msg') :
    ∃ msg, w.msgs.get m' = some msg ∧ msg'.sizeByte = msg.sizeByte ∧ msg'.cap = msg.cap ∧
      msg'.layout = msg.layout ∧ msg'.be = msg.be ∧
      (m' ≠ m → msg' = msg) ∧ (m' = m → msg'.filters = genFilters (slotsBe w msg.layout)) := by
  rw [regen_msgs_get] at h
  cases hm : w.msgs.get m' with
  | none => rw [hm] at h; cases h
  | some msg =>
    rw [hm] at h
    simp only [Option.map_some, Option.some.injEq] at h
    refine ⟨msg, rfl, ?_⟩
    by_cases hmm : m' = m
    · rw [if_pos hmm] at h
      subst h
      exact ⟨rfl, rfl, rfl, rfl, fun hne => absurd hmm hne, fun _ => rfl⟩
    · rw [if_neg hmm] at h
      subst h
      exact ⟨rfl, rfl, rfl, rfl, fun _ => rfl, fun he => absurd he hmm⟩

theorem regen_slotsBe (w : W) (m : Nat) (l : List Nat) : slotsBe (regen w m) l = slotsBe w l :=
  slotsBe_struct (regen_sigs w m) (regen_types w m) (regen_enums w m) l

theorem regen_slotsOf (w : W) (m : Nat) (l : List Nat) : slotsOf (regen w m) l = slotsOf w l :=
  slotsOf_struct (regen_sigs w m) (regen_types w m) (regen_enums w m) l

theorem regen_fresh_self (w : W) (m : Nat) : FreshM (regen w m) m := by
  intro msg' h
  obtain ⟨msg, _, _, _, hl, _, _, hf⟩ := regen_msgs_some h
  rw [hf rfl, regen_slotsBe, hl]

theorem regen_fresh_other {w : W} {m m' : Nat} (hf : FreshM w m') : FreshM (regen w m) m' := by
  by_cases hmm : m' = m
  · subst hmm; exact regen_fresh_self w m'
  · intro msg' h
    obtain ⟨msg, hg, _, _, _, _, he, _⟩ := regen_msgs_some h
    rw [he hmm, regen_slotsBe]
    exact hf msg hg

theorem regenSig_types (w : W) (s : Nat) : (regenSig w s).types = w.types := by
  unfold regenSig
  cases w.sigs.get s with
  | none => rfl
  | some sg =>
    simp only
    cases sg.parent with
    | none => rfl
    | some m => exact regen_types w m
theorem regenSig_vals (w : W) (s : Nat) : (regenSig w s).vals = w.vals := by
  unfold regenSig
  cases w.sigs.get s with
  | none => rfl
  | some sg =>
    simp only
    cases sg.parent with
    | none => rfl
    | some m => exact regen_vals w m
theorem regenSig_enums (w : W) (s : Nat) : (regenSig w s).enums = w.enums := by
  unfold regenSig
  cases w.sigs.get s with
  | none => rfl
  | some sg =>
    simp only
    cases sg.parent with
    | none => rfl
    | some m => exact regen_enums w m
theorem regenSig_sigs (w : W) (s : Nat) : (regenSig w s).sigs = w.sigs := by
  unfold regenSig
  cases w.sigs.get s with
  | none => rfl
  | some sg =>
    simp only
    cases sg.parent with
    | none => rfl
    | some m => exact regen_sigs w m

/-- the only thing `regenSig` can change is the filter list of a message -/
theorem regenSig_msgs_some {w : W} {s m' : Nat} {msg' : MsgE} (h : (regenSig w s).msgs.get m' = some msg') :
    ∃ msg, w.msgs.get m' = some msg ∧ msg'.sizeByte = msg.sizeByte ∧ msg'.cap = msg.cap ∧
      msg'.layout = msg.layout ∧ msg'.be = msg.be := by
  unfold regenSig at h
  cases hs : w.sigs.get s with
  | none => rw [hs] at h; exact ⟨msg', h, rfl, rfl, rfl, rfl⟩
  | some sg =>
    rw [hs] at h
    simp only at h
    cases hp : sg.parent with
    | none => rw [hp] at h; exact ⟨msg', h, rfl, rfl, rfl, rfl⟩
    | some m =>
      rw [hp] at h
      obtain ⟨msg, h1, h2, h3, h4, h5, _⟩ := regen_msgs_some h
      exact ⟨msg, h1, h2, h3, h4, h5⟩

theorem regenSig_msgs_isSome (w : W) (s m' : Nat) :
    ((regenSig w s).msgs.get m').isSome = (w.msgs.get m').isSome := by
  unfold regenSig
  cases hs : w.sigs.get s with
  | none => rfl
  | some sg =>
    simp only
    cases hp : sg.parent with
    | none => rfl
    | some m =>
      simp only
      rw [regen_msgs_get]
      cases w.msgs.get m' <;> rfl

theorem regenSig_slotsBe (w : W) (s : Nat) (l : List Nat) : slotsBe (regenSig w s) l = slotsBe w l :=
  slotsBe_struct (regenSig_sigs w s) (regenSig_types w s) (regenSig_enums w s) l

theorem regenSig_slotsOf (w : W) (s : Nat) (l : List Nat) : slotsOf (regenSig w s) l = slotsOf w l :=
  slotsOf_struct (regenSig_sigs w s) (regenSig_types w s) (regenSig_enums w s) l

theorem regenSig_fresh_other {w : W} {s m' : Nat} (hf : FreshM w m') : FreshM (regenSig w s) m' := by
  unfold regenSig
  cases w.sigs.get s with
  | none => exact hf
  | some sg =>
    simp only
    cases sg.parent with
    | none => exact hf
    | some m => exact regen_fresh_other hf

theorem regenSig_fresh_parent {w : W} {s m : Nat} {sg : SigE} (hs : w.sigs.get s = some sg)
    (hp : sg.parent = some m) : FreshM (regenSig w s) m := by
  unfold regenSig
  rw [hs]; simp only [hp]
  exact regen_fresh_self w m

theorem regenSigs_types (w : W) (l : List Nat) : (regenSigs w l).types = w.types := by
  induction l generalizing w with
  | nil => rfl
  | cons s rest ih => unfold regenSigs; rw [ih, regenSig_types]
theorem regenSigs_vals (w : W) (l : List Nat) : (regenSigs w l).vals = w.vals := by
  induction l generalizing w with
  | nil => rfl
  | cons s rest ih => unfold regenSigs; rw [ih, regenSig_vals]
theorem regenSigs_enums (w : W) (l : List Nat) : (regenSigs w l).enums = w.enums := by
  induction l generalizing w with
  | nil => rfl
  | cons s rest ih => unfold regenSigs; rw [ih, regenSig_enums]
theorem regenSigs_sigs (w : W) (l : List Nat) : (regenSigs w l).sigs = w.sigs := by
  induction l generalizing w with
  | nil => rfl
  | cons s rest ih => unfold regenSigs; rw [ih, regenSig_sigs]

theorem regenSigs_msgs_some {w : W} {l : List Nat} {m' : Nat} {msg' : MsgE}
    (h : (regenSigs w l).msgs.get m' = some msg') :
    ∃ msg, w.msgs.get m' = some msg ∧ msg'.sizeByte = msg.sizeByte ∧ msg'.cap = msg.cap ∧
      msg'.layout = msg.layout ∧ msg'.be = msg.be := by
  induction l generalizing w msg' with
  | nil => exact ⟨msg', h, rfl, rfl, rfl, rfl⟩
  | cons s rest ih =>
    unfold regenSigs at h
    obtain ⟨msg1, h1, a1, a2, a3, a4⟩ := ih h
    obtain ⟨msg, h2, b1, b2, b3, b4⟩ := regenSig_msgs_some h1
    exact ⟨msg, h2, a1.trans b1, a2.trans b2, a3.trans b3, a4.trans b4⟩

theorem regenSigs_msgs_isSome (w : W) (l : List Nat) (m' : Nat) :
    ((regenSigs w l).msgs.get m').isSome = (w.msgs.get m').isSome := by
  induction l generalizing w with
  | nil => rfl
  | cons s rest ih => unfold regenSigs; rw [ih, regenSig_msgs_isSome]

theorem regenSigs_slotsBe (w : W) (ss : List Nat) (l : List Nat) : slotsBe (regenSigs w ss) l = slotsBe w l :=
  slotsBe_struct (regenSigs_sigs w ss) (regenSigs_types w ss) (regenSigs_enums w ss) l

theorem regenSigs_slotsOf (w : W) (ss : List Nat) (l : List Nat) : slotsOf (regenSigs w ss) l = slotsOf w l :=
  slotsOf_struct (regenSigs_sigs w ss) (regenSigs_types w ss) (regenSigs_enums w ss) l

theorem regenSigs_fresh_other {w : W} {l : List Nat} {m' : Nat} (hf : FreshM w m') :
    FreshM (regenSigs w l) m' := by
  induction l generalizing w with
  | nil => exact hf
  | cons s rest ih => unfold regenSigs; exact ih (regenSig_fresh_other hf)

theorem regenSigs_fresh_parent {w : W} {l : List Nat} {s m : Nat} {sg : SigE} (hin : s ∈ l)
    (hs : w.sigs.get s = some sg) (hp : sg.parent = some m) : FreshM (regenSigs w l) m := by
  induction l generalizing w with
  | nil => cases hin
  | cons t rest ih =>
    unfold regenSigs
    rcases List.mem_cons.1 hin with rfl | hin'
    · exact regenSigs_fresh_other (regenSig_fresh_parent hs hp)
    · exact ih hin' (by rw [regenSig_sigs]; exact hs)

end Acme.Payload
