/-
Message-level importer model, part 6: nested multiplexors — the trace of the second loop of the
case "several multiplexors" (which multiplexer was built from which signals, which one was
handed to which parent) and the bookkeeping lemmas on it.
-/
import Acme.Spec.Import
import Acme.Proofs.ImportMany

namespace Acme.Import
open Acme.Layout Acme.Conv Acme.Arith

/-- one iteration of the second loop -/
structure Step where
  mx : DSig
  kids : List DSig
  j : Nat
  /-- the built multiplexers handed to this one -/
  pend : List DSig
  n : MuxNode
  /-- `none`: inserted at the top level; `some i`: handed to the multiplexor with index `i` -/
  parent : Option Nat
  deriving Inhabited

def Step.work (s : Step) : (DSig × List DSig) × Nat := ((s.mx, s.kids), s.j)
def Step.kid (s : Step) : DSig := nestedKid s.mx s.n
def Step.isTop (s : Step) : Bool := s.parent.isNone

def extraAfter (extra : List (Nat × DSig)) (s : Step) : List (Nat × DSig) :=
  match s.parent with
  | none => extra
  | some i => extra ++ [(i, s.kid)]

/-- every step takes the pending signals of its index from the list as it is at that time -/
def StepsPend : List (Nat × DSig) → List Step → Prop
  | _, [] => True
  | extra, s :: r => s.pend = pendingFor extra s.j ∧ StepsPend (extraAfter extra s) r

def extraFinal : List (Nat × DSig) → List Step → List (Nat × DSig)
  | extra, [] => extra
  | extra, s :: r => extraFinal (extraAfter extra s) r

def topNodes (steps : List Step) : List MuxNode := (steps.filter (·.isTop)).map (·.n)
def nestedNodes (steps : List Step) : List MuxNode := (steps.filter (fun s => !s.isTop)).map (·.n)

theorem placeMuxes_trace (cap : Int) (exts : List DExt) (muxes : List DSig) :
    ∀ (work : List ((DSig × List DSig) × Nat)) (top : List Item) (nested : List MuxNode)
      (extra : List (Nat × DSig)) (top' : List Item) (nested' : List MuxNode),
    placeMuxes cap exts muxes work top nested extra = .ok (top', nested') →
    ∃ steps : List Step,
      steps.map Step.work = work ∧
      (∀ s ∈ steps, importMux exts s.mx (s.kids ++ s.pend) = .ok s.n) ∧
      StepsPend extra steps ∧
      (∀ s ∈ steps, ∀ i, s.parent = some i → i < s.j) ∧
      (∀ s ∈ steps, s.parent = none ↔ findExt exts s.mx.name = none) ∧
      (∃ tops, top'.Perm (tops ++ top) ∧ tops.Perm ((topNodes steps).map Item.mux)) ∧
      nested' = nested ++ nestedNodes steps
  | [], top, nested, extra, top', nested', h => by
    simp only [placeMuxes] at h
    injection h with h
    injection h with h1 h2
    subst h1; subst h2
    exact ⟨[], rfl, fun s hs => (by cases hs), trivial, fun s hs => (by cases hs), fun s hs => (by cases hs),
      ⟨[], (by simp), (by simp [topNodes])⟩, (by simp [nestedNodes])⟩
  | ((mx, kids), j) :: rest, top, nested, extra, top', nested', h => by
    unfold placeMuxes at h
    split at h
    · cases h
    · rename_i n hmux
      split at h
      · rename_i hnone
        split at h
        · cases h
        · rename_i top1 hins
          obtain ⟨steps, h1, h2, h3, h4, h5, ⟨tops, h6a, h6b⟩, h7⟩ :=
            placeMuxes_trace cap exts muxes rest top1 nested extra top' nested' h
          have heq : top1 = insertItem (.mux n) top := by
            unfold insertTop at hins
            split at hins
            · cases hins
            · split at hins
              · cases hins
              · split at hins
                · cases hins
                · injection hins with hins
                  exact hins.symm
          let s0 : Step := ⟨mx, kids, j, pendingFor extra j, n, none⟩
          refine ⟨s0 :: steps, ?_, ?_, ?_, ?_, ?_, ?_, ?_⟩
          · simp only [List.map_cons, h1]; rfl
          · intro s hs
            rcases List.mem_cons.1 hs with rfl | hs
            · exact hmux
            · exact h2 s hs
          · exact ⟨rfl, h3⟩
          · intro s hs i hi
            rcases List.mem_cons.1 hs with rfl | hs
            · cases hi
            · exact h4 s hs i hi
          · intro s hs
            rcases List.mem_cons.1 hs with rfl | hs
            · exact ⟨fun _ => hnone, fun _ => rfl⟩
            · exact h5 s hs
          · refine ⟨Item.mux n :: tops, ?_, ?_⟩
            · rw [heq] at h6a
              exact h6a.trans ((List.Perm.append_left tops (insertItem_perm _ _)).trans List.perm_middle)
            · have : topNodes (s0 :: steps) = n :: topNodes steps := by
                simp [topNodes, List.filter_cons, Step.isTop, s0]
              rw [this, List.map_cons]
              exact List.Perm.cons _ h6b
          · have : nestedNodes (s0 :: steps) = nestedNodes steps := by
              simp [nestedNodes, List.filter_cons, Step.isTop, s0]
            rw [this]; exact h7
      · rename_i e hsome
        split at h
        · cases h
        · rename_i i hidx
          split at h
          · cases h
          · rename_i hlt
            obtain ⟨steps, h1, h2, h3, h4, h5, h6, h7⟩ :=
              placeMuxes_trace cap exts muxes rest top (nested ++ [n]) _ top' nested' h
            let s0 : Step := ⟨mx, kids, j, pendingFor extra j, n, some i⟩
            refine ⟨s0 :: steps, ?_, ?_, ?_, ?_, ?_, ?_, ?_⟩
            · simp only [List.map_cons, h1]; rfl
            · intro s hs
              rcases List.mem_cons.1 hs with rfl | hs
              · exact hmux
              · exact h2 s hs
            · exact ⟨rfl, h3⟩
            · intro s hs i' hi
              rcases List.mem_cons.1 hs with rfl | hs
              · injection hi with hi
                subst hi
                show i < j
                omega
              · exact h4 s hs i' hi
            · intro s hs
              rcases List.mem_cons.1 hs with rfl | hs
              · constructor
                · intro hc; cases hc
                · intro hc
                  rw [hsome] at hc; cases hc
              · exact h5 s hs
            · have : topNodes (s0 :: steps) = topNodes steps := by
                simp [topNodes, List.filter_cons, Step.isTop, s0]
              rw [this]; exact h6
            · have : nestedNodes (s0 :: steps) = n :: nestedNodes steps := by
                simp [nestedNodes, List.filter_cons, Step.isTop, s0]
              rw [this, h7]; simp

/-! ### the pending list -/

def addedOf (steps : List Step) : List (Nat × DSig) :=
  steps.filterMap (fun s => s.parent.map (fun i => (i, s.kid)))

theorem extraFinal_eq : ∀ (steps : List Step) (extra : List (Nat × DSig)),
    extraFinal extra steps = extra ++ addedOf steps
  | [], extra => by simp [extraFinal, addedOf]
  | s :: r, extra => by
    simp only [extraFinal, extraFinal_eq r]
    cases hp : s.parent with
    | none => simp [extraAfter, hp, addedOf, List.filterMap_cons]
    | some i => simp [extraAfter, hp, addedOf, List.filterMap_cons, List.append_assoc]

theorem pendingFor_append (a b : List (Nat × DSig)) (j : Nat) :
    pendingFor (a ++ b) j = pendingFor a j ++ pendingFor b j := by
  simp [pendingFor, List.filter_append]

theorem pendingFor_nil_of (b : List (Nat × DSig)) (j : Nat) (h : ∀ p ∈ b, p.1 ≠ j) : pendingFor b j = [] := by
  unfold pendingFor
  rw [List.filter_eq_nil_iff.2, List.map_nil]
  intro p hp
  simpa using h p hp

theorem mem_addedOf (steps : List Step) (p : Nat × DSig) (h : p ∈ addedOf steps) :
    ∃ s ∈ steps, s.parent = some p.1 ∧ p.2 = s.kid := by
  unfold addedOf at h
  obtain ⟨s, hs, hsp⟩ := List.mem_filterMap.1 h
  cases hp : s.parent with
  | none => rw [hp] at hsp; cases hsp
  | some i =>
    rw [hp] at hsp
    simp only [Option.map_some, Option.some.injEq] at hsp
    subst hsp
    exact ⟨s, hs, hp, rfl⟩

/-- with descending indices every step sees exactly the pending signals of its index in the
    FINAL list -/
theorem stepsPend_final : ∀ (steps : List Step) (extra : List (Nat × DSig)),
    StepsPend extra steps → (steps.map (·.j)).Pairwise (· > ·) →
    (∀ s ∈ steps, ∀ i, s.parent = some i → i < s.j) →
    ∀ s ∈ steps, s.pend = pendingFor (extraFinal extra steps) s.j
  | [], _, _, _, _, s, hs => by cases hs
  | s0 :: r, extra, hp, hdesc, hpar, s, hs => by
    obtain ⟨hp0, hpr⟩ := hp
    rw [List.map_cons, List.pairwise_cons] at hdesc
    rcases List.mem_cons.1 hs with rfl | hs
    · rw [hp0, extraFinal_eq, pendingFor_append]
      rw [pendingFor_nil_of (addedOf (s :: r)) s.j, List.append_nil]
      intro p hpm
      obtain ⟨q, hq, hqp, _⟩ := mem_addedOf _ p hpm
      have hlt := hpar q hq p.1 hqp
      rcases List.mem_cons.1 hq with rfl | hq
      · omega
      · have := hdesc.1 q.j (List.mem_map.2 ⟨q, hq, rfl⟩)
        omega
    · exact stepsPend_final r (extraAfter extra s0) hpr hdesc.2
        (fun q hq => hpar q (List.mem_cons_of_mem _ hq)) s hs

/-- distributing a list over buckets with pairwise different keys loses nothing -/
theorem bucket_perm {α : Type} (key : α → Nat) : ∀ (E : List (Nat × DSig)) (L : List α),
    (L.map key).Nodup → (∀ p ∈ E, p.1 ∈ L.map key) →
    (L.flatMap (fun s => pendingFor E (key s))).Perm (E.map (·.2))
  | [], L, _, _ => by
    have : L.flatMap (fun s => pendingFor [] (key s)) = [] := by
      induction L with
      | nil => rfl
      | cons a r ih => simp [List.flatMap_cons, pendingFor, ih]
    rw [this]; exact List.Perm.refl _
  | p :: E, L, hnd, hmem => by
    have ih := bucket_perm key E L hnd (fun q hq => hmem q (List.mem_cons_of_mem _ hq))
    have hp := hmem p (List.mem_cons_self ..)
    -- p.2 lands in exactly one bucket
    have : ∀ (L : List α), (L.map key).Nodup → p.1 ∈ L.map key →
        (L.flatMap (fun s => pendingFor (p :: E) (key s))).Perm (p.2 :: L.flatMap (fun s => pendingFor E (key s))) := by
      intro L
      induction L with
      | nil => intro _ h; cases h
      | cons a r ihL =>
        intro hnd' hin
        rw [List.map_cons, List.nodup_cons] at hnd'
        simp only [List.flatMap_cons]
        by_cases hk : p.1 = key a
        · have h1 : pendingFor (p :: E) (key a) = p.2 :: pendingFor E (key a) := by
            simp [pendingFor, List.filter_cons, hk]
          have h2 : r.flatMap (fun s => pendingFor (p :: E) (key s)) = r.flatMap (fun s => pendingFor E (key s)) := by
            apply List.flatMap_congr
            intro s hs
            have : p.1 ≠ key s := by
              intro he
              exact hnd'.1 (by rw [← hk, he]; exact List.mem_map.2 ⟨s, hs, rfl⟩)
            simp [pendingFor, List.filter_cons, this]
          rw [h1, h2]
          exact List.Perm.refl _
        · have h1 : pendingFor (p :: E) (key a) = pendingFor E (key a) := by
            simp [pendingFor, List.filter_cons, hk]
          rw [h1]
          have hin' : p.1 ∈ r.map key := by
            rcases List.mem_cons.1 hin with h | h
            · exact absurd h hk
            · exact h
          exact (List.Perm.append_left _ (ihL hnd'.2 hin')).trans List.perm_middle
    rw [List.map_cons]
    exact (this L hnd hp).trans (List.Perm.cons _ ih)

/-! ### what is known of every step -/

structure StepOK (exts : List DExt) (q : Step) : Prop where
  wf : MuxWF q.n
  name : q.n.name = q.mx.name
  start : q.n.start = sigPos q.mx
  selW : q.n.selW = (q.mx.size : Int)
  kids : List.Forall₂ (KidRel exts q.n.groupCount (sigPos q.mx + q.mx.size)) (q.kids ++ q.pend) q.n.children

theorem kid_size (q : Step) (h : MuxWF q.n) : ((q.kid.size : Nat) : Int) = q.n.groupSize + q.n.selW ∧ 0 < q.kid.size := by
  have htot := muxItem_size_pos q.n h
  have e : (Item.mux q.n).size = q.n.groupSize + q.n.selW := rfl
  have hsz : ((q.kid.size : Nat) : Int) = q.n.groupSize + q.n.selW := by
    show (((q.n.groupSize + q.n.selW).toNat : Nat) : Int) = q.n.groupSize + q.n.selW
    exact Int.toNat_of_nonneg (by omega)
  exact ⟨hsz, by omega⟩

theorem steps_ok (exts : List DExt) : ∀ (steps : List Step) (extra : List (Nat × DSig)),
    StepsPend extra steps → (∀ p ∈ extra, 0 < p.2.size) →
    (∀ s ∈ steps, importMux exts s.mx (s.kids ++ s.pend) = .ok s.n) →
    (∀ s ∈ steps, ∀ k ∈ s.kids, 0 < k.size) →
    ∀ s ∈ steps, StepOK exts s
  | [], _, _, _, _, _, s, hs => by cases hs
  | s0 :: r, extra, hp, hpos, hmux, hkids, s, hs => by
    obtain ⟨hp0, hpr⟩ := hp
    have hin : ∀ k ∈ s0.kids ++ s0.pend, 0 < k.size := by
      intro k hk
      rcases List.mem_append.1 hk with h1 | h1
      · exact hkids s0 (List.mem_cons_self ..) k h1
      · rw [hp0] at h1
        obtain ⟨p, hp', rfl⟩ := mem_pendingFor extra s0.j k h1
        exact hpos p hp'
    have hm0 := hmux s0 (List.mem_cons_self ..)
    obtain ⟨hwf, hname, hstart, hgc, _, hfa⟩ := importMux_spec exts s0.mx _ s0.n hm0 hin
    have hok0 : StepOK exts s0 :=
      ⟨hwf, hname, hstart, selW_eq s0.n s0.mx.size hwf hgc (importMux_size exts s0.mx _ s0.n hm0), hfa⟩
    rcases List.mem_cons.1 hs with rfl | hs
    · exact hok0
    · refine steps_ok exts r (extraAfter extra s0) hpr ?_ (fun q hq => hmux q (List.mem_cons_of_mem _ hq))
        (fun q hq => hkids q (List.mem_cons_of_mem _ hq)) s hs
      intro p hpm
      unfold extraAfter at hpm
      cases hpar : s0.parent with
      | none => rw [hpar] at hpm; exact hpos p hpm
      | some i =>
        rw [hpar] at hpm
        rcases List.mem_append.1 hpm with h1 | h1
        · exact hpos p h1
        · rw [List.mem_singleton] at h1
          subst h1
          exact (kid_size s0 hwf).2

/-! ### the original of a handed-over multiplexer -/

/-- the multiplexor signal of the file behind a signal handed to `importMuxSignal` (itself for an
    ordinary signal) -/
def origOf (steps : List Step) (k : DSig) : DSig :=
  match steps.find? (fun q => q.mx.name == k.name) with
  | some q => q.mx
  | none => k

theorem find_unique {α : Type} (key : α → String) (l : List α) (hnd : (l.map key).Nodup) (a : α) (ha : a ∈ l) :
    l.find? (fun q => key q == key a) = some a := by
  induction l with
  | nil => cases ha
  | cons x r ih =>
    rw [List.map_cons, List.nodup_cons] at hnd
    rw [List.find?_cons]
    rcases List.mem_cons.1 ha with rfl | ha
    · simp
    · have : (key x == key a) = false := by
        simp only [beq_eq_false_iff_ne]
        intro he
        exact hnd.1 (he ▸ List.mem_map.2 ⟨a, ha, rfl⟩)
      rw [this]
      exact ih hnd.2 ha

theorem origOf_kid (steps : List Step) (hnd : (steps.map (·.mx.name)).Nodup) (q : Step) (hq : q ∈ steps) :
    origOf steps q.kid = q.mx := by
  unfold origOf
  have : q.kid.name = q.mx.name := rfl
  rw [this, find_unique (fun q : Step => q.mx.name) steps hnd q hq]

theorem selWOf_node (F : List MuxNode) (hnd : (F.map (·.name)).Nodup) (n : MuxNode) (hn : n ∈ F) :
    selWOf F n.name = n.selW := by
  unfold selWOf
  rw [find_unique (fun x : MuxNode => x.name) F hnd n hn]

theorem groupsAsFile_congr (exts : List DExt) (gc : Int) (a b : DSig) (gids : List Int)
    (h1 : a.name = b.name) (h2 : a.isMultiplexed = b.isMultiplexed) (h3 : a.muxSwitch = b.muxSwitch)
    (h : GroupsAsFile exts gc a gids) : GroupsAsFile exts gc b gids := by
  unfold GroupsAsFile at h ⊢
  rw [← h1, ← h2, ← h3]
  exact h

theorem forall2_append_left {α β : Type} {R : α → β → Prop} : ∀ (A1 A2 : List α) (B : List β),
    List.Forall₂ R (A1 ++ A2) B → ∃ B1 B2, B = B1 ++ B2 ∧ List.Forall₂ R A1 B1 ∧ List.Forall₂ R A2 B2
  | [], A2, B, h => ⟨[], B, rfl, List.Forall₂.nil, h⟩
  | a :: A1, A2, B, h => by
    cases h with
    | cons hr ht =>
      obtain ⟨B1, B2, hb, h1, h2⟩ := forall2_append_left A1 A2 _ ht
      exact ⟨_ :: B1, B2, by rw [hb]; rfl, List.Forall₂.cons hr h1, h2⟩

theorem forall2_map_left {α β γ : Type} {R : α → β → Prop} {S : γ → β → Prop} (f : α → γ)
    {A : List α} {B : List β} (h : List.Forall₂ R A B)
    (himp : ∀ a b, a ∈ A → R a b → S (f a) b) : List.Forall₂ S (A.map f) B := by
  induction h with
  | nil => exact List.Forall₂.nil
  | @cons a b A B hr _ ih =>
    rw [List.map_cons]
    exact List.Forall₂.cons (himp a b (List.mem_cons_self ..) hr)
      (ih (fun a' b' ha' => himp a' b' (List.mem_cons_of_mem _ ha')))

/-- the signals collected for a step (the handed-over multiplexers as the multiplexor signals of
    the file) match the children entries of the built node -/
theorem step_matching (exts : List DExt) (F : List MuxNode) (steps : List Step) (s : Step)
    (hs : StepOK exts s) (hF : (F.map (·.name)).Nodup) (hnd : (steps.map (·.mx.name)).Nodup)
    (hkids : ∀ k ∈ s.kids, k.isMultiplexor = false)
    (hpend : ∀ k ∈ s.pend, ∃ q ∈ steps, k = q.kid ∧ StepOK exts q ∧ q.mx.isMultiplexor = true ∧ q.n ∈ F) :
    Matching exts (s.kids ++ s.pend.map (origOf steps)) (nodeEntriesN F s.n) := by
  obtain ⟨c1, c2, hc, h1, h2⟩ := forall2_append_left _ _ _ hs.kids
  unfold nodeEntriesN
  rw [hc, List.map_append]
  refine Matching.append (Matching.of_forall2 ?_) (Matching.of_forall2 ?_)
  · refine forall2_map_right (childEntryN F s.n) h1 ?_
    intro k c hk hr
    obtain ⟨r1, r2, r3, r4, r5⟩ := hr
    have hm : c.isMux = false := by rw [r5]; exact hkids k hk
    have he : childEntryN F s.n c = childEntry s.n c := by simp [childEntryN, hm]
    rw [he]
    refine ⟨r1, r3, ?_, hkids k hk, r4⟩
    simp only [childEntry]
    rw [r2, hs.start, hs.selW]
    unfold filePos sigPos
    omega
  · refine forall2_map_right (childEntryN F s.n) (forall2_map_left (origOf steps) h2 ?_) (fun a b _ h => h)
    intro k c hk hr
    obtain ⟨q, hq, rfl, hqok, hqm, hqF⟩ := hpend k hk
    obtain ⟨r1, r2, r3, r4, r5⟩ := hr
    rw [origOf_kid steps hnd q hq]
    have hkm : q.kid.isMultiplexor = true := hqm
    have hm : c.isMux = true := by rw [r5]; exact hkm
    have hkn : q.kid.name = q.mx.name := rfl
    have he : childEntryN F s.n c =
        ⟨c.name, selWOf F c.name, s.n.start + s.n.selW + c.rel, .subMux s.n.name s.n.groupCount c.gids⟩ := by
      simp [childEntryN, hm]
    rw [he]
    refine ⟨by rw [r1]; rfl, ?_, ?_, hqm, ?_⟩
    · show selWOf F c.name = (q.mx.size : Int)
      rw [r1, hkn, ← hqok.name, selWOf_node F hF q.n hqF, hqok.selW]
    · show s.n.start + s.n.selW + c.rel = filePos q.mx
      rw [r2, hs.start, hs.selW]
      have : sigPos q.kid = sigPos q.mx := rfl
      rw [this]
      unfold filePos sigPos
      omega
    · exact groupsAsFile_congr exts _ q.kid q.mx c.gids rfl rfl rfl r4

end Acme.Import
