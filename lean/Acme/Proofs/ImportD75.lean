/-
Message-level importer model, part 5: the known finding D75 as a lemma about `importOne`, and
the access lemmas the statements of Acme.Props.C10Msg need.
-/
import Acme.Spec.Import
import Acme.Proofs.ImportMany

namespace Acme.Import
open Acme.Layout Acme.Conv Acme.Arith

theorem forall2_mem_left {α β : Type} {R : α → β → Prop} {A : List α} {B : List β}
    (h : List.Forall₂ R A B) : ∀ a ∈ A, ∃ b ∈ B, R a b := by
  induction h with
  | nil => intro a ha; cases ha
  | @cons a b A B hr _ ih =>
    intro x hx
    rcases List.mem_cons.1 hx with rfl | hx
    · exact ⟨b, List.mem_cons_self .., hr⟩
    · obtain ⟨y, hy, hxy⟩ := ih x hx
      exact ⟨y, List.mem_cons_of_mem _ hy, hxy⟩

/-- with exactly one multiplexor the import is `importOne` -/
theorem importMsg_one (m : DMsg) (t : ITree) (mx : DSig) (h : importMsg m = .ok t)
    (hmux : (sortSigs m.sigs).filter (·.isMultiplexor) = [mx]) :
    importOne (8 * (m.size : Int)) m.exts mx (sortSigs m.sigs) = .ok t.top := by
  unfold importMsg at h
  dsimp only at h
  split at h
  · cases h
  · split at h
    · cases h
    · split at h
      · cases h
      · rename_i top nested hres
        injection h with h
        subst h
        rw [hmux] at hres
        obtain ⟨top0, hp, hpair⟩ := except_map_ok _ _ _ hres
        injection hpair with e1 e2
        subst e1
        exact hp

/-- D75 on `importOne`: a standard signal that starts behind the multiplexor's start and before
    the start of some multiplexed signal becomes a child of the multiplexer -/
theorem importOne_D75 (cap : Int) (exts : List DExt) (mx : DSig) (sorted : List DSig) (top' : List Item)
    (h : importOne cap exts mx sorted = .ok top') (hcap : 0 ≤ cap) (s u : DSig)
    (hs : s ∈ sorted) (hsn : (s.name == mx.name) = false) (hsm : s.isMultiplexed = false)
    (hu : u ∈ sorted) (hun : (u.name == mx.name) = false) (hum : u.isMultiplexed = true)
    (h1 : sigPos mx < sigPos s) (h2 : sigPos s < sigPos u) :
    ∃ n c, Item.mux n ∈ top' ∧ n.name = mx.name ∧ c ∈ n.children ∧
      KidRel exts n.groupCount (sigPos mx + mx.size) s c := by
  obtain ⟨muxed, std, last, top1, kids, n, hsplit, hplace, hmux, hins⟩ := importOne_struct cap exts mx sorted top' h
  obtain ⟨hm, hsd, hpos, _, hlast, _⟩ := splitOne_spec mx.name sorted [] [] (-1) muxed std last hsplit
  simp only [List.nil_append] at hm hsd
  have hstdpos : ∀ x ∈ std, 0 < x.size := by
    intro x hx
    rw [hsd] at hx
    obtain ⟨a, b⟩ := List.mem_filter.1 hx
    simp only [Bool.and_eq_true, Bool.not_eq_true'] at b
    exact hpos x a b.1
  obtain ⟨hinv1, _, hk⟩ := placeStd_spec cap (sigPos mx) last std [] muxed top1 kids hplace hstdpos (topInv_nil cap hcap)
  have hkidpos : ∀ k ∈ kids, 0 < k.size := by
    intro k hk'
    rw [hk] at hk'
    rcases List.mem_append.1 hk' with a | a
    · rw [hm] at a
      obtain ⟨a, b⟩ := List.mem_filter.1 a
      simp only [Bool.and_eq_true, Bool.not_eq_true'] at b
      exact hpos k a b.1
    · exact hstdpos k (List.mem_filter.1 a).1
  obtain ⟨hwf, hname, _, _, _, hfa⟩ := importMux_spec exts mx kids n hmux hkidpos
  have hsstd : s ∈ std := by
    rw [hsd]
    exact List.mem_filter.2 ⟨hs, by simp [hsn, hsm]⟩
  have hlast' := hlast u hu hun hum
  have hbetween : between (sigPos mx) last s = true := by
    simp only [between, decide_eq_true_eq]
    omega
  have hskid : s ∈ kids := by
    rw [hk]
    exact List.mem_append.2 (Or.inr (List.mem_filter.2 ⟨hsstd, hbetween⟩))
  obtain ⟨c, hc, hrel⟩ := forall2_mem_left hfa s hskid
  obtain ⟨heq, _⟩ := insertTop_spec cap top1 top' (.mux n) hins (muxItem_size_pos n hwf) hinv1.wf
  refine ⟨n, c, ?_, hname, hc, hrel⟩
  rw [heq]
  exact (mem_insertItem _ _ _).2 (Or.inl rfl)

theorem itemEntries_names (x : Item) : (itemEntries x).map (·.name) = itemNames x := by
  cases x with
  | sig l => rfl
  | mux n =>
    simp only [itemEntries, itemNames, List.map_cons, List.map_map]
    rfl

theorem entriesOf_names (top : List Item) : (entriesOf top).map (·.name) = regNames top := by
  rw [regNames_eq]
  induction top with
  | nil => rfl
  | cons x r ih =>
    rw [entriesOf_cons, List.map_append, ih, itemEntries_names, List.flatMap_cons]

end Acme.Import
