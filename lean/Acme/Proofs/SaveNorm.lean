/-
`norm` is a normal form: `norm (norm n) = norm n` for well-formed `n`, and `norm` only reorders —
every membership / look-up observable is preserved.
-/
import Acme.Proofs.SaveNet

namespace Acme.Save
open List

/-! ## the comparators are total preorders -/

theorem strLe2_iff (a b : String × String) :
    strLe2 a b = true ↔ a.1 < b.1 ∨ (a.1 = b.1 ∧ a.2 ≤ b.2) := by
  simp [strLe2]

theorem natStrLe_iff (a b : Nat × String) :
    natStrLe a b = true ↔ a.1 < b.1 ∨ (a.1 = b.1 ∧ a.2 ≤ b.2) := by
  simp [natStrLe]

theorem totalPre_strLe2 : TotalPre strLe2 where
  total a b := by
    simp only [strLe2_iff]
    rcases Std.lt_trichotomy a.1 b.1 with h | h | h
    · exact Or.inl (Or.inl h)
    · rcases String.le_total a.2 b.2 with h2 | h2
      · exact Or.inl (Or.inr ⟨h, h2⟩)
      · exact Or.inr (Or.inr ⟨h.symm, h2⟩)
    · exact Or.inr (Or.inl h)
  trans a b c := by
    simp only [strLe2_iff]
    rintro (h1 | ⟨h1, h1'⟩) (h2 | ⟨h2, h2'⟩)
    · exact Or.inl (String.lt_trans h1 h2)
    · exact Or.inl (h2 ▸ h1)
    · exact Or.inl (h1 ▸ h2)
    · exact Or.inr ⟨h1.trans h2, String.le_trans h1' h2'⟩

theorem totalPre_natStrLe : TotalPre natStrLe where
  total a b := by
    simp only [natStrLe_iff]
    rcases Nat.lt_trichotomy a.1 b.1 with h | h | h
    · exact Or.inl (Or.inl h)
    · rcases String.le_total a.2 b.2 with h2 | h2
      · exact Or.inl (Or.inr ⟨h, h2⟩)
      · exact Or.inr (Or.inr ⟨h.symm, h2⟩)
    · exact Or.inr (Or.inl h)
  trans a b c := by
    simp only [natStrLe_iff]
    rintro (h1 | ⟨h1, h1'⟩) (h2 | ⟨h2, h2'⟩)
    · exact Or.inl (Nat.lt_trans h1 h2)
    · exact Or.inl (h2 ▸ h1)
    · exact Or.inl (h1 ▸ h2)
    · exact Or.inr ⟨h1.trans h2, String.le_trans h1' h2'⟩

theorem TotalPre.comap {α β : Type} {le : β → β → Bool} (h : TotalPre le) (k : α → β) :
    TotalPre (fun a b => le (k a) (k b)) :=
  ⟨fun a b => h.total _ _, fun a b c => h.trans _ _ _⟩

theorem totalPre_entLe : TotalPre entLe := totalPre_strLe2.comap fun a : Ent => (a.name, a.id)
theorem totalPre_busLe : TotalPre busLe := totalPre_entLe.comap fun b : Bus => b.e
theorem totalPre_builderLe : TotalPre builderLe := totalPre_entLe.comap fun b : Builder => b.e
theorem totalPre_attrLe : TotalPre attrLe := totalPre_entLe.comap fun b : Attr => b.e
theorem totalPre_nodeLe : TotalPre nodeLe := totalPre_natStrLe.comap fun a : Node => (a.nid, a.e.id)
theorem totalPre_ifaceLe (t : Tbl) : TotalPre (ifaceLe t) :=
  totalPre_natStrLe.comap fun a : Iface => (t.nodeNid a.node, a.node)
theorem totalPre_msgLe : TotalPre msgLe := totalPre_natStrLe.comap fun a : Msg => (a.mid, a.e.id)
theorem totalPre_recvLe (t : Tbl) : TotalPre (recvLe t) :=
  totalPre_strLe2.comap fun a : Recv => (t.nodeName a.node, a.node)
theorem totalPre_asgLe (t : Tbl) : TotalPre (asgLe t) :=
  totalPre_strLe2.comap fun a : Asg => (t.attrName a.attr, a.attr)
theorem totalPre_topLe : TotalPre topLe := totalPre_natStrLe.comap fun a : Sig × Nat => (a.2, a.1.id)
theorem totalPre_khLe : TotalPre khLe := totalPre_natStrLe.comap fun a : KH => (a.pos, a.id)

/-- sorting a sorted list mapped by a function that keeps the comparison -/
theorem sortBy_map_sortBy {α : Type} {le : α → α → Bool} (hle : TotalPre le) (f : α → α)
    (hf : ∀ a b, le (f a) (f b) = le a b) (l : List α) :
    sortBy le ((sortBy le l).map f) = (sortBy le l).map f := by
  rw [sortBy_map le le f hf, sortBy_idem hle]

/-- two permutations of each other sort to the same list when the comparison is antisymmetric on them -/
theorem sortBy_eq_of_perm {α : Type} {le : α → α → Bool} (hle : TotalPre le) {l l' : List α} (hp : l ~ l')
    (hanti : ∀ a ∈ l, ∀ b ∈ l, le a b = true → le b a = true → a = b) : sortBy le l = sortBy le l' := by
  apply List.Perm.eq_of_pairwise (le := fun a b => le a b = true)
  · intro a b ha hb hab hba
    exact hanti a (mem_sortBy.mp ha) b (hp.mem_iff.mpr (mem_sortBy.mp hb)) hab hba
  · exact sortBy_pairwise hle l
  · exact sortBy_pairwise hle l'
  · exact (sortBy_perm le l).trans (hp.trans (sortBy_perm le l').symm)

/-! ## the tables keep their look-ups -/

structure IdsNodup (t : Tbl) : Prop where
  nn : (t.nodes.map (·.e.id)).Nodup
  na : (t.attrs.map (·.e.id)).Nodup

theorem normTbl_attr (t : Tbl) (h : IdsNodup t) (id : Id) :
    (normTbl t).attr id = (t.attr id).map normAttr := by
  simp only [Tbl.attr, normTbl]
  exact attr_sorted _ h.na id

theorem normTbl_node (t : Tbl) (h : IdsNodup t) (id : Id) :
    (normTbl t).node id = (t.node id).map (normNode t) := by
  simp only [Tbl.node, normTbl]
  exact node_sorted _ _ h.nn id

theorem normTbl_attrName (t : Tbl) (h : IdsNodup t) : (normTbl t).attrName = t.attrName := by
  funext id
  simp only [Tbl.attrName, normTbl_attr t h]
  cases t.attr id <;> simp [normAttr_e]

theorem normTbl_nodeName (t : Tbl) (h : IdsNodup t) : (normTbl t).nodeName = t.nodeName := by
  funext id
  simp only [Tbl.nodeName, normTbl_node t h]
  cases t.node id <;> simp [normNode]

theorem normTbl_nodeNid (t : Tbl) (h : IdsNodup t) : (normTbl t).nodeNid = t.nodeNid := by
  funext id
  simp only [Tbl.nodeNid, normTbl_node t h]
  cases t.node id <;> simp [normNode]

/-- the sort keys that depend on the tables -/
structure SameKeys (t t' : Tbl) : Prop where
  asg : asgLe t' = asgLe t
  recv : recvLe t' = recvLe t
  iface : ifaceLe t' = ifaceLe t

theorem sameKeys_normTbl (t : Tbl) (h : IdsNodup t) : SameKeys t (normTbl t) := by
  refine ⟨?_, ?_, ?_⟩
  · funext a b; simp only [asgLe, normTbl_attrName t h]
  · funext a b; simp only [recvLe, normTbl_nodeName t h]
  · funext a b; simp only [ifaceLe, normTbl_nodeNid t h]

/-! ## idempotence, bottom up -/

theorem normAttr_idem (a : Attr) : normAttr (normAttr a) = normAttr a := by
  obtain ⟨e, k⟩ := a
  cases k with
  | str => rfl
  | int => rfl
  | flt => rfl
  | enm vs d =>
    simp only [normAttr, Attr.mk.injEq, AttrKind.enm.injEq, true_and, and_true]
    simp [List.filter_cons, List.filter_filter]

theorem asgs_idem {t t' : Tbl} (hk : SameKeys t t') (asg : List Asg) :
    sortBy (asgLe t') (sortBy (asgLe t) asg) = sortBy (asgLe t) asg := by
  rw [hk.asg, sortBy_idem (totalPre_asgLe t)]

theorem normNode_idem {t t' : Tbl} (hk : SameKeys t t') (x : Node) :
    normNode t' (normNode t x) = normNode t x := by
  simp only [normNode, asgs_idem hk]

theorem normTbl_idem (t : Tbl) (h : IdsNodup t) : normTbl (normTbl t) = normTbl t := by
  have hk := sameKeys_normTbl t h
  simp only [normTbl]
  congr 1
  · exact sortBy_idem totalPre_builderLe _
  · rw [sortBy_map nodeLe nodeLe (normNode t) (fun _ _ => rfl), sortBy_idem totalPre_nodeLe, List.map_map]
    apply List.map_congr_left
    intro x _
    exact normNode_idem hk x
  · exact sortBy_idem totalPre_entLe _
  · exact sortBy_idem totalPre_entLe _
  · exact sortBy_idem totalPre_entLe _
  · rw [sortBy_map attrLe attrLe normAttr (fun a b => by simp [attrLe, normAttr_e]),
      sortBy_idem totalPre_attrLe, List.map_map]
    apply List.map_congr_left
    intro x _
    exact normAttr_idem x

/-! ### multiplexer children: walking the normal form again gives the same order -/

section Kids
variable {α : Type}

theorem khLe_antisymm {ps : List (KH × α)} (hn : (ps.map (·.1.id)).Nodup) :
    ∀ a ∈ ps, ∀ b ∈ ps, khLe a.1 b.1 = true → khLe b.1 a.1 = true → a = b := by
  intro a ha b hb hab hba
  apply eq_of_id_eq hn ha hb
  simp only [khLe, natStrLe_iff] at hab hba
  rcases hab with h1 | ⟨_, h1⟩ <;> rcases hba with h2 | ⟨_, h2⟩
  · omega
  · omega
  · omega
  · exact String.le_antisymm h1 h2

theorem groupOf_perm_eq {ps ps' : List (KH × α)} (hp : ps ~ ps') (hn : (ps.map (·.1.id)).Nodup) (k : Nat) :
    groupOf ps k = groupOf ps' k := by
  unfold groupOf
  apply sortBy_eq_of_perm (totalPre_khLe.comap fun p : KH × α => p.1) (hp.filter _)
  intro a ha b hb
  exact khLe_antisymm hn a (List.mem_filter.mp ha).1 b (List.mem_filter.mp hb).1

theorem muxSignals_perm_eq {ps ps' : List (KH × α)} (hp : ps ~ ps') (hn : (ps.map (·.1.id)).Nodup)
    (gc : Nat) : muxSignals gc ps = muxSignals gc ps' := by
  simp only [muxSignals, groupOf_perm_eq hp hn]

end Kids

theorem nodup_of_nodup_map {α β : Type} (f : α → β) {l : List α} (h : (l.map f).Nodup) : l.Nodup :=
  List.Pairwise.of_map f (fun _ _ hne he => hne (he ▸ rfl)) h

/-- the children in the order of their last appearance are a permutation of the children -/
theorem dedup_walk_perm (gc : Nat) (kids : List Kid) (hgc : 0 < gc)
    (hn : (kids.map fun k => k.sig.id).Nodup) (hw : ∀ k ∈ kids, grpWf gc k.grp = true) :
    dedupLast (fun k : Kid => k.sig.id) (muxSignals gc (kids.map fun k => (k.h, k))) ~ kids := by
  have hD := nodup_keys_dedupLast (fun k : Kid => k.sig.id) (muxSignals gc (kids.map fun k => (k.h, k)))
  rw [List.perm_ext_iff_of_nodup (nodup_of_nodup_map _ hD) (nodup_of_nodup_map _ hn)]
  intro k
  constructor
  · intro hk
    obtain ⟨p, hp, rfl⟩ := mem_muxSignals (mem_of_mem_dedupLast hk)
    obtain ⟨k', hk', rfl⟩ := List.mem_map.mp hp
    exact hk'
  · intro hk
    have hm : k ∈ muxSignals gc (kids.map fun k => (k.h, k)) :=
      mem_muxSignals_of_placed (p := (k.h, k)) (List.mem_map.mpr ⟨k, hk, rfl⟩) hgc
        (placed_of_grpWf hgc _ (hw k hk))
    obtain ⟨d, hd, he⟩ := List.mem_map.mp (key_mem_dedupLast (fun k : Kid => k.sig.id) _ k hm)
    have hdk : d ∈ kids := by
      obtain ⟨p, hp, rfl⟩ := mem_muxSignals (mem_of_mem_dedupLast hd)
      obtain ⟨k', hk', rfl⟩ := List.mem_map.mp hp
      exact hk'
    have : d = k := by
      have h1 := eq_of_id_eq (α := Kid) (ps := kids.map fun k => (k.h, k))
        (by simpa [List.map_map, Function.comp_def, Kid.h] using hn)
        (List.mem_map.mpr ⟨d, hdk, rfl⟩) (List.mem_map.mpr ⟨k, hk, rfl⟩) he
      exact (Prod.mk.inj h1).2
    rw [← this]
    exact hd

mutual
  theorem normSig_idem {t t' : Tbl} (hk : SameKeys t t') :
      (s : Sig) → sigWf t s = true → normSig t' (normSig t s) = normSig t s
    | .mk e asg body, hw => by
      simp only [sigWf, Bool.and_eq_true] at hw
      simp only [normSig, asgs_idem hk, normBody_idem hk body hw.2]
  theorem normBody_idem {t t' : Tbl} (hk : SameKeys t t') :
      (b : Body) → bodyWf t b = true → normBody t' (normBody t b) = normBody t b
    | .std _ _, _ => rfl
    | .enm _, _ => rfl
    | .mux gc kids, hw => by
      simp only [bodyWf, Bool.and_eq_true, decide_eq_true_eq, nodupB, kidIds_eq] at hw
      obtain ⟨⟨hgc, hkw⟩, hn⟩ := hw
      have hkids := normKids_idem hk kids gc hkw
      rw [kidsWf_iff] at hkw
      -- first normal form
      have e1 : normBody t (.mux gc kids) =
          .mux gc ((dedupLast (fun k : Kid => k.sig.id) (muxSignals gc (kids.map fun k => (k.h, k)))).map
            fun k => Kid.mk (normSig t k.sig) k.pos k.grp) := by
        rw [normBody, normKids_eq, muxSignals_map (fun k : Kid => Kid.mk (normSig t k.sig) k.pos k.grp)]
        rw [dedupLast_map (fun k : Kid => k.sig.id) (fun k : Kid => k.sig.id)
          (fun k => Kid.mk (normSig t k.sig) k.pos k.grp) (fun k => normSig_id t k.sig)]
      rw [e1]
      generalize hD : dedupLast (fun k : Kid => k.sig.id) (muxSignals gc (kids.map fun k => (k.h, k))) = D
      have hperm : D ~ kids := hD ▸ dedup_walk_perm gc kids hgc hn (fun k hk' => (hkw k hk').2)
      have hDmem : ∀ k ∈ D, k ∈ kids := fun k hk' => hperm.mem_iff.mp hk'
      -- second normal form: the same walk
      have e2 : ((D.map fun k => Kid.mk (normSig t k.sig) k.pos k.grp).map fun k : Kid => (k.h, k)).map
            (fun p => (p.1, Kid.mk (normSig t' p.2.sig) p.2.pos p.2.grp)) =
          (D.map fun k => (k.h, k)).map fun p => (p.1, Kid.mk (normSig t p.2.sig) p.2.pos p.2.grp) := by
        simp only [List.map_map]
        apply List.map_congr_left
        intro k hk'
        have := hkids k (hDmem k hk')
        cases k with
        | mk s pos grp =>
          simp only [Kid.sig] at this
          simp only [Function.comp, Kid.h, Kid.sig, Kid.pos, Kid.grp, normSig_id, this]
      rw [normBody, normKids_eq]
      rw [e2, muxSignals_map (fun k : Kid => Kid.mk (normSig t k.sig) k.pos k.grp)]
      have hpp : (D.map fun k => (k.h, k)) ~ (kids.map fun k => (k.h, k)) := hperm.map _
      have hnD : ((D.map fun k => (k.h, k)).map (·.1.id)).Nodup := by
        have := (hperm.map fun k : Kid => k.sig.id).nodup_iff.mpr hn
        simpa [List.map_map, Function.comp_def, Kid.h] using this
      rw [muxSignals_perm_eq hpp hnD gc]
      rw [dedupLast_map (fun k : Kid => k.sig.id) (fun k : Kid => k.sig.id)
        (fun k => Kid.mk (normSig t k.sig) k.pos k.grp) (fun k => normSig_id t k.sig), hD]
  theorem normKids_idem {t t' : Tbl} (hk : SameKeys t t') :
      (ks : List Kid) → (gc : Nat) → kidsWf t gc ks = true →
        ∀ k ∈ ks, normSig t' (normSig t k.sig) = normSig t k.sig
    | [], _, _ => by simp
    | .mk s pos grp :: r, gc, hw => by
      simp only [kidsWf, Bool.and_eq_true] at hw
      intro k hk'
      rcases List.mem_cons.mp hk' with rfl | hk'
      · exact normSig_idem hk s hw.1.1
      · exact normKids_idem hk r gc hw.2 k hk'
end

theorem normMsg_idem {t t' : Tbl} (hk : SameKeys t t') (m : Msg) (hw : msgWf t m = true) :
    normMsg t' (normMsg t m) = normMsg t m := by
  obtain ⟨_, _, w3, _, _, _⟩ := msgWf_iff t m hw
  simp only [normMsg, asgs_idem hk]
  congr 1
  · rw [sortBy_map topLe topLe (fun p : Sig × Nat => (normSig t p.1, p.2))
      (fun a b => by simp [topLe, normSig_id]), sortBy_idem totalPre_topLe, List.map_map]
    apply List.map_congr_left
    intro p hp
    simp only [Function.comp]
    rw [normSig_idem hk p.1 (w3 p (mem_sortBy.mp hp))]
  · rw [hk.recv, sortBy_idem (totalPre_recvLe t)]

theorem normIface_idem {t t' : Tbl} (hk : SameKeys t t') (i : Iface) (hw : ifaceWf t i = true) :
    normIface t' (normIface t i) = normIface t i := by
  obtain ⟨_, w2⟩ := ifaceWf_iff t i hw
  simp only [normIface]
  congr 1
  rw [sortBy_map msgLe msgLe (normMsg t) (fun _ _ => rfl), sortBy_idem totalPre_msgLe, List.map_map]
  apply List.map_congr_left
  intro m hm
  exact normMsg_idem hk m (w2 m (mem_sortBy.mp hm)).1

theorem normBus_idem {t t' : Tbl} (hk : SameKeys t t') (b : Bus) (hw : busWf t b = true) :
    normBus t' (normBus t b) = normBus t b := by
  obtain ⟨_, _, w3⟩ := busWf_iff t b hw
  simp only [normBus, asgs_idem hk]
  congr 1
  rw [hk.iface, sortBy_map (ifaceLe t) (ifaceLe t) (normIface t) (fun _ _ => rfl),
    sortBy_idem (totalPre_ifaceLe t), List.map_map]
  apply List.map_congr_left
  intro i hi
  exact normIface_idem hk i (w3 i (mem_sortBy.mp hi))

theorem norm_idem_aux (n : Net) (hw : wf n = true) : norm (norm n) = norm n := by
  obtain ⟨ht, hb, _, _, _⟩ := wf_iff n hw
  have hids : IdsNodup n.t := ⟨ht.nn, ht.na⟩
  have hk := sameKeys_normTbl n.t hids
  simp only [norm, normTbl_idem n.t hids]
  congr 1
  rw [sortBy_map busLe busLe (normBus n.t) (fun _ _ => rfl), sortBy_idem totalPre_busLe, List.map_map]
  apply List.map_congr_left
  intro b hb'
  exact normBus_idem hk b (hb b (mem_sortBy.mp hb'))

/-! ## `norm` only reorders: membership and look-up observables -/

theorem mem_norm_buses (n : Net) (b : Bus) :
    b ∈ (norm n).buses ↔ ∃ b0 ∈ n.buses, b = normBus n.t b0 := by
  simp only [norm, List.mem_map, mem_sortBy]
  exact ⟨fun ⟨x, hx, he⟩ => ⟨x, hx, he.symm⟩, fun ⟨x, hx, he⟩ => ⟨x, hx, he.symm⟩⟩

theorem mem_normBus_ifaces (t : Tbl) (b : Bus) (i : Iface) :
    i ∈ (normBus t b).ifaces ↔ ∃ i0 ∈ b.ifaces, i = normIface t i0 := by
  simp only [normBus, List.mem_map, mem_sortBy]
  exact ⟨fun ⟨x, hx, he⟩ => ⟨x, hx, he.symm⟩, fun ⟨x, hx, he⟩ => ⟨x, hx, he.symm⟩⟩

theorem mem_normIface_msgs (t : Tbl) (i : Iface) (m : Msg) :
    m ∈ (normIface t i).msgs ↔ ∃ m0 ∈ i.msgs, m = normMsg t m0 := by
  simp only [normIface, List.mem_map, mem_sortBy]
  exact ⟨fun ⟨x, hx, he⟩ => ⟨x, hx, he.symm⟩, fun ⟨x, hx, he⟩ => ⟨x, hx, he.symm⟩⟩

theorem mem_normMsg (t : Tbl) (m : Msg) :
    (∀ r, r ∈ (normMsg t m).recvs ↔ r ∈ m.recvs) ∧
    (∀ a, a ∈ (normMsg t m).asg ↔ a ∈ m.asg) ∧
    (∀ p, p ∈ (normMsg t m).sigs ↔ ∃ p0 ∈ m.sigs, p = (normSig t p0.1, p0.2)) ∧
    (normMsg t m).e = m.e ∧ (normMsg t m).mid = m.mid ∧ (normMsg t m).static = m.static := by
  refine ⟨fun r => mem_sortBy, fun a => mem_sortBy, fun p => ?_, rfl, rfl, rfl⟩
  simp only [normMsg, List.mem_map, mem_sortBy]
  exact ⟨fun ⟨x, hx, he⟩ => ⟨x, hx, he.symm⟩, fun ⟨x, hx, he⟩ => ⟨x, hx, he.symm⟩⟩

/-- the children of a normalised multiplexer are the normalised children (well-formed input) -/
theorem mem_normBody_kids (t : Tbl) (gc : Nat) (kids : List Kid) (hw : bodyWf t (.mux gc kids) = true)
    (k : Kid) :
    (∃ ks, normBody t (.mux gc kids) = .mux gc ks ∧
      (k ∈ ks ↔ ∃ k0 ∈ kids, k = Kid.mk (normSig t k0.sig) k0.pos k0.grp)) := by
  simp only [bodyWf, Bool.and_eq_true, decide_eq_true_eq, nodupB, kidIds_eq] at hw
  obtain ⟨⟨hgc, hkw⟩, hn⟩ := hw
  rw [kidsWf_iff] at hkw
  refine ⟨_, rfl, ?_⟩
  rw [normKids_eq, muxSignals_map (fun k : Kid => Kid.mk (normSig t k.sig) k.pos k.grp),
    dedupLast_map (fun k : Kid => k.sig.id) (fun k : Kid => k.sig.id)
      (fun k => Kid.mk (normSig t k.sig) k.pos k.grp) (fun k => normSig_id t k.sig)]
  have hperm := dedup_walk_perm gc kids hgc hn (fun k hk' => (hkw k hk').2)
  simp only [List.mem_map]
  constructor
  · rintro ⟨x, hx, rfl⟩; exact ⟨x, hperm.mem_iff.mp hx, rfl⟩
  · rintro ⟨x, hx, rfl⟩; exact ⟨x, hperm.mem_iff.mpr hx, rfl⟩

/-- look-ups in the tables of the normal form -/
theorem norm_lookups (n : Net) (hw : wf n = true) (id : Id) :
    (norm n).t.attr id = (n.t.attr id).map normAttr ∧
    (norm n).t.node id = (n.t.node id).map (normNode n.t) ∧
    (norm n).t.builder id = n.t.builder id ∧
    findEnt (norm n).t.types id = findEnt n.t.types id ∧
    findEnt (norm n).t.units id = findEnt n.t.units id ∧
    findEnt (norm n).t.enums id = findEnt n.t.enums id := by
  obtain ⟨ht, _, _, _, _⟩ := wf_iff n hw
  refine ⟨normTbl_attr n.t ⟨ht.nn, ht.na⟩ id, normTbl_node n.t ⟨ht.nn, ht.na⟩ id, ?_, ?_, ?_, ?_⟩
  · simp only [norm, normTbl, Tbl.builder]
    exact builder_sorted _ ht.nb id
  · simp only [norm, normTbl]; exact findEnt_sortBy _ ht.nt id
  · simp only [norm, normTbl]; exact findEnt_sortBy _ ht.nu id
  · simp only [norm, normTbl]; exact findEnt_sortBy _ ht.ne id

/-- an enum attribute keeps its values (as a set) and its default value -/
theorem normAttr_values (e : Ent) (vs : List String) (d : String) (hd : d ∈ vs) :
    ∃ vs', normAttr ⟨e, .enm vs d⟩ = ⟨e, .enm vs' d⟩ ∧ vs'.head? = some d ∧ ∀ v, v ∈ vs' ↔ v ∈ vs := by
  refine ⟨_, rfl, rfl, fun v => ?_⟩
  simp only [List.mem_cons, List.mem_filter, bne_iff_ne, ne_eq]
  constructor
  · rintro (rfl | ⟨h, _⟩)
    · exact hd
    · exact h
  · intro h
    by_cases hv : v = d
    · exact Or.inl hv
    · exact Or.inr ⟨h, hv⟩

end Acme.Save
