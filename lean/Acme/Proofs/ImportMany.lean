/-
Message-level importer model, part 4: the case "several multiplexors" (flat) and the
composition of the three cases into `importMsg`.
-/
import Acme.Spec.Import
import Acme.Proofs.ImportCases

namespace Acme.Import
open Acme.Layout Acme.Conv Acme.Arith
open Acme.Mux (sortInts compactAdj)

/-! ### `muxIdx`, `appendAt` -/

theorem muxIdx_lt (muxes : List DSig) (name : String) (i : Nat) (h : muxIdx muxes name = some i) :
    i < muxes.length := by
  unfold muxIdx at h
  dsimp only at h
  obtain ⟨ys, hys⟩ := List.getLast?_eq_some_iff.1 h
  have : i ∈ (List.range muxes.length).filter (fun i => (muxes[i]?.map (·.name)) == some name) := by
    rw [hys]; simp
  exact List.mem_range.1 (List.mem_filter.1 this).1

theorem appendAt_length (groups : List (List DSig)) (i : Nat) (s : DSig) :
    (appendAt groups i s).length = groups.length := by
  unfold appendAt; exact List.length_modify _ _ _

theorem appendAt_flatten : ∀ (groups : List (List DSig)) (i : Nat) (s : DSig), i < groups.length →
    (appendAt groups i s).flatten.Perm (s :: groups.flatten)
  | [], i, s, h => by simp at h
  | g :: gs, 0, s, _ => by
    simp only [appendAt, List.modify_cons, if_true, List.flatten_cons, List.append_assoc]
    exact List.perm_middle
  | g :: gs, i + 1, s, h => by
    have ih := appendAt_flatten gs i s (by simpa using h)
    simp only [appendAt] at ih ⊢
    simp only [List.modify_cons, Nat.add_one_ne_zero, if_false, Nat.add_sub_cancel, List.flatten_cons]
    exact (List.Perm.append_left g ih).trans List.perm_middle

/-! ### first loop -/

def isMuxName (muxes : List DSig) (s : DSig) : Bool := muxes.any (fun x => x.name == s.name)

theorem splitMany_spec (cap : Int) (exts : List DExt) (muxes : List DSig) :
    ∀ (l : List DSig) (top : List Item) (groups : List (List DSig)) (top' : List Item) (groups' : List (List DSig)),
    splitMany cap exts muxes l top groups = .ok (top', groups') → groups.length = muxes.length →
    TopInv cap top →
    TopInv cap top' ∧ groups'.length = muxes.length ∧
    top'.Perm ((l.filter (fun s => !isMuxName muxes s && !s.isMultiplexed)).map leafOf ++ top) ∧
    groups'.flatten.Perm (l.filter (fun s => !isMuxName muxes s && s.isMultiplexed) ++ groups.flatten) ∧
    (∀ s ∈ l, isMuxName muxes s = false → 0 < s.size)
  | [], top, groups, top', groups', h, hlen, hinv => by
    simp only [splitMany] at h
    injection h with h
    injection h with h1 h2
    subst h1; subst h2
    exact ⟨hinv, hlen, by simp, by simp, fun s hs => by cases hs⟩
  | s :: r, top, groups, top', groups', h, hlen, hinv => by
    unfold splitMany at h
    split at h
    · rename_i hname
      have hname' : isMuxName muxes s = true := hname
      obtain ⟨h1, h2, h3, h4, h5⟩ := splitMany_spec cap exts muxes r top groups top' groups' h hlen hinv
      refine ⟨h1, h2, by simpa [List.filter_cons, hname'] using h3, by simpa [List.filter_cons, hname'] using h4, ?_⟩
      intro x hx hxn
      rcases List.mem_cons.1 hx with rfl | hx
      · rw [hname'] at hxn; cases hxn
      · exact h5 x hx hxn
    · rename_i hname
      have hname' : isMuxName muxes s = false := by simpa [isMuxName] using hname
      split at h
      · cases h
      · rename_i hc
        have hs := checkSig_ok s hc
        split at h
        · rename_i hm
          split at h
          · cases h
          · rename_i e he
            split at h
            · cases h
            · rename_i i hi
              have hlt := muxIdx_lt muxes e.muxor i hi
              obtain ⟨h1, h2, h3, h4, h5⟩ := splitMany_spec cap exts muxes r top (appendAt groups i s) top' groups' h
                (by rw [appendAt_length]; exact hlen) hinv
              refine ⟨h1, h2, by simpa [List.filter_cons, hname', hm] using h3, ?_, ?_⟩
              · simp only [List.filter_cons, hname', hm, Bool.not_false, Bool.and_self, if_true, List.cons_append]
                exact h4.trans ((List.Perm.append_left _ (appendAt_flatten groups i s (by omega))).trans List.perm_middle)
              · intro x hx hxn
                rcases List.mem_cons.1 hx with rfl | hx
                · exact hs.1
                · exact h5 x hx hxn
        · rename_i hm
          have hm' : s.isMultiplexed = false := by simpa using hm
          split at h
          · cases h
          · rename_i top1 hins
            obtain ⟨hinv1, hp1⟩ := insertTop_inv cap top top1 (leafOf s) hins
              (by rw [leafOf_size]; omega) (fun n hn => by cases hn) hinv
            obtain ⟨h1, h2, h3, h4, h5⟩ := splitMany_spec cap exts muxes r top1 groups top' groups' h hlen hinv1
            refine ⟨h1, h2, ?_, by simpa [List.filter_cons, hname', hm'] using h4, ?_⟩
            · simp only [List.filter_cons, hname', hm', Bool.not_false, Bool.and_self, if_true,
                List.map_cons, List.cons_append]
              exact h3.trans ((List.Perm.append_left _ hp1).trans List.perm_middle)
            · intro x hx hxn
              rcases List.mem_cons.1 hx with rfl | hx
              · exact hs.1
              · exact h5 x hx hxn

/-! ### second loop -/

/-- the built multiplexers that wait for their parent are what `nested` says -/
structure NestInv (nested : List MuxNode) (extra : List (Nat × DSig)) : Prop where
  wf : ∀ n ∈ nested, MuxWF n
  link : ∀ n ∈ nested, LinkOK nested n
  pend : ∀ p ∈ extra, p.2.isMultiplexor = true ∧ 0 < p.2.size ∧
    ∃ n ∈ nested, n.name = p.2.name ∧ ((p.2.size : Nat) : Int) = n.groupSize + n.selW ∧ sigPos p.2 = n.start

theorem LinkOK.mono {nested : List MuxNode} {p : MuxNode} (h : LinkOK nested p) (more : List MuxNode) :
    LinkOK (nested ++ more) p := by
  intro c hc hm
  obtain ⟨n, hn, h1⟩ := h c hc hm
  exact ⟨n, List.mem_append.2 (Or.inl hn), h1⟩

theorem mem_pendingFor (extra : List (Nat × DSig)) (j : Nat) (k : DSig) (h : k ∈ pendingFor extra j) :
    ∃ p ∈ extra, p.2 = k := by
  unfold pendingFor at h
  obtain ⟨p, hp, rfl⟩ := List.mem_map.1 h
  exact ⟨p, (List.mem_filter.1 hp).1, rfl⟩

/-- the node built for a multiplexor links to the nodes of its nested children -/
theorem importMux_link (exts : List DExt) (mx : DSig) (kids : List DSig) (j : Nat)
    (nested : List MuxNode) (extra : List (Nat × DSig)) (n : MuxNode)
    (hinv : NestInv nested extra) (hkids : ∀ k ∈ kids, 0 < k.size ∧ k.isMultiplexor = false)
    (h : importMux exts mx (kids ++ pendingFor extra j) = .ok n) :
    MuxWF n ∧ LinkOK nested n := by
  have hpos : ∀ k ∈ kids ++ pendingFor extra j, 0 < k.size := by
    intro k hk
    rcases List.mem_append.1 hk with h1 | h1
    · exact (hkids k h1).1
    · obtain ⟨p, hp, rfl⟩ := mem_pendingFor extra j k h1
      exact (hinv.pend p hp).2.1
  obtain ⟨hwf, _, hstart, hgc, _, hfa⟩ := importMux_spec exts mx _ n h hpos
  have hsel := importMux_size exts mx _ n h
  have hw : n.selW = (mx.size : Int) := selW_eq n mx.size hwf hgc hsel
  refine ⟨hwf, ?_⟩
  intro c hc hm
  obtain ⟨k, hk, r1, r2, r3, _, r5⟩ := forall2_mem_right hfa c hc
  rw [hm] at r5
  have hkp : k ∈ pendingFor extra j := by
    rcases List.mem_append.1 hk with h1 | h1
    · have := (hkids k h1).2
      rw [this] at r5; cases r5
    · exact h1
  obtain ⟨p, hp, rfl⟩ := mem_pendingFor extra j k hkp
  obtain ⟨_, _, n', hn', e1, e2, e3⟩ := hinv.pend p hp
  refine ⟨n', hn', by rw [e1, r1], by rw [r3, e2], ?_⟩
  rw [← e3, hstart, hw, r2]
  omega

structure WorkOK (work : List ((DSig × List DSig) × Nat)) : Prop where
  mux : ∀ w ∈ work, w.1.1.isMultiplexor = true
  kids : ∀ w ∈ work, ∀ k ∈ w.1.2, 0 < k.size ∧ k.isMultiplexor = false

theorem WorkOK.tail {w : (DSig × List DSig) × Nat} {rest : List ((DSig × List DSig) × Nat)}
    (h : WorkOK (w :: rest)) : WorkOK rest :=
  ⟨fun x hx => h.mux x (List.mem_cons_of_mem _ hx), fun x hx => h.kids x (List.mem_cons_of_mem _ hx)⟩

/-- validity is kept by the second loop, nested multiplexors included -/
theorem placeMuxes_wf (cap : Int) (exts : List DExt) (muxes : List DSig) :
    ∀ (work : List ((DSig × List DSig) × Nat)) (top : List Item) (nested : List MuxNode)
      (extra : List (Nat × DSig)) (top' : List Item) (nested' : List MuxNode),
    placeMuxes cap exts muxes work top nested extra = .ok (top', nested') → TopInv cap top →
    NestInv nested extra → (∀ n, Item.mux n ∈ top → LinkOK nested n) → WorkOK work →
    TopInv cap top' ∧ (∀ n ∈ nested', MuxWF n) ∧ (∀ n ∈ nested', LinkOK nested' n) ∧
      (∀ n, Item.mux n ∈ top' → LinkOK nested' n) ∧ (∀ w ∈ work, 1 ≤ w.1.1.size)
  | [], top, nested, extra, top', nested', h, hinv, hn, hl, _ => by
    simp only [placeMuxes] at h
    injection h with h
    injection h with h1 h2
    subst h1; subst h2
    exact ⟨hinv, hn.wf, hn.link, hl, fun w hw => by cases hw⟩
  | ((mx, kids), j) :: rest, top, nested, extra, top', nested', h, hinv, hn, hl, hw => by
    unfold placeMuxes at h
    split at h
    · cases h
    · rename_i n hmux
      obtain ⟨hwf, hlink⟩ := importMux_link exts mx kids j nested extra n hn
        (hw.kids ((mx, kids), j) (List.mem_cons_self ..)) hmux
      have hsz1 := importMux_size exts mx _ n hmux
      have hcons : ∀ {P : Prop}, (P ∧ ∀ w ∈ rest, 1 ≤ w.1.1.size) →
          (P ∧ ∀ w ∈ ((mx, kids), j) :: rest, 1 ≤ w.1.1.size) := by
        intro P hp
        refine ⟨hp.1, fun w hw' => ?_⟩
        rcases List.mem_cons.1 hw' with rfl | hw'
        · exact hsz1
        · exact hp.2 w hw'
      split at h
      · split at h
        · cases h
        · rename_i top1 hins
          obtain ⟨hinv1, hp1⟩ := insertTop_inv cap top top1 (.mux n) hins (muxItem_size_pos n hwf)
            (fun n' hn' => by injection hn' with hn'; subst hn'; exact hwf) hinv
          have hrec := placeMuxes_wf cap exts muxes rest top1 nested extra top' nested' h hinv1 hn ?_ hw.tail
          · obtain ⟨a, b, c, d, e⟩ := hrec
            exact ⟨a, b, c, (hcons ⟨d, e⟩).1, (hcons ⟨d, e⟩).2⟩
          intro n' hn'
          rcases List.mem_cons.1 (hp1.mem_iff.1 hn') with h1 | h1
          · injection h1 with h1; subst h1; exact hlink
          · exact hl n' h1
      · split at h
        · cases h
        · split at h
          · cases h
          · have hmxm := hw.mux ((mx, kids), j) (List.mem_cons_self ..)
            have htot : 0 < n.groupSize + n.selW := muxItem_size_pos n hwf
            have hrec := placeMuxes_wf cap exts muxes rest top (nested ++ [n]) _ top' nested' h hinv ?_ ?_ hw.tail
            · obtain ⟨a, b, c, d, e⟩ := hrec
              exact ⟨a, b, c, (hcons ⟨d, e⟩).1, (hcons ⟨d, e⟩).2⟩
            · refine ⟨?_, ?_, ?_⟩
              · intro x hx
                rcases List.mem_append.1 hx with h1 | h1
                · exact hn.wf x h1
                · rw [List.mem_singleton] at h1; subst h1; exact hwf
              · intro x hx
                rcases List.mem_append.1 hx with h1 | h1
                · exact (hn.link x h1).mono [n]
                · rw [List.mem_singleton] at h1; subst h1; exact hlink.mono [x]
              · intro p hp
                rcases List.mem_append.1 hp with h1 | h1
                · obtain ⟨a, b, n', hn', c⟩ := hn.pend p h1
                  exact ⟨a, b, n', List.mem_append.2 (Or.inl hn'), c⟩
                · rw [List.mem_singleton] at h1
                  subst h1
                  have hsz : (((nestedKid mx n).size : Nat) : Int) = n.groupSize + n.selW := by
                    show (((n.groupSize + n.selW).toNat : Nat) : Int) = n.groupSize + n.selW
                    exact Int.toNat_of_nonneg (by omega)
                  refine ⟨hmxm, ?_, n, List.mem_append.2 (Or.inr (List.mem_singleton.2 rfl)), ?_, hsz, ?_⟩
                  · show 0 < (nestedKid mx n).size
                    have : ((nestedKid mx n).size : Int) > 0 := by rw [hsz]; exact htot
                    omega
                  · have := (importMux_spec exts mx _ n hmux ?_).2.1
                    · exact this
                    · intro k hk
                      rcases List.mem_append.1 hk with h1 | h1
                      · exact ((hw.kids ((mx, kids), j) (List.mem_cons_self ..)) k h1).1
                      · obtain ⟨p, hp', rfl⟩ := mem_pendingFor extra j k h1
                        exact (hn.pend p hp').2.1
                  · have := (importMux_spec exts mx _ n hmux ?_).2.2.1
                    · exact this.symm
                    · intro k hk
                      rcases List.mem_append.1 hk with h1 | h1
                      · exact ((hw.kids ((mx, kids), j) (List.mem_cons_self ..)) k h1).1
                      · obtain ⟨p, hp', rfl⟩ := mem_pendingFor extra j k h1
                        exact (hn.pend p hp').2.1
            · intro n' hn'
              exact (hl n' hn').mono [n]

/-- without extended entries for the multiplexors nothing is nested: the loop inserts every
    multiplexer at the top level -/
theorem placeMuxes_flat (cap : Int) (exts : List DExt) (muxes : List DSig) :
    ∀ (work : List ((DSig × List DSig) × Nat)) (top : List Item) (nested : List MuxNode)
      (top' : List Item) (nested' : List MuxNode),
    placeMuxes cap exts muxes work top nested [] = .ok (top', nested') →
    (∀ w ∈ work, findExt exts w.1.1.name = none) →
    nested' = nested ∧ ∃ ns : List MuxNode, top'.Perm (ns.map Item.mux ++ top) ∧
      List.Forall₂ (fun w n => importMux exts w.1.1 w.1.2 = .ok n) work ns
  | [], top, nested, top', nested', h, _ => by
    simp only [placeMuxes] at h
    injection h with h
    injection h with h1 h2
    subst h1; subst h2
    exact ⟨rfl, [], by simp, List.Forall₂.nil⟩
  | ((mx, kids), j) :: rest, top, nested, top', nested', h, hflat => by
    unfold placeMuxes at h
    have hp0 : pendingFor [] j = [] := rfl
    rw [hp0, List.append_nil] at h
    split at h
    · cases h
    · rename_i n hmux
      have hnone := hflat ((mx, kids), j) (List.mem_cons_self ..)
      simp only at hnone
      rw [hnone] at h
      dsimp only at h
      split at h
      · cases h
      · rename_i top1 hins
        obtain ⟨hn', ns, hp', hfa⟩ := placeMuxes_flat cap exts muxes rest top1 nested top' nested' h
          (fun w hw => hflat w (List.mem_cons_of_mem _ hw))
        refine ⟨hn', n :: ns, ?_, List.Forall₂.cons hmux hfa⟩
        simp only [List.map_cons, List.cons_append]
        obtain ⟨heq, _⟩ : top1 = insertItem (.mux n) top ∧ True := by
          unfold insertTop at hins
          split at hins
          · cases hins
          · split at hins
            · cases hins
            · split at hins
              · cases hins
              · injection hins with hins
                exact ⟨hins.symm, trivial⟩
        exact hp'.trans ((List.Perm.append_left _ (heq ▸ insertItem_perm _ _)).trans List.perm_middle)

theorem placeMuxes_length (cap : Int) (exts : List DExt) (muxes : List DSig) :
    ∀ (work : List ((DSig × List DSig) × Nat)) (top : List Item) (nested : List MuxNode)
      (extra : List (Nat × DSig)) (top' : List Item) (nested' : List MuxNode),
    placeMuxes cap exts muxes work top nested extra = .ok (top', nested') →
    nested.length ≤ nested'.length ∧
    (nested'.length = nested.length → ∀ w ∈ work, findExt exts w.1.1.name = none)
  | [], top, nested, extra, top', nested', h => by
    simp only [placeMuxes] at h
    injection h with h
    injection h with h1 h2
    subst h1; subst h2
    exact ⟨Nat.le_refl _, fun _ w hw => by cases hw⟩
  | ((mx, kids), j) :: rest, top, nested, extra, top', nested', h => by
    unfold placeMuxes at h
    split at h
    · cases h
    · split at h
      · rename_i hnone
        split at h
        · cases h
        · obtain ⟨a, b⟩ := placeMuxes_length cap exts muxes rest _ nested extra top' nested' h
          refine ⟨a, fun hl w hw => ?_⟩
          rcases List.mem_cons.1 hw with rfl | hw
          · exact hnone
          · exact b hl w hw
      · split at h
        · cases h
        · split at h
          · cases h
          · obtain ⟨a, _⟩ := placeMuxes_length cap exts muxes rest top (nested ++ [_]) _ top' nested' h
            rw [List.length_append, List.length_singleton] at a
            exact ⟨by omega, fun hl => by omega⟩

theorem forall2_matching (exts : List DExt) (g : ((DSig × List DSig) × Nat) → List DSig) :
    ∀ (work : List ((DSig × List DSig) × Nat)) (ns : List MuxNode),
    List.Forall₂ (fun w n => Matching exts (g w) (itemEntries (.mux n))) work ns →
    Matching exts (work.flatMap g) (entriesOf (ns.map Item.mux))
  | _, _, .nil => Matching.nil exts
  | _, _, .cons h1 h2 => by
    rw [List.flatMap_cons, List.map_cons, entriesOf_cons]
    exact Matching.append h1 (forall2_matching exts g _ _ h2)

theorem forall2_imp {α β : Type} {R S : α → β → Prop} {A : List α} {B : List β}
    (h : List.Forall₂ R A B) (himp : ∀ a b, a ∈ A → R a b → S a b) : List.Forall₂ S A B := by
  induction h with
  | nil => exact List.Forall₂.nil
  | @cons a b A B hr _ ih =>
    exact List.Forall₂.cons (himp a b (List.mem_cons_self ..) hr)
      (ih (fun a' b' ha' => himp a' b' (List.mem_cons_of_mem _ ha')))

theorem zip_flatMap_perm : ∀ (Z : List (DSig × List DSig)),
    (Z.flatMap (fun p => p.1 :: p.2)).Perm (Z.map (·.1) ++ (Z.map (·.2)).flatten)
  | [] => List.Perm.refl _
  | (a, b) :: Z => by
    simp only [List.flatMap_cons, List.map_cons, List.flatten_cons, List.cons_append]
    refine List.Perm.cons a ?_
    have ih := zip_flatMap_perm Z
    refine (List.Perm.append_left b ih).trans ?_
    rw [← List.append_assoc, ← List.append_assoc]
    exact List.Perm.append_right _ List.perm_append_comm

theorem importMany_case (cap : Int) (exts : List DExt) (muxes sorted : List DSig) (top' : List Item)
    (nested' : List MuxNode)
    (h : importMany cap exts muxes sorted = .ok (top', nested')) (hcap : 0 ≤ cap)
    (hmuxes : muxes = sorted.filter (·.isMultiplexor)) :
    TopInv cap top' ∧ (∀ n ∈ nested', MuxWF n) ∧ (∀ n ∈ nested', LinkOK nested' n) ∧
    (∀ n, Item.mux n ∈ top' → LinkOK nested' n) ∧ (∀ x ∈ muxes, 1 ≤ x.size) ∧
    ((∀ s ∈ sorted, isMuxName muxes s = s.isMultiplexor) → nested' = [] →
      Matching exts sorted (entriesOf top')) := by
  unfold importMany at h
  split at h
  · cases h
  · rename_i top1 groups hsplit
    obtain ⟨hinv1, hlen, hp1, hg, hpos⟩ := splitMany_spec cap exts muxes sorted [] _ top1 groups hsplit
      (by simp) (topInv_nil cap hcap)
    simp only [List.flatten_replicate_nil, List.append_nil] at hg hp1
    -- members of the work list
    have hwork : ∀ w ∈ ((muxes.zip groups).zipIdx.reverse), w.1.1 ∈ muxes ∧ ∀ k ∈ w.1.2, k ∈ groups.flatten := by
      intro w hw
      rw [List.mem_reverse] at hw
      have h1 : w.1 ∈ muxes.zip groups := by
        have : w.1 ∈ ((muxes.zip groups).zipIdx).map Prod.fst := List.mem_map.2 ⟨w, hw, rfl⟩
        rwa [List.zipIdx_map_fst] at this
      have h2 := List.of_mem_zip (a := w.1.1) (b := w.1.2) h1
      exact ⟨h2.1, fun k hk => List.mem_flatten.2 ⟨w.1.2, h2.2, hk⟩⟩
    have hgmem : ∀ k ∈ groups.flatten, k ∈ sorted ∧ isMuxName muxes k = false := by
      intro k hk
      have := (hg.mem_iff).1 hk
      obtain ⟨h1, h2⟩ := List.mem_filter.1 this
      simp only [Bool.and_eq_true, Bool.not_eq_true'] at h2
      exact ⟨h1, h2.1⟩
    have hkpos : ∀ w ∈ ((muxes.zip groups).zipIdx.reverse), ∀ k ∈ w.1.2, 0 < k.size := by
      intro w hw k hk
      obtain ⟨h1, h2⟩ := hgmem k ((hwork w hw).2 k hk)
      exact hpos k h1 h2
    have hwok : WorkOK ((muxes.zip groups).zipIdx.reverse) := by
      refine ⟨?_, ?_⟩
      · intro w hw
        have := (hwork w hw).1
        rw [hmuxes] at this
        exact (List.mem_filter.1 this).2
      · intro w hw k hk
        refine ⟨hkpos w hw k hk, ?_⟩
        obtain ⟨h1, h2⟩ := hgmem k ((hwork w hw).2 k hk)
        cases hb : k.isMultiplexor
        · rfl
        · exfalso
          have hkm : k ∈ muxes := by rw [hmuxes]; exact List.mem_filter.2 ⟨h1, hb⟩
          have : isMuxName muxes k = true := List.any_eq_true.2 ⟨k, hkm, by simp⟩
          rw [h2] at this; cases this
    obtain ⟨hinv', hnwf, hnlink, htlink, hsel⟩ := placeMuxes_wf cap exts muxes _ top1 [] [] top' nested' h hinv1
      ⟨fun n hn => (by cases hn), fun n hn => (by cases hn), fun p hp => (by cases hp)⟩
      (fun n hn => by
        -- the items inserted by the first loop are leaves
        have := (hp1.mem_iff).1 hn
        obtain ⟨s, _, hs'⟩ := List.mem_map.1 this
        cases hs') hwok
    have hselM : ∀ x ∈ muxes, 1 ≤ x.size := by
      intro x hx
      have hx' : x ∈ (muxes.zip groups).map Prod.fst := by rw [List.map_fst_zip (by omega)]; exact hx
      obtain ⟨p, hp, rfl⟩ := List.mem_map.1 hx'
      have hp' : p ∈ ((muxes.zip groups).zipIdx).map Prod.fst := by rw [List.zipIdx_map_fst]; exact hp
      obtain ⟨w, hw, rfl⟩ := List.mem_map.1 hp'
      exact hsel w (List.mem_reverse.2 hw)
    refine ⟨hinv', hnwf, hnlink, htlink, hselM, fun hnames hnil => ?_⟩
    have hflatW := (placeMuxes_length cap exts muxes _ top1 [] [] top' nested' h).2 (by rw [hnil])
    obtain ⟨_, ns, hp', hfa⟩ := placeMuxes_flat cap exts muxes _ top1 [] top' nested' h hflatW
    -- per multiplexor
    have hfa' : List.Forall₂ (fun w n => Matching exts (w.1.1 :: w.1.2) (itemEntries (.mux n)))
        ((muxes.zip groups).zipIdx.reverse) ns := by
      refine forall2_imp hfa ?_
      intro w n hw hmux
      obtain ⟨hm1, hm2⟩ := hwork w hw
      have hmx : w.1.1.isMultiplexor = true := by
        rw [hmuxes] at hm1
        exact (List.mem_filter.1 hm1).2
      refine (mux_matching exts w.1.1 w.1.2 n hmux (hkpos w hw) hmx ?_).2
      intro k hk
      obtain ⟨h1, h2⟩ := hgmem k (hm2 k hk)
      rw [← hnames k h1]; exact h2
    have hM := forall2_matching exts (fun w => w.1.1 :: w.1.2) _ _ hfa'
    let tops := sorted.filter (fun s => !isMuxName muxes s && !s.isMultiplexed)
    have htopmux : ∀ s ∈ tops, s.isMultiplexor = false := by
      intro s hs
      obtain ⟨h1, h2⟩ := List.mem_filter.1 hs
      simp only [Bool.and_eq_true, Bool.not_eq_true'] at h2
      rw [← hnames s h1]; exact h2.1
    have hM2 : Matching exts tops (entriesOf (tops.map leafOf)) := by
      rw [entriesOf_leaves]
      exact Matching.map tops leafEntry (fun s hs => leafEntry_rel exts s (htopmux s hs))
    have hall := Matching.append hM hM2
    have hE : (entriesOf (ns.map Item.mux) ++ entriesOf (tops.map leafOf)).Perm (entriesOf top') := by
      rw [← entriesOf_append]
      exact (entriesOf_perm (hp'.trans (List.Perm.append_left _ hp1))).symm
    -- the signals
    have hS : (((muxes.zip groups).zipIdx.reverse).flatMap (fun w => w.1.1 :: w.1.2) ++ tops).Perm sorted := by
      have e0 : (((muxes.zip groups).zipIdx.reverse).flatMap (fun w => w.1.1 :: w.1.2)).Perm
          ((muxes.zip groups).flatMap (fun p => p.1 :: p.2)) := by
        have : ((muxes.zip groups).zipIdx.reverse).flatMap (fun w => w.1.1 :: w.1.2) =
            (((muxes.zip groups).zipIdx.reverse).map Prod.fst).flatMap (fun p => p.1 :: p.2) := by
          rw [List.flatMap_map]
        rw [this, List.map_reverse, List.zipIdx_map_fst]
        exact (List.reverse_perm _).flatMap_right _
      have e1 := zip_flatMap_perm (muxes.zip groups)
      rw [List.map_fst_zip (by omega), List.map_snd_zip (by omega)] at e1
      have e2 : (sorted.filter (·.isMultiplexor) ++ sorted.filter (fun s => !s.isMultiplexor)).Perm sorted :=
        List.filter_append_perm _ _
      have hL : sorted.filter (fun s => !s.isMultiplexor) = sorted.filter (fun s => !isMuxName muxes s) := by
        apply List.filter_congr
        intro s hs
        rw [hnames s hs]
      have e3 : (sorted.filter (fun s => !isMuxName muxes s && s.isMultiplexed) ++ tops).Perm
          (sorted.filter (fun s => !s.isMultiplexor)) := by
        rw [hL]
        have := List.filter_append_perm (fun s : DSig => s.isMultiplexed) (sorted.filter (fun s => !isMuxName muxes s))
        rw [List.filter_filter, List.filter_filter] at this
        have c1 : sorted.filter (fun a => a.isMultiplexed && !isMuxName muxes a) =
            sorted.filter (fun s => !isMuxName muxes s && s.isMultiplexed) :=
          List.filter_congr (fun a _ => Bool.and_comm _ _)
        have c2 : sorted.filter (fun a => (!a.isMultiplexed) && !isMuxName muxes a) = tops :=
          List.filter_congr (fun a _ => Bool.and_comm _ _)
        rw [c1, c2] at this
        exact this
      have e4 : (muxes ++ groups.flatten ++ tops).Perm sorted := by
        rw [List.append_assoc, hmuxes]
        exact (List.Perm.append_left _ ((List.Perm.append_right _ hg).trans e3)).trans e2
      exact (List.Perm.append_right _ (e0.trans e1)).trans e4
    exact hall.perm hS hE

/-! ### `importMsg` -/

theorem sortBy_perm {α : Type} (key : α → Nat) : ∀ l : List α, (sortBy key l).Perm l
  | [] => List.Perm.refl _
  | x :: r => by
    have ins : ∀ l : List α, (insBy key x l).Perm (x :: l) := by
      intro l
      induction l with
      | nil => exact List.Perm.refl _
      | cons y r ih =>
        simp only [insBy]
        split
        · exact List.Perm.refl _
        · exact (List.Perm.cons y ih).trans (List.Perm.swap x y r)
    simp only [sortBy]
    exact (ins _).trans (List.Perm.cons x (sortBy_perm key r))

theorem sortSigs_perm (l : List DSig) : (sortSigs l).Perm l := sortBy_perm _ l

theorem except_map_ok {α β : Type} (f : α → β) (x : Except ImpErr α) (b : β)
    (h : x.map f = .ok b) : ∃ a, x = .ok a ∧ f a = b := by
  cases x with
  | error e => simp [Except.map] at h
  | ok a =>
    simp only [Except.map] at h
    injection h with h
    exact ⟨a, rfl, h⟩

/-- everything the three cases establish about an accepted import -/
theorem importMsg_ok (m : DMsg) (t : ITree) (h : importMsg m = .ok t) :
    t.id = m.id ∧ t.sizeByte = (m.size : Int) ∧ m.size ≤ 8 ∧ t.bigEndian = headBE (sortSigs m.sigs) ∧
    TopInv (8 * (m.size : Int)) t.top ∧ (m.sigs.map (·.name)).Nodup ∧ SelectorsOK m ∧
    (∀ n ∈ t.nested, MuxWF n) ∧ (∀ n ∈ t.nested, LinkOK t.nested n) ∧
    (∀ n, Item.mux n ∈ t.top → LinkOK t.nested n) ∧
    (t.nested = [] → Matching m.exts m.sigs (entries t)) := by
  unfold importMsg at h
  dsimp only at h
  split at h
  · cases h
  · rename_i hfirst
    split at h
    · cases h
    · rename_i hsize
      have hcap : (0 : Int) ≤ 8 * (m.size : Int) := by omega
      have hsort := sortSigs_perm m.sigs
      have hmemS : ∀ s, s ∈ sortSigs m.sigs ↔ s ∈ m.sigs := fun s => hsort.mem_iff
      have hnd : ((sortSigs m.sigs).map (·.name)).Nodup := (firstLoop_names _ _ _ [] hfirst).1
      have hinj : ∀ s ∈ sortSigs m.sigs, ∀ x ∈ sortSigs m.sigs, s.name = x.name → s = x :=
        fun s hs x hx hn => List.inj_on_of_nodup_map hnd hs hx hn
      have hndm : (m.sigs.map (·.name)).Nodup := ((hsort.map (·.name)).nodup_iff).1 hnd
      split at h
      · cases h
      · rename_i top nested hres
        injection h with h
        subst h
        refine ⟨rfl, rfl, by omega, rfl, ?_⟩
        split at hres
        · -- no multiplexor
          rename_i hmux
          obtain ⟨top0, hp, hpair⟩ := except_map_ok _ _ _ hres
          injection hpair with e1 e2
          subst e1; subst e2
          obtain ⟨hinv, hm⟩ := importPlain_case m.exts _ _ top0 hp hcap
          have hnomux : ∀ s ∈ sortSigs m.sigs, s.isMultiplexor = false := by
            intro s hs
            cases hb : s.isMultiplexor
            · rfl
            · have : s ∈ (sortSigs m.sigs).filter (·.isMultiplexor) := List.mem_filter.2 ⟨hs, hb⟩
              rw [hmux] at this
              cases this
          refine ⟨hinv, hndm, ?_, fun n hn => (by cases hn), fun n hn => (by cases hn), ?_, fun _ => ?_⟩
          · intro s hs hb
            rw [hnomux s ((hmemS s).2 hs)] at hb; cases hb
          · intro n hn
            obtain ⟨_, hpp⟩ := importPlain_spec _ _ [] top0 hp (topInv_nil _ hcap)
            have := (hpp.mem_iff).1 hn
            rw [List.append_nil] at this
            obtain ⟨s, _, hs'⟩ := List.mem_map.1 this
            cases hs'
          · exact (hm hnomux).perm hsort (List.Perm.refl _)
        · -- one multiplexor
          rename_i mx hmux
          obtain ⟨top0, hp, hpair⟩ := except_map_ok _ _ _ hres
          injection hpair with e1 e2
          subst e1; subst e2
          obtain ⟨hinv, hm⟩ := importOne_case _ m.exts mx _ top0 hp hcap
          obtain ⟨hsel, hflat⟩ := importOne_flat _ m.exts mx _ top0 hp hcap hmux
          have hmxmem : mx ∈ (sortSigs m.sigs).filter (·.isMultiplexor) := by
            rw [hmux]; exact List.mem_singleton.2 rfl
          obtain ⟨hmx1, hmx2⟩ := List.mem_filter.1 hmxmem
          refine ⟨hinv, hndm, ?_, fun n hn => (by cases hn), fun n hn => (by cases hn), ?_, fun _ => ?_⟩
          · intro s hs hb
            have : s ∈ (sortSigs m.sigs).filter (·.isMultiplexor) := List.mem_filter.2 ⟨(hmemS s).2 hs, hb⟩
            rw [hmux, List.mem_singleton] at this
            rw [this]; exact hsel
          · intro n hn c hc hcm
            rw [hflat n hn c hc] at hcm; cases hcm
          · refine (hm ?_ hmux).perm hsort (List.Perm.refl _)
            intro s hs
            cases hb : s.isMultiplexor
            · cases hn : (s.name == mx.name)
              · rfl
              · have := hinj s hs mx hmx1 (by simpa using hn)
                rw [this, hmx2] at hb; cases hb
            · have : s ∈ (sortSigs m.sigs).filter (·.isMultiplexor) := List.mem_filter.2 ⟨hs, hb⟩
              rw [hmux, List.mem_singleton] at this
              subst this
              simp
        · -- several multiplexors
          obtain ⟨hinv, hnwf, hnlink, htlink, hsel, hm⟩ := importMany_case _ m.exts _ _ top nested hres hcap rfl
          refine ⟨hinv, hndm, ?_, hnwf, hnlink, htlink, fun hnil => ?_⟩
          · intro s hs hb
            exact hsel s (List.mem_filter.2 ⟨(hmemS s).2 hs, hb⟩)
          · have h1 : ∀ s ∈ sortSigs m.sigs,
                isMuxName ((sortSigs m.sigs).filter (·.isMultiplexor)) s = s.isMultiplexor := by
              intro s hs
              cases hb : s.isMultiplexor
              · cases hn : isMuxName ((sortSigs m.sigs).filter (·.isMultiplexor)) s
                · rfl
                · obtain ⟨x, hx, hxn⟩ := List.any_eq_true.1 hn
                  obtain ⟨hx1, hx2⟩ := List.mem_filter.1 hx
                  have := hinj s hs x hx1 (by have := hxn; simp at this; exact this.symm)
                  rw [this, hx2] at hb; cases hb
              · apply List.any_eq_true.2
                exact ⟨s, List.mem_filter.2 ⟨hs, hb⟩, by simp⟩
            exact (hm h1 hnil).perm hsort (List.Perm.refl _)

/-- in an accepted import every multiplexor has at least one bit -/
theorem importMsg_selectors (m : DMsg) (t : ITree) (h : importMsg m = .ok t) : SelectorsOK m :=
  (importMsg_ok m t h).2.2.2.2.2.2.1

/-- in an accepted import no other signal carries the name of a multiplexor -/
theorem importMsg_muxNames (m : DMsg) (t : ITree) (h : importMsg m = .ok t) : MuxNamesOK m := by
  have hnd := (importMsg_ok m t h).2.2.2.2.2.1
  intro s hs x hx hmux hn
  have := List.inj_on_of_nodup_map hnd hs hx hn
  rw [this]; exact hmux

end Acme.Import
