/-
The generated exporter against the hand model, part 3: the bookkeeping model `bk1` / `bk2` of
part 2, run over the groups of a multiplexer whose children have different names, computes what
the hand model `exportMuxN` uses: the children in the order of `walkGroups`, `idsOfName` for every
name, `isExtended`, `nestedMux`, and the signals / entries of `exportKidsN`.
-/
import Acme.Proofs.GenExporter2

namespace Acme.GenX
open Acme.Import Acme.XSem Acme.Conv Acme.Gen Acme.GoSem

/-- `exportKidsN` with the result of every child given by `out` (switch values through `uint32`) -/
def kidsAcc (out : Child → List DSig × List DExt) : List (Child × Int) → List DSig → List DExt → List DSig × List DExt
  | [], sigs, exts => (sigs, exts)
  | (c, id) :: r, sigs, exts => kidsAcc out r (patchLast (u32 id) (sigs ++ (out c).1)) (exts ++ (out c).2)

theorem kidsAcc_append (out : Child → List DSig × List DExt) : ∀ (a b : List (Child × Int)) (sigs : List DSig) (exts : List DExt),
    kidsAcc out (a ++ b) sigs exts = kidsAcc out b (kidsAcc out a sigs exts).1 (kidsAcc out a sigs exts).2
  | [], _, _, _ => rfl
  | (c, id) :: a, b, sigs, exts => by
    simp only [List.cons_append, kidsAcc]
    exact kidsAcc_append out a b _ _

theorem any_congr_mem {α : Type} {f g : α → Bool} : ∀ {l : List α}, (∀ x ∈ l, f x = g x) → l.any f = l.any g
  | [], _ => rfl
  | x :: r, h => by
    simp only [List.any_cons]
    rw [h x (List.mem_cons_self ..), any_congr_mem (fun y hy => h y (List.mem_cons_of_mem _ hy))]

/-- the invariant of the walk; `cur a` = the ids of the groups walked so far that hold a signal named `a` -/
structure BInv (cs : List Child) (muxed : Bool) (h0 : List DSig) (out : Child → List DSig × List DExt)
    (s : BK) (cur : String → List Int) : Prop where
  si : SeenInv cs s.seen
  rep : ∀ a, mapGet2 s.m a [] = (cur a, !(cur a).isEmpty)
  key : ∀ a, s.seen.any (fun p => p.1.name == a) = !(cur a).isEmpty
  e : s.e = s.seen.any (fun q => decide (2 ≤ (cur q.1.name).length))
  nm : s.nm = (muxed || s.seen.any (fun q => q.1.isMux))
  acc : kidsAcc out s.seen h0 [] = (s.sigs, s.exts)

section
variable {cs : List Child} {muxed : Bool} {h0 : List DSig} {out : Child → List DSig × List DExt}

theorem not_seen_of_cur_nil {s : BK} {cur : String → List Int} (inv : BInv cs muxed h0 out s cur)
    {a : String} (h : cur a = []) : ∀ p ∈ s.seen, p.1.name ≠ a := by
  have := inv.key a
  rw [h] at this
  simp only [List.isEmpty_nil, Bool.not_true] at this
  intro p hp hn
  have h2 := List.any_eq_false.1 this p hp
  simp [hn] at h2

theorem seen_of_cur_ne {s : BK} {cur : String → List Int} (inv : BInv cs muxed h0 out s cur)
    {a : String} (h : cur a ≠ []) : ∃ p ∈ s.seen, p.1.name = a := by
  have := inv.key a
  have h1 : (cur a).isEmpty = false := by
    cases hc : cur a with
    | nil => exact absurd hc h
    | cons _ _ => rfl
  rw [h1] at this
  obtain ⟨p, hp, hn⟩ := List.any_eq_true.1 this
  exact ⟨p, hp, by simpa using hn⟩

theorem step_new (k : Int) {s : BK} {cur : String → List Int} (inv : BInv cs muxed h0 out s cur)
    {c : Child} (hc : c ∈ cs) (hcur : cur c.name = []) :
    BInv cs muxed h0 out
      { s with nm := (if c.isMux = true then true else s.nm), seen := s.seen ++ [(c, k)],
               m := mapSet s.m c.name [k],
               sigs := patchLast (u32 k) (s.sigs ++ (out c).1), exts := s.exts ++ (out c).2 }
      (fun a => if a = c.name then cur a ++ [k] else cur a) := by
  have hnot := not_seen_of_cur_nil inv hcur
  refine ⟨⟨?_, ?_⟩, ?_, ?_, ?_, ?_, ?_⟩
  · intro p hp
    rcases List.mem_append.1 hp with h | h
    · exact inv.si.sub p h
    · rw [List.mem_singleton] at h; subst h; exact hc
  · show ((s.seen ++ [(c, k)]).map (fun p => p.1.name)).Nodup
    rw [List.map_append, List.nodup_append]
    refine ⟨inv.si.nodup, by simp, ?_⟩
    intro a ha b hb hab
    simp only [List.map_cons, List.map_nil, List.mem_singleton] at hb
    obtain ⟨p, hp, rfl⟩ := List.mem_map.1 ha
    exact hnot p hp (hab.trans hb)
  · intro a
    show mapGet2 (mapSet s.m c.name [k]) a [] = _
    rw [mapGet2_mapSet]
    by_cases h : a = c.name
    · subst h; simp [hcur]
    · simp only [h, if_false]; exact inv.rep a
  · intro a
    show (s.seen ++ [(c, k)]).any (fun p => p.1.name == a) = _
    rw [List.any_append, inv.key a]
    by_cases h : a = c.name
    · subst h; simp [hcur]
    · have : ¬ c.name = a := fun e => h e.symm
      simp [h, this]
  · show s.e = (s.seen ++ [(c, k)]).any _
    rw [List.any_append, inv.e]
    have h1 : s.seen.any (fun q => decide (2 ≤ (if q.1.name = c.name then cur q.1.name ++ [k] else cur q.1.name).length))
        = s.seen.any (fun q => decide (2 ≤ (cur q.1.name).length)) := by
      apply any_congr_mem
      intro q hq
      simp only [hnot q hq, if_false]
    rw [h1]
    simp [hcur]
  · show (if c.isMux = true then true else s.nm) = (muxed || (s.seen ++ [(c, k)]).any (fun q => q.1.isMux))
    rw [List.any_append, inv.nm]
    cases h : c.isMux <;> simp [h]
  · show kidsAcc out (s.seen ++ [(c, k)]) h0 [] = _
    rw [kidsAcc_append, inv.acc]
    rfl

theorem step_old (hinj : (cs.map (·.name)).Nodup) (k : Int) {s : BK} {cur : String → List Int}
    (inv : BInv cs muxed h0 out s cur) {c : Child} (hc : c ∈ cs) (hcur : cur c.name ≠ []) :
    BInv cs muxed h0 out
      { s with e := true, nm := (if c.isMux = true then true else s.nm),
               m := mapSet s.m c.name (cur c.name ++ [k]) }
      (fun a => if a = c.name then cur a ++ [k] else cur a) := by
  obtain ⟨p, hp, hpn⟩ := seen_of_cur_ne inv hcur
  have hpc : p.1 = c := name_inj hinj (inv.si.sub p hp) hc hpn
  have hemp : (cur c.name).isEmpty = false := by
    cases hcc : cur c.name with
    | nil => exact absurd hcc hcur
    | cons _ _ => rfl
  refine ⟨inv.si, ?_, ?_, ?_, ?_, inv.acc⟩
  · intro a
    show mapGet2 (mapSet s.m c.name (cur c.name ++ [k])) a [] = _
    rw [mapGet2_mapSet]
    by_cases h : a = c.name
    · subst h; simp
    · simp only [h, if_false]; exact inv.rep a
  · intro a
    show s.seen.any (fun p => p.1.name == a) = _
    rw [inv.key a]
    by_cases h : a = c.name
    · subst h; simp [hemp]
    · simp [h]
  · show true = s.seen.any _
    symm
    apply List.any_eq_true.2
    refine ⟨p, hp, ?_⟩
    have : 1 ≤ (cur c.name).length := by
      cases hcc : cur c.name with
      | nil => exact absurd hcc hcur
      | cons _ _ => simp
    simp only [hpn, if_true, List.length_append, List.length_cons, List.length_nil, decide_eq_true_eq]
    omega
  · show (if c.isMux = true then true else s.nm) = (muxed || s.seen.any (fun q => q.1.isMux))
    rw [inv.nm]
    cases h : c.isMux
    · simp
    · have : s.seen.any (fun q => q.1.isMux) = true := List.any_eq_true.2 ⟨p, hp, by rw [hpc]; exact h⟩
      simp [this]

theorem BInv.congr {s : BK} {cur cur' : String → List Int} (inv : BInv cs muxed h0 out s cur)
    (h : ∀ a, cur a = cur' a) : BInv cs muxed h0 out s cur' := by
  have : cur = cur' := funext h
  subst this
  exact inv

/-- one group -/
theorem bk2_inv (hinj : (cs.map (·.name)).Nodup) (k : Int) :
    ∀ (g : List Child) (s : BK) (cur : String → List Int), (∀ c ∈ g, c ∈ cs) → (g.map (·.name)).Nodup →
      BInv cs muxed h0 out s cur →
      BInv cs muxed h0 out (bk2 out k g s) (fun a => cur a ++ if g.any (fun c => c.name == a) then [k] else []) ∧
      (bk2 out k g s).seen = walkGroup k g s.seen
  | [], s, cur, _, _, inv => ⟨inv.congr (by intro a; simp), rfl⟩
  | c :: r, s, cur, hg, hnd, inv => by
    have hc : c ∈ cs := hg c (List.mem_cons_self ..)
    have hr : ∀ x ∈ r, x ∈ cs := fun x hx => hg x (List.mem_cons_of_mem _ hx)
    rw [List.map_cons, List.nodup_cons] at hnd
    have hcr : r.any (fun x => x.name == c.name) = false := by
      apply List.any_eq_false.2
      intro x hx hn
      exact hnd.1 (List.mem_map.2 ⟨x, hx, by simpa using hn⟩)
    have hrep := inv.rep c.name
    have hkey := inv.key c.name
    unfold bk2 walkGroup
    by_cases hcur : cur c.name = []
    · rw [hcur] at hrep hkey
      simp only [List.isEmpty_nil, Bool.not_true] at hrep hkey
      simp only [hrep, hkey, List.length_nil, Int.natCast_zero, if_true, Bool.false_eq_true, not_false_eq_true, if_false]
      obtain ⟨i1, i2⟩ := bk2_inv hinj k r _ _ hr hnd.2 (step_new k inv hc hcur)
      refine ⟨i1.congr ?_, i2⟩
      intro a
      by_cases h : a = c.name
      · subst h; simp [hcr]
      · have : ¬ c.name = a := fun e => h e.symm
        simp [h, this]
    · have hemp : (cur c.name).isEmpty = false := by
        cases hcc : cur c.name with
        | nil => exact absurd hcc hcur
        | cons _ _ => rfl
      have hlen : ¬ (((cur c.name).length : Int) = 0) := by
        cases hcc : cur c.name with
        | nil => exact absurd hcc hcur
        | cons _ _ => simp; omega
      rw [hemp] at hrep hkey
      simp only [Bool.not_false] at hrep hkey
      simp only [hrep, hkey, hlen, mapGet, if_true, not_true_eq_false, if_false]
      obtain ⟨i1, i2⟩ := bk2_inv hinj k r _ _ hr hnd.2 (step_old hinj k inv hc hcur)
      refine ⟨i1.congr ?_, i2⟩
      intro a
      by_cases h : a = c.name
      · subst h; simp [hcr]
      · have : ¬ c.name = a := fun e => h e.symm
        simp [h, this]

/-- the ids of the groups `< k` that hold a signal named `a` -/
def idsUpTo (cs : List Child) (k : Nat) (a : String) : List Int :=
  ((List.range k).filter (fun (j : Nat) => (groupOf cs (j : Int)).any (fun c => c.name == a))).map (fun (j : Nat) => (j : Int))

theorem idsUpTo_succ (cs : List Child) (k : Nat) (a : String) :
    idsUpTo cs (k + 1) a = idsUpTo cs k a ++ if (groupOf cs (k : Int)).any (fun c => c.name == a) then [(k : Int)] else [] := by
  unfold idsUpTo
  rw [List.range_succ, List.filter_append, List.map_append]
  congr 1
  by_cases h : (groupOf cs (k : Int)).any (fun c => c.name == a) = true
  · simp [h]
  · simp [h]

theorem groupOf_sub (cs : List Child) (k : Int) : ∀ c ∈ groupOf cs k, c ∈ cs :=
  fun c hc => ((mem_groupOf cs k c).1 hc).1

theorem groupOf_nodup (hinj : (cs.map (·.name)).Nodup) (k : Int) : ((groupOf cs k).map (·.name)).Nodup := by
  have hp := (groupOf_perm cs k).map (·.name)
  rw [hp.nodup_iff]
  exact hinj.sublist (List.filter_sublist.map _)

/-- the groups `k … k+n-1` -/
theorem bk1_inv (hinj : (cs.map (·.name)).Nodup) :
    ∀ (n k : Nat) (s : BK), BInv cs muxed h0 out s (idsUpTo cs k) →
      BInv cs muxed h0 out (bk1 out ((List.range' k n).map (fun (j : Nat) => groupOf cs (j : Int))) (k : Int) s)
        (idsUpTo cs (k + n)) ∧
      (bk1 out ((List.range' k n).map (fun (j : Nat) => groupOf cs (j : Int))) (k : Int) s).seen
        = walkGroups cs (List.range' k n) s.seen
  | 0, k, s, inv => ⟨inv, rfl⟩
  | n + 1, k, s, inv => by
    rw [List.range'_succ, List.map_cons]
    unfold bk1 walkGroups
    obtain ⟨i1, i2⟩ := bk2_inv hinj (k : Int) (groupOf cs (k : Int)) s _ (groupOf_sub cs _) (groupOf_nodup hinj _) inv
    have i1' : BInv cs muxed h0 out (bk2 out (k : Int) (groupOf cs (k : Int)) s) (idsUpTo cs (k + 1)) :=
      i1.congr (fun a => (idsUpTo_succ cs k a).symm)
    have hk : ((k : Nat) : Int) + 1 = ((k + 1 : Nat) : Int) := by omega
    rw [hk, ← i2]
    have := bk1_inv hinj n (k + 1) _ i1'
    rw [show k + 1 + n = k + (n + 1) by omega] at this
    exact this

end

end Acme.GenX
