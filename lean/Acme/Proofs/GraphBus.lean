/-
`Inv` is preserved by the bus ↔ interface operations: busAddIface, busRemoveIface,
busRemoveAllIfaces.
-/
import Acme.Proofs.GraphSent

namespace Acme.Graph

theorem ifaceNode_of_bus {I : AMap IfaceE} {j b : Nat} (h : ifaceBus I j = some b) : ∃ nd, ifaceNode I j = some nd := by
  cases hh : I.get j with
  | none => rw [ifaceBus_of_none hh] at h; cases h
  | some e => exact ⟨e.node, ifaceNode_of_get hh⟩

/-- the values of a bus's `nodeInts` registry are exactly the interfaces attached to it -/
theorem BusI.mem_vals {B : AMap BusE} {I : AMap IfaceE} {D : AMap NodeE} (h : BusI B I D) {b : Nat} {bus : BusE}
    (hb : B.get b = some bus) (j : Nat) : j ∈ bus.nodeInts.vals ↔ ifaceBus I j = some b := by
  have s0 : busNodeInts B b = bus.nodeInts := busNodeInts_of_get hb
  rw [← s0, Reg.mem_vals (h.ints_nodup b)]
  constructor
  · rintro ⟨k, hk⟩; exact (h.i1 hk).2
  · intro hp
    obtain ⟨nd, hnd⟩ := ifaceNode_of_bus hp
    exact ⟨nd, h.i2 hnd hp⟩

set_option maxHeartbeats 1000000 in
theorem stepBusRemoveAllIfaces_inv {g : G} (h : Inv g) (b : Nat) : Inv (stepBusRemoveAllIfaces g b).1 := by
  unfold stepBusRemoveAllIfaces
  try dsimp only
  repeat' split
  all_goals first | exact h | skip
  rename_i _ bus hb
  have hv := h.bus.mem_vals hb
  generalize bus.nodeInts.vals = js at hv
  inv_norm
  inv_split
  case net => g_net h [hb]
  case builder => g_builder h [hb]
  case typ => exact h.typ
  case unit => exact h.unit
  case node => g_node h [hb]
  case bus => g_bus h [hb]
  case static => g_static h [hb]
  case sent => g_sent h [hb]
  case recv => g_recv h [hb]
  case attr => g_attr h [hb]
set_option maxHeartbeats 1000000 in
theorem busRemoveIfaceCore_inv {g : G} (h : Inv g) (b nodeId : Nat) : Inv (busRemoveIfaceCore g b nodeId).1 := by
  unfold busRemoveIfaceCore
  try dsimp only
  repeat' split
  all_goals first | exact h | skip
  rename_i _ bus hb _ i hni _ ifc hi
  have e0 := busNodeInts_of_get hb
  have s0 : (busNodeInts g.buses b).get nodeId = some i := by rw [e0]; exact hni
  have s1 := h.bus.i1 s0
  have s2 : ifc.node = nodeId := by
    have := s1.1; rw [ifaceNode_of_get hi] at this; exact Option.some.inj this
  subst s2
  have s3 := h.bus.n2 s0
  have s4 := h.bus.d2 s0
  have hv := h.sent.mem_vals hi
  have hk := mem_staticOf_keys g ifc.sent.vals
  simp only [nodeName_eq, nodeNid_eq]
  generalize ifc.sent.vals = ms at hv hk
  generalize (staticOf g ms).map (·.1) = ks at hk
  have e1 := busNodeNames_of_get hb
  have e2 := busNodeIDs_of_get hb
  have e3 := busStaticIDs_of_get hb
  inv_norm
  inv_split
  case net => g_net h [hb, hi]
  case builder => g_builder h [hb, hi]
  case typ => exact h.typ
  case unit => exact h.unit
  case node => g_node h [hb, hi]
  case bus =>
    o_bus h
    refine ⟨?_, ?_, ?_, ?_, ?_, ?_⟩
    all_goals inv_field [hb, hi]
  case static =>
    o_static h
    refine ⟨?_, ?_⟩
    · intro b'; views_simp; split
      · exact removeKeys_nodup (e3 ▸ st_n b) ks
      · exact st_n b'
    · intro b'
      views_simp
      have hst : ∀ k x, (busStaticIDs g.buses b').get k = some x ↔
          (msgStatic g.msgs x = some k ∧ ∃ j, msgSender g.msgs x = some j ∧ ifaceBus g.ifaces j = some b') := st_g b'
      split
      · rename_i hbb; subst hbb
        rw [← e3]
        refine idx_removeKeys hst ?_
        intro k x
        constructor
        · rintro ⟨hs, j, hj, hjb⟩
          have hji : j ≠ i := by intro e; subst e; simp at hjb
          simp only [hji, ↓reduceIte] at hjb
          refine ⟨?_, hs, j, hj, hjb⟩
          intro hkk
          obtain ⟨m', hm', hs'⟩ := (hk k).1 hkk
          have h1 := (hst k x).2 ⟨hs, j, hj, hjb⟩
          have h2 := (hst k m').2 ⟨hs', i, (hv m').1 hm', s1.2⟩
          rw [h1] at h2
          have : x = m' := Option.some.inj h2
          subst this
          have := (hv x).1 hm'; rw [hj] at this; exact hji (Option.some.inj this)
        · rintro ⟨hkn, hs, j, hj, hjb⟩
          have hji : j ≠ i := by
            intro e; subst e
            exact hkn ((hk k).2 ⟨x, (hv x).2 hj, hs⟩)
          exact ⟨hs, j, hj, by simp only [hji, ↓reduceIte]; exact hjb⟩
      · rename_i hbb
        refine idx_congr hst ?_
        intro k x
        constructor
        · rintro ⟨hs, j, hj, hjb⟩
          have hji : j ≠ i := by intro e; subst e; simp at hjb
          simp only [hji, ↓reduceIte] at hjb
          exact ⟨hs, j, hj, hjb⟩
        · rintro ⟨hs, j, hj, hjb⟩
          have hji : j ≠ i := by
            intro e; subst e
            rw [s1.2] at hjb; exact hbb (Option.some.inj hjb).symm
          exact ⟨hs, j, hj, by simp only [hji, ↓reduceIte]; exact hjb⟩
  case sent => g_sent h [hb, hi]
  case recv => g_recv h [hb, hi]
  case attr => g_attr h [hb, hi]

theorem stepBusRemoveIface_inv {g : G} (h : Inv g) (b nodeId : Nat) : Inv (stepBusRemoveIface g b nodeId).1 :=
  busRemoveIfaceCore_inv h b nodeId

set_option maxHeartbeats 1000000 in
theorem busAddIface_core {g : G} (h : Inv g) {b i : Nat} {bus : BusE} {ifc : IfaceE}
    (hb : g.buses.get b = some bus) (hi : g.ifaces.get i = some ifc)
    (hpb : ifc.parentBus = none)
    (hnm : bus.nodeNames.get (nodeNameC g.nodes ifc.node) = none)
    (hid : bus.nodeIDs.get (nodeNidC g.nodes ifc.node) = none)
    (hclash : ∀ p, p ∈ staticOf g ifc.sent.vals → bus.staticIDs.get p.1 = none)
    (hlive : i ∈ nodeIfaces g.nodes ifc.node) :
    Inv { g with buses := g.buses.set b { bus with staticIDs := addAll bus.staticIDs (staticOf g ifc.sent.vals),
                                                   nodeInts := bus.nodeInts.add ifc.node i,
                                                   nodeNames := bus.nodeNames.add (nodeNameC g.nodes ifc.node) ifc.node,
                                                   nodeIDs := bus.nodeIDs.add (nodeNidC g.nodes ifc.node) ifc.node },
                 ifaces := g.ifaces.set i { ifc with parentBus := some b } } := by
  have e0 := busNodeInts_of_get hb
  have e1 := busNodeNames_of_get hb
  have e2 := busNodeIDs_of_get hb
  have e3 := busStaticIDs_of_get hb
  have s1 : ifaceNode g.ifaces i = some ifc.node := ifaceNode_of_get hi
  have s2 : ifaceBus g.ifaces i = none := by rw [ifaceBus_of_get hi]; exact hpb
  -- the node is not on the bus yet (its name would be indexed)
  have s3 : (busNodeInts g.buses b).get ifc.node = none := by
    cases hh : (busNodeInts g.buses b).get ifc.node with
    | none => rfl
    | some j => have := h.bus.n2 hh; rw [e1, hnm] at this; cases this
  have hv := h.sent.mem_vals hi
  have hst := mem_staticOf g ifc.sent.vals
  generalize ifc.sent.vals = ms at hv hst hclash
  inv_split
  case net => g_net h [hb, hi]
  case builder => g_builder h [hb, hi]
  case typ => exact h.typ
  case unit => exact h.unit
  case node => g_node h [hb, hi]
  case bus =>
    o_bus h
    refine ⟨?_, ?_, ?_, ?_, ?_, ?_⟩
    all_goals inv_field [hb, hi]
  case static =>
    o_static h
    refine ⟨?_, ?_⟩
    · intro b'; views_simp; split
      · rename_i hbb; subst hbb; exact addAll_nodup (e3 ▸ st_n b') _
      · exact st_n b'
    · intro b'
      views_simp
      have hold : ∀ k x, (busStaticIDs g.buses b').get k = some x ↔
          (msgStatic g.msgs x = some k ∧ ∃ j, msgSender g.msgs x = some j ∧ ifaceBus g.ifaces j = some b') := st_g b'
      split
      · rename_i hbb; subst hbb
        rw [← e3]
        have hfun : ∀ k v v', (k, v) ∈ staticOf g ms → (k, v') ∈ staticOf g ms → v = v' := by
          intro k v v' h1 h2
          have a1 := (hst k v).1 h1
          have a2 := (hst k v').1 h2
          have b1 := h.sent.t2 ((hv v).1 a1.1) a1.2
          have b2 := h.sent.t2 ((hv v').1 a2.1) a2.2
          rw [b1] at b2; exact Option.some.inj b2
        intro k x
        rw [addAll_get hfun]
        constructor
        · rintro (hm | ⟨_, hr⟩)
          · have a1 := (hst k x).1 hm
            exact ⟨a1.2, i, (hv x).1 a1.1, by simp⟩
          · obtain ⟨hs, j, hj, hjb⟩ := (hold k x).1 hr
            have hji : j ≠ i := by intro e; subst e; rw [s2] at hjb; cases hjb
            exact ⟨hs, j, hj, by simp only [hji, ↓reduceIte]; exact hjb⟩
        · rintro ⟨hs, j, hj, hjb⟩
          by_cases hji : j = i
          · subst hji
            left; exact (hst k x).2 ⟨(hv x).2 hj, hs⟩
          · simp only [hji, ↓reduceIte] at hjb
            right
            have hr := (hold k x).2 ⟨hs, j, hj, hjb⟩
            refine ⟨?_, hr⟩
            intro v' hv'
            have := hclash (k, v') hv'
            rw [← e3] at this
            simp only at this
            rw [hr] at this; cases this
      · rename_i hbb
        refine idx_congr hold ?_
        intro k x
        constructor
        · rintro ⟨hs, j, hj, hjb⟩
          have hji : j ≠ i := by
            intro e; subst e
            simp only [↓reduceIte, Option.some.injEq] at hjb
            exact hbb hjb.symm
          simp only [hji, ↓reduceIte] at hjb
          exact ⟨hs, j, hj, hjb⟩
        · rintro ⟨hs, j, hj, hjb⟩
          have hji : j ≠ i := by intro e; subst e; rw [s2] at hjb; cases hjb
          exact ⟨hs, j, hj, by simp only [hji, ↓reduceIte]; exact hjb⟩
  case sent => g_sent h [hb, hi]
  case recv => g_recv h [hb, hi]
  case attr => g_attr h [hb, hi]

theorem stepBusAddIface_inv {g : G} (h : Inv g) (b i : Nat)
    (hlive : ∀ n, ifaceNode g.ifaces i = some n → i ∈ nodeIfaces g.nodes n) : Inv (stepBusAddIface g b i).1 := by
  unfold stepBusAddIface
  try dsimp only
  repeat' split
  all_goals first | exact h | skip
  rename_i _ bus hb _ ifc hi hpb hnm hid hdbl hbig hclash
  simp only [nodeName_eq, nodeNid_eq] at hnm hid ⊢
  refine busAddIface_core h hb hi ?_ ?_ ?_ ?_ (hlive _ (ifaceNode_of_get hi))
  · cases hh : ifc.parentBus with
    | none => rfl
    | some x => simp [hh] at hpb
  · simpa using hnm
  · simpa using hid
  · intro p hp
    have := hclash
    simp only [Bool.not_eq_true, List.any_eq_false] at this
    simpa using this p hp

end Acme.Graph
