/-
Round trip of a whole network: `load (save n) = ok (norm n)`.
-/
import Acme.Proofs.SaveMsg

namespace Acme.Save
open List

/-! ## builders and nodes -/

theorem loadBuilder_saveBuilder (b : Builder)
    (h : ∀ o ∈ b.ops, o.kind ≤ 3 ∧ fits32 o.from = true ∧ fits32 o.len = true) :
    loadBuilder (saveBuilder b) = b := by
  obtain ⟨e, ops⟩ := b
  simp only [loadBuilder, saveBuilder, List.map_map, Builder.mk.injEq, true_and]
  conv => rhs; rw [← List.map_id ops]
  apply List.map_congr_left
  intro o ho
  obtain ⟨h1, h2, h3⟩ := h o ho
  obtain ⟨k, f, l⟩ := o
  simp only at h1
  simp only [Function.comp, loadOp, saveOp, if_pos h1, u32_of_fits h2, u32_of_fits h3, id]
  simp only [Op.mk.injEq, and_true]
  rw [if_pos (by omega)]
  omega

theorem loadNodes_map {t T : Tbl} (hr : AttrRel t T) (l : List Node)
    (h : ∀ x ∈ l, asgsWf t x.asg = true ∧ fits32 x.nid = true ∧ fits32 x.ifc = true) :
    loadNodes T (l.map (saveNode t)) = .ok (l.map (normNode t)) := by
  induction l with
  | nil => simp [loadNodes]
  | cons x xs ih =>
    obtain ⟨h1, h2, h3⟩ := h x (by simp)
    simp only [List.map_cons, loadNodes, saveNode, loadAsgs_saveAsgs hr x.e.id x.asg h1]
    have := ih (fun y hy => h y (by simp [hy]))
    rw [this]
    simp only [normNode, u32_of_fits h2, u32_of_fits h3]

/-! ## look-ups in the loader's tables -/

theorem findEnt_sortBy (l : List Ent) (hn : (l.map (·.id)).Nodup) (id : Id) :
    findEnt (sortBy entLe l) id = findEnt l id := by
  unfold findEnt
  exact find?_key_perm (fun e : Ent => e.id) (sortBy_perm entLe l).symm hn id

theorem normAttr_e (a : Attr) : (normAttr a).e = a.e := by
  obtain ⟨e, k⟩ := a
  cases k <;> rfl

theorem attr_sorted (l : List Attr) (hn : (l.map (·.e.id)).Nodup) (id : Id) :
    ((sortBy attrLe l).map normAttr).find? (fun a => a.e.id == id) =
      (l.find? (fun a => a.e.id == id)).map normAttr := by
  rw [find?_map_key (fun a : Attr => a.e.id) (fun a : Attr => a.e.id) normAttr
    (fun a => by rw [normAttr_e])]
  rw [find?_key_perm (fun a : Attr => a.e.id) (sortBy_perm attrLe l).symm hn id]

theorem node_sorted (t : Tbl) (l : List Node) (hn : (l.map (·.e.id)).Nodup) (id : Id) :
    ((sortBy nodeLe l).map (normNode t)).find? (fun a => a.e.id == id) =
      (l.find? (fun a => a.e.id == id)).map (normNode t) := by
  rw [find?_map_key (fun a : Node => a.e.id) (fun a : Node => a.e.id) (normNode t) (fun _ => rfl)]
  rw [find?_key_perm (fun a : Node => a.e.id) (sortBy_perm nodeLe l).symm hn id]

theorem builder_sorted (l : List Builder) (hn : (l.map (·.e.id)).Nodup) (id : Id) :
    (sortBy builderLe l).find? (fun a => a.e.id == id) = l.find? (fun a => a.e.id == id) :=
  find?_key_perm (fun a : Builder => a.e.id) (sortBy_perm builderLe l).symm hn id

/-! ## well-formedness, unpacked -/

structure TblWF (n : Net) : Prop where
  nb : (n.t.builders.map (·.e.id)).Nodup
  nn : (n.t.nodes.map (·.e.id)).Nodup
  nt : (n.t.types.map (·.id)).Nodup
  nu : (n.t.units.map (·.id)).Nodup
  ne : (n.t.enums.map (·.id)).Nodup
  na : (n.t.attrs.map (·.e.id)).Nodup
  ub : ∀ x ∈ n.t.builders, (usedRefs n).contains (RefK.builder, x.e.id) = true ∧ ∀ o ∈ x.ops, o.kind ≤ 3
  un : ∀ x ∈ n.t.nodes, (walkRefs n).contains (RefK.node, x.e.id) = true ∧ asgsWf n.t x.asg = true
  ut : ∀ x ∈ n.t.types, (usedRefs n).contains (RefK.type, x.id) = true
  uu : ∀ x ∈ n.t.units, (usedRefs n).contains (RefK.unit, x.id) = true
  ue : ∀ x ∈ n.t.enums, (usedRefs n).contains (RefK.enum, x.id) = true
  ua : ∀ x ∈ n.t.attrs, (usedRefs n).contains (RefK.attr, x.e.id) = true ∧ attrWf x = true

theorem tblWf_iff (n : Net) (h : tblWf n = true) : TblWF n := by
  simp only [tblWf, Bool.and_eq_true, nodupB, decide_eq_true_eq, List.all_eq_true] at h
  obtain ⟨⟨⟨⟨⟨⟨⟨⟨⟨⟨⟨h1, h2⟩, h3⟩, h4⟩, h5⟩, h6⟩, h7⟩, h8⟩, h9⟩, h10⟩, h11⟩, h12⟩ := h
  exact ⟨h1, h2, h3, h4, h5, h6, h7, h8, h9, h10, h11, h12⟩

theorem wf_iff (n : Net) (h : wf n = true) :
    TblWF n ∧ (∀ b ∈ n.buses, busWf n.t b = true) ∧ (n.buses.map (·.e.id)).Nodup ∧
    (ifaceKeys n).Nodup ∧ (msgIds n).Nodup ∧ ((netOwners n).map (·.1)).Nodup := by
  simp only [wf, Bool.and_eq_true, nodupB, decide_eq_true_eq, List.all_eq_true] at h
  obtain ⟨⟨⟨⟨⟨h1, h2⟩, h3⟩, h4⟩, h5⟩, h6⟩ := h
  exact ⟨tblWf_iff n h1, h2, h3, h4, h5, h6⟩

theorem inRange_iff (n : Net) (h : inRange n = true) :
    (∀ b ∈ n.buses, busInRange b = true) ∧
    (∀ b ∈ n.t.builders, ∀ o ∈ b.ops, fits32 o.from = true ∧ fits32 o.len = true) ∧
    (∀ x ∈ n.t.nodes, fits32 x.nid = true ∧ fits32 x.ifc = true) := by
  simp only [inRange, Bool.and_eq_true, List.all_eq_true] at h
  obtain ⟨⟨h1, h2⟩, h3⟩ := h
  refine ⟨?_, h2, h3⟩
  intro b hb
  simp only [busInRange, List.all_eq_true, Bool.and_eq_true]
  exact h1 b hb

/-! ## the saved tables -/

theorem save_builders (n : Net) (h : TblWF n) :
    (save n).builders = (sortBy builderLe n.t.builders).map saveBuilder := by
  simp only [save]
  rw [List.filter_eq_self.mpr (fun x hx => (h.ub x hx).1)]

theorem save_nodes (n : Net) (h : TblWF n) :
    (save n).nodes = (sortBy nodeLe n.t.nodes).map (saveNode n.t) := by
  simp only [save, usedNodes]
  rw [List.filter_eq_self.mpr (fun x hx => (h.un x hx).1)]

theorem save_types (n : Net) (h : TblWF n) : (save n).types = sortBy entLe n.t.types := by
  simp only [save]
  rw [List.filter_eq_self.mpr (fun x hx => h.ut x hx)]

theorem save_units (n : Net) (h : TblWF n) : (save n).units = sortBy entLe n.t.units := by
  simp only [save]
  rw [List.filter_eq_self.mpr (fun x hx => h.uu x hx)]

theorem save_enums (n : Net) (h : TblWF n) : (save n).enums = sortBy entLe n.t.enums := by
  simp only [save]
  rw [List.filter_eq_self.mpr (fun x hx => h.ue x hx)]

theorem save_attrs (n : Net) (h : TblWF n) :
    (save n).attrs = (sortBy attrLe n.t.attrs).map saveAttr := by
  simp only [save]
  rw [List.filter_eq_self.mpr (fun x hx => (h.ua x hx).1)]

theorem save_buses (n : Net) : (save n).buses = (sortBy busLe n.buses).map (saveBus n.t) := rfl
theorem save_e (n : Net) : (save n).e = n.e := rfl

/-! ## the round trip -/

theorem load_save_aux (n : Net) (hw : wf n = true) (hi : inRange n = true) :
    load (save n) = .ok (norm n) := by
  obtain ⟨ht, hb, hbid, hkeys, hmids, hown⟩ := wf_iff n hw
  obtain ⟨ib, iops, inodes⟩ := inRange_iff n hi
  -- the tables the loader builds
  have hattrs : loadAttrs (save n).attrs = .ok ((sortBy attrLe n.t.attrs).map normAttr) := by
    rw [save_attrs n ht]
    exact loadAttrs_map _ (fun a ha => (ht.ua a (mem_sortBy.mp ha)).2)
  have hdb : dedupLast (fun b : Builder => b.e.id) ((save n).builders.map loadBuilder) =
      sortBy builderLe n.t.builders := by
    rw [save_builders n ht, List.map_map]
    have : (sortBy builderLe n.t.builders).map (loadBuilder ∘ saveBuilder) = sortBy builderLe n.t.builders := by
      conv => rhs; rw [← List.map_id (sortBy builderLe n.t.builders)]
      apply List.map_congr_left
      intro b hb'
      have hb'' := mem_sortBy.mp hb'
      exact loadBuilder_saveBuilder b (fun o ho => ⟨(ht.ub b hb'').2 o ho, iops b hb'' o ho⟩)
    rw [this]
    exact dedupLast_of_nodup _ _ (nodup_map_sortBy _ _ ht.nb)
  have hda : dedupLast (fun a : Attr => a.e.id) ((sortBy attrLe n.t.attrs).map normAttr) =
      (sortBy attrLe n.t.attrs).map normAttr := by
    apply dedupLast_of_nodup
    simp only [List.map_map, Function.comp_def, normAttr_e]
    exact nodup_map_sortBy _ _ ht.na
  -- attributes are found in the loader's table
  have hrel0 : ∀ (T : Tbl), T.attrs = (sortBy attrLe n.t.attrs).map normAttr → AttrRel n.t T := by
    intro T hT id a ha
    simp only [Tbl.attr] at ha ⊢
    rw [hT, attr_sorted _ ht.na, ha]
    rfl
  have hnodes : loadNodes
      { builders := sortBy builderLe n.t.builders, attrs := (sortBy attrLe n.t.attrs).map normAttr }
      (save n).nodes = .ok ((sortBy nodeLe n.t.nodes).map (normNode n.t)) := by
    rw [save_nodes n ht]
    exact loadNodes_map (hrel0 _ rfl) _
      (fun x hx => ⟨(ht.un x (mem_sortBy.mp hx)).2, inodes x (mem_sortBy.mp hx)⟩)
  have hdn : dedupLast (fun a : Node => a.e.id) ((sortBy nodeLe n.t.nodes).map (normNode n.t)) =
      (sortBy nodeLe n.t.nodes).map (normNode n.t) := by
    apply dedupLast_of_nodup
    simp only [List.map_map, Function.comp_def, normNode]
    exact nodup_map_sortBy _ _ ht.nn
  have hdt : dedupLast (fun e : Ent => e.id) (save n).types = sortBy entLe n.t.types := by
    rw [save_types n ht]
    exact dedupLast_of_nodup _ _ (nodup_map_sortBy _ _ ht.nt)
  have hdu : dedupLast (fun e : Ent => e.id) (save n).units = sortBy entLe n.t.units := by
    rw [save_units n ht]
    exact dedupLast_of_nodup _ _ (nodup_map_sortBy _ _ ht.nu)
  have hde : dedupLast (fun e : Ent => e.id) (save n).enums = sortBy entLe n.t.enums := by
    rw [save_enums n ht]
    exact dedupLast_of_nodup _ _ (nodup_map_sortBy _ _ ht.ne)
  -- the relation between the tables
  have hrel : TRel n.t (normTbl n.t) := by
    refine ⟨hrel0 _ rfl, ?_, ?_, ?_, ?_, ?_⟩
    · intro id h
      simp only [normTbl]
      rwa [findEnt_sortBy _ ht.nt]
    · intro id h
      simp only [normTbl]
      rwa [findEnt_sortBy _ ht.nu]
    · intro id h
      simp only [normTbl]
      rwa [findEnt_sortBy _ ht.ne]
    · intro id x hx
      simp only [Tbl.node] at hx ⊢
      refine ⟨normNode n.t x, ?_, rfl⟩
      simp only [normTbl]
      rw [node_sorted _ _ ht.nn, hx]
      rfl
    · intro id h
      simp only [Tbl.builder] at h ⊢
      simp only [normTbl]
      rwa [builder_sorted _ ht.nb]
  -- the buses
  have hperm := sortBy_perm busLe n.buses
  have hbuses : loadBuses (normTbl n.t) {} [] (save n).buses = .ok ((sortBy busLe n.buses).map (normBus n.t)) := by
    rw [save_buses]
    apply loadBuses_map hrel (Seen.owner (netOwners n)) [] [] {} [] (sortBy busLe n.buses)
      ⟨by simp, by simp, by simp, by simp, Agrees.nil _⟩
    · exact fun b hb' => ⟨hb b (mem_sortBy.mp hb'), ib b (mem_sortBy.mp hb'),
        fun q hq => owner_of_mem hown (List.mem_flatMap.mpr ⟨b, mem_sortBy.mp hb', hq⟩)⟩
    · exact nodup_map_sortBy _ _ hbid
    · simp
    · exact ((hperm.flatMap_right _).nodup_iff).mpr hkeys
    · simp
    · exact ((hperm.flatMap_right _).nodup_iff).mpr hmids
    · simp
  simp only [load, hattrs, hdb, hda, hnodes, hdn, hdt, hdu, hde]
  have hT : ({ builders := sortBy builderLe n.t.builders,
               nodes := (sortBy nodeLe n.t.nodes).map (normNode n.t),
               types := sortBy entLe n.t.types, units := sortBy entLe n.t.units,
               enums := sortBy entLe n.t.enums,
               attrs := (sortBy attrLe n.t.attrs).map normAttr } : Tbl) = normTbl n.t := rfl
  rw [hT, hbuses]
  rfl

end Acme.Save
