/-
Multiplexer world, part R: `mux.ins` assembled.
-/
import Acme.Proofs.MuxIns4

namespace Acme.Mux
open Acme.Layout Acme.Arith

theorem nested_names_facts (w : MW) (h : InvCore w) (msg : MsgE) (s : Nat)
    (hn2 : nestedNamesOk w msg s = true) :
    (∀ i j, (i = s ∨ Below w i s) → (j = s ∨ Below w j s) → nameOf w i = nameOf w j → i = j) ∧
    (∀ i, Below w i s → ∀ j, (nameOf w i, j) ∉ msg.signalNames) := by
  unfold nestedNamesOk at hn2
  simp only [Bool.and_eq_true, List.all_eq_true, List.mem_map, forall_exists_index, and_imp,
    forall_apply_eq_imp_iff₂, Bool.not_eq_true'] at hn2
  obtain ⟨hn2a, hn2b⟩ := hn2
  have hD0 : ∀ t, t ∈ descendants w (fuelOf w) s ↔ Below w t s := by
    intro t; rw [mem_descendants_iff w h.treeOK]; rfl
  have hn2c : ((s :: descendants w (fuelOf w) s).map (nameOf w)).Nodup := by
    simpa using (nodupStr_iff _).mp hn2b
  have hinjl := List.inj_on_of_nodup_map hn2c
  constructor
  · intro i j hi hj hij
    have hi' : i ∈ s :: descendants w (fuelOf w) s := by
      simp only [List.mem_cons, hD0]; exact hi
    have hj' : j ∈ s :: descendants w (fuelOf w) s := by
      simp only [List.mem_cons, hD0]; exact hj
    exact @hinjl i hi' j hj' hij
  · intro i hi j
    exact (nmHas_false_iff _ _).mp (hn2a i ((hD0 i).mpr hi)) j

theorem toNat_map_nodup (ids : List Int) (hn : ids.Nodup) (hpos : ∀ g ∈ ids, 0 ≤ g) : (ids.map Int.toNat).Nodup := by
  induction ids with
  | nil => simp
  | cons a rest ih =>
    simp only [List.nodup_cons] at hn
    simp only [List.map_cons, List.nodup_cons, List.mem_map, not_exists, not_and]
    refine ⟨?_, ih hn.2 (fun g hg => hpos g (List.mem_cons_of_mem _ hg))⟩
    intro b hb hab
    have h1 := hpos a List.mem_cons_self
    have h2 := hpos b (List.mem_cons_of_mem _ hb)
    have : a = b := by omega
    exact hn.1 (this ▸ hb)

theorem mem_toNat_map (ids : List Int) (hpos : ∀ g ∈ ids, 0 ≤ g) (k : Nat) :
    k ∈ ids.map Int.toNat ↔ (k : Int) ∈ ids := by
  simp only [List.mem_map]
  constructor
  · rintro ⟨g, hg, rfl⟩
    have := hpos g hg
    have : ((g.toNat : Nat) : Int) = g := by omega
    rw [this]; exact hg
  · intro hk
    exact ⟨(k : Int), hk, by simp⟩

/-- the tail of an accepted insertion, for both forms of the call -/
theorem inv_muxIns_tail (w : MW) (h : InvCore w) (x s : Nat) (xe se : SigE) (gc gs : Int)
    (hx : w.sigs.get x = some xe) (hk : xe.kind = .mux gc gs) (hs : w.sigs.get s = some se)
    (hxs : x ≠ s) (hnot : ∀ k, ¬ Anc w k x s)
    (hpar : se.parentMux = none ∨ se.parentMux = some x)
    (hfreeA : se.parentMux = none → se.parentMsg = none)
    (st : Int) (gids : List Int)
    (hB : se.parentMux = some x → s ∉ xe.mx.fixed ∧ gids.isEmpty = false ∧ st = se.rel)
    (hvn : verifyMuxName w xe s se.name = true) (hnest : insNestedOk w xe s = true)
    (ks : List Nat)
    (hmodeF : gids.isEmpty = true → ks = allGroups gc ∧
        ∀ k ∈ ks, verifyInsert gs (slotsOf w (xe.mx.groups.getD k [])) (sigSize se) st = .ok ())
    (hmodeL : gids.isEmpty = false → ks = (compactAdj (sortInts gids)).map Int.toNat ∧
        ∀ g ∈ compactAdj (sortInts gids), 0 ≤ g ∧ g < gc ∧ g ∉ prevIds xe s ∧
          verifyInsert gs (slotsOf w (xe.mx.groups.getD g.toNat [])) (sigSize se) st = .ok ()) :
    InvCore (insTail (insertMany w x s st ks).1 x s (insBook xe s gids)) ∧ (insertMany w x s st ks).2 = false := by
  have hxo := h.muxOK hx hk
  have hlen := hxo.shape.1
  have hgc := hxo.shape.2.1
  have hsz := sigSize_pos w h s se hs
  -- parent message of s
  have hsmsg : se.parentMsg = none ∨ se.parentMsg = xe.parentMsg := by
    rcases hpar with hp | hp
    · exact Or.inl (hfreeA hp)
    · obtain ⟨xe0, _, _, hx0, _, hpm⟩ := h.parentIsMux s se x hs hp
      rw [hx] at hx0; cases hx0
      exact Or.inr hpm.symm
  -- membership of s before
  have hchild_iff : s ∈ xe.mx.signals ↔ se.parentMux = some x := by
    rw [hxo.child]
    constructor
    · rintro ⟨e, he, hp⟩; rw [hs] at he; cases he; exact hp
    · intro hp; exact ⟨se, hs, hp⟩
  have hA_nogroup : se.parentMux = none → ∀ g ∈ xe.mx.groups, s ∉ g := by
    intro hp g hg hsg
    have := hchild_iff.mp (hxo.mem_child hg hsg)
    rw [hp] at this; cases this
  have hprev : ∀ k : Nat, k < gc.toNat → (s ∈ xe.mx.groups.getD k [] ↔ (k : Int) ∈ prevIds xe s) := by
    intro k hk'
    rcases hpar with hp | hp
    · have hng : s ∉ xe.mx.groups.getD k [] := hA_nogroup hp _ (getD_mem _ _ _ (by rw [hlen]; exact hk'))
      have hnone : xe.mx.groupIds.get s = none := by
        cases hg : xe.mx.groupIds.get s with
        | none => rfl
        | some l =>
          have : s ∈ xe.mx.signals := (hxo.split s).mpr (Or.inr (by rw [hg]; rfl))
          have := hchild_iff.mp this
          rw [hp] at this; cases this
      constructor
      · intro hh; exact absurd hh hng
      · intro hh; simp [prevIds, hnone] at hh
    · obtain ⟨hnf, _, _⟩ := hB hp
      have hin : s ∈ xe.mx.signals := hchild_iff.mpr hp
      rcases (hxo.split s).mp hin with hf | hl
      · exact absurd hf hnf
      · cases hg : xe.mx.groupIds.get s with
        | none => rw [hg] at hl; simp at hl
        | some l =>
          simp only [prevIds, hg]
          exact (hxo.listed s l hg).2.2.2 k hk'
  -- the target groups
  have hksfacts : ks.Nodup ∧ (ks ≠ [] ∨ se.rel = st) ∧ ∀ k ∈ ks, k < xe.mx.groups.length ∧
      verifyInsert gs (slotsOf w (xe.mx.groups.getD k [])) (sigSize se) st = .ok () ∧ s ∉ xe.mx.groups.getD k [] := by
    by_cases hemp : gids.isEmpty = true
    · obtain ⟨rfl, hv⟩ := hmodeF hemp
      have hpA : se.parentMux = none := by
        rcases hpar with hp | hp
        · exact hp
        · have := (hB hp).2.1; rw [hemp] at this; cases this
      refine ⟨List.nodup_range, Or.inl ?_, ?_⟩
      · intro hh
        have : (allGroups gc).length = 0 := by rw [hh]; rfl
        simp [allGroups] at this
        omega
      · intro k hk'
        have hklt : k < gc.toNat := by simpa [allGroups] using hk'
        exact ⟨by rw [hlen]; exact hklt, hv k hk', hA_nogroup hpA _ (getD_mem _ _ _ (by rw [hlen]; exact hklt))⟩
    · have hemp' : gids.isEmpty = false := by simpa using hemp
      obtain ⟨rfl, hv⟩ := hmodeL hemp'
      obtain ⟨hstrict, hmem⟩ := insIds_spec gids
      have hpos : ∀ g ∈ compactAdj (sortInts gids), 0 ≤ g := fun g hg => (hv g hg).1
      refine ⟨toNat_map_nodup _ (nodup_of_strict _ hstrict) hpos, Or.inl ?_, ?_⟩
      · intro hh
        cases hgl : gids with
        | nil => simp [hgl] at hemp'
        | cons a rest =>
          have : a ∈ compactAdj (sortInts gids) := (hmem a).mpr (by rw [hgl]; exact List.mem_cons_self)
          have : a.toNat ∈ (compactAdj (sortInts gids)).map Int.toNat := List.mem_map.mpr ⟨a, this, rfl⟩
          rw [hh] at this; cases this
      · intro k hk'
        have hkI := (mem_toNat_map _ hpos k).mp hk'
        obtain ⟨a1, a2, a3, a4⟩ := hv _ hkI
        have hklt : k < gc.toNat := by omega
        refine ⟨by rw [hlen]; exact hklt, by simpa using a4, ?_⟩
        rw [hprev k hklt]
        exact a3
  obtain ⟨hnd, hksne, hks⟩ := hksfacts
  -- the insertion loop
  obtain ⟨G', i1, i2, i3, i4, i5⟩ := insertMany_spec gs x s st hxs ks w xe se hx hs hsz hnd hksne
    (by
      intro k hk'
      obtain ⟨a1, a2, a3⟩ := hks k hk'
      have hgm := getD_mem xe.mx.groups k [] a1
      refine ⟨a1, hxo.wf _ hgm, ?_, a2, a3⟩
      intro i hi
      obtain ⟨e, he, _⟩ := hxo.mem_stored hgm hi
      simp [he])
  refine ⟨?_, i1⟩
  -- the registration
  have hsm : xe.parentMsg = none → se.parentMsg = none := by
    intro hn
    rcases hsmsg with hh | hh
    · exact hh
    · rw [hh, hn]
  obtain ⟨c1, c2, c3, c4, c5, c6⟩ := insTail_spec w h x s xe se gc gs hx hk hs hxs hnot hpar hsm st
    (insertMany w x s st ks).1 G' i2 i3 (insBook xe s gids)
    (by intro d; unfold insBook; split <;> rfl) (by intro d; unfold insBook; split <;> rfl)
  have hnbx : ¬ Below w x s := fun ⟨k, hk'⟩ => hnot (k + 1) hk'
  -- the multiplexer
  have hrelB : ∀ g ∈ xe.mx.groups, s ∈ g → st = se.rel := by
    intro g hg hsg
    rcases hpar with hp | hp
    · exact absurd hsg (hA_nogroup hp g hg)
    · exact (hB hp).2.2
  obtain ⟨g1, g2, g3⟩ := groups_ins w (insTail (insertMany w x s st ks).1 x s (insBook xe s gids)) x s xe se gc gs hxo hs hsz st ks G'
    hks ⟨i4, i5⟩ ⟨_, c2, rfl, rfl⟩
    (by
      intro t hts ht
      obtain ⟨e, he, hp⟩ := (hxo.child t).mp ht
      have htx : t ≠ x := by rintro rfl; exact self_not_parent w h t e he hp
      by_cases hb : Below w t s
      · rw [c3 t hb, he]; rfl
      · rw [c4 t htx hts hb])
    hrelB
  have hbookG : (insBook xe s gids { xe.mx with groups := G' }).groups = G' := by
    unfold insBook; split <;> rfl
  have hmuxx : MuxOK (insTail (insertMany w x s st ks).1 x s (insBook xe s gids)) x
      { xe with mx := { insBook xe s gids { xe.mx with groups := G' } with signals := sAdd xe.mx.signals s, signalNames := nmSet xe.mx.signalNames se.name s } } gc gs := by
    apply muxOK_ins w _ x s xe _ se gc gs hxo hs ks
    · intro g' hg'; exact g1 g' (by simpa [hbookG] using hg')
    · show (insBook xe s gids { xe.mx with groups := G' }).groups.length = _
      rw [hbookG, i4]
    · intro k t hts
      show t ∈ (insBook xe s gids { xe.mx with groups := G' }).groups.getD k [] ↔ _
      rw [hbookG]; exact g2 k t hts
    · intro k hk'
      show s ∈ (insBook xe s gids { xe.mx with groups := G' }).groups.getD k [] ↔ _
      rw [hbookG]; exact g3 k hk'
    · intro t hts
      show t ∈ (insBook xe s gids { xe.mx with groups := G' }).fixed ↔ _
      unfold insBook; split
      · simp [hts]
      · rfl
    · intro t hts
      show (insBook xe s gids { xe.mx with groups := G' }).groupIds.get t = _
      unfold insBook; split
      · rfl
      · simp [hts]
    · by_cases hemp : gids.isEmpty = true
      · left
        obtain ⟨hkseq, _⟩ := hmodeF hemp
        have hpA : se.parentMux = none := by
          rcases hpar with hp | hp
          · exact hp
          · have := (hB hp).2.1; rw [hemp] at this; cases this
        have hnone : xe.mx.groupIds.get s = none := by
          cases hg : xe.mx.groupIds.get s with
          | none => rfl
          | some l =>
            have : s ∈ xe.mx.signals := (hxo.split s).mpr (Or.inr (by rw [hg]; rfl))
            have := hchild_iff.mp this
            rw [hpA] at this; cases this
        refine ⟨?_, ?_, ?_⟩
        · show s ∈ (insBook xe s gids { xe.mx with groups := G' }).fixed
          unfold insBook; rw [if_pos hemp]; simp
        · show (insBook xe s gids { xe.mx with groups := G' }).groupIds.get s = none
          unfold insBook; rw [if_pos hemp]; exact hnone
        · intro k hk'
          right
          rw [hkseq]
          simp only [allGroups, List.mem_range]
          rw [← hlen]; exact hk'
      · right
        have hemp' : gids.isEmpty = false := by simpa using hemp
        obtain ⟨hkseq, hv⟩ := hmodeL hemp'
        obtain ⟨hstrict, hmem⟩ := insIds_spec gids
        have hpos : ∀ g ∈ compactAdj (sortInts gids), 0 ≤ g := fun g hg => (hv g hg).1
        have hsnf : s ∉ xe.mx.fixed := by
          rcases hpar with hp | hp
          · intro hf
            have : s ∈ xe.mx.signals := (hxo.split s).mpr (Or.inl hf)
            have := hchild_iff.mp this
            rw [hp] at this; cases this
          · exact (hB hp).1
        -- the previous ids
        have hprevfacts : (prevIds xe s).Pairwise (· < ·) ∧ ∀ k ∈ prevIds xe s, 0 ≤ k ∧ k < gc := by
          unfold prevIds
          cases hg : xe.mx.groupIds.get s with
          | none => simp
          | some l =>
            obtain ⟨_, a2, a3, _⟩ := hxo.listed s l hg
            exact ⟨a2, a3⟩
        refine ⟨?_, sortInts (prevIds xe s ++ compactAdj (sortInts gids)), ?_, ?_, ?_, ?_, ?_⟩
        · show s ∉ (insBook xe s gids { xe.mx with groups := G' }).fixed
          unfold insBook; rw [if_neg hemp]; exact hsnf
        · show (insBook xe s gids { xe.mx with groups := G' }).groupIds.get s = _
          unfold insBook; rw [if_neg hemp]; simp
        · intro hh
          cases hgl : gids with
          | nil => simp [hgl] at hemp'
          | cons a rest =>
            have ha : a ∈ compactAdj (sortInts gids) := (hmem a).mpr (by rw [hgl]; exact List.mem_cons_self)
            have : a ∈ sortInts (prevIds xe s ++ compactAdj (sortInts gids)) := by
              rw [mem_sortInts]; exact List.mem_append_right _ ha
            rw [hh] at this; cases this
        · apply sortInts_strict
          rw [List.nodup_append]
          refine ⟨nodup_of_strict _ hprevfacts.1, nodup_of_strict _ hstrict, ?_⟩
          intro a ha b hb hab
          subst hab
          exact (hv a hb).2.2.1 ha
        · intro k hk'
          rw [mem_sortInts, List.mem_append] at hk'
          rcases hk' with hk' | hk'
          · exact hprevfacts.2 k hk'
          · exact ⟨(hv k hk').1, (hv k hk').2.1⟩
        · intro k hk'
          rw [mem_sortInts, List.mem_append, hprev k hk', hkseq, mem_toNat_map _ hpos]
    · rfl
    · rfl
    · -- the name is free among the other children
      intro i hi
      have hg := (nmGet_eq_some_iff _ hxo.namesNodup _ _).mpr hi
      unfold verifyMuxName at hvn
      rw [hg] at hvn
      simpa using hvn
    · exact ⟨_, c2, rfl, rfl⟩
    · intro t ht hts
      obtain ⟨e, he, hp⟩ := (hxo.child t).mp ht
      have htx : t ≠ x := by rintro rfl; exact self_not_parent w h t e he hp
      by_cases hb : Below w t s
      · exact ⟨e, { e with parentMsg := xe.parentMsg }, he, by rw [c3 t hb, he]; rfl, rfl, rfl⟩
      · exact ⟨e, e, he, by rw [c4 t htx hts hb]; exact he, rfl, rfl⟩
    · intro t e' he' hp
      by_cases hts : t = s
      · exact Or.inl hts
      · right
        have htx : t ≠ x := by
          rintro rfl
          rw [c1] at he'; cases he'
          exact self_not_parent w h t xe hx hp
        by_cases hb : Below w t s
        · obtain ⟨e, he, _⟩ := below_registered w h s t se hs hb
          rw [c3 t hb, he] at he'
          cases he'
          exact (hxo.child t).mpr ⟨e, he, hp⟩
        · rw [c4 t htx hts hb] at he'
          exact (hxo.child t).mpr ⟨e', he', hp⟩
  -- everything else
  apply inv_ins w h x s xe se gc gs hx hk hs hxs hnot hpar hsmsg hfreeA st (fun hp => (hB hp).2.2) _
    { xe with mx := { insBook xe s gids { xe.mx with groups := G' } with signals := sAdd xe.mx.signals s, signalNames := nmSet xe.mx.signalNames se.name s } }
    ⟨rfl, rfl, rfl, rfl, rfl⟩ hmuxx c1 c2 c3 c4 c5 c6
  intro m msg hpm hmsg
  rcases hpar with hp | hp
  · left
    have hsn : s ∉ xe.mx.signals := by
      intro hh; have := hchild_iff.mp hh; rw [hp] at this; cases this
    have hsenone := hfreeA hp
    -- the nested names were verified
    have hn2 : nestedNamesOk w msg s = true := by
      unfold insNestedOk at hnest
      rw [hpm] at hnest
      simp only at hnest
      have hc : xe.mx.signals.contains s = false := by
        cases hh : xe.mx.signals.contains s with
        | false => rfl
        | true => exact absurd (by simpa using hh) hsn
      rw [hc] at hnest
      simpa [hmsg] using hnest
    obtain ⟨f1, f2⟩ := nested_names_facts w h msg s hn2
    refine ⟨f1, ?_, hsenone⟩
    intro i hi j
    rcases hi with rfl | hi
    · -- the name of the signal itself
      have hnm : nameOf w i = se.name := by simp [nameOf, hs]
      rw [hnm]
      unfold verifyMuxName at hvn
      cases hg : nmGet xe.mx.signalNames se.name with
      | some id =>
        rw [hg] at hvn
        have hid : id = i := by simpa using hvn
        subst hid
        have := (nmGet_eq_some_iff _ hxo.namesNodup _ _).mp hg
        exact absurd ((hxo.names _ _).mp this).1 hsn
      | none =>
        rw [hg, hpm] at hvn
        simp only [hmsg, Bool.not_eq_true'] at hvn
        exact (nmHas_false_iff _ _).mp hvn j
    · exact f2 i hi j
  · right
    obtain ⟨xe0, _, _, hx0, _, hpm0⟩ := h.parentIsMux s se x hs hp
    rw [hx] at hx0; cases hx0
    rw [← hpm0, hpm]

theorem inv_muxIns (w : MW) (h : InvCore w) (x s : Nat) (st : Int) (gids : List Int)
    (hns : (doMuxIns w x s st gids).2 ≠ .unsupported) (hadm : admissible w (.muxIns x s st gids) = true) :
    InvCore (doMuxIns w x s st gids).1 ∧ (doMuxIns w x s st gids).2 ≠ .panic := by
  cases hx : w.sigs.get x with
  | none => simp only [doMuxIns, hx]; exact ⟨h, by simp⟩
  | some xe =>
    cases hk : xe.kind with
    | leaf z => simp only [doMuxIns, hx, hk]; exact ⟨h, by simp⟩
    | mux gc gs =>
      cases hs : w.sigs.get s with
      | none => simp only [doMuxIns, hx, hk, hs]; exact ⟨h, by simp⟩
      | some se =>
        by_cases hfor : (insForeign x se || selfOrAncestor w s (fuelOf w + 1) x) = true
        · simp only [doMuxIns, hx, hk, hs, hfor, ↓reduceIte] at hns
          exact absurd rfl hns
        · by_cases hvn : verifyMuxName w xe s se.name = true
          · by_cases hnest : insNestedOk w xe s = true
            · have hfor' : insForeign x se = false ∧ selfOrAncestor w s (fuelOf w + 1) x = false := by
                simpa using hfor
              have hnot := selfOrAncestor_false w s _ x hfor'.2
              have hxs : x ≠ s := hnot 0
              have hpar : se.parentMux = none ∨ se.parentMux = some x := by
                have := hfor'.1
                unfold insForeign at this
                cases hp : se.parentMux with
                | none => exact Or.inl rfl
                | some p => rw [hp] at this; simp at this; exact Or.inr (by rw [this])
              have hfreeA : se.parentMux = none → se.parentMsg = none := by
                intro hp
                have := hfor'.1
                unfold insForeign at this
                rw [hp] at this
                cases hm : se.parentMsg with
                | none => rfl
                | some m => rw [hm] at this; simp at this
              have hB : se.parentMux = some x → s ∉ xe.mx.fixed ∧ gids.isEmpty = false ∧ st = se.rel := by
                intro hp
                simp only [admissible, hx, hs, hp, ↓reduceIte, Bool.and_eq_true, Bool.not_eq_true',
                  decide_eq_true_eq] at hadm
                refine ⟨?_, hadm.1.2, hadm.2⟩
                intro hf
                have := hadm.1.1
                simp [List.contains_iff_mem, hf] at this
              have hsz := sigSize_pos w h s se hs
              cases hver : insVerify w xe gc gs s (sigSize se) st gids with
              | error o =>
                simp only [doMuxIns, hx, hk, hs, hfor, hvn, hnest, hver, Bool.not_true, Bool.false_eq_true, ↓reduceIte]
                refine ⟨h, ?_⟩
                unfold insVerify at hver
                split at hver
                · have := verifyFixed_ne_panic w gs xe.mx.groups (sigSize se) st (allGroups gc)
                  split at hver
                  · rename_i o' ho'
                    cases hver
                    -- `verifyFixed` wraps `outOfLErr`: its errors are never a panic
                    intro hh; subst hh
                    have hne := ho'
                    clear this
                    exact absurd ho' (by
                      have : ∀ ks, verifyFixed w gs xe.mx.groups (sigSize se) st ks ≠ .error .panic := by
                        intro ks
                        induction ks with
                        | nil => simp [verifyFixed]
                        | cons k rest ih =>
                          simp only [verifyFixed]
                          split
                          · rename_i e he
                            have hv := verifyInsert_ne_panic gs (slotsOf w (xe.mx.groups.getD k [])) (sigSize se) st
                            intro hh
                            cases e <;> simp [outOfLErr] at hh
                            exact hv he
                          · exact ih
                      exact this _)
                  · cases hver
                · split at hver
                  · rename_i o' ho'
                    cases hver
                    intro hh; subst hh
                    exact absurd ho' (by
                      have : ∀ ids, verifyIds w gc gs xe.mx.groups (prevIds xe s) (sigSize se) st ids ≠ .error .panic := by
                        intro ids
                        induction ids with
                        | nil => simp [verifyIds]
                        | cons g rest ih =>
                          simp only [verifyIds]
                          split
                          · simp
                          · split
                            · simp
                            · split
                              · simp
                              · split
                                · rename_i e he
                                  have hv := verifyInsert_ne_panic gs (slotsOf w (xe.mx.groups.getD g.toNat [])) (sigSize se) st
                                  intro hh
                                  cases e <;> simp [outOfLErr] at hh
                                  exact hv he
                                · exact ih
                      exact this _)
                  · cases hver
              | ok ks =>
                have hmodes : (gids.isEmpty = true → ks = allGroups gc ∧
                      ∀ k ∈ ks, verifyInsert gs (slotsOf w (xe.mx.groups.getD k [])) (sigSize se) st = .ok ()) ∧
                    (gids.isEmpty = false → ks = (compactAdj (sortInts gids)).map Int.toNat ∧
                      ∀ g ∈ compactAdj (sortInts gids), 0 ≤ g ∧ g < gc ∧ g ∉ prevIds xe s ∧
                        verifyInsert gs (slotsOf w (xe.mx.groups.getD g.toNat [])) (sigSize se) st = .ok ()) := by
                  unfold insVerify at hver
                  constructor
                  · intro hemp
                    rw [if_pos hemp] at hver
                    split at hver
                    · cases hver
                    · rename_i hvf
                      cases hver
                      exact ⟨rfl, verifyFixed_ok w gs xe.mx.groups (sigSize se) st _ hvf⟩
                  · intro hemp
                    rw [if_neg (by rw [hemp]; simp)] at hver
                    split at hver
                    · cases hver
                    · rename_i hvi
                      cases hver
                      exact ⟨rfl, verifyIds_ok w gc gs xe.mx.groups _ (sigSize se) st _ hvi⟩
                obtain ⟨t1, t2⟩ := inv_muxIns_tail w h x s xe se gc gs hx hk hs hxs hnot hpar hfreeA st gids hB hvn hnest ks
                  hmodes.1 hmodes.2
                generalize hrm : insertMany w x s st ks = rm at t1 t2
                obtain ⟨w1, b⟩ := rm
                simp only at t2
                subst t2
                simp only [doMuxIns, hx, hk, hs, hfor, hvn, hnest, hver, hrm, Bool.not_true, Bool.false_eq_true, ↓reduceIte]
                exact ⟨t1, by simp⟩
            · simp only [doMuxIns, hx, hk, hs, hfor, hvn, hnest, Bool.not_true, Bool.false_eq_true, ↓reduceIte, Bool.not_false]
              exact ⟨h, by simp⟩
          · simp only [doMuxIns, hx, hk, hs, hfor, hvn, Bool.false_eq_true, ↓reduceIte, Bool.not_false]
            exact ⟨h, by simp⟩

end Acme.Mux
