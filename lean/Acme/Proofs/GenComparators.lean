/-
Every comparator that package acmelib passes to slices.SortFunc (regenerated from the source into
Acme/Gen/Comparators.lean on every run) is a total preorder (`TotalCmp`: what slices.SortFunc
requires), and every comparator that the generated table marks as ending in the entity id is
tie-free up to the entity id (`TiesId`): equal under the comparator implies equal entity ids.

The proofs recognise the SHAPE of the generated definition: after unfolding the translated
helpers (`orCompare`, `compareEntityIDs`) it must be a lexicographic chain
`if k₁ a b ≠ 0 then k₁ a b else (… kₙ a b)` of comparisons of ONE key of `a` with the SAME key
of `b` (`strings.Compare`, `cmp.Compare`, subtraction; possibly with swapped arguments).  A
comparator that compares different keys (`a.x` with `b.y`), that is not antisymmetric, or that
lost its entity-id tie-break does not have that shape / that last key, and its theorem fails.
-/
import Acme.Gen.Comparators

set_option linter.unusedSimpArgs false

namespace Acme.GenCmp

open Acme.CmpLib Acme.Gen

/-- unfold the translated helper functions -/
macro "cmp_prep" : tactic =>
  `(tactic| (try simp only [Acme.Gen.Cmp.orCompare, Acme.Gen.Cmp.compareEntityIDs]))

/-! `bus.go`, `Bus.NodeInterfaces`: `slices.SortFunc(nodeSlice, ..)`; keys "node.id" -/

theorem total_bus_Bus_NodeInterfaces_1 : TotalCmp Cmp.bus_Bus_NodeInterfaces_1 := by
  unfold Cmp.bus_Bus_NodeInterfaces_1
  cmp_prep
  cmp_total

/-! `entity.go`, `withAttributes.AttributeAssignments`: `slices.SortFunc(attSlice, ..)`; keys "attribute.Name()", "attribute.EntityID()" -/

theorem total_entity_withAttributes_AttributeAssignments_1 : TotalCmp Cmp.entity_withAttributes_AttributeAssignments_1 := by
  unfold Cmp.entity_withAttributes_AttributeAssignments_1
  cmp_prep
  cmp_total

theorem ties_entity_withAttributes_AttributeAssignments_1 : TiesId (fun k => k.attribute_entityID) Cmp.entity_withAttributes_AttributeAssignments_1 := by
  unfold Cmp.entity_withAttributes_AttributeAssignments_1
  cmp_prep
  cmp_ties

/-! `exporter.go`, `exporter.exportBus`: `slices.SortFunc(sigEnums, ..)`; keys "name", "entityID" -/

theorem total_exporter_exporter_exportBus_1 : TotalCmp Cmp.exporter_exporter_exportBus_1 := by
  unfold Cmp.exporter_exporter_exportBus_1
  cmp_prep
  cmp_total

theorem ties_exporter_exporter_exportBus_1 : TiesId (fun k => k.entityID) Cmp.exporter_exporter_exportBus_1 := by
  unfold Cmp.exporter_exporter_exportBus_1
  cmp_prep
  cmp_ties

/-! `importer.go`, `importer.importValueEncoding`: `slices.SortFunc(values, ..)`; keys "ID" -/

theorem total_importer_importer_importValueEncoding_1 : TotalCmp Cmp.importer_importer_importValueEncoding_1 := by
  unfold Cmp.importer_importer_importValueEncoding_1
  cmp_prep
  cmp_total

/-! `importer.go`, `importer.importMessage`: `slices.SortFunc(dbcMsg.Signals, ..)`; keys "StartBit" -/

theorem total_importer_importer_importMessage_1 : TotalCmp Cmp.importer_importer_importMessage_1 := by
  unfold Cmp.importer_importer_importMessage_1
  cmp_prep
  cmp_total

/-! `md_exporter.go`, `mdExporter.exportNetwork`: `slices.SortFunc(sigTypes, ..)`; keys "size", "name", "entityID" -/

theorem total_md_exporter_mdExporter_exportNetwork_1 : TotalCmp Cmp.md_exporter_mdExporter_exportNetwork_1 := by
  unfold Cmp.md_exporter_mdExporter_exportNetwork_1
  cmp_prep
  cmp_total

theorem ties_md_exporter_mdExporter_exportNetwork_1 : TiesId (fun k => k.entityID) Cmp.md_exporter_mdExporter_exportNetwork_1 := by
  unfold Cmp.md_exporter_mdExporter_exportNetwork_1
  cmp_prep
  cmp_ties

/-! `md_exporter.go`, `mdExporter.exportNetwork`: `slices.SortFunc(sigUnits, ..)`; keys "name", "entityID" -/

theorem total_md_exporter_mdExporter_exportNetwork_2 : TotalCmp Cmp.md_exporter_mdExporter_exportNetwork_2 := by
  unfold Cmp.md_exporter_mdExporter_exportNetwork_2
  cmp_prep
  cmp_total

theorem ties_md_exporter_mdExporter_exportNetwork_2 : TiesId (fun k => k.entityID) Cmp.md_exporter_mdExporter_exportNetwork_2 := by
  unfold Cmp.md_exporter_mdExporter_exportNetwork_2
  cmp_prep
  cmp_ties

/-! `md_exporter.go`, `mdExporter.exportNetwork`: `slices.SortFunc(sigEnums, ..)`; keys "name", "entityID" -/

theorem total_md_exporter_mdExporter_exportNetwork_3 : TotalCmp Cmp.md_exporter_mdExporter_exportNetwork_3 := by
  unfold Cmp.md_exporter_mdExporter_exportNetwork_3
  cmp_prep
  cmp_total

theorem ties_md_exporter_mdExporter_exportNetwork_3 : TiesId (fun k => k.entityID) Cmp.md_exporter_mdExporter_exportNetwork_3 := by
  unfold Cmp.md_exporter_mdExporter_exportNetwork_3
  cmp_prep
  cmp_ties

/-! `message.go`, `Message.Receivers`: `slices.SortFunc(recSlice, ..)`; keys "node.name", "node.entityID" -/

theorem total_message_Message_Receivers_1 : TotalCmp Cmp.message_Message_Receivers_1 := by
  unfold Cmp.message_Message_Receivers_1
  cmp_prep
  cmp_total

theorem ties_message_Message_Receivers_1 : TiesId (fun k => k.node_entityID) Cmp.message_Message_Receivers_1 := by
  unfold Cmp.message_Message_Receivers_1
  cmp_prep
  cmp_ties

/-! `network.go`, `Network.Buses`: `slices.SortFunc(busSlice, ..)`; keys "name", "entityID" -/

theorem total_network_Network_Buses_1 : TotalCmp Cmp.network_Network_Buses_1 := by
  unfold Cmp.network_Network_Buses_1
  cmp_prep
  cmp_total

theorem ties_network_Network_Buses_1 : TiesId (fun k => k.entityID) Cmp.network_Network_Buses_1 := by
  unfold Cmp.network_Network_Buses_1
  cmp_prep
  cmp_ties

/-! `node_iterface.go`, `NodeInterface.SentMessages`: `slices.SortFunc(msgSlice, ..)`; keys "id", "entityID" -/

theorem total_node_iterface_NodeInterface_SentMessages_1 : TotalCmp Cmp.node_iterface_NodeInterface_SentMessages_1 := by
  unfold Cmp.node_iterface_NodeInterface_SentMessages_1
  cmp_prep
  cmp_total

theorem ties_node_iterface_NodeInterface_SentMessages_1 : TiesId (fun k => k.entityID) Cmp.node_iterface_NodeInterface_SentMessages_1 := by
  unfold Cmp.node_iterface_NodeInterface_SentMessages_1
  cmp_prep
  cmp_ties

/-! `node_iterface.go`, `NodeInterface.ReceivedMessages`: `slices.SortFunc(msgSlice, ..)`; keys "id", "entityID" -/

theorem total_node_iterface_NodeInterface_ReceivedMessages_1 : TotalCmp Cmp.node_iterface_NodeInterface_ReceivedMessages_1 := by
  unfold Cmp.node_iterface_NodeInterface_ReceivedMessages_1
  cmp_prep
  cmp_total

theorem ties_node_iterface_NodeInterface_ReceivedMessages_1 : TiesId (fun k => k.entityID) Cmp.node_iterface_NodeInterface_ReceivedMessages_1 := by
  unfold Cmp.node_iterface_NodeInterface_ReceivedMessages_1
  cmp_prep
  cmp_ties

/-! `saver.go`, `saver.saveNetwork`: `slices.SortFunc(canIDBuilders, ..)`; keys "name", "entityID" -/

theorem total_saver_saver_saveNetwork_1 : TotalCmp Cmp.saver_saver_saveNetwork_1 := by
  unfold Cmp.saver_saver_saveNetwork_1
  cmp_prep
  cmp_total

theorem ties_saver_saver_saveNetwork_1 : TiesId (fun k => k.entityID) Cmp.saver_saver_saveNetwork_1 := by
  unfold Cmp.saver_saver_saveNetwork_1
  cmp_prep
  cmp_ties

/-! `saver.go`, `saver.saveNetwork`: `slices.SortFunc(nodes, ..)`; keys "id", "entityID" -/

theorem total_saver_saver_saveNetwork_2 : TotalCmp Cmp.saver_saver_saveNetwork_2 := by
  unfold Cmp.saver_saver_saveNetwork_2
  cmp_prep
  cmp_total

theorem ties_saver_saver_saveNetwork_2 : TiesId (fun k => k.entityID) Cmp.saver_saver_saveNetwork_2 := by
  unfold Cmp.saver_saver_saveNetwork_2
  cmp_prep
  cmp_ties

/-! `saver.go`, `saver.saveNetwork`: `slices.SortFunc(sigTypes, ..)`; keys "name", "entityID" -/

theorem total_saver_saver_saveNetwork_3 : TotalCmp Cmp.saver_saver_saveNetwork_3 := by
  unfold Cmp.saver_saver_saveNetwork_3
  cmp_prep
  cmp_total

theorem ties_saver_saver_saveNetwork_3 : TiesId (fun k => k.entityID) Cmp.saver_saver_saveNetwork_3 := by
  unfold Cmp.saver_saver_saveNetwork_3
  cmp_prep
  cmp_ties

/-! `saver.go`, `saver.saveNetwork`: `slices.SortFunc(sigUnits, ..)`; keys "name", "entityID" -/

theorem total_saver_saver_saveNetwork_4 : TotalCmp Cmp.saver_saver_saveNetwork_4 := by
  unfold Cmp.saver_saver_saveNetwork_4
  cmp_prep
  cmp_total

theorem ties_saver_saver_saveNetwork_4 : TiesId (fun k => k.entityID) Cmp.saver_saver_saveNetwork_4 := by
  unfold Cmp.saver_saver_saveNetwork_4
  cmp_prep
  cmp_ties

/-! `saver.go`, `saver.saveNetwork`: `slices.SortFunc(sigEnums, ..)`; keys "name", "entityID" -/

theorem total_saver_saver_saveNetwork_5 : TotalCmp Cmp.saver_saver_saveNetwork_5 := by
  unfold Cmp.saver_saver_saveNetwork_5
  cmp_prep
  cmp_total

theorem ties_saver_saver_saveNetwork_5 : TiesId (fun k => k.entityID) Cmp.saver_saver_saveNetwork_5 := by
  unfold Cmp.saver_saver_saveNetwork_5
  cmp_prep
  cmp_ties

/-! `saver.go`, `saver.saveNetwork`: `slices.SortFunc(attributes, ..)`; keys "Name()", "EntityID()" -/

theorem total_saver_saver_saveNetwork_6 : TotalCmp Cmp.saver_saver_saveNetwork_6 := by
  unfold Cmp.saver_saver_saveNetwork_6
  cmp_prep
  cmp_total

theorem ties_saver_saver_saveNetwork_6 : TiesId (fun k => k.entityID) Cmp.saver_saver_saveNetwork_6 := by
  unfold Cmp.saver_saver_saveNetwork_6
  cmp_prep
  cmp_ties

/-! `signal_enum.go`, `SignalEnum.Values`: `slices.SortFunc(valueSlice, ..)`; keys "index" -/

theorem total_signal_enum_SignalEnum_Values_1 : TotalCmp Cmp.signal_enum_SignalEnum_Values_1 := by
  unfold Cmp.signal_enum_SignalEnum_Values_1
  cmp_prep
  cmp_total

/-! `utils.go`, `CalculateBusLoad`: `slices.SortFunc(msgLoads, ..)`; keys "BitsPerSec" -/

theorem total_utils_CalculateBusLoad_1 : TotalCmp Cmp.utils_CalculateBusLoad_1 := by
  unfold Cmp.utils_CalculateBusLoad_1
  cmp_prep
  cmp_total

/-! ### comparators of a single key: a tie implies an equal key (which is unique in the sorted
collection, or the site is not on an export path — see `Acme.Props.GenComparators.nonIdComparators`) -/

theorem ties_bus_Bus_NodeInterfaces_1 : TiesId (fun k => k.node_id) Cmp.bus_Bus_NodeInterfaces_1 := by
  unfold Cmp.bus_Bus_NodeInterfaces_1
  cmp_prep
  cmp_ties

theorem ties_importer_importer_importValueEncoding_1 : TiesId (fun k => k.ID) Cmp.importer_importer_importValueEncoding_1 := by
  unfold Cmp.importer_importer_importValueEncoding_1
  cmp_prep
  cmp_ties

theorem ties_importer_importer_importMessage_1 : TiesId (fun k => k.StartBit) Cmp.importer_importer_importMessage_1 := by
  unfold Cmp.importer_importer_importMessage_1
  cmp_prep
  cmp_ties

theorem ties_signal_enum_SignalEnum_Values_1 : TiesId (fun k => k.index) Cmp.signal_enum_SignalEnum_Values_1 := by
  unfold Cmp.signal_enum_SignalEnum_Values_1
  cmp_prep
  cmp_ties

theorem ties_utils_CalculateBusLoad_1 : TiesId (fun k => k.BitsPerSec) Cmp.utils_CalculateBusLoad_1 := by
  unfold Cmp.utils_CalculateBusLoad_1
  cmp_prep
  cmp_ties

/-! ### the aggregated obligation -/

/-- every generated comparator is total, and tie-free up to the entity id when the generated
    table says that it ends in the entity id.  A comparator added to the source adds an element
    to `Cmp.all` for which no alternative below applies. -/
theorem all_good : ∀ c ∈ Cmp.all, c.Good := by
  simp only [Cmp.all, List.mem_cons, List.mem_nil_iff, or_false, forall_eq_or_imp, forall_eq,
    AnyCmp.Good]
  repeat' apply And.intro
  all_goals first
    | trivial

    | exact total_bus_Bus_NodeInterfaces_1

    | exact total_entity_withAttributes_AttributeAssignments_1

    | exact ties_entity_withAttributes_AttributeAssignments_1

    | exact total_exporter_exporter_exportBus_1

    | exact ties_exporter_exporter_exportBus_1

    | exact total_importer_importer_importValueEncoding_1

    | exact total_importer_importer_importMessage_1

    | exact total_md_exporter_mdExporter_exportNetwork_1

    | exact ties_md_exporter_mdExporter_exportNetwork_1

    | exact total_md_exporter_mdExporter_exportNetwork_2

    | exact ties_md_exporter_mdExporter_exportNetwork_2

    | exact total_md_exporter_mdExporter_exportNetwork_3

    | exact ties_md_exporter_mdExporter_exportNetwork_3

    | exact total_message_Message_Receivers_1

    | exact ties_message_Message_Receivers_1

    | exact total_network_Network_Buses_1

    | exact ties_network_Network_Buses_1

    | exact total_node_iterface_NodeInterface_SentMessages_1

    | exact ties_node_iterface_NodeInterface_SentMessages_1

    | exact total_node_iterface_NodeInterface_ReceivedMessages_1

    | exact ties_node_iterface_NodeInterface_ReceivedMessages_1

    | exact total_saver_saver_saveNetwork_1

    | exact ties_saver_saver_saveNetwork_1

    | exact total_saver_saver_saveNetwork_2

    | exact ties_saver_saver_saveNetwork_2

    | exact total_saver_saver_saveNetwork_3

    | exact ties_saver_saver_saveNetwork_3

    | exact total_saver_saver_saveNetwork_4

    | exact ties_saver_saver_saveNetwork_4

    | exact total_saver_saver_saveNetwork_5

    | exact ties_saver_saver_saveNetwork_5

    | exact total_saver_saver_saveNetwork_6

    | exact ties_saver_saver_saveNetwork_6

    | exact total_signal_enum_SignalEnum_Values_1

    | exact total_utils_CalculateBusLoad_1


end Acme.GenCmp
