/-
Multiplexer world, part K: `msg.rm` of a top-level signal (`Message.RemoveSignal`).
-/
import Acme.Proofs.MuxAttach

namespace Acme.Mux
open Acme.Layout Acme.Arith

theorem slotsOf_sDel (w : MW) (ids : List Nat) (s : Nat) (hst : ∀ i ∈ ids, (w.sigs.get i).isSome) :
    slotsOf w (sDel ids s) = remove (slotsOf w ids) s := by
  induction ids with
  | nil => rfl
  | cons i rest ih =>
    have hi := hst i List.mem_cons_self
    have ih := ih (fun j hj => hst j (List.mem_cons_of_mem _ hj))
    cases he : w.sigs.get i with
    | none => rw [he] at hi; simp at hi
    | some e =>
      simp only [sDel, remove] at ih ⊢
      rw [List.filter_cons]
      simp only [slotsOf, he]
      rw [List.filter_cons]
      by_cases his : i = s
      · subst his
        simp only [ne_eq, not_true_eq_false, decide_false, Bool.false_eq_true, ↓reduceIte]
        exact ih
      · simp only [ne_eq, his, not_false_eq_true, decide_true, ↓reduceIte, slotsOf, he, List.cons.injEq, true_and]
        exact ih

/-- the subtree of a registered signal is registered -/
theorem below_registered (w : MW) (h : InvCore w) (s t : Nat) (se : SigE) (hs : w.sigs.get s = some se)
    (hb : Below w t s) : ∃ e, w.sigs.get t = some e ∧ e.parentMsg = se.parentMsg ∧ e.parentMux ≠ none ∧ t ≠ s := by
  obtain ⟨k, e, p, he, hp, hr⟩ := hb
  obtain ⟨et, het, hmm⟩ := Anc_stored w h (k + 1) t s e he ⟨e, p, he, hp, hr⟩
  rw [hs] at het; cases het
  refine ⟨e, he, hmm.symm, by rw [hp]; simp, ?_⟩
  rintro rfl
  exact not_below_self w h.treeOK t ⟨k, e, p, he, hp, hr⟩

theorem inv_msgDetachTop (w : MW) (h : InvCore w) (m s : Nat) (msg : MsgE) (se : SigE)
    (hm : w.msgs.get m = some msg) (hs : w.sigs.get s = some se) (hin : s ∈ msg.signals)
    (hpx : se.parentMux = none) :
    InvCore (msgDetachTop w m s) ∧ genPanics (msgDetachTop w m s) (layoutOf (msgDetachTop w m s) m) = false := by
  have hmo := h.msgOK hm
  have hpm : se.parentMsg = some m := by
    obtain ⟨e, he, hp⟩ := (hmo.reg s).mp hin
    rw [hs] at he; cases he; exact hp
  have hsl : s ∈ msg.layout := (hmo.top s).mpr ⟨se, hs, hpx, hpm⟩
  obtain ⟨D, hDd⟩ : ∃ D, D = descendants w (fuelOf w) s := ⟨_, rfl⟩
  have hD : ∀ t, t ∈ D ↔ Below w t s := by
    intro t; rw [hDd, mem_descendants_iff w h.treeOK]; rfl
  generalize hW : msgDetachTop w m s = W'
  have hsigsW : W'.sigs = setParentMsgs w.sigs none (s :: D) := by
    rw [← hW]
    unfold msgDetachTop
    rw [msgRemoveSignal_eq w m s msg hm, ← hDd]
    simp
  have hgW : ∀ i, W'.sigs.get i =
      if i ∈ s :: D then (w.sigs.get i).map (fun e => { e with parentMsg := none }) else w.sigs.get i := by
    intro i; rw [hsigsW]; exact setParentMsgs_get _ _ _ _
  have hgM : ∀ j, W'.msgs.get j = if j = m then some
        { sizeByte := msg.sizeByte, cap := msg.cap, layout := sDel msg.layout s,
          signals := sDelAll msg.signals (s :: D),
          signalNames := nmDelAll msg.signalNames (nameOf w s :: ((s :: D).flatMap (childNamesOf w)).map (·.1)) }
      else w.msgs.get j := by
    intro j
    rw [← hW]
    unfold msgDetachTop
    rw [msgRemoveSignal_eq w m s msg hm, ← hDd]
    simp only [AMap.get_set, ↓reduceIte]
    by_cases hj : j = m
    · simp [hj, nmDelAll]
    · simp [hj]
  have hlay : layoutOf W' m = sDel msg.layout s := by
    unfold layoutOf; rw [hgM]; simp
  rw [hlay]
  have hDfacts : ∀ t, t ∈ D → ∃ e, w.sigs.get t = some e ∧ e.parentMsg = some m ∧ e.parentMux ≠ none ∧ t ≠ s := by
    intro t ht
    obtain ⟨e, he, a1, a2, a3⟩ := below_registered w h s t se hs ((hD t).mp ht)
    exact ⟨e, he, by rw [a1, hpm], a2, a3⟩
  have hWin : ∀ t e, t ∈ s :: D → w.sigs.get t = some e → W'.sigs.get t = some { e with parentMsg := none } := by
    intro t e ht he; rw [hgW, if_pos ht, he]; rfl
  have hWout : ∀ t, t ∉ s :: D → W'.sigs.get t = w.sigs.get t := by
    intro t ht; rw [hgW, if_neg ht]
  have hclosed : ∀ t e x, w.sigs.get t = some e → e.parentMux = some x → (t ∈ s :: D ↔ x ∈ s :: D) := by
    intro t e x he hp
    have hts : t ≠ s := by rintro rfl; rw [hs] at he; cases he; rw [hpx] at hp; cases hp
    simp only [List.mem_cons, hts, false_or, hD]
    exact below_parent w t s e x he hp
  have hparts := parts_setParentMsgs w h (s :: D) none W'.msgs hclosed (fun m' hh => by cases hh)
    (fun m' hh => by rw [hgM]; by_cases hj : m' = m <;> simp [hj, hh])
  have hWeq : W' = { sigs := setParentMsgs w.sigs none (s :: D), msgs := W'.msgs } := by rw [← hsigsW]
  rw [← hWeq] at hparts
  obtain ⟨p1, p2, p3⟩ := hparts
  have hstl : ∀ i ∈ msg.layout, (w.sigs.get i).isSome := by
    intro i hi
    obtain ⟨e, he, _⟩ := (hmo.top i).mp hi
    simp [he]
  have hslots : slotsOf W' (sDel msg.layout s) = remove (slotsOf w msg.layout) s := by
    rw [← slotsOf_sDel w msg.layout s hstl]
    apply slotsOf_congr
    intro i hi
    rw [hgW]
    split
    · cases hg : w.sigs.get i with
      | none => rfl
      | some e => rfl
    · rfl
  have hwfW : WF msg.cap (slotsOf W' (sDel msg.layout s)) := by
    rw [hslots]; exact (remove_wf msg.cap _ hmo.wf s).1
  refine ⟨?_, genPanics_false W' msg.cap _ hwfW⟩
  have hnameW : ∀ t, nameOf W' t = nameOf w t := by
    intro t
    unfold nameOf
    rw [hgW]
    by_cases hta : t ∈ s :: D
    · rw [if_pos hta]
      cases hg : w.sigs.get t <;> rfl
    · rw [if_neg hta]
  apply InvCore.of_parts p1 _ p2 p3
  intro j msg' hj
  rw [hgM] at hj
  by_cases hjm : j = m
  · subst hjm
    simp only [↓reduceIte, Option.some.injEq] at hj
    subst hj
    have hexact := childNames_exact w (fun x xe gc gs hx hk => (h.muxOK hx hk).names)
    have hks : ∀ n, n ∈ (nameOf w s :: ((s :: D).flatMap (childNamesOf w)).map (·.1)) ↔ ∃ i, i ∈ s :: D ∧ nameOf w i = n := by
      intro n
      simp only [List.mem_cons, List.mem_map]
      constructor
      · rintro (rfl | ⟨p, hp, rfl⟩)
        · exact ⟨s, Or.inl rfl, rfl⟩
        · have := (mem_subtreeNames w h.treeOK s hexact p.1 p.2).mp (by rw [← hDd]; exact hp)
          rw [← hDd] at this
          exact ⟨p.2, Or.inr this.1, this.2⟩
      · rintro ⟨i, rfl | hi, hn⟩
        · exact Or.inl hn.symm
        · right
          refine ⟨(n, i), ?_, rfl⟩
          have := (mem_subtreeNames w h.treeOK s hexact n i).mpr (by rw [← hDd]; exact ⟨hi, hn⟩)
          rw [← hDd] at this
          exact this
    obtain ⟨r1, r2, r3⟩ := registry_del w W' j msg hmo (s :: D) _
      (by
        intro t ht
        simp only [List.mem_cons] at ht
        rcases ht with rfl | ht
        · exact hin
        · obtain ⟨e, he, hp, _⟩ := hDfacts t ht
          exact (hmo.reg t).mpr ⟨e, he, hp⟩)
      (by
        intro t ht e' he' hp
        have hst : ∃ e, w.sigs.get t = some e := by
          simp only [List.mem_cons] at ht
          rcases ht with rfl | ht
          · exact ⟨se, hs⟩
          · obtain ⟨e, he, _⟩ := hDfacts t ht; exact ⟨e, he⟩
        obtain ⟨e, he⟩ := hst
        rw [hWin t e ht he] at he'
        cases he'
        cases hp)
      (by intro t ht; rw [hWout t ht])
      (fun t _ => hnameW t) hks
    refine ⟨hmo.cap, hwfW, nodup_sDel _ _ hmo.nodup, ?_, r1, r2, r3⟩
    intro t
    show t ∈ sDel msg.layout s ↔ _
    rw [mem_sDel]
    constructor
    · rintro ⟨ht, hts⟩
      obtain ⟨e, he, hp1, hp2⟩ := (hmo.top t).mp ht
      have : t ∉ s :: D := by
        simp only [List.mem_cons, hts, false_or]
        intro htd
        obtain ⟨e0, he0, _, hpn, _⟩ := hDfacts t htd
        rw [he] at he0; cases he0
        exact hpn hp1
      exact ⟨e, by rw [hWout t this]; exact he, hp1, hp2⟩
    · rintro ⟨e', he', hp1, hp2⟩
      have hta : t ∉ s :: D := by
        intro hta
        have hst : ∃ e, w.sigs.get t = some e := by
          simp only [List.mem_cons] at hta
          rcases hta with rfl | hta
          · exact ⟨se, hs⟩
          · obtain ⟨e, he, _⟩ := hDfacts t hta; exact ⟨e, he⟩
        obtain ⟨e, he⟩ := hst
        rw [hWin t e hta he] at he'
        cases he'; cases hp2
      rw [hWout t hta] at he'
      refine ⟨(hmo.top t).mpr ⟨e', he', hp1, hp2⟩, ?_⟩
      rintro rfl
      exact hta List.mem_cons_self
  · rw [if_neg hjm] at hj
    have hmo' := h.msgOK hj
    have hnot : ∀ t, t ∈ msg'.signals → t ∉ s :: D := by
      intro t ht hta
      obtain ⟨e, he, hp⟩ := (hmo'.reg t).mp ht
      simp only [List.mem_cons] at hta
      rcases hta with rfl | hta
      · rw [hs] at he; cases he; rw [hpm] at hp; cases hp; exact hjm rfl
      · obtain ⟨e0, he0, hp0, _⟩ := hDfacts t hta
        rw [he] at he0; cases he0; rw [hp0] at hp; cases hp; exact hjm rfl
    apply hmo'.frame
    · intro t ht
      obtain ⟨e, he, _⟩ := (hmo'.reg t).mp ht
      exact ⟨e, e, he, by rw [hWout t (hnot t ht)]; exact he, ⟨rfl, rfl, rfl⟩, rfl⟩
    · intro t e' he' hp
      by_cases hta : t ∈ s :: D
      · have hst : ∃ e, w.sigs.get t = some e := by
          simp only [List.mem_cons] at hta
          rcases hta with rfl | hta
          · exact ⟨se, hs⟩
          · obtain ⟨e, he, _⟩ := hDfacts t hta; exact ⟨e, he⟩
        obtain ⟨e, he⟩ := hst
        rw [hWin t e hta he] at he'
        cases he'; cases hp
      · rw [hWout t hta] at he'
        exact (hmo'.reg t).mpr ⟨e', he', hp⟩

end Acme.Mux
