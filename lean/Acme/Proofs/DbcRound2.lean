/-
C08, write-then-parse, part 2: the sections with floats and multiplexing marks
(messages and signals, environment variables, signal types).
-/
import Acme.Proofs.DbcBasic

set_option linter.unusedSimpArgs false

namespace Acme.Dbc

/-! ## pieces of a signal -/

theorem parseOptMux_write (s : Signal) (ts : List Token) (h : u32 s.muxSwitchValue = true)
    (hz : (s.isMultiplexed || s.muxSwitchValue == 0) = true) :
    parseOptMux (writeMuxIndicator s ++ Token.p .colon :: ts) =
      .ok ((s.isMultiplexor, s.isMultiplexed, s.muxSwitchValue), Token.p .colon :: ts) := by
  unfold writeMuxIndicator
  cases hd : s.isMultiplexed <;> cases hr : s.isMultiplexor
  · rw [hd] at hz
    simp only [Bool.false_or, beq_iff_eq] at hz
    simp [parseOptMux, Token.p, hz]
  · rw [hd] at hz
    simp only [Bool.false_or, beq_iff_eq] at hz
    simp [parseOptMux, parseMuxIndicator_M, hz]
  · simp [parseOptMux, parseMuxIndicator_m _ h]
  · simp [parseOptMux, parseMuxIndicator_mM _ h]

theorem parseByteOrder_write (b : ByteOrder) (ts : List Token) :
    parseByteOrder (writeByteOrder b :: ts) = .ok (b, ts) := by
  cases b <;> simp [parseByteOrder, writeByteOrder, scanUint, uintOf, parseUint_lit0, parseUint_lit1]

theorem parseValueType_write (v : ValueType) (ts : List Token) :
    parseValueType (writeValueType v :: ts) = .ok (v, ts) := by
  cases v <;> rfl

theorem parseScaling_write (a b c d : String) (ts : List Token)
    (ha : acceptedFloatText a = true) (hb : acceptedFloatText b = true)
    (hc : acceptedFloatText c = true) (hd : acceptedFloatText d = true) :
    parseScaling (Token.p .leftParen :: .number a :: Token.p .comma :: .number b ::
      Token.p .rightParen :: Token.p .leftSquareBrace :: .number c :: Token.p .pipe ::
      .number d :: Token.p .rightSquareBrace :: ts) = .ok ((a, b, c, d), ts) := by
  simp [parseScaling, scanDouble_number _ _ _ _ ha, scanDouble_number _ _ _ _ hb,
    scanDouble_number _ _ _ _ hc, scanDouble_number _ _ _ _ hd]

theorem parseSignal_write (fl : String → Bool)
    (hfl : ∀ s, fl s = true → acceptedFloatText s = true) (s : Signal) (rest : List Token) (h : signalOK fl s = true)
    (hr : NoCommaHead rest) :
    parseSignal ((writeSignal s).tail ++ rest) = .ok (s, rest) := by
  simp only [signalOK, Bool.and_eq_true] at h
  obtain ⟨⟨⟨⟨⟨⟨⟨⟨⟨⟨⟨hname, hmux⟩, hmz⟩, hsize⟩, hstart⟩, hf⟩, ho⟩, hmin⟩, hmax⟩, _⟩, hne⟩, hrecv⟩ := h
  have hm := parseOptMux_write s
  obtain ⟨name, isMultiplexor, isMultiplexed, muxSwitchValue, size, startBit, byteOrder, valueType,
    factor, offset, min, max, unit, receivers⟩ := s
  cases receivers with
  | nil => simp at hne
  | cons r0 rs =>
    simp only [List.all_cons, Bool.and_eq_true] at hrecv
    simp only at hm
    simp [writeSignal, Token.kw, uintTok, parseSignal, parseSignalName,
      classifyWord_of_identOK hname, hm _ hmux hmz, scanUint_uintTok _ _ _ _ hsize,
      scanUint_uintTok _ _ _ _ hstart, parseByteOrder_write, parseValueType_write,
      doubleToks_of_accepted (hfl _ hf), doubleToks_of_accepted (hfl _ ho),
      doubleToks_of_accepted (hfl _ hmin), doubleToks_of_accepted (hfl _ hmax),
      parseScaling_write _ _ _ _ _ (hfl _ hf) (hfl _ ho) (hfl _ hmin) (hfl _ hmax),
      commaList, wordToks, classifyWord_of_identOK hrecv.1,
      parseCommaIdents_words _ _ _ hrecv.2 hr]

theorem writeSignal_eq (s : Signal) : writeSignal s = Token.kw .signal :: (writeSignal s).tail := by
  simp [writeSignal]

theorem followSig_writeSignals (ss : List Signal) (rest : List Token) (hr : Follow rest) :
    FollowSig (writeSignals ss ++ rest) := by
  cases ss with
  | nil => exact hr.sig
  | cons s ss => simp [writeSignals, writeSignal, Token.kw, FollowSig]

theorem parseSignals_follow (n : Nat) (rest : List Token) (hr : Follow rest) :
    parseSignals (n + 1) rest = .ok ([], rest) := by
  cases rest with
  | nil => rfl
  | cons t ts =>
    cases t <;> try rfl
    rename_i v
    rw [parseSignals_succ_kw, if_neg hr]

theorem parseSignals_write (fl : String → Bool)
    (hfl : ∀ s, fl s = true → acceptedFloatText s = true) (ss : List Signal) (rest : List Token)
    (h : ss.all (signalOK fl) = true) (hr : Follow rest) :
    ∀ n, ss.length < n → parseSignals n (writeSignals ss ++ rest) = .ok (ss, rest) := by
  induction ss with
  | nil =>
    intro n hn
    obtain ⟨n, rfl⟩ : ∃ n', n = n' + 1 := ⟨n - 1, by simp at hn; omega⟩
    exact parseSignals_follow n rest hr
  | cons s ss ih =>
    intro n hn
    simp only [List.all_cons, Bool.and_eq_true] at h
    obtain ⟨n, rfl⟩ : ∃ n', n = n' + 1 := ⟨n - 1, by simp at hn; omega⟩
    have hn' : ss.length < n := by simp at hn; omega
    have hsig := parseSignal_write fl hfl s (writeSignals ss ++ rest) h.1
      (followSig_writeSignals ss rest hr).noComma
    simp only [writeSignals, List.append_assoc]
    rw [writeSignal_eq, List.cons_append, Token.kw,
      parseSignals_succ_kw, getKeywordKind_getKeyword, if_pos rfl, hsig]
    simp only [ih h.2 n hn']

theorem length_writeSignals (ss : List Signal) : ss.length ≤ (writeSignals ss).length := by
  induction ss with
  | nil => simp [writeSignals]
  | cons s ss ih =>
    rw [writeSignals, writeSignal_eq]
    simp only [List.length_append, List.length_cons]
    omega

theorem step_message (fl : String → Bool)
    (hfl : ∀ s, fl s = true → acceptedFloatText s = true) (hex : Bool) (pf : PFlags) (ast : File) (m : Message) (rest : List Token)
    (h : messageOK fl m = true) (hr : Follow rest) :
    stepSection hex pf ast (writeMessage m ++ rest) =
      .ok (({ ast with messages := ast.messages ++ [m] }, pf), rest) := by
  simp only [messageOK, Bool.and_eq_true] at h
  have hs := parseSignals_write fl hfl m.signals rest h.2 hr
    ((writeSignals m.signals ++ rest).length + 1) (by
      have := length_writeSignals m.signals
      simp only [List.length_append]
      omega)
  simp [stepSection, writeMessage, uintTok, Token.kw, parseSection, parseMessage,
    parseMessageID_uintTok _ _ h.1.1.1.1, classifyWord_of_identOK h.1.1.1.2,
    scanUint_uintTok _ _ _ _ h.1.1.2, classifyWord_of_identOK h.1.2]
  simp only [List.length_append] at hs
  simp [hs]

/-! ## environment variables, signal types -/

theorem scanUint_envVarType (m1 m2 : String) (t : EnvVarType) (ts : List Token) :
    scanUint m1 m2 (writeEnvVarType t :: ts) =
      .ok ((match t with | .int => 0 | .float => 1 | .string => 2), ts) := by
  cases t <;> simp [scanUint, writeEnvVarType, uintOf, parseUint_lit0, parseUint_lit1, parseUint_lit2]

theorem step_envVar (fl : String → Bool)
    (hfl : ∀ s, fl s = true → acceptedFloatText s = true) (hex : Bool) (pf : PFlags) (ast : File) (e : EnvVar) (rest : List Token)
    (h : envVarOK fl e = true) :
    stepSection hex pf ast (writeEnvVar e ++ rest) =
      .ok (({ ast with envVars := ast.envVars ++ [e] }, pf), rest) := by
  simp only [envVarOK, Bool.and_eq_true] at h
  obtain ⟨⟨⟨⟨⟨⟨⟨hname, hmin⟩, hmax⟩, _⟩, hinit⟩, hid⟩, hne⟩, hnodes⟩ := h
  obtain ⟨name, type, min, max, unit, initialValue, id, accessType, accessNodes⟩ := e
  cases accessNodes with
  | nil => simp at hne
  | cons n0 ns =>
    simp only [List.all_cons, Bool.and_eq_true] at hnodes
    cases type <;>
    simp [stepSection, writeEnvVar, uintTok, Token.kw, parseSection, parseEnvVar,
      classifyWord_of_identOK hname, scanUint_envVarType,
      doubleToks_of_accepted (hfl _ hmin), doubleToks_of_accepted (hfl _ hmax),
      doubleToks_of_accepted (hfl _ hinit), scanDouble_number _ _ _ _ (hfl _ hmin),
      scanDouble_number _ _ _ _ (hfl _ hmax), scanDouble_number _ _ _ _ (hfl _ hinit),
      scanUint_uintTok _ _ _ _ hid, accessTypeOfName?_name, parseNodeName, commaList, wordToks,
      classifyWord_of_identOK hnodes.1,
      parseCommaIdents_words _ _ _ hnodes.2 (noCommaHead_p .semicolon (by decide) _)]

theorem step_signalType (fl : String → Bool)
    (hfl : ∀ s, fl s = true → acceptedFloatText s = true) (hex : Bool) (pf : PFlags) (ast : File) (t : SignalType)
    (rest : List Token) (h : signalTypeOK fl t = true) :
    stepSection hex pf ast (writeSignalType t ++ rest) =
      .ok (({ ast with signalTypes := ast.signalTypes ++ [t] }, pf), rest) := by
  simp only [signalTypeOK, Bool.and_eq_true] at h
  obtain ⟨⟨⟨⟨⟨⟨⟨⟨hname, hsize⟩, hf⟩, ho⟩, hmin⟩, hmax⟩, _⟩, hdef⟩, hvt⟩ := h
  simp [stepSection, writeSignalType, uintTok, Token.kw, parseSection, parseSignalType,
    parseSignalTypeDef, classifyWord_of_identOK hname, scanUint_uintTok _ _ _ _ hsize,
    parseByteOrder_write, parseValueType_write,
    doubleToks_of_accepted (hfl _ hf), doubleToks_of_accepted (hfl _ ho),
    doubleToks_of_accepted (hfl _ hmin), doubleToks_of_accepted (hfl _ hmax),
    doubleToks_of_accepted (hfl _ hdef),
    parseScaling_write _ _ _ _ _ (hfl _ hf) (hfl _ ho) (hfl _ hmin) (hfl _ hmax),
    scanDouble_number _ _ _ _ (hfl _ hdef), classifyWord_of_identOK hvt]

end Acme.Dbc
