/-
Bus-level importer model (Acme.Core.ImportBus), part 1: list lemmas (position-wise relations,
the stable sort, the set of receivers), value tables and value encodings, nodes.
Core Lean only.
-/
import Acme.Spec.ImportBus

namespace Acme.ImportBus
open Acme.Arith
open Acme.Import (sortBy insBy)

/-! ### position-wise relations -/

theorem All2.imp {α β : Type} {R R' : α → β → Prop} {l : List α} {l' : List β}
    (h : All2 R l l') (himp : ∀ a b, R a b → R' a b) : All2 R' l l' := by
  induction h with
  | nil => exact .nil
  | cons hr _ ih => exact .cons (himp _ _ hr) ih

theorem All2.length_eq {α β : Type} {R : α → β → Prop} {l : List α} {l' : List β}
    (h : All2 R l l') : l.length = l'.length := by
  induction h with
  | nil => rfl
  | cons _ _ ih => simp [ih]

theorem All2.append {α β : Type} {R : α → β → Prop} {l₁ l₂ : List α} {l₁' l₂' : List β}
    (h₁ : All2 R l₁ l₁') (h₂ : All2 R l₂ l₂') : All2 R (l₁ ++ l₂) (l₁' ++ l₂') := by
  induction h₁ with
  | nil => simpa using h₂
  | cons hr _ ih => exact .cons hr ih

theorem All2.mem_zip {α β : Type} {R : α → β → Prop} {l : List α} {l' : List β}
    (h : All2 R l l') {a : α} {b : β} (hm : (a, b) ∈ l.zip l') : R a b := by
  induction h with
  | nil => simp at hm
  | cons hr _ ih =>
    simp only [List.zip_cons_cons, List.mem_cons, Prod.mk.injEq] at hm
    rcases hm with ⟨rfl, rfl⟩ | hm
    · exact hr
    · exact ih hm

theorem All2.getElem? {α β : Type} {R : α → β → Prop} {l : List α} {l' : List β}
    (h : All2 R l l') {i : Nat} {a : α} (ha : l[i]? = some a) : ∃ b, l'[i]? = some b ∧ R a b := by
  induction h generalizing i with
  | nil => simp at ha
  | cons hr _ ih =>
    cases i with
    | zero => simp at ha; subst ha; exact ⟨_, by simp, hr⟩
    | succ i => simp at ha; simpa using ih ha

theorem All2.map_eq {α β γ : Type} {R : α → β → Prop} {l : List α} {l' : List β} {f : α → γ} {g : β → γ}
    (h : All2 R l l') (hfg : ∀ a b, R a b → f a = g b) : l.map f = l'.map g := by
  induction h with
  | nil => rfl
  | cons hr _ ih => simp [hfg _ _ hr, ih]

/-! ### the stable sort -/

theorem insBy_perm' {α : Type} (key : α → Nat) (x : α) : ∀ l : List α, (insBy key x l).Perm (x :: l)
  | [] => List.Perm.refl _
  | y :: r => by
    unfold insBy
    split
    · exact List.Perm.refl _
    · exact ((insBy_perm' key x r).cons y).trans (List.Perm.swap x y r)

theorem sortBy_perm' {α : Type} (key : α → Nat) : ∀ l : List α, (sortBy key l).Perm l
  | [] => List.Perm.refl _
  | x :: r => by
    unfold sortBy
    exact (insBy_perm' key x _).trans ((sortBy_perm' key r).cons x)

theorem mem_sortBy' {α : Type} (key : α → Nat) {l : List α} {a : α} : a ∈ sortBy key l ↔ a ∈ l :=
  (sortBy_perm' key l).mem_iff

theorem sortVals_perm (vs : List DVal) : (sortVals vs).Perm vs := sortBy_perm' _ vs

theorem mem_sortedSigs {m : DMessage} {d : DSignal} : d ∈ sortedSigs m ↔ d ∈ m.sigs :=
  mem_sortBy' _

/-! ### the set of receivers -/

theorem mem_dedup {l : List String} {a : String} : a ∈ dedup l ↔ a ∈ l := by
  induction l with
  | nil => simp [dedup]
  | cons x r ih =>
    unfold dedup
    split
    · rename_i hc
      rw [ih]
      have hx : x ∈ r := List.contains_iff_mem.mp hc
      constructor
      · exact fun h => List.mem_cons_of_mem _ h
      · intro h
        rcases List.mem_cons.mp h with rfl | h
        · exact hx
        · exact h
    · simp [ih]

theorem nodup_dedup (l : List String) : (dedup l).Nodup := by
  induction l with
  | nil => simp [dedup]
  | cons x r ih =>
    unfold dedup
    split
    · exact ih
    · rename_i hc
      refine List.nodup_cons.mpr ⟨?_, ih⟩
      rw [mem_dedup]
      intro hx
      exact hc (List.contains_iff_mem.mpr hx)

theorem mem_receiversOf {sigs : List DSignal} {r : String} :
    r ∈ receiversOf sigs ↔ r ≠ placeholder ∧ ∃ d ∈ sigs, r ∈ d.receivers := by
  unfold receiversOf
  rw [List.mem_filter, mem_dedup, List.mem_flatMap]
  simp [and_comm]

theorem nodup_receiversOf (sigs : List DSignal) : (receiversOf sigs).Nodup :=
  (nodup_dedup _).filter _

/-! ### value tables and value encodings -/

theorem importTable_values {t : DTable} {e : IEnum} (h : importTable t = .ok e) :
    e.values = sortVals t.values := by
  unfold importTable at h
  split at h
  · cases h
  · cases h; rfl

theorem matchTable_values {reg : List IEnum} {sorted : List DVal} {i : Nat}
    (h : matchTable reg sorted = some i) : ∃ e, reg[i]? = some e ∧ e.values = sorted := by
  unfold matchTable at h
  split at h
  · cases h
  · obtain ⟨hi, hp, _⟩ := List.findIdx?_eq_some_iff_getElem.mp h
    exact ⟨reg[i], by simp [hi], by simpa using hp⟩

/-- the prefix relation as a statement on look-ups -/
def Ext (l l' : List IEnum) : Prop := ∀ (i : Nat) (e : IEnum), l[i]? = some e → l'[i]? = some e

theorem Ext.refl (l : List IEnum) : Ext l l := fun _ _ h => h

theorem Ext.trans {a b c : List IEnum} (h₁ : Ext a b) (h₂ : Ext b c) : Ext a c :=
  fun i e h => h₂ i e (h₁ i e h)

theorem Ext.append (l x : List IEnum) : Ext l (l ++ x) := by
  intro i e h
  have hi : i < l.length := by
    rcases Nat.lt_or_ge i l.length with hlt | hge
    · exact hlt
    · rw [List.getElem?_eq_none hge] at h; cases h
  rw [List.getElem?_append_left hi]; exact h

theorem importEnc_spec {reg enums enums' : List IEnum} {se se' : SigEnums} {c : DEnc}
    (hreg : Ext reg enums) (h : importEnc reg enums se c = .ok (enums', se')) :
    Ext enums enums' ∧ ∃ i e, se' = ((c.msgId, c.sigName), i) :: se ∧ enums'[i]? = some e ∧
      e.values = sortVals c.values := by
  unfold importEnc at h
  simp only at h
  split at h
  · rename_i i hm
    cases h
    obtain ⟨e, he, hv⟩ := matchTable_values hm
    exact ⟨Ext.refl _, i, e, rfl, hreg i e he, hv⟩
  · split at h
    · cases h
    · cases h
      refine ⟨Ext.append _ _, enums.length,
        { name := c.sigName ++ "_Enum", values := sortVals c.values, minSize := 1, refs := 0 }, rfl, ?_, rfl⟩
      simp

/-- the enum object `signalEnums` holds for a signal key, in terms of the file -/
theorem importEncs_spec {reg : List IEnum} : ∀ (l : List DEnc) {enums enums' : List IEnum} {se se' : SigEnums},
    Ext reg enums → importEncs reg enums se l = .ok (enums', se') →
    Ext enums enums' ∧ ∀ id name,
      match encOf l id name with
      | some vals => ∃ eid e, se'.lookup (id, name) = some eid ∧ enums'[eid]? = some e ∧ e.values = sortVals vals
      | none => se'.lookup (id, name) = se.lookup (id, name)
  | [], enums, enums', se, se', _, h => by
    unfold importEncs at h
    cases h
    exact ⟨Ext.refl _, fun id name => by simp [encOf]⟩
  | c :: r, enums, enums', se, se', hreg, h => by
    unfold importEncs at h
    split at h
    · cases h
    · rename_i enums1 se1 h1
      obtain ⟨hext1, i, e, hse1, hei, hev⟩ := importEnc_spec hreg h1
      obtain ⟨hext2, hall⟩ := importEncs_spec r (hreg.trans hext1) h
      refine ⟨hext1.trans hext2, fun id name => ?_⟩
      have hr := hall id name
      cases hv : encOf r id name with
      | some v =>
        rw [hv] at hr
        simp only [encOf, hv]
        exact hr
      | none =>
        rw [hv] at hr
        simp only at hr
        simp only [encOf, hv]
        by_cases hk : c.msgId = id ∧ c.sigName = name
        · rw [if_pos hk]
          obtain ⟨rfl, rfl⟩ := hk
          refine ⟨i, e, ?_, hext2 i e hei, hev⟩
          rw [hr, hse1]
          simp
        · rw [if_neg hk]
          simp only
          rw [hr, hse1]
          rw [List.lookup_cons]
          have : ((id, name) == (c.msgId, c.sigName)) = false := by
            apply beq_false_of_ne
            intro heq
            apply hk
            cases heq
            exact ⟨rfl, rfl⟩
          simp [this]

/-! ### nodes -/

theorem addNode_ok {ns ns' : List INode} {n : INode} (h : addNode ns n = .ok ns') :
    ns' = ns ++ [n] ∧ (∀ m ∈ ns, m.name ≠ n.name) ∧ (∀ m ∈ ns, m.id ≠ n.id) := by
  unfold addNode at h
  split at h
  · cases h
  · rename_i h1
    split at h
    · cases h
    · rename_i h2
      cases h
      refine ⟨rfl, ?_, ?_⟩
      · intro m hm heq
        apply h1
        simp only [List.any_eq_true, decide_eq_true_eq]
        exact ⟨m, hm, heq⟩
      · intro m hm heq
        apply h2
        simp only [List.any_eq_true, decide_eq_true_eq]
        exact ⟨m, hm, heq⟩

theorem nodesOf_cons_skip (cs : List DComment) (p : String × Nat) (r : List (String × Nat))
    (h : p.1 = placeholder) : nodesOf cs (p :: r) = nodesOf cs r := by
  simp [nodesOf, h]

theorem nodesOf_cons_keep (cs : List DComment) (p : String × Nat) (r : List (String × Nat))
    (h : p.1 ≠ placeholder) :
    nodesOf cs (p :: r) = { name := p.1, id := p.2, desc := descOf (selNode p.1) cs } :: nodesOf cs r := by
  simp [nodesOf, h]

theorem addNodes_spec (cs : List DComment) : ∀ (l : List (String × Nat)) {ns ns' : List INode},
    addNodes cs ns l = .ok ns' → (ns.map (·.name)).Nodup →
    ns' = ns ++ nodesOf cs l ∧ (ns'.map (·.name)).Nodup
  | [], ns, ns', h, hnd => by
    unfold addNodes at h
    cases h
    simp [nodesOf, hnd]
  | (name, idx) :: r, ns, ns', h, hnd => by
    unfold addNodes at h
    split at h
    · rename_i hp
      obtain ⟨h1, h2⟩ := addNodes_spec cs r h hnd
      rw [nodesOf_cons_skip cs _ _ hp]
      exact ⟨h1, h2⟩
    · rename_i hp
      split at h
      · cases h
      · rename_i ns1 ha
        obtain ⟨rfl, hname, _⟩ := addNode_ok ha
        have hnd1 : ((ns ++ [({ name := name, id := idx, desc := descOf (selNode name) cs } : INode)]).map (·.name)).Nodup := by
          rw [List.map_append, List.nodup_append]
          refine ⟨hnd, by simp, ?_⟩
          intro a hmem b hb
          simp only [List.map_cons, List.map_nil, List.mem_singleton] at hb
          subst hb
          obtain ⟨m, hm, rfl⟩ := List.mem_map.mp hmem
          exact hname m hm
        obtain ⟨h1, h2⟩ := addNodes_spec cs r h hnd1
        rw [nodesOf_cons_keep cs _ _ hp]
        refine ⟨?_, h2⟩
        rw [h1]
        simp

/-- `importNodes`: the accepted node list is `nodesOf`, names are unique, none is the placeholder
    and no id is the placeholder's -/
theorem importNodes_spec {cs : List DComment} {names : List String} {ns : List INode}
    (h : importNodes cs names = .ok ns) :
    ns = nodesOf cs names.zipIdx ∧ (ns.map (·.name)).Nodup ∧
      (∀ n ∈ ns, n.name ≠ placeholder) ∧ (∀ n ∈ ns, n.id ≠ placeholderId) := by
  unfold importNodes at h
  split at h
  · cases h
  · rename_i ns1 h1
    split at h
    · cases h
    · rename_i ns2 h2
      cases h
      obtain ⟨hns, hnd⟩ := addNodes_spec cs _ h1 (by simp)
      obtain ⟨_, hname, hid⟩ := addNode_ok h2
      refine ⟨by simpa using hns, hnd, ?_, ?_⟩
      · intro n hn; exact hname n hn
      · intro n hn; exact hid n hn

theorem mem_finalNodes_of_mem {ns : List INode} {used : Bool} {n : INode}
    (hid : ∀ n ∈ ns, n.id ≠ placeholderId) (hn : n ∈ ns) : n ∈ finalNodes ns used := by
  unfold finalNodes
  have := hid n hn
  rcases Nat.lt_or_gt_of_ne this with hlt | hgt
  · exact List.mem_append_left _ (List.mem_append_left _ (List.mem_filter.mpr ⟨hn, by simpa using hlt⟩))
  · exact List.mem_append_right _ (List.mem_filter.mpr ⟨hn, by simpa using hgt⟩)

theorem placeholder_mem_finalNodes (ns : List INode) : placeholderNode ∈ finalNodes ns true := by
  unfold finalNodes
  simp

end Acme.ImportBus
