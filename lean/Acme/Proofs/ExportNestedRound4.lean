/-
C11 at message level, nested multiplexers, part 9: what the importer collects for ONE
multiplexer of the tree — its plain children from the sorted signals, the nested multiplexers
already built — and the multiplexer it builds from them (`NCtx.node_import`).
-/
import Acme.Proofs.ExportNestedRound3

namespace Acme.Import
open Acme.Layout Acme.Conv Acme.Arith

def Sx (t : ITree) : List DSig := sortSigs (exportMsgN t).sigs
def Hx (t : ITree) : List DSig := (Sx t).filter (·.isMultiplexor)

/-- the extended entry of `s` names the multiplexor `nm` -/
def ownerIs (X : List DExt) (nm : String) (s : DSig) : Bool :=
  match findExt X s.name with
  | some e => e.muxor == nm
  | none => false

/-- the signals collected for the multiplexor `nm` by the first loop -/
def Pn (t : ITree) (nm : String) (s : DSig) : Bool :=
  !isMuxName (Hx t) s && s.isMultiplexed && ownerIs (exportMsgN t).exts nm s

def subNode (N : List MuxNode) (d : DEntry) : MuxNode := (subOf N d.2.1).getD default

/-- the entries of the nested multiplexers, by written start bit -/
def Ds (t : ITree) (r : MuxNode) : List DEntry :=
  sortBy (dKey t.bigEndian t.nested) ((Dt t r).filter (isSub t.nested))

def mkRec (t : ITree) (z : DSig × DEntry) : PRec :=
  ⟨z.1, (Sx t).filter (Pn t z.1.name), normNodeN t.bigEndian (subNode t.nested z.2),
   (muxIdx (Hx t) z.2.1.name).getD 0⟩

theorem isMuxName_iff (H : List DSig) (s : DSig) : isMuxName H s = true ↔ s.name ∈ H.map (·.name) := by
  unfold isMuxName
  rw [List.any_eq_true, List.mem_map]
  constructor
  · rintro ⟨x, hx, he⟩; exact ⟨x, hx, by simpa using he⟩
  · rintro ⟨x, hx, he⟩; exact ⟨x, hx, by simpa using he⟩

section
variable {t : ITree} {r : MuxNode} (c : NCtx t r)
include c

theorem NCtx.hxNames : (Hx t).map (·.name) = r.name :: (Ds t r).map (fun d => d.2.1.name) := by
  have h := congrArg (List.map (·.name)) c.heads
  rw [List.map_map] at h
  have e : (fun s : DSig => s.name) ∘ eraseSw = fun s : DSig => s.name := rfl
  rw [e] at h
  unfold Hx Sx
  rw [h, List.map_cons, List.map_map]
  congr 1
  apply List.map_congr_left
  intro d hd
  exact c.sigName d (List.mem_filter.1 ((sortBy_perm _ _).mem_iff.1 hd)).1

theorem NCtx.ds_mem (d : DEntry) (hd : d ∈ Ds t r) : d ∈ Dt t r ∧ isSub t.nested d = true :=
  List.mem_filter.1 ((sortBy_perm _ _).mem_iff.1 hd)

/-- a plain child is not named as a multiplexor -/
theorem NCtx.plain_notMux (d : DEntry) (hd : d ∈ Dt t r) (hp : isSub t.nested d = false) :
    d.2.1.name ∉ (Hx t).map (·.name) := by
  rw [c.hxNames]
  intro hm
  rcases List.mem_cons.1 hm with h | h
  · exact (List.nodup_cons.1 c.dnames).1 (h ▸ List.mem_map.2 ⟨d, hd, rfl⟩)
  · obtain ⟨d', hd', he⟩ := List.mem_map.1 h
    obtain ⟨h1, h2⟩ := c.ds_mem d' hd'
    have : d' = d := List.inj_on_of_nodup_map (List.nodup_cons.1 c.dnames).2 h1 hd he
    rw [this, hp] at h2
    cases h2

theorem NCtx.entry_of (m : MuxNode) (hm : m ∈ r :: reach t r) (p : Child × Int) (hp : p ∈ seenChildren m) :
    ((m, p) : DEntry) ∈ Dt t r := by
  have : ((m, p) : DEntry) ∈ (seenChildren m).map (fun p => ((m, p) : DEntry)) := List.mem_map.2 ⟨p, hp, rfl⟩
  rw [← c.own m hm] at this
  exact (List.mem_filter.1 this).1

theorem NCtx.isSub_seen (m : MuxNode) (hm : m ∈ r :: reach t r) (p : Child × Int) (hp : p ∈ seenChildren m) :
    isSub t.nested (m, p) = p.1.isMux := by
  obtain ⟨g, _⟩ := c.good _ (c.entry_of m hm p hp)
  unfold isSub
  cases hs : subOf t.nested p.1 with
  | none => rw [g.plain hs]; rfl
  | some sub => rw [(g.link sub hs).1]; rfl

/-- the plain children of `m`, as the first loop of the importer collects them -/
theorem NCtx.kidsOf (m : MuxNode) (hm : m ∈ r :: reach t r) :
    ((Sx t).filter (Pn t m.name)).map eraseSw =
      (sortBy (kidKey t.bigEndian m) ((seenChildren m).filter (fun p => !p.1.isMux))).map
        (fun p => kidSig0 t.bigEndian m p.1) := by
  have hLc : (Lc t).filter (Pn t m.name) =
      ((seenChildren m).filter (fun p => !p.1.isMux)).map (fun p => kidSig0 t.bigEndian m p.1) := by
    have h1 : (Lc t).filter (Pn t m.name) =
        ((Lc t).filter (fun s => !s.isMultiplexor && s.isMultiplexed)).filter (Pn t m.name) := by
      rw [List.filter_filter]
      apply List.filter_congr
      intro s hs
      cases hmr : s.isMultiplexor with
      | false =>
        simp only [Bool.not_false, Bool.true_and]
        cases hmd : s.isMultiplexed <;> simp [Pn, hmd]
      | true =>
        have hin : s ∈ (Lc t).filter (·.isMultiplexor) := List.mem_filter.2 ⟨hs, hmr⟩
        have hH : s ∈ (Hx t).map eraseSw := by
          unfold Hx Sx
          rw [filter_erase _ (fun _ => rfl), c.sorted, filter_sortBy]
          exact (sortBy_perm _ _).mem_iff.2 hin
        obtain ⟨h, hh, he⟩ := List.mem_map.1 hH
        have : isMuxName (Hx t) s = true := (isMuxName_iff _ _).2 (List.mem_map.2 ⟨h, hh, by rw [← he]; rfl⟩)
        simp [Pn, this]
    rw [h1]
    unfold Lc
    rw [sigsN_filter_kids, c.mux]
    simp only [List.flatMap_cons, List.flatMap_nil, List.append_nil]
    rw [List.filter_map, List.filter_filter]
    have h2 : (Dn t.nested (t.nested.length + 1) r).filter
        (fun d => (Pn t m.name ∘ sigOfD t.bigEndian t.nested) d && !isSub t.nested d) =
        ((Dt t r).filter (fun d => d.1.name == m.name)).filter (fun d => !isSub t.nested d) := by
      rw [List.filter_filter]
      apply List.filter_congr
      intro d hd
      cases hsub : isSub t.nested d with
      | true => simp
      | false =>
        have hnm := c.plain_notMux d hd hsub
        have hname := c.sigName d hd
        have h3 : isMuxName (Hx t) (sigOfD t.bigEndian t.nested d) = false := by
          cases hc : isMuxName (Hx t) (sigOfD t.bigEndian t.nested d) with
          | false => rfl
          | true => exact absurd ((isMuxName_iff _ _).1 hc) (by rw [hname]; exact hnm)
        have h4 : ownerIs (exportMsgN t).exts m.name (sigOfD t.bigEndian t.nested d) = (d.1.name == m.name) := by
          unfold ownerIs
          rw [hname, c.ext_found d hd]
          rfl
        simp [Pn, h3, h4, sigOfD_md]
    rw [h2, c.own m hm, List.filter_map, List.map_map]
    have h5 : (seenChildren m).filter ((fun d => !isSub t.nested d) ∘ fun p => ((m, p) : DEntry)) =
        (seenChildren m).filter (fun p => !p.1.isMux) := by
      apply List.filter_congr
      intro p hp
      simp [Function.comp, c.isSub_seen m hm p hp]
    rw [h5]
    apply List.map_congr_left
    intro p hp
    obtain ⟨hp1, hp2⟩ := List.mem_filter.1 hp
    have hs := c.isSub_seen m hm p hp1
    have hmx : p.1.isMux = false := by simpa using hp2
    rw [hmx] at hs
    unfold isSub at hs
    simp only [Function.comp, sigOfD]
    cases hsub : subOf t.nested p.1 with
    | none => rfl
    | some sub => rw [hsub] at hs; cases hs
  unfold Sx
  rw [filter_erase _ (fun _ => rfl), c.sorted, filter_sortBy, hLc, sortBy_map]
  rfl

theorem NCtx.kidsCore (m : MuxNode) (hm : m ∈ r :: reach t r) :
    ((Sx t).filter (Pn t m.name)).map sigCore =
      ((sortBy (kidKey t.bigEndian m) ((seenChildren m).filter (fun p => !p.1.isMux))).map (·.1)).map (kidCore m) := by
  have e : ((Sx t).filter (Pn t m.name)).map sigCore = (((Sx t).filter (Pn t m.name)).map eraseSw).map sigCore := by
    rw [List.map_map]; rfl
  rw [e, c.kidsOf m hm, List.map_map, List.map_map]
  apply List.map_congr_left
  intro p hp
  obtain ⟨hp1, hp2⟩ := List.mem_filter.1 ((sortBy_perm _ _).mem_iff.1 hp)
  have hmx : p.1.isMux = false := by simpa using hp2
  obtain ⟨hok, h0, _⟩ := c.nodeOK m hm
  have hc := (seen_invN m hok).sub p hp1
  obtain ⟨r0, r1⟩ := child_boundsN m hok p.1 hc
  have hsz := (hok.ids p.1 hc).2.2.2
  have := hok.w1
  simp only [Function.comp, sigCore, kidCore, Prod.mk.injEq]
  refine ⟨rfl, sigPos_of _ _ (by omega) _ rfl rfl, ?_, by rw [hmx]; rfl⟩
  show ((p.1.size.toNat : Nat) : Int) = p.1.size
  exact Int.toNat_of_nonneg (by omega)

/-- the nested multiplexers of `m` among the sorted entries -/
theorem NCtx.subsOf (m : MuxNode) (hm : m ∈ r :: reach t r) :
    (Ds t r).filter (fun d => d.1.name == m.name) =
      (sortBy (kidKey t.bigEndian m) ((seenChildren m).filter (fun p => p.1.isMux))).map
        (fun p => ((m, p) : DEntry)) := by
  unfold Ds
  rw [filter_sortBy, List.filter_filter]
  have h1 : (Dt t r).filter (fun d => isSub t.nested d && (d.1.name == m.name)) =
      ((Dt t r).filter (fun d => d.1.name == m.name)).filter (isSub t.nested) := by
    rw [List.filter_filter]
  have h1' : (Dt t r).filter (fun d => (d.1.name == m.name) && isSub t.nested d) =
      ((Dt t r).filter (fun d => d.1.name == m.name)).filter (isSub t.nested) := by
    rw [List.filter_filter]
    apply List.filter_congr
    intro d _
    exact Bool.and_comm _ _
  first
    | rw [h1]
    | rw [h1']
  rw [c.own m hm, List.filter_map]
  have h2 : (seenChildren m).filter (isSub t.nested ∘ fun p => ((m, p) : DEntry)) =
      (seenChildren m).filter (fun p => p.1.isMux) := by
    apply List.filter_congr
    intro p hp
    simp [Function.comp, c.isSub_seen m hm p hp]
  rw [h2, sortBy_map]
  congr 1
  apply sortBy_congr
  intro p hp
  obtain ⟨hp1, hp2⟩ := List.mem_filter.1 hp
  obtain ⟨g, _⟩ := c.good _ (c.entry_of m hm p hp1)
  have hs := c.isSub_seen m hm p hp1
  rw [hp2] at hs
  unfold isSub at hs
  cases hsub : subOf t.nested p.1 with
  | none => rw [hsub] at hs; cases hs
  | some sub =>
    obtain ⟨_, _, e2, _⟩ := g.link sub hsub
    simp only [Function.comp, dKey, sigOfD, hsub, kidKey, headSig, e2]

end

end Acme.Import
