/-
C11 at message level, nested multiplexers, part 3: facts about the list `Dn` of (owner, child)
pairs: every entry is good (owner of an expressible shape, child seen by it, links of a nested
multiplexer), the children of one owner form a contiguous-in-order sublist (`own_filter`), the
names, the order of the written start bits along a chain.
-/
import Acme.Proofs.ExportNestedTree

namespace Acme.Import
open Acme.Layout Acme.Conv Acme.Arith

/-! ### list facts -/

theorem sublist_flatMap_of_mem {α β : Type} (g : α → List β) : ∀ (l : List α) (a : α), a ∈ l →
    (g a).Sublist (l.flatMap g)
  | x :: r, a, h => by
    rw [List.flatMap_cons]
    rcases List.mem_cons.1 h with rfl | h
    · exact List.sublist_append_left _ _
    · exact (sublist_flatMap_of_mem g r a h).trans (List.sublist_append_right _ _)

theorem flatMap_sublist {α β : Type} (f g : α → List β) : ∀ (l : List α), (∀ a ∈ l, (f a).Sublist (g a)) →
    (l.flatMap f).Sublist (l.flatMap g)
  | [], _ => List.Sublist.refl _
  | x :: r, h => by
    rw [List.flatMap_cons, List.flatMap_cons]
    exact List.Sublist.append (h x (List.mem_cons_self ..)) (flatMap_sublist f g r (fun a ha => h a (List.mem_cons_of_mem _ ha)))

theorem sublist_eq_filter {α : Type} [DecidableEq α] : ∀ (l1 l : List α), l1.Sublist l → l.Nodup →
    l1 = l.filter (fun a => decide (a ∈ l1)) := by
  intro l1 l h
  induction h with
  | slnil => intro _; rfl
  | @cons l1 l a h ih =>
    intro hnd
    rw [List.nodup_cons] at hnd
    rw [List.filter_cons]
    have : a ∉ l1 := fun ha => hnd.1 (h.subset ha)
    simp only [this, decide_false, Bool.false_eq_true, if_false]
    exact ih hnd.2
  | @cons_cons l1 l a h ih =>
    intro hnd
    rw [List.nodup_cons] at hnd
    rw [List.filter_cons]
    simp only [List.mem_cons, true_or, decide_true, if_true]
    congr 1
    refine (ih hnd.2).trans ?_
    apply List.filter_congr
    intro b hb
    have : b ≠ a := fun he => hnd.1 (he ▸ hb)
    simp only [List.mem_cons, this, false_or]

/-! ### every entry is good -/

/-- what the proofs use of one entry of `Dn` -/
structure Good (be : Bool) (N : List MuxNode) (d : DEntry) : Prop where
  ok : MuxOKN d.1
  start0 : 0 ≤ d.1.start
  seen : d.2 ∈ seenChildren d.1
  plain : subOf N d.2.1 = none → d.2.1.isMux = false
  link : ∀ sub, subOf N d.2.1 = some sub → d.2.1.isMux = true ∧ d.2.1.size = sub.groupSize + sub.selW ∧
    sub.start = d.1.start + d.1.selW + d.2.1.rel ∧ fileStart be d.1.start < fileStart be sub.start ∧
    MuxOKN sub ∧ sub.name = d.2.1.name

theorem findNode_name (N : List MuxNode) (name : String) (sub : MuxNode) (h : findNode N name = some sub) :
    sub.name = name := by
  unfold findNode at h
  have := List.find?_some h
  simpa using this

theorem tree_ok (be : Bool) (N : List MuxNode) : ∀ (f : Nat) (n : MuxNode), Tree be N f n → MuxOKN n ∧ 0 ≤ n.start
  | 0, _, h => h.elim
  | _ + 1, _, h => ⟨h.1, h.2.1⟩

theorem subOf_tree (be : Bool) (N : List MuxNode) (f : Nat) (n : MuxNode) (h : Tree be N (f + 1) n)
    (p : Child × Int) (hp : p ∈ seenChildren n) :
    (subOf N p.1 = none → p.1.isMux = false) ∧
    (∀ sub, subOf N p.1 = some sub → p.1.isMux = true ∧ p.1.size = sub.groupSize + sub.selW ∧
      sub.start = n.start + n.selW + p.1.rel ∧ fileStart be n.start < fileStart be sub.start ∧
      Tree be N f sub ∧ sub.name = p.1.name) := by
  obtain ⟨hok, _, hl⟩ := h
  have hc := (seen_invN n hok).sub p hp
  constructor
  · intro hs
    cases hm : p.1.isMux with
    | false => rfl
    | true =>
      obtain ⟨sub, hf, _⟩ := hl p.1 hc hm
      simp [subOf, hm, hf] at hs
  · intro sub hs
    cases hm : p.1.isMux with
    | false => simp [subOf, hm] at hs
    | true =>
      obtain ⟨sub', hf, a, b, c, d⟩ := hl p.1 hc hm
      have : sub' = sub := by simpa [subOf, hm, hf] using hs
      subst this
      exact ⟨rfl, a, b, c, d, findNode_name N _ _ hf⟩

theorem Dn_good (be : Bool) (N : List MuxNode) : ∀ (f : Nat) (n : MuxNode), Tree be N f n →
    ∀ d ∈ Dn N f n, Good be N d ∧ (d.1 = n ∨ d.1 ∈ below N f n)
  | 0, _, h, _, _ => h.elim
  | f + 1, n, h, d, hd => by
    simp only [Dn, List.mem_flatMap] at hd
    obtain ⟨p, hp, hd⟩ := hd
    obtain ⟨hpl, hlk⟩ := subOf_tree be N f n h p hp
    rcases List.mem_cons.1 hd with rfl | hd
    · refine ⟨⟨h.1, h.2.1, hp, hpl, ?_⟩, Or.inl rfl⟩
      intro sub hs
      obtain ⟨a, b, c, e, g, k⟩ := hlk sub hs
      exact ⟨a, b, c, e, (tree_ok be N f sub g).1, k⟩
    · cases hs : subOf N p.1 with
      | none => rw [hs] at hd; cases hd
      | some sub =>
        rw [hs] at hd
        obtain ⟨_, _, _, _, g, _⟩ := hlk sub hs
        obtain ⟨g1, g2⟩ := Dn_good be N f sub g d hd
        refine ⟨g1, Or.inr ?_⟩
        simp only [below]
        refine List.mem_flatMap.2 ⟨p, hp, ?_⟩
        rw [hs]
        rcases g2 with g2 | g2
        · rw [g2]; exact List.mem_cons_self ..
        · exact List.mem_cons_of_mem _ g2

theorem below_tree (be : Bool) (N : List MuxNode) : ∀ (f : Nat) (n : MuxNode), Tree be N f n →
    ∀ m ∈ below N f n, (∃ f', Tree be N f' m) ∧ fileStart be n.start < fileStart be m.start
  | 0, _, h, _, _ => h.elim
  | f + 1, n, h, m, hm => by
    simp only [below, List.mem_flatMap] at hm
    obtain ⟨p, hp, hm⟩ := hm
    obtain ⟨_, hlk⟩ := subOf_tree be N f n h p hp
    cases hs : subOf N p.1 with
    | none => rw [hs] at hm; cases hm
    | some sub =>
      rw [hs] at hm
      obtain ⟨_, _, _, e, g, _⟩ := hlk sub hs
      rcases List.mem_cons.1 hm with rfl | hm
      · exact ⟨⟨f, g⟩, e⟩
      · obtain ⟨a, b⟩ := below_tree be N f sub g m hm
        exact ⟨a, by omega⟩

/-! ### the children of one owner -/

theorem seen_sublist (be : Bool) (N : List MuxNode) : ∀ (f : Nat) (n : MuxNode), Tree be N f n →
    ∀ m ∈ n :: below N f n, ((seenChildren m).map (fun p => ((m, p) : DEntry))).Sublist (Dn N f n)
  | 0, _, h, _, _ => h.elim
  | f + 1, n, h, m, hm => by
    rcases List.mem_cons.1 hm with rfl | hm
    · simp only [Dn]
      have : (seenChildren m).map (fun p => ((m, p) : DEntry)) = (seenChildren m).flatMap (fun p => [((m, p) : DEntry)]) := by
        induction (seenChildren m) with
        | nil => rfl
        | cons x r ih => simp [ih]
      rw [this]
      apply flatMap_sublist
      intro p _
      exact List.Sublist.cons_cons _ (List.nil_sublist _)
    · simp only [below, List.mem_flatMap] at hm
      obtain ⟨p, hp, hm⟩ := hm
      obtain ⟨_, hlk⟩ := subOf_tree be N f n h p hp
      cases hs : subOf N p.1 with
      | none => rw [hs] at hm; cases hm
      | some sub =>
        rw [hs] at hm
        obtain ⟨_, _, _, _, g, _⟩ := hlk sub hs
        have ih := seen_sublist be N f sub g m hm
        simp only [Dn]
        refine List.Sublist.trans ?_ (sublist_flatMap_of_mem _ _ p hp)
        rw [hs]
        exact ih.trans (List.sublist_cons_self _ _)

/-- the entries of the owner `m`: its children as it sees them, in this order -/
theorem own_filter (be : Bool) (N : List MuxNode) (f : Nat) (n : MuxNode) (h : Tree be N f n)
    (hnd : (Dn N f n).Nodup) (hnames : ((n :: below N f n).map (·.name)).Nodup)
    (m : MuxNode) (hm : m ∈ n :: below N f n) :
    (Dn N f n).filter (fun d => d.1.name == m.name) = (seenChildren m).map (fun p => ((m, p) : DEntry)) := by
  have hsub := seen_sublist be N f n h m hm
  rw [sublist_eq_filter _ _ hsub hnd]
  apply List.filter_congr
  intro d hd
  obtain ⟨g, hown⟩ := Dn_good be N f n h d hd
  have hdn : d.1 ∈ n :: below N f n := by
    rcases hown with h1 | h1
    · rw [h1]; exact List.mem_cons_self ..
    · exact List.mem_cons_of_mem _ h1
  by_cases he : d.1.name = m.name
  · have hdm : d.1 = m := List.inj_on_of_nodup_map hnames hdn hm he
    have : d ∈ (seenChildren m).map (fun p => ((m, p) : DEntry)) := by
      refine List.mem_map.2 ⟨d.2, ?_, ?_⟩
      · rw [← hdm]; exact g.seen
      · rw [← hdm]
    simp [he, this]
  · have : d ∉ (seenChildren m).map (fun p => ((m, p) : DEntry)) := by
      intro hc
      obtain ⟨p, _, hp⟩ := List.mem_map.1 hc
      apply he
      rw [← hp]
    simp [he, this]

/-! ### names -/

theorem Dn_names_perm (be : Bool) (N : List MuxNode) : ∀ (f : Nat) (n : MuxNode), Tree be N f n →
    ((Dn N f n).map (fun d => d.2.1.name)).Perm ((n :: below N f n).flatMap (fun m => m.children.map (·.name)))
  | 0, _, h => h.elim
  | f + 1, n, h => by
    have hok := h.1
    simp only [Dn, below, List.map_flatMap, List.map_cons, List.flatMap_cons]
    refine (flatMap_cons_perm (fun p : Child × Int => p.1.name) _ (seenChildren n)).trans ?_
    refine (List.perm_append_comm).trans ?_
    refine List.Perm.append ?_ ?_
    · have := (seen_permN n hok).map (·.name)
      rw [List.map_map] at this
      exact this
    · rw [List.flatMap_assoc]
      have : ∀ l : List (Child × Int), (∀ p ∈ l, p ∈ seenChildren n) →
          (l.flatMap (fun p => List.map (fun d : DEntry => d.2.1.name) (match subOf N p.1 with
            | some sub => Dn N f sub
            | none => []))).Perm
          (l.flatMap (fun p => (match subOf N p.1 with
            | some sub => sub :: below N f sub
            | none => []).flatMap (fun m : MuxNode => m.children.map (fun c : Child => c.name)))) := by
        intro l
        induction l with
        | nil => intro _; exact List.Perm.refl _
        | cons x r ih =>
          intro hl
          simp only [List.flatMap_cons]
          refine List.Perm.append ?_ (ih (fun p hp => hl p (List.mem_cons_of_mem _ hp)))
          cases hs : subOf N x.1 with
          | none => exact List.Perm.refl _
          | some sub =>
            obtain ⟨_, hlk⟩ := subOf_tree be N f n h x (hl x (List.mem_cons_self ..))
            obtain ⟨_, _, _, _, g, _⟩ := hlk sub hs
            exact Dn_names_perm be N f sub g
      exact this _ (fun p hp => hp)

end Acme.Import
