/-
The generated exporter against the hand model, part 2: the two loops of
`exportMultiplexerSignal` over the groups (`_loop1` / `_loop2`) ARE the bookkeeping model `bk1` /
`bk2` below (same variables, on the children of the tree instead of the Go objects), given what
`exportSignal` does on every child.
-/
import Acme.Proofs.GenExporter1

namespace Acme.GenX
open Acme.Import Acme.XSem Acme.Conv Acme.Gen Acme.GoSem

/-- the variables of `exportMultiplexerSignal` while it walks the groups: `isExtended`, `nestedMux`,
    the children seen first (`sigNames`, with the id of the group), `sigGroupIDs`, and what was
    written so far, as the hand model sees it -/
structure BK where
  e : Bool
  nm : Bool
  seen : List (Child × Int)
  m : List (String × List Int)
  sigs : List DSig
  exts : List DExt

/-- `_loop2`: one group -/
def bk2 (out : Child → List DSig × List DExt) (k : Int) : List Child → BK → BK
  | [], s => s
  | c :: r, s =>
    let r_ := mapGet2 s.m c.name []
    let m1 := if ¬ (r_.2 = true) then mapSet s.m c.name [k] else s.m
    let nm1 := if c.isMux = true then true else s.nm
    if (r_.1.length : Int) = 0 then
      bk2 out k r { s with nm := nm1, seen := s.seen ++ [(c, k)], m := m1,
                           sigs := patchLast (u32 k) (s.sigs ++ (out c).1), exts := s.exts ++ (out c).2 }
    else
      bk2 out k r { s with e := true, nm := nm1, m := mapSet m1 c.name (mapGet m1 c.name [] ++ [k]) }

/-- `_loop1`: the groups, the id counting up -/
def bk1 (out : Child → List DSig × List DExt) : List (List Child) → Int → BK → BK
  | [], _, s => s
  | g :: r, k, s => bk1 out r (k + 1) (bk2 out k g s)

/-- the state holds what the model says was written -/
def Rel (mid : Nat) (pre : List DbcSignal) (preX : List Acme.Dbc.ExtendedMux) (msgs : List DbcMessage)
    (st : St) (sigs : List DSig) (exts : List DExt) : Prop :=
  ∃ (L : List DbcSignal) (X : List Acme.Dbc.ExtendedMux),
    st.curSignals = pre ++ L ∧ L.map sigView = sigs ∧ st.extendedMuxes = preX ++ X ∧ X.map extView = exts ∧
    (∀ e ∈ X, e.messageID = mid) ∧ st.messages = msgs

/-- what the loops need of the Go object of a child -/
structure KidOK (pm : ParentMsg) (mid : Nat) (gv : Child → Sig) (out : Child → List DSig × List DExt)
    (c : Child) : Prop where
  name : (gv c).base.name = c.name
  kind : (gv c).kind = .multiplexer ↔ c.isMux = true
  exp : Exports pm mid (gv c) (out c).1 (out c).2
  ne : (out c).1 ≠ []

theorem bk2_sigs_ne (out : Child → List DSig × List DExt) (k : Int) :
    ∀ (g : List Child) (s : BK), s.sigs ≠ [] → (bk2 out k g s).sigs ≠ []
  | [], s, h => h
  | c :: r, s, h => by
    unfold bk2
    dsimp only
    split
    · apply bk2_sigs_ne
      apply patchLast_ne_nil
      simp [h]
    · apply bk2_sigs_ne
      exact h

theorem X_loop2 (pm : ParentMsg) (mid : Nat) (gv : Child → Sig) (out : Child → List DSig × List DExt)
    (pre : List DbcSignal) (preX : List Acme.Dbc.ExtendedMux) (msgs : List DbcMessage) (k : Int) :
    ∀ (g : List Child) (s : BK) (st : St), (∀ c ∈ g, KidOK pm mid gv out c) → s.sigs ≠ [] →
      Rel mid pre preX msgs st s.sigs s.exts →
      ∃ st', X.exportMultiplexerSignal_loop2 id pm mid k (g.map gv) s.e s.nm (s.seen.map (·.1.name)) s.m st
          = .val ((bk2 out k g s).e, (bk2 out k g s).nm, (bk2 out k g s).seen.map (·.1.name), (bk2 out k g s).m, st') ∧
        Rel mid pre preX msgs st' (bk2 out k g s).sigs (bk2 out k g s).exts
  | [], s, st, _, _, hr => by
    rw [List.map_nil, X.exportMultiplexerSignal_loop2]
    exact ⟨st, rfl, hr⟩
  | c :: r, s, st, hk, hne, hr => by
    have hc := hk c (List.mem_cons_self ..)
    have hrest : ∀ c ∈ r, KidOK pm mid gv out c := fun x hx => hk x (List.mem_cons_of_mem _ hx)
    rw [List.map_cons, X.exportMultiplexerSignal_loop2]
    unfold bk2
    simp only [id, hc.name]
    have hkind : (if (gv c).kind = SignalKind.multiplexer then true else s.nm) =
        (if c.isMux = true then true else s.nm) := by
      by_cases h : c.isMux = true
      · rw [if_pos h, if_pos (hc.kind.2 h)]
      · rw [if_neg h, if_neg (fun h' => h (hc.kind.1 h'))]
    rw [hkind]
    by_cases hlen : ((mapGet2 s.m c.name []).1.length : Int) = 0
    · simp only [hlen, if_true]
      obtain ⟨L, X, h1, h2, h3, h4, h5, h6⟩ := hr
      obtain ⟨new, xs, st1, e1, e2, e3, e4, e5, e6, e7⟩ := hc.exp st
      rw [e1]
      simp only [bind_val]
      have hnew : new ≠ [] := by
        intro h; apply hc.ne; rw [← e3, h]; rfl
      have hcur : st1.curSignals ≠ [] := by rw [e2]; simp [hnew]
      rw [modifyAt_last _ _ hcur]
      simp only [bind_val]
      have := X_loop2 pm mid gv out pre preX msgs k r
        { s with nm := (if c.isMux = true then true else s.nm), seen := s.seen ++ [(c, k)],
                 m := (if ¬ ((mapGet2 s.m c.name []).2 = true) then mapSet s.m c.name [k] else s.m),
                 sigs := patchLast (u32 k) (s.sigs ++ (out c).1), exts := s.exts ++ (out c).2 }
        { st1 with curSignals := modLast (fun x_ => { x_ with muxSwitchValue := u32 k }) st1.curSignals }
        hrest (by apply patchLast_ne_nil; simp [hne]) ?_
      · simpa only [List.map_append, List.map_cons, List.map_nil] using this
      · refine ⟨modLast (fun x_ => { x_ with muxSwitchValue := u32 k }) (L ++ new), X ++ xs, ?_, ?_, ?_, ?_, ?_, ?_⟩
        · show modLast _ st1.curSignals = _
          rw [e2, h1, List.append_assoc, modLast_append _ _ _ (by simp [hnew])]
        · rw [map_sigView_modLast, List.map_append, h2, e3]
        · show st1.extendedMuxes = _
          rw [e4, h3, List.append_assoc]
        · rw [List.map_append, h4, e5]
        · intro e he
          rcases List.mem_append.1 he with h | h
          · exact h5 e h
          · exact e6 e h
        · show st1.messages = _
          rw [e7, h6]
    · simp only [hlen, if_false]
      exact X_loop2 pm mid gv out pre preX msgs k r
        { s with e := true, nm := (if c.isMux = true then true else s.nm),
                 m := mapSet (if ¬ ((mapGet2 s.m c.name []).2 = true) then mapSet s.m c.name [k] else s.m) c.name
                   (mapGet (if ¬ ((mapGet2 s.m c.name []).2 = true) then mapSet s.m c.name [k] else s.m) c.name [] ++ [k]) }
        st hrest hne hr

theorem bk1_sigs_ne (out : Child → List DSig × List DExt) :
    ∀ (gs : List (List Child)) (k : Int) (s : BK), s.sigs ≠ [] → (bk1 out gs k s).sigs ≠ []
  | [], _, s, h => h
  | g :: r, k, s, h => by
    unfold bk1
    exact bk1_sigs_ne out r (k + 1) _ (bk2_sigs_ne out k g s h)

theorem X_loop1 (pm : ParentMsg) (mid : Nat) (gv : Child → Sig) (out : Child → List DSig × List DExt)
    (pre : List DbcSignal) (preX : List Acme.Dbc.ExtendedMux) (msgs : List DbcMessage) :
    ∀ (gs : List (List Child)) (k : Int) (s : BK) (st : St), (∀ g ∈ gs, ∀ c ∈ g, KidOK pm mid gv out c) →
      s.sigs ≠ [] → Rel mid pre preX msgs st s.sigs s.exts →
      ∃ st', X.exportMultiplexerSignal_loop1 id pm mid (gs.map (fun g => g.map gv)) k s.e s.nm
            (s.seen.map (·.1.name)) s.m st
          = .val ((bk1 out gs k s).e, (bk1 out gs k s).nm, (bk1 out gs k s).seen.map (·.1.name), (bk1 out gs k s).m, st') ∧
        Rel mid pre preX msgs st' (bk1 out gs k s).sigs (bk1 out gs k s).exts
  | [], k, s, st, _, _, hr => by
    rw [List.map_nil, X.exportMultiplexerSignal_loop1]
    exact ⟨st, rfl, hr⟩
  | g :: r, k, s, st, hk, hne, hr => by
    rw [List.map_cons, X.exportMultiplexerSignal_loop1]
    obtain ⟨st1, e1, r1⟩ := X_loop2 pm mid gv out pre preX msgs k g s st (hk g (List.mem_cons_self ..)) hne hr
    rw [e1]
    simp only [bind_val]
    unfold bk1
    exact X_loop1 pm mid gv out pre preX msgs r (k + 1) (bk2 out k g s) st1
      (fun g' hg' => hk g' (List.mem_cons_of_mem _ hg')) (bk2_sigs_ne out k g s hne) r1

end Acme.GenX
