/-
`Inv` is preserved by the node operations: nodeNew, nodeAddIface, nodeRename, nodeSetId,
nodeRemoveIface.
-/
import Acme.Proofs.GraphBus

namespace Acme.Graph

set_option maxHeartbeats 1000000 in
theorem stepNodeAddIface_inv {g : G} (h : Inv g) (n i : Nat) : Inv (stepNodeAddIface g n i).1 := by
  unfold stepNodeAddIface
  try dsimp only
  repeat' split
  all_goals first | exact h | skip
  rename_i _ nd hn hi
  have e1 := nodeIfaces_of_get hn
  have e2 := nodeIfaceCount_of_get hn
  inv_norm
  inv_split
  case node =>
    o_node h
    refine ⟨?_, ?_, ?c, ?_, ?_, ?_⟩
    case c =>
      intro n' k j
      views_simp
      intro hk
      have hfresh : ∀ (n'' k' : Nat), (nodeIfaces g.nodes n'')[k']? = some i → False := by
        intro n'' k' hk'
        have := nd_nd n'' i (List.mem_of_getElem? hk')
        rw [ifaceNode_of_none hi] at this; cases this
      split at hk
      · rename_i hnn; subst hnn
        rw [List.getElem?_append] at hk
        split at hk
        · rw [← e1] at hk
          have hji : j ≠ i := fun e => hfresh n' k (e ▸ hk)
          simp only [hji, ↓reduceIte]
          exact nd_num n' k j hk
        · rename_i hlt
          have hk0 : k - nd.ifaces.length = 0 := by
            cases hh : k - nd.ifaces.length with
            | zero => rfl
            | succ q => rw [hh] at hk; simp at hk
          rw [hk0] at hk
          simp only [List.getElem?_cons_zero, Option.some.injEq] at hk
          subst hk
          simp only [↓reduceIte]
          have := nd_c n'; rw [e2, e1] at this
          rw [this]; congr 1; omega
      · have hji : j ≠ i := fun e => hfresh n' k (e ▸ hk)
        simp only [hji, ↓reduceIte]
        exact nd_num n' k j hk
    all_goals inv_field [hn]
  inv_rest h [hn]
set_option maxHeartbeats 1000000 in
theorem nodeNew_core {g : G} (h : Inv g) (n : Nat) (name : String) (nid : Nat) (ifs : List Nat)
    (hx : g.buses.get n = none ∧ g.msgs.get n = none ∧ g.sigs.get n = none)
    (hn : g.nodes.get n = none) (hl : ifs.Nodup) (hfresh : ∀ j, j ∈ ifs → g.ifaces.get j = none) :
    Inv { g with nodes := g.nodes.set n { name := name, nid := nid, ifaces := ifs, ifaceCount := ifs.length },
                 ifaces := newIfaces g.ifaces n 0 ifs } := by
  have v1 := newIfaces_ifaceNode g.ifaces n 0 ifs
  have v2 := newIfaces_ifaceBus g.ifaces n 0 ifs
  have v3 := newIfaces_ifaceSent g.ifaces n 0 ifs
  have v4 := newIfaces_ifaceSentNames g.ifaces n 0 ifs
  have v5 := newIfaces_ifaceSentIDs g.ifaces n 0 ifs
  have v6 := newIfaces_ifaceSentStatic g.ifaces n 0 ifs
  have v7 := newIfaces_ifaceRecv g.ifaces n 0 ifs
  have f1 : ∀ j, j ∈ ifs → ifaceNode g.ifaces j = none := fun j hj => ifaceNode_of_none (hfresh j hj)
  have f2 : ∀ j, j ∈ ifs → ifaceBus g.ifaces j = none := fun j hj => ifaceBus_of_none (hfresh j hj)
  have hnb : ∀ b, (busNodeInts g.buses b).get n = none := by
    intro b
    cases hh : (busNodeInts g.buses b).get n with
    | none => rfl
    | some i => exact absurd hn (h.node.node_exists i n (h.bus.i1 hh).1)
  inv_split
  case node =>
    o_node h
    refine ⟨?_, ?_, ?nc, ?_, ?_, ?_⟩
    case nc =>
      intro n' k j
      views_simp
      intro hk
      split at hk
      · rename_i hnn; subst hnn
        have := newIfaces_ifaceNumber_idx g.ifaces n' 0 ifs j hl k hk
        rw [this]; congr 1; omega
      · have hj : j ∉ ifs := by
          intro hj
          have h1 := nd_nd n' j (List.mem_of_getElem? hk)
          rw [f1 j hj] at h1; cases h1
        rw [newIfaces_ifaceNumber_not_mem g.ifaces n 0 ifs j hj]
        exact nd_num n' k j hk
    all_goals inv_field [v1, v2, v3, v4, v5, v6, v7, hl]
  case net => exact h.net
  case builder => exact h.builder
  case typ => exact h.typ
  case unit => exact h.unit
  case bus =>
    o_bus h
    refine ⟨?_, ?_, ?_, ?_, ?_, ?_⟩
    all_goals inv_field [v1, v2, v3, v4, v5, v6, v7, hl]
  case static => g_static h [v1, v2, v3, v4, v5, v6, v7, hl]
  case sent => g_sent h [v1, v2, v3, v4, v5, v6, v7, hl]
  case recv => g_recv h [v1, v2, v3, v4, v5, v6, v7, hl]
  case attr => g_attr h [v1, v2, v3, v4, v5, v6, v7, hl]

theorem stepNodeNew_inv {g : G} (h : Inv g) (n : Nat) (name : String) (nid : Nat) (count : Int) (ifs : List Nat)
    (hx : g.buses.get n = none ∧ g.msgs.get n = none ∧ g.sigs.get n = none) :
    Inv (stepNodeNew g n name nid count ifs).1 := by
  unfold stepNodeNew
  try dsimp only
  repeat' split
  all_goals first | exact h | skip
  all_goals (
    rename_i _ _ hcond
    have hn : g.nodes.get n = none := by
      cases hh : g.nodes.get n with
      | none => rfl
      | some e => exact absurd (Or.inl (by simp [hh])) hcond
    have hl : ifs.Nodup := by
      apply Classical.byContradiction; intro hh; exact hcond (Or.inr (Or.inr hh))
    have hfresh : ∀ j, j ∈ ifs → g.ifaces.get j = none := by
      intro j hj
      cases hh : g.ifaces.get j with
      | none => rfl
      | some e =>
        exfalso; apply hcond; right; left
        rw [List.any_eq_true]; exact ⟨j, hj, by simp [hh]⟩
    exact nodeNew_core h n name nid ifs hx hn hl hfresh)

/-- the buses a node is attached to (through the interfaces it still lists) -/
theorem attached_mem {g : G} (h : Inv g) {n : Nat} {nd : NodeE} (hn : g.nodes.get n = some nd) (b : Nat) :
    b ∈ attachedBuses g nd.ifaces ↔ ∃ i, (busNodeInts g.buses b).get n = some i := by
  have e1 : nodeIfaces g.nodes n = nd.ifaces := nodeIfaces_of_get hn
  rw [mem_attachedBuses, ← e1]
  constructor
  · rintro ⟨i, hi, hb⟩
    exact ⟨i, h.bus.i2 (h.node.nd hi) hb⟩
  · rintro ⟨i, hi⟩
    have := h.bus.i1 hi
    exact ⟨i, h.node.live this.1 this.2, this.2⟩

theorem attached_nodup {g : G} (h : Inv g) {n : Nat} {nd : NodeE} (hn : g.nodes.get n = some nd) :
    (attachedBuses g nd.ifaces).Nodup := by
  have e1 : nodeIfaces g.nodes n = nd.ifaces := nodeIfaces_of_get hn
  have hnd := h.node.ifaces_nodup n
  have hmem : ∀ i, i ∈ nd.ifaces → ifaceNode g.ifaces i = some n := fun i hi => h.node.nd (e1 ▸ hi)
  rw [e1] at hnd
  clear e1
  unfold attachedBuses
  generalize nd.ifaces = l at hnd hmem
  induction l with
  | nil => exact List.nodup_nil
  | cons i rest ih =>
    have hn' := List.nodup_cons.1 hnd
    have ih' := ih hn'.2 (fun j hj => hmem j (List.mem_cons_of_mem _ hj))
    rw [List.filterMap_cons]
    split
    · exact ih'
    · rename_i b hb
      rw [List.nodup_cons]
      refine ⟨?_, ih'⟩
      intro hmemb
      rw [List.mem_filterMap] at hmemb
      obtain ⟨j, hj, hjb⟩ := hmemb
      have h1 : ifaceBus g.ifaces i = some b := hb
      have h2 : ifaceBus g.ifaces j = some b := hjb
      have k1 := h.bus.i2 (hmem i List.mem_cons_self) h1
      have k2 := h.bus.i2 (hmem j (List.mem_cons_of_mem _ hj)) h2
      rw [k1] at k2
      have : i = j := Option.some.inj k2
      subst this
      exact hn'.1 hj

set_option maxHeartbeats 1000000 in
theorem stepNodeRename_inv {g : G} (h : Inv g) (n : Nat) (name : String) : Inv (stepNodeRename g n name).1 := by
  unfold stepNodeRename
  try dsimp only
  repeat' split
  all_goals first | exact h | skip
  rename_i _ nd hn hne hany
  have hbs := attached_mem h hn
  have hl := attached_nodup h hn
  have hfree : ∀ b, b ∈ attachedBuses g nd.ifaces → (busNodeNames g.buses b).get name = none := by
    intro b hb
    rw [Bool.not_eq_true, List.any_eq_false] at hany
    have := hany b hb
    cases hgb : g.buses.get b with
    | none => rw [busNodeNames_of_none hgb]; rfl
    | some e => rw [hgb] at this; rw [busNodeNames_of_get hgb]; simpa using this
  clear hany
  generalize attachedBuses g nd.ifaces = bs at hbs hl hfree
  have e1 : nodeNameC g.nodes n = nd.name := nodeNameC_of_get hn
  inv_norm
  inv_split
  case net => g_net h [hn, hl]
  case builder => g_builder h [hn, hl]
  case typ => exact h.typ
  case unit => exact h.unit
  case node => g_node h [hn, hl]
  case bus =>
    o_bus h
    refine ⟨?_, ?_, ?_, ?_, ?b5, ?_⟩
    case b5 =>
      intro b
      frame [hn, hl]
      views_simp [hn, hl]
      have hold : ∀ k x, (busNodeNames g.buses b).get k = some x ↔
          ((busNodeInts g.buses b).get x ≠ none ∧ nodeNameC g.nodes x = k) := bus_ng b
      split
      · rename_i hb
        obtain ⟨i, hi⟩ := (hbs b).1 hb.1
        refine idx_modify hold ⟨by rw [hi]; simp, e1⟩ ?_ (Or.inr (hfree b hb.1)) ?_
        · intro k hk; rw [← hk.2, e1]
        · intro k x
          by_cases hx : x = n
          · subst hx; simp [hi]; exact eq_comm
          · simp [hx]
      · rename_i hb
        refine idx_congr hold ?_
        intro k x
        by_cases hx : x = n
        · subst hx
          have : (busNodeInts g.buses b).get x = none := by
            cases hh : (busNodeInts g.buses b).get x with
            | none => rfl
            | some i =>
              exfalso; apply hb
              refine ⟨(hbs b).2 ⟨i, hh⟩, ?_⟩
              intro hgb; rw [busNodeInts_of_none hgb] at hh; cases hh
          simp [this]
        · simp [hx]
    all_goals inv_field [hn, hl]
  case static => g_static h [hn, hl]
  case sent => exact h.sent
  case recv => exact h.recv
  case attr => g_attr h [hn, hl]

set_option maxHeartbeats 1000000 in
theorem stepNodeSetId_inv {g : G} (h : Inv g) (n : Nat) (nid : Nat) : Inv (stepNodeSetId g n nid).1 := by
  unfold stepNodeSetId
  try dsimp only
  repeat' split
  all_goals first | exact h | skip
  rename_i _ nd hn hne hany
  have hbs := attached_mem h hn
  have hl := attached_nodup h hn
  have hfree : ∀ b, b ∈ attachedBuses g nd.ifaces → (busNodeIDs g.buses b).get nid = none := by
    intro b hb
    rw [Bool.not_eq_true, List.any_eq_false] at hany
    have := hany b hb
    cases hgb : g.buses.get b with
    | none => rw [busNodeIDs_of_none hgb]; rfl
    | some e => rw [hgb] at this; rw [busNodeIDs_of_get hgb]; simpa using this
  clear hany
  generalize attachedBuses g nd.ifaces = bs at hbs hl hfree
  have e1 : nodeNidC g.nodes n = nd.nid := nodeNidC_of_get hn
  inv_norm
  inv_split
  case net => g_net h [hn, hl]
  case builder => g_builder h [hn, hl]
  case typ => exact h.typ
  case unit => exact h.unit
  case node => g_node h [hn, hl]
  case bus =>
    o_bus h
    refine ⟨?_, ?_, ?_, ?_, ?_, ?b6⟩
    case b6 =>
      intro b
      frame [hn, hl]
      views_simp [hn, hl]
      have hold : ∀ k x, (busNodeIDs g.buses b).get k = some x ↔
          ((busNodeInts g.buses b).get x ≠ none ∧ nodeNidC g.nodes x = k) := bus_dg b
      split
      · rename_i hb
        obtain ⟨i, hi⟩ := (hbs b).1 hb.1
        refine idx_modify hold ⟨by rw [hi]; simp, e1⟩ ?_ (Or.inr (hfree b hb.1)) ?_
        · intro k hk; rw [← hk.2, e1]
        · intro k x
          by_cases hx : x = n
          · subst hx; simp [hi]; exact eq_comm
          · simp [hx]
      · rename_i hb
        refine idx_congr hold ?_
        intro k x
        by_cases hx : x = n
        · subst hx
          have : (busNodeInts g.buses b).get x = none := by
            cases hh : (busNodeInts g.buses b).get x with
            | none => rfl
            | some i =>
              exfalso; apply hb
              refine ⟨(hbs b).2 ⟨i, hh⟩, ?_⟩
              intro hgb; rw [busNodeInts_of_none hgb] at hh; cases hh
          simp [this]
        · simp [hx]
    all_goals inv_field [hn, hl]
  case static => g_static h [hn, hl]
  case sent => exact h.sent
  case recv => exact h.recv
  case attr => g_attr h [hn, hl]

theorem filter_ne_eq_eraseIdx {l : List Nat} (hl : l.Nodup) {k : Nat} {i : Nat} (hk : l[k]? = some i) :
    l.filter (· ≠ i) = l.eraseIdx k := by
  induction l generalizing k with
  | nil => simp at hk
  | cons a rest ih =>
    have hn := List.nodup_cons.1 hl
    cases k with
    | zero =>
      simp only [List.getElem?_cons_zero, Option.some.injEq] at hk
      subst hk
      rw [List.filter_cons]
      simp only [ne_eq, not_true_eq_false, decide_false, Bool.false_eq_true, ↓reduceIte, List.eraseIdx_cons_zero]
      rw [List.filter_eq_self]
      intro x hx; simp only [ne_eq, decide_not, Bool.not_eq_eq_eq_not, Bool.not_true, decide_eq_false_iff_not]
      intro e; subst e; exact hn.1 hx
    | succ k =>
      simp only [List.getElem?_cons_succ] at hk
      have hai : a ≠ i := by
        intro e; subst e; exact hn.1 (List.mem_of_getElem? hk)
      rw [List.filter_cons]
      simp only [ne_eq, hai, not_false_eq_true, decide_true, ↓reduceIte, List.eraseIdx_cons_succ]
      rw [ih hn.2 hk]

set_option maxHeartbeats 1000000 in
theorem removeIface_core {g : G} (h : Inv g) {n i k : Nat} {nd : NodeE}
    (hn : g.nodes.get n = some nd) (hik : nd.ifaces[k]? = some i) (hdet : ifaceBus g.ifaces i = none) :
    Inv { g with ifaces := renumber g.ifaces (k : Int) (nd.ifaces.filter (· ≠ i)),
                 nodes := g.nodes.set n { nd with ifaces := nd.ifaces.filter (· ≠ i), ifaceCount := nd.ifaceCount - 1 } } := by
  have e1 : nodeIfaces g.nodes n = nd.ifaces := nodeIfaces_of_get hn
  have e2 : nodeIfaceCount g.nodes n = nd.ifaceCount := nodeIfaceCount_of_get hn
  have hnd : nd.ifaces.Nodup := e1 ▸ h.node.ifaces_nodup n
  have hl : (nd.ifaces.filter (· ≠ i)).Nodup := hnd.filter _
  have her := filter_ne_eq_eraseIdx hnd hik
  have hmem : ∀ j, j ∈ nd.ifaces.filter (· ≠ i) ↔ (j ∈ nd.ifaces ∧ j ≠ i) := by
    intro j; simp
  have hcnt : nd.ifaceCount = (nd.ifaces.length : Int) := by rw [← e2, ← e1]; exact h.node.count n
  have hklt : k < nd.ifaces.length := by
    cases hlt : decide (k < nd.ifaces.length) with
    | true => simpa using hlt
    | false =>
      have : nd.ifaces.length ≤ k := by simpa using hlt
      rw [List.getElem?_eq_none this] at hik; cases hik
  generalize hrest : nd.ifaces.filter (· ≠ i) = rest at hl her hmem
  inv_split
  case net => exact h.net
  case builder => exact h.builder
  case typ => exact h.typ
  case unit => exact h.unit
  case node =>
    o_node h
    refine ⟨?_, ?_, ?n3, ?_, ?_, ?_⟩
    case n3 =>
      intro n' p j
      frame [hn, hl]
      views_simp [hn, hl]
      intro hp
      split at hp
      · rename_i hnn; subst hnn
        have hj : j ∈ rest := List.mem_of_getElem? hp
        have hjm := (hmem j).1 hj
        rw [her, List.getElem?_eraseIdx] at hp
        have hex : g.ifaces.get j ≠ none := by
          have := nd_nd n' j (e1 ▸ hjm.1)
          intro hh; rw [ifaceNode_of_none hh] at this; cases this
        split at hp
        · rename_i hlt
          have hnum := nd_num n' p j (e1 ▸ hp)
          rw [hnum]
          have : ¬ ((p : Int) > (k : Int)) := by omega
          simp [hj, this]
        · rename_i hge
          have hnum := nd_num n' (p + 1) j (e1 ▸ hp)
          rw [hnum]
          have : ((p + 1 : Nat) : Int) > (k : Int) := by omega
          simp only [hj, hex, this, ne_eq, not_false_eq_true, and_self, ↓reduceIte]
          omega
      · rename_i hnn
        have hj : j ∉ rest := by
          intro hj
          have h1 := nd_nd n j (e1 ▸ ((hmem j).1 hj).1)
          have h2 := nd_nd n' j (List.mem_of_getElem? hp)
          rw [h1] at h2; exact hnn (Option.some.inj h2).symm
        simp only [hj, false_and, ↓reduceIte]
        exact nd_num n' p j hp
    all_goals inv_field [hn, hl]
  case bus => g_bus h [hn, hl]
  case static => g_static h [hn, hl]
  case sent => g_sent h [hn, hl]
  case recv => g_recv h [hn, hl]
  case attr => g_attr h [hn, hl]

/-- detaching an attached interface through its bus succeeds, leaves the nodes alone and
clears the interface's bus -/
theorem busRemoveIfaceCore_ok {g : G} (h : Inv g) {i b : Nat} {ifc : IfaceE}
    (hi : g.ifaces.get i = some ifc) (hpb : ifc.parentBus = some b) :
    ∃ g', busRemoveIfaceCore g b ifc.node = (g', .ok) ∧ g'.nodes = g.nodes ∧ ifaceBus g'.ifaces i = none := by
  have s1 : ifaceNode g.ifaces i = some ifc.node := ifaceNode_of_get hi
  have s2 : ifaceBus g.ifaces i = some b := by rw [ifaceBus_of_get hi]; exact hpb
  have s3 := h.bus.i2 s1 s2
  have hbe := h.bus.bus_exists s1 s2
  unfold busRemoveIfaceCore
  cases hb : g.buses.get b with
  | none => exact absurd hb hbe
  | some bus =>
    rw [busNodeInts_of_get hb] at s3
    simp only [s3, hi]
    exact ⟨_, rfl, rfl, by simp⟩

theorem find_idx {l : List Nat} {p : Nat → Bool} {i : Nat} (h : l.find? p = some i) :
    ∃ k : Nat, l[k]? = some i ∧ p i = true := by
  have h1 := List.find?_some h
  have h2 := List.mem_of_find?_eq_some h
  obtain ⟨k, hk⟩ := List.getElem?_of_mem h2
  exact ⟨k, hk, h1⟩

set_option maxHeartbeats 1000000 in
theorem stepNodeRemoveIface_inv {g : G} (h : Inv g) (n : Nat) (k : Int) : Inv (stepNodeRemoveIface g n k).1 := by
  unfold stepNodeRemoveIface
  split
  · exact h
  rename_i _ nd hn
  split
  · exact h
  split
  · exact h
  rename_i hk0 hkc
  split
  · exact h
  rename_i _ i hfind
  split
  · exact h
  rename_i _ ifc hi
  obtain ⟨k', hk', hp⟩ := find_idx hfind
  simp only [hi, decide_eq_true_eq] at hp
  have e1 : nodeIfaces g.nodes n = nd.ifaces := nodeIfaces_of_get hn
  have hnum := h.node.ifaces_num n k' i (e1 ▸ hk')
  rw [ifaceNumber_of_get hi, hp] at hnum
  subst hnum
  have hnode : ifc.node = n := by
    have := h.node.nd (e1 ▸ List.mem_of_getElem? hk')
    rw [ifaceNode_of_get hi] at this; exact Option.some.inj this
  cases hpb : ifc.parentBus with
  | none =>
    simp only []
    exact removeIface_core h hn hk' (by rw [ifaceBus_of_get hi]; exact hpb)
  | some b =>
    obtain ⟨g', hg', hnodes, hdet⟩ := busRemoveIfaceCore_ok h hi hpb
    rw [hnode] at hg'
    simp only [hg']
    have h' : Inv g' := by have := busRemoveIfaceCore_inv h b n; rw [hg'] at this; exact this
    exact removeIface_core h' (by rw [hnodes]; exact hn) hk' hdet

end Acme.Graph
