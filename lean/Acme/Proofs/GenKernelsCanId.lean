/-
The generated CAN-ID builder (canid_builder.go) and `(*Message).GetCANID` (message.go) equal the
hand-written model of Acme.Core.CanId that property C14 is proved about.

The Go code stores the KIND of an operation as an `int` constant; the generated definitions work
on `GoSem.KOp` (kind code, from, len) and the model on `BOp` (kind as an inductive): `opView`
maps a model operation to the stored one (`kindCode`: the Go constant values, injective).
-/
import Acme.Gen.Kernels
import Acme.Core.CanId
import Acme.Proofs.GenKernels

namespace Acme.GenK

open Acme.Gen Acme.GoSem Acme.CanId

/-- a model operation as the Go code stores it -/
def opView (o : BOp) : KOp := ⟨kindCode o.kind, o.from_, o.len⟩

theorem kindCode_injective (a b : Kind) (h : kindCode a = kindCode b) : a = b := by
  cases a <;> cases b <;> first | rfl | (simp [kindCode] at h)

theorem opView_injective (a b : BOp) (h : opView a = opView b) : a = b := by
  obtain ⟨ka, fa, la⟩ := a
  obtain ⟨kb, fb, lb⟩ := b
  simp only [opView, KOp.mk.injEq] at h
  obtain ⟨hk, hf, hl⟩ := h
  rw [kindCode_injective _ _ hk, hf, hl]

/-! ### `newCANIDBuilderOp`, `Calculate`, `CalculatePartials` -/

theorem newOp_eq (k : Kind) (f l : Int) : K.newCANIDBuilderOp (kindCode k) f l = opView ⟨k, f, l⟩ := rfl

theorem calculate_loop (ops0 : List KOp) (prio mid nid : BitVec 32) :
    ∀ (ops : List BOp) (acc : BitVec 32),
      K.calculate_loop1 ops0 prio mid nid acc (ops.map opView) =
        ops.foldl (fun acc op => calcOp op acc prio mid nid) acc := by
  intro ops
  induction ops with
  | nil => intro acc; rfl
  | cons o rest ih =>
    intro acc
    rw [List.map_cons, List.foldl_cons]
    unfold K.calculate_loop1
    simp only [opView]
    rw [calculateOp_eq o acc prio mid nid]
    exact ih _

/-- canid_builder.go `Calculate` = `Acme.CanId.calculate` -/
theorem calculate_eq (ops : List BOp) (prio mid nid : BitVec 32) :
    K.calculate (ops.map opView) prio mid nid = calculate ops prio mid nid := by
  unfold K.calculate calculate
  exact calculate_loop _ prio mid nid ops 0#32

theorem partials_loop (ops0 : List KOp) (prio mid nid : BitVec 32) :
    ∀ (ops : List BOp) (out : List (BitVec 32)) (acc : BitVec 32),
      K.calculatePartials_loop1 ops0 prio mid nid out acc (ops.map opView) =
        out ++ partialsFrom acc prio mid nid ops := by
  intro ops
  induction ops with
  | nil => intro out acc; simp [K.calculatePartials_loop1, K.calculatePartials_after1, partialsFrom]
  | cons o rest ih =>
    intro out acc
    rw [List.map_cons]
    unfold K.calculatePartials_loop1
    simp only [opView]
    rw [calculateOp_eq o acc prio mid nid, ih]
    simp [partialsFrom]

/-- canid_builder.go `CalculatePartials` = `Acme.CanId.partials` -/
theorem calculatePartials_eq (ops : List BOp) (prio mid nid : BitVec 32) :
    K.calculatePartials (ops.map opView) prio mid nid = partials ops prio mid nid := by
  unfold K.calculatePartials partials
  rw [partials_loop]
  rfl

/-! ### `InsertOperation`, `RemoveOperation`, `RemoveAllOperations`, `Use*` -/

theorem map_insertIdx' {α β : Type} (f : α → β) (a : α) :
    ∀ (l : List α) (n : Nat), (l.insertIdx n a).map f = (l.map f).insertIdx n (f a) := by
  intro l
  induction l with
  | nil => intro n; cases n <;> simp
  | cons x xs ih =>
    intro n
    cases n with
    | zero => simp
    | succ m => simp [List.insertIdx_succ_cons, ih m]

/-- the result of a mutating method against the model's: the new list on success; on an error the
    UNCHANGED list with the sentinel and the name of the offending argument -/
def opsRes (ops : List BOp) : Except Err (List BOp) → Res (List KOp × Option (K.Cause × String))
  | .ok ops' => .val (ops'.map opView, none)
  | .error (.outOfBounds a) => .val (ops.map opView, some (.ErrOutOfBounds, a))

/-- canid_builder.go `InsertOperation` = `Acme.CanId.insertOp` -/
theorem insertOperation_eq (ops : List BOp) (k : Kind) (f l idx : Int) :
    K.insertOperation (ops.map opView) (kindCode k) f l idx = opsRes ops (insertOp ops k f l idx) := by
  unfold K.insertOperation insertOp
  simp only [List.length_map, Int.ofNat_eq_natCast]
  by_cases h1 : f < 0 ∨ f > 31
  · simp only [h1, if_true]; rfl
  · by_cases h2 : l < 0 ∨ l > 32 - f
    · simp only [h1, h2, if_true, if_false]; rfl
    · by_cases h3 : idx < 0 ∨ idx > (ops.length : Int)
      · simp only [h1, h2, h3, if_true, if_false]; rfl
      · simp only [h1, h2, h3, if_false]
        have hi : ¬ (idx < 0 ∨ ((ops.map opView).length : Int) < idx) := by
          simp only [List.length_map]; omega
        simp only [sliceInsert, hi, if_false, opsRes, newOp_eq]
        rw [map_insertIdx']

/-- canid_builder.go `RemoveOperation` = `Acme.CanId.removeOp` -/
theorem removeOperation_eq (ops : List BOp) (idx : Int) :
    K.removeOperation (ops.map opView) idx = opsRes ops (removeOp ops idx) := by
  unfold K.removeOperation removeOp
  simp only [List.length_map, Int.ofNat_eq_natCast]
  by_cases h : idx < 0 ∨ idx ≥ (ops.length : Int)
  · simp only [h, if_true]; rfl
  · simp only [h, if_false]
    have hi : ¬ (idx < 0 ∨ idx + 1 < idx ∨ ((ops.map opView).length : Int) < idx + 1) := by
      simp only [List.length_map]; omega
    simp only [sliceDelete, hi, if_false, opsRes]
    congr 2
    have : (idx + 1).toNat = idx.toNat + 1 := by omega
    rw [this, ← List.map_take, ← List.map_drop, ← List.map_append, List.eraseIdx_eq_take_drop_succ]

/-- neither `slices.Insert` nor `slices.Delete` panics: the argument checks cover their bounds -/
theorem insertOperation_no_panic (ops : List BOp) (k : Kind) (f l idx : Int) :
    K.insertOperation (ops.map opView) (kindCode k) f l idx ≠ .panic := by
  rw [insertOperation_eq]
  cases insertOp ops k f l idx with
  | ok _ => simp [opsRes]
  | error e => cases e; simp [opsRes]

theorem removeOperation_no_panic (ops : List BOp) (idx : Int) :
    K.removeOperation (ops.map opView) idx ≠ .panic := by
  rw [removeOperation_eq]
  cases removeOp ops idx with
  | ok _ => simp [opsRes]
  | error e => cases e; simp [opsRes]

/-- a rejected insert / remove changes nothing (directly on the generated definitions, for every
    stored list — also one with kind values outside the four constants) -/
theorem insertOperation_err (ops ops' : List KOp) (kind f l idx : Int) (c : K.Cause × String)
    (h : K.insertOperation ops kind f l idx = .val (ops', some c)) : ops' = ops := by
  unfold K.insertOperation at h
  split at h
  · cases h; rfl
  · split at h
    · cases h; rfl
    · split at h
      · cases h; rfl
      · simp only at h
        split at h <;> cases h

theorem removeOperation_err (ops ops' : List KOp) (idx : Int) (c : K.Cause × String)
    (h : K.removeOperation ops idx = .val (ops', some c)) : ops' = ops := by
  unfold K.removeOperation at h
  split at h
  · cases h; rfl
  · split at h <;> cases h

theorem removeAllOperations_eq (ops : List KOp) : K.removeAllOperations ops = [] := rfl

/-! the `Use*` helpers append the documented operation -/
theorem useMessagePriority_eq (ops : List BOp) (f : Int) :
    K.useMessagePriority (ops.map opView) f = (ops ++ [(⟨.prio, f, 2⟩ : BOp)]).map opView := by
  simp [K.useMessagePriority, K.newCANIDBuilderOp, opView, kindCode]
theorem useMessageID_eq (ops : List BOp) (f l : Int) :
    K.useMessageID (ops.map opView) f l = (ops ++ [(⟨.msgId, f, l⟩ : BOp)]).map opView := by
  simp [K.useMessageID, K.newCANIDBuilderOp, opView, kindCode]
theorem useNodeID_eq (ops : List BOp) (f l : Int) :
    K.useNodeID (ops.map opView) f l = (ops ++ [(⟨.nodeId, f, l⟩ : BOp)]).map opView := by
  simp [K.useNodeID, K.newCANIDBuilderOp, opView, kindCode]
theorem useBitMask_eq (ops : List BOp) (f l : Int) :
    K.useBitMask (ops.map opView) f l = (ops ++ [(⟨.mask, f, l⟩ : BOp)]).map opView := by
  simp [K.useBitMask, K.newCANIDBuilderOp, opView, kindCode]
theorem useCAN2A_eq (ops : List BOp) :
    K.useCAN2A (ops.map opView) = (ops ++ [(⟨.mask, 0, 11⟩ : BOp)]).map opView := by
  simp [K.useCAN2A, K.newCANIDBuilderOp, opView, kindCode]

/-- `newDefaultCANIDBuilder`: UseNodeID(0, 4).UseMessageID(4, 7).UseCAN2A() on an empty builder (the
    CHAIN is transcribed by hand here; each link is the generated definition) -/
theorem defaultOps_eq :
    K.useCAN2A (K.useMessageID (K.useNodeID [] 0 4) 4 7) = defaultOps.map opView := by decide

/-! ### `(*Message).GetCANID` -/

/-- message.go `GetCANID` = `Acme.CanId.getCANID`: `hasStatic` / `static` are `m.hasStaticCANID` /
    `m.staticCANID`; the message is attached when `m.hasSenderNodeInt()` and
    `nodeInt.hasParentBus()`, and then `ops` are the operations of the bus's builder and `nid` the
    id of the sender's node -/
theorem getCANID_eq (hasStatic : Bool) (static mid prio : BitVec 32) (hasSender hasBus : Bool)
    (nid : BitVec 32) (ops : List BOp) :
    K.getCANID hasStatic static mid prio hasSender hasBus nid (ops.map opView) =
      getCANID (if hasStatic then some static else none)
        (if hasSender && hasBus then some (ops, nid) else none) prio mid := by
  unfold K.getCANID getCANID
  cases hasStatic <;> cases hasSender <;> cases hasBus <;> simp [calculate_eq]

end Acme.GenK
