/-
C11 at message level, nested multiplexers, part 7: the exported message of a tree of the class —
signals, entries found by name, the sorted signals and their three classes.
-/
import Acme.Proofs.ExportNestedRound

namespace Acme.Import
open Acme.Layout Acme.Conv Acme.Arith

/-- the signals of the message, switch values erased -/
def Lc (t : ITree) : List DSig := t.top.flatMap (itemSigsN t.bigEndian t.nested)

theorem eraseSw_start : (fun s : DSig => s.start) ∘ eraseSw = fun s : DSig => s.start := rfl

theorem sortSigs_erase (l : List DSig) : (sortSigs l).map eraseSw = sortBy (·.start) (l.map eraseSw) := by
  unfold sortSigs
  rw [sortBy_map eraseSw (·.start) l, eraseSw_start]

theorem filter_erase (p : DSig → Bool) (hp : ∀ s, p (eraseSw s) = p s) (l : List DSig) :
    (l.filter p).map eraseSw = (l.map eraseSw).filter p := by
  rw [List.filter_map]
  congr 1
  apply List.filter_congr
  intro s _
  exact (hp s).symm

section
variable {t : ITree} {r : MuxNode} (c : NCtx t r)
include c

theorem NCtx.anyMux : (seenChildren r).any (fun q => q.1.isMux) = true := by
  have hne : reach t r ≠ [] := by
    intro he
    have := c.perm
    rw [he] at this
    exact c.ne (List.perm_nil.1 this.symm) |>.elim
  unfold reach at hne
  simp only [below] at hne
  have : ∃ p ∈ seenChildren r, (subOf t.nested p.1).isSome = true := by
    apply Classical.byContradiction
    intro hcon
    apply hne
    apply List.flatMap_eq_nil_iff.2
    intro p hp
    cases hs : subOf t.nested p.1 with
    | none => rfl
    | some sub => exact absurd ⟨p, hp, by simp [hs]⟩ hcon
  obtain ⟨p, hp, hs⟩ := this
  apply List.any_eq_true.2
  refine ⟨p, hp, ?_⟩
  unfold subOf at hs
  cases hm : p.1.isMux with
  | true => rfl
  | false => simp [hm] at hs

theorem NCtx.exp : (exportMsgN t).sigs.map eraseSw = Lc t ∧
    (exportMsgN t).exts = XS t.nested (t.nested.length + 1) r := by
  have h := exportItemsN_eq t.bigEndian t.nested t.top (by
    intro n hn
    have : n ∈ muxesOf t.top := (mem_muxesOf _ _).2 hn
    rw [c.mux, List.mem_singleton] at this
    subst this
    exact ⟨c.tree, c.anyMux⟩)
  refine ⟨h.1, ?_⟩
  show (exportItemsN t.bigEndian t.nested t.top).2 = _
  rw [h.2]
  have : t.top.flatMap (itemExtsN t.nested) = (muxesOf t.top).flatMap (XS t.nested (t.nested.length + 1)) := by
    rw [← flatMap_muxes]
    apply List.flatMap_congr
    intro x _
    cases x <;> rfl
  rw [this, c.mux]
  simp

theorem NCtx.extPerm : (exportMsgN t).exts.Perm ((Dt t r).map extOfD) := by
  rw [c.exp.2]
  exact XS_perm _ _ _

theorem NCtx.ext_found (d : DEntry) (hd : d ∈ Dt t r) :
    findExt (exportMsgN t).exts d.2.1.name = some (extOfD d) := by
  unfold findExt
  have h1 := (c.extPerm).filter (fun e => e.muxed == d.2.1.name)
  have h2 : ((Dt t r).map extOfD).filter (fun e => e.muxed == d.2.1.name) = [extOfD d] := by
    rw [List.filter_map]
    have := filter_unique (fun q : DEntry => q.2.1.name) (Dt t r) (List.nodup_cons.1 c.dnames).2 d hd
    have e : (fun e : DExt => e.muxed == d.2.1.name) ∘ extOfD = fun q : DEntry => q.2.1.name == d.2.1.name := rfl
    rw [e, this]
    rfl
  rw [h2] at h1
  rw [List.perm_singleton.1 h1]
  rfl

theorem NCtx.ext_none (nm : String) (hn : nm ∉ (Dt t r).map (fun d => d.2.1.name)) :
    findExt (exportMsgN t).exts nm = none := by
  unfold findExt
  have h1 := (c.extPerm).filter (fun e => e.muxed == nm)
  have h2 : ((Dt t r).map extOfD).filter (fun e => e.muxed == nm) = [] := by
    apply List.filter_eq_nil_iff.2
    intro e he
    obtain ⟨d, hd, rfl⟩ := List.mem_map.1 he
    simp only [beq_iff_eq]
    intro hc
    exact hn (List.mem_map.2 ⟨d, hd, hc⟩)
  rw [h2] at h1
  rw [List.perm_nil.1 h1]
  rfl

/-- the sorted signals, switch values erased -/
theorem NCtx.sorted : (sortSigs (exportMsgN t).sigs).map eraseSw = sortBy (·.start) (Lc t) := by
  rw [sortSigs_erase, c.exp.1]

theorem NCtx.mem_sorted (s : DSig) (hs : s ∈ sortSigs (exportMsgN t).sigs) : eraseSw s ∈ Lc t := by
  have : eraseSw s ∈ (sortSigs (exportMsgN t).sigs).map eraseSw := List.mem_map.2 ⟨s, hs, rfl⟩
  rw [c.sorted] at this
  exact (sortBy_perm _ _).mem_iff.1 this

/-- every signal of the message: a top-level signal, the top-level multiplexor, or an entry -/
theorem NCtx.mem_Lc (s : DSig) (hs : s ∈ Lc t) :
    (∃ l, Item.sig l ∈ t.top ∧ s = leafSig t.bigEndian l) ∨ s = headSig t.bigEndian false r ∨
    ∃ d ∈ Dt t r, s = sigOfD t.bigEndian t.nested d := by
  unfold Lc at hs
  obtain ⟨x, hx, hsx⟩ := List.mem_flatMap.1 hs
  cases x with
  | sig l =>
    simp only [itemSigsN, List.mem_singleton] at hsx
    exact Or.inl ⟨l, hx, hsx⟩
  | mux n =>
    have : n ∈ muxesOf t.top := (mem_muxesOf _ _).2 hx
    rw [c.mux, List.mem_singleton] at this
    subst this
    simp only [itemSigsN, List.mem_cons] at hsx
    rcases hsx with h | h
    · exact Or.inr (Or.inl h)
    · obtain ⟨d, hd, rfl⟩ := List.mem_map.1 h
      exact Or.inr (Or.inr ⟨d, hd, rfl⟩)

end

end Acme.Import
