/-
Message-level importer / exporter model (Acme.Core.Import), part 1: insertion into a layout,
the derived groups of a multiplexer, `muxInsert`, `insertTop` and the invariants they keep.
-/
import Acme.Core.Import
import Acme.Spec.Layout
import Acme.Proofs.LayoutBasic
import Acme.Proofs.MuxIns3
import Acme.Proofs.Conv

namespace Acme.Import
open Acme.Layout Acme.Conv Acme.Arith
open Acme.Mux (sortInts compactAdj)

/-! ### slots and insertion -/

theorem topSlots_insertItem (x : Item) : ∀ l : List Item,
    topSlots (insertItem x l) = insertAt x.slot (topSlots l)
  | [] => rfl
  | s :: rest => by
    simp only [insertItem, topSlots, List.map_cons, insertAt]
    have hs : s.slot.start = s.start := rfl
    have hx : x.slot.start = x.start := rfl
    rw [hs, hx]
    split
    · rfl
    · simp only [List.map_cons]
      have := topSlots_insertItem x rest
      simp only [topSlots] at this
      rw [this]

theorem childSlots_insertChild (x : Child) : ∀ l : List Child,
    childSlots (insertChild x l) = insertAt x.slot (childSlots l)
  | [] => rfl
  | s :: rest => by
    simp only [insertChild, childSlots, List.map_cons, insertAt]
    have hs : s.slot.start = s.rel := rfl
    have hx : x.slot.start = x.rel := rfl
    rw [hs, hx]
    split
    · rfl
    · simp only [List.map_cons]
      have := childSlots_insertChild x rest
      simp only [childSlots] at this
      rw [this]

theorem insertItem_perm (x : Item) : ∀ l : List Item, (insertItem x l).Perm (x :: l)
  | [] => List.Perm.refl _
  | s :: rest => by
    simp only [insertItem]
    split
    · exact List.Perm.refl _
    · exact ((insertItem_perm x rest).cons s).trans (List.Perm.swap x s rest)

theorem insertChild_perm (x : Child) : ∀ l : List Child, (insertChild x l).Perm (x :: l)
  | [] => List.Perm.refl _
  | s :: rest => by
    simp only [insertChild]
    split
    · exact List.Perm.refl _
    · exact ((insertChild_perm x rest).cons s).trans (List.Perm.swap x s rest)

theorem mem_insertItem (x y : Item) (l : List Item) : y ∈ insertItem x l ↔ y = x ∨ y ∈ l := by
  rw [(insertItem_perm x l).mem_iff, List.mem_cons]

theorem mem_insertChild (x y : Child) (l : List Child) : y ∈ insertChild x l ↔ y = x ∨ y ∈ l := by
  rw [(insertChild_perm x l).mem_iff, List.mem_cons]

theorem groupOf_nil (k : Int) : groupOf [] k = [] := rfl

theorem groupOf_append (cs : List Child) (c : Child) (k : Int) :
    groupOf (cs ++ [c]) k = if c.inGroup k then insertChild c (groupOf cs k) else groupOf cs k := by
  unfold groupOf
  rw [List.filter_append]
  by_cases h : c.inGroup k = true
  · simp [List.filter_cons, h, List.foldl_append]
  · simp [List.filter_cons, h]

theorem mem_foldl_insertChild (d : Child) : ∀ (xs acc : List Child),
    d ∈ xs.foldl (fun l c => insertChild c l) acc ↔ d ∈ acc ∨ d ∈ xs
  | [], acc => by simp
  | x :: xs, acc => by
    rw [List.foldl_cons, mem_foldl_insertChild d xs, mem_insertChild, List.mem_cons]
    constructor
    · rintro ((rfl | h) | h)
      · exact Or.inr (Or.inl rfl)
      · exact Or.inl h
      · exact Or.inr (Or.inr h)
    · rintro (h | rfl | h)
      · exact Or.inl (Or.inr h)
      · exact Or.inl (Or.inl rfl)
      · exact Or.inr h

theorem mem_groupOf (cs : List Child) (k : Int) (d : Child) :
    d ∈ groupOf cs k ↔ d ∈ cs ∧ d.inGroup k = true := by
  unfold groupOf
  rw [mem_foldl_insertChild, List.mem_filter]
  simp

/-! ### the verification loops -/

theorem verifyGroups_ok (gs : Int) (cs : List Child) (sz rel : Int) : ∀ l : List Nat,
    verifyGroups gs cs sz rel l = .ok () →
    ∀ k ∈ l, verifyInsert gs (childSlots (groupOf cs ((k : Nat) : Int))) sz rel = .ok ()
  | [], _, k, hk => by cases hk
  | a :: rest, h, k, hk => by
    unfold verifyGroups at h
    split at h
    · cases h
    · rename_i hv
      rcases List.mem_cons.1 hk with rfl | hk
      · exact hv
      · exact verifyGroups_ok gs cs sz rel rest h k hk

theorem verifyIds_ok (gc gs : Int) (cs : List Child) (sz rel : Int) : ∀ l : List Int,
    verifyIds gc gs cs sz rel l = .ok () →
    ∀ k ∈ l, 0 ≤ k ∧ k < gc ∧ verifyInsert gs (childSlots (groupOf cs k)) sz rel = .ok ()
  | [], _, k, hk => by cases hk
  | a :: rest, h, k, hk => by
    unfold verifyIds at h
    split at h
    · cases h
    · split at h
      · cases h
      · split at h
        · cases h
        · rename_i h1 h2 _ hv
          rcases List.mem_cons.1 hk with rfl | hk
          · exact ⟨by omega, by omega, hv⟩
          · exact verifyIds_ok gc gs cs sz rel rest h k hk

/-! ### the invariant of a multiplexer under construction -/

/-- every group is a well-formed layout within the group size -/
def GroupsWF (gc gs : Int) (cs : List Child) : Prop :=
  ∀ k : Nat, (k : Int) < gc → WF gs (childSlots (groupOf cs (k : Int)))

/-- group ids are inside the group count, strictly ascending -/
def IdsOK (gc : Int) (cs : List Child) : Prop :=
  ∀ c ∈ cs, (∀ g ∈ c.gids, 0 ≤ g ∧ g < gc) ∧ c.gids.Pairwise (· < ·)

def NamesNodup (cs : List Child) : Prop := (cs.map (·.name)).Nodup

theorem groupsWF_nil (gc gs : Int) (h : 0 ≤ gs) : GroupsWF gc gs [] := by
  intro k _
  simp only [groupOf_nil, childSlots, List.map_nil, WF, WFfrom]
  exact h

theorem compactSort_ne_nil (l : List Int) (h : l ≠ []) : compactAdj (sortInts l) ≠ [] := by
  obtain ⟨a, ha⟩ := List.exists_mem_of_ne_nil l h
  intro hn
  have : a ∈ compactAdj (sortInts l) := by
    rw [Acme.Mux.mem_compactAdj, Acme.Mux.mem_sortInts]; exact ha
  rw [hn] at this
  cases this

theorem mem_compactSort (l : List Int) (a : Int) : a ∈ compactAdj (sortInts l) ↔ a ∈ l := by
  rw [Acme.Mux.mem_compactAdj, Acme.Mux.mem_sortInts]

theorem compactSort_strict (l : List Int) : (compactAdj (sortInts l)).Pairwise (· < ·) :=
  Acme.Mux.compactAdj_strict _ (Acme.Mux.sortInts_sorted l)

theorem any_name_false {cs : List Child} {n : String}
    (h : (cs.any (fun d => d.name == n)) = false) : ∀ d ∈ cs, d.name ≠ n := by
  intro d hd hn
  have : cs.any (fun d => d.name == n) = true := List.any_eq_true.2 ⟨d, hd, by simp [hn]⟩
  rw [h] at this
  cases this

/-- what a successful `InsertSignal` on a multiplexer does -/
theorem muxInsert_spec (gc gs : Int) (cs cs' : List Child) (c : Child)
    (h : muxInsert gc gs cs c = .ok cs') (hsz : 0 < c.size)
    (hw : GroupsWF gc gs cs) (hi : IdsOK gc cs) (hn : NamesNodup cs) :
    ∃ c', cs' = cs ++ [c'] ∧ c'.name = c.name ∧ c'.rel = c.rel ∧ c'.size = c.size ∧
      (c.gids = [] → c'.gids = []) ∧ (c.gids ≠ [] → c'.gids = compactAdj (sortInts c.gids)) ∧
      GroupsWF gc gs cs' ∧ IdsOK gc cs' ∧ NamesNodup cs' := by
  unfold muxInsert at h
  split at h
  · cases h
  · rename_i hname
    have hname' : (cs.any (fun d => d.name == c.name)) = false := by
      simpa using hname
    have hfresh := any_name_false hname'
    have hnn : ∀ c' : Child, c'.name = c.name → NamesNodup (cs ++ [c']) := by
      intro c' hc'
      unfold NamesNodup at hn ⊢
      rw [List.map_append, List.nodup_append]
      refine ⟨hn, by simp, ?_⟩
      intro a ha b hb
      simp only [List.map_cons, List.map_nil, List.mem_singleton] at hb
      obtain ⟨d, hd, rfl⟩ := List.mem_map.1 ha
      rw [hb, hc']
      exact hfresh d hd
    split at h
    · -- fixed
      rename_i hfix
      have hg : c.gids = [] := by simpa using hfix
      split at h
      · cases h
      · rename_i hv
        injection h with h
        subst h
        refine ⟨c, rfl, rfl, rfl, rfl, fun _ => hg, fun hne => absurd hg hne, ?_, ?_, hnn c rfl⟩
        · intro k hk
          rw [groupOf_append]
          have hin : c.inGroup (k : Int) = true := by simp [Child.inGroup, hg]
          rw [if_pos hin, childSlots_insertChild]
          have hok := verifyGroups_ok gs cs c.size c.rel _ hv k (by
            rw [List.mem_range]; omega)
          have hacc := ((verifyInsert_spec gs _ (hw k hk) c.size c.rel hsz).1).1 hok
          exact insertAt_wf c.slot hsz _ 0 gs (hw k hk) hacc.1 hacc.2.1 hacc.2.2
        · intro d hd
          rcases List.mem_append.1 hd with hd | hd
          · exact hi d hd
          · rw [List.mem_singleton] at hd
            subst hd
            rw [hg]
            exact ⟨fun g hg' => (by cases hg'), List.Pairwise.nil⟩
    · -- listed
      rename_i hfix
      have hg : c.gids ≠ [] := by simpa using hfix
      dsimp only at h
      split at h
      · cases h
      · rename_i hv
        injection h with h
        subst h
        have hids := verifyIds_ok gc gs cs c.size c.rel _ hv
        refine ⟨{ c with gids := compactAdj (sortInts c.gids) }, rfl, rfl, rfl, rfl,
          fun h0 => absurd h0 hg, fun _ => rfl, ?_, ?_, hnn _ rfl⟩
        · intro k hk
          rw [groupOf_append]
          by_cases hin : ({ c with gids := compactAdj (sortInts c.gids) } : Child).inGroup (k : Int) = true
          · rw [if_pos hin, childSlots_insertChild]
            have hmem : (k : Int) ∈ compactAdj (sortInts c.gids) := by
              simp only [Child.inGroup, Bool.or_eq_true, List.isEmpty_iff] at hin
              rcases hin with h0 | h0
              · exact absurd h0 (compactSort_ne_nil _ hg)
              · simpa using h0
            have hok := (hids _ hmem).2.2
            have hacc := ((verifyInsert_spec gs _ (hw k hk) c.size c.rel hsz).1).1 hok
            exact insertAt_wf ({ c with gids := compactAdj (sortInts c.gids) } : Child).slot hsz _ 0 gs
              (hw k hk) hacc.1 hacc.2.1 hacc.2.2
          · rw [if_neg hin]
            exact hw k hk
        · intro d hd
          rcases List.mem_append.1 hd with hd | hd
          · exact hi d hd
          · rw [List.mem_singleton] at hd
            subst hd
            exact ⟨fun g hg' => ⟨(hids g hg').1, (hids g hg').2.1⟩, compactSort_strict _⟩

/-- `InsertSignal` does not change the kind of the signal -/
theorem muxInsert_isMux (gc gs : Int) (cs cs' : List Child) (c c' : Child)
    (h : muxInsert gc gs cs c = .ok cs') (hc : cs' = cs ++ [c']) : c'.isMux = c.isMux := by
  unfold muxInsert at h
  split at h
  · cases h
  · split at h
    · split at h
      · cases h
      · injection h with h
        rw [← h] at hc
        have := List.append_cancel_left hc
        injection this with this
        rw [← this]
    · dsimp only at h
      split at h
      · cases h
      · injection h with h
        rw [← h] at hc
        have := List.append_cancel_left hc
        injection this with this
        rw [← this]

/-! ### insertion into the message -/

theorem calcSize_pos (v : Int) : 0 < calcSize v := by
  unfold calcSize
  split
  · omega
  · split
    · decide
    · rename_i h0 h1
      unfold len64
      split
      · omega
      · omega

/-- the part of the top-level invariant that `insertTop` keeps -/
def TopWF (cap : Int) (top : List Item) : Prop := WF cap (topSlots top)

theorem topWF_nil (cap : Int) (h : 0 ≤ cap) : TopWF cap [] := by
  simp only [TopWF, topSlots, List.map_nil, WF, WFfrom]
  exact h

theorem ofLErr_verify (cap : Int) (l : List Slot) (sz st : Int) (e : LErr)
    (h : verifyInsert cap l sz st = .error e) :
    e = .negative ∨ e = .outOfBounds ∨ e = .noSpaceLeft ∨ e = .intersect := by
  unfold verifyInsert at h
  split at h
  · injection h with h; exact Or.inl h.symm
  · split at h
    · injection h with h; exact Or.inr (Or.inl h.symm)
    · split at h
      · injection h with h; exact Or.inr (Or.inr (Or.inl h.symm))
      · have : ∀ (l : List Slot), scanInsert st (st + sz) l = .error e → e = .intersect := by
          intro l
          induction l with
          | nil => intro h; cases h
          | cons s rest ih =>
            intro h
            unfold scanInsert at h
            split at h
            · cases h
            · split at h
              · exact ih h
              · split at h
                · injection h with h; exact h.symm
                · exact ih h
        exact Or.inr (Or.inr (Or.inr (this l h)))

theorem insertTop_spec (cap : Int) (top top' : List Item) (x : Item)
    (h : insertTop cap top x = .ok top') (hsz : 0 < x.size) (hw : TopWF cap top) :
    top' = insertItem x top ∧ TopWF cap top' ∧ x.name ∉ regNames top ∧ nestedClash top x = false ∧
    0 ≤ x.start ∧ x.start + x.size ≤ cap ∧ RangeFree (topSlots top) x.start x.size := by
  unfold insertTop at h
  split at h
  · cases h
  · rename_i h1
    split at h
    · cases h
    · rename_i h2
      split at h
      · cases h
      · rename_i hv
        injection h with h
        subst h
        have hacc := ((verifyInsert_spec cap _ hw x.size x.start hsz).1).1 hv
        refine ⟨rfl, ?_, ?_, by simpa using h2, hacc.1, hacc.2.1, hacc.2.2⟩
        · unfold TopWF
          rw [topSlots_insertItem]
          exact insertAt_wf x.slot hsz _ 0 cap hw hacc.1 hacc.2.1 hacc.2.2
        · intro hc
          apply h1
          simpa using hc

end Acme.Import
