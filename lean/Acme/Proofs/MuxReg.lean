/-
Multiplexer world, part I: the message registry (`Message.addSignal` / `removeSignal`):
what `msgAddSignal` / `msgRemoveSignal` compute, the names of a subtree, and the registry
clauses of `MsgOK` after a subtree was registered / unregistered.
-/
import Acme.Proofs.MuxMsg

namespace Acme.Mux
open Acme.Layout Acme.Arith

theorem msgAddSignal_eq (w1 : MW) (m s : Nat) (msg1 : MsgE) (hm : w1.msgs.get m = some msg1) :
    msgAddSignal w1 m s =
      { sigs := setParentMsgs w1.sigs (some m) (s :: descendants w1 (fuelOf w1) s),
        msgs := w1.msgs.set m { msg1 with
          signals := sAddAll msg1.signals (s :: descendants w1 (fuelOf w1) s),
          signalNames := nmSetAll (nmSet msg1.signalNames (nameOf w1 s) s)
            ((s :: descendants w1 (fuelOf w1) s).flatMap (childNamesOf w1)) } } := by
  unfold msgAddSignal
  simp only [hm]

theorem msgRemoveSignal_eq (w1 : MW) (m s : Nat) (msg1 : MsgE) (hm : w1.msgs.get m = some msg1) :
    msgRemoveSignal w1 m s =
      { sigs := setParentMsgs w1.sigs none (s :: descendants w1 (fuelOf w1) s),
        msgs := w1.msgs.set m { msg1 with
          signals := sDelAll msg1.signals (s :: descendants w1 (fuelOf w1) s),
          signalNames := nmDelAll (nmDel msg1.signalNames (nameOf w1 s))
            (((s :: descendants w1 (fuelOf w1) s).flatMap (childNamesOf w1)).map (·.1)) } } := by
  unfold msgRemoveSignal
  simp only [hm]

/-- the children of the nodes of a subtree are its proper members -/
theorem subtree_children (w : MW) (ht : TreeOK w) (s i : Nat) :
    (∃ y, (y = s ∨ y ∈ descendants w (fuelOf w) s) ∧ i ∈ childrenOf w y) ↔ i ∈ descendants w (fuelOf w) s := by
  rw [mem_descendants_iff w ht]
  constructor
  · rintro ⟨y, hy, hi⟩
    obtain ⟨e, he, hp⟩ := (ht.children y i).mp hi
    rcases hy with rfl | hy
    · exact ⟨0, e, y, he, hp, rfl⟩
    · obtain ⟨k, ha⟩ := (mem_descendants_iff w ht s y).mp hy
      exact ⟨k + 1, e, y, he, hp, ha⟩
  · rintro ⟨k, e, p, he, hp, ha⟩
    refine ⟨p, ?_, (ht.children p i).mpr ⟨e, he, hp⟩⟩
    cases k with
    | zero => simp only [Anc] at ha; exact Or.inl ha
    | succ k => exact Or.inr ((mem_descendants_iff w ht s p).mpr ⟨k, ha⟩)

/-- the name registries of the multiplexers of a subtree list exactly its proper members -/
theorem mem_subtreeNames' (w : MW) (ht : TreeOK w) (s : Nat)
    (hnames : ∀ y, (y = s ∨ y ∈ descendants w (fuelOf w) s) →
      ∀ n i, (n, i) ∈ childNamesOf w y ↔ i ∈ childrenOf w y ∧ nameOf w i = n)
    (n : String) (i : Nat) :
    (n, i) ∈ (s :: descendants w (fuelOf w) s).flatMap (childNamesOf w) ↔
      i ∈ descendants w (fuelOf w) s ∧ nameOf w i = n := by
  rw [← subtree_children w ht s i]
  simp only [List.mem_flatMap, List.mem_cons]
  constructor
  · rintro ⟨y, hy, hi⟩
    obtain ⟨h1, h2⟩ := (hnames y hy n i).mp hi
    exact ⟨⟨y, hy, h1⟩, h2⟩
  · rintro ⟨⟨y, hy, hi⟩, hn⟩
    exact ⟨y, hy, (hnames y hy n i).mpr ⟨hi, hn⟩⟩

theorem mem_subtreeNames (w : MW) (ht : TreeOK w) (s : Nat)
    (hnames : ∀ y n i, (n, i) ∈ childNamesOf w y ↔ i ∈ childrenOf w y ∧ nameOf w i = n)
    (n : String) (i : Nat) :
    (n, i) ∈ (s :: descendants w (fuelOf w) s).flatMap (childNamesOf w) ↔
      i ∈ descendants w (fuelOf w) s ∧ nameOf w i = n :=
  mem_subtreeNames' w ht s (fun y _ => hnames y) n i

/-- `childNamesOf` is exact in a world whose multiplexers are -/
theorem childNames_exact (w : MW)
    (hmux : ∀ x xe gc gs, w.sigs.get x = some xe → xe.kind = .mux gc gs →
      ∀ n i, (n, i) ∈ xe.mx.signalNames ↔ i ∈ xe.mx.signals ∧ nameOf w i = n)
    (y : Nat) (n : String) (i : Nat) :
    (n, i) ∈ childNamesOf w y ↔ i ∈ childrenOf w y ∧ nameOf w i = n := by
  unfold childNamesOf childrenOf
  cases hy : w.sigs.get y with
  | none => simp
  | some ye =>
    cases hk : ye.kind with
    | leaf z => simp [hk]
    | mux gc gs => simp only [hk]; exact hmux y ye gc gs hy hk n i

/-- The registry clauses of the target message after the subtree `all = s :: D` was registered. -/
theorem registry_add (w w' : MW) (m : Nat) (msg : MsgE) (hmo : MsgOK w m msg) (all : List Nat) (P : Names)
    (hall : ∀ t ∈ all, ∃ e', w'.sigs.get t = some e' ∧ e'.parentMsg = some m)
    (hrest : ∀ t, t ∉ all → ((∃ e', w'.sigs.get t = some e' ∧ e'.parentMsg = some m) ↔
        (∃ e, w.sigs.get t = some e ∧ e.parentMsg = some m)))
    (hname : ∀ t, t ∈ msg.signals ∨ t ∈ all → nameOf w' t = nameOf w t)
    (hP : ∀ n i, (n, i) ∈ P ↔ i ∈ all ∧ nameOf w i = n)
    (hinj : ∀ i j, i ∈ all → j ∈ all → nameOf w i = nameOf w j → i = j)
    (hdisj : ∀ i, i ∈ all → ∀ j, (nameOf w i, j) ∉ msg.signalNames) :
    (∀ t, t ∈ sAddAll msg.signals all ↔ ∃ e', w'.sigs.get t = some e' ∧ e'.parentMsg = some m) ∧
    KeysNodup (nmSetAll msg.signalNames P) ∧
    (∀ n i, (n, i) ∈ nmSetAll msg.signalNames P ↔ i ∈ sAddAll msg.signals all ∧ nameOf w' i = n) := by
  have hfun : Functional P := by
    intro n i j h1 h2
    obtain ⟨a1, a2⟩ := (hP n i).mp h1
    obtain ⟨b1, b2⟩ := (hP n j).mp h2
    exact hinj i j a1 b1 (by rw [a2, b2])
  refine ⟨?_, keysNodup_nmSetAll _ _ hmo.namesNodup, ?_⟩
  · intro t
    rw [mem_sAddAll]
    by_cases hta : t ∈ all
    · simp only [hta, true_or, true_iff]
      exact hall t hta
    · simp only [hta, false_or]
      rw [hrest t hta, hmo.reg]
  · intro n i
    rw [mem_nmSetAll _ _ hfun, mem_sAddAll, hP]
    constructor
    · rintro (⟨hi, hn⟩ | ⟨hm, _⟩)
      · exact ⟨Or.inl hi, by rw [hname i (Or.inr hi), hn]⟩
      · obtain ⟨hi, hn⟩ := (hmo.names n i).mp hm
        exact ⟨Or.inr hi, by rw [hname i (Or.inl hi), hn]⟩
    · rintro ⟨hi | hi, hn⟩
      · left; exact ⟨hi, by rw [← hname i (Or.inr hi), hn]⟩
      · by_cases hia : i ∈ all
        · left; exact ⟨hia, by rw [← hname i (Or.inr hia), hn]⟩
        · right
          have hn0 : nameOf w i = n := by rw [← hname i (Or.inl hi), hn]
          refine ⟨(hmo.names n i).mpr ⟨hi, hn0⟩, ?_⟩
          intro j hj
          obtain ⟨hja, hjn⟩ := (hP n j).mp hj
          apply hdisj j hja i
          rw [hjn]
          exact (hmo.names n i).mpr ⟨hi, hn0⟩

/-- The registry clauses of the message after the registered subtree `all` was unregistered. -/
theorem registry_del (w w' : MW) (m : Nat) (msg : MsgE) (hmo : MsgOK w m msg) (all : List Nat) (ks : List String)
    (hsub : ∀ t ∈ all, t ∈ msg.signals)
    (hall : ∀ t ∈ all, ∀ e', w'.sigs.get t = some e' → e'.parentMsg ≠ some m)
    (hrest : ∀ t, t ∉ all → ((∃ e', w'.sigs.get t = some e' ∧ e'.parentMsg = some m) ↔
        (∃ e, w.sigs.get t = some e ∧ e.parentMsg = some m)))
    (hname : ∀ t, t ∈ msg.signals → nameOf w' t = nameOf w t)
    (hks : ∀ n, n ∈ ks ↔ ∃ i, i ∈ all ∧ nameOf w i = n) :
    (∀ t, t ∈ sDelAll msg.signals all ↔ ∃ e', w'.sigs.get t = some e' ∧ e'.parentMsg = some m) ∧
    KeysNodup (nmDelAll msg.signalNames ks) ∧
    (∀ n i, (n, i) ∈ nmDelAll msg.signalNames ks ↔ i ∈ sDelAll msg.signals all ∧ nameOf w' i = n) := by
  refine ⟨?_, keysNodup_nmDelAll _ _ hmo.namesNodup, ?_⟩
  · intro t
    rw [mem_sDelAll]
    by_cases hta : t ∈ all
    · simp only [hta, not_true_eq_false, and_false, false_iff]
      rintro ⟨e', he', hp⟩
      exact hall t hta e' he' hp
    · simp only [hta, not_false_eq_true, and_true]
      rw [hrest t hta, hmo.reg]
  · intro n i
    rw [mem_nmDelAll, mem_sDelAll]
    simp only
    rw [hks]
    constructor
    · rintro ⟨hm, hno⟩
      obtain ⟨hi, hn⟩ := (hmo.names n i).mp hm
      refine ⟨⟨hi, ?_⟩, by rw [hname i hi, hn]⟩
      intro hia
      exact hno ⟨i, hia, hn⟩
    · rintro ⟨⟨hi, hia⟩, hn⟩
      have hn0 : nameOf w i = n := by rw [← hname i hi, hn]
      refine ⟨(hmo.names n i).mpr ⟨hi, hn0⟩, ?_⟩
      rintro ⟨j, hja, hjn⟩
      have h1 : (n, i) ∈ msg.signalNames := (hmo.names n i).mpr ⟨hi, hn0⟩
      have h2 : (n, j) ∈ msg.signalNames := (hmo.names n j).mpr ⟨hsub j hja, hjn⟩
      have e1 := (nmGet_eq_some_iff _ hmo.namesNodup _ _).mpr h1
      have e2 := (nmGet_eq_some_iff _ hmo.namesNodup _ _).mpr h2
      rw [e1] at e2
      have : i = j := Option.some.inj e2
      exact hia (this ▸ hja)

end Acme.Mux
