/-
Payload world, part E: size changes of one signal (`verifySizeAmount`, `modifySize`) on a
world whose structure group holds and whose layout (of the signal's message) is well-formed.
-/
import Acme.Proofs.PayloadInv

namespace Acme.Layout

theorem growPush_error : ∀ (l : List Slot) (sp : List Int) (acc : Int) (e : LErr),
    growPush l sp acc = .error e → e = .panic
  | [], _, _, _, h => by simp [growPush] at h
  | s :: rest, [], _, e, h => by
    simp only [growPush] at h
    injection h with h; exact h.symm
  | s :: rest, sp :: sps, acc, e, h => by
    simp only [growPush] at h
    split at h
    · cases h
    · split at h
      · rename_i e' heq
        injection h with h
        subst h
        exact growPush_error rest sps _ _ heq
      · cases h

theorem growStarts_error (cap : Int) (l : List Slot) (id : Nat) (amount : Int) (e : LErr)
    (hg : growStarts cap l id amount = .error e) :
    verifyGrow cap l id amount = .error e ∨ e = .panic := by
  unfold growStarts at hg
  by_cases h0 : amount = 0
  · rw [if_pos h0] at hg; cases hg
  · rw [if_neg h0] at hg
    cases hv : verifyGrow cap l id amount with
    | error e' =>
      rw [hv] at hg; simp only at hg
      injection hg with hg; left; rw [hg]
    | ok u =>
      rw [hv] at hg; simp only at hg
      cases hsp : growSpaces id l 0 [] 0 0 false with
      | none => rw [hsp] at hg; cases hg
      | some r =>
        obtain ⟨spaces, nextIdx, prevEnd⟩ := r
        rw [hsp] at hg; simp only at hg
        cases hgp : growPush (l.drop nextIdx) (spaces ++ [cap - prevEnd]) amount with
        | error e' =>
          rw [hgp] at hg; simp only at hg
          injection hg with hg; subst hg
          right; exact growPush_error _ _ _ _ hgp
        | ok t => rw [hgp] at hg; cases hg

theorem growStarts_ok_of_verify (cap : Int) (l : List Slot) (h : WF cap l) (hn : IdsNodup l)
    (id : Nat) (hid : (find id l).isSome) (amount : Int) (hv : verifyGrow cap l id amount = .ok ()) :
    ∃ sl, growStarts cap l id amount = .ok sl := by
  cases hg : growStarts cap l id amount with
  | ok sl => exact ⟨sl, rfl⟩
  | error e =>
    exfalso
    rcases growStarts_error cap l id amount e hg with h1 | h1
    · rw [hv] at h1; cases h1
    · subst h1; exact grow_nopanic cap l h hn id hid amount hg

theorem sizeSum_le_of_wf : ∀ {l : List Slot} {lo cap : Int}, WFfrom lo cap l → lo + sizeSum l ≤ cap
  | [], lo, cap, h => by
    have : lo ≤ cap := h
    simp [sizeSum]; exact this
  | s :: rest, lo, cap, h => by
    rw [WFfrom_cons] at h
    have ih := sizeSum_le_of_wf h.2.2
    rw [sizeSum_cons]
    omega

theorem freeBehind_nonneg (cap : Int) (l : List Slot) (h : WF cap l) (id : Nat) :
    0 ≤ freeBehind cap l id := by
  cases hf : find id l with
  | none => unfold freeBehind; rw [hf]; exact Int.le_refl 0
  | some s =>
    rw [freeBehind_eq hf]
    have := sizeSum_le_of_wf (followers_wf h hf)
    omega

/-- re-stating the size a slot already has changes nothing -/
theorem setSize_same {l : List Slot} {id : Nat} {sz : Int} (h : ∀ x ∈ l, x.id = id → x.size = sz) :
    setSize l id sz = l := by
  unfold setSize
  conv => rhs; rw [← List.map_id l]
  apply List.map_congr_left
  intro x hx
  split
  · rename_i he
    have := h x hx he
    cases x; simp_all
  · rfl

end Acme.Layout

namespace Acme.Payload
open Acme.Layout Acme.Bits Acme.Arith

theorem verifySizeAmount_nopanic (w : W) (sid : Nat) (amount : Int) :
    verifySizeAmount w sid amount ≠ .error .panic := by
  unfold verifySizeAmount
  repeat' split
  all_goals first
    | (intro h; cases h)
    | skip
  · unfold verifyGrow
    repeat' split
    all_goals (intro h; cases h)
  · unfold verifyShrink
    repeat' split
    all_goals (intro h; cases h)

theorem verifySizeAmount_unattached {w : W} {sid : Nat} {sg : SigE} (hs : w.sigs.get sid = some sg)
    (hp : sg.parent = none) (amount : Int) : verifySizeAmount w sid amount = .ok () := by
  unfold verifySizeAmount; rw [hs]; simp only [hp]

theorem modifySize_unattached {w : W} {sid : Nat} {sg : SigE} (hs : w.sigs.get sid = some sg)
    (hp : sg.parent = none) (amount : Int) : modifySize w sid amount = .ok w := by
  unfold modifySize
  rw [verifySizeAmount_unattached hs hp, hs]; simp only [hp]

theorem verifySizeAmount_zero (w : W) (sid : Nat) : verifySizeAmount w sid 0 = .ok () := by
  unfold verifySizeAmount
  cases w.sigs.get sid with
  | none => rfl
  | some s =>
    simp only
    cases s.parent with
    | none => rfl
    | some m =>
      simp only
      cases w.msgs.get m with
      | none => rfl
      | some msg => simp

theorem modifySize_zero (w : W) (sid : Nat) : modifySize w sid 0 = .ok w := by
  unfold modifySize
  rw [verifySizeAmount_zero]
  simp only
  cases w.sigs.get sid with
  | none => rfl
  | some s =>
    simp only
    cases s.parent with
    | none => rfl
    | some m =>
      simp only
      cases w.msgs.get m with
      | none => rfl
      | some msg => simp

/-- the effect of an accepted size change on the world: only positions of signals of the
    message layout move; with the new size the layout is well-formed -/
structure ModOK (w w' : W) (msg : MsgE) (sid : Nat) (newSize : Int) : Prop where
  types : w'.types = w.types
  vals : w'.vals = w.vals
  enums : w'.enums = w.enums
  msgs : w'.msgs = w.msgs
  core : ∀ i, (w'.sigs.get i).map SigE.core = (w.sigs.get i).map SigE.core
  out : ∀ i, i ∉ msg.layout → w'.sigs.get i = w.sigs.get i
  idsize : (slotsOf w' msg.layout).map (fun x => (x.id, x.size)) =
           (slotsOf w msg.layout).map (fun x => (x.id, x.size))
  wf : WF msg.cap (setSize (slotsOf w' msg.layout) sid newSize)

section attached
variable {w : W} (hS : InvS w) {sid m : Nat} {sg : SigE} {msg : MsgE}
  (hs : w.sigs.get sid = some sg) (hp : sg.parent = some m) (hm : w.msgs.get m = some msg)
  (hwf : WF msg.cap (slotsOf w msg.layout))
include hS hs hp hm hwf

omit hwf in
theorem attached_mem : sid ∈ msg.layout := by
  obtain ⟨msg', h1, h2⟩ := hS.parentLayout sid sg m hs hp
  rw [hm] at h1; injection h1 with h1; subst h1; exact h2

omit hwf in
theorem attached_find :
    find sid (slotsOf w msg.layout) = some ⟨sid, sg.rel, sizeOf w sg⟩ :=
  find_slotsOf (attached_mem hS hs hp hm) hs

/-- acceptance of a size change of an attached signal -/
theorem verifySizeAmount_attached_iff (amount : Int) (hpos : 0 < sizeOf w sg + amount) :
    verifySizeAmount w sid amount = .ok () ↔ amount ≤ freeBehind msg.cap (slotsOf w msg.layout) sid := by
  have hfb := freeBehind_nonneg msg.cap _ hwf sid
  have hfind := attached_find hS hs hp hm
  unfold verifySizeAmount
  rw [hs]; simp only [hp, hm]
  split
  · rename_i h0; subst h0; exact ⟨fun _ => hfb, fun _ => rfl⟩
  · split
    · rw [verifyGrow_eq _ _ _ _ hfind]
      split
      · omega
      · split
        · rename_i h1; exact ⟨fun hh => (by cases hh), fun hh => (by omega)⟩
        · rename_i h1; exact ⟨fun _ => (by omega), fun _ => rfl⟩
    · rw [verifyShrink_ok_iff]
      constructor
      · intro _; omega
      · intro _; omega

theorem modifySize_ok_of_verify (amount : Int) (hv : verifySizeAmount w sid amount = .ok ()) :
    ∃ w', modifySize w sid amount = .ok w' := by
  have hfind := attached_find hS hs hp hm
  have hn := hS.idsNodup hm
  unfold modifySize
  rw [hv]
  simp only [hs, hp, hm]
  by_cases h0 : amount = 0
  · rw [if_pos h0]; exact ⟨w, rfl⟩
  · rw [if_neg h0]
    unfold verifySizeAmount at hv
    rw [hs] at hv; simp only [hp, hm, if_neg h0] at hv
    by_cases hpos : amount > 0
    · rw [if_pos hpos] at hv ⊢
      obtain ⟨sl, hsl⟩ := growStarts_ok_of_verify msg.cap _ hwf hn sid (by rw [hfind]; rfl) amount hv
      rw [hsl]; exact ⟨_, rfl⟩
    · rw [if_neg hpos] at hv ⊢
      unfold shrinkStarts
      rw [if_neg (by omega), hv]
      exact ⟨_, rfl⟩

theorem modifySize_error (amount : Int) (e : LErr) (he : modifySize w sid amount = .error e) :
    verifySizeAmount w sid amount = .error e := by
  cases hv : verifySizeAmount w sid amount with
  | error e' =>
    unfold modifySize at he
    rw [hv] at he
    simp only at he
    injection he with he
    rw [he]
  | ok u =>
    cases u
    obtain ⟨w', hw'⟩ := modifySize_ok_of_verify hS hs hp hm hwf amount hv
    rw [hw'] at he; cases he

/-- the effect of an accepted size change of an attached signal -/
theorem modifySize_attached (amount : Int) (hpos : 0 < sizeOf w sg + amount) (w' : W)
    (hok : modifySize w sid amount = .ok w') : ModOK w w' msg sid (sizeOf w sg + amount) := by
  have hfind := attached_find hS hs hp hm
  have hn := hS.idsNodup hm
  have hpres := hS.layout_present hm
  have hnd := hS.layoutNodup m msg hm
  -- the shape of the result when the slots are re-written
  have main : ∀ sl : List Slot,
      sl.map (fun x => (x.id, x.size)) = (slotsOf w msg.layout).map (fun x => (x.id, x.size)) →
      WF msg.cap (setSize sl sid (sizeOf w sg + amount)) →
      ModOK w { w with sigs := setStarts w.sigs sl } msg sid (sizeOf w sg + amount) := by
    intro sl hmap hw
    have hsl : slotsOf { w with sigs := setStarts w.sigs sl } msg.layout = sl :=
      slotsOf_setStarts hpres hnd hmap _ rfl rfl rfl
    exact ⟨rfl, rfl, rfl, rfl, fun i => setStarts_core w.sigs sl i,
      fun i hi => setStarts_get_notin hmap hi, by rw [hsl]; exact hmap, by rw [hsl]; exact hw⟩
  have same : ModOK w w msg sid (sizeOf w sg + 0) := by
    refine ⟨rfl, rfl, rfl, rfl, fun _ => rfl, fun _ _ => rfl, rfl, ?_⟩
    rw [setSize_same]
    · exact hwf
    · intro x hx hid
      obtain ⟨_, s2, hs2, hx2⟩ := mem_slotsOf.1 hx
      rw [hid, hs] at hs2
      injection hs2 with hs2; subst hs2
      rw [hx2]; simp
  unfold modifySize at hok
  split at hok
  · cases hok
  · simp only [hs, hp, hm] at hok
    split at hok
    · rename_i h0
      injection hok with hok; subst hok; subst h0; exact same
    · rename_i h0
      split at hok
      · cases hok
      · rename_i sl hsl
        injection hok with hok; subst hok
        split at hsl
        · have := grow_wf msg.cap _ hwf hn sid _ hfind amount sl hsl
          exact main sl this.2.1 this.1
        · rename_i hneg
          have := (shrink_spec msg.cap _ hwf hn sid _ hfind (-amount) (by omega)).2 sl hsl
          have e : sizeOf w sg - -amount = sizeOf w sg + amount := by omega
          simp only at this
          rw [e] at this
          exact main sl this.2.1 this.1

end attached

/-- replacing the size of one slot, pointwise -/
theorem slotsOf_resize {w1 w2 : W} {L : List Nat} {s : Nat} {newSize : Int}
    (hother : ∀ i ∈ L, i ≠ s → slotAt w2 i = slotAt w1 i)
    (hself : slotAt w2 s = (slotAt w1 s).map (fun x => { x with size := newSize })) :
    slotsOf w2 L = setSize (slotsOf w1 L) s newSize := by
  rw [slotsOf_eq, slotsOf_eq]
  unfold setSize
  rw [List.map_filterMap]
  apply List.filterMap_congr
  intro i hi
  by_cases his : i = s
  · subst his
    rw [hself]
    cases h1 : slotAt w1 i with
    | none => rfl
    | some x =>
      have : x.id = i := by
        unfold slotAt at h1
        cases hg : w1.sigs.get i with
        | none => rw [hg] at h1; cases h1
        | some sg => rw [hg] at h1; simp only [Option.map_some, Option.some.injEq] at h1; rw [← h1]
      simp [this]
  · rw [hother i hi his]
    cases h1 : slotAt w1 i with
    | none => rfl
    | some x =>
      have : x.id = i := by
        unfold slotAt at h1
        cases hg : w1.sigs.get i with
        | none => rw [hg] at h1; cases h1
        | some sg => rw [hg] at h1; simp only [Option.map_some, Option.some.injEq] at h1; rw [← h1]
      simp [this, his]

end Acme.Payload
