/-
C08, write-then-parse, part 1: the sections without floats
(value tables, message transmitters, environment variable data, comments, value encodings,
signal type references, signal groups, extended value types, extended multiplexing).

Each lemma `step_X` says: the top-level loop body (`stepSection`) on the tokens `writeX x`
followed by `rest` appends `x` to the section list of the document and leaves `rest`.
-/
import Acme.Proofs.DbcBasic

set_option linter.unusedSimpArgs false

namespace Acme.Dbc

theorem step_valueTable (hex : Bool) (fl : PFlags) (ast : File) (vt : ValueTable)
    (rest : List Token) (h : valueTableOK vt = true) :
    stepSection hex fl ast (writeValueTable vt ++ rest) =
      .ok (({ ast with valueTables := ast.valueTables ++ [vt] }, fl), rest) := by
  simp only [valueTableOK, Bool.and_eq_true] at h
  simp [stepSection, writeValueTable, Token.kw, parseSection, parseValueTable,
    classifyWord_of_identOK h.1, parseValueDescriptions_write _ _ h.2]

theorem step_messageTransmitter (hex : Bool) (fl : PFlags) (ast : File) (t : MessageTransmitter)
    (rest : List Token) (h : messageTransmitterOK t = true) :
    stepSection hex fl ast (writeMessageTransmitter t ++ rest) =
      .ok (({ ast with messageTransmitters := ast.messageTransmitters ++ [t] }, fl), rest) := by
  simp only [messageTransmitterOK, Bool.and_eq_true] at h
  simp [stepSection, writeMessageTransmitter, uintTok, Token.kw, parseSection, parseMessageTransmitter,
    parseMessageID_uintTok _ _ h.1, parseIdents_words _ _ h.2 (noIdentHead_p _ _)]

theorem step_envVarData (hex : Bool) (fl : PFlags) (ast : File) (d : EnvVarData)
    (rest : List Token) (h : envVarDataOK d = true) :
    stepSection hex fl ast (writeEnvVarData d ++ rest) =
      .ok (({ ast with envVarDatas := ast.envVarDatas ++ [d] }, fl), rest) := by
  simp only [envVarDataOK, Bool.and_eq_true] at h
  simp [stepSection, writeEnvVarData, uintTok, Token.kw, parseSection, parseEnvVarData, parseEnvVarName,
    classifyWord_of_identOK h.1, scanUint_uintTok _ _ _ _ h.2]

theorem step_comment_canon (hex : Bool) (fl : PFlags) (ast : File) (c : Comment)
    (rest : List Token) (h : commentOK c = true) :
    stepSection hex fl ast (writeComment c ++ rest) =
      .ok (({ ast with comments := ast.comments ++ [c.canon] }, fl), rest) := by
  simp only [commentOK, Bool.and_eq_true] at h
  obtain ⟨⟨_, _⟩, hk⟩ := h
  cases hkind : c.kind <;> rw [hkind] at hk
  · simp [stepSection, writeComment, uintTok, Token.kw, parseSection, parseComment, hkind, Comment.canon]
  · simp [stepSection, writeComment, uintTok, Token.kw, parseSection, parseComment, hkind, Comment.canon,
      parseNodeName, classifyWord_of_identOK hk]
  · simp [stepSection, writeComment, uintTok, Token.kw, parseSection, parseComment, hkind, Comment.canon,
      parseMessageID_uintTok _ _ hk]
  · simp only [Bool.and_eq_true] at hk
    simp [stepSection, writeComment, uintTok, Token.kw, parseSection, parseComment, hkind, Comment.canon,
      parseMessageID_uintTok _ _ hk.1, parseSignalName, classifyWord_of_identOK hk.2]
  · simp [stepSection, writeComment, uintTok, Token.kw, parseSection, parseComment, hkind, Comment.canon,
      parseEnvVarName, classifyWord_of_identOK hk]

theorem step_comment (hex : Bool) (fl : PFlags) (ast : File) (c : Comment)
    (rest : List Token) (h : commentOK c = true) :
    stepSection hex fl ast (writeComment c ++ rest) =
      .ok (({ ast with comments := ast.comments ++ [c] }, fl), rest) := by
  have hc : c.canon = c := by
    simp only [commentOK, Bool.and_eq_true, decide_eq_true_eq] at h
    exact h.1.2
  have := step_comment_canon hex fl ast c rest h
  rw [hc] at this
  exact this

theorem step_valueEncoding_canon (hex : Bool) (fl : PFlags) (ast : File) (e : ValueEncoding)
    (rest : List Token) (h : valueEncodingOK e = true) :
    stepSection hex fl ast (writeValueEncoding e ++ rest) =
      .ok (({ ast with valueEncodings := ast.valueEncodings ++ [e.canon] }, fl), rest) := by
  simp only [valueEncodingOK, Bool.and_eq_true] at h
  obtain ⟨⟨_, hv⟩, hk⟩ := h
  cases hkind : e.kind <;> rw [hkind] at hk
  · simp only [Bool.and_eq_true] at hk
    simp [stepSection, writeValueEncoding, Token.kw, parseSection, parseValueEncoding, hkind,
      ValueEncoding.canon, uintTok, parseMessageID_uintTok _ _ hk.1,
      parseSignalName, classifyWord_of_identOK hk.2, parseValueDescriptions_write _ _ hv]
  · simp [stepSection, writeValueEncoding, Token.kw, parseSection, parseValueEncoding, hkind,
      ValueEncoding.canon, parseEnvVarName, classifyWord_of_identOK hk,
      parseValueDescriptions_write _ _ hv]

theorem step_valueEncoding (hex : Bool) (fl : PFlags) (ast : File) (e : ValueEncoding)
    (rest : List Token) (h : valueEncodingOK e = true) :
    stepSection hex fl ast (writeValueEncoding e ++ rest) =
      .ok (({ ast with valueEncodings := ast.valueEncodings ++ [e] }, fl), rest) := by
  have hc : e.canon = e := by
    simp only [valueEncodingOK, Bool.and_eq_true, decide_eq_true_eq] at h
    exact h.1.1
  have := step_valueEncoding_canon hex fl ast e rest h
  rw [hc] at this
  exact this

theorem step_signalTypeRef (hex : Bool) (fl : PFlags) (ast : File) (r : SignalTypeRef)
    (rest : List Token) (h : signalTypeRefOK r = true) :
    stepSection hex fl ast (writeSignalTypeRef r ++ rest) =
      .ok (({ ast with signalTypeRefs := ast.signalTypeRefs ++ [r] }, fl), rest) := by
  simp only [signalTypeRefOK, Bool.and_eq_true] at h
  simp [stepSection, writeSignalTypeRef, Token.kw, parseSection, parseSignalType, uintTok,
    parseSignalTypeRef, parseMessageID_uintTok _ _ h.1.2, parseSignalName,
    classifyWord_of_identOK h.1.1, classifyWord_of_identOK h.2]

theorem step_signalGroup (hex : Bool) (fl : PFlags) (ast : File) (g : SignalGroup)
    (rest : List Token) (h : signalGroupOK g = true) :
    stepSection hex fl ast (writeSignalGroup g ++ rest) =
      .ok (({ ast with signalGroups := ast.signalGroups ++ [g] }, fl), rest) := by
  simp only [signalGroupOK, Bool.and_eq_true] at h
  simp [stepSection, writeSignalGroup, uintTok, Token.kw, parseSection, parseSignalGroup,
    parseMessageID_uintTok _ _ h.1.1.1, classifyWord_of_identOK h.1.1.2,
    scanUint_uintTok _ _ _ _ h.1.2, parseIdents_words _ _ h.2 (noIdentHead_p _ _)]

theorem scanUint_extValueType (m1 m2 : String) (t : ExtValueType) (ts : List Token) :
    scanUint m1 m2 (writeExtValueType t :: ts) =
      .ok ((match t with | .integer => 0 | .float => 1 | .double => 2), ts) := by
  cases t <;> simp [scanUint, writeExtValueType, uintOf, parseUint_lit0, parseUint_lit1, parseUint_lit2]

theorem step_signalExtValueType (hex : Bool) (fl : PFlags) (ast : File) (t : SignalExtValueType)
    (rest : List Token) (h : signalExtValueTypeOK t = true) :
    stepSection hex fl ast (writeSignalExtValueType t ++ rest) =
      .ok (({ ast with signalExtValueTypes := ast.signalExtValueTypes ++ [t] }, fl), rest) := by
  simp only [signalExtValueTypeOK, Bool.and_eq_true] at h
  obtain ⟨id, name, evt⟩ := t
  cases evt <;>
  simp [stepSection, writeSignalExtValueType, uintTok, Token.kw, parseSection, parseSignalExtValueType,
    parseMessageID_uintTok _ _ h.1, parseSignalName, classifyWord_of_identOK h.2,
    scanUint_extValueType]

theorem parseCommaRanges_stop (ts : List Token) (h : NoCommaHead ts) :
    parseCommaRanges ts = .ok ([], ts) := by
  unfold parseCommaRanges
  split
  · simp only [NoCommaHead] at h
    simp [h]
  · simp only [NoCommaHead] at h
    simp [h]
  · rfl

theorem parseCommaRanges_write (rs : List ExtendedMuxRange) (rest : List Token)
    (h : rs.all extendedMuxRangeOK = true) (hr : NoCommaHead rest) :
    parseCommaRanges (commaTail writeExtendedMuxRange rs ++ rest) = .ok (rs, rest) := by
  induction rs with
  | nil => exact parseCommaRanges_stop rest hr
  | cons r rs ih =>
    simp only [List.all_cons, Bool.and_eq_true, extendedMuxRangeOK] at h
    simp only [commaTail, writeExtendedMuxRange, List.cons_append, List.nil_append, Token.p,
      parseCommaRanges, getPunctKind_punctText, if_true, parseRangeText_format _ _ h.1.1 h.1.2,
      ih h.2]

theorem parseExtendedMuxRange_write (r : ExtendedMuxRange) (ts : List Token)
    (h : u32 r.from_ = true ∧ u32 r.to = true) :
    parseExtendedMuxRange (writeExtendedMuxRange r ++ ts) = .ok (r, ts) := by
  simp [writeExtendedMuxRange, parseExtendedMuxRange, parseRangeText_format _ _ h.1 h.2]

theorem step_extendedMux (hex : Bool) (fl : PFlags) (ast : File) (m : ExtendedMux)
    (rest : List Token) (h : extendedMuxOK m = true) :
    stepSection hex fl ast (writeExtendedMux m ++ rest) =
      .ok (({ ast with extendedMuxes := ast.extendedMuxes ++ [m] }, fl), rest) := by
  simp only [extendedMuxOK, Bool.and_eq_true] at h
  obtain ⟨id, muxor, muxed, ranges⟩ := m
  cases ranges with
  | nil => simp at h
  | cons r rs =>
    simp only [List.all_cons, Bool.and_eq_true, extendedMuxRangeOK] at h
    simp [stepSection, writeExtendedMux, uintTok, Token.kw, parseSection, parseExtendedMux,
      parseMessageID_uintTok _ _ h.1.1.1.1, classifyWord_of_identOK h.1.1.1.2,
      classifyWord_of_identOK h.1.1.2, commaList, parseExtendedMuxRange_write _ _ h.2.1,
      parseCommaRanges_write _ _ h.2.2 (noCommaHead_p .semicolon (by decide) _)]

end Acme.Dbc
