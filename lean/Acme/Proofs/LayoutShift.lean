/-
Layout algebra, part C: shrink, shiftLeft, shiftRight.
-/
import Acme.Proofs.LayoutIds

namespace Acme.Layout

/-! ### shrink -/

theorem shrinkLoop_true_spec (id : Nat) (a : Int) (ha : 0 ≤ a) : ∀ (l : List Slot) (lo cap : Int),
    WFfrom lo cap l →
    WFfrom (lo - a) cap (shrinkLoop id a true l) ∧
    (shrinkLoop id a true l).map (fun x => (x.id, x.size)) = l.map (fun x => (x.id, x.size))
  | [], lo, cap, h => by
    rw [WFfrom_nil] at h
    unfold shrinkLoop
    refine ⟨?_, rfl⟩
    rw [WFfrom_nil]; omega
  | s :: rest, lo, cap, h => by
    rw [WFfrom_cons] at h
    have ih := shrinkLoop_true_spec id a ha rest _ cap h.2.2
    unfold shrinkLoop
    rw [if_pos rfl]
    refine ⟨?_, ?_⟩
    · rw [WFfrom_cons]
      refine ⟨by simp only; omega, h.2.1, WFfrom_mono ih.1 (by simp only; omega)⟩
    · rw [List.map_cons, List.map_cons, ih.2]

theorem shrinkLoop_false_spec (id : Nat) (a : Int) (ha : 0 ≤ a) (s : Slot) (hlt : a < s.size) :
    ∀ (l : List Slot) (lo cap : Int), WFfrom lo cap l → IdsNodup l → find id l = some s →
    WFfrom lo cap (setSize (shrinkLoop id a false l) id (s.size - a)) ∧
    (shrinkLoop id a false l).map (fun x => (x.id, x.size)) = l.map (fun x => (x.id, x.size)) ∧
    find id (shrinkLoop id a false l) = some s
  | [], _, _, _, _, hf => by cases hf
  | t :: rest, lo, cap, h, hn, hf => by
    rw [WFfrom_cons] at h
    rw [IdsNodup_cons] at hn
    unfold shrinkLoop
    rw [if_neg (by simp)]
    by_cases ht : t.id = id
    · rw [find_cons_eq rest ht] at hf
      injection hf with hf; subst hf
      have hd : decide (t.id = id) = true := by simp [ht]
      rw [hd]
      have ih := shrinkLoop_true_spec id a ha rest _ cap h.2.2
      have hno : ∀ x ∈ shrinkLoop id a true rest, x.id ≠ id :=
        noid_of_map_eq ih.2 (fun x hx => by rw [← ht]; exact hn.1 x hx)
      refine ⟨?_, ?_, find_cons_eq _ ht⟩
      · rw [setSize_cons_eq _ _ ht, setSize_noid hno, WFfrom_cons]
        refine ⟨h.1, by simp only; omega, WFfrom_mono ih.1 (by simp only; omega)⟩
      · rw [List.map_cons, List.map_cons, ih.2]
    · rw [find_cons_ne rest ht] at hf
      have hd : decide (t.id = id) = false := by simp [ht]
      rw [hd]
      have ih := shrinkLoop_false_spec id a ha s hlt rest _ cap h.2.2 hn.2 hf
      refine ⟨?_, ?_, ?_⟩
      · rw [setSize_cons_ne _ _ ht, WFfrom_cons]
        exact ⟨h.1, h.2.1, ih.1⟩
      · rw [List.map_cons, List.map_cons, ih.2.1]
      · rw [find_cons_ne _ ht]; exact ih.2.2

theorem verifyShrink_ok_iff (sz amount : Int) :
    verifyShrink sz amount = .ok () ↔ 0 ≤ amount ∧ amount < sz := by
  unfold verifyShrink
  by_cases h1 : amount < 0
  · rw [if_pos h1]; constructor
    · intro hh; cases hh
    · intro; omega
  · rw [if_neg h1]
    by_cases h2 : sz - amount < 0
    · rw [if_pos h2]; constructor
      · intro hh; cases hh
      · intro; omega
    · rw [if_neg h2]
      by_cases h3 : sz - amount = 0
      · rw [if_pos h3]; constructor
        · intro hh; cases hh
        · intro; omega
      · rw [if_neg h3]; constructor
        · intro; omega
        · intro; rfl

theorem shrink_spec (cap : Int) (l : List Slot) (h : WF cap l) (hn : IdsNodup l)
    (id : Nat) (s : Slot) (hs : find id l = some s) (amount : Int) (hne : amount ≠ 0) :
    ((∃ l', shrinkStarts l id s.size amount = .ok l') ↔ 0 ≤ amount ∧ amount < s.size) ∧
    (∀ l', shrinkStarts l id s.size amount = .ok l' →
        WF cap (setSize l' id (s.size - amount)) ∧
        l'.map (fun x => (x.id, x.size)) = l.map (fun x => (x.id, x.size)) ∧
        find id l' = some s) := by
  have hv := verifyShrink_ok_iff s.size amount
  unfold shrinkStarts
  rw [if_neg hne]
  cases hvs : verifyShrink s.size amount with
  | error e =>
    simp only
    refine ⟨⟨fun ⟨_, hh⟩ => (by cases hh), fun hh => ?_⟩, fun _ hh => (by cases hh)⟩
    rw [hv.2 hh] at hvs; cases hvs
  | ok u =>
    cases u
    simp only
    have hb := hv.1 hvs
    refine ⟨⟨fun _ => hb, fun _ => ⟨_, rfl⟩⟩, fun l' hl' => ?_⟩
    injection hl' with hl'
    subst hl'
    exact shrinkLoop_false_spec id amount hb.1 s hb.2 l 0 cap h hn hs

/-! ### shiftLeft -/

/-- end of the predecessor as tracked by `shiftLeftLoop` -/
def peOf : Option Slot → Int
  | none => 0
  | some p => p.start + p.size

theorem shiftLeftLoop_cons_ne {id : Nat} {a : Int} {s : Slot} (prev : Option Slot)
    (rest : List Slot) (h : s.id ≠ id) :
    shiftLeftLoop id a prev (s :: rest) =
      (s :: (shiftLeftLoop id a (some s) rest).1, (shiftLeftLoop id a (some s) rest).2) := by
  rw [shiftLeftLoop]
  simp [h]

theorem shiftLeftLoop_cons_eq {id : Nat} {a : Int} {s : Slot} (prev : Option Slot)
    (rest : List Slot) (h : s.id = id) (_ha : 0 < a) (hpe : 0 ≤ peOf prev)
    (hs : peOf prev ≤ s.start) :
    shiftLeftLoop id a prev (s :: rest) =
      ({ s with start := s.start - min a (s.start - peOf prev) } :: rest,
        min a (s.start - peOf prev)) := by
  rw [shiftLeftLoop]
  simp only [h, if_true]
  cases prev with
  | none =>
    simp only [peOf] at *
    by_cases h1 : s.start - a < 0
    · simp only [if_pos h1]
      have : min a (s.start - 0) = s.start := by omega
      rw [this]; simp
    · simp only [if_neg h1]
      have : min a (s.start - 0) = a := by omega
      rw [this]
      have : s.start - (s.start - a) = a := by omega
      rw [this]
  | some p =>
    simp only [peOf] at *
    by_cases h1 : s.start - a < 0
    · simp only [if_pos h1]
      by_cases h2 : (0 : Int) < p.start + p.size
      · simp only [if_pos h2]
        have : min a (s.start - (p.start + p.size)) = s.start - (p.start + p.size) := by omega
        rw [this]
        have : s.start - (s.start - (p.start + p.size)) = p.start + p.size := by omega
        rw [this]
      · simp only [if_neg h2]
        have h0 : p.start + p.size = 0 := by omega
        have : min a (s.start - (p.start + p.size)) = s.start := by omega
        rw [this]; simp
    · simp only [if_neg h1]
      by_cases h2 : s.start - a < p.start + p.size
      · simp only [if_pos h2]
        have : min a (s.start - (p.start + p.size)) = s.start - (p.start + p.size) := by omega
        rw [this]
        have : s.start - (s.start - (p.start + p.size)) = p.start + p.size := by omega
        rw [this]
      · simp only [if_neg h2]
        have : min a (s.start - (p.start + p.size)) = a := by omega
        rw [this]
        have : s.start - (s.start - a) = a := by omega
        rw [this]

theorem shiftLeftLoop_spec (id : Nat) (a : Int) (ha : 0 < a) :
    ∀ (l : List Slot) (prev : Option Slot) (cap : Int), 0 ≤ peOf prev →
    WFfrom (peOf prev) cap l → IdsNodup l →
    WFfrom (peOf prev) cap (shiftLeftLoop id a prev l).1 ∧
    (match find id l with
     | none => shiftLeftLoop id a prev l = (l, 0)
     | some s =>
        (shiftLeftLoop id a prev l).2 = min a (s.start - prevEndOf id (peOf prev) l) ∧
        (shiftLeftLoop id a prev l).1 =
          l.map (fun x => if x.id = id then
            { x with start := x.start - min a (s.start - prevEndOf id (peOf prev) l) } else x))
  | [], prev, cap, _, h, _ => by
    rw [find_nil]
    exact ⟨h, rfl⟩
  | t :: rest, prev, cap, hpe, h, hn => by
    rw [WFfrom_cons] at h
    rw [IdsNodup_cons] at hn
    by_cases ht : t.id = id
    · rw [find_cons_eq rest ht, shiftLeftLoop_cons_eq prev rest ht ha hpe h.1]
      have hpeq : prevEndOf id (peOf prev) (t :: rest) = peOf prev := by
        simp [prevEndOf, ht]
      simp only [hpeq]
      refine ⟨?_, by trivial, ?_⟩
      · rw [WFfrom_cons]
        refine ⟨by simp only; omega, h.2.1, WFfrom_mono h.2.2 (by simp only; omega)⟩
      · rw [List.map_cons, if_pos ht,
          map_if_noid _ (fun x hx => by rw [← ht]; exact hn.1 x hx)]
    · rw [find_cons_ne rest ht, shiftLeftLoop_cons_ne prev rest ht]
      have hpe' : 0 ≤ peOf (some t) := by simp only [peOf]; omega
      have ih := shiftLeftLoop_spec id a ha rest (some t) cap hpe' h.2.2 hn.2
      have hpeq : prevEndOf id (peOf prev) (t :: rest) = prevEndOf id (peOf (some t)) rest := by
        simp [prevEndOf, ht, peOf]
      refine ⟨?_, ?_⟩
      · rw [WFfrom_cons]; exact ⟨h.1, h.2.1, ih.1⟩
      · cases hf : find id rest with
        | none =>
          rw [hf] at ih
          simp only at ih ⊢
          rw [ih.2]
        | some s =>
          rw [hf] at ih
          simp only at ih ⊢
          rw [hpeq]
          refine ⟨ih.2.1, ?_⟩
          rw [List.map_cons, if_neg ht, ← ih.2.2]

theorem shiftLeft_spec (cap : Int) (l : List Slot) (h : WF cap l) (hn : IdsNodup l)
    (id : Nat) (amount : Int) :
    WF cap (shiftLeft l id amount).1 ∧
    (match find id l with
     | none => shiftLeft l id amount = (l, 0)
     | some s =>
        let d := if amount ≤ 0 then 0 else min amount (s.start - prevEndOf id 0 l)
        (shiftLeft l id amount).2 = d ∧
        (shiftLeft l id amount).1 = l.map (fun x => if x.id = id then { x with start := x.start - d } else x)) := by
  unfold shiftLeft
  by_cases ha : amount ≤ 0
  · simp only [if_pos ha]
    refine ⟨h, ?_⟩
    split
    · trivial
    · refine ⟨by trivial, ?_⟩
      have : ∀ x : Slot, (if x.id = id then { x with start := x.start - 0 } else x) = x := by
        intro x; split <;> simp
      simp only [this, List.map_id']
  · simp only [if_neg ha]
    have hs := shiftLeftLoop_spec id amount (by omega) l none cap (Int.le_refl _) h hn
    exact ⟨hs.1, hs.2⟩

/-! ### shiftRight -/

theorem shiftRightLoop_cons_ne {cap : Int} {id : Nat} {a : Int} {s : Slot}
    (rest : List Slot) (h : s.id ≠ id) :
    shiftRightLoop cap id a (s :: rest) =
      (s :: (shiftRightLoop cap id a rest).1, (shiftRightLoop cap id a rest).2) := by
  rw [shiftRightLoop]
  simp [h]

theorem nextStartOf_cons_eq {cap : Int} {id : Nat} {s : Slot} (rest : List Slot) (h : s.id = id) :
    nextStartOf cap id (s :: rest) = (match rest with | [] => cap | n :: _ => n.start) := by
  cases rest <;> simp [nextStartOf, h]

theorem nextStartOf_cons_ne {cap : Int} {id : Nat} {s : Slot} (rest : List Slot) (h : s.id ≠ id) :
    nextStartOf cap id (s :: rest) = nextStartOf cap id rest := by
  simp [nextStartOf, h]

theorem nextStartOf_le_cap {cap : Int} {id : Nat} : ∀ {l : List Slot} {lo : Int}, WFfrom lo cap l →
    nextStartOf cap id l ≤ cap
  | [], _, _ => Int.le_refl _
  | s :: rest, lo, h => by
    rw [WFfrom_cons] at h
    by_cases hs : s.id = id
    · rw [nextStartOf_cons_eq rest hs]
      cases rest with
      | nil => exact Int.le_refl _
      | cons n rest' =>
        simp only
        have := WFfrom_mem h.2.2 n (by simp)
        omega
    · rw [nextStartOf_cons_ne rest hs]
      exact nextStartOf_le_cap h.2.2

theorem nextStartOf_eq_wf {cap : Int} {id : Nat} {s : Slot} (rest : List Slot) (h : s.id = id)
    (hwf : WFfrom (s.start + s.size) cap rest) :
    s.start + s.size ≤ nextStartOf cap id (s :: rest) ∧
    ∀ e, s.start + s.size ≤ e → e ≤ nextStartOf cap id (s :: rest) → WFfrom e cap rest := by
  rw [nextStartOf_cons_eq rest h]
  cases rest with
  | nil =>
    simp only
    rw [WFfrom_nil] at hwf
    exact ⟨hwf, fun e _ h2 => h2⟩
  | cons n rest' =>
    simp only
    rw [WFfrom_cons] at hwf
    refine ⟨hwf.1, fun e _ h2 => ?_⟩
    rw [WFfrom_cons]; exact ⟨h2, hwf.2.1, hwf.2.2⟩

theorem shiftRightLoop_cons_eq {cap : Int} {id : Nat} {a : Int} {s : Slot}
    (rest : List Slot) (h : s.id = id) (hwf : WFfrom (s.start + s.size) cap rest) :
    shiftRightLoop cap id a (s :: rest) =
      ({ s with start := s.start + min a (nextStartOf cap id (s :: rest) - (s.start + s.size)) } :: rest,
        min a (nextStartOf cap id (s :: rest) - (s.start + s.size))) := by
  rw [shiftRightLoop, nextStartOf_cons_eq rest h]
  simp only [h, if_true]
  cases rest with
  | nil =>
    simp only
    by_cases h1 : s.start + a + s.size > cap
    · simp only [if_pos h1]
      have : min a (cap - (s.start + s.size)) = cap - (s.start + s.size) := by omega
      rw [this]
      have e1 : s.start + (cap - (s.start + s.size)) = cap - s.size := by omega
      have e2 : cap - s.size - s.start = cap - (s.start + s.size) := by omega
      rw [e1, e2]
    · simp only [if_neg h1]
      have : min a (cap - (s.start + s.size)) = a := by omega
      rw [this]
      have e2 : s.start + a - s.start = a := by omega
      rw [e2]
  | cons n rest' =>
    simp only
    have hn := WFfrom_mem hwf n (by simp)
    by_cases h2 : s.start + a + s.size > n.start
    · simp only [if_pos h2]
      have : min a (n.start - (s.start + s.size)) = n.start - (s.start + s.size) := by omega
      rw [this]
      have e1 : s.start + (n.start - (s.start + s.size)) = n.start - s.size := by omega
      have e2 : n.start - s.size - s.start = n.start - (s.start + s.size) := by omega
      rw [e1, e2]
    · simp only [if_neg h2]
      have h1 : ¬ s.start + a + s.size > cap := by omega
      simp only [if_neg h1]
      have : min a (n.start - (s.start + s.size)) = a := by omega
      rw [this]
      have e2 : s.start + a - s.start = a := by omega
      rw [e2]

theorem shiftRightLoop_spec (cap : Int) (id : Nat) (a : Int) (ha : 0 ≤ a) :
    ∀ (l : List Slot) (lo : Int), WFfrom lo cap l → IdsNodup l →
    WFfrom lo cap (shiftRightLoop cap id a l).1 ∧
    (match find id l with
     | none => shiftRightLoop cap id a l = (l, 0)
     | some s =>
        (shiftRightLoop cap id a l).2 = min a (nextStartOf cap id l - (s.start + s.size)) ∧
        (shiftRightLoop cap id a l).1 =
          l.map (fun x => if x.id = id then
            { x with start := x.start + min a (nextStartOf cap id l - (s.start + s.size)) } else x))
  | [], lo, h, _ => by
    rw [find_nil]
    exact ⟨h, rfl⟩
  | t :: rest, lo, h, hn => by
    rw [WFfrom_cons] at h
    rw [IdsNodup_cons] at hn
    by_cases ht : t.id = id
    · rw [find_cons_eq rest ht, shiftRightLoop_cons_eq rest ht h.2.2]
      simp only
      refine ⟨?_, by trivial, ?_⟩
      · have hnx := nextStartOf_eq_wf rest ht h.2.2
        rw [WFfrom_cons]
        refine ⟨by simp only; omega, h.2.1, hnx.2 _ (by simp only; omega) (by simp only; omega)⟩
      · rw [List.map_cons, if_pos ht,
          map_if_noid _ (fun x hx => by rw [← ht]; exact hn.1 x hx)]
    · rw [find_cons_ne rest ht, shiftRightLoop_cons_ne rest ht, nextStartOf_cons_ne rest ht]
      have ih := shiftRightLoop_spec cap id a ha rest _ h.2.2 hn.2
      refine ⟨?_, ?_⟩
      · rw [WFfrom_cons]; exact ⟨h.1, h.2.1, ih.1⟩
      · cases hf : find id rest with
        | none =>
          rw [hf] at ih
          simp only at ih ⊢
          rw [ih.2]
        | some s =>
          rw [hf] at ih
          simp only at ih ⊢
          refine ⟨ih.2.1, ?_⟩
          rw [List.map_cons, if_neg ht, ← ih.2.2]

theorem shiftRight_spec (cap : Int) (l : List Slot) (h : WF cap l) (hn : IdsNodup l)
    (id : Nat) (amount : Int) :
    WF cap (shiftRight cap l id amount).1 ∧
    (match find id l with
     | none => shiftRight cap l id amount = (l, 0)
     | some s =>
        let d := if amount ≤ 0 then 0 else min amount (nextStartOf cap id l - (s.start + s.size))
        (shiftRight cap l id amount).2 = d ∧
        (shiftRight cap l id amount).1 = l.map (fun x => if x.id = id then { x with start := x.start + d } else x)) := by
  unfold shiftRight
  by_cases ha : amount ≤ 0
  · simp only [if_pos ha]
    refine ⟨h, ?_⟩
    split
    · trivial
    · refine ⟨by trivial, ?_⟩
      have : ∀ x : Slot, (if x.id = id then { x with start := x.start + 0 } else x) = x := by
        intro x; split <;> simp
      simp only [this, List.map_id']
  · simp only [if_neg ha]
    have hcap : 0 ≤ cap := WFfrom_le_cap h
    have ha' : 0 ≤ (if amount > cap then cap else amount) := by split <;> omega
    have hs := shiftRightLoop_spec cap id _ ha' l 0 h hn
    refine ⟨hs.1, ?_⟩
    cases hf : find id l with
    | none => rw [hf] at hs; exact hs.2
    | some s =>
      rw [hf] at hs
      simp only at hs ⊢
      have hnx : nextStartOf cap id l ≤ cap := nextStartOf_le_cap h
      have hsm := WFfrom_mem h s (find_some_mem hf).1
      have hd : min (if amount > cap then cap else amount) (nextStartOf cap id l - (s.start + s.size))
          = min amount (nextStartOf cap id l - (s.start + s.size)) := by
        split <;> omega
      rw [hd] at hs
      exact hs.2

end Acme.Layout
