/-
The generated state-changing functions of the payload layout (signal_layout.go: insert, append,
remove, removeAll, compact, modifyStartBitsOnShrink, resize, shiftLeft, shiftRight; translated
state-passing into Acme/Gen/Kernels.lean on every run) equal the hand-written functions of
Acme.Core.Layout.
-/
import Acme.Gen.Kernels
import Acme.Core.Layout
import Acme.Proofs.GenKernelsLayout

namespace Acme.GenK

open Acme.Gen Acme.Layout

/-- result of a state-passing function with an error result, as the model's `Except`:
    the new list when the error is nil, otherwise the cause -/
def stateExc : List Slot × Option K.Cause → Except LErr (List Slot)
  | (l, none) => .ok l
  | (_, some c) => match ofCause (some c) with
    | .error e => .error e
    | .ok () => .error .panic   -- unreachable: `ofCause (some _)` is an error

def stateRes : Acme.GoSem.Res (List Slot × Option K.Cause) → Except LErr (List Slot)
  | .panic => .error .panic
  | .val r => stateExc r

theorem ofCause_eq_ok (c : Option K.Cause) : ofCause c = .ok () ↔ c = none := by
  cases c with
  | none => simp [ofCause]
  | some x => cases x <;> simp [ofCause]

theorem stateExc_some (l : List Slot) (c : Option K.Cause) (e : LErr) (h : ofCause c = .error e) :
    stateExc (l, c) = .error e := by
  cases c with
  | none => simp [ofCause] at h
  | some x => cases x <;> simp_all [ofCause, stateExc]

/-! ### remove, removeAll -/

theorem layoutRemove_eq (l : List Slot) (id : Nat) : K.layoutRemove l id = remove l id := by
  simp [K.layoutRemove, remove]

theorem layoutRemoveAll_eq (l : List Slot) : K.layoutRemoveAll l = [] := rfl

example : K.layoutRemove [⟨1, 0, 8⟩, ⟨2, 16, 8⟩] 1 = [⟨2, 16, 8⟩] := by decide

/-! ### compact -/

theorem layoutCompact_loop_eq (s0 : List Slot) (last : Int) (pre l : List Slot) :
    K.layoutCompact_loop1 s0 last pre l = pre ++ compactFrom last l := by
  induction l generalizing s0 last pre with
  | nil => simp [K.layoutCompact_loop1, K.layoutCompact_after1, compactFrom]
  | cons s rest ih =>
    unfold K.layoutCompact_loop1 compactFrom
    dsimp only
    by_cases h1 : s.start = last
    · simp [h1, ih]
    · by_cases h2 : last < s.start
      · simp [h1, h2, ih]
      · simp [h1, h2, ih]

theorem layoutCompact_eq (l : List Slot) : K.layoutCompact l = compact l := by
  unfold K.layoutCompact compact
  simp [layoutCompact_loop_eq]

example : K.layoutCompact [⟨1, 4, 8⟩, ⟨2, 16, 8⟩] = [⟨1, 0, 8⟩, ⟨2, 8, 8⟩] := by decide

/-! ### modifyStartBitsOnShrink -/

theorem shrink_loop_eq (s0 : List Slot) (id : Nat) (sz amount : Int) (found : Bool)
    (pre l : List Slot) :
    K.modifyStartBitsOnShrink_loop1 s0 id sz amount found pre l =
      (pre ++ shrinkLoop id amount found l, none) := by
  induction l generalizing s0 found pre with
  | nil => simp [K.modifyStartBitsOnShrink_loop1, K.modifyStartBitsOnShrink_after1, shrinkLoop]
  | cons s rest ih =>
    unfold K.modifyStartBitsOnShrink_loop1 shrinkLoop
    dsimp only
    cases found with
    | true => simp [ih]
    | false =>
      by_cases hid : id = s.id
      · subst hid
        simp [ih]
      · have hid' : ¬ s.id = id := fun h => hid h.symm
        simp [hid, hid', ih]

theorem modifyStartBitsOnShrink_eq (l : List Slot) (id : Nat) (sz amount : Int) :
    stateExc (K.modifyStartBitsOnShrink l id sz amount) = shrinkStarts l id sz amount := by
  unfold K.modifyStartBitsOnShrink shrinkStarts
  by_cases h0 : amount = 0
  · simp [h0, stateExc]
  · simp only [h0, if_false]
    have hv := verifyBeforeShrink_eq sz amount
    cases hc : K.verifyBeforeShrink sz amount with
    | none =>
      rw [hc] at hv
      simp only [ofCause] at hv
      simp [← hv, shrink_loop_eq, stateExc]
    | some c =>
      rw [hc] at hv
      cases hm : verifyShrink sz amount with
      | ok u => rw [hm] at hv; cases c <;> simp [ofCause] at hv
      | error e =>
        rw [hm] at hv
        simp only [ne_eq, reduceCtorEq, not_false_eq_true, if_true]
        exact stateExc_some l (some c) e hv

/-- on an error the list is unchanged -/
theorem modifyStartBitsOnShrink_err (l l' : List Slot) (id : Nat) (sz amount : Int) (c : K.Cause)
    (h : K.modifyStartBitsOnShrink l id sz amount = (l', some c)) : l' = l := by
  unfold K.modifyStartBitsOnShrink at h
  by_cases h0 : amount = 0
  · simp [h0] at h
  · simp only [h0, if_false] at h
    cases hc : K.verifyBeforeShrink sz amount with
    | none => rw [hc] at h; simp [shrink_loop_eq] at h
    | some c' => rw [hc] at h; simp at h; exact h.1.symm

example : K.modifyStartBitsOnShrink [⟨1, 0, 8⟩, ⟨2, 16, 8⟩] 1 8 3 = ([⟨1, 0, 8⟩, ⟨2, 13, 8⟩], none) := by decide
example : K.modifyStartBitsOnShrink [⟨1, 0, 8⟩, ⟨2, 16, 8⟩] 1 8 8 = ([⟨1, 0, 8⟩, ⟨2, 16, 8⟩], some .ErrIsZero) := by decide

/-! ### insert -/

/-- `sig.setRelativeStartPos(st)` as the list sees it: every element that IS the argument signal
    (same entity id) gets the new start -/
def setStartOf (id : Nat) (st : Int) (l : List Slot) : List Slot :=
  l.map (fun s_ => if s_.id = id then { s_ with start := st } else s_)

theorem setStartOf_of_ne (id : Nat) (st : Int) (l : List Slot) (h : ∀ s ∈ l, s.id ≠ id) :
    setStartOf id st l = l := by
  induction l with
  | nil => rfl
  | cons x xs ih =>
    have hx : x.id ≠ id := h x (List.mem_cons_self ..)
    have hxs : ∀ s ∈ xs, s.id ≠ id := fun s hs => h s (List.mem_cons_of_mem _ hs)
    simp only [setStartOf, List.map_cons, hx, if_false]
    exact congrArg _ (ih hxs)

theorem setStartOf_append (id : Nat) (st : Int) (a b : List Slot) :
    setStartOf id st (a ++ b) = setStartOf id st a ++ setStartOf id st b := by
  simp [setStartOf]

/-- insertion of `x` before the first signal that starts after `st` (the loop of `insert`: the
    start of `x` itself is assigned afterwards) -/
def insBefore (st : Int) (x : Slot) : List Slot → List Slot
  | [] => [x]
  | s :: rest => if s.start > st then x :: s :: rest else s :: insBefore st x rest

theorem insertIdx_length {α : Type} (pre : List α) (x : α) (l : List α) :
    List.insertIdx (pre ++ l) pre.length x = pre ++ x :: l := by
  induction pre with
  | nil => simp
  | cons p ps ih => simpa [List.insertIdx_succ_cons] using ih

theorem layoutInsert_loop_eq (s0 : List Slot) (id : Nat) (sg sz st : Int) (pre l : List Slot)
    (idx : Int) (hidx : idx = pre.length) :
    K.layoutInsert_loop1 s0 id sg sz st false idx pre l =
      setStartOf id st (pre ++ insBefore st ⟨id, sg, sz⟩ l) := by
  induction l generalizing s0 pre idx with
  | nil =>
    simp [K.layoutInsert_loop1, K.layoutInsert_after1, insBefore, setStartOf]
  | cons s rest ih =>
    unfold K.layoutInsert_loop1 insBefore
    dsimp only
    by_cases hgt : s.start > st
    · subst hidx
      simp only [hgt, if_true, Int.toNat_natCast, insertIdx_length]
      simp [K.layoutInsert_after1, setStartOf]
    · simp only [hgt, if_false]
      rw [ih _ (pre ++ [s]) (idx + 1) (by simp [hidx])]
      simp

theorem setStartOf_insBefore (id : Nat) (sg sz st : Int) (l : List Slot) (h : ∀ s ∈ l, s.id ≠ id) :
    setStartOf id st (insBefore st ⟨id, sg, sz⟩ l) = insertAt ⟨id, st, sz⟩ l := by
  induction l with
  | nil => simp [insBefore, insertAt, setStartOf]
  | cons x xs ih =>
    have hx : x.id ≠ id := h x (List.mem_cons_self ..)
    have hxs : ∀ s ∈ xs, s.id ≠ id := fun s hs => h s (List.mem_cons_of_mem _ hs)
    unfold insBefore insertAt
    by_cases hgt : x.start > st
    · have := setStartOf_of_ne id st xs hxs
      simp only [hgt, if_true]
      simp only [setStartOf, List.map_cons, hx, if_false, if_true] at this ⊢
      rw [this]
    · simp only [hgt, if_false]
      have := ih hxs
      simp only [setStartOf, List.map_cons, hx, if_false] at this ⊢
      rw [this]

/-- `insert` = `Acme.Layout.insert`, when the argument signal is not already in the layout (the
    list holds pointers: `sig.setRelativeStartPos` would also move an element that is `sig`) -/
theorem layoutInsert_eq (l : List Slot) (id : Nat) (sg sz st : Int) (h : ∀ s ∈ l, s.id ≠ id) :
    K.layoutInsert l id sg sz st = Acme.Layout.insert l id sz st := by
  unfold K.layoutInsert Acme.Layout.insert
  cases l with
  | nil => simp [insertAt]
  | cons x xs =>
    have hne : ¬ (Int.ofNat (x :: xs).length = 0) := by
      have : (Int.ofNat (x :: xs).length) = ((x :: xs).length : Int) := rfl
      simp only [List.length_cons] at this ⊢
      omega
    simp only [hne, if_false]
    rw [layoutInsert_loop_eq _ id sg sz st [] (x :: xs) 0 (by simp)]
    simpa using setStartOf_insBefore id sg sz st (x :: xs) h

example : K.layoutInsert [⟨1, 0, 8⟩, ⟨2, 16, 8⟩] 3 99 4 8 = [⟨1, 0, 8⟩, ⟨3, 8, 4⟩, ⟨2, 16, 8⟩] := by decide

/-! ### append -/

theorem layoutAppend_eq (cap : Int) (l : List Slot) (id : Nat) (sg sz : Int)
    (h : ∀ s ∈ l, s.id ≠ id) :
    stateRes (K.layoutAppend l cap id sg sz) = Acme.Layout.append cap l id sz := by
  unfold K.layoutAppend Acme.Layout.append
  have hv := verifyBeforeAppend_eq cap l sz
  have hmap : ∀ v : Int, List.map (fun s_ : Slot => if s_.id = id then { s_ with start := v } else s_) l = l :=
    fun v => setStartOf_of_ne id v l h
  cases hc : K.verifyBeforeAppend cap l sz with
  | panic => exact absurd hc (verifyBeforeAppend_no_panic cap l sz)
  | val c =>
    rw [hc] at hv
    simp only [ofRes] at hv
    cases c with
    | some x =>
      cases hm : verifyAppend cap l sz with
      | ok u => rw [hm] at hv; cases x <;> simp [ofCause] at hv
      | error e =>
        rw [hm] at hv
        simp only [ne_eq, reduceCtorEq, not_false_eq_true, if_true, stateRes]
        exact stateExc_some l (some x) e hv
    | none =>
      simp only [ofCause] at hv
      rw [← hv]
      simp only [ne_eq, not_true_eq_false, if_false]
      cases l with
      | nil => simp [stateRes, stateExc, lastEnd]
      | cons y ys =>
        have hl : (y :: ys) ≠ [] := by simp
        have hne : ¬ (Int.ofNat (y :: ys).length = 0) := fun h0 => hl ((length_eq_zero_int _).mp h0)
        simp only [hne, if_false]
        rw [index?_last _ hl]
        cases hg : (y :: ys).getLast? with
        | none => exact absurd (List.getLast?_eq_none_iff.mp hg) hl
        | some s =>
          simp only [hmap, stateRes, stateExc, lastEnd, hg]

/-- on an error the list is unchanged -/
theorem layoutAppend_err (cap : Int) (l l' : List Slot) (id : Nat) (sg sz : Int) (c : K.Cause)
    (h : K.layoutAppend l cap id sg sz = .val (l', some c)) : l' = l := by
  unfold K.layoutAppend at h
  cases hc : K.verifyBeforeAppend cap l sz with
  | panic => rw [hc] at h; simp at h
  | val e =>
    rw [hc] at h
    cases e with
    | some x => simp at h; exact h.1.symm
    | none =>
      simp only [ne_eq, not_true_eq_false, if_false] at h
      split at h
      · simp at h
      · split at h <;> simp at h

example : K.layoutAppend [⟨1, 0, 8⟩, ⟨2, 16, 8⟩] 64 3 99 40 = .val ([⟨1, 0, 8⟩, ⟨2, 16, 8⟩, ⟨3, 24, 40⟩], none) := by decide
example : K.layoutAppend [⟨1, 0, 8⟩, ⟨2, 16, 8⟩] 64 3 99 41 = .val ([⟨1, 0, 8⟩, ⟨2, 16, 8⟩], some .ErrNoSpaceLeft) := by decide

/-! ### shiftLeft, shiftRight -/

theorem index?_prev (pre : List Slot) (x : Slot) (rest : List Slot) (h : pre ≠ []) :
    Acme.GoSem.index? (pre ++ x :: rest) ((pre.length : Int) - 1) = pre.getLast? := by
  unfold Acme.GoSem.index?
  have hl : 0 < pre.length := List.length_pos_iff.mpr h
  have h1 : ¬ ((pre.length : Int) - 1 < 0) := by omega
  have h2 : ((pre.length : Int) - 1).toNat = pre.length - 1 := by omega
  rw [if_neg h1, h2, List.getLast?_eq_getElem?, List.getElem?_append_left (by omega)]

theorem index?_next (pre : List Slot) (x : Slot) (rest : List Slot) :
    Acme.GoSem.index? (pre ++ x :: rest) ((pre.length : Int) + 1) = rest.head? := by
  unfold Acme.GoSem.index?
  have h1 : ¬ ((pre.length : Int) + 1 < 0) := by omega
  have h2 : ((pre.length : Int) + 1).toNat = pre.length + 1 := by omega
  rw [if_neg h1, h2, List.getElem?_append_right (by omega)]
  cases rest <;> simp

theorem shiftLeft_loop_eq (s0 : List Slot) (id : Nat) (amount : Int) (ps : Option Slot)
    (pre l : List Slot) (idx : Int) (hidx : idx = pre.length) (hps : pre = [] → ps = none) :
    K.shiftLeft_loop1 s0 id amount 0 ps idx pre l =
      .val (pre ++ (shiftLeftLoop id amount pre.getLast? l).1,
            (shiftLeftLoop id amount pre.getLast? l).2) := by
  induction l generalizing s0 ps pre idx with
  | nil => simp [K.shiftLeft_loop1, K.shiftLeft_after1, shiftLeftLoop]
  | cons x rest ih =>
    unfold K.shiftLeft_loop1 shiftLeftLoop
    dsimp only
    have hrec : ∀ (s1 : List Slot) (q : Option Slot),
        K.shiftLeft_loop1 s1 id amount 0 q (idx + 1) (pre ++ [x]) rest =
          .val (pre ++ x :: (shiftLeftLoop id amount (some x) rest).1,
                (shiftLeftLoop id amount (some x) rest).2) := by
      intro s1 q
      rw [ih s1 q (pre ++ [x]) (idx + 1) (by simp [hidx]) (by simp)]
      simp
    by_cases hpre : pre = []
    · subst hpre
      have hps' := hps rfl
      subst hps'
      simp only [List.length_nil] at hidx
      subst hidx
      simp only [List.getLast?_nil]
      by_cases hx : id = x.id
      · subst hx
        simp [K.shiftLeft_after1]
      · have hx' : ¬ x.id = id := fun h => hx h.symm
        simp only [hx, hx', if_false]
        rw [hrec]
        try simp
    · have hl : 0 < pre.length := List.length_pos_iff.mpr hpre
      have hgt : idx > 0 := by omega
      simp only [hgt, if_true]
      rw [hidx, index?_prev pre x rest hpre]
      cases hg : pre.getLast? with
      | none => exact absurd (List.getLast?_eq_none_iff.mp hg) hpre
      | some p =>
        dsimp only
        by_cases hx : id = x.id
        · subst hx
          simp [K.shiftLeft_after1]
        · have hx' : ¬ x.id = id := fun h => hx h.symm
          simp only [hx, hx', if_false]
          rw [← hidx, hrec]
          try simp

theorem shiftLeft_eq (l : List Slot) (id : Nat) (amount : Int) :
    K.shiftLeft l id amount = .val (Acme.Layout.shiftLeft l id amount) := by
  unfold K.shiftLeft Acme.Layout.shiftLeft
  by_cases h : amount ≤ 0
  · simp [h]
  · simp only [h, if_false]
    rw [shiftLeft_loop_eq l id amount none [] l 0 (by simp) (fun _ => rfl)]
    simp

theorem shiftRight_loop_eq (cap : Int) (s0 : List Slot) (id : Nat) (amount : Int) (ns : Option Slot)
    (pre l : List Slot) (idx : Int) (hidx : idx = pre.length) :
    K.shiftRight_loop1 cap s0 id amount 0 ns idx pre l =
      .val (pre ++ (shiftRightLoop cap id amount l).1, (shiftRightLoop cap id amount l).2) := by
  induction l generalizing s0 ns pre idx with
  | nil => simp [K.shiftRight_loop1, K.shiftRight_after1, shiftRightLoop]
  | cons x rest ih =>
    unfold K.shiftRight_loop1 shiftRightLoop
    dsimp only
    have hrec : ∀ (s1 : List Slot) (q : Option Slot),
        K.shiftRight_loop1 cap s1 id amount 0 q (idx + 1) (pre ++ [x]) rest =
          .val (pre ++ x :: (shiftRightLoop cap id amount rest).1,
                (shiftRightLoop cap id amount rest).2) := by
      intro s1 q
      rw [ih s1 q (pre ++ [x]) (idx + 1) (by simp [hidx])]
      simp
    have hlen : (Int.ofNat (pre ++ x :: rest).length) = (pre.length : Int) + 1 + rest.length := by
      have : (Int.ofNat (pre ++ x :: rest).length) = ((pre ++ x :: rest).length : Int) := rfl
      rw [this]; simp; omega
    cases rest with
    | nil =>
      have hc : idx = Int.ofNat (pre ++ [x]).length - 1 := by
        rw [hlen]; simp [hidx]
      rw [if_pos hc]
      by_cases hx : id = x.id
      · subst hx
        simp [K.shiftRight_after1]
      · have hx' : ¬ x.id = id := fun h => hx h.symm
        simp only [hx, hx', if_false]
        rw [hrec]
        try simp
    | cons n rest' =>
      have hc : ¬ idx = Int.ofNat (pre ++ x :: n :: rest').length - 1 := by
        rw [hlen]; simp [hidx]; omega
      rw [if_neg hc, hidx, index?_next pre x (n :: rest')]
      dsimp only [List.head?_cons]
      by_cases hx : id = x.id
      · subst hx
        simp [K.shiftRight_after1]
      · have hx' : ¬ x.id = id := fun h => hx h.symm
        simp only [hx, hx', if_false]
        rw [← hidx, hrec]
        try simp

theorem shiftRight_eq (cap : Int) (l : List Slot) (id : Nat) (amount : Int) :
    K.shiftRight cap l id amount = .val (Acme.Layout.shiftRight cap l id amount) := by
  unfold K.shiftRight Acme.Layout.shiftRight
  by_cases h : amount ≤ 0
  · simp [h]
  · simp only [h, if_false]
    rw [shiftRight_loop_eq cap l id _ none [] l 0 (by simp)]
    simp

example : K.shiftLeft [⟨1, 0, 8⟩, ⟨2, 16, 8⟩] 2 20 = .val ([⟨1, 0, 8⟩, ⟨2, 8, 8⟩], 8) := by decide
example : K.shiftRight 64 [⟨1, 0, 8⟩, ⟨2, 16, 8⟩] 1 20 = .val ([⟨1, 8, 8⟩, ⟨2, 16, 8⟩], 8) := by decide
example : K.shiftRight 64 [⟨1, 0, 8⟩, ⟨2, 16, 8⟩] 2 100 = .val ([⟨1, 0, 8⟩, ⟨2, 56, 8⟩], 40) := by decide

/-! ### modifyStartBitsOnGrow -/

theorem index?_drop {α : Type} (l : List α) (k : Nat) :
    Acme.GoSem.index? l (k : Int) = (l.drop k).head? := by
  unfold Acme.GoSem.index?
  have h1 : ¬ ((k : Int) < 0) := by omega
  rw [if_neg h1, Int.toNat_natCast, List.head?_drop]

/-- what the model makes of the result of the push loop: the untouched prefix in front -/
def pushRes (pre : List Slot) : Except LErr (List Slot) → Except LErr (List Slot)
  | .error e => .error e
  | .ok t => .ok (pre ++ t)

theorem grow_loop2_eq (cap : Int) (s0 : List Slot) (id : Nat) (amount pe : Int) (spaces : List Int)
    (nsi : Int) (found : Bool) (rest pre : List Slot) (k : Nat) (acc i : Int) :
    stateRes (K.modifyStartBitsOnGrow_loop2 cap s0 id amount pe spaces nsi found (k : Int) acc i pre rest) =
      pushRes pre (growPush rest (spaces.drop k) acc) := by
  induction rest generalizing s0 pre k acc i with
  | nil => simp [K.modifyStartBitsOnGrow_loop2, K.modifyStartBitsOnGrow_after2, growPush, pushRes, stateRes, stateExc]
  | cons x rest ih =>
    unfold K.modifyStartBitsOnGrow_loop2 growPush
    dsimp only
    rw [index?_drop]
    cases hd : spaces.drop k with
    | nil => simp [stateRes, pushRes]
    | cons sp tl =>
      have htl : spaces.drop (k + 1) = tl := by
        have := congrArg List.tail hd
        simpa [List.tail_drop] using this
      simp only [List.head?_cons]
      by_cases hge : sp ≥ acc
      · simp [hge, K.modifyStartBitsOnGrow_after2, stateRes, stateExc, pushRes]
      · simp only [hge, if_false]
        have := ih (pre ++ { x with start := x.start + (acc - sp) } :: rest) (pre ++ [{ x with start := x.start + (acc - sp) }]) (k + 1) (acc - sp) (i + 1)
        rw [htl] at this
        have hk : ((k + 1 : Nat) : Int) = (k : Int) + 1 := by omega
        rw [hk] at this
        rw [this]
        cases growPush rest tl (acc - sp) <;> simp [pushRes]

theorem grow_after1_eq (cap : Int) (L : List Slot) (id : Nat) (amount pe : Int) (sp : List Int)
    (ni : Nat) (found : Bool) :
    stateRes (K.modifyStartBitsOnGrow_after1 cap L id amount pe sp (ni : Int) found) =
      pushRes (L.take ni) (growPush (L.drop ni) (sp ++ [cap - pe]) amount) := by
  unfold K.modifyStartBitsOnGrow_after1
  dsimp only
  have h1 : ¬ ((ni : Int) < 0) := by omega
  rw [if_neg h1, Int.toNat_natCast]
  have := grow_loop2_eq cap L id amount pe (sp ++ [cap - pe]) (ni : Int) found (L.drop ni) (L.take ni) 0 amount (ni : Int)
  simpa using this

/-- the result of the first loop, through `stateRes` -/
def growRes (cap amount : Int) (L : List Slot) : Option (List Int × Nat × Int) → Except LErr (List Slot)
  | none => .ok L
  | some (sp, ni, pe) => pushRes (L.take ni) (growPush (L.drop ni) (sp ++ [cap - pe]) amount)

theorem grow_loop1_eq (cap : Int) (s0 : List Slot) (id : Nat) (amount : Int) (l pre : List Slot)
    (n : Nat) (hn : n = pre.length) (sp : List Int) (ni : Nat) (pe : Int) (found : Bool) :
    stateRes (K.modifyStartBitsOnGrow_loop1 cap s0 id amount pe sp (ni : Int) found (n : Int) pre l) =
      growRes cap amount (pre ++ l) (growSpaces id l n sp ni pe found) := by
  induction l generalizing s0 pre n sp ni pe found with
  | nil =>
    unfold K.modifyStartBitsOnGrow_loop1 growSpaces
    simp [grow_after1_eq, growRes]
  | cons x rest ih =>
    unfold K.modifyStartBitsOnGrow_loop1 growSpaces
    dsimp only
    have hassoc : pre ++ x :: rest = (pre ++ [x]) ++ rest := by simp
    have hcast : ((n : Int) + 1) = ((n + 1 : Nat) : Int) := by omega
    cases found with
    | true =>
      simp only [if_true]
      rw [hcast, ih _ (pre ++ [x]) (n + 1) (by simp [hn]), hassoc]
    | false =>
      by_cases hid : id = x.id
      · subst hid
        simp only [Bool.false_eq_true, if_false, if_true]
        have hlen : (Int.ofNat (pre ++ x :: rest).length) = (n : Int) + 1 + rest.length := by
          have : (Int.ofNat (pre ++ x :: rest).length) = ((pre ++ x :: rest).length : Int) := rfl
          rw [this]; simp [hn]; omega
        cases rest with
        | nil =>
          have hc : (n : Int) = Int.ofNat (pre ++ [x]).length - 1 := by rw [hlen]; simp
          rw [if_pos hc]
          simp [stateRes, stateExc, growRes]
        | cons y ys =>
          have hc : ¬ (n : Int) = Int.ofNat (pre ++ x :: y :: ys).length - 1 := by
            rw [hlen]; simp; omega
          rw [if_neg hc]
          simp only [List.isEmpty_cons, Bool.false_eq_true, if_false]
          rw [hcast, ih _ (pre ++ [x]) (n + 1) (by simp [hn]), hassoc]
      · have hid' : ¬ x.id = id := fun h => hid h.symm
        simp only [Bool.false_eq_true, if_false, hid, hid']
        rw [hcast, ih _ (pre ++ [x]) (n + 1) (by simp [hn]), hassoc]

theorem modifyStartBitsOnGrow_eq (cap : Int) (l : List Slot) (id : Nat) (amount : Int) :
    stateRes (K.modifyStartBitsOnGrow cap l id amount) = growStarts cap l id amount := by
  unfold K.modifyStartBitsOnGrow growStarts
  by_cases h0 : amount = 0
  · simp [h0, stateRes, stateExc]
  · simp only [h0, if_false]
    have hv := verifyBeforeGrow_eq cap l id amount
    cases hc : K.verifyBeforeGrow cap l id amount with
    | some c =>
      rw [hc] at hv
      cases hm : verifyGrow cap l id amount with
      | ok u => rw [hm] at hv; cases c <;> simp [ofCause] at hv
      | error e =>
        rw [hm] at hv
        simp only [ne_eq, reduceCtorEq, not_false_eq_true, if_true, stateRes]
        exact stateExc_some l (some c) e hv
    | none =>
      rw [hc] at hv
      simp only [ofCause] at hv
      rw [← hv]
      simp only [ne_eq, not_true_eq_false, if_false]
      have := grow_loop1_eq cap l id amount l [] 0 (by simp) [] 0 0 false
      simp only [List.nil_append] at this
      have h00 : ((0 : Nat) : Int) = 0 := rfl
      rw [h00] at this
      rw [this]
      cases growSpaces id l 0 [] 0 0 false with
      | none => rfl
      | some r =>
        obtain ⟨sp, ni, pe⟩ := r
        simp only [growRes]
        cases growPush (List.drop ni l) (sp ++ [cap - pe]) amount <;> rfl

example : K.modifyStartBitsOnGrow 64 [⟨1, 0, 8⟩, ⟨2, 10, 8⟩, ⟨3, 20, 8⟩] 1 5 =
    .val ([⟨1, 0, 8⟩, ⟨2, 13, 8⟩, ⟨3, 21, 8⟩], none) := by decide
example : K.modifyStartBitsOnGrow 64 [⟨1, 0, 8⟩, ⟨2, 10, 8⟩, ⟨3, 20, 8⟩] 1 2 =
    .val ([⟨1, 0, 8⟩, ⟨2, 10, 8⟩, ⟨3, 20, 8⟩], none) := by decide

/-! ### resize -/

theorem layoutResize_eq (cap : Int) (l : List Slot) (newCap : Int) :
    ∃ c, K.layoutResize cap l newCap = .val (l, (if c = none then newCap else cap), c) ∧
      ofCause c = verifyResize cap l newCap := by
  unfold K.layoutResize
  have hv := verifyBeforeResize_eq cap l newCap
  cases hc : K.verifyBeforeResize cap l newCap with
  | panic => exact absurd hc (verifyBeforeResize_no_panic cap l newCap)
  | val c =>
    rw [hc] at hv
    refine ⟨c, ?_, hv⟩
    cases c with
    | none => simp
    | some x => simp

example : K.layoutResize 64 [⟨1, 0, 8⟩, ⟨2, 16, 8⟩] 24 = .val ([⟨1, 0, 8⟩, ⟨2, 16, 8⟩], 24, none) := by decide
example : K.layoutResize 64 [⟨1, 0, 8⟩, ⟨2, 16, 8⟩] 23 = .val ([⟨1, 0, 8⟩, ⟨2, 16, 8⟩], 64, some .ErrTooSmall) := by decide

end Acme.GenK
