/-
Bus level of the generated exporter, part 1: ONE top-level standard / enum signal.
`AdvS` / `Adv` say how a state advanced (seen through the views of GenExporterBusDefs);
`X_exportSignal_leafB`: the generated `exportSignal` on the Go object of a model signal.
-/
import Acme.Proofs.GenExporterBusDefs
import Acme.Proofs.ExportBusBasic

namespace Acme.GenX
open Acme.ImportBus Acme.ExportBus Acme.XSem Acme.Gen

/-- the enum objects registered in `e.sigEnums` after meeting the enum indexes `en` -/
def regEnums (b : MBus) (m : List (Nat × SigEnum)) (en : List Nat) : List (Nat × SigEnum) :=
  en.foldl (fun acc e => mapSet acc e (viewEnum b e)) m

theorem regEnums_append (b : MBus) (m : List (Nat × SigEnum)) (e1 e2 : List Nat) :
    regEnums b m (e1 ++ e2) = regEnums b (regEnums b m e1) e2 := List.foldl_append ..

/-- the state advanced inside one message: signals appended to `curSignals` -/
structure AdvS (b : MBus) (st st' : XSem.St) (cs : List DComment) (es : List DEnc) (ds : List DSignal)
    (en : List Nat) : Prop where
  comments : st'.comments.map dcommentOf = st.comments.map dcommentOf ++ cs
  encs : st'.valueEncodings.map dencOf = st.valueEncodings.map dencOf ++ es
  cur : st'.curSignals.map dsigOf = st.curSignals.map dsigOf ++ ds
  plain : (∀ s ∈ st.curSignals, PlainSig s) → ∀ s ∈ st'.curSignals, PlainSig s
  enums : st'.sigEnums = regEnums b st.sigEnums en
  msgs : st'.messages = st.messages
  ext : st'.extendedMuxes = st.extendedMuxes
  tables : st'.valueTables = st.valueTables
  nodes : st'.nodes = st.nodes

/-- the state advanced by whole messages -/
structure Adv (b : MBus) (st st' : XSem.St) (cs : List DComment) (es : List DEnc) (ms : List DMessage)
    (en : List Nat) : Prop where
  comments : st'.comments.map dcommentOf = st.comments.map dcommentOf ++ cs
  encs : st'.valueEncodings.map dencOf = st.valueEncodings.map dencOf ++ es
  msgs : st'.messages.map dmessageOf = st.messages.map dmessageOf ++ ms
  plain : (∀ m ∈ st.messages, ∀ s ∈ m.signals, PlainSig s) → ∀ m ∈ st'.messages, ∀ s ∈ m.signals, PlainSig s
  enums : st'.sigEnums = regEnums b st.sigEnums en
  ext : st'.extendedMuxes = st.extendedMuxes
  tables : st'.valueTables = st.valueTables
  nodes : st'.nodes = st.nodes

theorem AdvS.refl (b : MBus) (st : XSem.St) : AdvS b st st [] [] [] [] :=
  ⟨by simp, by simp, by simp, fun h => h, rfl, rfl, rfl, rfl, rfl⟩

theorem AdvS.trans {b : MBus} {s1 s2 s3 : XSem.St} {c1 c2 e1 e2 d1 d2 n1 n2}
    (h1 : AdvS b s1 s2 c1 e1 d1 n1) (h2 : AdvS b s2 s3 c2 e2 d2 n2) :
    AdvS b s1 s3 (c1 ++ c2) (e1 ++ e2) (d1 ++ d2) (n1 ++ n2) :=
  ⟨by rw [h2.comments, h1.comments, List.append_assoc], by rw [h2.encs, h1.encs, List.append_assoc],
   by rw [h2.cur, h1.cur, List.append_assoc], fun h => h2.plain (h1.plain h),
   by rw [h2.enums, h1.enums, regEnums_append], h2.msgs.trans h1.msgs, h2.ext.trans h1.ext,
   h2.tables.trans h1.tables, h2.nodes.trans h1.nodes⟩

theorem Adv.refl (b : MBus) (st : XSem.St) : Adv b st st [] [] [] [] :=
  ⟨by simp, by simp, by simp, fun h => h, rfl, rfl, rfl, rfl⟩

theorem Adv.trans {b : MBus} {s1 s2 s3 : XSem.St} {c1 c2 e1 e2 d1 d2 n1 n2}
    (h1 : Adv b s1 s2 c1 e1 d1 n1) (h2 : Adv b s2 s3 c2 e2 d2 n2) :
    Adv b s1 s3 (c1 ++ c2) (e1 ++ e2) (d1 ++ d2) (n1 ++ n2) :=
  ⟨by rw [h2.comments, h1.comments, List.append_assoc], by rw [h2.encs, h1.encs, List.append_assoc],
   by rw [h2.msgs, h1.msgs, List.append_assoc], fun h => h2.plain (h1.plain h),
   by rw [h2.enums, h1.enums, regEnums_append], h2.ext.trans h1.ext,
   h2.tables.trans h1.tables, h2.nodes.trans h1.nodes⟩

/-! ## numbers, receivers -/

theorem u32_nat (n : Nat) (h : lt32 n) : u32 (n : Int) = n := by
  rw [u32_of_range _ (Int.natCast_nonneg n) (by unfold lt32 at h; exact_mod_cast h)]
  exact Int.toNat_natCast n

theorem dvals_view (vs : List DVal) (h : ∀ v ∈ vs, lt32 v.1) :
    dvalsOf (X.getDBCValueDescription (vs.map (fun v => ({ index := (v.1 : Nat), name := v.2 } : EnumValue)))) = vs := by
  unfold dvalsOf X.getDBCValueDescription
  rw [List.map_map, List.map_map]
  conv => rhs; rw [← List.map_id vs]
  apply List.map_congr_left
  intro v hv
  show (u32 (v.1 : Int), v.2) = v
  rw [u32_nat _ (h v hv)]

theorem X_recv_loop (l acc : List String) : X.exportSignal_loop1 id l acc = acc ++ l := by
  induction l generalizing acc with
  | nil => simp [X.exportSignal_loop1]
  | cons x r ih => rw [X.exportSignal_loop1]; simp only [id]; rw [ih]; simp

theorem sortStr_eq_nil {α : Type} (key : α → String) (l : List α) : sortStr key l = [] ↔ l = [] := by
  constructor
  · intro h
    have := (sortStr_perm key l).length_eq
    rw [h] at this
    exact List.eq_nil_of_length_eq_zero this.symm
  · intro h; subst h; rfl

/-- the receivers the generated code writes -/
def rxOf (pm : ParentMsg) : List String :=
  if ((pm.receivers.length : Int) = 0) then ["Vector__XXX"] else X.exportSignal_loop1 id pm.receivers []

theorem rxOf_view (b : MBus) (m : IMessage) : rxOf (viewIMsg b m).parent = recvOf m := by
  unfold rxOf recvOf viewIMsg
  dsimp only
  by_cases h : m.receivers = []
  · rw [h]; rfl
  · have h' : sortStr id m.receivers ≠ [] := fun h' => h ((sortStr_eq_nil id _).mp h')
    have h2 : ¬ (((sortStr id m.receivers).length : Int) = 0) := by
      intro h3; exact h' (List.eq_nil_of_length_eq_zero (by exact_mod_cast h3))
    rw [if_neg h2, if_neg h, X_recv_loop]; rfl

end Acme.GenX
