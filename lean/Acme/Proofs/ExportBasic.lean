/-
C11 at message level, part 1: "forward" lemmas — when the insertions of the importer succeed.
Compatible families of items / children (pairwise disjoint, in bounds, different names) can be
inserted in any order; sorted lists are determined by their members.
-/
import Acme.Spec.ExportImport
import Acme.Proofs.ImportD75

namespace Acme.Import
open Acme.Layout Acme.Conv Acme.Arith
open Acme.Mux (sortInts compactAdj)

/-! ### disjoint slots -/

def SlotDisj (a b : Slot) : Prop := a.start + a.size ≤ b.start ∨ b.start + b.size ≤ a.start

theorem SlotDisj.symm {a b : Slot} (h : SlotDisj a b) : SlotDisj b a := Or.symm h

theorem wfFrom_pairwise : ∀ (l : List Slot) (lo cap : Int), WFfrom lo cap l → l.Pairwise SlotDisj
  | [], _, _, _ => List.Pairwise.nil
  | s :: rest, lo, cap, h => by
    rw [WFfrom_cons] at h
    refine List.Pairwise.cons ?_ (wfFrom_pairwise rest _ _ h.2.2)
    intro x hx
    have := WFfrom_mem h.2.2 x hx
    exact Or.inl this.1

theorem verifyInsert_ok (cap : Int) (l : List Slot) (sz st : Int) (hw : WF cap l) (hsz : 0 < sz)
    (h0 : 0 ≤ st) (h1 : st + sz ≤ cap) (hf : RangeFree l st sz) : verifyInsert cap l sz st = .ok () :=
  ((verifyInsert_spec cap l hw sz st hsz).1).2 ⟨h0, h1, hf⟩

/-! ### sorted lists are determined by their members -/

theorem perm_sorted_eq {α : Type} (key : α → Int) : ∀ (l1 l2 : List α), l1.Perm l2 →
    l1.Pairwise (fun a b => key a < key b) → l2.Pairwise (fun a b => key a < key b) → l1 = l2
  | [], l2, hp, _, _ => (List.Perm.nil_eq hp)
  | a :: r1, [], hp, _, _ => by
    have := hp.length_eq
    simp at this
  | a :: r1, b :: r2, hp, h1, h2 => by
    have hab : a = b := by
      apply Classical.byContradiction
      intro hne
      have ha : a ∈ b :: r2 := hp.mem_iff.1 (List.mem_cons_self ..)
      have hb : b ∈ a :: r1 := hp.mem_iff.2 (List.mem_cons_self ..)
      have ha' : a ∈ r2 := by
        rcases List.mem_cons.1 ha with h | h
        · exact absurd h hne
        · exact h
      have hb' : b ∈ r1 := by
        rcases List.mem_cons.1 hb with h | h
        · exact absurd h.symm hne
        · exact h
      have e1 := (List.pairwise_cons.1 h1).1 b hb'
      have e2 := (List.pairwise_cons.1 h2).1 a ha'
      omega
    subst hab
    rw [perm_sorted_eq key r1 r2 hp.cons_inv (List.pairwise_cons.1 h1).2 (List.pairwise_cons.1 h2).2]

theorem wf_sorted_top (cap : Int) (top : List Item) (h : TopWF cap top) :
    top.Pairwise (fun a b => a.start < b.start) := by
  have : ∀ (l : List Item) (lo : Int), WFfrom lo cap (topSlots l) → l.Pairwise (fun a b => a.start < b.start) := by
    intro l
    induction l with
    | nil => intro _ _; exact List.Pairwise.nil
    | cons s rest ih =>
      intro lo h
      simp only [topSlots, List.map_cons] at h
      rw [WFfrom_cons] at h
      refine List.Pairwise.cons ?_ (ih _ h.2.2)
      intro x hx
      have hm : x.slot ∈ topSlots rest := List.mem_map.2 ⟨x, hx, rfl⟩
      have := WFfrom_mem h.2.2 x.slot hm
      have e1 : s.slot.start = s.start := rfl
      have e2 : x.slot.start = x.start := rfl
      have e3 : s.slot.size = s.size := rfl
      omega
  exact this top 0 h

/-! ### group ids that are already normal -/

theorem insInt_of_le (a : Int) : ∀ l : List Int, (∀ b ∈ l, a ≤ b) → Acme.Mux.insInt a l = a :: l
  | [], _ => rfl
  | b :: rest, h => by
    simp only [Acme.Mux.insInt]
    rw [if_pos (h b (List.mem_cons_self ..))]

theorem sortInts_of_sorted : ∀ l : List Int, l.Pairwise (· ≤ ·) → sortInts l = l
  | [], _ => rfl
  | a :: rest, h => by
    simp only [sortInts]
    rw [sortInts_of_sorted rest (List.pairwise_cons.1 h).2]
    exact insInt_of_le a rest (List.pairwise_cons.1 h).1

theorem compactAdj_of_strict : ∀ l : List Int, l.Pairwise (· < ·) → compactAdj l = l
  | [], _ => rfl
  | [a], _ => rfl
  | a :: b :: rest, h => by
    simp only [compactAdj]
    have hab : a < b := (List.pairwise_cons.1 h).1 b (List.mem_cons_self ..)
    rw [if_neg (by omega), compactAdj_of_strict (b :: rest) (List.pairwise_cons.1 h).2]

theorem compactSort_of_strict (l : List Int) (h : l.Pairwise (· < ·)) : compactAdj (sortInts l) = l := by
  rw [sortInts_of_sorted l (h.imp (fun hab => Int.le_of_lt hab)), compactAdj_of_strict l h]

/-! ### `insertTop`, forward -/

theorem nestedClash_false (top : List Item) (x : Item) (h : (regNames (x :: top)).Nodup) :
    nestedClash top x = false := by
  cases x with
  | sig l => rfl
  | mux n =>
    rw [regNames_cons, List.nodup_append] at h
    obtain ⟨h1, _, h3⟩ := h
    simp only [itemNames, List.nodup_cons] at h1
    simp only [nestedClash, Bool.or_eq_false_iff, Bool.not_eq_false']
    constructor
    · apply List.any_eq_false.2
      intro c hc
      simp only [Bool.or_eq_true, not_or, Bool.not_eq_true]
      have hcm : c.name ∈ n.children.map (·.name) := List.mem_map.2 ⟨c, hc, rfl⟩
      constructor
      · cases hcn : (regNames top).contains c.name
        · rfl
        · exfalso
          have hm : c.name ∈ regNames top := by simpa using hcn
          exact h3 c.name (by simp only [itemNames]; exact List.mem_cons_of_mem _ hcm) c.name hm rfl
      · cases hcn : (c.name == n.name)
        · rfl
        · exfalso
          have : c.name = n.name := by simpa using hcn
          exact h1.1 (this ▸ hcm)
    · rw [nodupStr_iff]; exact h1.2

theorem insertTop_ok (cap : Int) (top : List Item) (x : Item) (hw : TopWF cap top) (hsz : 0 < x.size)
    (hnames : (regNames (x :: top)).Nodup) (h0 : 0 ≤ x.start) (h1 : x.start + x.size ≤ cap)
    (hfree : ∀ y ∈ top, SlotDisj x.slot y.slot) :
    insertTop cap top x = .ok (insertItem x top) := by
  have hclash := nestedClash_false top x hnames
  have hname : x.name ∉ regNames top := by
    rw [regNames_cons, List.nodup_append] at hnames
    intro hm
    have hx : x.name ∈ itemNames x := by
      cases x <;> simp [itemNames, Item.name]
    exact hnames.2.2 x.name hx x.name hm rfl
  have hv : verifyInsert cap (topSlots top) x.size x.start = .ok () := by
    apply verifyInsert_ok cap _ _ _ hw hsz h0 h1
    intro s hs
    obtain ⟨y, hy, rfl⟩ := List.mem_map.1 hs
    exact hfree y hy
  unfold insertTop
  have hc : (regNames top).contains x.name = false := by
    cases hcn : (regNames top).contains x.name
    · rfl
    · exact absurd (by simpa using hcn) hname
  simp only [hc, hclash, hv]
  rfl

/-- insert a list of items one after the other -/
def insertAll (cap : Int) : List Item → List Item → Except ImpErr (List Item)
  | top, [] => .ok top
  | top, x :: r =>
    match insertTop cap top x with
    | .error e => .error e
    | .ok top' => insertAll cap top' r

/-- items that can live together in a message of `cap` bits -/
structure Compatible (cap : Int) (F : List Item) : Prop where
  disj : F.Pairwise (fun a b => SlotDisj a.slot b.slot)
  bounds : ∀ x ∈ F, 0 ≤ x.start ∧ x.start + x.size ≤ cap ∧ 0 < x.size
  names : (regNames F).Nodup

theorem Compatible.perm {cap : Int} {F G : List Item} (h : Compatible cap F) (hp : F.Perm G) :
    Compatible cap G :=
  ⟨(hp.pairwise_iff (fun hab => SlotDisj.symm hab)).1 h.disj,
   fun x hx => h.bounds x (hp.mem_iff.2 hx),
   ((regNames_perm hp).nodup_iff).1 h.names⟩

theorem compatible_of_wf (cap : Int) (top : List Item) (hw : TopWF cap top) (hn : (regNames top).Nodup) :
    Compatible cap top := by
  refine ⟨?_, ?_, hn⟩
  · have := wfFrom_pairwise _ _ _ hw
    simp only [topSlots] at this
    exact (List.pairwise_map.1 this)
  · intro x hx
    have hm : x.slot ∈ topSlots top := List.mem_map.2 ⟨x, hx, rfl⟩
    have := WFfrom_mem hw x.slot hm
    exact ⟨this.1, this.2.2, this.2.1⟩

theorem regNames_append (a b : List Item) : regNames (a ++ b) = regNames a ++ regNames b := by
  rw [regNames_eq, regNames_eq, regNames_eq, List.flatMap_append]

theorem insertAll_ok (cap : Int) : ∀ (xs top : List Item), Compatible cap (xs ++ top) → TopWF cap top →
    ∃ top', insertAll cap top xs = .ok top' ∧ top'.Perm (xs ++ top) ∧ TopWF cap top'
  | [], top, _, hw => ⟨top, rfl, List.Perm.refl _, hw⟩
  | x :: r, top, hc, hw => by
    have hb := hc.bounds x (List.mem_cons_self ..)
    have hdisj := (List.pairwise_cons.1 hc.disj).1
    have hnames : (regNames (x :: top)).Nodup := by
      have := hc.names
      rw [List.cons_append, regNames_cons, regNames_append] at this
      rw [regNames_cons]
      rw [List.nodup_append] at this ⊢
      obtain ⟨a, b, c⟩ := this
      rw [List.nodup_append] at b
      exact ⟨a, b.2.1, fun u hu v hv => c u hu v (List.mem_append.2 (Or.inr hv))⟩
    have hins := insertTop_ok cap top x hw hb.2.2 hnames hb.1 hb.2.1
      (fun y hy => hdisj y (List.mem_append.2 (Or.inr hy)))
    have hw' : TopWF cap (insertItem x top) := by
      obtain ⟨_, h2, _⟩ := insertTop_spec cap top _ x hins hb.2.2 hw
      exact h2
    have hc' : Compatible cap (r ++ insertItem x top) := by
      refine hc.perm ?_
      exact (List.perm_middle.symm).trans (List.Perm.append_left r (insertItem_perm x top).symm)
    obtain ⟨top', h1, h2, h3⟩ := insertAll_ok cap r (insertItem x top) hc' hw'
    refine ⟨top', ?_, ?_, h3⟩
    · simp only [insertAll, hins]; exact h1
    · exact h2.trans ((List.Perm.append_left r (insertItem_perm x top)).trans List.perm_middle)

theorem importPlain_eq (cap : Int) : ∀ (sigs : List DSig) (top : List Item),
    (∀ s ∈ sigs, checkSig s = .ok ()) → importPlain cap top sigs = insertAll cap top (sigs.map leafOf)
  | [], _, _ => rfl
  | s :: r, top, h => by
    simp only [importPlain, List.map_cons, insertAll, h s (List.mem_cons_self ..)]
    cases hins : insertTop cap top (leafOf s) with
    | error e => rfl
    | ok top' => exact importPlain_eq cap r top' (fun x hx => h x (List.mem_cons_of_mem _ hx))

theorem placeStd_eq (cap muxorStart last : Int) : ∀ (std : List DSig) (top : List Item) (muxed : List DSig),
    (∀ s ∈ std, ¬ (sigPos s > muxorStart ∧ sigPos s < last)) →
    placeStd cap muxorStart last top muxed std =
      match insertAll cap top (std.map leafOf) with
      | .ok top' => .ok (top', muxed)
      | .error e => .error e
  | [], _, _, _ => rfl
  | s :: r, top, muxed, h => by
    simp only [placeStd, List.map_cons, insertAll, if_neg (h s (List.mem_cons_self ..))]
    cases hins : insertTop cap top (leafOf s) with
    | error e => rfl
    | ok top' => exact placeStd_eq cap muxorStart last r top' muxed (fun x hx => h x (List.mem_cons_of_mem _ hx))

/-! ### `muxInsert`, forward -/

def GroupDisj (gc : Int) (c d : Child) : Prop :=
  ∀ k : Nat, (k : Int) < gc → c.inGroup (k : Int) = true → d.inGroup (k : Int) = true → SlotDisj c.slot d.slot

theorem GroupDisj.symm {gc : Int} {c d : Child} (h : GroupDisj gc c d) : GroupDisj gc d c :=
  fun k hk h1 h2 => (h k hk h2 h1).symm

theorem verifyGroups_of (gs : Int) (cs : List Child) (sz rel : Int) : ∀ l : List Nat,
    (∀ k ∈ l, verifyInsert gs (childSlots (groupOf cs ((k : Nat) : Int))) sz rel = .ok ()) →
    verifyGroups gs cs sz rel l = .ok ()
  | [], _ => rfl
  | k :: rest, h => by
    simp only [verifyGroups, h k (List.mem_cons_self ..)]
    exact verifyGroups_of gs cs sz rel rest (fun x hx => h x (List.mem_cons_of_mem _ hx))

theorem verifyIds_of (gc gs : Int) (cs : List Child) (sz rel : Int) : ∀ l : List Int,
    (∀ k ∈ l, 0 ≤ k ∧ k < gc ∧ verifyInsert gs (childSlots (groupOf cs k)) sz rel = .ok ()) →
    verifyIds gc gs cs sz rel l = .ok ()
  | [], _ => rfl
  | k :: rest, h => by
    obtain ⟨h0, h1, h2⟩ := h k (List.mem_cons_self ..)
    simp only [verifyIds, if_neg (by omega : ¬ k < 0), if_neg (by omega : ¬ k ≥ gc), h2]
    exact verifyIds_of gc gs cs sz rel rest (fun x hx => h x (List.mem_cons_of_mem _ hx))

theorem muxInsert_ok (gc gs : Int) (acc : List Child) (c : Child) (hinv : KidsInv gc gs acc)
    (hsz : 0 < c.size) (hfresh : ∀ d ∈ acc, d.name ≠ c.name)
    (hids : (∀ g ∈ c.gids, 0 ≤ g ∧ g < gc) ∧ c.gids.Pairwise (· < ·))
    (h0 : 0 ≤ c.rel) (h1 : c.rel + c.size ≤ gs) (hdisj : ∀ d ∈ acc, GroupDisj gc d c) :
    muxInsert gc gs acc c = .ok (acc ++ [c]) := by
  have hname : (acc.any (fun d => d.name == c.name)) = false := by
    apply List.any_eq_false.2
    intro d hd
    simpa using hfresh d hd
  have hver : ∀ k : Nat, (k : Int) < gc → c.inGroup (k : Int) = true →
      verifyInsert gs (childSlots (groupOf acc (k : Int))) c.size c.rel = .ok () := by
    intro k hk hin
    apply verifyInsert_ok gs _ _ _ (hinv.wf k hk) hsz h0 h1
    intro s hs
    obtain ⟨d, hd, rfl⟩ := List.mem_map.1 hs
    obtain ⟨hd1, hd2⟩ := (mem_groupOf acc k d).1 hd
    have := hdisj d hd1 k hk hd2 hin
    rcases this with h | h
    · right; exact h
    · left; exact h
  unfold muxInsert
  simp only [hname]
  by_cases hfix : c.gids = []
  · have he : c.gids.isEmpty = true := by simp [hfix]
    simp only [he, if_true]
    have hin : ∀ k : Int, c.inGroup k = true := fun k => by simp [Child.inGroup, hfix]
    rw [verifyGroups_of gs acc c.size c.rel _ (fun k hk => hver k (by
      have := List.mem_range.1 hk; omega) (hin _))]
    rfl
  · have he : c.gids.isEmpty = false := by
      cases hg : c.gids with
      | nil => exact absurd hg hfix
      | cons a r => rfl
    simp only [he]
    rw [compactSort_of_strict c.gids hids.2]
    rw [verifyIds_of gc gs acc c.size c.rel c.gids (fun k hk => by
      obtain ⟨a, b⟩ := hids.1 k hk
      refine ⟨a, b, ?_⟩
      have hk' : ((k.toNat : Nat) : Int) = k := Int.toNat_of_nonneg a
      have := hver k.toNat (by omega) (by
        rw [hk']
        simp only [Child.inGroup, Bool.or_eq_true]
        right
        simpa using hk)
      rw [hk'] at this
      exact this)]
    rfl

end Acme.Import
