/-
Multiplexer world, part S: `mux.clear` (`MultiplexerSignal.ClearSignalGroup`).
-/
import Acme.Proofs.MuxIns5

namespace Acme.Mux
open Acme.Layout Acme.Arith

/-- the record of the multiplexer after one of its children was removed -/
theorem muxRm_xrecord (w : MW) (h : InvCore w) (x s : Nat) (xe : SigE) (gc gs : Int)
    (hx : w.sigs.get x = some xe) (hk : xe.kind = .mux gc gs) (hsch : s ∈ xe.mx.signals) :
    ∃ xe', (doMuxRm w x s).1.sigs.get x = some xe' ∧ xe'.kind = xe.kind ∧
      xe'.mx.groups.length = xe.mx.groups.length ∧
      ∀ j, xe'.mx.groups.getD j [] = sDel (xe.mx.groups.getD j []) s := by
  have hxo := h.muxOK hx hk
  have hc : xe.mx.signals.contains s = true := by simpa using hsch
  obtain ⟨se, hs, hsx⟩ := (hxo.child s).mp hsch
  have hgeo : GroupsGeo w gs xe.mx.groups := by
    intro g hg
    refine ⟨hxo.wf g hg, ?_⟩
    intro i hi
    obtain ⟨e, he, _⟩ := hxo.mem_stored hg hi
    simp [he]
  have hgs0 : 0 ≤ gs := by have := hxo.shape.2.2; omega
  by_cases hfx : xe.mx.fixed.contains s = true
  · obtain ⟨r1, r2, r3⟩ := removeMany_spec w x xe gs hgs0 hx hgeo s (allGroups gc)
    generalize hrm : removeMany w x s (allGroups gc) = rm at r1 r2 r3
    obtain ⟨w1, b⟩ := rm
    simp only at r1 r2 r3
    subst r1
    simp only [doMuxRm, muxRemove, hx, hk, hc, hfx, hrm, Bool.not_true, Bool.false_eq_true, ↓reduceIte]
    obtain ⟨c1, _⟩ := rmTail_spec w h x s xe se gc gs hx hk hs hsx w1 _ r2 r3
      (fun d => { d with fixed := sDel d.fixed s })
    refine ⟨_, c1, ?_, ?_, ?_⟩
    · exact hk
    · exact delMany_length _ _ _
    intro j
    show (delMany xe.mx.groups s (allGroups gc)).getD j [] = _
    rw [delMany_getD]
    by_cases hj : j ∈ allGroups gc
    · rw [if_pos hj]
    · rw [if_neg hj]
      have : xe.mx.groups.length ≤ j := by
        rw [hxo.shape.1]
        simp only [allGroups, List.mem_range, Nat.not_lt] at hj
        exact hj
      rw [getD_ge _ _ _ this]
      rfl
  · have hsnf : s ∉ xe.mx.fixed := by
      intro hh; apply hfx; simpa using hh
    cases hl : xe.mx.groupIds.get s with
    | none =>
      exfalso
      rcases (hxo.split s).mp hsch with hh | hh
      · exact hsnf hh
      · rw [hl] at hh; simp at hh
    | some ids =>
      obtain ⟨l1, l2, l3, l4⟩ := hxo.listed s ids hl
      obtain ⟨r1, r2, r3⟩ := removeMany_spec w x xe gs hgs0 hx hgeo s (ids.map Int.toNat)
      generalize hrm : removeMany w x s (ids.map Int.toNat) = rm at r1 r2 r3
      obtain ⟨w1, b⟩ := rm
      simp only at r1 r2 r3
      subst r1
      simp only [doMuxRm, muxRemove, hx, hk, hc, hfx, hl, hrm, Bool.not_true, Bool.false_eq_true, ↓reduceIte]
      obtain ⟨c1, _⟩ := rmTail_spec w h x s xe se gc gs hx hk hs hsx w1 _ r2 r3
        (fun d => { d with groupIds := d.groupIds.erase s })
      refine ⟨_, c1, ?_, ?_, ?_⟩
      · exact hk
      · exact delMany_length _ _ _
      intro j
      show (delMany xe.mx.groups s (ids.map Int.toNat)).getD j [] = _
      rw [delMany_getD]
      by_cases hj : j ∈ ids.map Int.toNat
      · rw [if_pos hj]
      · rw [if_neg hj]
        by_cases hlt : j < xe.mx.groups.length
        · have hns : s ∉ xe.mx.groups.getD j [] := by
            intro hmem
            have := (l4 j (by rw [← hxo.shape.1]; exact hlt)).mp hmem
            apply hj
            exact List.mem_map.mpr ⟨(j : Int), this, by simp⟩
          rw [sDel_of_not_mem _ _ hns]
        · rw [getD_ge _ _ _ (Nat.le_of_not_lt hlt)]
          rfl

/-- Replacing the membership part of the body of one multiplexer (same children, same names)
    preserves the invariant when the multiplexer itself is fine in the new world. -/
theorem inv_replace_body (w W' : MW) (h : InvCore w) (x : Nat) (xe xe' : SigE) (gc gs : Int)
    (hx : w.sigs.get x = some xe) (hk : xe.kind = .mux gc gs)
    (hxe' : xe'.name = xe.name ∧ xe'.kind = xe.kind ∧ xe'.rel = xe.rel ∧ xe'.parentMux = xe.parentMux ∧ xe'.parentMsg = xe.parentMsg)
    (hmsgs : W'.msgs = w.msgs)
    (hgx : W'.sigs.get x = some xe') (hgo : ∀ i, i ≠ x → W'.sigs.get i = w.sigs.get i)
    (hmux : MuxOK W' x xe' gc gs) : InvCore W' := by
  have hfw : ∀ t e, w.sigs.get t = some e → ∃ e', W'.sigs.get t = some e' ∧ e'.name = e.name ∧
      e'.kind = e.kind ∧ geo e' = geo e ∧ e'.parentMux = e.parentMux ∧ e'.parentMsg = e.parentMsg ∧
      (t ≠ x → e' = e) := by
    intro t e he
    by_cases htx : t = x
    · subst htx
      rw [hx] at he; cases he
      exact ⟨xe', hgx, hxe'.1, hxe'.2.1, by simp [geo, sigSize, hxe'.2.1, hxe'.2.2.1], hxe'.2.2.2.1, hxe'.2.2.2.2,
        fun hh => absurd rfl hh⟩
    · exact ⟨e, by rw [hgo t htx]; exact he, rfl, rfl, rfl, rfl, rfl, fun _ => rfl⟩
  have hbw : ∀ t e', W'.sigs.get t = some e' → ∃ e, w.sigs.get t = some e := by
    intro t e' ht
    by_cases htx : t = x
    · exact ⟨xe, by rw [htx]; exact hx⟩
    · rw [hgo t htx] at ht; exact ⟨e', ht⟩
  apply InvCore.of_parts
  · intro y ye' gc' gs' hy hky
    by_cases hyx : y = x
    · subst hyx
      rw [hgx] at hy; cases hy
      have hk' : xe.kind = .mux gc' gs' := by rw [← hxe'.2.1]; exact hky
      rw [hk] at hk'
      simp only [SKind.mux.injEq] at hk'
      obtain ⟨rfl, rfl⟩ := hk'
      exact hmux
    · rw [hgo y hyx] at hy
      have hyo := h.muxOK hy hky
      apply hyo.frame rfl
      · intro t ht
        obtain ⟨e, he, _⟩ := (hyo.child t).mp ht
        obtain ⟨e', he', a1, _, a3, a4, _⟩ := hfw t e he
        exact ⟨e, e', he, he', a1, a4, a3⟩
      · intro t e' he' hp
        obtain ⟨e, he⟩ := hbw t e' he'
        obtain ⟨e'', he'', _, _, _, a4, _⟩ := hfw t e he
        rw [he'] at he''; cases he''
        exact (hyo.child t).mpr ⟨e, he, by rw [← a4, hp]⟩
  · intro m msg hm
    rw [hmsgs] at hm
    have hmo := h.msgOK hm
    apply hmo.frame
    · intro t ht
      obtain ⟨e, he, _⟩ := (hmo.reg t).mp ht
      obtain ⟨e', he', a1, _, a3, a4, a5, _⟩ := hfw t e he
      exact ⟨e, e', he, he', ⟨a1, a4, a5⟩, a3⟩
    · intro t e' he' hp
      obtain ⟨e, he⟩ := hbw t e' he'
      obtain ⟨e'', he'', _, _, _, _, a5, _⟩ := hfw t e he
      rw [he'] at he''; cases he''
      exact (hmo.reg t).mpr ⟨e, he, by rw [← a5, hp]⟩
  · intro t e' ht
    obtain ⟨e, he⟩ := hbw t e' ht
    obtain ⟨e'', he'', _, a2, _, a4, a5, _⟩ := hfw t e he
    rw [ht] at he''; cases he''
    have hl := h.linkOK he
    refine ⟨fun z hz => hl.size z (by rw [← a2]; exact hz), ?_, ?_⟩
    · intro p hp
      obtain ⟨pe, gc', gs', b1, b2, b3⟩ := hl.parent p (by rw [← a4, hp])
      obtain ⟨pe', c1, _, c3, _, _, c6, _⟩ := hfw p pe b1
      exact ⟨pe', gc', gs', c1, by rw [c3]; exact b2, by rw [c6, b3, a5]⟩
    · intro m hm
      rw [hmsgs]
      exact hl.msg m (by rw [← a5, hm])
  · obtain ⟨depth, hd⟩ := h.acyclic
    refine ⟨depth, ?_⟩
    intro t e' p ht hp
    obtain ⟨e, he⟩ := hbw t e' ht
    obtain ⟨e'', he'', _, _, _, a4, _⟩ := hfw t e he
    rw [ht] at he''; cases he''
    exact hd t e p he (by rw [← a4, hp])

/-- `ClearSignalGroup` on a signal that is listed for several groups: it leaves group `g` -/
theorem inv_unlist (w : MW) (h : InvCore w) (x s : Nat) (xe : SigE) (gc gs : Int)
    (hx : w.sigs.get x = some xe) (hk : xe.kind = .mux gc gs) (ids : List Int)
    (hl : xe.mx.groupIds.get s = some ids) (hlen : ids.length ≠ 1) (g : Int) (hg : 0 ≤ g ∧ g < gc)
    (hsg : s ∈ xe.mx.groups.getD g.toNat []) :
    InvCore (updMux (groupRemove w x g.toNat s) x (fun d => { d with groupIds := d.groupIds.set s (ids.filter (fun i => i ≠ g)) })) ∧
    genPanics (groupRemove w x g.toNat s) (groupOf (groupRemove w x g.toNat s) x g.toNat) = false ∧
    (updMux (groupRemove w x g.toNat s) x (fun d => { d with groupIds := d.groupIds.set s (ids.filter (fun i => i ≠ g)) })).sigs.get x =
      some { xe with mx := { xe.mx with groups := xe.mx.groups.set g.toNat (sDel (xe.mx.groups.getD g.toNat []) s), groupIds := xe.mx.groupIds.set s (ids.filter (fun i => i ≠ g)) } } := by
  have hxo := h.muxOK hx hk
  have hklt : g.toNat < xe.mx.groups.length := by rw [hxo.shape.1]; omega
  have hgm := getD_mem xe.mx.groups g.toNat [] hklt
  obtain ⟨l1, l2, l3, l4⟩ := hxo.listed s ids hl
  have hgin : g ∈ ids := by
    have := (l4 g.toNat (by omega)).mp hsg
    have e : ((g.toNat : Nat) : Int) = g := by omega
    rwa [e] at this
  have hsnf : s ∉ xe.mx.fixed := by
    intro hf; have := hxo.disj s hf; rw [hl] at this; cases this
  generalize hW : updMux (groupRemove w x g.toNat s) x (fun d => { d with groupIds := d.groupIds.set s (ids.filter (fun i => i ≠ g)) }) = W'
  have hg1 : ∀ i, (groupRemove w x g.toNat s).sigs.get i =
      if i = x then some { xe with mx := { xe.mx with groups := xe.mx.groups.set g.toNat (sDel (xe.mx.groups.getD g.toNat []) s) } }
      else w.sigs.get i := by
    intro i
    unfold groupRemove
    rw [updMux_get, hx]; rfl
  have hgW : ∀ i, W'.sigs.get i =
      if i = x then some { xe with mx := { xe.mx with groups := xe.mx.groups.set g.toNat (sDel (xe.mx.groups.getD g.toNat []) s), groupIds := xe.mx.groupIds.set s (ids.filter (fun i => i ≠ g)) } }
      else w.sigs.get i := by
    intro i
    rw [← hW, updMux_get, hg1, hg1, if_pos rfl]
    by_cases hi : i = x
    · simp [hi]
    · simp [hi]
  have hmW : W'.msgs = w.msgs := by
    rw [← hW, updMux_msgs]; unfold groupRemove; exact updMux_msgs _ _ _
  have hgeoW : ∀ l : List Nat, slotsOf W' l = slotsOf w l := by
    intro l
    apply slotsOf_congr
    intro i _
    rw [hgW]
    by_cases hi : i = x
    · subst hi; simp [hx, geo, sigSize]
    · simp [hi]
  have hgeo1 : ∀ l : List Nat, slotsOf (groupRemove w x g.toNat s) l = slotsOf w l := by
    intro l
    apply slotsOf_congr
    intro i _
    rw [hg1]
    by_cases hi : i = x
    · subst hi; simp [hx, geo, sigSize]
    · simp [hi]
  have hstk : ∀ i ∈ xe.mx.groups.getD g.toNat [], (w.sigs.get i).isSome := by
    intro i hi; obtain ⟨e, he, _⟩ := hxo.mem_stored hgm hi; simp [he]
  have hwfk : WF gs (slotsOf w (sDel (xe.mx.groups.getD g.toNat []) s)) := by
    rw [slotsOf_sDel w _ s hstk]; exact (remove_wf gs _ (hxo.wf _ hgm) s).1
  refine ⟨?_, ?_, hgW x |>.trans (by rw [if_pos rfl])⟩
  · -- the invariant
    have hgetD : ∀ j, (xe.mx.groups.set g.toNat (sDel (xe.mx.groups.getD g.toNat []) s)).getD j [] =
        if j = g.toNat then sDel (xe.mx.groups.getD g.toNat []) s else xe.mx.groups.getD j [] := by
      intro j
      rw [getD_set]
      by_cases hj : j = g.toNat
      · simp [hj, hklt]
      · simp [hj]
    have hidx : ∀ g', g' ∈ xe.mx.groups.set g.toNat (sDel (xe.mx.groups.getD g.toNat []) s) →
        ∃ j, j < xe.mx.groups.length ∧ g' = (if j = g.toNat then sDel (xe.mx.groups.getD g.toNat []) s else xe.mx.groups.getD j []) ∧
          xe.mx.groups.getD j [] ∈ xe.mx.groups := by
      intro g' hg'
      obtain ⟨j, hj, rfl⟩ := mem_getD _ [] g' hg'
      simp only [List.length_set] at hj
      exact ⟨j, hj, hgetD j, getD_mem _ _ _ hj⟩
    apply inv_replace_body w W' h x xe
      { xe with mx := { xe.mx with groups := xe.mx.groups.set g.toNat (sDel (xe.mx.groups.getD g.toNat []) s), groupIds := xe.mx.groupIds.set s (ids.filter (fun i => i ≠ g)) } }
      gc gs hx hk ⟨rfl, rfl, rfl, rfl, rfl⟩ hmW (by rw [hgW, if_pos rfl])
      (fun i hi => by rw [hgW, if_neg hi])
    refine ⟨⟨by simp [hxo.shape.1], hxo.shape.2.1, hxo.shape.2.2⟩, ?_, ?_, ?_, ?_, ?_, ?_, ?_, ?_, hxo.namesNodup, ?_, hxo.sigsNodup⟩
    · intro g' hg'
      obtain ⟨j, hj, rfl, hjm⟩ := hidx g' hg'
      rw [hgeoW]
      by_cases hjk : j = g.toNat
      · rw [if_pos hjk]; exact hwfk
      · rw [if_neg hjk]; exact hxo.wf _ hjm
    · intro g' hg'
      obtain ⟨j, hj, rfl, hjm⟩ := hidx g' hg'
      by_cases hjk : j = g.toNat
      · rw [if_pos hjk]; exact nodup_sDel _ _ (hxo.nodup _ hgm)
      · rw [if_neg hjk]; exact hxo.nodup _ hjm
    · intro t ht g' hg'
      obtain ⟨j, hj, rfl, hjm⟩ := hidx g' hg'
      have hts : t ≠ s := by rintro rfl; exact hsnf ht
      by_cases hjk : j = g.toNat
      · rw [if_pos hjk, mem_sDel]; exact ⟨hxo.fixedEv t ht _ hgm, hts⟩
      · rw [if_neg hjk]; exact hxo.fixedEv t ht _ hjm
    · intro t gids ht
      simp only [AMap.get_set] at ht
      by_cases hts : t = s
      · subst hts
        simp only [↓reduceIte, Option.some.injEq] at ht
        subst ht
        refine ⟨?_, l2.sublist List.filter_sublist, fun k hk' => l3 k (List.mem_of_mem_filter hk'), ?_⟩
        · -- another id remains
          intro hemp
          have hnd := nodup_of_strict _ l2
          cases ids with
          | nil => exact l1 rfl
          | cons a rest =>
            cases rest with
            | nil => exact hlen rfl
            | cons b rest' =>
              have hab : a ≠ b := by
                simp only [List.nodup_cons, List.mem_cons, not_or] at hnd
                exact hnd.1.1
              by_cases hag : a = g
              · have : b ∈ List.filter (fun i => decide (i ≠ g)) (a :: b :: rest') := by
                  simp only [List.mem_filter, List.mem_cons, decide_eq_true_eq]
                  exact ⟨Or.inr (Or.inl trivial), by rw [← hag]; exact fun e => hab e.symm⟩
                rw [hemp] at this; cases this
              · have : a ∈ List.filter (fun i => decide (i ≠ g)) (a :: b :: rest') := by
                  simp only [List.mem_filter, List.mem_cons, decide_eq_true_eq]
                  exact ⟨Or.inl trivial, hag⟩
                rw [hemp] at this; cases this
        · intro k hk'
          show t ∈ (xe.mx.groups.set g.toNat (sDel (xe.mx.groups.getD g.toNat []) t)).getD k [] ↔ _
          rw [hgetD]
          simp only [List.mem_filter, decide_eq_true_eq]
          by_cases hkk : k = g.toNat
          · rw [if_pos hkk, mem_sDel]
            have e : ((k : Nat) : Int) = g := by omega
            simp [e]
          · rw [if_neg hkk, l4 k hk']
            have : ((k : Nat) : Int) ≠ g := by omega
            simp [this]
      · rw [if_neg hts] at ht
        obtain ⟨a1, a2, a3, a4⟩ := hxo.listed t gids ht
        refine ⟨a1, a2, a3, ?_⟩
        intro k hk'
        show t ∈ (xe.mx.groups.set g.toNat (sDel (xe.mx.groups.getD g.toNat []) s)).getD k [] ↔ _
        rw [hgetD]
        by_cases hkk : k = g.toNat
        · rw [if_pos hkk, mem_sDel, ← hkk, a4 k hk']
          simp [hts]
        · rw [if_neg hkk]; exact a4 k hk'
    · intro t hnf hnl g' hg'
      obtain ⟨j, hj, rfl, hjm⟩ := hidx g' hg'
      simp only [AMap.get_set] at hnl
      have hts : t ≠ s := by rintro rfl; simp at hnl
      rw [if_neg hts] at hnl
      by_cases hjk : j = g.toNat
      · rw [if_pos hjk, mem_sDel]
        rintro ⟨hm, _⟩
        exact hxo.neither t hnf hnl _ hgm hm
      · rw [if_neg hjk]; exact hxo.neither t hnf hnl _ hjm
    · intro t
      show t ∈ xe.mx.signals ↔ (t ∈ xe.mx.fixed ∨ ((xe.mx.groupIds.set s _).get t).isSome)
      rw [hxo.split, AMap.get_set]
      by_cases hts : t = s
      · subst hts; simp [hl]
      · simp [hts]
    · intro t ht
      show (xe.mx.groupIds.set s _).get t = none
      rw [AMap.get_set]
      have hts : t ≠ s := by rintro rfl; exact hsnf ht
      rw [if_neg hts]; exact hxo.disj t ht
    · intro t
      show t ∈ xe.mx.signals ↔ _
      rw [hxo.child]
      constructor
      · rintro ⟨e, he, hp⟩
        have htx : t ≠ x := by rintro rfl; exact self_not_parent w h t e he hp
        exact ⟨e, by rw [hgW, if_neg htx]; exact he, hp⟩
      · rintro ⟨e', he', hp⟩
        have htx : t ≠ x := by
          rintro rfl
          rw [hgW, if_pos rfl] at he'; cases he'
          exact self_not_parent w h t xe hx hp
        rw [hgW, if_neg htx] at he'
        exact ⟨e', he', hp⟩
    · intro n i
      show (n, i) ∈ xe.mx.signalNames ↔ i ∈ xe.mx.signals ∧ _
      rw [hxo.names]
      have : nameOf W' i = nameOf w i := by
        unfold nameOf
        rw [hgW]
        by_cases hi : i = x
        · simp [hi, hx]
        · simp [hi]
      rw [this]
  · unfold groupOf
    rw [hg1, if_pos rfl]
    simp only
    rw [getD_set, if_pos ⟨rfl, hklt⟩]
    exact genPanics_false _ gs _ (by rw [hgeo1]; exact hwfk)

/-- one iteration of the loop on a signal listed for group `g` only is `RemoveSignal` -/
theorem clear_single_eq (w : MW) (x s : Nat) (xe : SigE) (gc gs g : Int)
    (hx : w.sigs.get x = some xe) (hk : xe.kind = .mux gc gs) (hc : s ∈ xe.mx.signals)
    (hnf : s ∉ xe.mx.fixed) (hl : xe.mx.groupIds.get s = some [g])
    (hnp : genPanics (groupRemove w x g.toNat s) (groupOf (groupRemove w x g.toNat s) x g.toNat) = false) :
    doMuxRm w x s = (updMux (muxRemoveSignal (groupRemove w x g.toNat s) x s) x
        (fun d => { d with groupIds := d.groupIds.erase s }), .ok []) := by
  have hc' : xe.mx.signals.contains s = true := by simpa using hc
  have hf' : xe.mx.fixed.contains s = false := by
    cases hh : xe.mx.fixed.contains s with
    | false => rfl
    | true => exact absurd (by simpa using hh) hnf
  simp only [doMuxRm, muxRemove, hx, hk, hc', hf', hl, removeMany, hnp, List.map_cons, List.map_nil,
    Bool.not_true, Bool.false_eq_true, ↓reduceIte]

theorem clearLoop_inv (x : Nat) (gc gs g : Int) (hg : 0 ≤ g ∧ g < gc) :
    ∀ (l : List Nat) (w : MW), InvCore w →
      (∃ xe, w.sigs.get x = some xe ∧ xe.kind = .mux gc gs ∧ ∀ t ∈ l, t ∈ xe.mx.groups.getD g.toNat []) →
      l.Nodup → InvCore (clearLoop w x g l).1 ∧ (clearLoop w x g l).2 = false := by
  intro l
  induction l with
  | nil => intro w h _ _; exact ⟨h, rfl⟩
  | cons s rest ih =>
    intro w h ⟨xe, hx, hk, hmem⟩ hnd
    simp only [List.nodup_cons] at hnd
    have hxo := h.muxOK hx hk
    have hklt : g.toNat < xe.mx.groups.length := by rw [hxo.shape.1]; omega
    have hgm := getD_mem xe.mx.groups g.toNat [] hklt
    have hsg : s ∈ xe.mx.groups.getD g.toNat [] := hmem s List.mem_cons_self
    simp only [clearLoop, hx]
    by_cases hfx : xe.mx.fixed.contains s = true
    · rw [if_pos hfx]
      exact ih w h ⟨xe, hx, hk, fun t ht => hmem t (List.mem_cons_of_mem _ ht)⟩ hnd.2
    · rw [if_neg hfx]
      have hnf : s ∉ xe.mx.fixed := by intro hh; apply hfx; simpa using hh
      have hsch : s ∈ xe.mx.signals := hxo.mem_child hgm hsg
      cases hl : xe.mx.groupIds.get s with
      | none =>
        exfalso
        exact hxo.neither s hnf hl _ hgm hsg
      | some ids =>
        obtain ⟨l1, l2, l3, l4⟩ := hxo.listed s ids hl
        have hgin : g ∈ ids := by
          have := (l4 g.toNat (by omega)).mp hsg
          have e : ((g.toNat : Nat) : Int) = g := by omega
          rwa [e] at this
        by_cases hlen : ids.length = 1
        · -- listed for this group only: the child is removed
          have hids : ids = [g] := by
            cases ids with
            | nil => exact absurd rfl l1
            | cons a r =>
              cases r with
              | nil => simp only [List.mem_singleton] at hgin; rw [hgin]
              | cons _ _ => simp at hlen
          subst hids
          obtain ⟨i1, i2⟩ := inv_muxRm w h x s
          obtain ⟨xe', x1, x2, x3, x4⟩ := muxRm_xrecord w h x s xe gc gs hx hk hsch
          -- no panic in the removal
          have hnp : genPanics (groupRemove w x g.toNat s) (groupOf (groupRemove w x g.toNat s) x g.toNat) = false := by
            cases hh : genPanics (groupRemove w x g.toNat s) (groupOf (groupRemove w x g.toNat s) x g.toNat) with
            | false => rfl
            | true =>
              exfalso
              apply i2
              have hc' : xe.mx.signals.contains s = true := by simpa using hsch
              have hf' : xe.mx.fixed.contains s = false := by
                cases h2 : xe.mx.fixed.contains s with
                | false => rfl
                | true => exact absurd h2 hfx
              simp only [doMuxRm, muxRemove, hx, hk, hc', hf', hl, removeMany, hh, List.map_cons, List.map_nil,
                Bool.not_true, Bool.false_eq_true, ↓reduceIte]
          have heq := clear_single_eq w x s xe gc gs g hx hk hsch hnf hl hnp
          simp only [hnp, Bool.false_eq_true, ↓reduceIte, List.length_singleton]
          have hw : updMux (muxRemoveSignal (groupRemove w x g.toNat s) x s) x
              (fun d => { d with groupIds := d.groupIds.erase s }) = (doMuxRm w x s).1 := by rw [heq]
          rw [hw]
          apply ih _ i1 ⟨xe', x1, by rw [x2]; exact hk, ?_⟩ hnd.2
          intro t ht
          rw [x4, mem_sDel]
          exact ⟨hmem t (List.mem_cons_of_mem _ ht), by rintro rfl; exact hnd.1 ht⟩
        · -- listed for further groups: it only leaves this one
          obtain ⟨u1, u2, u3⟩ := inv_unlist w h x s xe gc gs hx hk ids hl hlen g hg hsg
          simp only [u2, Bool.false_eq_true, ↓reduceIte, hlen]
          apply ih _ u1 ⟨_, u3, hk, ?_⟩ hnd.2
          intro t ht
          show t ∈ (xe.mx.groups.set g.toNat (sDel (xe.mx.groups.getD g.toNat []) s)).getD g.toNat []
          rw [getD_set, if_pos ⟨rfl, hklt⟩, mem_sDel]
          exact ⟨hmem t (List.mem_cons_of_mem _ ht), by rintro rfl; exact hnd.1 ht⟩

theorem inv_muxClear (w : MW) (h : InvCore w) (x : Nat) (g : Int) :
    InvCore (doMuxClear w x g).1 ∧ (doMuxClear w x g).2 ≠ .panic := by
  cases hx : w.sigs.get x with
  | none => simp only [doMuxClear, hx]; exact ⟨h, by simp⟩
  | some xe =>
    cases hk : xe.kind with
    | leaf z => simp only [doMuxClear, hx, hk]; exact ⟨h, by simp⟩
    | mux gc gs =>
      simp only [doMuxClear, hx, hk]
      by_cases h1 : g < 0
      · rw [if_pos h1]; exact ⟨h, by simp⟩
      · rw [if_neg h1]
        by_cases h2 : g ≥ gc
        · rw [if_pos h2]; exact ⟨h, by simp⟩
        · rw [if_neg h2]
          have hxo := h.muxOK hx hk
          have hklt : g.toNat < xe.mx.groups.length := by rw [hxo.shape.1]; omega
          obtain ⟨i1, i2⟩ := clearLoop_inv x gc gs g ⟨by omega, by omega⟩ (xe.mx.groups.getD g.toNat []) w h
            ⟨xe, hx, hk, fun t ht => ht⟩ (hxo.nodup _ (getD_mem _ _ _ hklt))
          generalize hcl : clearLoop w x g (xe.mx.groups.getD g.toNat []) = r at i1 i2
          obtain ⟨w', b⟩ := r
          simp only at i1 i2
          subst i2
          exact ⟨i1, by simp⟩

end Acme.Mux
