/-
Characterisation of the list-driven helpers of `Acme.Graph` (`clear…`, `drop…`,
`rename…InBuses`, `renumber`, `newIfaces`, `staticOf`, `attachedBuses`) through `get`,
and the generic "pointwise record transformation" lemmas of the views.
-/
import Acme.Proofs.GraphReg

namespace Acme.Graph

/-! ### views under a pointwise transformation of the records -/

theorem netBuses_map {m m' : AMap NetE} {f : Nat → NetE → NetE} (h : ∀ k, m'.get k = (m.get k).map (f k)) (k : Nat) :
    netBuses m' k = match m.get k with | some e => (f k e).buses | none => [] := by
  unfold netBuses; rw [h]; cases m.get k <;> rfl
theorem netBuses_map_same {m m' : AMap NetE} {f : Nat → NetE → NetE} (h : ∀ k, m'.get k = (m.get k).map (f k))
    (hp : ∀ k e, (f k e).buses = e.buses) : netBuses m' = netBuses m := by
  funext k; unfold netBuses; rw [h]; cases m.get k <;> simp [hp]

theorem netBusNames_map {m m' : AMap NetE} {f : Nat → NetE → NetE} (h : ∀ k, m'.get k = (m.get k).map (f k)) (k : Nat) :
    netBusNames m' k = match m.get k with | some e => (f k e).busNames | none => [] := by
  unfold netBusNames; rw [h]; cases m.get k <;> rfl
theorem netBusNames_map_same {m m' : AMap NetE} {f : Nat → NetE → NetE} (h : ∀ k, m'.get k = (m.get k).map (f k))
    (hp : ∀ k e, (f k e).busNames = e.busNames) : netBusNames m' = netBusNames m := by
  funext k; unfold netBusNames; rw [h]; cases m.get k <;> simp [hp]

theorem busName_map {m m' : AMap BusE} {f : Nat → BusE → BusE} (h : ∀ k, m'.get k = (m.get k).map (f k)) (k : Nat) :
    busName m' k = match m.get k with | some e => some (f k e).name | none => none := by
  unfold busName; rw [h]; cases m.get k <;> rfl
theorem busName_map_same {m m' : AMap BusE} {f : Nat → BusE → BusE} (h : ∀ k, m'.get k = (m.get k).map (f k))
    (hp : ∀ k e, (f k e).name = e.name) : busName m' = busName m := by
  funext k; unfold busName; rw [h]; cases m.get k <;> simp [hp]

theorem busParent_map {m m' : AMap BusE} {f : Nat → BusE → BusE} (h : ∀ k, m'.get k = (m.get k).map (f k)) (k : Nat) :
    busParent m' k = match m.get k with | some e => (f k e).parent | none => none := by
  unfold busParent; rw [h]; cases m.get k <;> rfl
theorem busParent_map_same {m m' : AMap BusE} {f : Nat → BusE → BusE} (h : ∀ k, m'.get k = (m.get k).map (f k))
    (hp : ∀ k e, (f k e).parent = e.parent) : busParent m' = busParent m := by
  funext k; unfold busParent; rw [h]; cases m.get k <;> simp [hp]

theorem busBuilder_map {m m' : AMap BusE} {f : Nat → BusE → BusE} (h : ∀ k, m'.get k = (m.get k).map (f k)) (k : Nat) :
    busBuilder m' k = match m.get k with | some e => (f k e).builder | none => none := by
  unfold busBuilder; rw [h]; cases m.get k <;> rfl
theorem busBuilder_map_same {m m' : AMap BusE} {f : Nat → BusE → BusE} (h : ∀ k, m'.get k = (m.get k).map (f k))
    (hp : ∀ k e, (f k e).builder = e.builder) : busBuilder m' = busBuilder m := by
  funext k; unfold busBuilder; rw [h]; cases m.get k <;> simp [hp]

theorem busNodeInts_map {m m' : AMap BusE} {f : Nat → BusE → BusE} (h : ∀ k, m'.get k = (m.get k).map (f k)) (k : Nat) :
    busNodeInts m' k = match m.get k with | some e => (f k e).nodeInts | none => [] := by
  unfold busNodeInts; rw [h]; cases m.get k <;> rfl
theorem busNodeInts_map_same {m m' : AMap BusE} {f : Nat → BusE → BusE} (h : ∀ k, m'.get k = (m.get k).map (f k))
    (hp : ∀ k e, (f k e).nodeInts = e.nodeInts) : busNodeInts m' = busNodeInts m := by
  funext k; unfold busNodeInts; rw [h]; cases m.get k <;> simp [hp]

theorem busNodeNames_map {m m' : AMap BusE} {f : Nat → BusE → BusE} (h : ∀ k, m'.get k = (m.get k).map (f k)) (k : Nat) :
    busNodeNames m' k = match m.get k with | some e => (f k e).nodeNames | none => [] := by
  unfold busNodeNames; rw [h]; cases m.get k <;> rfl
theorem busNodeNames_map_same {m m' : AMap BusE} {f : Nat → BusE → BusE} (h : ∀ k, m'.get k = (m.get k).map (f k))
    (hp : ∀ k e, (f k e).nodeNames = e.nodeNames) : busNodeNames m' = busNodeNames m := by
  funext k; unfold busNodeNames; rw [h]; cases m.get k <;> simp [hp]

theorem busNodeIDs_map {m m' : AMap BusE} {f : Nat → BusE → BusE} (h : ∀ k, m'.get k = (m.get k).map (f k)) (k : Nat) :
    busNodeIDs m' k = match m.get k with | some e => (f k e).nodeIDs | none => [] := by
  unfold busNodeIDs; rw [h]; cases m.get k <;> rfl
theorem busNodeIDs_map_same {m m' : AMap BusE} {f : Nat → BusE → BusE} (h : ∀ k, m'.get k = (m.get k).map (f k))
    (hp : ∀ k e, (f k e).nodeIDs = e.nodeIDs) : busNodeIDs m' = busNodeIDs m := by
  funext k; unfold busNodeIDs; rw [h]; cases m.get k <;> simp [hp]

theorem busStaticIDs_map {m m' : AMap BusE} {f : Nat → BusE → BusE} (h : ∀ k, m'.get k = (m.get k).map (f k)) (k : Nat) :
    busStaticIDs m' k = match m.get k with | some e => (f k e).staticIDs | none => [] := by
  unfold busStaticIDs; rw [h]; cases m.get k <;> rfl
theorem busStaticIDs_map_same {m m' : AMap BusE} {f : Nat → BusE → BusE} (h : ∀ k, m'.get k = (m.get k).map (f k))
    (hp : ∀ k e, (f k e).staticIDs = e.staticIDs) : busStaticIDs m' = busStaticIDs m := by
  funext k; unfold busStaticIDs; rw [h]; cases m.get k <;> simp [hp]

theorem busAttrs_map {m m' : AMap BusE} {f : Nat → BusE → BusE} (h : ∀ k, m'.get k = (m.get k).map (f k)) (k : Nat) :
    busAttrs m' k = match m.get k with | some e => (f k e).attrs | none => [] := by
  unfold busAttrs; rw [h]; cases m.get k <;> rfl
theorem busAttrs_map_same {m m' : AMap BusE} {f : Nat → BusE → BusE} (h : ∀ k, m'.get k = (m.get k).map (f k))
    (hp : ∀ k e, (f k e).attrs = e.attrs) : busAttrs m' = busAttrs m := by
  funext k; unfold busAttrs; rw [h]; cases m.get k <;> simp [hp]

theorem nodeNameC_map {m m' : AMap NodeE} {f : Nat → NodeE → NodeE} (h : ∀ k, m'.get k = (m.get k).map (f k)) (k : Nat) :
    nodeNameC m' k = match m.get k with | some e => (f k e).name | none => "" := by
  unfold nodeNameC; rw [h]; cases m.get k <;> rfl
theorem nodeNameC_map_same {m m' : AMap NodeE} {f : Nat → NodeE → NodeE} (h : ∀ k, m'.get k = (m.get k).map (f k))
    (hp : ∀ k e, (f k e).name = e.name) : nodeNameC m' = nodeNameC m := by
  funext k; unfold nodeNameC; rw [h]; cases m.get k <;> simp [hp]

theorem nodeNidC_map {m m' : AMap NodeE} {f : Nat → NodeE → NodeE} (h : ∀ k, m'.get k = (m.get k).map (f k)) (k : Nat) :
    nodeNidC m' k = match m.get k with | some e => (f k e).nid | none => 0 := by
  unfold nodeNidC; rw [h]; cases m.get k <;> rfl
theorem nodeNidC_map_same {m m' : AMap NodeE} {f : Nat → NodeE → NodeE} (h : ∀ k, m'.get k = (m.get k).map (f k))
    (hp : ∀ k e, (f k e).nid = e.nid) : nodeNidC m' = nodeNidC m := by
  funext k; unfold nodeNidC; rw [h]; cases m.get k <;> simp [hp]

theorem nodeIfaces_map {m m' : AMap NodeE} {f : Nat → NodeE → NodeE} (h : ∀ k, m'.get k = (m.get k).map (f k)) (k : Nat) :
    nodeIfaces m' k = match m.get k with | some e => (f k e).ifaces | none => [] := by
  unfold nodeIfaces; rw [h]; cases m.get k <;> rfl
theorem nodeIfaces_map_same {m m' : AMap NodeE} {f : Nat → NodeE → NodeE} (h : ∀ k, m'.get k = (m.get k).map (f k))
    (hp : ∀ k e, (f k e).ifaces = e.ifaces) : nodeIfaces m' = nodeIfaces m := by
  funext k; unfold nodeIfaces; rw [h]; cases m.get k <;> simp [hp]

theorem nodeIfaceCount_map {m m' : AMap NodeE} {f : Nat → NodeE → NodeE} (h : ∀ k, m'.get k = (m.get k).map (f k)) (k : Nat) :
    nodeIfaceCount m' k = match m.get k with | some e => (f k e).ifaceCount | none => 0 := by
  unfold nodeIfaceCount; rw [h]; cases m.get k <;> rfl
theorem nodeIfaceCount_map_same {m m' : AMap NodeE} {f : Nat → NodeE → NodeE} (h : ∀ k, m'.get k = (m.get k).map (f k))
    (hp : ∀ k e, (f k e).ifaceCount = e.ifaceCount) : nodeIfaceCount m' = nodeIfaceCount m := by
  funext k; unfold nodeIfaceCount; rw [h]; cases m.get k <;> simp [hp]

theorem nodeAttrs_map {m m' : AMap NodeE} {f : Nat → NodeE → NodeE} (h : ∀ k, m'.get k = (m.get k).map (f k)) (k : Nat) :
    nodeAttrs m' k = match m.get k with | some e => (f k e).attrs | none => [] := by
  unfold nodeAttrs; rw [h]; cases m.get k <;> rfl
theorem nodeAttrs_map_same {m m' : AMap NodeE} {f : Nat → NodeE → NodeE} (h : ∀ k, m'.get k = (m.get k).map (f k))
    (hp : ∀ k e, (f k e).attrs = e.attrs) : nodeAttrs m' = nodeAttrs m := by
  funext k; unfold nodeAttrs; rw [h]; cases m.get k <;> simp [hp]

theorem ifaceNode_map {m m' : AMap IfaceE} {f : Nat → IfaceE → IfaceE} (h : ∀ k, m'.get k = (m.get k).map (f k)) (k : Nat) :
    ifaceNode m' k = match m.get k with | some e => some (f k e).node | none => none := by
  unfold ifaceNode; rw [h]; cases m.get k <;> rfl
theorem ifaceNode_map_same {m m' : AMap IfaceE} {f : Nat → IfaceE → IfaceE} (h : ∀ k, m'.get k = (m.get k).map (f k))
    (hp : ∀ k e, (f k e).node = e.node) : ifaceNode m' = ifaceNode m := by
  funext k; unfold ifaceNode; rw [h]; cases m.get k <;> simp [hp]

theorem ifaceNumber_map {m m' : AMap IfaceE} {f : Nat → IfaceE → IfaceE} (h : ∀ k, m'.get k = (m.get k).map (f k)) (k : Nat) :
    ifaceNumber m' k = match m.get k with | some e => (f k e).number | none => 0 := by
  unfold ifaceNumber; rw [h]; cases m.get k <;> rfl
theorem ifaceNumber_map_same {m m' : AMap IfaceE} {f : Nat → IfaceE → IfaceE} (h : ∀ k, m'.get k = (m.get k).map (f k))
    (hp : ∀ k e, (f k e).number = e.number) : ifaceNumber m' = ifaceNumber m := by
  funext k; unfold ifaceNumber; rw [h]; cases m.get k <;> simp [hp]

theorem ifaceBus_map {m m' : AMap IfaceE} {f : Nat → IfaceE → IfaceE} (h : ∀ k, m'.get k = (m.get k).map (f k)) (k : Nat) :
    ifaceBus m' k = match m.get k with | some e => (f k e).parentBus | none => none := by
  unfold ifaceBus; rw [h]; cases m.get k <;> rfl
theorem ifaceBus_map_same {m m' : AMap IfaceE} {f : Nat → IfaceE → IfaceE} (h : ∀ k, m'.get k = (m.get k).map (f k))
    (hp : ∀ k e, (f k e).parentBus = e.parentBus) : ifaceBus m' = ifaceBus m := by
  funext k; unfold ifaceBus; rw [h]; cases m.get k <;> simp [hp]

theorem ifaceSent_map {m m' : AMap IfaceE} {f : Nat → IfaceE → IfaceE} (h : ∀ k, m'.get k = (m.get k).map (f k)) (k : Nat) :
    ifaceSent m' k = match m.get k with | some e => (f k e).sent | none => [] := by
  unfold ifaceSent; rw [h]; cases m.get k <;> rfl
theorem ifaceSent_map_same {m m' : AMap IfaceE} {f : Nat → IfaceE → IfaceE} (h : ∀ k, m'.get k = (m.get k).map (f k))
    (hp : ∀ k e, (f k e).sent = e.sent) : ifaceSent m' = ifaceSent m := by
  funext k; unfold ifaceSent; rw [h]; cases m.get k <;> simp [hp]

theorem ifaceSentNames_map {m m' : AMap IfaceE} {f : Nat → IfaceE → IfaceE} (h : ∀ k, m'.get k = (m.get k).map (f k)) (k : Nat) :
    ifaceSentNames m' k = match m.get k with | some e => (f k e).sentNames | none => [] := by
  unfold ifaceSentNames; rw [h]; cases m.get k <;> rfl
theorem ifaceSentNames_map_same {m m' : AMap IfaceE} {f : Nat → IfaceE → IfaceE} (h : ∀ k, m'.get k = (m.get k).map (f k))
    (hp : ∀ k e, (f k e).sentNames = e.sentNames) : ifaceSentNames m' = ifaceSentNames m := by
  funext k; unfold ifaceSentNames; rw [h]; cases m.get k <;> simp [hp]

theorem ifaceSentIDs_map {m m' : AMap IfaceE} {f : Nat → IfaceE → IfaceE} (h : ∀ k, m'.get k = (m.get k).map (f k)) (k : Nat) :
    ifaceSentIDs m' k = match m.get k with | some e => (f k e).sentIDs | none => [] := by
  unfold ifaceSentIDs; rw [h]; cases m.get k <;> rfl
theorem ifaceSentIDs_map_same {m m' : AMap IfaceE} {f : Nat → IfaceE → IfaceE} (h : ∀ k, m'.get k = (m.get k).map (f k))
    (hp : ∀ k e, (f k e).sentIDs = e.sentIDs) : ifaceSentIDs m' = ifaceSentIDs m := by
  funext k; unfold ifaceSentIDs; rw [h]; cases m.get k <;> simp [hp]

theorem ifaceSentStatic_map {m m' : AMap IfaceE} {f : Nat → IfaceE → IfaceE} (h : ∀ k, m'.get k = (m.get k).map (f k)) (k : Nat) :
    ifaceSentStatic m' k = match m.get k with | some e => (f k e).sentStatic | none => [] := by
  unfold ifaceSentStatic; rw [h]; cases m.get k <;> rfl
theorem ifaceSentStatic_map_same {m m' : AMap IfaceE} {f : Nat → IfaceE → IfaceE} (h : ∀ k, m'.get k = (m.get k).map (f k))
    (hp : ∀ k e, (f k e).sentStatic = e.sentStatic) : ifaceSentStatic m' = ifaceSentStatic m := by
  funext k; unfold ifaceSentStatic; rw [h]; cases m.get k <;> simp [hp]

theorem ifaceRecv_map {m m' : AMap IfaceE} {f : Nat → IfaceE → IfaceE} (h : ∀ k, m'.get k = (m.get k).map (f k)) (k : Nat) :
    ifaceRecv m' k = match m.get k with | some e => (f k e).received | none => [] := by
  unfold ifaceRecv; rw [h]; cases m.get k <;> rfl
theorem ifaceRecv_map_same {m m' : AMap IfaceE} {f : Nat → IfaceE → IfaceE} (h : ∀ k, m'.get k = (m.get k).map (f k))
    (hp : ∀ k e, (f k e).received = e.received) : ifaceRecv m' = ifaceRecv m := by
  funext k; unfold ifaceRecv; rw [h]; cases m.get k <;> simp [hp]

theorem msgName_map {m m' : AMap MsgE} {f : Nat → MsgE → MsgE} (h : ∀ k, m'.get k = (m.get k).map (f k)) (k : Nat) :
    msgName m' k = match m.get k with | some e => some (f k e).name | none => none := by
  unfold msgName; rw [h]; cases m.get k <;> rfl
theorem msgName_map_same {m m' : AMap MsgE} {f : Nat → MsgE → MsgE} (h : ∀ k, m'.get k = (m.get k).map (f k))
    (hp : ∀ k e, (f k e).name = e.name) : msgName m' = msgName m := by
  funext k; unfold msgName; rw [h]; cases m.get k <;> simp [hp]

theorem msgMid_map {m m' : AMap MsgE} {f : Nat → MsgE → MsgE} (h : ∀ k, m'.get k = (m.get k).map (f k)) (k : Nat) :
    msgMid m' k = match m.get k with | some e => some (f k e).mid | none => none := by
  unfold msgMid; rw [h]; cases m.get k <;> rfl
theorem msgMid_map_same {m m' : AMap MsgE} {f : Nat → MsgE → MsgE} (h : ∀ k, m'.get k = (m.get k).map (f k))
    (hp : ∀ k e, (f k e).mid = e.mid) : msgMid m' = msgMid m := by
  funext k; unfold msgMid; rw [h]; cases m.get k <;> simp [hp]

theorem msgStatic_map {m m' : AMap MsgE} {f : Nat → MsgE → MsgE} (h : ∀ k, m'.get k = (m.get k).map (f k)) (k : Nat) :
    msgStatic m' k = match m.get k with | some e => (f k e).static | none => none := by
  unfold msgStatic; rw [h]; cases m.get k <;> rfl
theorem msgStatic_map_same {m m' : AMap MsgE} {f : Nat → MsgE → MsgE} (h : ∀ k, m'.get k = (m.get k).map (f k))
    (hp : ∀ k e, (f k e).static = e.static) : msgStatic m' = msgStatic m := by
  funext k; unfold msgStatic; rw [h]; cases m.get k <;> simp [hp]

theorem msgSender_map {m m' : AMap MsgE} {f : Nat → MsgE → MsgE} (h : ∀ k, m'.get k = (m.get k).map (f k)) (k : Nat) :
    msgSender m' k = match m.get k with | some e => (f k e).sender | none => none := by
  unfold msgSender; rw [h]; cases m.get k <;> rfl
theorem msgSender_map_same {m m' : AMap MsgE} {f : Nat → MsgE → MsgE} (h : ∀ k, m'.get k = (m.get k).map (f k))
    (hp : ∀ k e, (f k e).sender = e.sender) : msgSender m' = msgSender m := by
  funext k; unfold msgSender; rw [h]; cases m.get k <;> simp [hp]

theorem msgReceivers_map {m m' : AMap MsgE} {f : Nat → MsgE → MsgE} (h : ∀ k, m'.get k = (m.get k).map (f k)) (k : Nat) :
    msgReceivers m' k = match m.get k with | some e => (f k e).receivers | none => [] := by
  unfold msgReceivers; rw [h]; cases m.get k <;> rfl
theorem msgReceivers_map_same {m m' : AMap MsgE} {f : Nat → MsgE → MsgE} (h : ∀ k, m'.get k = (m.get k).map (f k))
    (hp : ∀ k e, (f k e).receivers = e.receivers) : msgReceivers m' = msgReceivers m := by
  funext k; unfold msgReceivers; rw [h]; cases m.get k <;> simp [hp]

theorem msgAttrs_map {m m' : AMap MsgE} {f : Nat → MsgE → MsgE} (h : ∀ k, m'.get k = (m.get k).map (f k)) (k : Nat) :
    msgAttrs m' k = match m.get k with | some e => (f k e).attrs | none => [] := by
  unfold msgAttrs; rw [h]; cases m.get k <;> rfl
theorem msgAttrs_map_same {m m' : AMap MsgE} {f : Nat → MsgE → MsgE} (h : ∀ k, m'.get k = (m.get k).map (f k))
    (hp : ∀ k e, (f k e).attrs = e.attrs) : msgAttrs m' = msgAttrs m := by
  funext k; unfold msgAttrs; rw [h]; cases m.get k <;> simp [hp]

theorem builderRefs_map {m m' : AMap BuilderE} {f : Nat → BuilderE → BuilderE} (h : ∀ k, m'.get k = (m.get k).map (f k)) (k : Nat) :
    builderRefs m' k = match m.get k with | some e => (f k e).refs | none => [] := by
  unfold builderRefs; rw [h]; cases m.get k <;> rfl
theorem builderRefs_map_same {m m' : AMap BuilderE} {f : Nat → BuilderE → BuilderE} (h : ∀ k, m'.get k = (m.get k).map (f k))
    (hp : ∀ k e, (f k e).refs = e.refs) : builderRefs m' = builderRefs m := by
  funext k; unfold builderRefs; rw [h]; cases m.get k <;> simp [hp]

theorem attrRefs_map {m m' : AMap AttrE} {f : Nat → AttrE → AttrE} (h : ∀ k, m'.get k = (m.get k).map (f k)) (k : Nat) :
    attrRefs m' k = match m.get k with | some e => (f k e).refs | none => [] := by
  unfold attrRefs; rw [h]; cases m.get k <;> rfl
theorem attrRefs_map_same {m m' : AMap AttrE} {f : Nat → AttrE → AttrE} (h : ∀ k, m'.get k = (m.get k).map (f k))
    (hp : ∀ k e, (f k e).refs = e.refs) : attrRefs m' = attrRefs m := by
  funext k; unfold attrRefs; rw [h]; cases m.get k <;> simp [hp]

theorem defRefs_map {m m' : AMap DefE} {f : Nat → DefE → DefE} (h : ∀ k, m'.get k = (m.get k).map (f k)) (k : Nat) :
    defRefs m' k = match m.get k with | some e => (f k e).refs | none => [] := by
  unfold defRefs; rw [h]; cases m.get k <;> rfl
theorem defRefs_map_same {m m' : AMap DefE} {f : Nat → DefE → DefE} (h : ∀ k, m'.get k = (m.get k).map (f k))
    (hp : ∀ k e, (f k e).refs = e.refs) : defRefs m' = defRefs m := by
  funext k; unfold defRefs; rw [h]; cases m.get k <;> simp [hp]

theorem sigTyp_map {m m' : AMap SigE} {f : Nat → SigE → SigE} (h : ∀ k, m'.get k = (m.get k).map (f k)) (k : Nat) :
    sigTyp m' k = match m.get k with | some e => some (f k e).typ | none => none := by
  unfold sigTyp; rw [h]; cases m.get k <;> rfl
theorem sigTyp_map_same {m m' : AMap SigE} {f : Nat → SigE → SigE} (h : ∀ k, m'.get k = (m.get k).map (f k))
    (hp : ∀ k e, (f k e).typ = e.typ) : sigTyp m' = sigTyp m := by
  funext k; unfold sigTyp; rw [h]; cases m.get k <;> simp [hp]

theorem sigUnit_map {m m' : AMap SigE} {f : Nat → SigE → SigE} (h : ∀ k, m'.get k = (m.get k).map (f k)) (k : Nat) :
    sigUnit m' k = match m.get k with | some e => (f k e).unit | none => none := by
  unfold sigUnit; rw [h]; cases m.get k <;> rfl
theorem sigUnit_map_same {m m' : AMap SigE} {f : Nat → SigE → SigE} (h : ∀ k, m'.get k = (m.get k).map (f k))
    (hp : ∀ k e, (f k e).unit = e.unit) : sigUnit m' = sigUnit m := by
  funext k; unfold sigUnit; rw [h]; cases m.get k <;> simp [hp]

theorem sigAttrs_map {m m' : AMap SigE} {f : Nat → SigE → SigE} (h : ∀ k, m'.get k = (m.get k).map (f k)) (k : Nat) :
    sigAttrs m' k = match m.get k with | some e => (f k e).attrs | none => [] := by
  unfold sigAttrs; rw [h]; cases m.get k <;> rfl
theorem sigAttrs_map_same {m m' : AMap SigE} {f : Nat → SigE → SigE} (h : ∀ k, m'.get k = (m.get k).map (f k))
    (hp : ∀ k e, (f k e).attrs = e.attrs) : sigAttrs m' = sigAttrs m := by
  funext k; unfold sigAttrs; rw [h]; cases m.get k <;> simp [hp]


/-! ### `mapAt`: the common shape of the `clear…` / `drop…` / `rename…` helpers -/

def mapAt {α : Type} (m : AMap α) (f : α → α) : List Nat → AMap α
  | [] => m
  | k :: rest =>
    match m.get k with
    | some e => mapAt (m.set k (f e)) f rest
    | none => mapAt m f rest

theorem mapAt_get {α : Type} (f : α → α) (l : List Nat) (m : AMap α)
    (hl : l.Nodup ∨ ∀ e, f (f e) = f e) (k : Nat) :
    (mapAt m f l).get k = (m.get k).map (fun e => if k ∈ l then f e else e) := by
  induction l generalizing m with
  | nil => simp [mapAt]
  | cons a rest ih =>
    have hl' : rest.Nodup ∨ ∀ e, f (f e) = f e := by
      rcases hl with h | h
      · exact Or.inl (List.nodup_cons.1 h).2
      · exact Or.inr h
    unfold mapAt
    cases hma : m.get a with
    | none =>
      simp only
      rw [ih m hl']
      by_cases hk : k = a
      · subst hk; simp [hma]
      · simp [hk]
    | some e =>
      simp only
      rw [ih _ hl', AMap.get_set]
      by_cases hk : k = a
      · subst hk
        simp only [↓reduceIte, Option.map_some, hma, List.mem_cons, true_or]
        by_cases hr : k ∈ rest
        · rcases hl with h | h
          · exact absurd hr (List.nodup_cons.1 h).1
          · simp [hr, h]
        · simp [hr]
      · simp [hk]

theorem clearBusParents_eq (B : AMap BusE) (l : List Nat) :
    clearBusParents B l = mapAt B (fun e => { e with parent := none }) l := by
  induction l generalizing B with
  | nil => rfl
  | cons a rest ih => unfold clearBusParents mapAt; cases B.get a <;> simp [ih]

theorem clearIfaceBus_eq (I : AMap IfaceE) (l : List Nat) :
    clearIfaceBus I l = mapAt I (fun e => { e with parentBus := none }) l := by
  induction l generalizing I with
  | nil => rfl
  | cons a rest ih => unfold clearIfaceBus mapAt; cases I.get a <;> simp [ih]

theorem clearSenders_eq (M : AMap MsgE) (l : List Nat) :
    clearSenders M l = mapAt M (fun e => { e with sender := none }) l := by
  induction l generalizing M with
  | nil => rfl
  | cons a rest ih => unfold clearSenders mapAt; cases M.get a <;> simp [ih]

theorem dropReceiver_eq (M : AMap MsgE) (nd : Nat) (l : List Nat) :
    dropReceiver M nd l = mapAt M (fun e => { e with receivers := e.receivers.remove nd }) l := by
  induction l generalizing M with
  | nil => rfl
  | cons a rest ih => unfold dropReceiver mapAt; cases M.get a <;> simp [ih]

theorem dropAttrRefs_eq (A : AMap AttrE) (x : Nat) (l : List Nat) :
    dropAttrRefs A x l = mapAt A (fun e => { e with refs := eraseRef e.refs x }) l := by
  induction l generalizing A with
  | nil => rfl
  | cons a rest ih => unfold dropAttrRefs mapAt; cases A.get a <;> simp [ih]

theorem renameNodeInBuses_eq (B : AMap BusE) (old new : String) (n : Nat) (l : List Nat) :
    renameNodeInBuses B old new n l =
      mapAt B (fun e => { e with nodeNames := (e.nodeNames.remove old).add new n }) l := by
  induction l generalizing B with
  | nil => rfl
  | cons a rest ih => unfold renameNodeInBuses mapAt; cases B.get a <;> simp [ih]

theorem renumberNodeInBuses_eq (B : AMap BusE) (old new : Nat) (n : Nat) (l : List Nat) :
    renumberNodeInBuses B old new n l =
      mapAt B (fun e => { e with nodeIDs := (e.nodeIDs.remove old).add new n }) l := by
  induction l generalizing B with
  | nil => rfl
  | cons a rest ih => unfold renumberNodeInBuses mapAt; cases B.get a <;> simp [ih]

theorem remove_remove {κ : Type} [DecidableEq κ] (r : Reg κ) (k : κ) : (r.remove k).remove k = r.remove k := by
  unfold Reg.remove; rw [List.filter_filter]; simp

theorem eraseRef_eraseRef (l : List Nat) (x : Nat) : eraseRef (eraseRef l x) x = eraseRef l x := by
  unfold eraseRef; rw [List.filter_filter]; simp

theorem clearBusParents_get (B : AMap BusE) (l : List Nat) (k : Nat) :
    (clearBusParents B l).get k = (B.get k).map (fun e => if k ∈ l then { e with parent := none } else e) := by
  rw [clearBusParents_eq, mapAt_get (fun e : BusE => { e with parent := none }) _ _ (Or.inr (fun _ => rfl))]

theorem clearIfaceBus_get (I : AMap IfaceE) (l : List Nat) (k : Nat) :
    (clearIfaceBus I l).get k = (I.get k).map (fun e => if k ∈ l then { e with parentBus := none } else e) := by
  rw [clearIfaceBus_eq, mapAt_get (fun e : IfaceE => { e with parentBus := none }) _ _ (Or.inr (fun _ => rfl))]

theorem clearSenders_get (M : AMap MsgE) (l : List Nat) (k : Nat) :
    (clearSenders M l).get k = (M.get k).map (fun e => if k ∈ l then { e with sender := none } else e) := by
  rw [clearSenders_eq, mapAt_get (fun e : MsgE => { e with sender := none }) _ _ (Or.inr (fun _ => rfl))]

theorem dropReceiver_get (M : AMap MsgE) (nd : Nat) (l : List Nat) (k : Nat) :
    (dropReceiver M nd l).get k =
      (M.get k).map (fun e => if k ∈ l then { e with receivers := e.receivers.remove nd } else e) := by
  rw [dropReceiver_eq, mapAt_get _ _ _ (Or.inr (fun e => by simp [remove_remove]))]

theorem dropAttrRefs_get (A : AMap AttrE) (x : Nat) (l : List Nat) (k : Nat) :
    (dropAttrRefs A x l).get k =
      (A.get k).map (fun e => if k ∈ l then { e with refs := eraseRef e.refs x } else e) := by
  rw [dropAttrRefs_eq, mapAt_get _ _ _ (Or.inr (fun e => by simp [eraseRef_eraseRef]))]

theorem renameNodeInBuses_get (B : AMap BusE) (old new : String) (n : Nat) (l : List Nat) (hl : l.Nodup) (k : Nat) :
    (renameNodeInBuses B old new n l).get k =
      (B.get k).map (fun e => if k ∈ l then { e with nodeNames := (e.nodeNames.remove old).add new n } else e) := by
  rw [renameNodeInBuses_eq, mapAt_get _ _ _ (Or.inl hl)]

theorem renumberNodeInBuses_get (B : AMap BusE) (old new : Nat) (n : Nat) (l : List Nat) (hl : l.Nodup) (k : Nat) :
    (renumberNodeInBuses B old new n l).get k =
      (B.get k).map (fun e => if k ∈ l then { e with nodeIDs := (e.nodeIDs.remove old).add new n } else e) := by
  rw [renumberNodeInBuses_eq, mapAt_get _ _ _ (Or.inl hl)]

/-- `renumber`: the listed interfaces (distinct) whose number is above `k` move down by one -/
theorem renumber_get (I : AMap IfaceE) (k : Int) (l : List Nat) (hl : l.Nodup) (j : Nat) :
    (renumber I k l).get j =
      (I.get j).map (fun e => if j ∈ l ∧ e.number > k then { e with number := e.number - 1 } else e) := by
  induction l generalizing I with
  | nil => simp [renumber]
  | cons a rest ih =>
    have hn := List.nodup_cons.1 hl
    unfold renumber
    cases hIa : I.get a with
    | none =>
      simp only
      rw [ih I hn.2]
      by_cases hj : j = a
      · subst hj; simp [hIa]
      · simp [hj]
    | some e =>
      simp only
      by_cases hgt : e.number > k
      · simp only [hgt, ↓reduceIte]
        rw [ih _ hn.2, AMap.get_set]
        by_cases hj : j = a
        · subst hj; simp [hIa, hn.1, hgt]
        · simp [hj]
      · simp only [hgt, ↓reduceIte]
        rw [ih I hn.2]
        by_cases hj : j = a
        · subst hj; simp [hIa, hn.1, hgt]
        · simp [hj]

/-- `newIfaces`: fresh records, numbered from `s` in list order -/
theorem newIfaces_get_not_mem (I : AMap IfaceE) (n s : Nat) (l : List Nat) (j : Nat) (hj : j ∉ l) :
    (newIfaces I n s l).get j = I.get j := by
  induction l generalizing I s with
  | nil => rfl
  | cons a rest ih =>
    rw [List.mem_cons, not_or] at hj
    unfold newIfaces
    rw [ih _ _ hj.2, AMap.get_set]; simp [hj.1]

theorem newIfaces_get_idx (I : AMap IfaceE) (n s : Nat) (l : List Nat) (hl : l.Nodup) (k : Nat) (j : Nat)
    (hk : l[k]? = some j) :
    (newIfaces I n s l).get j = some { node := n, number := ((s + k : Nat) : Int) } := by
  induction l generalizing I s k with
  | nil => simp at hk
  | cons a rest ih =>
    have hn := List.nodup_cons.1 hl
    unfold newIfaces
    cases k with
    | zero =>
      simp only [List.getElem?_cons_zero, Option.some.injEq] at hk
      subst hk
      rw [newIfaces_get_not_mem _ _ _ _ _ hn.1, AMap.get_set]; simp
    | succ k =>
      simp only [List.getElem?_cons_succ] at hk
      rw [ih _ _ hn.2 k hk]
      congr 2; omega

theorem newIfaces_get_mem (I : AMap IfaceE) (n s : Nat) (l : List Nat) (hl : l.Nodup) (j : Nat) (hj : j ∈ l) :
    ∃ k, l[k]? = some j ∧ (newIfaces I n s l).get j = some { node := n, number := ((s + k : Nat) : Int) } := by
  obtain ⟨k, hk⟩ := List.getElem?_of_mem hj
  exact ⟨k, hk, newIfaces_get_idx I n s l hl k j hk⟩

section newIfacesViews
variable (I : AMap IfaceE) (n s : Nat) (l : List Nat) (hl : l.Nodup) (j : Nat)

theorem newIfaces_get_none (hl : l.Nodup) : (newIfaces I n s l).get j = none ↔ (j ∉ l ∧ I.get j = none) := by
  by_cases hj : j ∈ l
  · obtain ⟨k, _, hk⟩ := newIfaces_get_mem I n s l hl j hj
    simp [hk, hj]
  · rw [newIfaces_get_not_mem I n s l j hj]; simp [hj]

theorem newIfaces_ifaceNode (hl : l.Nodup) :
    ifaceNode (newIfaces I n s l) j = if j ∈ l then some n else ifaceNode I j := by
  by_cases hj : j ∈ l
  · obtain ⟨k, _, hk⟩ := newIfaces_get_mem I n s l hl j hj
    simp [hj, ifaceNode_of_get hk]
  · unfold ifaceNode; rw [newIfaces_get_not_mem I n s l j hj]; simp [hj]

theorem newIfaces_ifaceBus (hl : l.Nodup) :
    ifaceBus (newIfaces I n s l) j = if j ∈ l then none else ifaceBus I j := by
  by_cases hj : j ∈ l
  · obtain ⟨k, _, hk⟩ := newIfaces_get_mem I n s l hl j hj
    simp [hj, ifaceBus_of_get hk]
  · unfold ifaceBus; rw [newIfaces_get_not_mem I n s l j hj]; simp [hj]

theorem newIfaces_ifaceSent (hl : l.Nodup) :
    ifaceSent (newIfaces I n s l) j = if j ∈ l then [] else ifaceSent I j := by
  by_cases hj : j ∈ l
  · obtain ⟨k, _, hk⟩ := newIfaces_get_mem I n s l hl j hj
    simp [hj, ifaceSent_of_get hk]
  · unfold ifaceSent; rw [newIfaces_get_not_mem I n s l j hj]; simp [hj]

theorem newIfaces_ifaceSentNames (hl : l.Nodup) :
    ifaceSentNames (newIfaces I n s l) j = if j ∈ l then [] else ifaceSentNames I j := by
  by_cases hj : j ∈ l
  · obtain ⟨k, _, hk⟩ := newIfaces_get_mem I n s l hl j hj
    simp [hj, ifaceSentNames_of_get hk]
  · unfold ifaceSentNames; rw [newIfaces_get_not_mem I n s l j hj]; simp [hj]

theorem newIfaces_ifaceSentIDs (hl : l.Nodup) :
    ifaceSentIDs (newIfaces I n s l) j = if j ∈ l then [] else ifaceSentIDs I j := by
  by_cases hj : j ∈ l
  · obtain ⟨k, _, hk⟩ := newIfaces_get_mem I n s l hl j hj
    simp [hj, ifaceSentIDs_of_get hk]
  · unfold ifaceSentIDs; rw [newIfaces_get_not_mem I n s l j hj]; simp [hj]

theorem newIfaces_ifaceSentStatic (hl : l.Nodup) :
    ifaceSentStatic (newIfaces I n s l) j = if j ∈ l then [] else ifaceSentStatic I j := by
  by_cases hj : j ∈ l
  · obtain ⟨k, _, hk⟩ := newIfaces_get_mem I n s l hl j hj
    simp [hj, ifaceSentStatic_of_get hk]
  · unfold ifaceSentStatic; rw [newIfaces_get_not_mem I n s l j hj]; simp [hj]

theorem newIfaces_ifaceRecv (hl : l.Nodup) :
    ifaceRecv (newIfaces I n s l) j = if j ∈ l then [] else ifaceRecv I j := by
  by_cases hj : j ∈ l
  · obtain ⟨k, _, hk⟩ := newIfaces_get_mem I n s l hl j hj
    simp [hj, ifaceRecv_of_get hk]
  · unfold ifaceRecv; rw [newIfaces_get_not_mem I n s l j hj]; simp [hj]

theorem newIfaces_ifaceNumber_idx (hl : l.Nodup) (k : Nat) (hk : l[k]? = some j) :
    ifaceNumber (newIfaces I n s l) j = ((s + k : Nat) : Int) := by
  rw [ifaceNumber_of_get (newIfaces_get_idx I n s l hl k j hk)]

theorem newIfaces_ifaceNumber_not_mem (hj : j ∉ l) :
    ifaceNumber (newIfaces I n s l) j = ifaceNumber I j := by
  unfold ifaceNumber; rw [newIfaces_get_not_mem I n s l j hj]

end newIfacesViews

/-! ### `updStatic`, `dropBuilderRef`, `dropDefRef` -/

theorem updStatic_get (B : AMap BusE) (pb : Option Nat) (f : Reg Nat → Reg Nat) (k : Nat) :
    (updStatic B pb f).get k =
      (B.get k).map (fun e => if pb = some k then { e with staticIDs := f e.staticIDs } else e) := by
  unfold updStatic
  cases pb with
  | none => simp
  | some b =>
    simp only [Option.some.injEq]
    cases hb : B.get b with
    | none =>
      simp only
      by_cases hk : b = k
      · subst hk; simp [hb]
      · simp [hk]
    | some bus =>
      simp only [AMap.get_set]
      by_cases hk : k = b
      · subst hk; simp [hb]
      · have : ¬ b = k := fun e => hk e.symm
        simp [hk, this]

theorem dropBuilderRef_get (C : AMap BuilderE) (o : Option Nat) (x : Nat) (k : Nat) :
    (dropBuilderRef C o x).get k =
      (C.get k).map (fun e => if o = some k then { e with refs := eraseRef e.refs x } else e) := by
  unfold dropBuilderRef
  cases o with
  | none => simp
  | some b =>
    simp only [Option.some.injEq]
    cases hb : C.get b with
    | none =>
      simp only
      by_cases hk : b = k
      · subst hk; simp [hb]
      · simp [hk]
    | some bus =>
      simp only [AMap.get_set]
      by_cases hk : k = b
      · subst hk; simp [hb]
      · have : ¬ b = k := fun e => hk e.symm
        simp [hk, this]

theorem dropDefRef_get (T : AMap DefE) (o : Option Nat) (x : Nat) (k : Nat) :
    (dropDefRef T o x).get k =
      (T.get k).map (fun e => if o = some k then { e with refs := eraseRef e.refs x } else e) := by
  unfold dropDefRef
  cases o with
  | none => simp
  | some b =>
    simp only [Option.some.injEq]
    cases hb : T.get b with
    | none =>
      simp only
      by_cases hk : b = k
      · subst hk; simp [hb]
      · simp [hk]
    | some bus =>
      simp only [AMap.get_set]
      by_cases hk : k = b
      · subst hk; simp [hb]
      · have : ¬ b = k := fun e => hk e.symm
        simp [hk, this]

@[simp, grind =] theorem busStaticClash_none (B : AMap BusE) (c : Nat) : busStaticClash B none c = false := rfl
@[simp, grind =] theorem busStaticClash_some (B : AMap BusE) (b c : Nat) :
    busStaticClash B (some b) c = (busStaticIDs B b).has c := by
  unfold busStaticClash busStaticIDs
  cases hb : B.get b <;> simp [hb, Reg.has]

/-! ### `staticOf`, `attachedBuses` -/

theorem mem_staticOf (g : G) (ms : List Nat) (c m : Nat) :
    (c, m) ∈ staticOf g ms ↔ m ∈ ms ∧ msgStatic g.msgs m = some c := by
  unfold staticOf msgStatic
  rw [List.mem_filterMap]
  constructor
  · rintro ⟨a, ha, h⟩
    cases hg : g.msgs.get a with
    | none => simp [hg] at h
    | some e =>
      simp only [hg] at h
      cases hs : e.static with
      | none => simp [hs] at h
      | some c' =>
        simp only [hs, Option.some.injEq, Prod.mk.injEq] at h
        obtain ⟨rfl, rfl⟩ := h
        exact ⟨ha, by simp [hg, hs]⟩
  · rintro ⟨hm, h⟩
    refine ⟨m, hm, ?_⟩
    cases hg : g.msgs.get m with
    | none => simp [hg] at h
    | some e => simp only [hg] at h ⊢; simp [h]

theorem mem_staticOf_keys (g : G) (ms : List Nat) (c : Nat) :
    c ∈ (staticOf g ms).map (·.1) ↔ ∃ m, m ∈ ms ∧ msgStatic g.msgs m = some c := by
  rw [List.mem_map]
  constructor
  · rintro ⟨⟨c', m⟩, hm, rfl⟩; exact ⟨m, (mem_staticOf g ms c' m).1 hm⟩
  · rintro ⟨m, hm⟩; exact ⟨(c, m), (mem_staticOf g ms c m).2 hm, rfl⟩

theorem mem_attachedBuses (g : G) (ifs : List Nat) (b : Nat) :
    b ∈ attachedBuses g ifs ↔ ∃ i, i ∈ ifs ∧ ifaceBus g.ifaces i = some b := by
  unfold attachedBuses ifaceBus
  rw [List.mem_filterMap]
  exact Iff.rfl

end Acme.Graph
