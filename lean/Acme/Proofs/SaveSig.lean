/-
Round trip of a signal tree: `loadSig T (saveSig t s) = ok (normSig t s)`.
-/
import Acme.Proofs.SaveAttr
import Acme.Proofs.SaveMuxLoad

namespace Acme.Save
open List

/-- the tables of the loader (`T`) hold what the tables of the network (`t`) hold -/
structure TRel (t T : Tbl) : Prop where
  attr : AttrRel t T
  types : ∀ id, (findEnt t.types id).isSome = true → (findEnt T.types id).isSome = true
  units : ∀ id, (findEnt t.units id).isSome = true → (findEnt T.units id).isSome = true
  enums : ∀ id, (findEnt t.enums id).isSome = true → (findEnt T.enums id).isSome = true
  node : ∀ id x, t.node id = some x → ∃ y, T.node id = some y ∧ y.ifc = x.ifc
  builder : ∀ id, (t.builder id).isSome = true → (T.builder id).isSome = true

/-! ## the list functions of the mutual blocks as maps -/

theorem saveKids_eq (t : Tbl) (kids : List Kid) :
    saveKids t kids = (kids.map fun k => (k.h, k)).map fun p => (p.1, saveSig t p.2.sig) := by
  induction kids with
  | nil => simp [saveKids]
  | cons k r ih =>
    cases k with
    | mk s pos grp => simp [saveKids, ih, Kid.h, Kid.sig, Kid.pos, Kid.grp]

theorem normKids_eq (t : Tbl) (kids : List Kid) :
    normKids t kids =
      (kids.map fun k => (k.h, k)).map fun p => (p.1, Kid.mk (normSig t p.2.sig) p.2.pos p.2.grp) := by
  induction kids with
  | nil => simp [normKids]
  | cons k r ih =>
    cases k with
    | mk s pos grp => simp [normKids, ih, Kid.h, Kid.sig, Kid.pos, Kid.grp]

theorem kidIds_eq (kids : List Kid) : kidIds kids = kids.map fun k => k.sig.id := by
  induction kids with
  | nil => simp [kidIds]
  | cons k r ih =>
    cases k with
    | mk s pos grp => simp [kidIds, ih, Kid.sig]

theorem kidsWf_iff (t : Tbl) (gc : Nat) (kids : List Kid) :
    kidsWf t gc kids = true ↔ ∀ k ∈ kids, sigWf t k.sig = true ∧ grpWf gc k.grp = true := by
  induction kids with
  | nil => simp [kidsWf]
  | cons k r ih =>
    cases k with
    | mk s pos grp =>
      simp only [kidsWf, Bool.and_eq_true, ih, List.mem_cons, forall_eq_or_imp, Kid.sig, Kid.grp]

theorem kidsInRange_iff (kids : List Kid) :
    kidsInRange kids = true ↔ ∀ k ∈ kids, sigInRange k.sig = true ∧ fits32 k.pos = true := by
  induction kids with
  | nil => simp [kidsInRange]
  | cons k r ih =>
    cases k with
    | mk s pos grp =>
      simp only [kidsInRange, Bool.and_eq_true, ih, List.mem_cons, forall_eq_or_imp, Kid.sig, Kid.pos]

theorem normSig_id (t : Tbl) (s : Sig) : (normSig t s).id = s.id := by
  cases s with
  | mk e asg body => simp [normSig, Sig.id, Sig.e]

theorem saveSig_id (t : Tbl) (s : Sig) : (saveSig t s).id = s.id := by
  cases s with
  | mk e asg body => simp [saveSig, Sig.id, Sig.e, PSig.id, PSig.e]

theorem loadSigs_map {α : Type} (T : Tbl) (g : α → PSig) (h : α → Sig) (l : List α)
    (hl : ∀ x ∈ l, loadSig T (g x) = .ok (h x)) : loadSigs T (l.map g) = .ok (l.map h) := by
  induction l with
  | nil => simp [loadSigs]
  | cons x xs ih =>
    simp only [List.map_cons, loadSigs, hl x (by simp), ih (fun y hy => hl y (by simp [hy]))]

/-! ## the round trip -/

theorem sigKindOf_kindTag (b : Body) : sigKindOf b.kindTag = b.kindTag := by
  cases b <;> rfl

mutual
  theorem loadSig_saveSig {t T : Tbl} (hr : TRel t T) :
      (s : Sig) → sigWf t s = true → sigInRange s = true →
        loadSig T (saveSig t s) = .ok (normSig t s)
    | .mk e asg body, hw, hi => by
      simp only [sigWf, Bool.and_eq_true] at hw
      simp only [sigInRange] at hi
      simp only [saveSig, loadSig, normSig, loadBody_saveBody hr body hw.2 hi,
        loadAsgs_saveAsgs hr.attr e.id asg hw.1]
  theorem loadBody_saveBody {t T : Tbl} (hr : TRel t T) :
      (b : Body) → bodyWf t b = true → bodyInRange b = true →
        loadBody T (sigKindOf b.kindTag) (saveBody t b) = .ok (normBody t b)
    | .std ty un, hw, _ => by
      simp only [bodyWf, Bool.and_eq_true] at hw
      have ht := hr.types ty hw.1
      rw [Option.isSome_iff_ne_none] at ht
      cases un with
      | none =>
        simp [saveBody, loadBody, normBody, sigKindOf, Body.kindTag, ht]
      | some u =>
        simp only [bne_iff_ne, ne_eq, Bool.and_eq_true] at hw
        have hu := hr.units u hw.2.2
        rw [Option.isSome_iff_ne_none] at hu
        simp [saveBody, loadBody, normBody, sigKindOf, Body.kindTag, ht, hw.2.1, hu]
    | .enm en, hw, _ => by
      simp only [bodyWf] at hw
      have ht := hr.enums en hw
      rw [Option.isSome_iff_ne_none] at ht
      simp [saveBody, loadBody, normBody, sigKindOf, Body.kindTag, ht]
    | .mux gc kids, hw, hi => by
      simp only [bodyWf, Bool.and_eq_true, decide_eq_true_eq, nodupB, kidIds_eq] at hw
      simp only [bodyInRange, Bool.and_eq_true] at hi
      obtain ⟨⟨hgc, hkw⟩, hn⟩ := hw
      obtain ⟨hgf, hki⟩ := hi
      have hkids := loadKids_saveKids hr kids gc hkw hki
      rw [kidsWf_iff] at hkw
      rw [kidsInRange_iff] at hki
      have hgc' : (gc == 0) = false := by simpa using Nat.ne_of_gt hgc
      have e1 : saveBody t (.mux gc kids) =
          .mux gc ((muxSignals gc (kids.map fun k => (k.h, k))).map fun k => saveSig t k.sig)
            (muxFixed (kids.map fun k => (k.h, k))) (muxGroups gc (kids.map fun k => (k.h, k))) := by
        rw [saveBody, saveKids_eq, muxSignals_map (fun k : Kid => saveSig t k.sig),
          muxFixed_map (fun k : Kid => saveSig t k.sig), muxGroups_map (fun k : Kid => saveSig t k.sig),
          u32_of_fits hgf]
      have e2 : normBody t (.mux gc kids) =
          .mux gc (dedupLast (fun k => k.sig.id)
            ((muxSignals gc (kids.map fun k => (k.h, k))).map fun k => Kid.mk (normSig t k.sig) k.pos k.grp)) := by
        rw [normBody, normKids_eq, muxSignals_map (fun k : Kid => Kid.mk (normSig t k.sig) k.pos k.grp)]
      have hl : loadSigs T ((muxSignals gc (kids.map fun k => (k.h, k))).map fun k => saveSig t k.sig) =
          .ok ((muxSignals gc (kids.map fun k => (k.h, k))).map fun k => normSig t k.sig) := by
        apply loadSigs_map
        intro k hk
        obtain ⟨p, hp, rfl⟩ := mem_muxSignals hk
        obtain ⟨k', hk', rfl⟩ := List.mem_map.mp hp
        exact hkids k' hk'
      have ha := assembleMux_saved gc kids (fun k => normSig t k.sig) (fun k => normSig_id t k.sig) hgc hn
        (fun k hk => (hkw k hk).2) (fun k hk => (hki k hk).2)
      simp only at ha
      rw [e1, e2]
      simp only [loadBody, sigKindOf, Body.kindTag, hgc', hl, ha]
      simp
  theorem loadKids_saveKids {t T : Tbl} (hr : TRel t T) :
      (ks : List Kid) → (gc : Nat) → kidsWf t gc ks = true → kidsInRange ks = true →
        ∀ k ∈ ks, loadSig T (saveSig t k.sig) = .ok (normSig t k.sig)
    | [], _, _, _ => by simp
    | .mk s pos grp :: r, gc, hw, hi => by
      simp only [kidsWf, Bool.and_eq_true] at hw
      simp only [kidsInRange, Bool.and_eq_true] at hi
      intro k hk
      rcases List.mem_cons.mp hk with rfl | hk
      · exact loadSig_saveSig hr s hw.1.1 hi.1.1
      · exact loadKids_saveKids hr r gc hw.2 hi.2 k hk
end

end Acme.Save
