/-
Round trip of a signal tree: `loadSig T (saveSig t s) = ok (normSig t s)`.
-/
import Acme.Proofs.SaveAttr
import Acme.Proofs.SaveMuxLoad

namespace Acme.Save
open List

/-- the tables of the loader (`T`) hold what the tables of the network (`t`) hold -/
structure TRel (t T : Tbl) : Prop where
  attr : AttrRel t T
  types : ∀ id, (findEnt t.types id).isSome = true → (findEnt T.types id).isSome = true
  units : ∀ id, (findEnt t.units id).isSome = true → (findEnt T.units id).isSome = true
  enums : ∀ id, (findEnt t.enums id).isSome = true → (findEnt T.enums id).isSome = true
  node : ∀ id x, t.node id = some x → ∃ y, T.node id = some y ∧ y.ifc = x.ifc
  builder : ∀ id, (t.builder id).isSome = true → (T.builder id).isSome = true

/-! ## the list functions of the mutual blocks as maps -/

theorem saveKids_eq (t : Tbl) (kids : List Kid) :
    saveKids t kids = (kids.map fun k => (k.h, k)).map fun p => (p.1, saveSig t p.2.sig) := by
  induction kids with
  | nil => simp [saveKids]
  | cons k r ih =>
    cases k with
    | mk s pos grp => simp [saveKids, ih, Kid.h, Kid.sig, Kid.pos, Kid.grp]

theorem normKids_eq (t : Tbl) (kids : List Kid) :
    normKids t kids =
      (kids.map fun k => (k.h, k)).map fun p => (p.1, Kid.mk (normSig t p.2.sig) p.2.pos p.2.grp) := by
  induction kids with
  | nil => simp [normKids]
  | cons k r ih =>
    cases k with
    | mk s pos grp => simp [normKids, ih, Kid.h, Kid.sig, Kid.pos, Kid.grp]

theorem kidIds_eq (kids : List Kid) : kidIds kids = kids.map fun k => k.sig.id := by
  induction kids with
  | nil => simp [kidIds]
  | cons k r ih =>
    cases k with
    | mk s pos grp => simp [kidIds, ih, Kid.sig]

theorem kidsWf_iff (t : Tbl) (gc : Nat) (kids : List Kid) :
    kidsWf t gc kids = true ↔ ∀ k ∈ kids, sigWf t k.sig = true ∧ grpWf gc k.grp = true := by
  induction kids with
  | nil => simp [kidsWf]
  | cons k r ih =>
    cases k with
    | mk s pos grp =>
      simp only [kidsWf, Bool.and_eq_true, ih, List.mem_cons, forall_eq_or_imp, Kid.sig, Kid.grp]

theorem kidsInRange_iff (kids : List Kid) :
    kidsInRange kids = true ↔ ∀ k ∈ kids, sigInRange k.sig = true ∧ fits32 k.pos = true := by
  induction kids with
  | nil => simp [kidsInRange]
  | cons k r ih =>
    cases k with
    | mk s pos grp =>
      simp only [kidsInRange, Bool.and_eq_true, ih, List.mem_cons, forall_eq_or_imp, Kid.sig, Kid.pos]

theorem normSig_id (t : Tbl) (s : Sig) : (normSig t s).id = s.id := by
  cases s with
  | mk e asg body => simp [normSig, Sig.id, Sig.e]

theorem saveSig_id (t : Tbl) (s : Sig) : (saveSig t s).id = s.id := by
  cases s with
  | mk e asg body => simp [saveSig, Sig.id, Sig.e, PSig.id, PSig.e]

theorem mem_kidsOwners {self : Id} {p : Id × Owner} : ∀ {kids : List Kid},
    p ∈ kidsOwners self kids ↔ ∃ k ∈ kids, p ∈ sigOwners (.sig self) k.sig
  | [] => by simp [kidsOwners]
  | .mk s pos grp :: r => by
    simp only [kidsOwners, List.mem_append, mem_kidsOwners (kids := r), List.mem_cons, exists_eq_or_imp, Kid.sig]

theorem loadSigs_map {α : Type} (T : Tbl) (o : Owner) (own : Id → Option Owner) (g : α → PSig) (h : α → Sig)
    (l : List α)
    (hl : ∀ x ∈ l, ∀ sn, Agrees sn own → ∃ sn', loadSig T o sn (g x) = .ok (h x, sn') ∧ Agrees sn' own) :
    ∀ sn, Agrees sn own → ∃ sn', loadSigs T o sn (l.map g) = .ok (l.map h, sn') ∧ Agrees sn' own := by
  induction l with
  | nil => intro sn ha; exact ⟨sn, by simp [loadSigs], ha⟩
  | cons x xs ih =>
    intro sn ha
    obtain ⟨sn1, h1, ha1⟩ := hl x (by simp) sn ha
    obtain ⟨sn2, h2, ha2⟩ := ih (fun y hy => hl y (by simp [hy])) sn1 ha1
    exact ⟨sn2, by simp only [List.map_cons, loadSigs, h1, h2], ha2⟩

/-! ## the round trip -/

theorem sigKindOf_kindTag (b : Body) : sigKindOf b.kindTag = b.kindTag := by
  cases b <;> rfl

mutual
  theorem loadSig_saveSig {t T : Tbl} (hr : TRel t T) (own : Id → Option Owner) :
      (s : Sig) → (o : Owner) → sigWf t s = true → sigInRange s = true →
        (∀ p ∈ sigOwners o s, own p.1 = some p.2) →
        ∀ sn, Agrees sn own →
          ∃ sn', loadSig T o sn (saveSig t s) = .ok (normSig t s, sn') ∧ Agrees sn' own
    | .mk e asg body, o, hw, hi, ho, sn, ha => by
      simp only [sigWf, Bool.and_eq_true] at hw
      simp only [sigInRange] at hi
      obtain ⟨h1, ha1⟩ := seeSig_of_agrees ha (ho (e.id, o) (by simp [sigOwners]))
      obtain ⟨sn', hb, ha'⟩ := loadBody_saveBody hr own body e.id hw.2 hi
        (fun p hp => ho p (by simp [sigOwners, hp])) _ ha1
      refine ⟨sn', ?_, ha'⟩
      simp only [saveSig, loadSig, normSig, h1, hb, loadAsgs_saveAsgs hr.attr e.id asg hw.1]
  theorem loadBody_saveBody {t T : Tbl} (hr : TRel t T) (own : Id → Option Owner) :
      (b : Body) → (self : Id) → bodyWf t b = true → bodyInRange b = true →
        (∀ p ∈ bodyOwners self b, own p.1 = some p.2) →
        ∀ sn, Agrees sn own →
          ∃ sn', loadBody T (sigKindOf b.kindTag) self sn (saveBody t b) = .ok (normBody t b, sn') ∧
            Agrees sn' own
    | .std ty un, self, hw, _, _, sn, ha => by
      refine ⟨sn, ?_, ha⟩
      simp only [bodyWf, Bool.and_eq_true] at hw
      have ht := hr.types ty hw.1
      rw [Option.isSome_iff_ne_none] at ht
      cases un with
      | none =>
        simp [saveBody, loadBody, normBody, sigKindOf, Body.kindTag, ht]
      | some u =>
        simp only [bne_iff_ne, ne_eq, Bool.and_eq_true] at hw
        have hu := hr.units u hw.2.2
        rw [Option.isSome_iff_ne_none] at hu
        simp [saveBody, loadBody, normBody, sigKindOf, Body.kindTag, ht, hw.2.1, hu]
    | .enm en, self, hw, _, _, sn, ha => by
      refine ⟨sn, ?_, ha⟩
      simp only [bodyWf] at hw
      have ht := hr.enums en hw
      rw [Option.isSome_iff_ne_none] at ht
      simp [saveBody, loadBody, normBody, sigKindOf, Body.kindTag, ht]
    | .mux gc kids, self, hw, hi, ho, sn, ha => by
      simp only [bodyWf, Bool.and_eq_true, decide_eq_true_eq, nodupB, kidIds_eq] at hw
      simp only [bodyInRange, Bool.and_eq_true] at hi
      obtain ⟨⟨hgc, hkw⟩, hn⟩ := hw
      obtain ⟨hgf, hki⟩ := hi
      have hkids := loadKids_saveKids hr own kids gc self hkw hki (by simpa [bodyOwners] using ho)
      rw [kidsWf_iff] at hkw
      rw [kidsInRange_iff] at hki
      have hgc' : (gc == 0) = false := by simpa using Nat.ne_of_gt hgc
      have e1 : saveBody t (.mux gc kids) =
          .mux gc ((muxSignals gc (kids.map fun k => (k.h, k))).map fun k => saveSig t k.sig)
            (muxFixed (kids.map fun k => (k.h, k))) (muxGroups gc (kids.map fun k => (k.h, k))) := by
        rw [saveBody, saveKids_eq, muxSignals_map (fun k : Kid => saveSig t k.sig),
          muxFixed_map (fun k : Kid => saveSig t k.sig), muxGroups_map (fun k : Kid => saveSig t k.sig),
          u32_of_fits hgf]
      have e2 : normBody t (.mux gc kids) =
          .mux gc (dedupLast (fun k => k.sig.id)
            ((muxSignals gc (kids.map fun k => (k.h, k))).map fun k => Kid.mk (normSig t k.sig) k.pos k.grp)) := by
        rw [normBody, normKids_eq, muxSignals_map (fun k : Kid => Kid.mk (normSig t k.sig) k.pos k.grp)]
      obtain ⟨sn', hl, ha'⟩ := loadSigs_map T (.sig self) own (fun k : Kid => saveSig t k.sig)
        (fun k : Kid => normSig t k.sig) (muxSignals gc (kids.map fun k => (k.h, k)))
        (by
          intro k hk
          obtain ⟨p, hp, rfl⟩ := mem_muxSignals hk
          obtain ⟨k', hk', rfl⟩ := List.mem_map.mp hp
          exact hkids k' hk') sn ha
      refine ⟨sn', ?_, ha'⟩
      have ha2 := assembleMux_saved gc kids (fun k => normSig t k.sig) (fun k => normSig_id t k.sig) hgc hn
        (fun k hk => (hkw k hk).2) (fun k hk => (hki k hk).2)
      simp only at ha2
      rw [e1, e2]
      simp only [loadBody, sigKindOf, Body.kindTag, hgc', hl, ha2]
      simp
  theorem loadKids_saveKids {t T : Tbl} (hr : TRel t T) (own : Id → Option Owner) :
      (ks : List Kid) → (gc : Nat) → (self : Id) → kidsWf t gc ks = true → kidsInRange ks = true →
        (∀ p ∈ kidsOwners self ks, own p.1 = some p.2) →
        ∀ k ∈ ks, ∀ sn, Agrees sn own →
          ∃ sn', loadSig T (.sig self) sn (saveSig t k.sig) = .ok (normSig t k.sig, sn') ∧ Agrees sn' own
    | [], _, _, _, _, _ => by simp
    | .mk s pos grp :: r, gc, self, hw, hi, ho => by
      simp only [kidsWf, Bool.and_eq_true] at hw
      simp only [kidsInRange, Bool.and_eq_true] at hi
      intro k hk
      rcases List.mem_cons.mp hk with rfl | hk
      · exact loadSig_saveSig hr own s (.sig self) hw.1.1 hi.1.1
          (fun p hp => ho p (by simp [kidsOwners, hp]))
      · exact loadKids_saveKids hr own r gc self hw.2 hi.2
          (fun p hp => ho p (by simp [kidsOwners, hp])) k hk
end

end Acme.Save
