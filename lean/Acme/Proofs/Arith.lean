/-
Lemmas for C03.  Names used by Acme.Props.C03: signExtend_twos, int_signed, int_unsigned,
float_signed, float_unsigned, flag_spec, enum_hit, enum_miss, range_signed, range_unsigned,
calcSize_spec, enumSize_spec, muxSel_spec.
-/
import Acme.Core.Arith
import Acme.Spec.Arith

namespace Acme.Arith


theorem and_two_pow_eq_zero (r k : Nat) : (r &&& 2 ^ k = 0) ↔ r.testBit k = false := by
  constructor
  · intro h
    have := Nat.testBit_and r (2 ^ k) k
    rw [h] at this
    simpa [Nat.testBit_two_pow_self] using this.symm
  · intro h
    apply Nat.eq_of_testBit_eq
    intro i
    rw [Nat.testBit_and, Nat.testBit_two_pow]
    by_cases hk : k = i
    · subst hk; simp [h]
    · simp [hk]

theorem signbit_test (raw : BitVec 64) (k : Nat) (hk : k < 64) :
    (raw &&& (1#64 <<< k) ≠ 0#64) ↔ raw.toNat.testBit k = true := by
  have h1 : (raw &&& (1#64 <<< k)).toNat = raw.toNat &&& 2 ^ k := by
    rw [BitVec.toNat_and, BitVec.toNat_shiftLeft, Nat.shiftLeft_eq]
    have : 2 ^ k < 2 ^ 64 := Nat.pow_lt_pow_right (by decide) hk
    simp [Nat.mod_eq_of_lt this]
  rw [Ne, ← BitVec.toNat_inj, h1, BitVec.toNat_ofNat, and_two_pow_eq_zero]
  simp

theorem allOnes_shl_toNat (n : Nat) (hn : n ≤ 64) :
    (BitVec.allOnes 64 <<< n).toNat = 2 ^ 64 - 2 ^ n := by
  rw [BitVec.toNat_shiftLeft, BitVec.toNat_allOnes, Nat.shiftLeft_eq]
  have hp : 2 ^ n ≤ 2 ^ 64 := Nat.pow_le_pow_right (by decide) hn
  have hpos : 0 < 2 ^ n := Nat.two_pow_pos n
  have e : (2 ^ 64 - 1) * 2 ^ n = (2 ^ 64 - 2 ^ n) + 2 ^ 64 * (2 ^ n - 1) := by
    generalize 2 ^ n = p at *
    rw [Nat.sub_mul, Nat.mul_sub]
    have : 2 ^ 64 * 1 ≤ 2 ^ 64 * p := Nat.mul_le_mul_left _ hpos
    omega
  rw [e, Nat.add_mul_mod_self_left]
  apply Nat.mod_eq_of_lt
  omega

theorem signExtend_twos (n : Nat) (h1 : 1 ≤ n) (h2 : n ≤ 64) (raw : BitVec 64)
    (hr : raw.toNat < 2 ^ n) :
    (signExtend raw n).toInt = twos n raw.toNat := by
  have hlt := raw.isLt
  by_cases h64 : n = 64
  · subst h64
    have : signExtend raw ((64 : Nat) : Int) = raw := by simp [signExtend]
    rw [this, BitVec.toInt_eq_toNat_cond, twos, Nat.testBit_eq_decide_div_mod_eq]
    simp only [decide_eq_true_eq]
    split <;> split <;> omega
  · have hn : n < 64 := by omega
    have hp : 2 ^ n < 2 ^ 64 := Nat.pow_lt_pow_right (by decide) hn
    have hc : ¬ ((n : Int) ≤ 0 ∨ (n : Int) ≥ 64) := by omega
    have e1 : ((n : Int) - 1).toNat = n - 1 := by omega
    unfold signExtend twos
    rw [if_neg hc, e1, Int.toNat_natCast]
    by_cases hb : raw.toNat.testBit (n - 1) = true
    · rw [if_pos ((signbit_test raw (n - 1) (by omega)).2 hb), if_pos hb]
      have hor : (raw ||| (BitVec.allOnes 64 <<< n)).toNat = 2 ^ 64 - 2 ^ n + raw.toNat := by
        rw [BitVec.toNat_or, allOnes_shl_toNat n h2]
        have hd : 2 ^ 64 - 2 ^ n = 2 ^ n * (2 ^ (64 - n) - 1) := by
          rw [Nat.mul_sub, ← Nat.pow_add]
          have : n + (64 - n) = 64 := by omega
          rw [this]; simp
        rw [hd, Nat.or_comm, ← Nat.two_pow_add_eq_or_of_lt hr]
      rw [BitVec.toInt_eq_toNat_cond, hor]
      have hp2 : 2 * 2 ^ n ≤ 2 ^ 64 := by
        have : 2 ^ (n + 1) ≤ 2 ^ 64 := Nat.pow_le_pow_right (by decide) (by omega)
        rw [Nat.pow_succ] at this; omega
      have hcast : ((2 ^ n : Nat) : Int) = (2 : Int) ^ n := by simp
      generalize hq : (2 : Int) ^ n = q at *
      generalize 2 ^ n = p at *
      split <;> omega
    · have hb' : ¬ (raw &&& (1#64 <<< (n - 1)) ≠ 0#64) := fun h =>
        hb ((signbit_test raw (n - 1) (by omega)).1 h)
      rw [if_neg hb', if_neg hb, BitVec.toInt_eq_toNat_cond]
      have hp2 : 2 * 2 ^ n ≤ 2 ^ 64 := by
        have : 2 ^ (n + 1) ≤ 2 ^ 64 := Nat.pow_le_pow_right (by decide) (by omega)
        rw [Nat.pow_succ] at this; omega
      -- bit n-1 clear and raw < 2^n  ⇒ raw < 2^(n-1); not needed: raw < 2^n ≤ 2^63
      split <;> omega

theorem int_signed (n : Nat) (h1 : 1 ≤ n) (h2 : n ≤ 64) (raw : BitVec 64)
    (hr : raw.toNat < 2 ^ n) (scale off : Int) (sq oq : Rat)
    (hrep : -(2 ^ 63 : Int) ≤ twos n raw.toNat * scale + off ∧ twos n raw.toNat * scale + off < 2 ^ 63) :
    decodeStd .integer n true scale off sq oq raw = .int (twos n raw.toNat * scale + off) := by
  simp only [decodeStd, if_true]
  congr 1
  rw [BitVec.toInt_add, BitVec.toInt_mul, BitVec.toInt_ofInt, BitVec.toInt_ofInt,
    Int.mul_bmod_bmod, Int.bmod_add_bmod, Int.add_bmod_bmod, signExtend_twos n h1 h2 raw hr]
  apply Int.bmod_eq_of_le
  · have : -(((2 ^ 64 : Nat) : Int) / 2) = -(2 ^ 63 : Int) := by decide
    rw [this]; exact hrep.1
  · have : (((2 ^ 64 : Nat) : Int) + 1) / 2 = (2 ^ 63 : Int) := by decide
    rw [this]; exact hrep.2

theorem int_unsigned (n : Int) (raw : BitVec 64) (scale off : Int) (sq oq : Rat)
    (hs : 0 ≤ scale) (ho : 0 ≤ off) (hrep : (raw.toNat : Int) * scale + off < 2 ^ 64) :
    decodeStd .integer n false scale off sq oq raw = .uint ((raw.toNat : Int) * scale + off).toNat := by
  simp only [decodeStd]
  congr 1
  rw [BitVec.toNat_add, BitVec.toNat_mul, BitVec.toNat_ofInt, BitVec.toNat_ofInt]
  obtain ⟨s, rfl⟩ := Int.eq_ofNat_of_zero_le hs
  obtain ⟨o, rfl⟩ := Int.eq_ofNat_of_zero_le ho
  have e1 : ((s : Int) % ((2 ^ 64 : Nat) : Int)).toNat = s % 2 ^ 64 := by omega
  have e2 : ((o : Int) % ((2 ^ 64 : Nat) : Int)).toNat = o % 2 ^ 64 := by omega
  rw [e1, e2]
  have e3 : ((raw.toNat : Int) * (s : Int) + (o : Int)).toNat = raw.toNat * s + o := by
    rw [← Int.natCast_mul, ← Int.natCast_add, Int.toNat_natCast]
  rw [e3]
  have hlt : raw.toNat * s + o < 2 ^ 64 := by
    have : ((raw.toNat * s + o : Nat) : Int) < 2 ^ 64 := by push_cast; exact hrep
    exact_mod_cast this
  conv => rhs; rw [← Nat.mod_eq_of_lt hlt]
  simp [Nat.add_mod, Nat.mul_mod]

theorem float_signed (k : Kind) (hk : k = .decimal ∨ k = .custom) (n : Nat) (h1 : 1 ≤ n)
    (h2 : n ≤ 64) (raw : BitVec 64) (hr : raw.toNat < 2 ^ n) (si oi : Int) (scale off : Rat) :
    decodeStd k n true si oi scale off raw = .float ((twos n raw.toNat : Rat) * scale + off) := by
  rcases hk with rfl | rfl <;> simp only [decodeStd, if_true] <;>
    rw [signExtend_twos n h1 h2 raw hr]

theorem float_unsigned (k : Kind) (hk : k = .decimal ∨ k = .custom) (n : Int)
    (raw : BitVec 64) (si oi : Int) (scale off : Rat) :
    decodeStd k n false si oi scale off raw = .float ((raw.toNat : Rat) * scale + off) := by
  rcases hk with rfl | rfl <;> simp [decodeStd]

theorem flag_spec (n : Int) (s : Bool) (si oi : Int) (sq oq : Rat) (raw : BitVec 64) :
    decodeStd .flag n s si oi sq oq raw = .flag (decide (raw.toNat ≠ 0)) := by
  simp only [decodeStd]
  congr 1
  have : (raw ≠ 0#64) ↔ (raw.toNat ≠ 0) := by
    rw [Ne, Ne, ← BitVec.toNat_inj]; simp
  exact decide_eq_decide.2 this

theorem toInt_of_lt (raw : BitVec 64) (hr : raw.toNat < 2 ^ 63) : raw.toInt = (raw.toNat : Int) := by
  rw [BitVec.toInt_eq_toNat_cond]; split <;> omega

theorem enum_hit (values : List (String × Int)) (hu : (values.map (·.2)).Nodup)
    (raw : BitVec 64) (hr : raw.toNat < 2 ^ 63) (name : String)
    (hm : (name, (raw.toNat : Int)) ∈ values) :
    decodeEnum values raw = name := by
  unfold decodeEnum
  rw [toInt_of_lt raw hr]
  generalize (raw.toNat : Int) = i at *
  induction values with
  | nil => cases hm
  | cons v vs ih =>
    rw [List.map_cons, List.nodup_cons] at hu
    rw [List.find?_cons]
    by_cases hv : v.2 = i
    · simp only [hv, decide_true]
      rcases List.mem_cons.1 hm with h | h
      · rw [← h]
      · exfalso; apply hu.1
        rw [hv]; exact List.mem_map.2 ⟨_, h, rfl⟩
    · simp only [hv, decide_false]
      rcases List.mem_cons.1 hm with h | h
      · exfalso; apply hv; rw [← h]
      · exact ih hu.2 h

theorem enum_miss (values : List (String × Int)) (raw : BitVec 64) (hr : raw.toNat < 2 ^ 63)
    (hm : ∀ v ∈ values, v.2 ≠ (raw.toNat : Int)) :
    decodeEnum values raw = "" := by
  unfold decodeEnum
  rw [toInt_of_lt raw hr]
  have : values.find? (fun v => decide (v.2 = (raw.toNat : Int))) = none := by
    rw [List.find?_eq_none]
    intro v hv; simpa using hm v hv
  rw [this]

theorem range_signed (n : Nat) (h1 : 1 ≤ n) (h2 : n ≤ 64) :
    typeRange n true = (-(2 ^ (n - 1) : Int), 2 ^ (n - 1) - 1) := by
  have hc : ¬ ((n : Int) ≤ 0) := by omega
  have hc2 : ¬ ((n : Int) > maxSize) := by unfold maxSize; omega
  have e1 : ((n : Int) - 1).toNat = n - 1 := by omega
  simp only [typeRange, if_neg hc, if_neg hc2, if_true, e1]
  have hmin := allOnes_shl_toNat (n - 1) (by omega)
  have hp1 : 2 ^ (n - 1) ≤ 2 ^ 63 := Nat.pow_le_pow_right (by decide) (by omega)
  have hp0 : 0 < 2 ^ (n - 1) := Nat.two_pow_pos _
  have hcast : ((2 ^ (n - 1) : Nat) : Int) = (2 : Int) ^ (n - 1) := by simp
  generalize (BitVec.allOnes 64 <<< (n - 1)) = m at *
  rw [BitVec.toInt_eq_toNat_cond, BitVec.toInt_eq_toNat_cond, BitVec.toNat_neg, BitVec.toNat_add, hmin]
  simp only [BitVec.toNat_ofNat]
  generalize (2 : Int) ^ (n - 1) = q at *
  generalize 2 ^ (n - 1) = p at *
  subst hcast
  congr 1
  · split <;> omega
  · split <;> omega

theorem range_unsigned (n : Nat) (h1 : 1 ≤ n) (h2 : n ≤ 64) :
    typeRange n false = (0, 2 ^ n - 1) := by
  have hc : ¬ ((n : Int) ≤ 0) := by omega
  have hc2 : ¬ ((n : Int) > maxSize) := by unfold maxSize; omega
  have e1 : (maxSize - (n : Int)).toNat = 64 - n := by unfold maxSize; omega
  simp only [typeRange, if_neg hc, if_neg hc2, e1, Bool.false_eq_true, if_false]
  congr 1
  rw [BitVec.toNat_ushiftRight, BitVec.toNat_allOnes, Nat.shiftRight_eq_div_pow]
  have h64 : 2 ^ 64 = 2 ^ n * 2 ^ (64 - n) := by
    rw [← Nat.pow_add]; congr 1; omega
  have hq0 : 0 < 2 ^ (64 - n) := Nat.two_pow_pos _
  have hp0 : 0 < 2 ^ n := Nat.two_pow_pos _
  have hdiv : (2 ^ 64 - 1) / 2 ^ (64 - n) = 2 ^ n - 1 := by
    rw [h64]
    generalize 2 ^ (64 - n) = q at *
    generalize 2 ^ n = p at *
    rw [Nat.div_eq_iff hq0]
    rw [Nat.sub_mul]
    have : p * q ≥ q := Nat.le_mul_of_pos_left q hp0
    omega
  rw [hdiv]
  have : ((2 ^ n : Nat) : Int) = (2 : Int) ^ n := by simp
  rw [← this]
  clear h64 hdiv this hq0
  generalize 2 ^ n = p at *
  omega

theorem calcSize_spec (v : Int) (h0 : 0 ≤ v) : IsBitLen v (calcSize v) := by
  obtain ⟨m, rfl⟩ := Int.eq_ofNat_of_zero_le h0
  by_cases hm : m = 0
  · subst hm
    simp [calcSize, IsBitLen]
  · have hne : ¬ ((m : Int) = 0) := by omega
    have hnn : ¬ ((m : Int) < 0) := by omega
    simp only [calcSize, if_neg hne, if_neg hnn, Int.toNat_natCast, len64, if_neg hm, IsBitLen]
    refine ⟨by omega, ?_, Or.inr ?_⟩
    · have := @Nat.lt_log2_self m
      exact_mod_cast this
    · have := @Nat.log2_self_le m hm
      rw [Nat.add_sub_cancel]
      exact_mod_cast this

theorem enumSize_spec (minSize maxIndex : Int) (h0 : 0 ≤ maxIndex) :
    minSize ≤ enumSize minSize maxIndex ∧ calcSize maxIndex ≤ enumSize minSize maxIndex ∧
    (enumSize minSize maxIndex = minSize ∨ enumSize minSize maxIndex = calcSize maxIndex) ∧
    IsBitLen maxIndex (calcSize maxIndex) := by
  refine ⟨?_, ?_, ?_, calcSize_spec maxIndex h0⟩ <;> unfold enumSize <;> simp only <;> split <;> omega

theorem muxSel_spec (groupCount : Int) (h : 1 ≤ groupCount) :
    IsBitLen (groupCount - 1) (muxSelWidth groupCount) :=
  calcSize_spec (groupCount - 1) (by omega)

end Acme.Arith
