/-
Message-level importer model, part 2: the loops of `importMuxSignal` and `importMessage`.
Every loop gets one specification lemma that carries the well-formedness invariant, the
bookkeeping "which signal of the file became which item / child" and the positions.
-/
import Acme.Spec.Import
import Acme.Proofs.ImportBasic

namespace Acme.Import
open Acme.Layout Acme.Conv Acme.Arith
open Acme.Mux (sortInts compactAdj)

/-! ### group ids -/

theorem extIds_spec (gc : Int) (rs : List (Nat × Nat)) (ids : List Int) (h : extIds gc rs = .ok ids) :
    ∃ xs, expand gc (natRanges rs) = some xs ∧
      ((ids = [] ∧ (xs = [] ∨ ((compactAdj (sortInts xs)).length : Int) = gc)) ∨
       (ids ≠ [] ∧ ids = compactAdj (sortInts xs))) := by
  unfold extIds at h
  split at h
  · cases h
  · rename_i xs hx
    refine ⟨xs, hx, ?_⟩
    dsimp only at h
    injection h with h
    by_cases hl : ((compactAdj (sortInts xs)).length : Int) = gc
    · rw [if_pos hl] at h
      exact Or.inl ⟨h.symm, Or.inr hl⟩
    · rw [if_neg hl] at h
      by_cases hxs : xs = []
      · subst hxs
        left
        refine ⟨?_, Or.inl rfl⟩
        rw [← h]; rfl
      · right
        exact ⟨by rw [← h]; exact compactSort_ne_nil xs hxs, h.symm⟩

/-- the child a kid becomes -/
def KidRel (exts : List DExt) (gc base : Int) (k : DSig) (c : Child) : Prop :=
  c.name = k.name ∧ c.rel = sigPos k - base ∧ c.size = (k.size : Int) ∧ GroupsAsFile exts gc k c.gids ∧
  c.isMux = k.isMultiplexor

theorem groupsAsFile_of (exts : List DExt) (gc : Int) (k : DSig) (ids0 gids : List Int)
    (hk : kidIds exts gc k = .ok ids0)
    (h1 : ids0 = [] → gids = []) (h2 : ids0 ≠ [] → gids = compactAdj (sortInts ids0)) :
    GroupsAsFile exts gc k gids := by
  unfold kidIds at hk
  unfold GroupsAsFile
  split at hk
  · rename_i e he
    rw [he]
    obtain ⟨xs, hx, hcase⟩ := extIds_spec gc e.ranges ids0 hk
    refine ⟨xs, hx, ?_⟩
    rcases hcase with ⟨h0, hz⟩ | ⟨hne, heq⟩
    · exact Or.inl ⟨h1 h0, hz⟩
    · right
      have hg := h2 hne
      refine ⟨by rw [hg]; exact compactSort_ne_nil _ hne, by rw [hg]; exact compactSort_strict _, ?_⟩
      intro g
      rw [hg, mem_compactSort, heq, mem_compactSort]
  · rename_i he
    rw [he]
    injection hk with hk
    dsimp only
    by_cases hm : k.isMultiplexed = true
    · rw [if_pos hm] at hk ⊢
      have hne : ids0 ≠ [] := by rw [← hk]; simp
      rw [h2 hne, ← hk]
      rfl
    · rw [if_neg hm] at hk ⊢
      exact h1 hk.symm

/-! ### `importMuxSignal` -/

structure KidsInv (gc gs : Int) (cs : List Child) : Prop where
  wf : GroupsWF gc gs cs
  ids : IdsOK gc cs
  names : NamesNodup cs
  sizes : ∀ c ∈ cs, 0 < c.size

theorem kidsInv_nil (gc gs : Int) (h : 0 ≤ gs) : KidsInv gc gs [] :=
  ⟨groupsWF_nil gc gs h, fun c hc => (by cases hc), (by simp [NamesNodup]), fun c hc => (by cases hc)⟩

theorem addKids_spec (exts : List DExt) (gc gs base : Int) : ∀ (kids : List DSig) (cs cs' : List Child),
    addKids exts gc gs base cs kids = .ok cs' → (∀ k ∈ kids, 0 < k.size) → KidsInv gc gs cs →
    ∃ new, cs' = cs ++ new ∧ List.Forall₂ (KidRel exts gc base) kids new ∧ KidsInv gc gs cs'
  | [], cs, cs', h, _, hinv => by
    simp only [addKids] at h
    injection h with h
    subst h
    exact ⟨[], by simp, List.Forall₂.nil, hinv⟩
  | k :: r, cs, cs', h, hpos, hinv => by
    unfold addKids at h
    split at h
    · cases h
    · rename_i ids0 hk
      split at h
      · cases h
      · rename_i cs1 hins
        have hkpos : (0 : Int) < (k.size : Int) := by
          have := hpos k (List.mem_cons_self ..)
          omega
        obtain ⟨c', hcs1, hn, hrel, hsz, hg1, hg2, hw1, hi1, hn1⟩ :=
          muxInsert_spec gc gs cs cs1 ⟨k.name, sigPos k - base, k.size, ids0, k.isMultiplexor⟩ hins hkpos hinv.wf hinv.ids hinv.names
        have hinv1 : KidsInv gc gs cs1 := by
          refine ⟨hw1, hi1, hn1, ?_⟩
          intro c hc
          rw [hcs1] at hc
          rcases List.mem_append.1 hc with hc | hc
          · exact hinv.sizes c hc
          · rw [List.mem_singleton] at hc
            subst hc
            rw [hsz]; exact hkpos
        obtain ⟨new, hcs', hfa, hinv'⟩ := addKids_spec exts gc gs base r cs1 cs' h
          (fun x hx => hpos x (List.mem_cons_of_mem _ hx)) hinv1
        refine ⟨c' :: new, ?_, ?_, hinv'⟩
        · rw [hcs', hcs1]; simp
        · refine List.Forall₂.cons ⟨hn, hrel, hsz, ?_⟩ hfa
          exact ⟨groupsAsFile_of exts gc k ids0 c'.gids hk hg1 hg2, muxInsert_isMux gc gs cs cs1 _ c' hins hcs1⟩

theorem maxEnd_ge (kids : List DSig) : ∀ acc : Int, acc ≤ maxEnd kids acc ∧
    ∀ k ∈ kids, (k.size : Int) + sigPos k ≤ maxEnd kids acc := by
  induction kids with
  | nil => intro acc; exact ⟨Int.le_refl _, fun k hk => by cases hk⟩
  | cons a r ih =>
    intro acc
    simp only [maxEnd]
    split
    · rename_i hgt
      have := ih ((a.size : Int) + sigPos a)
      refine ⟨by omega, ?_⟩
      intro k hk
      rcases List.mem_cons.1 hk with rfl | hk
      · exact this.1
      · exact this.2 k hk
    · rename_i hgt
      have := ih acc
      refine ⟨this.1, ?_⟩
      intro k hk
      rcases List.mem_cons.1 hk with rfl | hk
      · omega
      · exact this.2 k hk

theorem newMux_ok (gc gs : Int) (h : newMux gc gs = .ok ()) : 0 < gc ∧ 0 < gs := by
  unfold newMux at h
  split at h
  · cases h
  · split at h
    · cases h
    · split at h
      · cases h
      · split at h
        · cases h
        · omega

theorem importMux_spec (exts : List DExt) (mx : DSig) (kids : List DSig) (n : MuxNode)
    (h : importMux exts mx kids = .ok n) (hpos : ∀ k ∈ kids, 0 < k.size) :
    MuxWF n ∧ n.name = mx.name ∧ n.start = sigPos mx ∧ n.groupCount = calcValue mx.size ∧
    n.groupSize = maxEnd kids 0 - sigPos mx - mx.size ∧
    List.Forall₂ (KidRel exts n.groupCount (sigPos mx + mx.size)) kids n.children := by
  unfold importMux at h
  dsimp only at h
  split at h
  · cases h
  split at h
  · cases h
  · rename_i hnew
    obtain ⟨hgc, hgs⟩ := newMux_ok _ _ hnew
    split at h
    · cases h
    · rename_i cs hadd
      injection h with h
      subst h
      obtain ⟨new, hcs, hfa, hinv⟩ := addKids_spec exts _ _ _ kids [] cs hadd hpos (kidsInv_nil _ _ (by omega))
      simp only [List.nil_append] at hcs
      subst hcs
      have hgsEq : (if maxEnd kids 0 > 0 then maxEnd kids 0 - sigPos mx - (mx.size : Int) else 0) =
          maxEnd kids 0 - sigPos mx - mx.size := by
        split
        · rfl
        · rename_i hle
          rw [if_neg hle] at hgs
          omega
      refine ⟨⟨hgc, hgs, rfl, hinv.wf, hinv.ids, hinv.sizes, hinv.names⟩, rfl, rfl, rfl, hgsEq, hfa⟩

/-- a multiplexor without bits is refused -/
theorem importMux_size (exts : List DExt) (mx : DSig) (kids : List DSig) (n : MuxNode)
    (h : importMux exts mx kids = .ok n) : 1 ≤ mx.size := by
  unfold importMux at h
  dsimp only at h
  split at h
  · cases h
  · omega

/-- the first loop of `importMessage` accepts only pairwise different names -/
theorem firstLoop_names (cap : Int) (be0 : Bool) : ∀ (l : List DSig) (seen : List String),
    firstLoop cap be0 seen l = .ok () → (l.map (·.name)).Nodup ∧ ∀ s ∈ l, s.name ∉ seen
  | [], _, _ => ⟨List.nodup_nil, fun s hs => by cases hs⟩
  | s :: r, seen, h => by
    unfold firstLoop at h
    split at h
    · cases h
    · rename_i hc
      split at h
      · cases h
      · split at h
        · cases h
        · obtain ⟨h1, h2⟩ := firstLoop_names cap be0 r (s.name :: seen) h
          have hs : s.name ∉ seen := by
            intro hm
            apply hc
            simpa using hm
          refine ⟨?_, ?_⟩
          · rw [List.map_cons, List.nodup_cons]
            refine ⟨?_, h1⟩
            intro hm
            obtain ⟨x, hx, hxn⟩ := List.mem_map.1 hm
            exact h2 x hx (by rw [hxn]; exact List.mem_cons_self ..)
          · intro x hx
            rcases List.mem_cons.1 hx with rfl | hx
            · exact hs
            · intro hm
              exact h2 x hx (List.mem_cons_of_mem _ hm)

/-! ### the top level -/

def itemNames : Item → List String
  | .sig l => [l.name]
  | .mux n => n.name :: n.children.map (·.name)

theorem regNames_eq : ∀ l : List Item, regNames l = l.flatMap itemNames
  | [] => rfl
  | .sig l :: rest => by simp [regNames, itemNames, regNames_eq rest]
  | .mux n :: rest => by simp [regNames, itemNames, regNames_eq rest]

theorem regNames_perm {l1 l2 : List Item} (h : l1.Perm l2) : (regNames l1).Perm (regNames l2) := by
  rw [regNames_eq, regNames_eq]
  exact h.flatMap_right _

theorem regNames_cons (x : Item) (l : List Item) : regNames (x :: l) = itemNames x ++ regNames l := by
  rw [regNames_eq, regNames_eq]; simp

structure TopInv (cap : Int) (top : List Item) : Prop where
  wf : TopWF cap top
  mux : ∀ n, Item.mux n ∈ top → MuxWF n
  names : (regNames top).Nodup
  pos : ∀ x ∈ top, 0 < x.size

theorem topInv_nil (cap : Int) (h : 0 ≤ cap) : TopInv cap [] :=
  ⟨topWF_nil cap h, fun n hn => (by cases hn), (by simp [regNames]), fun x hx => (by cases hx)⟩

theorem nodupStr_iff : ∀ l : List String, Acme.Mux.nodupStr l = true ↔ l.Nodup
  | [] => by simp [Acme.Mux.nodupStr]
  | a :: rest => by
    simp only [Acme.Mux.nodupStr, Bool.and_eq_true, Bool.not_eq_true', List.nodup_cons,
      nodupStr_iff rest]
    constructor
    · rintro ⟨h1, h2⟩
      refine ⟨?_, h2⟩
      intro hm
      have : rest.contains a = true := by simpa using hm
      rw [h1] at this; cases this
    · rintro ⟨h1, h2⟩
      refine ⟨?_, h2⟩
      cases hc : rest.contains a
      · rfl
      · exact absurd (by simpa using hc) h1

theorem itemNames_nodup (top : List Item) (x : Item) (hx : x.name ∉ regNames top)
    (hc : nestedClash top x = false) :
    (itemNames x).Nodup ∧ ∀ a ∈ itemNames x, a ∉ regNames top := by
  cases x with
  | sig l =>
    simp only [itemNames]
    exact ⟨by simp, fun a ha => by
      rw [List.mem_singleton] at ha; subst ha; exact hx⟩
  | mux n =>
    simp only [nestedClash, Bool.or_eq_false_iff, Bool.not_eq_false'] at hc
    obtain ⟨h1, h2⟩ := hc
    rw [nodupStr_iff] at h2
    have h1' : ∀ c ∈ n.children, c.name ∉ regNames top ∧ c.name ≠ n.name := by
      intro c hc
      have := List.any_eq_false.1 h1 c hc
      simp only [Bool.or_eq_true, not_or, Bool.not_eq_true] at this
      constructor
      · intro hm
        have h3 : (regNames top).contains c.name = true := by simpa using hm
        rw [this.1] at h3; cases h3
      · intro he
        have h3 : (c.name == n.name) = true := by simp [he]
        rw [this.2] at h3; cases h3
    simp only [itemNames]
    constructor
    · rw [List.nodup_cons]
      refine ⟨?_, h2⟩
      intro hm
      obtain ⟨c, hc, he⟩ := List.mem_map.1 hm
      exact (h1' c hc).2 he
    · intro a ha
      rcases List.mem_cons.1 ha with rfl | ha
      · exact hx
      · obtain ⟨c, hc, rfl⟩ := List.mem_map.1 ha
        exact (h1' c hc).1

theorem insertTop_inv (cap : Int) (top top' : List Item) (x : Item)
    (h : insertTop cap top x = .ok top') (hsz : 0 < x.size) (hm : ∀ n, x = .mux n → MuxWF n)
    (hinv : TopInv cap top) :
    TopInv cap top' ∧ top'.Perm (x :: top) := by
  obtain ⟨heq, hwf, hname, hclash, _, _, _⟩ := insertTop_spec cap top top' x h hsz hinv.wf
  subst heq
  have hperm := insertItem_perm x top
  refine ⟨⟨hwf, ?_, ?_, ?_⟩, hperm⟩
  · intro n hn
    rcases (mem_insertItem x _ top).1 hn with h1 | h1
    · exact hm n h1.symm
    · exact hinv.mux n h1
  · rw [(regNames_perm hperm).nodup_iff, regNames_cons, List.nodup_append]
    obtain ⟨h1, h2⟩ := itemNames_nodup top x hname hclash
    exact ⟨h1, hinv.names, fun a ha b hb hab => h2 a ha (hab ▸ hb)⟩
  · intro y hy
    rcases (mem_insertItem x y top).1 hy with rfl | h1
    · exact hsz
    · exact hinv.pos y h1

theorem checkSig_ok (s : DSig) (h : checkSig s = .ok ()) : 0 < s.size ∧ s.size ≤ 64 := by
  unfold checkSig at h
  split at h
  · cases h
  · split at h
    · cases h
    · omega

theorem leafOf_size (s : DSig) : (leafOf s).size = (s.size : Int) := rfl
theorem leafOf_name (s : DSig) : (leafOf s).name = s.name := rfl
theorem leafOf_start (s : DSig) : (leafOf s).start = sigPos s := rfl

/-- case "no multiplexor" -/
theorem importPlain_spec (cap : Int) : ∀ (sigs : List DSig) (top top' : List Item),
    importPlain cap top sigs = .ok top' → TopInv cap top →
    TopInv cap top' ∧ top'.Perm (sigs.map leafOf ++ top)
  | [], top, top', h, hinv => by
    simp only [importPlain] at h
    injection h with h
    subst h
    exact ⟨hinv, by simp⟩
  | s :: r, top, top', h, hinv => by
    unfold importPlain at h
    split at h
    · cases h
    · rename_i hc
      split at h
      · cases h
      · rename_i top1 hins
        have hs := checkSig_ok s hc
        obtain ⟨hinv1, hp1⟩ := insertTop_inv cap top top1 (leafOf s) hins
          (by rw [leafOf_size]; omega) (fun n hn => by cases hn) hinv
        obtain ⟨hinv', hp'⟩ := importPlain_spec cap r top1 top' h hinv1
        refine ⟨hinv', hp'.trans ?_⟩
        simp only [List.map_cons, List.cons_append]
        exact ((List.Perm.append_left _ hp1).trans List.perm_middle)

/-- case "one multiplexor", first loop -/
theorem splitOne_spec (muxName : String) : ∀ (l muxed std : List DSig) (last : Int)
    (muxed' std' : List DSig) (last' : Int),
    splitOne muxName l muxed std last = .ok (muxed', std', last') →
    muxed' = muxed ++ l.filter (fun s => !(s.name == muxName) && s.isMultiplexed) ∧
    std' = std ++ l.filter (fun s => !(s.name == muxName) && !s.isMultiplexed) ∧
    (∀ s ∈ l, (s.name == muxName) = false → 0 < s.size) ∧
    last ≤ last' ∧
    (∀ s ∈ l, (s.name == muxName) = false → s.isMultiplexed = true → sigPos s ≤ last') ∧
    (last' = last ∨ ∃ s ∈ l, (s.name == muxName) = false ∧ s.isMultiplexed = true ∧ last' = sigPos s)
  | [], muxed, std, last, muxed', std', last', h => by
    simp only [splitOne] at h
    injection h with h
    injection h with h1 h2
    injection h2 with h2 h3
    subst h1; subst h2; subst h3
    simp
  | s :: r, muxed, std, last, muxed', std', last', h => by
    unfold splitOne at h
    split at h
    · rename_i hname
      obtain ⟨h1, h2, h3, h4, h5, h6⟩ := splitOne_spec muxName r muxed std last muxed' std' last' h
      refine ⟨by simp [List.filter_cons, hname, h1], by simp [List.filter_cons, hname, h2], ?_, h4, ?_, ?_⟩
      · intro x hx hxn
        rcases List.mem_cons.1 hx with rfl | hx
        · rw [hname] at hxn; cases hxn
        · exact h3 x hx hxn
      · intro x hx hxn
        rcases List.mem_cons.1 hx with rfl | hx
        · rw [hname] at hxn; cases hxn
        · exact h5 x hx hxn
      · rcases h6 with h6 | ⟨x, hx, h6⟩
        · exact Or.inl h6
        · exact Or.inr ⟨x, List.mem_cons_of_mem _ hx, h6⟩
    · rename_i hname
      have hname' : (s.name == muxName) = false := by simpa using hname
      split at h
      · cases h
      · rename_i hc
        have hs := checkSig_ok s hc
        split at h
        · rename_i hm
          obtain ⟨h1, h2, h3, h4, h5, h6⟩ := splitOne_spec muxName r _ std _ muxed' std' last' h
          refine ⟨by simp [List.filter_cons, hname', hm, h1], by simp [List.filter_cons, hname', hm, h2], ?_, ?_, ?_, ?_⟩
          · intro x hx hxn
            rcases List.mem_cons.1 hx with rfl | hx
            · exact hs.1
            · exact h3 x hx hxn
          · split at h4 <;> omega
          · intro x hx hxn hxm
            rcases List.mem_cons.1 hx with rfl | hx
            · split at h4 <;> omega
            · exact h5 x hx hxn hxm
          · rcases h6 with h6 | ⟨x, hx, h6⟩
            · by_cases hgt : sigPos s > last
              · rw [if_pos hgt] at h6
                exact Or.inr ⟨s, List.mem_cons_self .., hname', hm, h6⟩
              · rw [if_neg hgt] at h6
                exact Or.inl h6
            · exact Or.inr ⟨x, List.mem_cons_of_mem _ hx, h6⟩
        · rename_i hm
          have hm' : s.isMultiplexed = false := by simpa using hm
          obtain ⟨h1, h2, h3, h4, h5, h6⟩ := splitOne_spec muxName r muxed _ last muxed' std' last' h
          refine ⟨by simp [List.filter_cons, hname', hm', h1], by simp [List.filter_cons, hname', hm', h2], ?_, h4, ?_, ?_⟩
          · intro x hx hxn
            rcases List.mem_cons.1 hx with rfl | hx
            · exact hs.1
            · exact h3 x hx hxn
          · intro x hx hxn hxm
            rcases List.mem_cons.1 hx with rfl | hx
            · rw [hm'] at hxm; cases hxm
            · exact h5 x hx hxn hxm
          · rcases h6 with h6 | ⟨x, hx, h6⟩
            · exact Or.inl h6
            · exact Or.inr ⟨x, List.mem_cons_of_mem _ hx, h6⟩

/-- the D75 test -/
def between (muxorStart last : Int) (s : DSig) : Bool :=
  decide (sigPos s > muxorStart ∧ sigPos s < last)

/-- case "one multiplexor", second loop -/
theorem placeStd_spec (cap muxorStart last : Int) : ∀ (std : List DSig) (top : List Item) (muxed : List DSig)
    (top' : List Item) (muxed' : List DSig),
    placeStd cap muxorStart last top muxed std = .ok (top', muxed') →
    (∀ s ∈ std, 0 < s.size) → TopInv cap top →
    TopInv cap top' ∧
    top'.Perm ((std.filter (fun s => !between muxorStart last s)).map leafOf ++ top) ∧
    muxed' = muxed ++ std.filter (between muxorStart last)
  | [], top, muxed, top', muxed', h, _, hinv => by
    simp only [placeStd] at h
    injection h with h
    injection h with h1 h2
    subst h1; subst h2
    exact ⟨hinv, by simp, by simp⟩
  | s :: r, top, muxed, top', muxed', h, hpos, hinv => by
    unfold placeStd at h
    split at h
    · rename_i hb
      have hb' : between muxorStart last s = true := by simp [between, hb]
      obtain ⟨h1, h2, h3⟩ := placeStd_spec cap muxorStart last r top _ top' muxed' h
        (fun x hx => hpos x (List.mem_cons_of_mem _ hx)) hinv
      refine ⟨h1, ?_, ?_⟩
      · simpa [List.filter_cons, hb'] using h2
      · simp [List.filter_cons, hb', h3]
    · rename_i hb
      have hb' : between muxorStart last s = false := by simp [between, hb]
      split at h
      · cases h
      · rename_i top1 hins
        have hs := hpos s (List.mem_cons_self ..)
        obtain ⟨hinv1, hp1⟩ := insertTop_inv cap top top1 (leafOf s) hins
          (by rw [leafOf_size]; omega) (fun n hn => by cases hn) hinv
        obtain ⟨h1, h2, h3⟩ := placeStd_spec cap muxorStart last r top1 muxed top' muxed' h
          (fun x hx => hpos x (List.mem_cons_of_mem _ hx)) hinv1
        refine ⟨h1, ?_, ?_⟩
        · simp only [List.filter_cons, hb', Bool.not_false, if_true, List.map_cons, List.cons_append]
          exact h2.trans ((List.Perm.append_left _ hp1).trans List.perm_middle)
        · simp [List.filter_cons, hb', h3]

end Acme.Import
