/-
`Inv` is preserved by the reference operations: CAN-ID builders, attributes and their
assignments, signal types / units and the standard signals referencing them.
-/
import Acme.Proofs.GraphTac

namespace Acme.Graph

theorem stepBuilderNew_inv {g : G} (h : Inv g) (c : Nat) : Inv (stepBuilderNew g c).1 := by
  unfold stepBuilderNew
  repeat' split
  all_goals first | exact h | skip
  inv_groups h []

theorem stepBusSetBuilder_inv {g : G} (h : Inv g) (b : Nat) (c : Option Nat) : Inv (stepBusSetBuilder g b c).1 := by
  unfold stepBusSetBuilder
  repeat' split
  all_goals first | exact h | skip
  all_goals inv_groups h []

theorem stepAttrNewStr_inv {g : G} (h : Inv g) (a : Nat) : Inv (stepAttrNewStr g a).1 := by
  unfold stepAttrNewStr
  repeat' split
  all_goals first | exact h | skip
  inv_groups h []

theorem stepAttrNewInt_inv {g : G} (h : Inv g) (a : Nat) (d mn mx : Int) : Inv (stepAttrNewInt g a d mn mx).1 := by
  unfold stepAttrNewInt
  repeat' split
  all_goals first | exact h | skip
  inv_groups h []

theorem stepAttrNewEnum_inv {g : G} (h : Inv g) (a : Nat) (vs : List String) : Inv (stepAttrNewEnum g a vs).1 := by
  unfold stepAttrNewEnum
  repeat' split
  all_goals first | exact h | skip
  inv_groups h []

theorem stepTypeNew_inv {g : G} (h : Inv g) (t : Nat) : Inv (stepTypeNew g t).1 := by
  unfold stepTypeNew
  repeat' split
  all_goals first | exact h | skip
  inv_groups h []

theorem stepUnitNew_inv {g : G} (h : Inv g) (u : Nat) : Inv (stepUnitNew g u).1 := by
  unfold stepUnitNew
  repeat' split
  all_goals first | exact h | skip
  inv_groups h []

theorem stepSigNew_inv {g : G} (h : Inv g) (s t : Nat)
    (hx : g.buses.get s = none ∧ g.nodes.get s = none ∧ g.msgs.get s = none) : Inv (stepSigNew g s t).1 := by
  unfold stepSigNew
  repeat' split
  all_goals first | exact h | skip
  inv_groups h []

theorem stepSigSetType_inv {g : G} (h : Inv g) (s t : Nat) : Inv (stepSigSetType g s t).1 := by
  unfold stepSigSetType
  repeat' split
  all_goals first | exact h | skip
  all_goals inv_groups h []

theorem stepSigSetUnit_inv {g : G} (h : Inv g) (s : Nat) (u : Option Nat) : Inv (stepSigSetUnit g s u).1 := by
  unfold stepSigSetUnit
  repeat' split
  all_goals first | exact h | skip
  all_goals inv_groups h []

theorem stepAssign_inv {g : G} (h : Inv g) (k : EKind) (x a : Nat) (v : AVal) : Inv (stepAssign g k x a v).1 := by
  unfold stepAssign
  cases k <;> simp only [getAttrs, setAttrs]
  all_goals (
    repeat' split
    all_goals first | exact h | skip)
  all_goals first
    | (rename_i _ r hr _ att ha _ hbad _ e he
       have hre : r = e.attrs := by rw [he] at hr; simpa using hr.symm
       subst hre; clear hbad hr
       inv_groups h [])
    | (exfalso; simp_all)

theorem stepUnassign_inv {g : G} (h : Inv g) (k : EKind) (x a : Nat) : Inv (stepUnassign g k x a).1 := by
  unfold stepUnassign
  cases k <;> simp only [getAttrs, setAttrs]
  all_goals (
    repeat' split
    all_goals first | exact h | skip)
  all_goals first
    | (rename_i _ r hr hhas _ e he
       have hre : r = e.attrs := by rw [he] at hr; simpa using hr.symm
       subst hre; clear hr
       inv_groups h [])
    | (exfalso; simp_all)

theorem stepUnassignAll_inv {g : G} (h : Inv g) (k : EKind) (x : Nat) : Inv (stepUnassignAll g k x).1 := by
  unfold stepUnassignAll
  cases k <;> simp only [getAttrs, setAttrs]
  all_goals (
    repeat' split
    all_goals first | exact h | skip)
  all_goals first
    | (rename_i _ r hr _ e he
       have hre : r = e.attrs := by rw [he] at hr; simpa using hr.symm
       subst hre; clear hr
       have hk := Reg.mem_keys e.attrs
       inv_groups h [])
    | (exfalso; simp_all)

end Acme.Graph
