/-
Multiplexer world, part X: `mux.clearAll` (`MultiplexerSignal.ClearAllSignalGroups`).

The loop of `ClearAllSignalGroups` unregisters the children one by one and empties the groups
only afterwards: in between, the groups of the multiplexer still list signals that are no
longer its children.  `InvX w x` is the invariant without the group clauses of `x`; it is
preserved by every `ms.removeSignal(sig)`, and the final emptying restores the full invariant.
-/
import Acme.Proofs.MuxSize4

namespace Acme.Mux
open Acme.Layout Acme.Arith

/-- the registry clauses of a multiplexer -/
structure RegOK (w : MW) (x : Nat) (xe : SigE) : Prop where
  child : ∀ s, s ∈ xe.mx.signals ↔ ∃ e, w.sigs.get s = some e ∧ e.parentMux = some x
  namesNodup : KeysNodup xe.mx.signalNames
  names : ∀ n i, (n, i) ∈ xe.mx.signalNames ↔ i ∈ xe.mx.signals ∧ nameOf w i = n
  sigsNodup : xe.mx.signals.Nodup

theorem MuxOK.regOK {w : MW} {x : Nat} {xe : SigE} {gc gs : Int} (h : MuxOK w x xe gc gs) : RegOK w x xe :=
  ⟨h.child, h.namesNodup, h.names, h.sigsNodup⟩

/-- the invariant without the group clauses of the multiplexer `x` -/
structure InvX (w : MW) (x : Nat) : Prop where
  mux : ∀ y ye gc gs, w.sigs.get y = some ye → ye.kind = .mux gc gs → y ≠ x → MuxOK w y ye gc gs
  reg : ∀ xe gc gs, w.sigs.get x = some xe → xe.kind = .mux gc gs → RegOK w x xe
  msg : ∀ m msg, w.msgs.get m = some msg → MsgOK w m msg
  link : ∀ s e, w.sigs.get s = some e → LinkOK w s e
  acyclic : Acyclic w

theorem InvCore.invX {w : MW} (h : InvCore w) (x : Nat) : InvX w x :=
  ⟨fun _ _ _ _ hy hk _ => h.muxOK hy hk, fun _ _ _ hx hk => (h.muxOK hx hk).regOK,
   fun _ _ hm => h.msgOK hm, fun _ _ hs => h.linkOK hs, h.acyclic⟩

theorem InvX.regAll {w : MW} {x : Nat} (h : InvX w x) {y : Nat} {ye : SigE} {gc gs : Int}
    (hy : w.sigs.get y = some ye) (hk : ye.kind = .mux gc gs) : RegOK w y ye := by
  by_cases hyx : y = x
  · subst hyx; exact h.reg ye gc gs hy hk
  · exact (h.mux y ye gc gs hy hk hyx).regOK

theorem InvX.toCore {w : MW} {x : Nat} (h : InvX w x)
    (hx : ∀ xe gc gs, w.sigs.get x = some xe → xe.kind = .mux gc gs → MuxOK w x xe gc gs) : InvCore w := by
  apply InvCore.of_parts _ h.msg h.link h.acyclic
  intro y ye gc gs hy hk
  by_cases hyx : y = x
  · subst hyx; exact hx ye gc gs hy hk
  · exact h.mux y ye gc gs hy hk hyx

theorem InvX.treeOK {w : MW} {x : Nat} (h : InvX w x) : TreeOK w where
  parentStored := fun s e p hs hp => by
    obtain ⟨pe, _, _, hpe, _, _⟩ := (h.link s e hs).parent p hp
    exact ⟨pe, hpe⟩
  children := by
    intro y c
    unfold childrenOf
    cases hy : w.sigs.get y with
    | none =>
      simp only [List.not_mem_nil, false_iff]
      rintro ⟨e, he, hp⟩
      obtain ⟨pe, _, _, hpe, _, _⟩ := (h.link c e he).parent y hp
      rw [hy] at hpe; cases hpe
    | some ye =>
      cases hk : ye.kind with
      | leaf z =>
        simp only [hk, List.not_mem_nil, false_iff]
        rintro ⟨e, he, hp⟩
        obtain ⟨pe, gc, gs, hpe, hkx, _⟩ := (h.link c e he).parent y hp
        rw [hy] at hpe; cases hpe
        rw [hk] at hkx; cases hkx
      | mux gc gs =>
        simp only [hk]
        exact (h.regAll hy hk).child c
  acyclic := h.acyclic

theorem self_not_parent_x (w : MW) {x : Nat} (h : InvX w x) (s : Nat) (e : SigE) (hs : w.sigs.get s = some e) :
    e.parentMux ≠ some s := by
  obtain ⟨depth, hd⟩ := h.acyclic
  intro hp
  have := hd s e s hs hp
  omega

theorem Anc_stored_x (w : MW) {x : Nat} (h : InvX w x) (k : Nat) (s t : Nat) (e : SigE)
    (hs : w.sigs.get s = some e) (ha : Anc w k s t) :
    ∃ et, w.sigs.get t = some et ∧ et.parentMsg = e.parentMsg := by
  induction k generalizing s e with
  | zero => simp only [Anc] at ha; subst ha; exact ⟨e, hs, rfl⟩
  | succ k ih =>
    obtain ⟨e', p, he', hp, hrest⟩ := ha
    rw [hs] at he'; cases he'
    obtain ⟨xe, gc, gs, hx, _, hpm⟩ := (h.link s e hs).parent p hp
    obtain ⟨et, het, hm⟩ := ih p xe hx hrest
    exact ⟨et, het, by rw [hm, hpm]⟩

theorem below_registered_x (w : MW) {x : Nat} (h : InvX w x) (s t : Nat) (se : SigE) (hs : w.sigs.get s = some se)
    (hb : Below w t s) : ∃ e, w.sigs.get t = some e ∧ e.parentMsg = se.parentMsg ∧ e.parentMux ≠ none ∧ t ≠ s := by
  obtain ⟨k, e, p, he, hp, hr⟩ := hb
  obtain ⟨et, het, hmm⟩ := Anc_stored_x w h (k + 1) t s e he ⟨e, p, he, hp, hr⟩
  rw [hs] at het; cases het
  refine ⟨e, he, hmm.symm, by rw [hp]; simp, ?_⟩
  rintro rfl
  exact not_below_self w h.treeOK t ⟨k, e, p, he, hp, hr⟩

theorem InvX.namesAll {w : MW} {x : Nat} (h : InvX w x) :
    ∀ y ye gc gs, w.sigs.get y = some ye → ye.kind = .mux gc gs →
      ∀ n i, (n, i) ∈ ye.mx.signalNames ↔ i ∈ ye.mx.signals ∧ nameOf w i = n :=
  fun _ _ _ _ hy hk => (h.regAll hy hk).names

theorem rmTail_spec_x (w : MW) (x s : Nat) (h : InvX w x) (xe se : SigE) (gc gs : Int)
    (hx : w.sigs.get x = some xe) (hk : xe.kind = .mux gc gs)
    (hs : w.sigs.get s = some se) (hsx : se.parentMux = some x)
    (w1 : MW) (G' : List (List Nat)) (hm1 : w1.msgs = w.msgs)
    (hg1 : ∀ i, w1.sigs.get i = if i = x then some { xe with mx := { xe.mx with groups := G' } } else w.sigs.get i)
    (f : MuxD → MuxD) :
    (rmTail w1 x s f).sigs.get x = some { xe with mx := f { xe.mx with groups := G', signals := sDel xe.mx.signals s, signalNames := nmDel xe.mx.signalNames se.name } } ∧
    (rmTail w1 x s f).sigs.get s = some { se with parentMux := none, parentMsg := none } ∧
    (∀ t, Below w t s → (rmTail w1 x s f).sigs.get t = (w.sigs.get t).map (fun e => { e with parentMsg := none })) ∧
    (∀ t, t ≠ x → t ≠ s → ¬ Below w t s → (rmTail w1 x s f).sigs.get t = w.sigs.get t) ∧
    (xe.parentMsg = none → (rmTail w1 x s f).msgs = w.msgs) ∧
    (∀ m, xe.parentMsg = some m → ∃ msg ks D, w.msgs.get m = some msg ∧ (∀ t, t ∈ D ↔ Below w t s) ∧
         (∀ n, n ∈ ks ↔ ∃ i, i ∈ s :: D ∧ nameOf w i = n) ∧
         ∀ j, (rmTail w1 x s f).msgs.get j = if j = m then some { msg with signals := sDelAll msg.signals (s :: D), signalNames := nmDelAll msg.signalNames ks } else w.msgs.get j) := by
  have hxs : x ≠ s := by rintro rfl; exact self_not_parent_x w h x se hs hsx
  have hsx' : s ≠ x := fun e => hxs e.symm
  have hpmeq : xe.parentMsg = se.parentMsg := by
    obtain ⟨xe', _, _, hx', _, hp⟩ := (h.link s se hs).parent x hsx
    rw [hx] at hx'; cases hx'; exact hp
  have hname1 : nameOf w1 s = se.name := by
    unfold nameOf; rw [hg1, if_neg hsx', hs]
  -- the world before the message registry is touched
  generalize hw2b : setParentMux (updMux w1 x (fun d => { d with signals := sDel d.signals s, signalNames := nmDel d.signalNames (nameOf w1 s) })) s none = w2b
  have hg2 : ∀ i, w2b.sigs.get i =
      if i = s then some { se with parentMux := none }
      else if i = x then some { xe with mx := { xe.mx with groups := G', signals := sDel xe.mx.signals s, signalNames := nmDel xe.mx.signalNames se.name } }
      else w.sigs.get i := by
    intro i
    rw [← hw2b, setParentMux_get, updMux_get, updMux_get, hg1, hg1, if_neg hsx', hs, hname1]
    by_cases his : i = s
    · subst his; simp [hsx']
    · by_cases hix : i = x
      · subst hix; simp [his]
      · simp [his, hix, hg1]
  have hm2 : w2b.msgs = w.msgs := by
    rw [← hw2b, setParentMux_msgs, updMux_msgs, hm1]
  have hpm2 : parentMsgOf w2b x = xe.parentMsg := by
    unfold parentMsgOf; rw [hg2, if_neg hxs, if_pos rfl]
  have hrm_none : xe.parentMsg = none → rmTail w1 x s f = updMux w2b x f := by
    intro hpm
    unfold rmTail muxRemoveSignal
    simp only
    rw [hw2b, hpm2, hpm]
  have hrm_some : ∀ m, xe.parentMsg = some m → rmTail w1 x s f = updMux (msgRemoveSignal w2b m s) x f := by
    intro m hpm
    unfold rmTail muxRemoveSignal
    simp only
    rw [hw2b, hpm2, hpm]
  have hbelow_facts : ∀ t, Below w t s → ∃ e, w.sigs.get t = some e ∧ e.parentMsg = se.parentMsg ∧ t ≠ s ∧ t ≠ x := by
    intro t hb
    obtain ⟨e, he, a1, _, a3⟩ := below_registered_x w h s t se hs hb
    refine ⟨e, he, a1, a3, ?_⟩
    rintro rfl
    exact parent_not_below w h.treeOK s t se hs hsx hb
  by_cases hpmn : xe.parentMsg = none
  · have hsenone : se.parentMsg = none := by rw [← hpmeq, hpmn]
    rw [hrm_none hpmn]
    refine ⟨?_, ?_, ?_, ?_, ?_, ?_⟩
    · rw [updMux_get, if_pos rfl, hg2, if_neg hxs, if_pos rfl]; rfl
    · rw [updMux_get, if_neg hsx', hg2, if_pos rfl]
      congr 1
      cases se; simp_all
    · intro t hb
      obtain ⟨e, he, a1, a2, a3⟩ := hbelow_facts t hb
      rw [updMux_get, if_neg a3, hg2, if_neg a2, if_neg a3, he]
      simp only [Option.map_some, Option.some.injEq]
      exact (SigE.pmsg_eta e (by rw [a1, hsenone])).symm
    · intro t h1 h2 _
      rw [updMux_get, if_neg h1, hg2, if_neg h2, if_neg h1]
    · intro _; rw [updMux_msgs, hm2]
    · intro m hpm; rw [hpmn] at hpm; cases hpm
  · obtain ⟨m, hpm⟩ : ∃ m, xe.parentMsg = some m := by
      cases hh : xe.parentMsg with
      | none => exact absurd hh hpmn
      | some m => exact ⟨m, rfl⟩
    rw [hrm_some m hpm]
    have hsem : se.parentMsg = some m := by rw [← hpmeq, hpm]
    obtain ⟨msg, hmsg⟩ : ∃ msg, w.msgs.get m = some msg := by
      have := (h.link x xe hx).msg m hpm
      cases hg : w.msgs.get m with
      | none => rw [hg] at this; simp at this
      | some msg => exact ⟨msg, rfl⟩
    have hmsg2 : w2b.msgs.get m = some msg := by rw [hm2]; exact hmsg
    rw [msgRemoveSignal_eq w2b m s msg hmsg2]
    -- the tree of w2b
    have ht2 : TreeOK w2b := by
      refine ⟨?_, ?_, ?_⟩
      · intro t e' p ht hp
        have : ∃ pe, w.sigs.get p = some pe := by
          rw [hg2] at ht
          by_cases hts : t = s
          · rw [if_pos hts] at ht; cases ht; cases hp
          · rw [if_neg hts] at ht
            by_cases htx : t = x
            · rw [if_pos htx] at ht; cases ht
              exact h.treeOK.parentStored x xe p hx hp
            · rw [if_neg htx] at ht
              exact h.treeOK.parentStored t e' p ht hp
        obtain ⟨pe, hpe⟩ := this
        rw [hg2]
        by_cases hps : p = s
        · simp [hps]
        · by_cases hpx : p = x
          · simp [hpx, hxs]
          · simp [hps, hpx, hpe]
      · intro y c
        have hch : childrenOf w2b y = if y = x then sDel xe.mx.signals s else childrenOf w y := by
          unfold childrenOf
          rw [hg2]
          by_cases hys : y = s
          · subst hys; simp [hsx', hs]
          · by_cases hyx : y = x
            · subst hyx; simp [hys, hk, hx]
            · simp [hys, hyx]
        rw [hch]
        have hxo := h.reg xe gc gs hx hk
        by_cases hyx : y = x
        · subst hyx
          simp only [↓reduceIte, mem_sDel]
          rw [hxo.child]
          constructor
          · rintro ⟨⟨e, he, hp⟩, hcs⟩
            have hcx : c ≠ y := by rintro rfl; exact self_not_parent_x w h c e he hp
            exact ⟨e, by rw [hg2, if_neg hcs, if_neg hcx]; exact he, hp⟩
          · rintro ⟨e', he', hp⟩
            rw [hg2] at he'
            by_cases hcs : c = s
            · rw [if_pos hcs] at he'; cases he'; cases hp
            · rw [if_neg hcs] at he'
              by_cases hcx : c = y
              · rw [if_pos hcx] at he'; cases he'
                exact absurd hp (self_not_parent_x w h y xe hx)
              · rw [if_neg hcx] at he'
                exact ⟨⟨e', he', hp⟩, hcs⟩
        · rw [if_neg hyx, h.treeOK.children]
          constructor
          · rintro ⟨e, he, hp⟩
            have hcs : c ≠ s := by rintro rfl; rw [hs] at he; cases he; rw [hsx] at hp; cases hp; exact hyx rfl
            by_cases hcx : c = x
            · subst hcx
              rw [hx] at he; cases he
              exact ⟨{ xe with mx := { xe.mx with groups := G', signals := sDel xe.mx.signals s, signalNames := nmDel xe.mx.signalNames se.name } }, by rw [hg2, if_neg hcs, if_pos rfl], hp⟩
            · exact ⟨e, by rw [hg2, if_neg hcs, if_neg hcx]; exact he, hp⟩
          · rintro ⟨e', he', hp⟩
            rw [hg2] at he'
            by_cases hcs : c = s
            · rw [if_pos hcs] at he'; cases he'; cases hp
            · rw [if_neg hcs] at he'
              by_cases hcx : c = x
              · rw [if_pos hcx] at he'; cases he'
                exact ⟨xe, by rw [hcx]; exact hx, hp⟩
              · rw [if_neg hcx] at he'
                exact ⟨e', he', hp⟩
      · obtain ⟨depth, hd⟩ := h.acyclic
        refine ⟨depth, ?_⟩
        intro t e' p ht hp
        rw [hg2] at ht
        by_cases hts : t = s
        · rw [if_pos hts] at ht; cases ht; cases hp
        · rw [if_neg hts] at ht
          by_cases htx : t = x
          · rw [if_pos htx] at ht; cases ht
            rw [htx]; exact hd x xe p hx hp
          · rw [if_neg htx] at ht
            exact hd t e' p ht hp
    obtain ⟨D, hDd⟩ : ∃ D, D = descendants w2b (fuelOf w2b) s := ⟨_, rfl⟩
    rw [← hDd]
    have hpmx : ∀ i, i ≠ s → (w2b.sigs.get i).map (·.parentMux) = (w.sigs.get i).map (·.parentMux) := by
      intro i his
      rw [hg2, if_neg his]
      by_cases hix : i = x
      · simp [hix, hx]
      · simp [hix]
    have hD : ∀ t, t ∈ D ↔ Below w t s := by
      intro t
      rw [hDd, mem_descendants_iff w2b ht2]
      unfold Below
      have hs2 : ∀ e', w2b.sigs.get s = some e' → e'.parentMux = none := by
        intro e' he'; rw [hg2, if_pos rfl] at he'; cases he'; rfl
      constructor
      · rintro ⟨k, hk'⟩; exact ⟨k, (Anc_below_congr w w2b h.treeOK s hpmx hs2 k t).mp hk'⟩
      · rintro ⟨k, hk'⟩; exact ⟨k, (Anc_below_congr w w2b h.treeOK s hpmx hs2 k t).mpr hk'⟩
    have hxD : x ∉ s :: D := by
      simp only [List.mem_cons, hxs, false_or, hD]
      exact parent_not_below w h.treeOK s x se hs hsx
    have hname2 : ∀ i, nameOf w2b i = nameOf w i := by
      intro i
      unfold nameOf
      rw [hg2]
      by_cases his : i = s
      · simp [his, hs]
      · by_cases hix : i = x
        · subst hix; simp [hxs, hx]
        · simp [his, hix]
    refine ⟨?_, ?_, ?_, ?_, ?_, ?_⟩
    · rw [updMux_get, if_pos rfl]
      simp only
      rw [setParentMsgs_get, if_neg hxD, hg2, if_neg hxs, if_pos rfl]
      rfl
    · rw [updMux_get, if_neg hsx']
      simp only
      rw [setParentMsgs_get, if_pos List.mem_cons_self, hg2, if_pos rfl]
      rfl
    · intro t hb
      obtain ⟨e, he, a1, a2, a3⟩ := hbelow_facts t hb
      rw [updMux_get, if_neg a3]
      simp only
      rw [setParentMsgs_get, if_pos (List.mem_cons_of_mem _ ((hD t).mpr hb)), hg2, if_neg a2, if_neg a3]
    · intro t h1 h2 h3
      rw [updMux_get, if_neg h1]
      simp only
      have : t ∉ s :: D := by simp [h2, hD, h3]
      rw [setParentMsgs_get, if_neg this, hg2, if_neg h2, if_neg h1]
    · intro hh; rw [hpm] at hh; cases hh
    · intro m' hpm'
      rw [hpm] at hpm'; cases hpm'
      refine ⟨msg, nameOf w2b s :: ((s :: D).flatMap (childNamesOf w2b)).map (·.1), D, hmsg, hD, ?_, ?_⟩
      · intro n
        have hex : ∀ y, (y = s ∨ y ∈ descendants w2b (fuelOf w2b) s) →
            ∀ n i, (n, i) ∈ childNamesOf w2b y ↔ i ∈ childrenOf w2b y ∧ nameOf w2b i = n := by
          intro y hy n i
          have hyx : y ≠ x := by
            rintro rfl
            apply hxD
            rw [hDd]
            simpa using hy
          have hcn : childNamesOf w2b y = childNamesOf w y ∧ childrenOf w2b y = childrenOf w y := by
            unfold childNamesOf childrenOf
            rw [hg2]
            by_cases hys : y = s
            · subst hys; simp [hs]
            · simp [hys, hyx]
          rw [hcn.1, hcn.2, hname2]
          exact childNames_exact w h.namesAll y n i
        simp only [List.mem_cons, List.mem_map]
        constructor
        · rintro (rfl | ⟨p, hp, rfl⟩)
          · exact ⟨s, Or.inl rfl, (hname2 s).symm⟩
          · have := (mem_subtreeNames' w2b ht2 s hex p.1 p.2).mp (by rw [← hDd]; exact hp)
            rw [← hDd, hname2] at this
            exact ⟨p.2, Or.inr this.1, this.2⟩
        · rintro ⟨i, rfl | hi, hn⟩
          · left; rw [hname2]; exact hn.symm
          · right
            refine ⟨(n, i), ?_, rfl⟩
            have := (mem_subtreeNames' w2b ht2 s hex n i).mpr (by rw [← hDd, hname2]; exact ⟨hi, hn⟩)
            rw [← hDd] at this
            exact this
      · intro j
        rw [updMux_msgs]
        simp only [AMap.get_set, hm2]
        by_cases hj : j = m
        · simp [hj, nmDelAll]
        · simp [hj]


open Classical in
theorem inv_rm_x (w : MW) (x s : Nat) (h : InvX w x) (xe se : SigE) (gc gs : Int)
    (hx : w.sigs.get x = some xe) (hk : xe.kind = .mux gc gs)
    (hs : w.sigs.get s = some se) (hsx : se.parentMux = some x)
    (W' : MW) (mx' : MuxD)
    (hS : mx'.signals = sDel xe.mx.signals s) (hN : mx'.signalNames = nmDel xe.mx.signalNames se.name)
    (c1 : W'.sigs.get x = some { xe with mx := mx' })
    (c2 : W'.sigs.get s = some { se with parentMux := none, parentMsg := none })
    (c3 : ∀ t, Below w t s → W'.sigs.get t = (w.sigs.get t).map (fun e => { e with parentMsg := none }))
    (c4 : ∀ t, t ≠ x → t ≠ s → ¬ Below w t s → W'.sigs.get t = w.sigs.get t)
    (c5 : xe.parentMsg = none → W'.msgs = w.msgs)
    (c6 : ∀ m, xe.parentMsg = some m → ∃ msg ks D, w.msgs.get m = some msg ∧ (∀ t, t ∈ D ↔ Below w t s) ∧
         (∀ n, n ∈ ks ↔ ∃ i, i ∈ s :: D ∧ nameOf w i = n) ∧
         ∀ j, W'.msgs.get j = if j = m then some { msg with signals := sDelAll msg.signals (s :: D), signalNames := nmDelAll msg.signalNames ks } else w.msgs.get j) :
    InvX W' x := by
  have hxo := h.reg xe gc gs hx hk
  have hxs : x ≠ s := by rintro rfl; exact self_not_parent_x w h x se hs hsx
  have hpmeq : xe.parentMsg = se.parentMsg := by
    obtain ⟨xe', _, _, hx', _, hp⟩ := (h.link s se hs).parent x hsx
    rw [hx] at hx'; cases hx'; exact hp
  have hnbx : ¬ Below w x s := parent_not_below w h.treeOK s x se hs hsx
  have hbf : ∀ t, Below w t s → ∃ e, w.sigs.get t = some e ∧ e.parentMsg = xe.parentMsg ∧ e.parentMux ≠ none ∧ t ≠ s ∧ t ≠ x := by
    intro t hb
    obtain ⟨e, he, a1, a2, a3⟩ := below_registered_x w h s t se hs hb
    exact ⟨e, he, by rw [a1, hpmeq], a2, a3, by rintro rfl; exact hnbx hb⟩
  -- forward / backward
  have hfw : ∀ t e, w.sigs.get t = some e → ∃ e', W'.sigs.get t = some e' ∧ e'.name = e.name ∧
      geo e' = geo e ∧ e'.kind = e.kind ∧ (t ≠ x → e'.mx = e.mx) ∧
      e'.parentMux = (if t = s then none else e.parentMux) ∧
      e'.parentMsg = (if t = s ∨ Below w t s then none else e.parentMsg) := by
    intro t e he
    by_cases hts : t = s
    · subst hts
      rw [hs] at he; cases he
      exact ⟨_, c2, rfl, rfl, rfl, fun _ => rfl, by simp, by simp⟩
    · by_cases htx : t = x
      · subst htx
        rw [hx] at he; cases he
        exact ⟨_, c1, rfl, rfl, rfl, fun hh => absurd rfl hh, by simp [hts], by simp [hts, hnbx]⟩
      · by_cases hb : Below w t s
        · refine ⟨{ e with parentMsg := none }, by rw [c3 t hb, he]; rfl, rfl, rfl, rfl, fun _ => rfl, by simp [hts], by simp [hb]⟩
        · exact ⟨e, by rw [c4 t htx hts hb]; exact he, rfl, rfl, rfl, fun _ => rfl, by simp [hts], by simp [hts, hb]⟩
  have hbw : ∀ t e', W'.sigs.get t = some e' → ∃ e, w.sigs.get t = some e := by
    intro t e' ht
    by_cases hts : t = s
    · exact ⟨se, by rw [hts]; exact hs⟩
    · by_cases htx : t = x
      · exact ⟨xe, by rw [htx]; exact hx⟩
      · by_cases hb : Below w t s
        · obtain ⟨e, he, _⟩ := hbf t hb; exact ⟨e, he⟩
        · rw [c4 t htx hts hb] at ht; exact ⟨e', ht⟩
  have hnameW : ∀ t, nameOf W' t = nameOf w t := by
    intro t
    cases hg : w.sigs.get t with
    | none =>
      have : W'.sigs.get t = none := by
        cases hg' : W'.sigs.get t with
        | none => rfl
        | some e' => obtain ⟨e, he⟩ := hbw t e' hg'; rw [hg] at he; cases he
      simp [nameOf, hg, this]
    | some e =>
      obtain ⟨e', he', hn, _⟩ := hfw t e hg
      simp [nameOf, hg, he', hn]
  have hgeoW : ∀ g : List Nat, (∀ i ∈ g, (w.sigs.get i).isSome) → slotsOf W' g = slotsOf w g := by
    intro g hg
    apply slotsOf_congr
    intro i hi
    have := hg i hi
    cases he : w.sigs.get i with
    | none => rw [he] at this; simp at this
    | some e =>
      obtain ⟨e', he', _, hgeo, _⟩ := hfw i e he
      simp [he', hgeo]
  have hmsgdom : ∀ m, (w.msgs.get m).isSome → (W'.msgs.get m).isSome := by
    intro m hm
    cases hp : xe.parentMsg with
    | none => rw [c5 hp]; exact hm
    | some m0 =>
      obtain ⟨msg, ks, D, _, _, _, hj⟩ := c6 m0 hp
      rw [hj]
      by_cases hmm : m = m0 <;> simp [hmm, hm]
  refine ⟨?_, ?_, ?_, ?_, ?_⟩
  · -- the other multiplexers
    intro y ye' gc' gs' hy hky hyx
    obtain ⟨ye, hye⟩ := hbw y ye' hy
    obtain ⟨ye'', hy'', _, _, hkind, hmx, _⟩ := hfw y ye hye
    rw [hy] at hy''; cases hy''
    have hyo := h.mux y ye gc' gs' hye (by rw [← hkind]; exact hky) hyx
    apply hyo.frame (hmx hyx)
    · intro t ht
      obtain ⟨e, he, hp⟩ := (hyo.child t).mp ht
      have hts : t ≠ s := by
        rintro rfl
        rw [hs] at he; cases he; rw [hsx] at hp; cases hp; exact hyx rfl
      obtain ⟨e', he', a1, a2, _, _, a5, _⟩ := hfw t e he
      exact ⟨e, e', he, he', a1, by rw [a5, if_neg hts], a2⟩
    · intro t e' he' hp
      have hts : t ≠ s := by
        rintro rfl
        rw [c2] at he'; cases he'; cases hp
      obtain ⟨e, he⟩ := hbw t e' he'
      obtain ⟨e'', he'', _, _, _, _, a5, _⟩ := hfw t e he
      rw [he'] at he''; cases he''
      rw [if_neg hts] at a5
      exact (hyo.child t).mpr ⟨e, he, by rw [← a5, hp]⟩
  · -- the registry of x
    intro xe'' gc' gs' hy hky
    rw [c1] at hy
    simp only [Option.some.injEq] at hy
    subst hy
    refine ⟨?_, ?_, ?_, by show mx'.signals.Nodup; rw [hS]; exact nodup_sDel _ _ hxo.sigsNodup⟩
    · intro t
      show t ∈ mx'.signals ↔ _
      rw [hS, mem_sDel, hxo.child]
      constructor
      · rintro ⟨⟨e, he, hp⟩, hts⟩
        obtain ⟨e', he', _, _, _, _, hp', _⟩ := hfw t e he
        exact ⟨e', he', by rw [hp', if_neg hts, hp]⟩
      · rintro ⟨e', he', hp⟩
        have hts : t ≠ s := by
          rintro rfl
          rw [c2] at he'; cases he'; cases hp
        obtain ⟨e, he⟩ := hbw t e' he'
        obtain ⟨e'', he'', _, _, _, _, hp', _⟩ := hfw t e he
        rw [he'] at he''; cases he''
        rw [if_neg hts] at hp'
        exact ⟨⟨e, he, by rw [← hp', hp]⟩, hts⟩
    · show KeysNodup mx'.signalNames
      rw [hN]; exact keysNodup_nmDel _ _ hxo.namesNodup
    · intro n i
      show (n, i) ∈ mx'.signalNames ↔ i ∈ mx'.signals ∧ _
      rw [hN, hS, mem_nmDel, mem_sDel, hxo.names, hnameW]
      have hsn : nameOf w s = se.name := by simp [nameOf, hs]
      have hsch : s ∈ xe.mx.signals := (hxo.child s).mpr ⟨se, hs, hsx⟩
      constructor
      · rintro ⟨⟨hi, hn⟩, hne⟩
        refine ⟨⟨hi, ?_⟩, hn⟩
        rintro rfl
        simp only at hne
        exact hne (by rw [← hn, hsn])
      · rintro ⟨⟨hi, his⟩, hn⟩
        refine ⟨⟨hi, hn⟩, ?_⟩
        simp only
        intro hne
        apply his
        have h1 : (se.name, i) ∈ xe.mx.signalNames := (hxo.names _ _).mpr ⟨hi, by rw [hn, hne]⟩
        have h2 : (se.name, s) ∈ xe.mx.signalNames := (hxo.names _ _).mpr ⟨hsch, hsn⟩
        have e1 := (nmGet_eq_some_iff _ hxo.namesNodup _ _).mpr h1
        have e2 := (nmGet_eq_some_iff _ hxo.namesNodup _ _).mpr h2
        rw [e1] at e2
        exact Option.some.inj e2
  · -- messages
    intro j msg' hj
    have hframe : ∀ (msg : MsgE), w.msgs.get j = some msg → xe.parentMsg ≠ some j → MsgOK W' j msg := by
      intro msg hjm hne
      have hmo := h.msg j msg hjm
      have hnot : ∀ t e, w.sigs.get t = some e → e.parentMsg = some j → ¬ (t = s ∨ Below w t s) := by
        intro t e he hp hor
        rcases hor with rfl | hb
        · rw [hs] at he; cases he; rw [← hpmeq] at hp; exact hne hp
        · obtain ⟨e0, he0, a1, _⟩ := hbf t hb
          rw [he] at he0; cases he0; rw [a1] at hp; exact hne hp
      apply hmo.frame
      · intro t ht
        obtain ⟨e, he, hp⟩ := (hmo.reg t).mp ht
        have hn := hnot t e he hp
        have hts : t ≠ s := fun hh => hn (Or.inl hh)
        obtain ⟨e', he', a1, a2, _, _, a5, a6⟩ := hfw t e he
        exact ⟨e, e', he, he', ⟨a1, by rw [a5, if_neg hts], by rw [a6, if_neg hn]⟩, a2⟩
      · intro t e' he' hp
        obtain ⟨e, he⟩ := hbw t e' he'
        obtain ⟨e'', he'', _, _, _, _, _, a6⟩ := hfw t e he
        rw [he'] at he''; cases he''
        by_cases hor : t = s ∨ Below w t s
        · rw [if_pos hor] at a6; rw [a6] at hp; cases hp
        · rw [if_neg hor] at a6
          exact (hmo.reg t).mpr ⟨e, he, by rw [← a6, hp]⟩
    by_cases hpj : xe.parentMsg = some j
    · obtain ⟨msg, ks, D, hmsg, hD, hks, hget⟩ := c6 j hpj
      rw [hget, if_pos rfl] at hj
      simp only [Option.some.injEq] at hj
      subst hj
      have hmo := h.msg j msg hmsg
      have hsej : se.parentMsg = some j := by rw [← hpmeq, hpj]
      have hstl : ∀ i ∈ msg.layout, (w.sigs.get i).isSome := by
        intro i hi; obtain ⟨e, he, _⟩ := (hmo.top i).mp hi; simp [he]
      obtain ⟨r1, r2, r3⟩ := registry_del w W' j msg hmo (s :: D) ks
        (by
          intro t ht
          simp only [List.mem_cons] at ht
          rcases ht with rfl | ht
          · exact (hmo.reg t).mpr ⟨se, hs, hsej⟩
          · obtain ⟨e, he, a1, _⟩ := hbf t ((hD t).mp ht)
            exact (hmo.reg t).mpr ⟨e, he, by rw [a1, hpj]⟩)
        (by
          intro t ht e' he' hp
          have hor : t = s ∨ Below w t s := by
            simp only [List.mem_cons] at ht
            rcases ht with rfl | ht
            · exact Or.inl rfl
            · exact Or.inr ((hD t).mp ht)
          obtain ⟨e, he⟩ := hbw t e' he'
          obtain ⟨e'', he'', _, _, _, _, _, a6⟩ := hfw t e he
          rw [he'] at he''; cases he''
          rw [if_pos hor] at a6; rw [a6] at hp; cases hp)
        (by
          intro t ht
          have hor : ¬ (t = s ∨ Below w t s) := by
            simp only [List.mem_cons, not_or] at ht
            rintro (rfl | hb)
            · exact ht.1 rfl
            · exact ht.2 ((hD t).mpr hb)
          constructor
          · rintro ⟨e', he', hp⟩
            obtain ⟨e, he⟩ := hbw t e' he'
            obtain ⟨e'', he'', _, _, _, _, _, a6⟩ := hfw t e he
            rw [he'] at he''; cases he''
            rw [if_neg hor] at a6
            exact ⟨e, he, by rw [← a6, hp]⟩
          · rintro ⟨e, he, hp⟩
            obtain ⟨e', he', _, _, _, _, _, a6⟩ := hfw t e he
            exact ⟨e', he', by rw [a6, if_neg hor, hp]⟩)
        (fun t _ => hnameW t) hks
      refine ⟨hmo.cap, ?_, hmo.nodup, ?_, r1, r2, r3⟩
      · show WF msg.cap (slotsOf W' msg.layout)
        rw [hgeoW _ hstl]; exact hmo.wf
      · intro t
        show t ∈ msg.layout ↔ _
        rw [hmo.top]
        constructor
        · rintro ⟨e, he, hp1, hp2⟩
          have hts : t ≠ s := by rintro rfl; rw [hs] at he; cases he; rw [hsx] at hp1; cases hp1
          have hnb : ¬ Below w t s := by
            intro hb
            obtain ⟨e0, he0, _, a2, _⟩ := hbf t hb
            rw [he] at he0; cases he0; exact a2 hp1
          obtain ⟨e', he', _, _, _, _, a5, a6⟩ := hfw t e he
          exact ⟨e', he', by rw [a5, if_neg hts, hp1], by rw [a6, if_neg (by simp [hts, hnb]), hp2]⟩
        · rintro ⟨e', he', hp1, hp2⟩
          obtain ⟨e, he⟩ := hbw t e' he'
          obtain ⟨e'', he'', _, _, _, _, a5, a6⟩ := hfw t e he
          rw [he'] at he''; cases he''
          by_cases hor : t = s ∨ Below w t s
          · rw [if_pos hor] at a6; rw [a6] at hp2; cases hp2
          · rw [if_neg hor] at a6
            have hts : t ≠ s := fun hh => hor (Or.inl hh)
            rw [if_neg hts] at a5
            exact ⟨e, he, by rw [← a5, hp1], by rw [← a6, hp2]⟩
    · have hjw : w.msgs.get j = some msg' := by
        cases hp : xe.parentMsg with
        | none => rw [c5 hp] at hj; exact hj
        | some m0 =>
          obtain ⟨msg, ks, D, _, _, _, hget⟩ := c6 m0 hp
          rw [hget] at hj
          have : j ≠ m0 := by rintro rfl; exact hpj hp
          rw [if_neg this] at hj; exact hj
      exact hframe msg' hjw hpj
  · -- links
    intro t e' ht
    obtain ⟨e, he⟩ := hbw t e' ht
    obtain ⟨e'', he'', _, _, a4, _, a5, a6⟩ := hfw t e he
    rw [ht] at he''; cases he''
    have hl := h.link t e he
    refine ⟨fun z hz => hl.size z (by rw [← a4]; exact hz), ?_, ?_⟩
    · intro p hp
      have hts : t ≠ s := by rintro rfl; rw [if_pos rfl] at a5; rw [a5] at hp; cases hp
      rw [if_neg hts] at a5
      have hp0 : e.parentMux = some p := by rw [← a5, hp]
      obtain ⟨pe, gc', gs', b1, b2, b3⟩ := hl.parent p hp0
      obtain ⟨pe', c1', _, _, c4', _, _, c7⟩ := hfw p pe b1
      refine ⟨pe', gc', gs', c1', by rw [c4']; exact b2, ?_⟩
      rw [c7, a6]
      have hiff := below_parent w t s e p he hp0
      by_cases hb : Below w t s
      · have := hiff.mp hb
        simp [hb, this]
      · have hnp : ¬ (p = s ∨ Below w p s) := fun hh => hb (hiff.mpr hh)
        simp [hts, hb, hnp, b3]
    · intro m hm
      rw [a6] at hm
      by_cases hor : t = s ∨ Below w t s
      · rw [if_pos hor] at hm; cases hm
      · rw [if_neg hor] at hm
        exact hmsgdom m (hl.msg m hm)
  · obtain ⟨depth, hd⟩ := h.acyclic
    refine ⟨depth, ?_⟩
    intro t e' p ht hp
    obtain ⟨e, he⟩ := hbw t e' ht
    obtain ⟨e'', he'', _, _, _, _, a5, _⟩ := hfw t e he
    rw [ht] at he''; cases he''
    have hts : t ≠ s := by rintro rfl; rw [if_pos rfl] at a5; rw [a5] at hp; cases hp
    rw [if_neg hts] at a5
    exact hd t e p he (by rw [← a5, hp])



theorem invX_replace_body (w W' : MW) (x : Nat) (h : InvX w x) (xe xe' : SigE) (gc gs : Int)
    (hx : w.sigs.get x = some xe) (hk : xe.kind = .mux gc gs)
    (hxe' : xe'.name = xe.name ∧ xe'.kind = xe.kind ∧ xe'.rel = xe.rel ∧ xe'.parentMux = xe.parentMux ∧ xe'.parentMsg = xe.parentMsg)
    (hmsgs : W'.msgs = w.msgs)
    (hgx : W'.sigs.get x = some xe') (hgo : ∀ i, i ≠ x → W'.sigs.get i = w.sigs.get i)
    (hreg : RegOK W' x xe') : InvX W' x := by
  have hfw : ∀ t e, w.sigs.get t = some e → ∃ e', W'.sigs.get t = some e' ∧ e'.name = e.name ∧
      e'.kind = e.kind ∧ geo e' = geo e ∧ e'.parentMux = e.parentMux ∧ e'.parentMsg = e.parentMsg ∧
      (t ≠ x → e' = e) := by
    intro t e he
    by_cases htx : t = x
    · subst htx
      rw [hx] at he; cases he
      exact ⟨xe', hgx, hxe'.1, hxe'.2.1, by simp [geo, sigSize, hxe'.2.1, hxe'.2.2.1], hxe'.2.2.2.1, hxe'.2.2.2.2,
        fun hh => absurd rfl hh⟩
    · exact ⟨e, by rw [hgo t htx]; exact he, rfl, rfl, rfl, rfl, rfl, fun _ => rfl⟩
  have hbw : ∀ t e', W'.sigs.get t = some e' → ∃ e, w.sigs.get t = some e := by
    intro t e' ht
    by_cases htx : t = x
    · exact ⟨xe, by rw [htx]; exact hx⟩
    · rw [hgo t htx] at ht; exact ⟨e', ht⟩
  refine ⟨?_, ?_, ?_, ?_, ?_⟩
  · intro y ye' gc' gs' hy hky hyx
    rw [hgo y hyx] at hy
    have hyo := h.mux y ye' gc' gs' hy hky hyx
    apply hyo.frame rfl
    · intro t ht
      obtain ⟨e, he, _⟩ := (hyo.child t).mp ht
      obtain ⟨e', he', a1, _, a3, a4, _⟩ := hfw t e he
      exact ⟨e, e', he, he', a1, a4, a3⟩
    · intro t e' he' hp
      obtain ⟨e, he⟩ := hbw t e' he'
      obtain ⟨e'', he'', _, _, _, a4, _⟩ := hfw t e he
      rw [he'] at he''; cases he''
      exact (hyo.child t).mpr ⟨e, he, by rw [← a4, hp]⟩
  · intro xe'' gc' gs' hy hky
    rw [hgx] at hy; cases hy
    exact hreg
  · intro m msg hm
    rw [hmsgs] at hm
    have hmo := h.msg m msg hm
    apply hmo.frame
    · intro t ht
      obtain ⟨e, he, _⟩ := (hmo.reg t).mp ht
      obtain ⟨e', he', a1, _, a3, a4, a5, _⟩ := hfw t e he
      exact ⟨e, e', he, he', ⟨a1, a4, a5⟩, a3⟩
    · intro t e' he' hp
      obtain ⟨e, he⟩ := hbw t e' he'
      obtain ⟨e'', he'', _, _, _, _, a5, _⟩ := hfw t e he
      rw [he'] at he''; cases he''
      exact (hmo.reg t).mpr ⟨e, he, by rw [← a5, hp]⟩
  · intro t e' ht
    obtain ⟨e, he⟩ := hbw t e' ht
    obtain ⟨e'', he'', _, a2, _, a4, a5, _⟩ := hfw t e he
    rw [ht] at he''; cases he''
    have hl := h.link t e he
    refine ⟨fun z hz => hl.size z (by rw [← a2]; exact hz), ?_, ?_⟩
    · intro p hp
      obtain ⟨pe, gc', gs', b1, b2, b3⟩ := hl.parent p (by rw [← a4, hp])
      obtain ⟨pe', c1, _, c3, _, _, c6, _⟩ := hfw p pe b1
      exact ⟨pe', gc', gs', c1, by rw [c3]; exact b2, by rw [c6, b3, a5]⟩
    · intro m hm
      rw [hmsgs]
      exact hl.msg m (by rw [← a5, hm])
  · obtain ⟨depth, hd⟩ := h.acyclic
    refine ⟨depth, ?_⟩
    intro t e' p ht hp
    obtain ⟨e, he⟩ := hbw t e' ht
    obtain ⟨e'', he'', _, _, _, a4, _⟩ := hfw t e he
    rw [ht] at he''; cases he''
    exact hd t e p he (by rw [← a4, hp])

theorem updMux_id_get (w : MW) (x : Nat) (i : Nat) : (updMux w x (fun d => d)).sigs.get i = w.sigs.get i := by
  rw [updMux_get]
  by_cases hi : i = x
  · subst hi
    rw [if_pos rfl]
    cases w.sigs.get i with
    | none => rfl
    | some e => rfl
  · rw [if_neg hi]

/-- one `ms.removeSignal(sig)` of a child keeps the invariant without the group clauses -/
theorem invX_muxRemoveSignal (v : MW) (x c : Nat) (h : InvX v x) (xe ce : SigE) (gc gs : Int)
    (hx : v.sigs.get x = some xe) (hk : xe.kind = .mux gc gs)
    (hc : v.sigs.get c = some ce) (hcx : ce.parentMux = some x) :
    InvX (muxRemoveSignal v x c) x ∧
    ∃ xe', (muxRemoveSignal v x c).sigs.get x = some xe' ∧ xe'.kind = xe.kind ∧
      xe'.mx.groups = xe.mx.groups ∧ xe'.mx.signals = sDel xe.mx.signals c := by
  have hg1 : ∀ i, v.sigs.get i = if i = x then some { xe with mx := { xe.mx with groups := xe.mx.groups } } else v.sigs.get i := by
    intro i
    by_cases hi : i = x
    · subst hi; rw [if_pos rfl, hx]
    · rw [if_neg hi]
  obtain ⟨c1, c2, c3, c4, c5, c6⟩ := rmTail_spec_x v x c h xe ce gc gs hx hk hc hcx v xe.mx.groups rfl hg1 (fun d => d)
  have hconv : ∀ i, (rmTail v x c (fun d => d)).sigs.get i = (muxRemoveSignal v x c).sigs.get i := by
    intro i; unfold rmTail; exact updMux_id_get _ _ _
  have hconvm : (rmTail v x c (fun d => d)).msgs = (muxRemoveSignal v x c).msgs := by
    unfold rmTail; exact updMux_msgs _ _ _
  rw [hconv] at c1 c2
  constructor
  · apply inv_rm_x v x c h xe ce gc gs hx hk hc hcx (muxRemoveSignal v x c) _ rfl rfl c1 c2
    · intro t hb; rw [← hconv]; exact c3 t hb
    · intro t h1 h2 h3; rw [← hconv]; exact c4 t h1 h2 h3
    · intro hp; rw [← hconvm]; exact c5 hp
    · intro m hp
      obtain ⟨msg, ks, D, a1, a2, a3, a4⟩ := c6 m hp
      exact ⟨msg, ks, D, a1, a2, a3, fun j => by rw [← hconvm]; exact a4 j⟩
  · exact ⟨_, c1, rfl, rfl, rfl⟩

theorem removeChildren_inv (x : Nat) (gc gs : Int) :
    ∀ (l : List Nat) (v : MW) (xe : SigE), InvX v x → v.sigs.get x = some xe → xe.kind = .mux gc gs →
      (∀ c ∈ l, c ∈ xe.mx.signals) → l.Nodup →
      InvX (removeChildren v x l) x ∧
      ∃ xe', (removeChildren v x l).sigs.get x = some xe' ∧ xe'.kind = xe.kind ∧
        xe'.mx.groups = xe.mx.groups ∧ ∀ t, t ∈ xe'.mx.signals ↔ t ∈ xe.mx.signals ∧ t ∉ l := by
  intro l
  induction l with
  | nil =>
    intro v xe h hx _ _ _
    exact ⟨h, xe, hx, rfl, rfl, fun t => by simp⟩
  | cons c rest ih =>
    intro v xe h hx hk hmem hnd
    simp only [List.nodup_cons] at hnd
    simp only [removeChildren]
    have hcs := hmem c List.mem_cons_self
    obtain ⟨ce, hc, hcx⟩ := ((h.reg xe gc gs hx hk).child c).mp hcs
    obtain ⟨i1, xe1, x1, x2, x3, x4⟩ := invX_muxRemoveSignal v x c h xe ce gc gs hx hk hc hcx
    obtain ⟨j1, xe2, y1, y2, y3, y4⟩ := ih (muxRemoveSignal v x c) xe1 i1 x1 (by rw [x2]; exact hk)
      (by
        intro c' hc'
        rw [x4, mem_sDel]
        exact ⟨hmem c' (List.mem_cons_of_mem _ hc'), by rintro rfl; exact hnd.1 hc'⟩)
      hnd.2
    refine ⟨j1, xe2, y1, by rw [y2, x2], by rw [y3, x3], ?_⟩
    intro t
    rw [y4, x4, mem_sDel]
    simp only [List.mem_cons, not_or]
    tauto

theorem inv_muxClearAll (w : MW) (h : InvCore w) (x : Nat) :
    InvCore (doMuxClearAll w x).1 ∧ (doMuxClearAll w x).2 ≠ .panic := by
  cases hx : w.sigs.get x with
  | none => simp only [doMuxClearAll, hx]; exact ⟨h, by simp⟩
  | some xe =>
    cases hk : xe.kind with
    | leaf z => simp only [doMuxClearAll, hx, hk]; exact ⟨h, by simp⟩
    | mux gc gs =>
      simp only [doMuxClearAll, hx, hk]
      refine ⟨?_, by simp⟩
      have hxo := h.muxOK hx hk
      obtain ⟨i1, xe', x1, x2, x3, x4⟩ := removeChildren_inv x gc gs xe.mx.signals w xe (h.invX x) hx hk
        (fun c hc => hc) hxo.sigsNodup
      generalize hv : removeChildren w x xe.mx.signals = v at i1 x1
      have hsigs : xe'.mx.signals = [] := by
        apply List.eq_nil_iff_forall_not_mem.mpr
        intro t ht
        exact ((x4 t).mp ht).2 ((x4 t).mp ht).1
      have hk' : xe'.kind = .mux gc gs := by rw [x2]; exact hk
      have hreg := i1.reg xe' gc gs x1 hk'
      have hnames : xe'.mx.signalNames = [] := by
        apply List.eq_nil_iff_forall_not_mem.mpr
        rintro ⟨n, i⟩ hni
        have := ((hreg.names n i).mp hni).1
        rw [hsigs] at this; cases this
      -- the final world
      generalize hW : updMux v x (fun d => { d with groups := d.groups.map (fun _ => []), groupIds := {}, fixed := [] }) = W'
      have hgW : ∀ i, W'.sigs.get i = if i = x then some { xe' with mx := { xe'.mx with groups := xe'.mx.groups.map (fun _ => []), groupIds := {}, fixed := [] } } else v.sigs.get i := by
        intro i; rw [← hW, updMux_get, x1]; rfl
      have hmW : W'.msgs = v.msgs := by rw [← hW]; exact updMux_msgs _ _ _
      have hregW : RegOK W' x { xe' with mx := { xe'.mx with groups := xe'.mx.groups.map (fun _ => []), groupIds := {}, fixed := [] } } := by
        refine ⟨?_, hreg.namesNodup, ?_, hreg.sigsNodup⟩
        · intro t
          show t ∈ xe'.mx.signals ↔ _
          rw [hreg.child]
          constructor
          · rintro ⟨e, he, hp⟩
            have htx : t ≠ x := by rintro rfl; exact self_not_parent_x v i1 t e he hp
            exact ⟨e, by rw [hgW, if_neg htx]; exact he, hp⟩
          · rintro ⟨e', he', hp⟩
            have htx : t ≠ x := by
              rintro rfl
              rw [hgW, if_pos rfl] at he'; cases he'
              exact self_not_parent_x v i1 t xe' x1 hp
            rw [hgW, if_neg htx] at he'
            exact ⟨e', he', hp⟩
        · intro n i
          show (n, i) ∈ xe'.mx.signalNames ↔ i ∈ xe'.mx.signals ∧ _
          rw [hsigs, hnames]; simp
      have hX := invX_replace_body v W' x i1 xe'
        { xe' with mx := { xe'.mx with groups := xe'.mx.groups.map (fun _ => []), groupIds := {}, fixed := [] } }
        gc gs x1 hk' ⟨rfl, rfl, rfl, rfl, rfl⟩ hmW
        (by rw [hgW, if_pos rfl]) (fun i hi => by rw [hgW, if_neg hi]) hregW
      apply hX.toCore
      intro xe'' gc' gs' hy hky
      rw [hgW, if_pos rfl] at hy
      cases hy
      have hkk : xe'.kind = .mux gc' gs' := hky
      rw [hk'] at hkk
      simp only [SKind.mux.injEq] at hkk
      obtain ⟨rfl, rfl⟩ := hkk
      refine ⟨⟨by simp [x3, hxo.shape.1], hxo.shape.2.1, hxo.shape.2.2⟩, ?_, ?_, ?_, ?_, ?_, ?_, ?_, hregW.child,
        hregW.namesNodup, hregW.names, hregW.sigsNodup⟩
      · intro g hg
        simp only [List.mem_map] at hg
        obtain ⟨_, _, rfl⟩ := hg
        simp only [slotsOf, WF, WFfrom]
        have := hxo.shape.2.2; omega
      · intro g hg
        simp only [List.mem_map] at hg
        obtain ⟨_, _, rfl⟩ := hg
        exact List.nodup_nil
      · intro t ht; cases ht
      · intro t gids hh; simp [AMap_get_empty] at hh
      · intro t _ _ g hg
        simp only [List.mem_map] at hg
        obtain ⟨_, _, rfl⟩ := hg
        simp
      · intro t
        show t ∈ xe'.mx.signals ↔ _
        rw [hsigs]; simp [AMap_get_empty]
      · intro t ht; cases ht

end Acme.Mux
